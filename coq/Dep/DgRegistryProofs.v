(* C07 - the dependency group registry of DgModel.v: runtime AddDependency/RemoveDependency keep the
   registry and the per-child group slots equal (as observations) to what a fresh load of the
   surviving dependency set gives.

   Main results
     dg_ckey_eqb_eq, dg_key_eqb_eq, dg_gid_eqb_refl/sym/trans
     dg_registry_nonvacuous          (a shared redundancy group splits and merges again: sizes 1,2,1)
     dg_reg_wf S s                   "s is the grouping of the dependency set S" (slots: dg_swf, registry: dg_rwf;
                                     group identities up to DependencyGroup::Equal = dg_gid_eq, members up to order)
     dg_reg_wf_fresh, dg_reg_wf_add, dg_reg_wf_remove   (fresh load / AddDependency / RemoveDependency keep it)
     dg_reg_wf_equiv                 (two well-formed states of the same set are observationally equal)
     dg_registry_run_fresh, dg_registry_from_empty      (the property)
     dg_reg_equiv_child_count        (equivalent states give every child the same number of groups)

   Proof idea: a registry group's identity (name + composite-key set) is fixed at creation and every child in
   it contributes, under its slot key, dependencies with exactly that key set (dg_gid_rel).  Hence taking one
   child out (dg_rwf_unregister) does not change the identity the other members produce, and a child cannot
   be in one group through two different slot keys (dg_gid_rel_key_inj). *)
From Icv Require Import Base.Tac Dep.DgModel.
From Coq Require Import Permutation.

(* ---------------- equality tests ---------------- *)
Lemma dg_optnat_eqb_eq : forall a b, dg_optnat_eqb a b = true <-> a = b.
Proof.
  destruct a, b; simpl; try (split; discriminate); try tauto.
  rewrite Nat.eqb_eq. split; intros H; [subst | inv H]; reflexivity.
Qed.

Lemma dg_ckey_eqb_eq : forall a b, dg_ckey_eqb a b = true <-> a = b.
Proof.
  intros [[[p1 t1] f1] i1] [[[p2 t2] f2] i2]. unfold dg_ckey_eqb.
  rewrite !andb_true_iff, Nat.eqb_eq, dg_optnat_eqb_eq, Z.eqb_eq, Bool.eqb_true_iff.
  split.
  - intros [[[-> ->] ->] ->]; reflexivity.
  - intros H; inv H; auto.
Qed.

Lemma dg_key_eqb_eq : forall a b, dg_key_eqb a b = true <-> a = b.
Proof.
  destruct a, b; simpl; try (split; discriminate);
    rewrite Nat.eqb_eq; split; intros H; [subst | inv H | subst | inv H]; reflexivity.
Qed.

Lemma dg_key_eqb_refl : forall a, dg_key_eqb a a = true.
Proof. intros; apply dg_key_eqb_eq; reflexivity. Qed.

Lemma dg_ckey_mem_in : forall k l, dg_ckey_mem k l = true <-> In k l.
Proof.
  intros k l. unfold dg_ckey_mem. rewrite existsb_exists. split.
  - intros [x [Hx He]]. apply dg_ckey_eqb_eq in He. subst; auto.
  - intros H. exists k. split; auto. apply dg_ckey_eqb_eq; reflexivity.
Qed.

Lemma dg_ckey_dedup_in : forall x l, In x (dg_ckey_dedup l) <-> In x l.
Proof.
  induction l as [|k r IH]; simpl; [tauto|].
  destruct (dg_ckey_mem k r) eqn:E.
  - apply dg_ckey_mem_in in E. rewrite IH. split; auto. intros [H|H]; subst; auto.
  - simpl. rewrite IH. tauto.
Qed.

(* the meaning of DependencyGroup::Equal *)
Definition dg_gid_eq (a b : dg_gid) : Prop :=
  dgi_name a = dgi_name b /\ forall x, In x (dgi_keys a) <-> In x (dgi_keys b).

Lemma dg_gid_eqb_iff : forall a b, dg_gid_eqb a b = true <-> dg_gid_eq a b.
Proof.
  intros a b. unfold dg_gid_eqb, dg_gid_eq.
  rewrite !andb_true_iff, dg_optnat_eqb_eq, !forallb_forall. split.
  - intros [[Hn H1] H2]. split; auto. intros x; split; intros Hx.
    + apply dg_ckey_mem_in, H1; auto.
    + apply dg_ckey_mem_in, H2; auto.
  - intros [Hn H]. repeat split; auto; intros x Hx; apply dg_ckey_mem_in, H; auto.
Qed.

Lemma dg_gid_eqb_false : forall a b, dg_gid_eqb a b = false <-> ~ dg_gid_eq a b.
Proof.
  intros a b. rewrite <- dg_gid_eqb_iff. destruct (dg_gid_eqb a b); split; intros H; auto; try discriminate.
  exfalso; apply H; reflexivity.
Qed.

Lemma dg_gid_eq_refl : forall a, dg_gid_eq a a.
Proof. intros a; split; auto; tauto. Qed.

Lemma dg_gid_eq_sym : forall a b, dg_gid_eq a b -> dg_gid_eq b a.
Proof. intros a b [H1 H2]; split; auto. intros x; symmetry; auto. Qed.

Lemma dg_gid_eq_trans : forall a b c, dg_gid_eq a b -> dg_gid_eq b c -> dg_gid_eq a c.
Proof.
  intros a b c [H1 H2] [H3 H4]; split; [congruence|]. intros x; rewrite H2; auto.
Qed.

Lemma dg_gid_eqb_refl : forall a, dg_gid_eqb a a = true.
Proof. intros; apply dg_gid_eqb_iff, dg_gid_eq_refl. Qed.

Lemma dg_gid_eqb_sym : forall a b, dg_gid_eqb a b = dg_gid_eqb b a.
Proof.
  intros a b. destruct (dg_gid_eqb a b) eqn:E1, (dg_gid_eqb b a) eqn:E2; auto.
  - apply dg_gid_eqb_iff, dg_gid_eq_sym, dg_gid_eqb_iff in E1. congruence.
  - apply dg_gid_eqb_iff, dg_gid_eq_sym, dg_gid_eqb_iff in E2. congruence.
Qed.

Lemma dg_gid_eqb_trans : forall a b c,
  dg_gid_eqb a b = true -> dg_gid_eqb b c = true -> dg_gid_eqb a c = true.
Proof.
  intros a b c H1 H2. apply dg_gid_eqb_iff. apply dg_gid_eqb_iff in H1. apply dg_gid_eqb_iff in H2.
  eapply dg_gid_eq_trans; eauto.
Qed.

(* ---------------- a concrete run (test/icinga-dependencies.cpp,
   simple_redundancy_group_registration_unregistration) ---------------- *)
Definition dg_ex_dep (id c p : nat) : dg_dep :=
  {| dgd_id := id; dgd_child := c; dgd_parent := p; dgd_rg := Some 7; dgd_filter := 1%Z;
     dgd_iss := false; dgd_period := None; dgd_dc := true; dgd_dn := true |}.

(* children C = 1, D = 2; parents A = 10, B = 11; one redundancy group "7" *)
Definition dg_ex_S0 : list dg_dep :=
  [dg_ex_dep 1 1 10; dg_ex_dep 2 1 11; dg_ex_dep 3 2 10; dg_ex_dep 4 2 11].

Definition dg_deps_ok (S : list dg_dep) : Prop := NoDup (map dgd_id S).

Fixpoint dg_ops_valid (S : list dg_dep) (ops : list dg_regop) : Prop :=
  match ops with
  | [] => True
  | o :: r =>
      match o with
      | DgRAdd d => ~ In (dgd_id d) (map dgd_id S)
      | DgRRemove d => In d S
      end /\ dg_ops_valid (dg_set_step S o) r
  end.

Example dg_registry_nonvacuous :
  dg_deps_ok dg_ex_S0 /\
  dg_ops_valid dg_ex_S0 [DgRRemove (dg_ex_dep 1 1 10); DgRAdd (dg_ex_dep 1 1 10)] /\
  length (dgx_registry (dg_reg_fresh dg_ex_S0)) = 1 /\
  length (dgx_registry (dg_reg_run (dg_reg_fresh dg_ex_S0) [DgRRemove (dg_ex_dep 1 1 10)])) = 2 /\
  length (dgx_registry (dg_reg_run (dg_reg_fresh dg_ex_S0)
            [DgRRemove (dg_ex_dep 1 1 10); DgRAdd (dg_ex_dep 1 1 10)])) = 1 /\
  length (dgx_groups (dg_reg_run (dg_reg_fresh dg_ex_S0)
            [DgRRemove (dg_ex_dep 1 1 10); DgRAdd (dg_ex_dep 1 1 10)])) = 2.
Proof.
  split; [|split; [|repeat split; vm_compute; reflexivity]].
  - unfold dg_deps_ok; simpl. repeat constructor; simpl; intuition discriminate.
  - simpl. repeat split; auto.
    intros H; repeat (destruct H as [H|H]; [discriminate|]); exact H.
Qed.

(* ---------------- the dependencies of child c under key k ---------------- *)
Definition dg_at (c : nat) (k : dg_key) (d : dg_dep) : Prop :=
  dgd_child d = c /\ dg_key_of d = k.

Definition dg_atb (c : nat) (k : dg_key) (d : dg_dep) : bool :=
  Nat.eqb (dgd_child d) c && dg_key_eqb (dg_key_of d) k.

Lemma dg_atb_iff : forall c k d, dg_atb c k d = true <-> dg_at c k d.
Proof.
  intros. unfold dg_atb, dg_at. rewrite andb_true_iff, Nat.eqb_eq, dg_key_eqb_eq. tauto.
Qed.

Lemma dg_at_dec : forall c k d, dg_at c k d \/ ~ dg_at c k d.
Proof.
  intros. rewrite <- dg_atb_iff. destruct (dg_atb c k d); auto.
Qed.

Lemma dg_pair_dec : forall (c c' : nat) (k k' : dg_key), (c' = c /\ k' = k) \/ ~ (c' = c /\ k' = k).
Proof.
  intros. destruct (Nat.eq_dec c' c) as [H|H]; [|right; tauto].
  destruct (dg_key_eqb k' k) eqn:E.
  - apply dg_key_eqb_eq in E. auto.
  - right. intros [_ H2]. apply dg_key_eqb_eq in H2. congruence.
Qed.

Definition dg_ck (S : list dg_dep) (c : nat) (k : dg_key) : list dg_dep :=
  filter (fun d => dg_key_eqb (dg_key_of d) k) (dg_child_deps S c).

Lemma dg_ck_in : forall S c k d, In d (dg_ck S c k) <-> In d S /\ dg_at c k d.
Proof.
  intros. unfold dg_ck, dg_child_deps, dg_at. rewrite !filter_In, Nat.eqb_eq, dg_key_eqb_eq. tauto.
Qed.

Definition dg_has (S : list dg_dep) (c : nat) (k : dg_key) : Prop :=
  exists d, In d S /\ dg_at c k d.

Lemma dg_list_nil : forall (A : Type) (l : list A), l = [] <-> forall x, ~ In x l.
Proof.
  intros A l; split.
  - intros -> x H; exact H.
  - destruct l as [|a r]; auto. intros H. exfalso. apply (H a). left; auto.
Qed.

Lemma dg_list_nonnil : forall (A : Type) (l : list A), l <> [] <-> exists x, In x l.
Proof.
  intros A l; split.
  - destruct l as [|a r]; [congruence|]. intros _. exists a; left; auto.
  - intros [x Hx] ->. exact Hx.
Qed.

Lemma dg_ck_nonnil : forall S c k, dg_ck S c k <> [] <-> dg_has S c k.
Proof.
  intros. rewrite dg_list_nonnil. unfold dg_has.
  split; intros [d H]; exists d; apply dg_ck_in; auto.
Qed.

Lemma dg_ck_nil : forall S c k, dg_ck S c k = [] <-> ~ dg_has S c k.
Proof.
  intros. rewrite dg_list_nil. unfold dg_has. split.
  - intros H [d Hd]. apply (H d), dg_ck_in; auto.
  - intros H d Hd. apply H. exists d. apply dg_ck_in; auto.
Qed.

Lemma dg_ck_nodup : forall S c k, NoDup S -> NoDup (dg_ck S c k).
Proof. intros. unfold dg_ck, dg_child_deps. apply NoDup_filter, NoDup_filter; auto. Qed.

Definition dg_kname (k : dg_key) : option nat :=
  match k with DgKGroup n => Some n | DgKParent _ => None end.

Lemma dg_rg_kname : forall d, dgd_rg d = dg_kname (dg_key_of d).
Proof. intros d. unfold dg_key_of. destruct (dgd_rg d); reflexivity. Qed.

Definition dg_gid_ck (S : list dg_dep) (c : nat) (k : dg_key) : dg_gid :=
  dgr_gid (dg_mkgrp (dg_kname k) (dg_ck S c k)).

(* "g is (Equal to) the group identity that the dependencies of c under k produce" *)
Definition dg_gid_rel (S : list dg_dep) (c : nat) (k : dg_key) (g : dg_gid) : Prop :=
  dg_kname k = dgi_name g /\
  forall x, In x (dgi_keys g) <-> exists d, In d S /\ dg_at c k d /\ dg_ckey_of d = x.

Lemma dg_gid_rel_mk : forall ds S c k,
  (forall d, In d ds <-> In d S /\ dg_at c k d) ->
  dg_gid_rel S c k (dgr_gid (dg_mkgrp (dg_kname k) ds)).
Proof.
  intros ds S c k H. split; [reflexivity|]. intros x. simpl.
  rewrite dg_ckey_dedup_in, in_map_iff. split.
  - intros [d [H1 H2]]. apply H in H2. exists d; tauto.
  - intros [d [H1 [H2 H3]]]. exists d. split; auto. apply H; auto.
Qed.

Lemma dg_gid_rel_ck : forall S c k, dg_gid_rel S c k (dg_gid_ck S c k).
Proof. intros. apply dg_gid_rel_mk. intros d. apply dg_ck_in. Qed.

Lemma dg_gid_rel_eq_r : forall S c k g g', dg_gid_rel S c k g -> dg_gid_eq g g' -> dg_gid_rel S c k g'.
Proof.
  intros S c k g g' [H1 H2] [H3 H4]. split; [congruence|]. intros x. rewrite <- H4. apply H2.
Qed.

Lemma dg_gid_rel_fun : forall S c k g g', dg_gid_rel S c k g -> dg_gid_rel S c k g' -> dg_gid_eq g g'.
Proof.
  intros S c k g g' [H1 H2] [H3 H4]. split; [congruence|]. intros x. rewrite H2, H4. tauto.
Qed.

(* the suggested boolean form *)
Lemma dg_gid_rel_eqb : forall S c k g,
  dg_gid_rel S c k g <-> dg_gid_eqb g (dg_gid_ck S c k) = true.
Proof.
  intros. rewrite dg_gid_eqb_iff. split; intros H.
  - eapply dg_gid_rel_fun; eauto. apply dg_gid_rel_ck.
  - eapply dg_gid_rel_eq_r; [apply dg_gid_rel_ck|]. apply dg_gid_eq_sym; auto.
Qed.

Lemma dg_gid_rel_ext : forall S S' c k g,
  (forall d, dg_at c k d -> (In d S <-> In d S')) -> dg_gid_rel S c k g -> dg_gid_rel S' c k g.
Proof.
  intros S S' c k g H [H1 H2]. split; auto. intros x. rewrite H2.
  split; intros [d [Ha [Hb Hc]]]; exists d; (split; [apply (H d Hb); auto | split; auto]).
Qed.

Lemma dg_has_ext : forall S S' c k,
  (forall d, dg_at c k d -> In d S -> In d S') -> dg_has S c k -> dg_has S' c k.
Proof. intros S S' c k H [d [H1 H2]]. exists d; split; auto. Qed.

(* one child cannot reach the same registry group through two different keys *)
Lemma dg_gid_rel_key_inj : forall S c k k' g,
  dg_gid_rel S c k g -> dg_gid_rel S c k' g -> dg_has S c k -> k = k'.
Proof.
  intros S c k k' g [N1 K1] [N2 K2] [d [Hd [Hc Hk]]].
  destruct k as [p|n], k' as [p'|n']; simpl in *; try congruence.
  f_equal.
  assert (Hx : In (dg_ckey_of d) (dgi_keys g)).
  { apply K1. exists d. repeat split; auto. }
  apply K2 in Hx. destruct Hx as [d' [_ [[_ Hk'] He]]].
  unfold dg_key_of in Hk, Hk'. unfold dg_ckey_of in He.
  destruct (dgd_rg d); [discriminate|]. destruct (dgd_rg d'); [discriminate|].
  inv Hk. inv Hk'. inv He. congruence.
Qed.

Lemma dg_at_same : forall c k c' k' d, dg_at c k d -> dg_at c' k' d -> c' = c /\ k' = k.
Proof. unfold dg_at; intros; split; destruct H, H0; congruence. Qed.

(* ---------------- the per-child slots ---------------- *)
Lemma dg_slot_eqb_iff : forall c k c' k' g, dg_slot_eqb c k (c', k', g) = true <-> c' = c /\ k' = k.
Proof. intros. simpl. rewrite andb_true_iff, Nat.eqb_eq, dg_key_eqb_eq. tauto. Qed.

Lemma dg_find_none_filter : forall (A : Type) (p : A -> bool) l, find p l = None -> filter p l = [].
Proof.
  induction l as [|a r IH]; simpl; auto. destruct (p a); [discriminate|auto].
Qed.

Lemma dg_slot_find_none_filter : forall l c k, dg_slot_find l c k = None -> filter (dg_slot_eqb c k) l = [].
Proof.
  intros l c k H. apply dg_find_none_filter. unfold dg_slot_find in H.
  destruct (find (dg_slot_eqb c k) l) as [[[? ?] ?]|]; [discriminate|reflexivity].
Qed.

Lemma dg_slot_find_erase_same : forall l c k, dg_slot_find (dg_slot_erase l c k) c k = None.
Proof.
  intros. unfold dg_slot_find, dg_slot_erase.
  destruct (find (dg_slot_eqb c k) (filter (fun e => negb (dg_slot_eqb c k e)) l)) as [e|] eqn:E; auto.
  apply find_some in E. destruct E as [E1 E2]. apply filter_In in E1. destruct E1 as [_ E1].
  rewrite E2 in E1. discriminate.
Qed.

Lemma dg_slot_find_erase_other : forall l c k c' k',
  ~ (c' = c /\ k' = k) -> dg_slot_find (dg_slot_erase l c k) c' k' = dg_slot_find l c' k'.
Proof.
  intros l c k c' k' Hne. unfold dg_slot_find, dg_slot_erase.
  induction l as [|[[c1 k1] g1] r IH]; simpl; auto.
  destruct (Nat.eqb c1 c && dg_key_eqb k1 k) eqn:E1; simpl.
  - destruct (Nat.eqb c1 c' && dg_key_eqb k1 k') eqn:E2; auto.
    exfalso. apply Hne.
    apply (dg_slot_eqb_iff c k c1 k1 g1) in E1. apply (dg_slot_eqb_iff c' k' c1 k1 g1) in E2.
    destruct E1, E2; split; congruence.
  - destruct (Nat.eqb c1 c' && dg_key_eqb k1 k'); auto.
Qed.

Lemma dg_filter_filter_len : forall (A : Type) (p q : A -> bool) l,
  length (filter p (filter q l)) <= length (filter p l).
Proof.
  induction l as [|a r IH]; simpl; auto.
  destruct (q a), (p a) eqn:E; simpl; try rewrite E; simpl; lia.
Qed.

(* well-formed slots: [sl] maps exactly the pairs (c,k) that have dependencies in S, each to the
   identity its dependencies produce *)
Definition dg_swf (S : list dg_dep) (sl : list (nat * dg_key * dg_gid)) : Prop :=
  (forall c k, length (filter (dg_slot_eqb c k) sl) <= 1) /\
  (forall c k gid, dg_slot_find sl c k = Some gid -> dg_has S c k /\ dg_gid_rel S c k gid) /\
  (forall c k, dg_slot_find sl c k = None -> ~ dg_has S c k).

Lemma dg_swf_erase : forall S sl c k S1,
  dg_swf S sl ->
  (forall d, In d S1 <-> In d S /\ ~ dg_at c k d) ->
  dg_swf S1 (dg_slot_erase sl c k).
Proof.
  intros S sl c k S1 [W1 [W2 W3]] HS1. split; [|split].
  - intros c' k'. unfold dg_slot_erase.
    eapply Nat.le_trans; [apply dg_filter_filter_len | apply W1].
  - intros c' k' gid Hf. destruct (dg_pair_dec c c' k k') as [[-> ->]|Hne].
    + rewrite dg_slot_find_erase_same in Hf. discriminate.
    + rewrite dg_slot_find_erase_other in Hf by auto.
      destruct (W2 _ _ _ Hf) as [Hh Hr]. split.
      * eapply dg_has_ext; [|exact Hh]. intros d Hat Hd. apply HS1. split; auto.
        intros Hat'. apply Hne. eapply dg_at_same; eauto.
      * eapply dg_gid_rel_ext; [|exact Hr]. intros d Hat. rewrite HS1. split; [|tauto].
        intros Hd; split; auto. intros Hat'. apply Hne. eapply dg_at_same; eauto.
  - intros c' k' Hf [d [Hd Hat]]. apply HS1 in Hd. destruct Hd as [Hd Hnat].
    destruct (dg_pair_dec c c' k k') as [[-> ->]|Hne]; [tauto|].
    rewrite dg_slot_find_erase_other in Hf by auto.
    apply (W3 _ _ Hf). exists d; auto.
Qed.

Lemma dg_swf_install : forall S sl c k ds S2,
  dg_swf S sl -> ~ dg_has S c k -> ds <> [] ->
  (forall d, In d ds -> dg_at c k d) ->
  (forall d, In d S2 <-> In d S \/ In d ds) ->
  dg_swf S2 ((c, k, dgr_gid (dg_mkgrp (dg_kname k) ds)) :: sl).
Proof.
  intros S sl c k ds S2 [W1 [W2 W3]] Hno Hne Hat HS2.
  assert (Hnone : dg_slot_find sl c k = None).
  { destruct (dg_slot_find sl c k) eqn:E; auto. exfalso. apply Hno. eapply W2; eauto. }
  assert (Hrel : dg_gid_rel S2 c k (dgr_gid (dg_mkgrp (dg_kname k) ds))).
  { apply dg_gid_rel_mk. intros d. rewrite HS2. split.
    - intros Hd; split; auto.
    - intros [[Hd|Hd] Ha]; auto. exfalso. apply Hno. exists d; auto. }
  assert (Hfind : forall c' k', 
            (c' = c /\ k' = k /\ dg_slot_find ((c, k, dgr_gid (dg_mkgrp (dg_kname k) ds)) :: sl) c' k'
                                 = Some (dgr_gid (dg_mkgrp (dg_kname k) ds)))
            \/ (~ (c' = c /\ k' = k) /\
                dg_slot_find ((c, k, dgr_gid (dg_mkgrp (dg_kname k) ds)) :: sl) c' k' = dg_slot_find sl c' k')).
  { intros c' k'. unfold dg_slot_find. cbn [find].
    destruct (dg_slot_eqb c' k' (c, k, dgr_gid (dg_mkgrp (dg_kname k) ds))) eqn:E.
    - apply dg_slot_eqb_iff in E. destruct E; subst. left; auto.
    - right. split; auto. intros [-> ->].
      assert (dg_slot_eqb c k (c, k, dgr_gid (dg_mkgrp (dg_kname k) ds)) = true)
        by (apply dg_slot_eqb_iff; auto). congruence. }
  split; [|split].
  - intros c' k'. cbn [filter].
    destruct (dg_slot_eqb c' k' (c, k, dgr_gid (dg_mkgrp (dg_kname k) ds))) eqn:E.
    + apply dg_slot_eqb_iff in E. destruct E; subst.
      rewrite (dg_slot_find_none_filter _ _ _ Hnone). simpl; lia.
    + apply W1.
  - intros c' k' gid Hf. destruct (Hfind c' k') as [[-> [-> E]]|[Hd E]]; rewrite E in Hf.
    + inv Hf. split; auto. apply dg_list_nonnil in Hne. destruct Hne as [d Hd].
      exists d. split; auto. apply HS2; auto.
    + destruct (W2 _ _ _ Hf) as [Hh Hr]. split.
      * eapply dg_has_ext; [|exact Hh]. intros d _ Hd'. apply HS2; auto.
      * eapply dg_gid_rel_ext; [|exact Hr]. intros d Ha. rewrite HS2. split; auto.
        intros [H|H]; auto. exfalso. apply Hd. eapply dg_at_same; eauto.
  - intros c' k' Hf. destruct (Hfind c' k') as [[-> [-> E]]|[Hd E]]; rewrite E in Hf; [discriminate|].
    intros [d [Hin Ha]]. apply HS2 in Hin. destruct Hin as [Hin|Hin].
    + apply (W3 _ _ Hf). exists d; auto.
    + apply Hd. eapply dg_at_same; eauto.
Qed.

(* ---------------- the registry ---------------- *)
Fixpoint dg_uniq (reg : list dg_grp) : Prop :=
  match reg with
  | [] => True
  | g :: r => (forall g', In g' r -> ~ dg_gid_eq (dgr_gid g) (dgr_gid g')) /\ dg_uniq r
  end.

Lemma dg_in_mid : forall (A : Type) (a b : list A) (x y : A),
  In y (a ++ x :: b) <-> y = x \/ In y (a ++ b).
Proof.
  intros. rewrite !in_app_iff. simpl. split.
  - intros [H|[H|H]]; auto.
  - intros [H|[H|H]]; auto.
Qed.

Lemma dg_uniq_mid : forall a g b,
  dg_uniq (a ++ g :: b) <->
  dg_uniq (a ++ b) /\ forall g', In g' (a ++ b) -> ~ dg_gid_eq (dgr_gid g) (dgr_gid g').
Proof.
  induction a as [|x a IH]; intros g b; simpl.
  - tauto.
  - rewrite IH. split.
    + intros [H1 [H2 H3]]. repeat split; auto.
      * intros g' Hg'. apply H1. apply dg_in_mid; auto.
      * intros g' [Hg'|Hg']; auto. subst g'. intros He. apply (H1 g).
        apply dg_in_mid; auto. apply dg_gid_eq_sym; auto.
    + intros [[H1 H2] H3]. repeat split; auto.
      intros g' Hg'. apply dg_in_mid in Hg'. destruct Hg' as [->|Hg']; auto.
      intros He. apply (H3 x); auto. apply dg_gid_eq_sym; auto.
Qed.

Lemma dg_register_cases : forall reg gr,
  ((forall g, In g reg -> ~ dg_gid_eq (dgr_gid g) (dgr_gid gr)) /\ dg_register reg gr = reg ++ [gr])
  \/ exists a g0 b, reg = a ++ g0 :: b /\ dg_gid_eq (dgr_gid g0) (dgr_gid gr) /\
       dg_register reg gr =
       a ++ {| dgr_gid := dgr_gid g0; dgr_members := dgr_members g0 ++ dgr_members gr |} :: b.
Proof.
  induction reg as [|g0 r IH]; intros gr; simpl.
  - left. split; auto.
  - destruct (dg_gid_eqb (dgr_gid g0) (dgr_gid gr)) eqn:E.
    + right. exists [], g0, r. apply dg_gid_eqb_iff in E. simpl; auto.
    + apply dg_gid_eqb_false in E. destruct (IH gr) as [[H1 H2]|[a [g1 [b [H1 [H2 H3]]]]]].
      * left. split; [|rewrite H2; auto]. intros g [<-|Hg]; auto.
      * right. exists (g0 :: a), g1, b. simpl. rewrite H3. subst r. auto.
Qed.

Definition dg_others (c : nat) (l : list dg_dep) : list dg_dep :=
  filter (fun d => negb (Nat.eqb (dgd_child d) c)) l.

Lemma dg_unregister_cases : forall reg gid c,
  ((forall g, In g reg -> ~ dg_gid_eq (dgr_gid g) gid) /\ dg_unregister reg gid c = ([], reg))
  \/ exists a g0 b, reg = a ++ g0 :: b /\ dg_gid_eq (dgr_gid g0) gid /\
       dg_unregister reg gid c =
       (dg_child_deps (dgr_members g0) c,
        match dg_others c (dgr_members g0) with
        | [] => a ++ b
        | _ => a ++ {| dgr_gid := dgr_gid g0; dgr_members := dg_others c (dgr_members g0) |} :: b
        end).
Proof.
  induction reg as [|g0 r IH]; intros gid c; simpl.
  - left. split; auto.
  - destruct (dg_gid_eqb (dgr_gid g0) gid) eqn:E.
    + right. exists [], g0, r. apply dg_gid_eqb_iff in E. split; auto. split; auto.
      fold (dg_others c (dgr_members g0)). destruct (dg_others c (dgr_members g0)); reflexivity.
    + apply dg_gid_eqb_false in E. destruct (IH gid c) as [[H1 H2]|[a [g1 [b [H1 [H2 H3]]]]]].
      * left. split; [|rewrite H2; auto]. intros g [<-|Hg]; auto.
      * right. exists (g0 :: a), g1, b. rewrite H3. subst r. split; auto. split; auto.
        destruct (dg_others c (dgr_members g1)); reflexivity.
Qed.

Definition dg_grp_good (S : list dg_dep) (g : dg_grp) : Prop :=
  dgr_members g <> [] /\ NoDup (dgr_members g) /\
  forall d, In d (dgr_members g) <->
            In d S /\ dg_gid_rel S (dgd_child d) (dg_key_of d) (dgr_gid g).

Definition dg_rwf (S : list dg_dep) (reg : list dg_grp) : Prop :=
  dg_uniq reg /\ (forall g, In g reg -> dg_grp_good S g) /\
  (forall d, In d S -> exists g, In g reg /\ dg_gid_rel S (dgd_child d) (dg_key_of d) (dgr_gid g)).

Lemma dg_rwf_mid : forall S a x b,
  dg_uniq (a ++ b) ->
  (forall g, In g (a ++ b) -> ~ dg_gid_eq (dgr_gid x) (dgr_gid g)) ->
  (forall g, In g (a ++ b) -> dg_grp_good S g) -> dg_grp_good S x ->
  (forall d, In d S -> exists g, (g = x \/ In g (a ++ b)) /\
                                 dg_gid_rel S (dgd_child d) (dg_key_of d) (dgr_gid g)) ->
  dg_rwf S (a ++ x :: b).
Proof.
  intros S a x b H1 H2 H3 H4 H5. split; [|split].
  - apply dg_uniq_mid; auto.
  - intros g Hg. apply dg_in_mid in Hg. destruct Hg as [->|Hg]; auto.
  - intros d Hd. destruct (H5 d Hd) as [g [Hg Hr]]. exists g. split; auto. apply dg_in_mid; auto.
Qed.

Lemma dg_rwf_mid_inv : forall S a x b,
  dg_rwf S (a ++ x :: b) ->
  dg_uniq (a ++ b) /\
  (forall g, In g (a ++ b) -> ~ dg_gid_eq (dgr_gid x) (dgr_gid g)) /\
  (forall g, In g (a ++ b) -> dg_grp_good S g) /\ dg_grp_good S x /\
  (forall d, In d S -> exists g, (g = x \/ In g (a ++ b)) /\
                                 dg_gid_rel S (dgd_child d) (dg_key_of d) (dgr_gid g)).
Proof.
  intros S a x b [H1 [H2 H3]]. apply dg_uniq_mid in H1. destruct H1 as [H1 H1'].
  split; [auto|]. split; [auto|]. split; [|split].
  - intros g Hg. apply H2, dg_in_mid; auto.
  - apply H2, dg_in_mid; auto.
  - intros d Hd. destruct (H3 d Hd) as [g [Hg Hr]]. exists g. split; auto. apply dg_in_mid; auto.
Qed.

(* DependencyGroup::Unregister(group of slot (c,k), c): exactly the dependencies of c under k leave *)
Lemma dg_rwf_unregister : forall S reg c k gid ds reg1 S1,
  dg_rwf S reg -> dg_has S c k -> dg_gid_rel S c k gid ->
  dg_unregister reg gid c = (ds, reg1) ->
  (forall d, In d S1 <-> In d S /\ ~ dg_at c k d) ->
  dg_rwf S1 reg1 /\ NoDup ds /\ (forall d, In d ds <-> In d S /\ dg_at c k d).
Proof.
  intros S reg c k gid ds reg1 S1 Hwf Hhas Hrel Hun HS1.
  destruct (dg_unregister_cases reg gid c) as [[Hno _]|[a [g0 [b [Hreg [Heq Hun']]]]]].
  - exfalso. destruct Hhas as [d [Hd [Hc Hk]]]. destruct Hwf as [_ [_ H5]].
    destruct (H5 d Hd) as [g [Hg Hr]]. rewrite Hc, Hk in Hr.
    apply (Hno g Hg). eapply dg_gid_rel_fun; eauto.
  - rewrite Hun' in Hun. injection Hun as Hds' Hreg1. subst ds reg1 reg.
    apply dg_rwf_mid_inv in Hwf. destruct Hwf as [U [Hoth [Hgood [Hg0 H5]]]].
    assert (Hrel0 : dg_gid_rel S c k (dgr_gid g0)).
    { eapply dg_gid_rel_eq_r; [exact Hrel | apply dg_gid_eq_sym; auto]. }
    destruct Hg0 as [Hne0 [Hnd0 Hmem0]].
    assert (HK : forall d, In d (dgr_members g0) -> dgd_child d = c -> dg_key_of d = k).
    { intros d Hd Hc. apply Hmem0 in Hd. destruct Hd as [_ Hr]. rewrite Hc in Hr.
      symmetry. eapply dg_gid_rel_key_inj; eauto. }
    assert (H1 : forall d g, In d S -> ~ dg_at c k d ->
              (dg_gid_rel S (dgd_child d) (dg_key_of d) g <-> dg_gid_rel S1 (dgd_child d) (dg_key_of d) g)).
    { intros d g Hd Hnat.
      assert (Hext : forall d', dg_at (dgd_child d) (dg_key_of d) d' -> (In d' S <-> In d' S1)).
      { intros d' Hat'. rewrite HS1. split; [|tauto]. intros Hd'; split; auto.
        intros Hat''. apply Hnat. destruct (dg_at_same _ _ _ _ _ Hat' Hat'') as [E1 E2].
        split; congruence. }
      split; apply dg_gid_rel_ext; intros d' Hat'; [|symmetry]; apply Hext; auto. }
    assert (Hds : forall d, In d (dg_child_deps (dgr_members g0) c) <-> In d S /\ dg_at c k d).
    { intros d. unfold dg_child_deps. rewrite filter_In, Nat.eqb_eq. split.
      - intros [Hd Hc]. split; [apply Hmem0 in Hd; tauto|]. split; auto.
      - intros [Hd [Hc Hk]]. split; auto. apply Hmem0. split; auto. rewrite Hc, Hk; auto. }
    assert (Hrest : forall d, In d (dg_others c (dgr_members g0)) <->
                              In d S1 /\ dg_gid_rel S1 (dgd_child d) (dg_key_of d) (dgr_gid g0)).
    { intros d. unfold dg_others. rewrite filter_In, negb_true_iff, Nat.eqb_neq. split.
      - intros [Hd Hc]. apply Hmem0 in Hd. destruct Hd as [Hd Hr].
        assert (~ dg_at c k d) by (intros [? _]; auto).
        split; [apply HS1; auto | apply H1; auto].
      - intros [Hd Hr]. apply HS1 in Hd. destruct Hd as [Hd Hnat]. apply H1 in Hr; auto.
        assert (In d (dgr_members g0)) by (apply Hmem0; auto).
        split; auto. intros Hc. apply Hnat. split; auto. }
    assert (Hgood1 : forall g, In g (a ++ b) -> dg_grp_good S1 g).
    { intros g Hg. destruct (Hgood g Hg) as [G1 [G2 G3]]. split; auto. split; auto.
      intros d. rewrite G3. split.
      - intros [Hd Hr].
        assert (Hnat : ~ dg_at c k d).
        { intros [Hc Hk]. rewrite Hc, Hk in Hr. apply (Hoth g Hg). eapply dg_gid_rel_fun; eauto. }
        split; [apply HS1; auto | apply H1; auto].
      - intros [Hd Hr]. apply HS1 in Hd. destruct Hd. split; auto. apply H1; auto. }
    assert (H51 : forall d, In d S1 -> exists g,
              ((g = {| dgr_gid := dgr_gid g0; dgr_members := dg_others c (dgr_members g0) |}
                /\ dg_others c (dgr_members g0) <> []) \/ In g (a ++ b)) /\
              dg_gid_rel S1 (dgd_child d) (dg_key_of d) (dgr_gid g)).
    { intros d Hd1. destruct (proj1 (HS1 d) Hd1) as [Hd Hnat].
      destruct (H5 d Hd) as [g [[->|Hg] Hr]].
      - eexists. split; [left; split; [reflexivity|]|].
        + apply dg_list_nonnil. exists d. apply Hrest. split; auto. apply H1; auto.
        + simpl. apply H1; auto.
      - exists g. split; auto. apply H1; auto. }
    split; [|split]; auto.
    + destruct (dg_others c (dgr_members g0)) as [|d0 l0] eqn:Eo.
      * split; [auto | split; auto]. intros d Hd.
        destruct (H51 d Hd) as [g [[[_ Hne]|Hg] Hr]]; [congruence|]. exists g; auto.
      * apply dg_rwf_mid; auto.
        -- split; [discriminate|]. split; [simpl; rewrite <- Eo; apply NoDup_filter; auto|].
           simpl. exact Hrest.
        -- intros d' Hd. destruct (H51 d' Hd) as [g [[[-> _]|Hg] Hr]]; eauto.
    + apply NoDup_filter; auto.
Qed.

Lemma dg_nodup_app : forall (A : Type) (l1 l2 : list A),
  NoDup l1 -> NoDup l2 -> (forall x, In x l1 -> ~ In x l2) -> NoDup (l1 ++ l2).
Proof.
  induction l1 as [|a r IH]; intros l2 H1 H2 H3; simpl; auto.
  inv H1. constructor.
  - rewrite in_app_iff. intros [H|H]; auto. apply (H3 a); simpl; auto.
  - apply IH; auto. intros x Hx. apply H3; simpl; auto.
Qed.

(* DependencyGroup::Register(new DependencyGroup(name of k, ds)) for a pair (c,k) that has no slot *)
Lemma dg_rwf_register : forall S reg c k ds S2,
  dg_rwf S reg -> ~ dg_has S c k -> ds <> [] -> NoDup ds ->
  (forall d, In d ds -> dg_at c k d) ->
  (forall d, In d S2 <-> In d S \/ In d ds) ->
  dg_rwf S2 (dg_register reg (dg_mkgrp (dg_kname k) ds)).
Proof.
  intros S reg c k ds S2 Hwf Hno Hne Hnd Hat HS2.
  set (gr := dg_mkgrp (dg_kname k) ds).
  assert (HrelG : dg_gid_rel S2 c k (dgr_gid gr)).
  { apply dg_gid_rel_mk. intros d. rewrite HS2. split.
    - intros Hd; split; auto.
    - intros [[Hd|Hd] Ha]; auto. exfalso. apply Hno. exists d; auto. }
  assert (HnatS : forall d, In d S -> ~ dg_at c k d).
  { intros d Hd Ha. apply Hno. exists d; auto. }
  assert (H2 : forall d g, In d S ->
            (dg_gid_rel S (dgd_child d) (dg_key_of d) g <-> dg_gid_rel S2 (dgd_child d) (dg_key_of d) g)).
  { intros d g Hd.
    assert (Hext : forall d', dg_at (dgd_child d) (dg_key_of d) d' -> (In d' S <-> In d' S2)).
    { intros d' Hat'. rewrite HS2. split; auto. intros [H|H]; auto. exfalso. apply (HnatS d Hd).
      destruct (dg_at_same _ _ _ _ _ Hat' (Hat d' H)) as [E1 E2]. split; congruence. }
    split; apply dg_gid_rel_ext; intros d' Hat'; [|symmetry]; apply Hext; auto. }
  assert (Hds2 : forall d g, In d ds -> dg_gid_rel S2 (dgd_child d) (dg_key_of d) g ->
                             dg_gid_eq (dgr_gid gr) g).
  { intros d g Hd Hr. destruct (Hat d Hd) as [Hc Hk]. rewrite Hc, Hk in Hr.
    eapply dg_gid_rel_fun; eauto. }
  assert (Hds3 : forall d, In d ds -> dg_gid_rel S2 (dgd_child d) (dg_key_of d) (dgr_gid gr)).
  { intros d Hd. destruct (Hat d Hd) as [Hc Hk]. rewrite Hc, Hk. auto. }
  assert (Hgood2 : forall g, dg_grp_good S g -> ~ dg_gid_eq (dgr_gid gr) (dgr_gid g) -> dg_grp_good S2 g).
  { intros g [G1 [G2 G3]] Hneq. split; auto. split; auto. intros d. rewrite G3. split.
    - intros [Hd Hr]. split; [apply HS2; auto | apply H2; auto].
    - intros [Hd Hr]. apply HS2 in Hd. destruct Hd as [Hd|Hd].
      + split; auto. apply H2; auto.
      + exfalso. apply Hneq. eapply Hds2; eauto. }
  destruct (dg_register_cases reg gr) as [[Hall Hreg]|[a [g0 [b [Hreg [Heq Hreg']]]]]].
  - rewrite Hreg. destruct Hwf as [U [Hg H5]].
    apply dg_rwf_mid; rewrite ?app_nil_r; auto.
    + intros g Hg' He. apply (Hall g Hg'). apply dg_gid_eq_sym; auto.
    + intros g Hg'. apply Hgood2; auto. intros He. apply (Hall g Hg'), dg_gid_eq_sym; auto.
    + split; [exact Hne|]. split; [exact Hnd|]. intros d. split.
      * intros Hd. split; [apply HS2; auto | apply Hds3; auto].
      * intros [Hd Hr]. apply HS2 in Hd. destruct Hd as [Hd|Hd]; auto. exfalso.
        apply H2 in Hr; auto. destruct (H5 d Hd) as [g [Hg' Hr']]. apply (Hall g Hg').
        eapply dg_gid_rel_fun; eauto.
    + intros d Hd. apply HS2 in Hd. destruct Hd as [Hd|Hd].
      * destruct (H5 d Hd) as [g [Hg' Hr]]. exists g. split; auto. apply H2; auto.
      * exists gr. split; auto.
  - rewrite Hreg'. subst reg. apply dg_rwf_mid_inv in Hwf.
    destruct Hwf as [U [Hoth [Hgood [Hg0 H5]]]]. destruct Hg0 as [G1 [G2 G3]].
    apply dg_rwf_mid; auto.
    + intros g Hg. apply Hgood2; auto. intros He. apply (Hoth g Hg).
      eapply dg_gid_eq_trans; eauto.
    + split; [|split]; simpl.
      * intros E. apply app_eq_nil in E. destruct E; auto.
      * apply dg_nodup_app; auto. intros d Hd Hd'. apply G3 in Hd. destruct Hd as [Hd _].
        apply (HnatS d Hd); auto.
      * intros d. rewrite in_app_iff, G3. split.
        -- intros [[Hd Hr]|Hd].
           ++ split; [apply HS2; auto | apply H2; auto].
           ++ split; [apply HS2; auto|].
              eapply dg_gid_rel_eq_r; [apply Hds3; auto | apply dg_gid_eq_sym; auto].
        -- intros [Hd Hr]. apply HS2 in Hd. destruct Hd as [Hd|Hd]; auto.
           left; split; auto. apply H2; auto.
    + intros d Hd. apply HS2 in Hd. destruct Hd as [Hd|Hd].
      * destruct (H5 d Hd) as [g [[->|Hg] Hr]].
        -- eexists; split; [left; reflexivity|]. simpl. apply H2; auto.
        -- exists g; split; auto. apply H2; auto.
      * eexists; split; [left; reflexivity|]. simpl.
        eapply dg_gid_rel_eq_r; [apply Hds3; auto | apply dg_gid_eq_sym; auto].
Qed.

(* ---------------- well-formed registry states ---------------- *)
(* [s] is "the" grouping of the dependency set S (identities up to DependencyGroup::Equal,
   member lists up to order) *)
Definition dg_reg_wf (S : list dg_dep) (s : dg_regstate) : Prop :=
  dg_swf S (dgx_groups s) /\ dg_rwf S (dgx_registry s).

Lemma dg_reg_wf_install : forall S s c k ds S2,
  dg_reg_wf S s -> ~ dg_has S c k -> ds <> [] -> NoDup ds ->
  (forall d, In d ds -> dg_at c k d) ->
  (forall d, In d S2 <-> In d S \/ In d ds) ->
  dg_reg_wf S2 {| dgx_registry := dg_register (dgx_registry s) (dg_mkgrp (dg_kname k) ds);
                  dgx_groups := (c, k, dgr_gid (dg_mkgrp (dg_kname k) ds)) :: dgx_groups s |}.
Proof.
  intros S s c k ds S2 [Hs Hr] Hno Hne Hnd Hat HS2. split; simpl.
  - eapply dg_swf_install; eauto.
  - eapply dg_rwf_register; eauto.
Qed.

Lemma dg_id_inj : forall S x y,
  NoDup (map dgd_id S) -> In x S -> In y S -> dgd_id x = dgd_id y -> x = y.
Proof.
  induction S as [|a r IH]; intros x y Hnd Hx Hy He; simpl in *; [tauto|].
  inv Hnd. destruct Hx as [->|Hx], Hy as [->|Hy]; auto.
  - exfalso. apply H1. rewrite He. apply in_map; auto.
  - exfalso. apply H1. rewrite <- He. apply in_map; auto.
Qed.

Lemma dg_not_atb : forall S c k x,
  In x (filter (fun y => negb (dg_atb c k y)) S) <-> In x S /\ ~ dg_at c k x.
Proof.
  intros. rewrite filter_In, negb_true_iff, <- dg_atb_iff.
  destruct (dg_atb c k x); intuition congruence.
Qed.

(* Checkable::AddDependency *)
Lemma dg_reg_wf_add : forall S s d,
  dg_reg_wf S s -> ~ In (dgd_id d) (map dgd_id S) ->
  dg_reg_wf (S ++ [d]) (dg_reg_add s d).
Proof.
  intros S s d [Hs Hr] Hfresh.
  assert (HdS : ~ In d S) by (intros H; apply Hfresh, in_map; auto).
  unfold dg_reg_add. rewrite (dg_rg_kname d).
  destruct (dg_slot_find (dgx_groups s) (dgd_child d) (dg_key_of d)) as [gid|] eqn:Ef.
  - destruct (dg_unregister (dgx_registry s) gid (dgd_child d)) as [ds reg1] eqn:Eu.
    cbv beta iota zeta.
    destruct (proj1 (proj2 Hs) _ _ _ Ef) as [Hhas Hrel].
    pose (S1 := filter (fun y => negb (dg_atb (dgd_child d) (dg_key_of d) y)) S).
    assert (HS1 : forall x, In x S1 <-> In x S /\ ~ dg_at (dgd_child d) (dg_key_of d) x)
      by (apply dg_not_atb).
    destruct (dg_rwf_unregister _ _ _ _ _ _ _ _ Hr Hhas Hrel Eu HS1) as [Hr1 [Hnd Hds]].
    pose proof (dg_swf_erase _ _ _ _ _ Hs HS1) as Hs1.
    apply (dg_reg_wf_install S1
             {| dgx_registry := reg1;
                dgx_groups := dg_slot_erase (dgx_groups s) (dgd_child d) (dg_key_of d) |}
             (dgd_child d) (dg_key_of d) (d :: ds)).
    + split; auto.
    + intros [x [Hx Ha]]. apply HS1 in Hx. tauto.
    + discriminate.
    + constructor; auto. intros Hd. apply Hds in Hd. tauto.
    + intros x [<-|Hx]; [split; reflexivity|]. apply Hds in Hx; tauto.
    + intros x. rewrite in_app_iff, HS1. simpl. rewrite Hds.
      destruct (dg_at_dec (dgd_child d) (dg_key_of d) x); intuition.
  - cbv beta iota zeta.
    apply (dg_reg_wf_install S s (dgd_child d) (dg_key_of d) [d]).
    + split; auto.
    + apply (proj2 (proj2 Hs)); auto.
    + discriminate.
    + constructor; auto. constructor.
    + intros x [<-|[]]. split; reflexivity.
    + intros x. rewrite in_app_iff. tauto.
Qed.

(* Checkable::RemoveDependency *)
Lemma dg_reg_wf_remove : forall S s d,
  dg_deps_ok S -> dg_reg_wf S s -> In d S ->
  dg_reg_wf (filter (fun x => negb (Nat.eqb (dgd_id x) (dgd_id d))) S) (dg_reg_remove s d).
Proof.
  intros S s d Hok [Hs Hr] Hd.
  assert (HS' : forall x, In x (filter (fun x => negb (Nat.eqb (dgd_id x) (dgd_id d))) S)
                          <-> In x S /\ x <> d).
  { intros x. rewrite filter_In, negb_true_iff, Nat.eqb_neq. split.
    - intros [Hx Hne]; split; auto. intros ->; auto.
    - intros [Hx Hne]; split; auto. intros He. apply Hne. eapply dg_id_inj; eauto. }
  assert (Hatd : dg_at (dgd_child d) (dg_key_of d) d) by (split; reflexivity).
  assert (Hhas : dg_has S (dgd_child d) (dg_key_of d)) by (exists d; auto).
  unfold dg_reg_remove. rewrite (dg_rg_kname d).
  destruct (dg_slot_find (dgx_groups s) (dgd_child d) (dg_key_of d)) as [gid|] eqn:Ef;
    [|exfalso; apply (proj2 (proj2 Hs) _ _ Ef); auto].
  destruct (dg_unregister (dgx_registry s) gid (dgd_child d)) as [ds reg1] eqn:Eu.
  destruct (proj1 (proj2 Hs) _ _ _ Ef) as [_ Hrel].
  pose (S1 := filter (fun y => negb (dg_atb (dgd_child d) (dg_key_of d) y)) S).
  assert (HS1 : forall x, In x S1 <-> In x S /\ ~ dg_at (dgd_child d) (dg_key_of d) x)
    by (apply dg_not_atb).
  destruct (dg_rwf_unregister _ _ _ _ _ _ _ _ Hr Hhas Hrel Eu HS1) as [Hr1 [Hnd Hds]].
  pose proof (dg_swf_erase _ _ _ _ _ Hs HS1) as Hs1.
  assert (Hds' : forall x, In x (filter (fun x => negb (Nat.eqb (dgd_id x) (dgd_id d))) ds)
                           <-> In x S /\ dg_at (dgd_child d) (dg_key_of d) x /\ x <> d).
  { intros x. rewrite filter_In, negb_true_iff, Nat.eqb_neq, Hds. split.
    - intros [[Hx Ha] Hne]. split; [auto|]. split; [auto|]. intros ->; auto.
    - intros [Hx [Ha Hne]]. split; [auto|]. intros He. apply Hne. eapply dg_id_inj; eauto. }
  destruct (filter (fun x => negb (Nat.eqb (dgd_id x) (dgd_id d))) ds) as [|d1 l1] eqn:Ed.
  - assert (HS1' : forall x, In x (filter (fun x => negb (Nat.eqb (dgd_id x) (dgd_id d))) S)
                             <-> In x S /\ ~ dg_at (dgd_child d) (dg_key_of d) x).
    { intros x. rewrite HS'. split.
      - intros [Hx Hne]; split; auto. intros Ha. apply (proj2 (Hds' x)). auto.
      - intros [Hx Ha]; split; auto. intros ->; auto. }
    destruct (dg_rwf_unregister _ _ _ _ _ _ _ _ Hr Hhas Hrel Eu HS1') as [Hr1' _].
    split; simpl; auto. eapply dg_swf_erase; eauto.
  - apply (dg_reg_wf_install S1
             {| dgx_registry := reg1;
                dgx_groups := dg_slot_erase (dgx_groups s) (dgd_child d) (dg_key_of d) |}
             (dgd_child d) (dg_key_of d)).
    + split; auto.
    + intros [x [Hx Ha]]. apply HS1 in Hx. tauto.
    + discriminate.
    + rewrite <- Ed. apply NoDup_filter; auto.
    + intros x Hx. apply Hds' in Hx. tauto.
    + intros x. rewrite HS', HS1, Hds'. split.
      * intros [Hx Hne]. destruct (dg_at_dec (dgd_child d) (dg_key_of d) x); [right|left]; auto.
      * intros [[Hx Hna]|[Hx [Ha Hne]]]; split; auto. intros ->; auto.
Qed.

(* well-formedness only looks at S as a set *)
Lemma dg_reg_wf_ext : forall S S' s,
  (forall d, In d S <-> In d S') -> dg_reg_wf S s -> dg_reg_wf S' s.
Proof.
  intros S S' s HS [[W1 [W2 W3]] [U [Hg H5]]].
  assert (Hrel : forall c k g, dg_gid_rel S c k g <-> dg_gid_rel S' c k g).
  { intros c k g. split; apply dg_gid_rel_ext; intros d _; [|symmetry]; apply HS. }
  assert (Hhas : forall c k, dg_has S c k <-> dg_has S' c k).
  { intros c k. split; apply dg_has_ext; intros d _; apply HS. }
  split; [split; [|split]|split; [|split]]; auto.
  - intros c k gid Hf. destruct (W2 _ _ _ Hf). split; [apply Hhas | apply Hrel]; auto.
  - intros c k Hf Hh. apply (W3 _ _ Hf). apply Hhas; auto.
  - intros g Hin. destruct (Hg g Hin) as [G1 [G2 G3]]. split; auto. split; auto.
    intros d. rewrite G3, HS, Hrel. tauto.
  - intros d Hd. apply HS in Hd. destruct (H5 d Hd) as [g [Hin Hr]]. exists g. split; auto.
    apply Hrel; auto.
Qed.

Lemma dg_reg_wf_empty : dg_reg_wf [] dg_reg_empty.
Proof.
  split; [split; [|split]|split; [|split]]; simpl; auto.
  - intros; discriminate.
  - intros c k _ [d [[] _]].
  - intros g [].
  - intros d [].
Qed.

(* ---------------- a fresh load ---------------- *)
Definition dg_push_one (all : list dg_dep) (s : dg_regstate) (p : nat * dg_key) : dg_regstate :=
  let ds := dg_ck all (fst p) (snd p) in
  let gr := dg_mkgrp (dg_kname (snd p)) ds in
  {| dgx_registry := dg_register (dgx_registry s) gr;
     dgx_groups := (fst p, snd p, dgr_gid gr) :: dgx_groups s |}.

Definition dg_pairs (all : list dg_dep) : list (nat * dg_key) :=
  flat_map (fun c => map (pair c) (dg_dedup (map dg_key_of (dg_child_deps all c))))
           (dg_nat_dedup (map dgd_child all)).

Lemma dg_push_child_eq : forall all c s,
  dg_reg_push_child all s c =
  fold_left (dg_push_one all) (map (pair c) (dg_dedup (map dg_key_of (dg_child_deps all c)))) s.
Proof.
  intros all c. unfold dg_reg_push_child.
  generalize (dg_dedup (map dg_key_of (dg_child_deps all c))) as ks.
  induction ks as [|k ks IH]; intros s; [reflexivity|].
  cbn [fold_left map]. rewrite IH. reflexivity.
Qed.

Lemma dg_fresh_eq : forall all, dg_reg_fresh all = fold_left (dg_push_one all) (dg_pairs all) dg_reg_empty.
Proof.
  intros all. unfold dg_reg_fresh, dg_pairs.
  generalize dg_reg_empty as s. generalize (dg_nat_dedup (map dgd_child all)) as cs.
  induction cs as [|c cs IH]; intros s; [reflexivity|].
  cbn [fold_left flat_map]. rewrite fold_left_app, <- dg_push_child_eq. apply IH.
Qed.

Lemma dg_key_mem_in : forall k l, existsb (dg_key_eqb k) l = true <-> In k l.
Proof.
  intros k l. rewrite existsb_exists. split.
  - intros [x [Hx He]]. apply dg_key_eqb_eq in He. subst; auto.
  - intros H. exists k. split; auto. apply dg_key_eqb_refl.
Qed.

Lemma dg_key_dedup_in : forall x l, In x (dg_dedup l) <-> In x l.
Proof.
  induction l as [|k r IH]; simpl; [tauto|].
  destruct (existsb (dg_key_eqb k) r) eqn:E.
  - apply dg_key_mem_in in E. rewrite IH. split; auto. intros [H|H]; subst; auto.
  - simpl. rewrite IH. tauto.
Qed.

Lemma dg_key_dedup_nodup : forall l, NoDup (dg_dedup l).
Proof.
  induction l as [|k r IH]; simpl; [constructor|].
  destruct (existsb (dg_key_eqb k) r) eqn:E; auto.
  constructor; auto. rewrite dg_key_dedup_in. intros H. apply dg_key_mem_in in H. congruence.
Qed.

Lemma dg_nat_mem_in : forall x l, dg_mem x l = true <-> In x l.
Proof.
  intros x l. unfold dg_mem. rewrite existsb_exists. split.
  - intros [y [Hy He]]. apply Nat.eqb_eq in He. subst; auto.
  - intros H. exists x. split; auto. apply Nat.eqb_refl.
Qed.

Lemma dg_nat_dedup_in : forall x l, In x (dg_nat_dedup l) <-> In x l.
Proof.
  induction l as [|k r IH]; simpl; [tauto|].
  destruct (dg_mem k r) eqn:E.
  - apply dg_nat_mem_in in E. rewrite IH. split; auto. intros [H|H]; subst; auto.
  - simpl. rewrite IH. tauto.
Qed.

Lemma dg_nat_dedup_nodup : forall l, NoDup (dg_nat_dedup l).
Proof.
  induction l as [|k r IH]; simpl; [constructor|].
  destruct (dg_mem k r) eqn:E; auto.
  constructor; auto. rewrite dg_nat_dedup_in. intros H. apply dg_nat_mem_in in H. congruence.
Qed.

Lemma dg_pairs_in : forall S c k, In (c, k) (dg_pairs S) <-> dg_has S c k.
Proof.
  intros S c k. unfold dg_pairs, dg_has. rewrite in_flat_map. split.
  - intros [c' [Hc' Hin]]. apply in_map_iff in Hin. destruct Hin as [k' [He Hk']]. inv He.
    apply dg_key_dedup_in, in_map_iff in Hk'. destruct Hk' as [d [Hk Hd]].
    unfold dg_child_deps in Hd. apply filter_In in Hd. destruct Hd as [Hd Hc]. apply Nat.eqb_eq in Hc.
    exists d. split; auto. split; auto.
  - intros [d [Hd [Hc Hk]]]. exists c. split.
    + apply dg_nat_dedup_in. rewrite <- Hc. apply in_map; auto.
    + apply in_map. apply dg_key_dedup_in. rewrite <- Hk. apply in_map.
      unfold dg_child_deps. apply filter_In. split; auto. apply Nat.eqb_eq; auto.
Qed.

Lemma dg_pairs_nodup : forall S, NoDup (dg_pairs S).
Proof.
  intros S. unfold dg_pairs.
  generalize (dg_nat_dedup_nodup (map dgd_child S)).
  generalize (dg_nat_dedup (map dgd_child S)) as cs.
  induction cs as [|c cs IH]; intros Hnd; simpl; [constructor|]. inv Hnd.
  apply dg_nodup_app; auto.
  - generalize (dg_key_dedup_nodup (map dg_key_of (dg_child_deps S c))).
    generalize (dg_dedup (map dg_key_of (dg_child_deps S c))) as ks.
    induction ks as [|k ks IHk]; intros Hk; simpl; [constructor|]. inv Hk.
    constructor; auto. rewrite in_map_iff. intros [k' [He Hk']]. inv He. auto.
  - intros [c' k'] Hi1 Hi2. apply in_map_iff in Hi1. destruct Hi1 as [k'' [He _]]. inv He.
    apply in_flat_map in Hi2. destruct Hi2 as [c'' [Hc'' Hin]].
    apply in_map_iff in Hin. destruct Hin as [k'' [He _]]. inv He. auto.
Qed.

Lemma dg_fresh_fold : forall S todo s S',
  NoDup S -> dg_reg_wf S' s -> NoDup todo ->
  (forall c k, In (c, k) todo -> dg_has S c k /\ ~ dg_has S' c k) ->
  (forall d, In d S' -> In d S) ->
  forall S'', (forall d, In d S'' <-> In d S' \/ (In d S /\ In (dgd_child d, dg_key_of d) todo)) ->
  dg_reg_wf S'' (fold_left (dg_push_one S) todo s).
Proof.
  intros S todo. induction todo as [|[c k] r IH]; intros s S' HndS Hwf Hnd Htodo Hsub S'' HS''.
  - simpl. eapply dg_reg_wf_ext; [|exact Hwf]. intros d. rewrite HS''. simpl. tauto.
  - cbn [fold_left]. inv Hnd.
    destruct (Htodo c k (or_introl eq_refl)) as [Hhas Hno].
    assert (Hwf1 : dg_reg_wf (S' ++ dg_ck S c k) (dg_push_one S s (c, k))).
    { unfold dg_push_one; cbn [fst snd]. apply (dg_reg_wf_install S' s c k); auto.
      - apply dg_ck_nonnil; auto.
      - apply dg_ck_nodup; auto.
      - intros d Hd. apply dg_ck_in in Hd. tauto.
      - intros d. apply in_app_iff. }
    apply (IH _ _ HndS Hwf1); auto.
    + intros c' k' Hin. split; [apply Htodo; right; auto|].
      intros [d [Hd Ha]]. apply in_app_iff in Hd. destruct Hd as [Hd|Hd].
      * apply (proj2 (Htodo c' k' (or_intror Hin))). exists d; auto.
      * apply dg_ck_in in Hd. destruct Hd as [_ Ha'].
        destruct (dg_at_same _ _ _ _ _ Ha Ha') as [E1 E2]. subst. auto.
    + intros d Hd. apply in_app_iff in Hd. destruct Hd as [Hd|Hd]; auto.
      apply dg_ck_in in Hd. tauto.
    + intros d. rewrite HS'', in_app_iff, dg_ck_in. simpl. split.
      * intros [H|[Hd [He|Hin]]]; auto. inv He. left; right. split; auto. split; reflexivity.
      * intros [[H|[Hd [Hc Hk]]]|[Hd Hin]]; auto. right. split; auto. left. congruence.
Qed.

Theorem dg_reg_wf_fresh : forall S, dg_deps_ok S -> dg_reg_wf S (dg_reg_fresh S).
Proof.
  intros S Hok. rewrite dg_fresh_eq.
  apply (dg_fresh_fold S (dg_pairs S) dg_reg_empty []).
  - eapply NoDup_map_inv; eauto.
  - apply dg_reg_wf_empty.
  - apply dg_pairs_nodup.
  - intros c k Hin. split; [apply dg_pairs_in; auto|]. intros [d [[] _]].
  - intros d [].
  - intros d. split; [|intros [[]|[Hd _]]; auto]. intros Hd. right. split; auto.
    apply dg_pairs_in. exists d. split; auto. split; reflexivity.
Qed.

(* ---------------- observational equivalence ---------------- *)
Definition dg_reg_equiv (s1 s2 : dg_regstate) : Prop :=
  (* (a) every child sees, under every key, the same group (up to DependencyGroup::Equal) *)
  (forall c k, match dg_slot_find (dgx_groups s1) c k, dg_slot_find (dgx_groups s2) c k with
               | None, None => True
               | Some g1, Some g2 => dg_gid_eqb g1 g2 = true
               | _, _ => False
               end) /\
  (* (b) no (child, key) pair is stored twice *)
  (forall c k, length (filter (dg_slot_eqb c k) (dgx_groups s1)) <= 1 /\
               length (filter (dg_slot_eqb c k) (dgx_groups s2)) <= 1) /\
  (* (c) GetRegistrySize *)
  length (dgx_registry s1) = length (dgx_registry s2) /\
  (* (d) every registered group has the same members *)
  (forall gid, match dg_reg_group s1 gid, dg_reg_group s2 gid with
               | None, None => True
               | Some a, Some b => Permutation (dgr_members a) (dgr_members b)
               | _, _ => False
               end).

Lemma dg_good_members_perm : forall S a b,
  dg_grp_good S a -> dg_grp_good S b -> dg_gid_eq (dgr_gid a) (dgr_gid b) ->
  Permutation (dgr_members a) (dgr_members b).
Proof.
  intros S a b [_ [A2 A3]] [_ [B2 B3]] He. apply NoDup_Permutation; auto.
  intros d. rewrite A3, B3. split; intros [Hd Hr]; split; auto.
  - eapply dg_gid_rel_eq_r; eauto.
  - eapply dg_gid_rel_eq_r; eauto. apply dg_gid_eq_sym; auto.
Qed.

Lemma dg_rwf_partner : forall S r1 r2 g,
  dg_rwf S r1 -> dg_rwf S r2 -> In g r1 ->
  exists g', In g' r2 /\ dg_gid_eq (dgr_gid g) (dgr_gid g').
Proof.
  intros S r1 r2 g [_ [G1 _]] [_ [_ H5]] Hg.
  destruct (G1 g Hg) as [Hne [_ Hm]]. apply dg_list_nonnil in Hne. destruct Hne as [d Hd].
  apply Hm in Hd. destruct Hd as [Hd Hr]. destruct (H5 d Hd) as [g' [Hg' Hr']].
  exists g'. split; auto. eapply dg_gid_rel_fun; eauto.
Qed.

Lemma dg_uniq_len : forall l1 l2,
  dg_uniq l1 ->
  (forall g, In g l1 -> exists g', In g' l2 /\ dg_gid_eq (dgr_gid g) (dgr_gid g')) ->
  length l1 <= length l2.
Proof.
  induction l1 as [|g r IH]; intros l2 U H; simpl; [lia|]. destruct U as [U1 U2].
  destruct (H g (or_introl eq_refl)) as [g' [Hin He]].
  apply in_split in Hin. destruct Hin as [a [b ->]].
  assert (Hle : length r <= length (a ++ b)).
  { apply IH; auto. intros g1 Hg1. destruct (H g1 (or_intror Hg1)) as [g1' [Hin1 He1]].
    apply dg_in_mid in Hin1. destruct Hin1 as [->|Hin1]; [|exists g1'; auto].
    exfalso. apply (U1 g1 Hg1). eapply dg_gid_eq_trans; [exact He | apply dg_gid_eq_sym; auto]. }
  rewrite app_length in *. simpl. lia.
Qed.

Lemma dg_group_some : forall S s1 s2 gid a,
  dg_reg_wf S s1 -> dg_reg_wf S s2 -> dg_reg_group s1 gid = Some a ->
  exists b, dg_reg_group s2 gid = Some b /\ Permutation (dgr_members a) (dgr_members b).
Proof.
  intros S s1 s2 gid a [_ R1] [_ R2] Hf. unfold dg_reg_group in *.
  apply find_some in Hf. destruct Hf as [Ha Hea]. apply dg_gid_eqb_iff in Hea.
  destruct (dg_rwf_partner _ _ _ _ R1 R2 Ha) as [a' [Ha' He']].
  destruct (find (fun g0 => dg_gid_eqb (dgr_gid g0) gid) (dgx_registry s2)) as [b|] eqn:E2.
  - exists b. split; auto. apply find_some in E2. destruct E2 as [Hb Heb].
    apply dg_gid_eqb_iff in Heb.
    apply (dg_good_members_perm S).
    + apply (proj1 (proj2 R1)); auto.
    + apply (proj1 (proj2 R2)); auto.
    + eapply dg_gid_eq_trans; [exact Hea | apply dg_gid_eq_sym; auto].
  - exfalso. pose proof (find_none _ _ E2 a' Ha') as Hn. simpl in Hn.
    apply dg_gid_eqb_false in Hn. apply Hn.
    eapply dg_gid_eq_trans; [apply dg_gid_eq_sym; exact He' | exact Hea].
Qed.

(* two well-formed states of the same dependency set cannot be told apart *)
Theorem dg_reg_wf_equiv : forall S s1 s2, dg_reg_wf S s1 -> dg_reg_wf S s2 -> dg_reg_equiv s1 s2.
Proof.
  intros S s1 s2 Hw1 Hw2. pose proof Hw1 as [[A1 [A2 A3]] RA]. pose proof Hw2 as [[B1 [B2 B3]] RB].
  split; [|split; [|split]].
  - intros c k.
    destruct (dg_slot_find (dgx_groups s1) c k) as [g1|] eqn:E1;
      destruct (dg_slot_find (dgx_groups s2) c k) as [g2|] eqn:E2; auto.
    + apply dg_gid_eqb_iff. destruct (A2 _ _ _ E1) as [_ Hr1]. destruct (B2 _ _ _ E2) as [_ Hr2].
      eapply dg_gid_rel_fun; eauto.
    + apply (B3 _ _ E2). apply (A2 _ _ _ E1).
    + apply (A3 _ _ E1). apply (B2 _ _ _ E2).
  - intros c k; split; auto.
  - apply Nat.le_antisymm; apply dg_uniq_len.
    + apply RA.
    + intros g Hg. apply (dg_rwf_partner S _ _ g RA RB Hg).
    + apply RB.
    + intros g Hg. apply (dg_rwf_partner S _ _ g RB RA Hg).
  - intros gid.
    destruct (dg_reg_group s1 gid) as [a|] eqn:E1.
    + destruct (dg_group_some _ _ _ _ _ Hw1 Hw2 E1) as [b [-> Hp]]. auto.
    + destruct (dg_reg_group s2 gid) as [b|] eqn:E2; auto.
      destruct (dg_group_some _ _ _ _ _ Hw2 Hw1 E2) as [a [Ha _]]. congruence.
Qed.

(* ---------------- the main theorem ---------------- *)
Lemma dg_nodup_map_filter : forall (A B : Type) (f : A -> B) (p : A -> bool) l,
  NoDup (map f l) -> NoDup (map f (filter p l)).
Proof.
  induction l as [|a r IH]; intros H; simpl; auto. inv H.
  destruct (p a); simpl; auto. constructor; auto.
  intros Hin. apply H2. apply in_map_iff in Hin. destruct Hin as [x [He Hx]].
  apply filter_In in Hx. rewrite <- He. apply in_map; tauto.
Qed.

Lemma dg_run_wf : forall ops S s,
  dg_deps_ok S -> dg_reg_wf S s -> dg_ops_valid S ops ->
  dg_reg_wf (dg_set_run S ops) (dg_reg_run s ops) /\ dg_deps_ok (dg_set_run S ops).
Proof.
  unfold dg_set_run, dg_reg_run.
  induction ops as [|o r IH]; intros S s Hok Hwf Hv; simpl; [split; auto|].
  destruct Hv as [Hv Hr]. destruct o as [d|d]; simpl in *.
  - apply IH; auto.
    + unfold dg_deps_ok. rewrite map_app. apply dg_nodup_app; auto.
      * simpl. constructor; auto. constructor.
      * intros x Hx [<-|[]]; auto.
    + apply dg_reg_wf_add; auto.
  - apply IH; auto.
    + apply dg_nodup_map_filter; auto.
    + apply dg_reg_wf_remove; auto.
Qed.

Theorem dg_registry_run_fresh : forall S0 ops,
  dg_deps_ok S0 -> dg_ops_valid S0 ops ->
  dg_reg_equiv (dg_reg_run (dg_reg_fresh S0) ops) (dg_reg_fresh (dg_set_run S0 ops)).
Proof.
  intros S0 ops Hok Hv.
  destruct (dg_run_wf ops S0 (dg_reg_fresh S0) Hok (dg_reg_wf_fresh S0 Hok) Hv) as [Hwf Hok'].
  eapply dg_reg_wf_equiv; [exact Hwf|]. apply dg_reg_wf_fresh; auto.
Qed.

(* starting from nothing: any valid sequence of AddDependency/RemoveDependency calls *)
Corollary dg_registry_from_empty : forall ops,
  dg_ops_valid [] ops ->
  dg_reg_equiv (dg_reg_run dg_reg_empty ops) (dg_reg_fresh (dg_set_run [] ops)).
Proof.
  intros ops Hv. apply (dg_registry_run_fresh [] ops); auto. constructor.
Qed.

(* ---------------- consequence of (a)+(b): every child has the same number of groups ---------------- *)
Definition dg_child_slots (l : list (nat * dg_key * dg_gid)) (c : nat) : list (nat * dg_key * dg_gid) :=
  filter (fun e => Nat.eqb (fst (fst e)) c) l.

Lemma dg_slot_keys_nodup : forall l,
  (forall c k, length (filter (dg_slot_eqb c k) l) <= 1) -> NoDup (map fst l).
Proof.
  induction l as [|[[c k] g] r IH]; intros H; simpl; constructor.
  - intros Hin. apply in_map_iff in Hin. destruct Hin as [[[c' k'] g'] [He Hin]]. simpl in He. inv He.
    specialize (H c k). cbn [filter] in H.
    assert (E : dg_slot_eqb c k (c, k, g) = true) by (apply dg_slot_eqb_iff; auto). rewrite E in H.
    assert (Hin' : In (c, k, g') (filter (dg_slot_eqb c k) r)).
    { apply filter_In. split; [auto | apply dg_slot_eqb_iff; auto]. }
    destruct (filter (dg_slot_eqb c k) r); [destruct Hin'|]. simpl in H. lia.
  - apply IH. intros c' k'. specialize (H c' k'). cbn [filter] in H.
    destruct (dg_slot_eqb c' k' (c, k, g)); simpl in H; lia.
Qed.

Lemma dg_slot_keys_in : forall l c k, In (c, k) (map fst l) <-> dg_slot_find l c k <> None.
Proof.
  intros l c k. unfold dg_slot_find. split.
  - intros Hin. apply in_map_iff in Hin. destruct Hin as [[[c' k'] g] [He Hin]]. simpl in He. inv He.
    destruct (find (dg_slot_eqb c k) l) as [[[? ?] ?]|] eqn:E; [discriminate|].
    pose proof (find_none _ _ E _ Hin) as Hn.
    assert (dg_slot_eqb c k (c, k, g) = true) by (apply dg_slot_eqb_iff; auto). congruence.
  - destruct (find (dg_slot_eqb c k) l) as [[[c' k'] g]|] eqn:E; [|congruence]. intros _.
    apply find_some in E. destruct E as [Hin He]. apply dg_slot_eqb_iff in He. destruct He; subst.
    apply (in_map fst) in Hin. exact Hin.
Qed.

Lemma dg_child_slots_len : forall l c,
  length (dg_child_slots l c) = length (filter (fun p : nat * dg_key => Nat.eqb (fst p) c) (map fst l)).
Proof.
  induction l as [|e r IH]; intros c; simpl; auto.
  destruct (Nat.eqb (fst (fst e)) c); simpl; rewrite IH; reflexivity.
Qed.

Theorem dg_reg_equiv_child_count : forall s1 s2 c,
  dg_reg_equiv s1 s2 ->
  length (dg_child_slots (dgx_groups s1) c) = length (dg_child_slots (dgx_groups s2) c).
Proof.
  intros s1 s2 c [Ha [Hb _]]. rewrite !dg_child_slots_len. apply Permutation_length.
  apply NoDup_Permutation.
  - apply NoDup_filter, dg_slot_keys_nodup. intros c' k'. apply Hb.
  - apply NoDup_filter, dg_slot_keys_nodup. intros c' k'. apply Hb.
  - intros [c' k']. rewrite !filter_In, !dg_slot_keys_in. specialize (Ha c' k').
    destruct (dg_slot_find (dgx_groups s1) c' k'), (dg_slot_find (dgx_groups s2) c' k');
      try tauto; intuition congruence.
Qed.
