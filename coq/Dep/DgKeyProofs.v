(* C07 - the key under which a checkable files its dependency groups (GetDependencyGroupKey,
   m_DependencyGroups, m_PendingDependencies: std::variant<Checkable*, String>) is a SUM:
   parent identity | redundancy group name.  The two kinds never collide, whatever text the
   objects and the groups carry as names - in particular when a redundancy group is named exactly
   like a parent object ("router" and redundancy_group = "router").  A key that is only the text
   (group name, or the parent's object name) merges the two, and whichever kind the merged group
   is given, its state is not what the statement asks for. *)
From Coq Require Import String.
From Icv Require Import Base.Tac Dep.DgModel.
Local Open Scope Z_scope.

Definition dg_dep_is_rg (d : dg_dep) : bool :=
  match dgd_rg d with Some _ => true | None => false end.

(* the text a key carries: [on] = object name of a checkable, [gn] = text of a redundancy group *)
Definition dg_key_text (on gn : nat -> string) (k : dg_key) : string :=
  match k with DgKParent p => on p | DgKGroup n => gn n end.

(* the text-only key: redundancy group name, or the parent's object name *)
Definition dg_skey (on gn : nat -> string) (d : dg_dep) : string :=
  dg_key_text on gn (dg_key_of d).

Lemma dg_key_eqb_eq : forall a b, dg_key_eqb a b = true <-> a = b.
Proof.
  intros [x|x] [y|y]; simpl; split; intro H; try discriminate.
  - apply Nat.eqb_eq in H. now subst.
  - inversion H. apply Nat.eqb_refl.
  - apply Nat.eqb_eq in H. now subst.
  - inversion H. apply Nat.eqb_refl.
Qed.

Lemma dg_key_kind : forall d, dg_key_is_rg (dg_key_of d) = dg_dep_is_rg d.
Proof. intros d. unfold dg_key_of, dg_dep_is_rg. now destruct (dgd_rg d). Qed.

(* equal keys <=> same kind and same parent (plain) / same group (redundant) *)
Lemma dg_key_of_injective : forall d1 d2,
  dg_key_of d1 = dg_key_of d2 <->
  dgd_rg d1 = dgd_rg d2 /\ (dgd_rg d1 = None -> dgd_parent d1 = dgd_parent d2).
Proof.
  intros d1 d2. unfold dg_key_of.
  destruct (dgd_rg d1) as [n1|], (dgd_rg d2) as [n2|]; split.
  - intro H. inversion H. split; [reflexivity | discriminate].
  - intros [H _]. now inversion H.
  - discriminate.
  - intros [H _]. discriminate.
  - discriminate.
  - intros [H _]. discriminate.
  - intro H. split; [reflexivity | intros _; congruence].
  - intros [_ H]. now rewrite (H eq_refl).
Qed.

(* a plain dependency and a member of a redundancy group never share a key - no naming appears *)
Lemma dg_key_kinds_apart : forall d1 d2,
  dgd_rg d1 = None -> dgd_rg d2 <> None -> dg_key_eqb (dg_key_of d1) (dg_key_of d2) = false.
Proof.
  intros d1 d2 H1 H2. unfold dg_key_of. rewrite H1.
  destruct (dgd_rg d2); [reflexivity | congruence].
Qed.

(* with names: the model key = (kind, text), for ANY naming that keeps different objects and
   different groups apart; nothing is asked about a group text vs an object name *)
Lemma dg_key_is_tagged_text : forall on gn,
  (forall a b, on a = on b -> a = b) -> (forall a b, gn a = gn b -> a = b) ->
  forall d1 d2,
    dg_key_of d1 = dg_key_of d2 <->
    (dg_dep_is_rg d1 = dg_dep_is_rg d2 /\ dg_skey on gn d1 = dg_skey on gn d2).
Proof.
  intros on gn Hon Hgn d1 d2. unfold dg_skey. rewrite <- !dg_key_kind.
  destruct (dg_key_of d1) as [a|a], (dg_key_of d2) as [b|b]; simpl; split; intro H;
    try discriminate; try (destruct H; discriminate).
  - inversion H. auto.
  - destruct H as [_ H]. now rewrite (Hon _ _ H).
  - inversion H. auto.
  - destruct H as [_ H]. now rewrite (Hgn _ _ H).
Qed.

(* every member of the group filed under k has the kind of k *)
Lemma dg_group_members_kind : forall g c k d,
  In d (dg_group_deps g c k) -> dg_dep_is_rg d = dg_key_is_rg k.
Proof.
  intros g c k d H. unfold dg_group_deps in H. apply filter_In in H. destruct H as [_ H].
  apply dg_key_eqb_eq in H. rewrite <- H. symmetry. apply dg_key_kind.
Qed.

Lemma dg_dedup_in : forall l k, In k (dg_dedup l) <-> In k l.
Proof.
  induction l as [|x r IH]; intro k; simpl; [tauto|].
  destruct (existsb (dg_key_eqb x) r) eqn:E.
  - rewrite IH. split; [auto|]. intros [->|H]; [|assumption].
    apply existsb_exists in E. destruct E as [y [Hy Hxy]]. apply dg_key_eqb_eq in Hxy. now subst.
  - simpl. rewrite IH. tauto.
Qed.

Lemma dg_dedup_nodup : forall l, NoDup (dg_dedup l).
Proof.
  induction l as [|x r IH]; simpl; [constructor|].
  destruct (existsb (dg_key_eqb x) r) eqn:E; [assumption|].
  constructor; [|assumption]. rewrite dg_dedup_in. intro H.
  assert (existsb (dg_key_eqb x) r = true); [|congruence].
  apply existsb_exists. exists x. split; [assumption|]. now apply dg_key_eqb_eq.
Qed.

(* each dependency of a child sits in exactly one of the child's groups: the one of its own key *)
Lemma dg_dep_in_one_group : forall g c d,
  In d (dg_child_deps (dgg_deps g) c) ->
  In (dg_key_of d) (dg_keys g c) /\ NoDup (dg_keys g c) /\
  forall k, In d (dg_group_deps g c k) <-> k = dg_key_of d.
Proof.
  intros g c d H. split; [|split].
  - unfold dg_keys. apply dg_dedup_in. now apply in_map.
  - apply dg_dedup_nodup.
  - intro k. unfold dg_group_deps. rewrite filter_In, dg_key_eqb_eq. split.
    + intros [_ E]. now symmetry.
    + intro E. split; [assumption | now symmetry].
Qed.

(* ---------- refutation of the text-only key ---------- *)
Definition dg_mk_plain (i c p : nat) : dg_dep :=
  {| dgd_id := i; dgd_child := c; dgd_parent := p; dgd_rg := None; dgd_filter := 16; dgd_iss := false;
     dgd_period := None; dgd_dc := true; dgd_dn := true |}.
Definition dg_mk_member (i c p n : nat) : dg_dep :=
  {| dgd_id := i; dgd_child := c; dgd_parent := p; dgd_rg := Some n; dgd_filter := 16; dgd_iss := false;
     dgd_period := None; dgd_dc := true; dgd_dn := true |}.

(* group n carries the object name of parent p.  The plain dependency on p and the members of
   group n then have ONE text key although their sum keys differ; the group a text-keyed map holds
   is [plain; m1; m2].  If it is evaluated as a redundancy group, a failed mandatory parent is
   masked (Ok, where the separate plain group is Failed); if it is evaluated as a plain group, one
   failed redundant parent fails it (Failed, where both separate groups are Ok). *)
Theorem dg_string_key_refuted : forall (on gn : nat -> string) (p n c r1 r2 : nat),
  gn n = on p ->
  let plain := dg_mk_plain 0 c p in
  let m1 := dg_mk_member 1 c r1 n in
  let m2 := dg_mk_member 2 c r2 n in
  dg_skey on gn plain = dg_skey on gn m1 /\ dg_skey on gn m1 = dg_skey on gn m2 /\
  dg_key_eqb (dg_key_of plain) (dg_key_of m1) = false /\
  dg_key_eqb (dg_key_of m1) (dg_key_of m2) = true /\
  (forall rp av, (forall x, rp x = true) -> av plain = false -> av m1 = true -> av m2 = true ->
     dg_group_state rp av true [plain; m1; m2] = DgOk /\
     dg_group_state rp av (dg_key_is_rg (dg_key_of plain)) [plain] = DgFailed) /\
  (forall rp av, (forall x, rp x = true) -> av plain = true -> av m1 = false -> av m2 = true ->
     dg_group_state rp av false [plain; m1; m2] = DgFailed /\
     dg_group_state rp av (dg_key_is_rg (dg_key_of plain)) [plain] = DgOk /\
     dg_group_state rp av (dg_key_is_rg (dg_key_of m1)) [m1; m2] = DgOk).
Proof.
  intros on gn p n c r1 r2 Hn plain m1 m2.
  repeat split.
  - unfold dg_skey, dg_key_of; simpl. now symmetry.
  - unfold dg_key_of; simpl. apply Nat.eqb_refl.
  - unfold dg_group_state; simpl. rewrite !H. rewrite H0, H1, H2. reflexivity.
  - unfold dg_group_state; simpl. rewrite !H. rewrite H0. reflexivity.
  - unfold dg_group_state; simpl. rewrite !H. rewrite H0, H1, H2. reflexivity.
  - unfold dg_group_state; simpl. rewrite !H. rewrite H0. reflexivity.
  - unfold dg_group_state; simpl. rewrite !H. rewrite H1, H2. reflexivity.
Qed.
