(* C13, companion file - what the source facts regenerated on every run (coq/Facts/Facts_c13.v) say now about the
   registrations, about the order of refusal checks and effects inside each handler, about the single-spot rules the
   forwarding / relay / config-object models transcribe; the zone a config::UpdateObject message names; stale messages. *)
From Icv Require Import Base.Tac Facts.Facts_c13 Msg.MzModel Msg.MzFacts Msg.MzProofs Msg.MzObs Msg.MzIdx Msg.MzCfg Msg.MzCfgProofs Msg.MzSrcProofs.
From Coq Require Import String.
Local Open Scope nat_scope.
Local Open Scope string_scope.

(* the table C13_sound quantifies over has exactly one row per use of REGISTER_APIFUNCTION in lib/ (parsed or not: the
   count of macro uses equals the number of parsed registrations), no method twice, and nothing registers a handler
   without the macro *)
Theorem C13_registration_table :
  map fst f_mz_registrations = map mz_rmethod mz_table /\ NoDup (map mz_rmethod mz_table) /\
  List.length f_mz_registrations = f_mz_macro_uses /\ f_mz_other_registrations = 0.
Proof. exact mz_registrations_now. Qed.
Print Assumptions C13_registration_table.

(* every (method, handler function, file) the source registers has a row, is classified by the specification and its
   recognised check is adequate for the class - a newly registered handler without that stops this proof *)
Theorem C13_registered_covered : forall method fn,
  In (method, fn) f_mz_registrations ->
  exists r k, mz_lookup method = Some r /\ In r mz_table /\ mz_class_of method = Some k /\ mz_row_ok k r = true.
Proof. exact mz_registered_covered. Qed.
Print Assumptions C13_registered_covered.

(* inside every handler the recognised refusal checks stand at the top level and precede everything that is not a pure
   read or a write to message-local data ("all"), or the handler has no check and its row says so ("no_check"), or it
   is the one listed exception: event::ExecuteCommand, where that holds for the origin checks but not for accept_commands *)
Theorem C13_checks_dominate : forall r, In r mz_table ->
  exists d, mz_assoc (mz_rmethod r) f_mz_dominance = Some d /\
    (d = "all" \/ (d = "no_check" /\ mz_row_has_no_check r = true) \/
     In (mz_rmethod r, d) [("event::ExecuteCommand", "origin_only")]).
Proof. exact mz_dom_now. Qed.
Print Assumptions C13_checks_dominate.

(* the shapes the forwarding model (Msg/MzFwd.v) and the zone rule below transcribe are the ones the translator finds in
   ExecuteCommandAPIHandler, RelayMessageOne/SyncRelayMessage and ConfigUpdateObjectAPIHandler now
   (None = not recognised: then only the correspondence run covers them; logged in the evidence) *)
Theorem C13_rules_source :
  match f_mz_exec_forward_rule with Some r => r = "target_in_subtree_then_relay_to_target_zone" | None => True end /\
  match f_mz_relay_rule with Some r => r = "adjacent_zones_not_back_master_only" | None => True end /\
  match f_mz_update_object_zone_rule with Some r => r = "refuse_unknown_nonempty_zone_otherwise_unused" | None => True end.
Proof. exact mz_rules_now. Qed.
Print Assumptions C13_rules_source.

(* config::UpdateObject: the zone the MESSAGE names for the object only has to exist; it never widens what is applied,
   an unknown name is refused, and which known zone it is (the sender's, the receiver's, the existing object's, any other)
   makes no difference - entitlement is decided by the sender's zone and accept_config alone (C13_sound, C13_flags) *)
Theorem C13_update_object_zone_param : forall t c s m ts i z z' zp,
  (mz_applied (mz_run_zp_i t c s m ts i zp) = true -> mz_applied (mz_run_i t c s m ts i) = true) /\
  mz_run_zp_i t c s m ts i (MzZKnown z) = mz_run_zp_i t c s m ts i (MzZKnown z') /\
  mz_run_zp_i t c s m ts i (MzZKnown z) = mz_run_zp_i t c s m ts i MzZEmpty /\
  mz_applied (mz_run_zp_i t c s m ts mz_idx_update_object MzZUnknown) = false /\
  exists k, nth_error mz_class_table mz_idx_update_object = Some ("config::UpdateObject", k).
Proof.
  intros t c s m ts i z z' zp.
  exact (conj (mz_run_zp_refines t c s m ts i zp)
        (conj (proj1 (mz_run_zp_known_irrelevant t c s m ts i z z'))
        (conj (proj2 (mz_run_zp_known_irrelevant t c s m ts i z z'))
        (conj (mz_run_zp_unknown t c s m ts) mz_idx_update_object_spec)))).
Qed.
Print Assumptions C13_update_object_zone_param.

Theorem C13_zone_param_oracle_accepts_model : forall t c s m ts i name k zp,
  mz_wf t -> nth_error mz_class_table i = Some (name, k) ->
  (forall r, mz_lookup name = Some r -> ~ mz_finding_anon_cert s r) ->
  mz_oracle_i t c s m i (mz_run_zp_i t c s m ts i zp) = 0.
Proof. exact mz_oracle_zp_accepts. Qed.
Print Assumptions C13_zone_param_oracle_accepts_model.

(* replayed / reordered messages: one whose "ts" lies before the sending endpoint's remote log position is dropped before
   any handler runs; without Endpoint object "ts" is ignored (never dropped, never recorded); and a time stamp never
   widens what is applied *)
Theorem C13_stale_dropped : forall t c s m row eff,
  mz_is_some (mz_ep s) = true ->
  mz_handle t c s m MzTsOld row eff = {| mz_dropped := true; mz_rlp := false; mz_applied := false |}.
Proof. exact mz_stale_dropped. Qed.
Print Assumptions C13_stale_dropped.

Theorem C13_ts_never_widens : forall t c s m ts row eff,
  (mz_applied (mz_handle t c s m ts row eff) = true -> mz_applied (mz_handle t c s m MzTsNone row eff) = true) /\
  (mz_ep s = None ->
     mz_handle t c s m ts row eff = mz_handle t c s m MzTsNone row eff /\ mz_rlp (mz_handle t c s m ts row eff) = false).
Proof.
  intros t c s m ts row eff.
  exact (conj (mz_ts_monotone t c s m ts row eff) (mz_ts_ignored_without_endpoint t c s m ts row eff)).
Qed.
Print Assumptions C13_ts_never_widens.

(* the carve-out of "a refused message changes nothing": before dispatch MessageHandler records the message's ts as the
   SENDING endpoint's own remote log position.  That happens only for a connection with an Endpoint object and only for a
   newer ts; it concerns nobody but the sender (class "session" of C13_sound) *)
Theorem C13_log_position_only_own_endpoint : forall t c s m ts row eff,
  mz_rlp (mz_handle t c s m ts row eff) = true ->
  (exists z, mz_cauth s = true /\ mz_cident s = Some z) /\ ts = MzTsNew.
Proof. exact mz_rlp_only_own_endpoint. Qed.
Print Assumptions C13_log_position_only_own_endpoint.
