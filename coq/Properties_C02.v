(* C02 - the property theorems, nothing else.  Each is closed by [exact] of a lemma proved in Ck/CkSupp*.v
   and followed by Print Assumptions.  Model: Ck/CkFull.v (do_result = Checkable::ProcessCheckResult,
   do_fire = Checkable::FireSuppressedNotifications, full_step = every scripted operation). *)
From Icv Require Import Base.Tac Ck.CkState Ck.CkStateProofs Ck.CkObs Ck.CkFull Ck.CkSuppProofs Ck.CkSuppStep
  Ck.CkSuppFire Ck.CkSuppThms Ck.CkSuppObs Ck.CkSuppOracleProofs Facts.Facts_enums.
Local Open Scope Z_scope.

(* Problem exactly on entering / changing between hard problem states (volatile: every non-OK result while hard),
   Recovery exactly on OK/Up from a HARD problem state, never for soft states, nothing while flapping.
   [c02_shape] (OK/Up is always hard) holds in every state reached from the never-checked start (C02_request_rule_run).
   No exception for volatile objects any more (/repo b9a7cb5, see C02_fix_volatile_soft_recovery). *)
Theorem C02_request_rule : forall c now r f,
  rejected now (f_st f) r = false ->
  let f' := fst (do_result c now r f) in
  let o := snd (do_result c now r f) in
  (s_type (f_st f') = Soft \/ is_flapping c (f_flap f') = true ->
     c02_state_outs o = [] /\ f_sp_problem f' = f_sp_problem f /\ f_sp_recovery f' = f_sp_recovery f) /\
  (c02_shape (fc_base c) (f_st f) ->
   f_paused f = false -> is_flapping c (f_flap f') = false ->
   c02_reason now f' = false -> c02_pending f = false ->
     c02_state_outs o = c02_expected (fc_base c) (f_st f) (r_state r) (s_type (f_st f')) /\
     c02_pending f' = false).
Proof. exact request_rule. Qed.
Print Assumptions C02_request_rule.

(* the same along every run from the never-checked start: the shape premise is an invariant *)
Theorem C02_request_rule_run : forall c l now r,
  let f := c02_run c init_full l in
  rejected now (f_st f) r = false ->
  let f' := fst (do_result c now r f) in
  let o := snd (do_result c now r f) in
  f_paused f = false -> is_flapping c (f_flap f') = false ->
  c02_reason now f' = false -> c02_pending f = false ->
  c02_state_outs o = c02_expected (fc_base c) (f_st f) (r_state r) (s_type (f_st f')) /\ c02_pending f' = false.
Proof. exact request_rule_run. Qed.
Print Assumptions C02_request_rule_run.

(* FlappingStart / FlappingEnd are requested (in a downtime: stashed, Start and End cancelling) exactly when the
   detector toggles; the other fields say what else the result changed *)
Theorem C02_flapping : forall c now r f,
  rejected now (f_st f) r = false ->
  c02_res_spec c now r f (fst (do_result c now r f)) (snd (do_result c now r f)).
Proof. exact do_result_spec. Qed.
Print Assumptions C02_flapping.

Theorem C02_flapping_toggle : forall c now r f,
  rejected now (f_st f) r = false -> f_paused f = false ->
  let f' := fst (do_result c now r f) in
  let o := snd (do_result c now r f) in
  let fl0 := is_flapping c (f_flap f) in
  let fl1 := is_flapping c (f_flap f') in
  (in_downtime now f' = false ->
     c02_flap_outs o = (if negb fl0 && fl1 then [ONotify NFlapStart] else if fl0 && negb fl1 then [ONotify NFlapEnd] else [])) /\
  (in_downtime now f' = true ->
     c02_flap_outs o = [] /\
     (f_sp_fstart f && f_sp_fend f = false ->
      (f_sp_fstart f', f_sp_fend f') = c02_cancel (f_sp_fstart f || (negb fl0 && fl1)) (f_sp_fend f || (fl0 && negb fl1)))) /\
  (fl0 = fl1 -> c02_flap_outs o = []).
Proof. exact flapping_toggle. Qed.
Print Assumptions C02_flapping_toggle.

(* a reason holds or earlier events are pending: nothing is requested, the bit is recorded and the FIRST recording
   remembers the hard state before this result; later recordings keep it *)
Theorem C02_stash : forall c now r f,
  rejected now (f_st f) r = false ->
  let f' := fst (do_result c now r f) in
  let o := snd (do_result c now r f) in
  let i := snd (step_accept (fc_base c) (f_st f) r) in
  c02_send (fc_base c) i (f_st f') (r_state r) = true ->
  f_paused f = false -> is_flapping c (f_flap f') = false ->
  c02_reason now f' = true \/ c02_pending f = true ->
    c02_state_outs o = [] /\
    f_sp_problem f' = (f_sp_problem f || negb (i_recovery i)) /\
    f_sp_recovery f' = (f_sp_recovery f || i_recovery i) /\
    c02_pending f' = true /\
    (c02_pending f = false -> f_sbs f' = c02_hard_state (f_st f)) /\
    (c02_pending f = true -> f_sbs f' = f_sbs f).
Proof. exact stash_rule. Qed.
Print Assumptions C02_stash.

(* safety of EVERY operation (results, timer, downtime add/remove/timers, acknowledge/clear/expire, parent
   results, pause/resume, next-check changes) in EVERY state: at most one state notification; none while paused
   or while a suppression reason holds; while events are pending only a releasing timer firing sends, it clears
   the bits and sends only if the state (hosts: Up/Down) differs from the remembered one; the remembered state is never
   overwritten while pending; bits are only cleared by a releasing firing and only set by a check result that
   sends nothing and remembers the hard state before it *)
Theorem C02_safety : forall c now f op,
  let f' := fst (full_step c now f op) in
  let o := snd (full_step c now f op) in
  (length (c02_state_outs o) <= 1)%nat /\
  (c02_state_outs o <> [] -> f_paused f = false /\ c02_reason now f' = false /\ c02_is_core_op op = true) /\
  (c02_pending f = true -> f_sbs f' = f_sbs f) /\
  (c02_pending f = true -> c02_state_outs o <> [] ->
     op = OpFire /\ c02_pending f' = false /\
     release_same_state (c_kind (fc_base c)) (s_raw (f_st f)) (f_sbs f) = false) /\
  (c02_pending f = true -> c02_pending f' = false ->
     op = OpFire /\ f_paused f = false /\ c02_release_cond c now f = true) /\
  (c02_pending f = false -> c02_pending f' = true ->
     (exists r, op = OpResult r) /\ c02_state_outs o = [] /\ f_sbs f' = c02_hard_state (f_st f)).
Proof. exact safety_step. Qed.
Print Assumptions C02_safety.

(* whatever happens in between (unbounded, all interleavings): as long as events stay pending nothing is sent
   and the remembered state stays *)
Theorem C02_episode : forall c l f,
  c02_pending f = true ->
  Forall (fun fo => c02_pending (fst fo) = true) (c02_trace c f l) ->
  Forall (fun fo => c02_state_outs (snd fo) = [] /\ f_sbs (fst fo) = f_sbs f) (c02_trace c f l).
Proof. exact episode. Qed.
Print Assumptions C02_episode.

(* over all operation sequences from the never-checked start: state_before_suppression IS the hard state before
   the step that began the current episode (ghost variable maintained independently of the stash code) *)
Theorem C02_remembered : forall c l,
  let fg := c02_run_ghost c (init_full, None) l in
  snd fg = if c02_pending (fst fg) then Some (f_sbs (fst fg)) else None.
Proof. exact remembered. Qed.
Print Assumptions C02_remembered.

(* the timer: first firing at which the four conditions hold clears the bits, sends exactly one notification iff
   the state differs (hosts: Up/Down), and any further firing is silent; otherwise everything is kept *)
Theorem C02_release_step : forall c now f,
  f_paused f = false -> c02_pending f = true ->
  let f' := fst (do_fire c now f) in
  let o := snd (do_fire c now f) in
  (c02_release_cond c now f = true ->
     c02_pending f' = false /\
     c02_state_outs o = (if release_same_state (c_kind (fc_base c)) (s_raw (f_st f)) (f_sbs f) then [] else [ONotify (c02_fire_type c f)]) /\
     (forall now', c02_state_outs (snd (do_fire c now' f')) = [])) /\
  (c02_release_cond c now f = false ->
     c02_state_outs o = [] /\ f_sp_problem f' = f_sp_problem f /\ f_sp_recovery f' = f_sp_recovery f /\
     f_sbs f' = f_sbs f).
Proof. exact release_step. Qed.
Print Assumptions C02_release_step.

(* MAIN release theorem in the property's terms (API state: Up/Down for hosts, the service state for services), over ALL
   interleavings from the never-checked start, hosts and services, all four raw results: at a firing at which no reason holds,
   the object is hard, its next check is not imminent and no parent recovered recently, the bits are cleared, exactly one
   notification is requested iff the state differs from the remembered one, and every later firing is silent. *)
Theorem C02_release : forall c l now,
  let f := c02_run c init_full l in
  let k := c_kind (fc_base c) in
  f_paused f = false -> c02_pending f = true -> c02_release_cond c now f = true ->
  c02_pending (fst (do_fire c now f)) = false /\
  c02_state_outs (snd (do_fire c now f)) =
    (if api_state k (s_raw (f_st f)) =? api_state k (f_sbs f) then [] else [ONotify (c02_fire_type c f)]) /\
  (forall now', c02_state_outs (snd (do_fire c now' (fst (do_fire c now f)))) = []).
Proof. exact release_rule. Qed.
Print Assumptions C02_release.

(* ---- the two defects found here and fixed in /repo: what exactly the old code did differently ---- *)

Definition c02_w_cfg (k : kind) (mx : Z) (vol : bool) : fcfg :=
  {| fc_base := {| c_kind := k; c_max := mx; c_volatile := vol |}; fc_flap_enabled := false;
     fc_flap_high := 3005; fc_flap_low := 2505; fc_active_checks := false; fc_check_interval := 300 |}.
Definition c02_w_res (s : sstate) (t : Z) : op := OpResult {| r_state := s; r_start := t; r_end := t |}.

(* /repo 5e50b7a.  OLD variant: FireSuppressedNotifications compared raw states ([sstate_eqb cur sbs]).  It agrees with the
   fixed comparison for services and whenever the raw states are equal, and differs for hosts whose raw states collapse
   (Up via WARNING vs Up via OK, Down via UNKNOWN vs Down via CRITICAL); on the witness run the fixed model is silent. *)
Theorem C02_fix_host_raw_state_release :
  ((forall a b, sstate_eqb a b = release_same_state KService a b) /\
   (forall a b, sstate_eqb a b = true -> release_same_state KHost a b = true) /\
   sstate_eqb SWarning SOK = false /\ release_same_state KHost SWarning SOK = true /\
   sstate_eqb SUnknown SCritical = false /\ release_same_state KHost SUnknown SCritical = true) /\
  let c := c02_w_cfg KHost 1 false in
  let l := [(10, c02_w_res SOK 10); (20, OpDtAdd 1 true 20 100 0 0 0 false); (30, c02_w_res SCritical 30);
            (40, c02_w_res SWarning 40); (50, OpDtRemove 1 false RByUser)] in
  let f := c02_run c init_full l in
  f_paused f = false /\ c02_pending f = true /\ c02_release_cond c 60 f = true /\
  sstate_eqb (s_raw (f_st f)) (f_sbs f) = false /\
  c02_state_outs (snd (do_fire c 60 f)) = [] /\ c02_pending (fst (do_fire c 60 f)) = false.
Proof. split; [exact c02_release_old_differs|]. cbv zeta. repeat split; vm_compute; reflexivity. Qed.
Print Assumptions C02_fix_host_raw_state_release.

(* /repo b9a7cb5.  OLD variant [c02_send_old]: the volatile branch of send_notification without the soft -> OK/Up exclusion.
   It requested exactly what the fixed code requests plus the case [c02_vol_soft] (volatile, OK/Up result, previous state soft
   or never checked and not OK/Up); on the witness (volatile service, max 3: OK, CRITICAL soft 1/3, OK) the old decision is
   "send", the fixed model requests nothing - nor on the very first OK result. *)
Theorem C02_fix_volatile_soft_recovery :
  (forall b pre r,
     let s' := fst (step_accept b pre r) in
     let i := snd (step_accept b pre r) in
     c02_send_old b i s' (r_state r) = (c02_send b i s' (r_state r) || c02_vol_soft b pre (r_state r))) /\
  let c := c02_w_cfg KService 3 true in
  let f := c02_run c init_full [(10, c02_w_res SOK 10); (20, c02_w_res SCritical 20)] in
  let r := {| r_state := SOK; r_start := 30; r_end := 30 |} in
  s_type (f_st f) = Soft /\ rejected 30 (f_st f) r = false /\
  c02_send_old (fc_base c) (snd (step_accept (fc_base c) (f_st f) r)) (fst (step_accept (fc_base c) (f_st f) r)) SOK = true /\
  c02_state_outs (snd (do_result c 30 r f)) = [] /\
  c02_state_outs (snd (do_result c 10 {| r_state := SOK; r_start := 10; r_end := 10 |} init_full)) = [].
Proof. split; [exact c02_send_old_char|]. cbv zeta. repeat split; vm_compute; reflexivity. Qed.
Print Assumptions C02_fix_volatile_soft_recovery.

(* ---- the executable oracle run over implementation traces ---- *)

(* every step of the model, from every state, passes the oracle *)
Theorem C02_oracle_step : forall c now f o,
  c02_check (fc_base c) (c02_model_obs c now f o) = 0.
Proof. exact c02_check_model. Qed.
Print Assumptions C02_oracle_step.

(* ... hence every model trace: any start state, any operations, hosts and services, any raw results *)
Theorem C02_oracle_accepts_model : forall c l f,
  oracle_c02 (fc_base c) (c02_model_trace c f l) = None.
Proof. exact oracle_c02_accepts_model. Qed.
Print Assumptions C02_oracle_accepts_model.

(* model constants = what the source says now (regenerated facts) *)
Theorem C02_source_facts :
  ntype_num NProblem = Facts_enums.f_NotificationProblem /\ ntype_num NRecovery = Facts_enums.f_NotificationRecovery /\
  ntype_num NFlapStart = Facts_enums.f_NotificationFlappingStart /\
  ntype_num NFlapEnd = Facts_enums.f_NotificationFlappingEnd.
Proof. repeat split; reflexivity. Qed.
Print Assumptions C02_source_facts.

(* non-vacuity: the premises of the release theorem are met by reachable non-trivial states and the notification is really
   sent (service WARNING -> [downtime: OK, CRITICAL] -> Problem released since CRITICAL <> WARNING); nothing is sent when the state
   returned to the remembered one; a host that is Down via UNKNOWN instead of CRITICAL counts as unchanged, Up via WARNING after
   remembered Down as changed *)
Example C02_nonvacuous :
  let c := c02_w_cfg KService 1 false in
  let h := c02_w_cfg KHost 1 false in
  let mk a b x := [(10, c02_w_res a 10); (20, OpDtAdd 1 true 20 100 0 0 0 false); (30, c02_w_res b 30);
                   (40, c02_w_res x 40); (50, OpDtRemove 1 false RByUser)] in
  let l1 := mk SWarning SOK SCritical in
  let l2 := mk SWarning SOK SWarning in
  let l3 := mk SCritical SOK SUnknown in
  let l4 := mk SCritical SOK SWarning in
  c02_pending (c02_run c init_full l1) = true /\
  c02_release_cond c 60 (c02_run c init_full l1) = true /\
  c02_state_outs (snd (do_fire c 60 (c02_run c init_full l1))) = [ONotify NProblem] /\
  c02_pending (c02_run c init_full l2) = true /\ c02_release_cond c 60 (c02_run c init_full l2) = true /\
  c02_state_outs (snd (do_fire c 60 (c02_run c init_full l2))) = [] /\
  c02_pending (c02_run h init_full l3) = true /\ c02_release_cond h 60 (c02_run h init_full l3) = true /\
  c02_state_outs (snd (do_fire h 60 (c02_run h init_full l3))) = [] /\
  c02_pending (c02_run h init_full l4) = true /\ c02_release_cond h 60 (c02_run h init_full l4) = true /\
  c02_state_outs (snd (do_fire h 60 (c02_run h init_full l4))) = [ONotify NRecovery].
Proof. cbv zeta. repeat split; vm_compute; reflexivity. Qed.
