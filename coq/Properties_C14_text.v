(* C14, companion file - the writer -> lexer -> parser chain of modified-attributes.conf with REAL TEXT (composition with
   C17's writer/lexer/literal-parser model and its round-trip theorem C17_values), repeated modification, source facts.
   Only [exact] + Print Assumptions here. *)
From Icv Require Import Base.Tac Persist.PsValue Persist.PsModel Persist.PsValueProofs Persist.PsSeqProofs Persist.PsFrameProofs
  Persist.PsRestoreProofs Persist.PsReloadProofs Persist.PsPopModel Persist.PsPopProofs Persist.PsText Persist.PsTextProofs Persist.PsTextReloadProofs
  Persist.PsFirstProofs Persist.PsSrcFacts Cw.CwModel.
From Coq Require Import NArith.
Local Open Scope N_scope.

(* ---------------------------------------------------------------- the codec is parse o emit, and it is the identity *)
(* ps_text_codec v = the value ConfigCompiler reads from the text ConfigWriter::EmitValue writes for v (C17's model of both,
   tables regenerated from /repo).  For EVERY plain value - any nesting of arrays and dictionaries, ANY bytes in strings and
   keys: the EMPTY key, keys with dots, quotes, line breaks, NUL, leading digits, UTF-8, writer keywords (`null`, `object` ..
   written @null ..), empty strings / arrays / dictionaries, decimals in lowest terms - it returns that value.  The only
   exclusion is visible in ps_txt_ok: a dictionary key that the lexer reads as a keyword while the writer leaves it bare
   (cw_key_lexes, general over the regenerated lists; none for the source as it is: C14_text_codec_identity_src). *)
Theorem C14_text_codec_identity : forall v, ps_txt_ok v -> ps_text_codec v = Some v.
Proof. exact ps_text_codec_id. Qed.
Print Assumptions C14_text_codec_identity.

(* the attribute path (first argument of modify_attribute) and the object name are string literals: any bytes come back *)
Theorem C14_text_key_identity : forall k, ps_text_key k = Some k.
Proof. exact ps_text_key_id. Qed.
Print Assumptions C14_text_key_identity.

(* THE FILE COMPILES TO WHAT WAS DUMPED.  For every population whose objects hold plain values in their fields (at any
   depth), the blocks DumpModifiedAttributes collects - written by the writer, compiled by the lexer + parser - are exactly
   those blocks again, and the evaluation of the text is the evaluation of the dumped values. *)
Theorem C14_modattr_file_compiles : forall fe now pop bs base,
  (forall po, In po pop -> ps_obj_txt_ok (ps_p_obj po)) -> ps_pop_dump pop = Some bs ->
  ps_file_parse bs = Some bs /\ ps_pop_replay_text fe now bs base = ps_pop_replay fe now bs base.
Proof. exact ps_pop_reload_text. Qed.
Print Assumptions C14_modattr_file_compiles.

(* ... hence the stop/start cycle through text IS the stop/start cycle on values: C14_population_restart and
   C14_population_history_restart hold verbatim for ps_pop_restart_text *)
Theorem C14_population_restart_text : forall fe now running base,
  (forall po, In po running -> ps_obj_txt_ok (ps_p_obj po)) ->
  ps_pop_restart_text fe now running base = ps_pop_restart fe now running base.
Proof. exact ps_pop_restart_text_eq. Qed.
Print Assumptions C14_population_restart_text.

(* THE RELOAD THEOREM THROUGH TEXT (C14_population_reload composed with the chain): dump succeeds, the written file
   compiles, its evaluation on the configured population succeeds, every object reads as before the restart on its paths
   and on the frame, lists the same original_attributes entries and has its own version. *)
Theorem C14_population_reload_text : forall fe now specs,
  NoDup (map ps_s_name specs) -> (forall s, In s specs -> ps_pspec_ok fe s) ->
  (forall s, In s specs -> ps_obj_txt_ok (ps_s_cur s)) ->
  exists blocks r,
    ps_pop_dump (ps_pop_cur specs) = Some blocks /\ ps_file_parse blocks = Some blocks /\
    ps_pop_replay_text fe now blocks (ps_pop_base specs) = (true, r) /\
    map ps_p_name r = map ps_s_name specs /\
    (forall s, In s specs -> exists ro, ps_pop_find (ps_s_name s) r = Some ro /\ ps_pspec_concl s ro).
Proof. exact ps_pop_reload_through_text. Qed.
Print Assumptions C14_population_reload_text.

(* FINDING modattr-keyword-key, GENERAL FORM over the regenerated keyword lists: whenever there is a key k that the writer
   leaves bare and the lexer reads as a keyword (cw_key_lexes k = false; before fix 918cf68: `in`, `debugger`), a dictionary
   with that key - at any depth of a runtime-modified attribute's value - does not compile, and with it the whole file *)
Theorem C14_modattr_keyword_key_general : forall k x,
  cw_key_lexes k = false -> ps_txt_ok x -> ps_text_codec (PsDict [(k, x)]) = None.
Proof. exact ps_keyword_key_breaks. Qed.
Print Assumptions C14_modattr_keyword_key_general.

(* ... FIXED (918cf68: the writer's keyword list contains every lexer keyword, read from /repo on every run): there is no such
   key, so the codec is the identity for ANY keys - stops checking when the writer loses a lexer keyword again ... *)
Theorem C14_text_codec_identity_src : forall v, ps_plain v -> ps_text_codec v = Some v.
Proof. exact ps_text_codec_id_src. Qed.
Print Assumptions C14_text_codec_identity_src.

(* ... and the former witnesses come back: {"in": 1}, [{"a": {"debugger": null}}], and the two-object file whose second
   block has a key `in` compiles to itself (object h's line is no longer lost with it) *)
Theorem C14_modattr_keyword_key_fixed :
  ps_text_codec (PsDict [(ps_k_in, PsNum 1 0)]) = Some (PsDict [(ps_k_in, PsNum 1 0)]) /\
  ps_text_codec (PsArr [PsDict [([97], PsDict [(ps_k_debugger, PsEmpty)])]]) = Some (PsArr [PsDict [([97], PsDict [(ps_k_debugger, PsEmpty)])]]) /\
  (let f := [ {| ps_b_name := [104]; ps_b_lines := [([118; 97; 114; 115; 46; 120], PsStr [111; 107])]; ps_b_version := 5 |};
              {| ps_b_name := [105]; ps_b_lines := [([118; 97; 114; 115; 46; 120], PsDict [(ps_k_in, PsNum 1 0)])]; ps_b_version := 7 |} ] in
   ps_file_parse f = Some f).
Proof. exact ps_keyword_key_fixed. Qed.
Print Assumptions C14_modattr_keyword_key_fixed.

(* ---------------------------------------------------------------- repeated modification *)
(* After EVERY allowed history (paths of a pairwise incomparable set P, the same path any number of times, successes and
   failures, no modify meets a dictionary): each original_attributes entry holds the configured value of its path and every
   unlisted path of P reads its configured value - so what is remembered is the value before the FIRST modification since the
   last restore, and a later modification never overwrites it, whether it is null, "", 0, false, an empty array or the null
   of a key that did not exist. *)
Theorem C14_original_is_first : forall fe P o0,
  (forall p p', In p P -> In p' P -> p <> p' -> ps_incomp p p') ->
  (forall p, In p P -> ps_cfg_field fe p) ->
  (forall p, In p P -> forall fi, ps_filookup fe (ps_field_of p) = Some fi -> ps_coerce fi (ps_get_attr p o0) = ps_get_attr p o0) ->
  ps_orig_dict o0 = [] ->
  forall h, ps_hist_ok fe P o0 h ->
  let o := ps_run fe o0 h in
  (forall k x, In (k, x) (ps_orig_dict o) -> In k P /\ x = ps_get_attr k o0) /\
  (forall p, In p P -> ps_dcontains p (ps_orig_dict o) = false -> ps_get_attr p o = ps_get_attr p o0).
Proof. exact ps_original_is_first. Qed.
Print Assumptions C14_original_is_first.

(* the same in the words of the property: h1 leaves p unlisted; ModifyAttribute(p, v1) is the first modification; h2 is ANY
   allowed continuation (p modified 2, 3, .. times, other paths modified / restored).  If p is listed at the end, the
   remembered value is the one p had right before that first modification.  (RestoreAttribute then returns it:
   C14_restore_frame / C14_restore_sequence.) *)
Theorem C14_original_before_first : forall fe P o0,
  (forall p p', In p P -> In p' P -> p <> p' -> ps_incomp p p') ->
  (forall p, In p P -> ps_cfg_field fe p) ->
  (forall p, In p P -> forall fi, ps_filookup fe (ps_field_of p) = Some fi -> ps_coerce fi (ps_get_attr p o0) = ps_get_attr p o0) ->
  ps_orig_dict o0 = [] ->
  forall h1 p v1 t1 h2,
  ps_hist_ok fe P o0 (h1 ++ PsOpMod p v1 t1 :: h2) ->
  ps_dcontains p (ps_orig_dict (ps_run fe o0 h1)) = false ->
  forall x, In (p, x) (ps_orig_dict (ps_run fe o0 (h1 ++ PsOpMod p v1 t1 :: h2))) -> x = ps_get_attr p (ps_run fe o0 h1).
Proof. exact ps_original_before_first. Qed.
Print Assumptions C14_original_before_first.

(* ---------------------------------------------------------------- source facts (regenerated from /repo on every run) *)
(* ModifyAttribute decides "already remembered" with Dictionary::Contains in all four places (top-level / nested leaf /
   per key of an old dictionary / per key of a new dictionary) - or in a shape the recogniser does not know (then the
   correspondence run decides); never with a test on the remembered VALUE (Get(..).IsEmpty() would take a remembered
   null or "" for "nothing remembered").  EmitIdentifier writes a key bare only if a regex with a non-empty first
   character class matches the whole string - or in an unknown shape (correspondence decides). *)
Theorem C14_source_facts : ps_src_remember_ok = true /\ ps_src_ident_nonempty_ok = true.
Proof. exact ps_src_facts. Qed.
Print Assumptions C14_source_facts.

(* ---------------------------------------------------------------- non-vacuity *)
Example C14_text_nonvacuous :
  let v := PsDict [([], PsStr []); ([0; 97], PsArr []); ([10], PsDict []); ([34; 92], PsNum (-25) 1); ([46; 46], PsEmpty);
                   ([49; 97], PsBool true); ([110; 117; 108; 108], PsNum 1234567 7); ([195; 188], PsArr [PsDict [([], PsDict [([], PsNum 0 0)])]])] in
  ps_txt_okb v = true /\ ps_text_codec v = Some v.
Proof. exact ps_text_codec_examples. Qed.

Example C14_first_nonvacuous :
  ps_hist_ok ps_f_fe ps_f_P ps_f_o0 ps_f_h /\
  ps_orig_dict (ps_run ps_f_fe ps_f_o0 ps_f_h) =
    [([110], PsStr []); (ps_f_path 97, PsArr []); (ps_f_path 102, PsBool false); (ps_f_path 109, PsEmpty);
     (ps_f_path 115, PsStr []); (ps_f_path 122, PsNum 0 0)] /\
  (let o' := ps_run ps_f_fe (ps_run ps_f_fe ps_f_o0 ps_f_h) (map (fun p => PsOpRes p 4%Z) ps_f_P) in
   ps_orig_dict o' = [] /\ forall p, In p ps_f_P -> ps_get_attr p o' = ps_get_attr p ps_f_o0).
Proof. exact ps_first_nonvacuous. Qed.
