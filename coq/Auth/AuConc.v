(* C10 - ConfigObject::SetAuthority at lock granularity, called concurrently (model, no proofs).
   lib/base/configobject.cpp:444-459:

     void ConfigObject::SetAuthority(bool authority)
     {
         [optional unlocked fast path:  if (authority != GetPaused()) return;]      -- auc_fast
         ObjectLock olock(this);                                                     -- AcWant -> AcLocked
         if (authority && GetPaused()) {            -- test under the lock           -- auc_recheck
             SetResumeCalled(false); Resume(); ASSERT(GetResumeCalled());            -- AcResume1 (the call)
             SetPaused(false);                                                       -- AcResume2 (the write)
         } else if (!authority && !GetPaused()) {
             SetPaused(true);                                                        -- AcPause1 (the write)
             SetPauseCalled(false); Pause(); ASSERT(GetPauseCalled());               -- AcPause2 (the call)
         }
     }                                                                               -- AcUnlock

   Atomicity the model (and the proof) relies on: a load or store of `paused' is one atomic step
   (std::atomic<bool> m_Paused), ObjectLock is mutual exclusion (acquire only when free), and the call of
   Resume()/Pause() and the store to `paused' are SEPARATE steps in the order the code has them.
   The tree as it is has auc_fast = false, auc_recheck = true.  Threads are a total function from thread ids
   to (program counter, arguments of the calls still to make); a schedule is any list of thread ids, a
   scheduled thread that cannot move (waiting for the lock, nothing to do) stutters. *)
From Icv Require Import Base.Tac.
Local Open Scope Z_scope.

Inductive auc_call := AcResumeCall | AcPauseCall.

Inductive auc_pc :=
  | AcIdle                      (* between calls *)
  | AcStart (a : bool)          (* entered SetAuthority(a) *)
  | AcWant (a : bool)           (* about to take the ObjectLock *)
  | AcLocked (a : bool)         (* holds the lock, about to decide *)
  | AcResume1                   (* about to call Resume() *)
  | AcResume2                   (* Resume() returned, about to SetPaused(false) *)
  | AcPause1                    (* about to SetPaused(true) *)
  | AcPause2                    (* about to call Pause() *)
  | AcUnlock.                   (* about to release the lock *)

Record auc_thread := { auc_t_pc : auc_pc; auc_t_todo : list bool }.

Record auc_cfg := { auc_fast : bool; auc_recheck : bool }.

Record auc_state := {
  auc_paused : bool;
  auc_lock : option nat;                (* holder *)
  auc_threads : nat -> auc_thread;
  auc_trace : list auc_call             (* calls of Resume()/Pause() on the object, oldest first *)
}.

Definition auc_upd (f : nat -> auc_thread) (i : nat) (t : auc_thread) : nat -> auc_thread :=
  fun j => if Nat.eqb j i then t else f j.

Definition auc_set (s : auc_state) (paused : bool) (lock : option nat) (i : nat) (pc : auc_pc) (todo : list bool)
           (tr : list auc_call) : auc_state :=
  {| auc_paused := paused; auc_lock := lock;
     auc_threads := auc_upd (auc_threads s) i {| auc_t_pc := pc; auc_t_todo := todo |};
     auc_trace := tr |}.

(* one step of thread i; a thread that cannot move leaves the state unchanged *)
Definition auc_step (c : auc_cfg) (s : auc_state) (i : nat) : auc_state :=
  let t := auc_threads s i in
  let todo := auc_t_todo t in
  let p := auc_paused s in
  let l := auc_lock s in
  let tr := auc_trace s in
  match auc_t_pc t with
  | AcIdle => match todo with
              | [] => s
              | a :: rest => auc_set s p l i (AcStart a) rest tr
              end
  | AcStart a =>
      if auc_fast c then
        (* if (authority != GetPaused()) return; *)
        if negb (Bool.eqb a p) then auc_set s p l i AcIdle todo tr else auc_set s p l i (AcWant a) todo tr
      else auc_set s p l i (AcWant a) todo tr
  | AcWant a => match l with
                | None => auc_set s p (Some i) i (AcLocked a) todo tr
                | Some _ => s
                end
  | AcLocked a =>
      if auc_recheck c then
        if a && p then auc_set s p l i AcResume1 todo tr
        else if negb a && negb p then auc_set s p l i AcPause1 todo tr
        else auc_set s p l i AcUnlock todo tr
      else
        if a then auc_set s p l i AcResume1 todo tr else auc_set s p l i AcPause1 todo tr
  | AcResume1 => auc_set s p l i AcResume2 todo (tr ++ [AcResumeCall])
  | AcResume2 => auc_set s false l i AcUnlock todo tr
  | AcPause1 => auc_set s true l i AcPause2 todo tr
  | AcPause2 => auc_set s p l i AcUnlock todo (tr ++ [AcPauseCall])
  | AcUnlock => auc_set s p None i AcIdle todo tr
  end.

Definition auc_run (c : auc_cfg) (s : auc_state) (sched : list nat) : auc_state := fold_left (auc_step c) sched s.

Definition auc_init (p0 : bool) (todo : nat -> list bool) : auc_state :=
  {| auc_paused := p0; auc_lock := None;
     auc_threads := fun j => {| auc_t_pc := AcIdle; auc_t_todo := todo j |};
     auc_trace := [] |}.

(* ---- the property of a call sequence: it alternates, starting with the call that fits the initial flag *)
Definition auc_flip (c : auc_call) : bool := match c with AcResumeCall => false | AcPauseCall => true end.
(* `paused' as the calls so far leave it *)
Definition auc_after (p0 : bool) (tr : list auc_call) : bool := fold_left (fun _ c => auc_flip c) tr p0.
(* a call is in order when it changes something: Resume only while paused, Pause only while not paused *)
Definition auc_call_ok (p : bool) (c : auc_call) : bool := negb (Bool.eqb (auc_flip c) p).
Fixpoint auc_altb (p0 : bool) (tr : list auc_call) : bool :=
  match tr with
  | [] => true
  | c :: rest => auc_call_ok p0 c && auc_altb (auc_flip c) rest
  end.

(* what the real-thread run reports per round: the initial flag, the observed call sequence, the flag after all threads joined *)
Definition auc_round_ok (p0 : bool) (tr : list auc_call) (final : bool) : bool :=
  auc_altb p0 tr && Bool.eqb final (auc_after p0 tr).
