(* C10 - what the correspondence run observes per object after an operation of a node, and the executable
   property oracle that is run over the IMPLEMENTATION's traces.
   The oracle follows only the inputs of a node (clock, start time, connectivity, whether a complete run
   happened) and the previous observation; from them it demands what the theorems establish:
   after a complete run `paused' is the negation of the authority the theorems name (C10_split, C10_alone,
   C10_nozone), a run inside the cold-start window changes nothing (C10_coldstart), every change of
   `paused' comes with exactly one Pause()/Resume() call and no change with none (C10_once), a new process
   starts with every run-once object paused, and nothing is sent for a paused notification object or before
   the first complete run (guards). *)
From Icv Require Import Base.Tac Auth.AuModel.
Local Open Scope Z_scope.

Record au_oobs := {
  au_oo_paused : bool;      (* paused after the operation *)
  au_oo_dp : Z;             (* Pause() calls during the operation *)
  au_oo_dr : Z;             (* Resume() calls *)
  au_oo_ds : Z              (* notifications that went out (notification_number delta) *)
}.

Definition au_observe (o o' : au_obj) : au_oobs :=
  {| au_oo_paused := au_o_paused o'; au_oo_dp := au_o_pauses o' - au_o_pauses o;
     au_oo_dr := au_o_resumes o' - au_o_resumes o; au_oo_ds := au_o_sent o' - au_o_sent o |}.

(* the oracle's copy of an object: static part + last observed `paused' *)
Definition au_strip (o : au_obj) : au_obj :=
  {| au_o_name := au_o_name o; au_o_kind := au_o_kind o; au_o_active := au_o_active o; au_o_once := au_o_once o;
     au_o_paused := au_o_paused o; au_o_pauses := 0; au_o_resumes := 0; au_o_stash := 0; au_o_sent := 0 |}.

Definition au_resync (o : au_obj) (ob : au_oobs) : au_obj :=
  {| au_o_name := au_o_name o; au_o_kind := au_o_kind o; au_o_active := au_o_active o; au_o_once := au_o_once o;
     au_o_paused := au_oo_paused ob; au_o_pauses := 0; au_o_resumes := 0; au_o_stash := 0; au_o_sent := 0 |}.

Fixpoint au_resync_list (l : list au_obj) (obs : list au_oobs) : list au_obj :=
  match l, obs with
  | o :: l', ob :: obs' => au_resync o ob :: au_resync_list l' obs'
  | _, _ => []
  end.

Definition au_chk_trans (prev : bool) (ob : au_oobs) : bool :=
  (au_oo_dp ob =? (if negb prev && au_oo_paused ob then 1 else 0)) &&
  (au_oo_dr ob =? (if prev && negb (au_oo_paused ob) then 1 else 0)).

(* o: the oracle's copy before the operation; n: the node's inputs before the operation *)
Definition au_chk_obj (p : au_params) (now : Z) (n : au_node) (e : au_ev) (o : au_obj) (ob : au_oobs) : bool :=
  match e with
  | AuRestart _ =>
      if au_o_active o && au_o_once o then au_oo_paused ob else true
  | AuTimer _ =>
      au_chk_trans (au_o_paused o) ob && (au_oo_ds ob =? 0) &&
      match (if au_o_active o && au_o_once o then au_auth_of p (au_node_sel p now n) (au_n_me n) (au_o_name o) else None) with
      | Some a => Bool.eqb (au_oo_paused ob) (negb a)
      | None => Bool.eqb (au_oo_paused ob) (au_o_paused o)
      end
  | AuNotify _ =>
      au_chk_trans (au_o_paused o) ob && Bool.eqb (au_oo_paused ob) (au_o_paused o) &&
      (if 0 <? au_oo_ds ob then au_n_updated n && negb (au_o_paused o) else true)
  | AuNcTimer _ ha =>
      au_chk_trans (au_o_paused o) ob && Bool.eqb (au_oo_paused ob) (au_o_paused o) &&
      (if 0 <? au_oo_ds ob
       then negb (au_o_paused o && (match au_n_zone n with Some _ => true | None => false end) && ha)
       else true)
  | _ =>
      au_chk_trans (au_o_paused o) ob && Bool.eqb (au_oo_paused ob) (au_o_paused o) && (au_oo_ds ob =? 0)
  end.

Fixpoint au_chk_list (p : au_params) (now : Z) (n : au_node) (e : au_ev) (l : list au_obj) (obs : list au_oobs) : bool :=
  match l, obs with
  | [], [] => true
  | o :: l', ob :: obs' => au_chk_obj p now n e o ob && au_chk_list p now n e l' obs'
  | _, _ => false
  end.

(* the oracle's node after the operation: inputs follow the model's bookkeeping, objects follow the observation *)
Definition au_trk_step (p : au_params) (now : Z) (n : au_node) (e : au_ev) (obs : option (list au_oobs)) : au_node :=
  let n1 := au_node_step p now n e in
  au_with n1 (au_n_start n1) (au_n_conn n1) (au_n_updated n1) (au_n_last n1)
          (match obs with Some v => au_resync_list (au_n_objs n) v | None => au_n_objs n end).

Record au_tstep := { au_ts_now : Z; au_ts_ev : au_ev; au_ts_obs : option (list au_oobs) }.

Fixpoint au_oracle_from (p : au_params) (t : au_sys) (idx : Z) (tr : list au_tstep) : option Z :=
  match tr with
  | [] => None
  | st :: rest =>
      let i := au_ev_id (au_ts_ev st) in
      let n := au_get t i in
      let ok := match au_ts_obs st with
                | Some v => au_chk_list p (au_ts_now st) n (au_ts_ev st) (au_n_objs n) v
                | None => true
                end in
      if ok then au_oracle_from p (au_put t i (au_trk_step p (au_ts_now st) n (au_ts_ev st) (au_ts_obs st))) (idx + 1) rest
      else Some idx
  end.

Definition au_track_node (n : au_node) : au_node :=
  au_with n (au_n_start n) (au_n_conn n) (au_n_updated n) (au_n_last n) (map au_strip (au_n_objs n)).
Definition au_track (s : au_sys) : au_sys :=
  {| au_s_a := au_track_node (au_s_a s); au_s_b := au_track_node (au_s_b s) |}.

(* the oracle starts from what two new processes look like *)
Definition au_oracle (p : au_params) (a b : au_bytes) (za zb : option (list au_bytes)) (objs : list au_obj)
           (tr : list au_tstep) : option Z :=
  au_oracle_from p (au_track (au_init a b za zb objs)) 0 tr.

(* does this event print an observation vector *)
Definition au_prints (e : au_ev) : bool :=
  match e with AuRestart _ | AuTimer _ | AuNotify _ | AuNcTimer _ _ => true | _ => false end.
