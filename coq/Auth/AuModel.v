(* C10 - HA authority.  Executable model, no proofs.
   Transcription of
     Utility::SDBM                          lib/base/utility.cpp:1339-1354
     ApiListener::UpdateObjectAuthority     lib/remote/apilistener-authority.cpp:13-88
     ConfigObject::SetAuthority             lib/base/configobject.cpp:444-459
     the `paused' guards of Checkable::SendNotifications (checkable-notification.cpp:65-113),
     NotificationComponent::NotificationTimerHandler (notificationcomponent.cpp:131-205) and
     CheckerComponent::ObjectHandler (checkercomponent.cpp:291-317)
   and a two-node system on top.  Branch order and comparisons follow the C++ text.
   Everything the code takes from its environment is a parameter: the clock, the start time, which
   peers are connected, the order in which std::set<Endpoint::Ptr> yields the zone members (pointer
   order), the signedness of `char', and the length / strictness of the cold-start window (read from
   the source on every run, coq/Facts/Facts_c10.v). *)
From Icv Require Import Base.Tac.
Local Open Scope Z_scope.

(* a name is a sequence of bytes 0..255 *)
Definition au_bytes := list Z.

Fixpoint au_beq (a b : au_bytes) : bool :=
  match a, b with
  | [], [] => true
  | x :: a', y :: b' => (x =? y) && au_beq a' b'
  | _, _ => false
  end.

(* std::string::operator< : lexicographic over unsigned bytes, a proper prefix is smaller *)
Fixpoint au_lt (a b : au_bytes) : bool :=
  match a, b with
  | [], [] => false
  | [], _ :: _ => true
  | _ :: _, [] => false
  | x :: a', y :: b' => if x <? y then true else if y <? x then false else au_lt a' b'
  end.

(* std::sort with that comparison; the elements are pairwise different names, so every sorting
   algorithm yields the same vector (AuProofs.au_sort_perm2 for the two-member case) *)
Fixpoint au_insert (x : au_bytes) (l : list au_bytes) : list au_bytes :=
  match l with
  | [] => [x]
  | y :: t => if au_lt x y then x :: y :: t else y :: au_insert x t
  end.
Definition au_sort (l : list au_bytes) : list au_bytes := fold_right au_insert [] l.

(* ---- Utility::SDBM: unsigned long hash; `for (char c : str) hash = c + (hash << 6) + (hash << 16) - hash'.
   c is promoted to int and converted to unsigned long (sign extension when char is signed),
   all arithmetic wraps modulo 2^64. *)
Definition au_W : Z := 18446744073709551616.
Definition au_char (sgn : bool) (b : Z) : Z := if sgn && (128 <=? b) then b - 256 else b.
Definition au_sdbm_step (sgn : bool) (h b : Z) : Z :=
  (au_char sgn b + (h * 64) mod au_W + (h * 65536) mod au_W - h) mod au_W.
Definition au_sdbm (sgn : bool) (s : au_bytes) : Z := fold_left (au_sdbm_step sgn) s 0.

(* ---- parameters taken from the platform / the source text *)
Record au_params := {
  au_p_signed : bool;     (* char is signed (x86-64 SysV: yes) *)
  au_p_window : Z;        (* cold-start window in seconds (30) *)
  au_p_strict : bool      (* true: `now - start < window', false: `<=' *)
}.

Definition au_in_window (p : au_params) (now start : Z) : bool :=
  (start =? 0) ||
  (if au_p_strict p then now - start <? au_p_window p else now - start <=? au_p_window p).

(* ---- ApiListener::UpdateObjectAuthority *)
Inductive au_sel :=
  | AuCold                          (* early return: nothing is touched *)
  | AuAll                           (* no local zone: authority = true *)
  | AuBy (eps : list au_bytes).     (* sorted connected endpoints of the local zone *)

(* zone = None: no ApiListener (Zone::GetLocalZone() is null); Some members: the local zone's endpoints
   in the order the std::set yields them.  conn e = e->GetConnected(). *)
Definition au_select (p : au_params) (zone : option (list au_bytes)) (conn : au_bytes -> bool)
           (me : au_bytes) (now start : Z) : au_sel :=
  match zone with
  | None => AuAll
  | Some members =>
      let num_total := Z.of_nat (length members) in
      let eps := filter (fun e => negb (negb (au_beq e me) && negb (conn e))) members in
      if (1 <? num_total) && (Z.of_nat (length eps) <=? 1) && au_in_window p now start
      then AuCold
      else AuBy (au_sort eps)
  end.

(* endpoints[SDBM(name) % endpoints.size()] *)
Definition au_owner (p : au_params) (eps : list au_bytes) (name : au_bytes) : au_bytes :=
  nth (Z.to_nat (au_sdbm (au_p_signed p) name mod Z.of_nat (length eps))) eps [].

Definition au_auth_of (p : au_params) (sel : au_sel) (me name : au_bytes) : option bool :=
  match sel with
  | AuCold => None
  | AuAll => Some true
  | AuBy eps => Some (au_beq (au_owner p eps name) me)
  end.

Definition au_authority (p : au_params) (zone : option (list au_bytes)) (conn : au_bytes -> bool)
           (me : au_bytes) (now start : Z) (name : au_bytes) : option bool :=
  au_auth_of p (au_select p zone conn me now start) me name.

(* ---- objects *)
Inductive au_kind := AuHost | AuService | AuNotification | AuDowntime | AuComment | AuOther.

Record au_obj := {
  au_o_name : au_bytes;
  au_o_kind : au_kind;
  au_o_active : bool;         (* IsActive() *)
  au_o_once : bool;           (* GetHAMode() == HARunOnce *)
  au_o_paused : bool;
  au_o_pauses : Z;            (* calls of Pause() since the process started *)
  au_o_resumes : Z;           (* calls of Resume() *)
  au_o_stash : Z;             (* Notification: length of stashed_notifications *)
  au_o_sent : Z               (* Notification: notifications that went past the guards (notification_number) *)
}.

Definition au_with_pause (o : au_obj) (paused : bool) (dp dr : Z) : au_obj :=
  {| au_o_name := au_o_name o; au_o_kind := au_o_kind o; au_o_active := au_o_active o; au_o_once := au_o_once o;
     au_o_paused := paused; au_o_pauses := au_o_pauses o + dp; au_o_resumes := au_o_resumes o + dr;
     au_o_stash := au_o_stash o; au_o_sent := au_o_sent o |}.

(* ConfigObject::SetAuthority *)
Definition au_set_authority (authority : bool) (o : au_obj) : au_obj :=
  if authority && au_o_paused o then au_with_pause o false 0 1
  else if negb authority && negb (au_o_paused o) then au_with_pause o true 1 0
  else o.

Definition au_update_obj (p : au_params) (sel : au_sel) (me : au_bytes) (o : au_obj) : au_obj :=
  if negb (au_o_active o) || negb (au_o_once o) then o
  else match au_auth_of p sel me (au_o_name o) with
       | None => o
       | Some a => au_set_authority a o
       end.

(* ---- a node *)
Record au_node := {
  au_n_me : au_bytes;
  au_n_peer : au_bytes;
  au_n_zone : option (list au_bytes);
  au_n_start : Z;                    (* Application::GetStartTime(), 0 until Application::Run *)
  au_n_conn : bool;                  (* peer endpoint has a client *)
  au_n_updated : bool;               (* ApiListener::UpdatedObjectAuthority() *)
  au_n_last : option au_sel;         (* ghost: what the last complete run used *)
  au_n_objs : list au_obj
}.

Definition au_conn_fn (n : au_node) : au_bytes -> bool := fun e => au_beq e (au_n_peer n) && au_n_conn n.

Definition au_node_sel (p : au_params) (now : Z) (n : au_node) : au_sel :=
  au_select p (au_n_zone n) (au_conn_fn n) (au_n_me n) now (au_n_start n).

Definition au_with (n : au_node) (start : Z) (conn updated : bool) (last : option au_sel) (objs : list au_obj) : au_node :=
  {| au_n_me := au_n_me n; au_n_peer := au_n_peer n; au_n_zone := au_n_zone n;
     au_n_start := start; au_n_conn := conn; au_n_updated := updated; au_n_last := last; au_n_objs := objs |}.

Definition au_timer (p : au_params) (now : Z) (n : au_node) : au_node :=
  match au_node_sel p now n with
  | AuCold => n
  | sel => au_with n (au_n_start n) (au_n_conn n) true (Some sel)
                   (map (au_update_obj p sel (au_n_me n)) (au_n_objs n))
  end.

(* a fresh process: configobject.ti default paused = true; ConfigObject::Activate resumes
   HARunEverywhere objects at once; an inactive object stays as Deactivate left it *)
Definition au_fresh (o : au_obj) : au_obj :=
  {| au_o_name := au_o_name o; au_o_kind := au_o_kind o; au_o_active := au_o_active o; au_o_once := au_o_once o;
     au_o_paused := if au_o_active o then au_o_once o else true;
     au_o_pauses := 0; au_o_resumes := if au_o_active o && negb (au_o_once o) then 1 else 0;
     au_o_stash := 0; au_o_sent := 0 |}.

(* ---- the guards that make `paused' effective *)
(* Checkable::SendNotifications, per notification object: (sent, stash') *)
Definition au_send_guard (updated paused : bool) (stash : Z) : Z * Z :=
  if updated then
    if negb paused then
      if 0 <? stash then (0, stash + 1) else (1, stash)
    else (0, stash)
  else (0, stash + 1).

(* NotificationComponent::NotificationTimerHandler up to and including the re-send of stashed
   notifications (checkable reachable, notifications enabled): (sent, stash') *)
Definition au_nc_guard (updated paused has_me enable_ha : bool) (stash : Z) : Z * Z :=
  let stash1 := if paused && updated then 0 else stash in
  if paused && has_me && enable_ha then (0, stash1) else (stash1, 0).

(* CheckerComponent::ObjectHandler: is the checkable in the scheduler's sets *)
Definition au_scheduled (active paused same_zone : bool) : bool := active && negb paused && same_zone.

Definition au_is_notification (o : au_obj) : bool :=
  match au_o_kind o with AuNotification => true | _ => false end.
Definition au_is_checkable (o : au_obj) : bool :=
  match au_o_kind o with AuHost | AuService => true | _ => false end.

Definition au_with_notif (o : au_obj) (r : Z * Z) : au_obj :=
  {| au_o_name := au_o_name o; au_o_kind := au_o_kind o; au_o_active := au_o_active o; au_o_once := au_o_once o;
     au_o_paused := au_o_paused o; au_o_pauses := au_o_pauses o; au_o_resumes := au_o_resumes o;
     au_o_stash := snd r; au_o_sent := au_o_sent o + fst r |}.

Definition au_notify_obj (updated : bool) (o : au_obj) : au_obj :=
  if au_is_notification o && au_o_active o
  then au_with_notif o (au_send_guard updated (au_o_paused o) (au_o_stash o)) else o.

Definition au_nctimer_obj (updated has_me enable_ha : bool) (o : au_obj) : au_obj :=
  if au_is_notification o && au_o_active o
  then au_with_notif o (au_nc_guard updated (au_o_paused o) has_me enable_ha (au_o_stash o)) else o.

Definition au_idle_count (n : au_node) : Z :=
  Z.of_nat (length (filter (fun o => au_is_checkable o && au_scheduled (au_o_active o) (au_o_paused o) true) (au_n_objs n))).

(* ---- two nodes *)
Inductive au_id := AuA | AuB.
Inductive au_ev :=
  | AuConnect (i : au_id)       (* i's connection to the peer is registered (Endpoint::AddClient) *)
  | AuDisconnect (i : au_id)    (* ... removed *)
  | AuRestart (i : au_id)       (* new process: objects in their default state, start time not yet set *)
  | AuRun (i : au_id)           (* Application::Run: start time := now *)
  | AuTimer (i : au_id)         (* authority timer / any other call of UpdateObjectAuthority *)
  | AuNotify (i : au_id)        (* SendNotifications on every checkable *)
  | AuNcTimer (i : au_id) (ha : bool).  (* notification component timer, its enable_ha *)

Record au_sys := { au_s_a : au_node; au_s_b : au_node }.

Definition au_get (s : au_sys) (i : au_id) : au_node := match i with AuA => au_s_a s | AuB => au_s_b s end.
Definition au_put (s : au_sys) (i : au_id) (n : au_node) : au_sys :=
  match i with
  | AuA => {| au_s_a := n; au_s_b := au_s_b s |}
  | AuB => {| au_s_a := au_s_a s; au_s_b := n |}
  end.

Definition au_node_step (p : au_params) (now : Z) (n : au_node) (e : au_ev) : au_node :=
  match e with
  | AuConnect _ => au_with n (au_n_start n) true (au_n_updated n) (au_n_last n) (au_n_objs n)
  | AuDisconnect _ => au_with n (au_n_start n) false (au_n_updated n) (au_n_last n) (au_n_objs n)
  | AuRestart _ => au_with n 0 false false None (map au_fresh (au_n_objs n))
  | AuRun _ => au_with n now (au_n_conn n) (au_n_updated n) (au_n_last n) (au_n_objs n)
  | AuTimer _ => au_timer p now n
  | AuNotify _ => au_with n (au_n_start n) (au_n_conn n) (au_n_updated n) (au_n_last n)
                          (map (au_notify_obj (au_n_updated n)) (au_n_objs n))
  | AuNcTimer _ ha =>
      au_with n (au_n_start n) (au_n_conn n) (au_n_updated n) (au_n_last n)
              (map (au_nctimer_obj (au_n_updated n) (match au_n_zone n with Some _ => true | None => false end) ha)
                   (au_n_objs n))
  end.

Definition au_ev_id (e : au_ev) : au_id :=
  match e with
  | AuConnect i | AuDisconnect i | AuRestart i | AuRun i | AuTimer i | AuNotify i | AuNcTimer i _ => i
  end.

(* an event happens at an instant; the clock is an input *)
Definition au_step (p : au_params) (s : au_sys) (te : Z * au_ev) : au_sys :=
  let i := au_ev_id (snd te) in au_put s i (au_node_step p (fst te) (au_get s i) (snd te)).

Definition au_run_evs (p : au_params) (s : au_sys) (evs : list (Z * au_ev)) : au_sys :=
  fold_left (au_step p) evs s.

(* both processes just created, same objects on both *)
Definition au_mk_node (me peer : au_bytes) (zone : option (list au_bytes)) (objs : list au_obj) : au_node :=
  {| au_n_me := me; au_n_peer := peer; au_n_zone := zone; au_n_start := 0; au_n_conn := false;
     au_n_updated := false; au_n_last := None; au_n_objs := map au_fresh objs |}.

Definition au_init (a b : au_bytes) (za zb : option (list au_bytes)) (objs : list au_obj) : au_sys :=
  {| au_s_a := au_mk_node a b za objs; au_s_b := au_mk_node b a zb objs |}.
