(* C10 - proofs over Auth/AuModel.v *)
From Icv Require Import Base.Tac Auth.AuModel.
Local Open Scope Z_scope.

(* ---------- byte strings *)
Lemma au_beq_eq a : forall b, au_beq a b = true <-> a = b.
Proof.
  induction a as [|x a IH]; intros [|y b]; cbn [au_beq]; split; intros H; try reflexivity; try discriminate.
  - apply andb_prop in H. destruct H as [H1 H2]. apply Z.eqb_eq in H1. apply IH in H2. subst. reflexivity.
  - inversion H; subst. rewrite Z.eqb_refl. cbn. apply IH. reflexivity.
Qed.

Lemma au_beq_refl a : au_beq a a = true.
Proof. apply au_beq_eq. reflexivity. Qed.

Lemma au_beq_neq a b : a <> b -> au_beq a b = false.
Proof. intros H. destruct (au_beq a b) eqn:E; [|reflexivity]. apply au_beq_eq in E. contradiction. Qed.

Lemma au_lt_total a : forall b, a <> b -> au_lt a b = true \/ au_lt b a = true.
Proof.
  induction a as [|x a IH]; intros [|y b] H; cbn [au_lt].
  - contradiction H; reflexivity.
  - left; reflexivity.
  - right; reflexivity.
  - destruct (x <? y) eqn:E1; [left; reflexivity|].
    destruct (y <? x) eqn:E2; [right; reflexivity|].
    assert (x = y) by lia. subst y.
    apply IH. intros ->. apply H. reflexivity.
Qed.

Lemma au_lt_asym a : forall b, au_lt a b = true -> au_lt b a = false.
Proof.
  induction a as [|x a IH]; intros [|y b] H; cbn [au_lt] in *; try discriminate; try reflexivity.
  destruct (x <? y) eqn:E1.
  - assert (y <? x = false) as -> by lia. reflexivity.
  - destruct (y <? x) eqn:E2; [discriminate|]. apply IH. assumption.
Qed.

(* the sorted vector of a two-member zone does not depend on the order the members are visited in *)
Lemma au_sort_perm2 a b : a <> b -> au_sort [a; b] = au_sort [b; a].
Proof.
  intros H. cbn [au_sort fold_right au_insert].
  destruct (au_lt a b) eqn:E1.
  - rewrite (au_lt_asym _ _ E1). reflexivity.
  - destruct (au_lt_total a b H) as [E|E]; [congruence|]. rewrite E. reflexivity.
Qed.

Lemma au_sort2_cases a b : au_sort [a; b] = [a; b] \/ au_sort [a; b] = [b; a].
Proof. cbn [au_sort fold_right au_insert]. destruct (au_lt a b); auto. Qed.

(* ---------- SDBM stays inside the unsigned long range *)
Lemma au_sdbm_step_range sgn h b : 0 <= au_sdbm_step sgn h b < au_W.
Proof. unfold au_sdbm_step. apply Z.mod_pos_bound. reflexivity. Qed.

Lemma au_sdbm_fold_range sgn s : forall h, 0 <= h < au_W -> 0 <= fold_left (au_sdbm_step sgn) s h < au_W.
Proof.
  induction s as [|b s IH]; intros h Hh; cbn [fold_left]; [assumption|].
  apply IH. apply au_sdbm_step_range.
Qed.

Lemma au_sdbm_range sgn s : 0 <= au_sdbm sgn s < au_W.
Proof. apply au_sdbm_fold_range. unfold au_W. lia. Qed.

(* the step is the textbook `c + 65599 * hash' modulo 2^64 *)
Lemma au_sdbm_step_closed sgn h b : au_sdbm_step sgn h b = (au_char sgn b + 65599 * h) mod au_W.
Proof.
  unfold au_sdbm_step. set (c := au_char sgn b).
  replace (c + (h * 64) mod au_W + (h * 65536) mod au_W - h)
    with ((h * 64) mod au_W + ((h * 65536) mod au_W + (c - h))) by ring.
  rewrite Zplus_mod_idemp_l.
  replace (h * 64 + ((h * 65536) mod au_W + (c - h)))
    with ((h * 65536) mod au_W + (h * 64 + (c - h))) by ring.
  rewrite Zplus_mod_idemp_l. f_equal. ring.
Qed.

Lemma au_owner2 p x y name : au_owner p [x; y] name = x \/ au_owner p [x; y] name = y.
Proof.
  unfold au_owner. cbn [length].
  pose proof (Z.mod_pos_bound (au_sdbm (au_p_signed p) name) (Z.of_nat 2) ltac:(lia)) as H.
  set (k := au_sdbm (au_p_signed p) name mod Z.of_nat 2) in *.
  assert (k = 0 \/ k = 1) as [-> | ->] by lia; cbn; auto.
Qed.

Lemma au_owner1 p x name : au_owner p [x] name = x.
Proof. unfold au_owner. cbn [length]. change (Z.of_nat 1) with 1. rewrite Z.mod_1_r. reflexivity. Qed.

(* ---------- selection *)
Definition au_pair_zone (a b : au_bytes) (z : option (list au_bytes)) : Prop := z = Some [a; b] \/ z = Some [b; a].

Lemma au_filter_pair (x y me peer : au_bytes) (c : bool) :
  x <> y -> (me = x /\ peer = y \/ me = y /\ peer = x) ->
  filter (fun e => negb (negb (au_beq e me) && negb (au_beq e peer && c))) [x; y] =
  if c then [x; y] else [me].
Proof.
  intros Hxy Hme.
  assert (au_beq x y = false) as Exy by (apply au_beq_neq; assumption).
  assert (au_beq y x = false) as Eyx by (apply au_beq_neq; congruence).
  destruct Hme as [[-> ->] | [-> ->]]; cbn [filter]; rewrite !au_beq_refl, ?Exy, ?Eyx; destruct c; reflexivity.
Qed.

Lemma au_select_pair_conn p a b z me peer now start (c : bool) :
  a <> b -> au_pair_zone a b z -> (me = a /\ peer = b \/ me = b /\ peer = a) -> c = true ->
  au_select p z (fun e => au_beq e peer && c) me now start = AuBy (au_sort [a; b]).
Proof.
  intros Hab Hz Hme ->.
  destruct Hz as [-> | ->]; unfold au_select.
  - rewrite (au_filter_pair a b me peer true Hab Hme). reflexivity.
  - rewrite (au_filter_pair b a me peer true) by (try congruence; tauto).
    transitivity (AuBy (au_sort [b; a])); [reflexivity|]. f_equal. symmetry. apply au_sort_perm2. assumption.
Qed.

Lemma au_select_pair_alone p a b z me peer now start (c : bool) :
  a <> b -> au_pair_zone a b z -> (me = a /\ peer = b \/ me = b /\ peer = a) -> c = false ->
  au_select p z (fun e => au_beq e peer && c) me now start =
  if au_in_window p now start then AuCold else AuBy [me].
Proof.
  intros Hab Hz Hme ->.
  destruct Hz as [-> | ->]; unfold au_select.
  - rewrite (au_filter_pair a b me peer false Hab Hme). destruct (au_in_window p now start); reflexivity.
  - rewrite (au_filter_pair b a me peer false) by (try congruence; tauto).
    destruct (au_in_window p now start); reflexivity.
Qed.

(* general zone, nobody else connected *)
Lemma au_filter_me me : forall members,
  NoDup members -> In me members ->
  filter (fun e => negb (negb (au_beq e me) && negb false)) members = [me].
Proof.
  induction members as [|x t IH]; intros Hnd Hin; [contradiction|].
  inversion Hnd as [|? ? Hx Ht]; subst. cbn [filter negb].
  rewrite andb_true_r, negb_involutive.
  destruct Hin as [-> | Hin].
  - rewrite au_beq_refl. f_equal.
    clear IH Hnd Ht. induction t as [|y t IHt]; [reflexivity|]. cbn [filter].
    rewrite andb_true_r, negb_involutive.
    assert (au_beq y me = false) as -> by (apply au_beq_neq; intros ->; apply Hx; left; reflexivity).
    apply IHt. intros H. apply Hx. right. assumption.
  - assert (au_beq x me = false) as ->.
    { apply au_beq_neq. intros ->. contradiction. }
    specialize (IH Ht Hin). cbn [filter negb] in IH.
    erewrite filter_ext; [exact IH|]. intros e. rewrite andb_true_r, negb_involutive. cbn.
    rewrite andb_true_r, negb_involutive. reflexivity.
Qed.

Lemma au_alone_fn p members me now start name :
  NoDup members -> In me members -> au_in_window p now start = false ->
  au_authority p (Some members) (fun _ => false) me now start name = Some true.
Proof.
  intros Hnd Hin Hw. unfold au_authority, au_select.
  rewrite (au_filter_me me members Hnd Hin), Hw, andb_false_r.
  cbn [au_sort fold_right au_insert au_auth_of]. rewrite au_owner1, au_beq_refl. reflexivity.
Qed.

Lemma au_nozone_fn p conn me now start name : au_authority p None conn me now start name = Some true.
Proof. reflexivity. Qed.

(* a one-member zone never waits and is always authoritative *)
Lemma au_single_fn p conn me now start name : au_authority p (Some [me]) conn me now start name = Some true.
Proof.
  unfold au_authority, au_select. cbn [filter]. rewrite au_beq_refl. cbn [negb andb length].
  change (1 <? Z.of_nat 1) with false. cbn [andb].
  cbn [au_sort fold_right au_insert au_auth_of]. rewrite au_owner1, au_beq_refl. reflexivity.
Qed.

(* both members see each other: the same owner on both, a function of name and sorted names only *)
Lemma au_split_fn p a b za zb now_a now_b start_a start_b name :
  a <> b -> au_pair_zone a b za -> au_pair_zone a b zb ->
  let w := au_owner p (au_sort [a; b]) name in
  (w = a \/ w = b) /\
  au_authority p za (fun e => au_beq e b && true) a now_a start_a name = Some (au_beq w a) /\
  au_authority p zb (fun e => au_beq e a && true) b now_b start_b name = Some (au_beq w b) /\
  au_beq w a = negb (au_beq w b).
Proof.
  intros Hab Hza Hzb w.
  assert (w = a \/ w = b) as Hw.
  { unfold w. destruct (au_sort2_cases a b) as [-> | ->]; destruct (au_owner2 p a b name); destruct (au_owner2 p b a name); auto. }
  split; [exact Hw|]. unfold au_authority.
  rewrite (au_select_pair_conn p a b za a b now_a start_a true Hab Hza) by auto.
  rewrite (au_select_pair_conn p a b zb b a now_b start_b true Hab Hzb) by auto.
  cbn [au_auth_of]. fold w. repeat split.
  destruct Hw as [-> | ->]; rewrite au_beq_refl; [rewrite (au_beq_neq a b Hab)|rewrite (au_beq_neq b a)]; try reflexivity; congruence.
Qed.

(* ---------- SetAuthority *)
Lemma au_set_authority_paused a o : au_o_paused (au_set_authority a o) = negb a.
Proof. unfold au_set_authority. destruct a, (au_o_paused o) eqn:E; cbn; try rewrite E; reflexivity. Qed.

Lemma au_set_authority_key a o :
  au_o_name (au_set_authority a o) = au_o_name o /\ au_o_kind (au_set_authority a o) = au_o_kind o /\
  au_o_active (au_set_authority a o) = au_o_active o /\ au_o_once (au_set_authority a o) = au_o_once o /\
  au_o_stash (au_set_authority a o) = au_o_stash o /\ au_o_sent (au_set_authority a o) = au_o_sent o.
Proof. unfold au_set_authority. destruct a, (au_o_paused o); cbn; repeat split. Qed.

(* a change of authority calls Pause or Resume exactly once, no change calls nothing *)
Lemma au_set_authority_once a o :
  let o' := au_set_authority a o in
  (au_o_paused o = au_o_paused o' -> o' = o) /\
  (au_o_paused o = false -> au_o_paused o' = true ->
     au_o_pauses o' = au_o_pauses o + 1 /\ au_o_resumes o' = au_o_resumes o) /\
  (au_o_paused o = true -> au_o_paused o' = false ->
     au_o_resumes o' = au_o_resumes o + 1 /\ au_o_pauses o' = au_o_pauses o).
Proof.
  unfold au_set_authority. destruct a, (au_o_paused o) eqn:E; cbn; rewrite ?E; repeat split; intros; try discriminate; try reflexivity; try lia.
Qed.

Lemma au_set_authority_idem a o : au_set_authority a (au_set_authority a o) = au_set_authority a o.
Proof.
  unfold au_set_authority at 1. rewrite au_set_authority_paused. destruct a; reflexivity.
Qed.

Lemma au_update_obj_idem p sel me o : au_update_obj p sel me (au_update_obj p sel me o) = au_update_obj p sel me o.
Proof.
  unfold au_update_obj at 2.
  destruct (negb (au_o_active o) || negb (au_o_once o)) eqn:E.
  - unfold au_update_obj. rewrite E. reflexivity.
  - destruct (au_auth_of p sel me (au_o_name o)) as [a|] eqn:Ea.
    + unfold au_update_obj. destruct (au_set_authority_key a o) as (H1 & _ & H2 & H3 & _).
      rewrite H1, H2, H3, E, Ea. apply au_set_authority_idem.
    + unfold au_update_obj. rewrite E, Ea. reflexivity.
Qed.

(* repeated timer runs without any other event are idempotent *)
Lemma au_timer_idem p now n : au_timer p now (au_timer p now n) = au_timer p now n.
Proof.
  unfold au_timer at 2. destruct (au_node_sel p now n) eqn:E.
  - unfold au_timer. rewrite E. reflexivity.
  - unfold au_timer, au_node_sel, au_conn_fn in *. cbn [au_with au_n_zone au_n_peer au_n_conn au_n_me au_n_start au_n_objs].
    rewrite E. unfold au_with. cbn. f_equal. rewrite map_map. apply map_ext. intros o. apply au_update_obj_idem.
  - unfold au_timer, au_node_sel, au_conn_fn in *. cbn [au_with au_n_zone au_n_peer au_n_conn au_n_me au_n_start au_n_objs].
    rewrite E. unfold au_with. cbn. f_equal. rewrite map_map. apply map_ext. intros o. apply au_update_obj_idem.
Qed.

(* per object: what one timer run does to the counters *)
Lemma au_update_obj_once p sel me o :
  let o' := au_update_obj p sel me o in
  (au_o_paused o = au_o_paused o' -> o' = o) /\
  (au_o_paused o = false -> au_o_paused o' = true ->
     au_o_pauses o' = au_o_pauses o + 1 /\ au_o_resumes o' = au_o_resumes o) /\
  (au_o_paused o = true -> au_o_paused o' = false ->
     au_o_resumes o' = au_o_resumes o + 1 /\ au_o_pauses o' = au_o_pauses o).
Proof.
  unfold au_update_obj. destruct (negb (au_o_active o) || negb (au_o_once o)).
  - cbv zeta. repeat split; intros; congruence.
  - destruct (au_auth_of p sel me (au_o_name o)) as [a|].
    + apply au_set_authority_once.
    + cbv zeta. repeat split; intros; congruence.
Qed.

(* ---------- the cold-start window *)
Lemma au_timer_cold p now n a b :
  a <> b -> au_pair_zone a b (au_n_zone n) ->
  (au_n_me n = a /\ au_n_peer n = b \/ au_n_me n = b /\ au_n_peer n = a) ->
  au_n_conn n = false -> au_in_window p now (au_n_start n) = true ->
  au_timer p now n = n.
Proof.
  intros Hab Hz Hme Hc Hw. unfold au_timer, au_node_sel, au_conn_fn.
  rewrite (au_select_pair_alone p a b _ _ _ now _ _ Hab Hz Hme Hc), Hw. reflexivity.
Qed.

(* ---------- system invariant *)
Definition au_obj_ok (p : au_params) (me : au_bytes) (last : option au_sel) (o : au_obj) : Prop :=
  au_o_active o = true -> au_o_once o = true ->
  match last with
  | None => au_o_paused o = true
  | Some sel => match au_auth_of p sel me (au_o_name o) with
                | Some a => au_o_paused o = negb a
                | None => True
                end
  end.

Definition au_node_inv (p : au_params) (me peer : au_bytes) (z : option (list au_bytes)) (n : au_node) : Prop :=
  au_n_me n = me /\ au_n_peer n = peer /\ au_n_zone n = z /\
  Forall (au_obj_ok p me (au_n_last n)) (au_n_objs n).

Lemma au_forall_map_same {A} (P Q : A -> Prop) (f : A -> A) l :
  (forall o, P o -> Q (f o)) -> Forall P l -> Forall Q (map f l).
Proof. intros H HF. induction HF; cbn; constructor; auto. Qed.

Lemma au_update_obj_key p sel me o :
  au_o_name (au_update_obj p sel me o) = au_o_name o /\ au_o_kind (au_update_obj p sel me o) = au_o_kind o /\
  au_o_active (au_update_obj p sel me o) = au_o_active o /\ au_o_once (au_update_obj p sel me o) = au_o_once o /\
  au_o_stash (au_update_obj p sel me o) = au_o_stash o /\ au_o_sent (au_update_obj p sel me o) = au_o_sent o.
Proof.
  unfold au_update_obj. destruct (negb (au_o_active o) || negb (au_o_once o)); [repeat split|].
  destruct (au_auth_of p sel me (au_o_name o)); [apply au_set_authority_key|repeat split].
Qed.

Lemma au_update_obj_ok p sel me o : au_obj_ok p me (Some sel) (au_update_obj p sel me o).
Proof.
  unfold au_obj_ok. destruct (au_update_obj_key p sel me o) as (Hn & _ & Ha & Ho & _).
  rewrite Hn, Ha, Ho. intros A O. unfold au_update_obj. rewrite A, O. cbn [negb orb].
  destruct (au_auth_of p sel me (au_o_name o)) as [a|]; [|exact I].
  apply au_set_authority_paused.
Qed.

Lemma au_timer_inv p me peer z now n :
  au_node_inv p me peer z n -> au_node_inv p me peer z (au_timer p now n).
Proof.
  intros (Hme & Hpeer & Hz & Hobjs). unfold au_timer.
  destruct (au_node_sel p now n) eqn:E; [repeat split; assumption| |];
    unfold au_node_inv, au_with; cbn [au_n_me au_n_peer au_n_zone au_n_last au_n_objs];
    (repeat split; try assumption; rewrite Hme;
     apply Forall_forall; intros o' Hin; apply in_map_iff in Hin; destruct Hin as (o & <- & _);
     apply au_update_obj_ok).
Qed.

Lemma au_node_step_inv p me peer z now n e :
  au_node_inv p me peer z n -> au_node_inv p me peer z (au_node_step p now n e).
Proof.
  intros H. destruct e; cbn [au_node_step]; try (apply au_timer_inv; exact H);
    destruct H as (Hme & Hpeer & Hz & Hobjs); unfold au_node_inv, au_with;
    cbn [au_n_me au_n_peer au_n_zone au_n_last au_n_objs]; repeat split; try assumption.
  - (* restart *)
    apply Forall_forall. intros o' Hin. apply in_map_iff in Hin. destruct Hin as (o & <- & _).
    unfold au_obj_ok, au_fresh. cbn. intros -> ->. reflexivity.
  - (* notify *)
    eapply au_forall_map_same; [|exact Hobjs]. intros o Hok. unfold au_obj_ok, au_notify_obj in *.
    destruct (au_is_notification o && au_o_active o); exact Hok.
  - (* nc timer *)
    eapply au_forall_map_same; [|exact Hobjs]. intros o Hok. unfold au_obj_ok, au_nctimer_obj in *.
    destruct (au_is_notification o && au_o_active o); exact Hok.
Qed.

Definition au_sys_inv (p : au_params) (a b : au_bytes) (za zb : option (list au_bytes)) (s : au_sys) : Prop :=
  au_node_inv p a b za (au_s_a s) /\ au_node_inv p b a zb (au_s_b s).

Lemma au_step_inv p a b za zb s te : au_sys_inv p a b za zb s -> au_sys_inv p a b za zb (au_step p s te).
Proof.
  intros [Ha Hb]. unfold au_step. destruct (au_ev_id (snd te)); unfold au_put, au_get, au_sys_inv; cbn; split;
    try assumption; apply au_node_step_inv; assumption.
Qed.

Lemma au_init_inv p a b za zb objs : au_sys_inv p a b za zb (au_init a b za zb objs).
Proof.
  split; unfold au_node_inv, au_init, au_mk_node; cbn; repeat split;
    apply Forall_forall; intros o' Hin; apply in_map_iff in Hin; destruct Hin as (o & <- & _);
    unfold au_obj_ok, au_fresh; cbn; intros -> ->; reflexivity.
Qed.

Lemma au_run_inv p a b za zb evs : forall s,
  au_sys_inv p a b za zb s -> au_sys_inv p a b za zb (au_run_evs p s evs).
Proof.
  induction evs as [|te evs IH]; intros s H; [exact H|]. cbn [au_run_evs fold_left]. apply IH. apply au_step_inv. exact H.
Qed.

(* what a completed timer run records *)
Lemma au_timer_last_conn p now n a b :
  a <> b -> au_pair_zone a b (au_n_zone n) ->
  (au_n_me n = a /\ au_n_peer n = b \/ au_n_me n = b /\ au_n_peer n = a) ->
  au_n_conn n = true -> au_n_last (au_timer p now n) = Some (AuBy (au_sort [a; b])).
Proof.
  intros Hab Hz Hme Hc. unfold au_timer, au_node_sel, au_conn_fn.
  rewrite (au_select_pair_conn p a b _ _ _ now _ _ Hab Hz Hme Hc). reflexivity.
Qed.

Lemma au_timer_last_alone p now n a b :
  a <> b -> au_pair_zone a b (au_n_zone n) ->
  (au_n_me n = a /\ au_n_peer n = b \/ au_n_me n = b /\ au_n_peer n = a) ->
  au_n_conn n = false -> au_in_window p now (au_n_start n) = false ->
  au_n_last (au_timer p now n) = Some (AuBy [au_n_me n]).
Proof.
  intros Hab Hz Hme Hc Hw. unfold au_timer, au_node_sel, au_conn_fn.
  rewrite (au_select_pair_alone p a b _ _ _ now _ _ Hab Hz Hme Hc), Hw. reflexivity.
Qed.

Lemma au_timer_last_nozone p now n : au_n_zone n = None -> au_n_last (au_timer p now n) = Some AuAll.
Proof. intros Hz. unfold au_timer, au_node_sel, au_select. rewrite Hz. reflexivity. Qed.

(* ---------- system-level theorems *)
Theorem au_split_sys p a b za zb objs evs :
  a <> b -> au_pair_zone a b za -> au_pair_zone a b zb ->
  let s := au_run_evs p (au_init a b za zb objs) evs in
  au_n_last (au_s_a s) = Some (AuBy (au_sort [a; b])) ->
  au_n_last (au_s_b s) = Some (AuBy (au_sort [a; b])) ->
  forall oa ob, In oa (au_n_objs (au_s_a s)) -> In ob (au_n_objs (au_s_b s)) ->
    au_o_name oa = au_o_name ob ->
    au_o_active oa = true -> au_o_once oa = true -> au_o_active ob = true -> au_o_once ob = true ->
    let w := au_owner p (au_sort [a; b]) (au_o_name oa) in
    (w = a \/ w = b) /\
    au_o_paused oa = negb (au_beq w a) /\ au_o_paused ob = negb (au_beq w b) /\
    au_o_paused oa = negb (au_o_paused ob).
Proof.
  intros Hab Hza Hzb s La Lb oa ob Hia Hib Hn Aa Oa Ab Ob w.
  pose proof (au_run_inv p a b za zb evs _ (au_init_inv p a b za zb objs)) as [(_ & _ & _ & Fa) (_ & _ & _ & Fb)].
  fold s in Fa, Fb. rewrite Forall_forall in Fa, Fb.
  pose proof (Fa oa Hia Aa Oa) as Pa. pose proof (Fb ob Hib Ab Ob) as Pb.
  rewrite La in Pa. rewrite Lb in Pb. cbn [au_auth_of] in Pa, Pb. rewrite <- Hn in Pb. fold w in Pa, Pb.
  assert (w = a \/ w = b) as Hw.
  { unfold w. destruct (au_sort2_cases a b) as [-> | ->]; destruct (au_owner2 p a b (au_o_name oa)); destruct (au_owner2 p b a (au_o_name oa)); auto. }
  repeat split; try assumption.
  rewrite Pa, Pb. destruct Hw as [-> | ->]; rewrite au_beq_refl; [rewrite (au_beq_neq a b Hab)|rewrite (au_beq_neq b a)]; try reflexivity; congruence.
Qed.

Theorem au_alone_sys p a b za zb objs evs (i : au_id) :
  let s := au_run_evs p (au_init a b za zb objs) evs in
  au_n_last (au_get s i) = Some (AuBy [au_n_me (au_get s i)]) \/ au_n_last (au_get s i) = Some AuAll ->
  forall o, In o (au_n_objs (au_get s i)) -> au_o_active o = true -> au_o_once o = true -> au_o_paused o = false.
Proof.
  intros s L o Hin Ao Oo.
  pose proof (au_run_inv p a b za zb evs _ (au_init_inv p a b za zb objs)) as [(Ma & _ & _ & Fa) (Mb & _ & _ & Fb)].
  fold s in Fa, Fb, Ma, Mb. rewrite Forall_forall in Fa, Fb.
  destruct i; cbn [au_get] in *.
  - pose proof (Fa o Hin Ao Oo) as P. destruct L as [L|L]; rewrite L in P; cbn [au_auth_of] in P;
      [rewrite au_owner1, Ma, au_beq_refl in P|]; exact P.
  - pose proof (Fb o Hin Ao Oo) as P. destruct L as [L|L]; rewrite L in P; cbn [au_auth_of] in P;
      [rewrite au_owner1, Mb, au_beq_refl in P|]; exact P.
Qed.

(* until a run completes after a (re)start every run-once object stays paused *)
Theorem au_coldstart_sys p a b za zb objs evs (i : au_id) :
  let s := au_run_evs p (au_init a b za zb objs) evs in
  au_n_last (au_get s i) = None ->
  forall o, In o (au_n_objs (au_get s i)) -> au_o_active o = true -> au_o_once o = true -> au_o_paused o = true.
Proof.
  intros s L o Hin Ao Oo.
  pose proof (au_run_inv p a b za zb evs _ (au_init_inv p a b za zb objs)) as [(_ & _ & _ & Fa) (_ & _ & _ & Fb)].
  fold s in Fa, Fb. rewrite Forall_forall in Fa, Fb.
  destruct i; cbn [au_get] in *; [pose proof (Fa o Hin Ao Oo) as P|pose proof (Fb o Hin Ao Oo) as P]; rewrite L in P; exact P.
Qed.

(* ---------- the guards *)
Lemma au_paused_no_send updated stash : fst (au_send_guard updated true stash) = 0.
Proof. unfold au_send_guard. destruct updated; reflexivity. Qed.

Lemma au_not_updated_no_send paused stash : fst (au_send_guard false paused stash) = 0.
Proof. reflexivity. Qed.

Lemma au_paused_no_reminder updated stash : fst (au_nc_guard updated true true true stash) = 0.
Proof. reflexivity. Qed.

Lemma au_paused_not_scheduled active same_zone : au_scheduled active true same_zone = false.
Proof. unfold au_scheduled. destruct active; reflexivity. Qed.

