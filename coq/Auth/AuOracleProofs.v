(* C10 - the oracle accepts every trace the model can produce (it can only fire where the implementation
   leaves what the theorems establish). *)
From Icv Require Import Base.Tac Auth.AuModel Auth.AuProofs Auth.AuObs.
Local Open Scope Z_scope.

Fixpoint au_obs_list (l l' : list au_obj) : list au_oobs :=
  match l, l' with
  | o :: t, o' :: t' => au_observe o o' :: au_obs_list t t'
  | _, _ => []
  end.

Fixpoint au_model_trace (p : au_params) (s : au_sys) (evs : list (Z * au_ev)) : list au_tstep :=
  match evs with
  | [] => []
  | te :: rest =>
      let i := au_ev_id (snd te) in
      let n := au_get s i in
      let n' := au_node_step p (fst te) n (snd te) in
      {| au_ts_now := fst te; au_ts_ev := snd te;
         au_ts_obs := if au_prints (snd te) then Some (au_obs_list (au_n_objs n) (au_n_objs n')) else None |}
      :: au_model_trace p (au_step p s te) rest
  end.

Definition au_has_me (n : au_node) : bool := match au_n_zone n with Some _ => true | None => false end.

Definition au_obj_step (p : au_params) (now : Z) (n : au_node) (e : au_ev) (o : au_obj) : au_obj :=
  match e with
  | AuRestart _ => au_fresh o
  | AuTimer _ => au_update_obj p (au_node_sel p now n) (au_n_me n) o
  | AuNotify _ => au_notify_obj (au_n_updated n) o
  | AuNcTimer _ ha => au_nctimer_obj (au_n_updated n) (au_has_me n) ha o
  | _ => o
  end.

Lemma au_update_obj_cold p me o : au_update_obj p AuCold me o = o.
Proof. unfold au_update_obj. destruct (negb (au_o_active o) || negb (au_o_once o)); reflexivity. Qed.

Lemma au_map_id_ext {A} (f : A -> A) l : (forall x, f x = x) -> map f l = l.
Proof. intros H. induction l; cbn; [reflexivity|]. rewrite H, IHl. reflexivity. Qed.

Lemma au_step_objs p now n e :
  au_n_objs (au_node_step p now n e) = map (au_obj_step p now n e) (au_n_objs n).
Proof.
  destruct e; unfold au_obj_step; cbn [au_node_step au_with au_n_objs];
    try (symmetry; apply au_map_id_ext; reflexivity); try reflexivity.
  unfold au_timer. destruct (au_node_sel p now n) eqn:E; cbn [au_with au_n_objs]; try reflexivity.
  symmetry. apply au_map_id_ext. intros o. apply au_update_obj_cold.
Qed.

Lemma au_obj_step_key p now n e o :
  au_o_name (au_obj_step p now n e o) = au_o_name o /\ au_o_kind (au_obj_step p now n e o) = au_o_kind o /\
  au_o_active (au_obj_step p now n e o) = au_o_active o /\ au_o_once (au_obj_step p now n e o) = au_o_once o.
Proof.
  destruct e; cbn [au_obj_step]; try (repeat split; fail).
  - destruct (au_update_obj_key p (au_node_sel p now n) (au_n_me n) o) as (A & B & C & D & _). auto.
  - unfold au_notify_obj. destruct (au_is_notification o && au_o_active o); repeat split.
  - unfold au_nctimer_obj. destruct (au_is_notification o && au_o_active o); repeat split.
Qed.

(* the bookkeeping of a node does not look at the objects *)
Lemma au_track_sel p now n : au_node_sel p now (au_track_node n) = au_node_sel p now n.
Proof. reflexivity. Qed.

Lemma au_trk_meta p now n e :
  let n1 := au_node_step p now (au_track_node n) e in
  let n2 := au_node_step p now n e in
  au_n_me n1 = au_n_me n2 /\ au_n_peer n1 = au_n_peer n2 /\ au_n_zone n1 = au_n_zone n2 /\
  au_n_start n1 = au_n_start n2 /\ au_n_conn n1 = au_n_conn n2 /\ au_n_updated n1 = au_n_updated n2 /\
  au_n_last n1 = au_n_last n2.
Proof.
  destruct e; cbn [au_node_step]; try (cbn; repeat split; fail).
  unfold au_timer. rewrite au_track_sel. destruct (au_node_sel p now n); cbn; repeat split.
Qed.

Lemma au_resync_obs f l :
  (forall o, au_o_name (f o) = au_o_name o /\ au_o_kind (f o) = au_o_kind o /\
             au_o_active (f o) = au_o_active o /\ au_o_once (f o) = au_o_once o) ->
  au_resync_list (map au_strip l) (au_obs_list l (map f l)) = map au_strip (map f l).
Proof.
  intros H. induction l as [|o l IH]; [reflexivity|]. cbn [map au_obs_list au_resync_list]. rewrite IH. f_equal.
  destruct (H o) as (A & B & C & D). unfold au_resync, au_strip, au_observe. cbn. rewrite A, B, C, D. reflexivity.
Qed.

Lemma au_node_eq n m :
  au_n_me n = au_n_me m -> au_n_peer n = au_n_peer m -> au_n_zone n = au_n_zone m ->
  au_n_start n = au_n_start m -> au_n_conn n = au_n_conn m -> au_n_updated n = au_n_updated m ->
  au_n_last n = au_n_last m -> au_n_objs n = au_n_objs m -> n = m.
Proof. destruct n, m; cbn; intros; subst; reflexivity. Qed.

Lemma au_track_objs n : au_n_objs (au_track_node n) = map au_strip (au_n_objs n).
Proof. reflexivity. Qed.

Lemma au_trk_step_model p now n e :
  au_trk_step p now (au_track_node n) e
    (if au_prints e then Some (au_obs_list (au_n_objs n) (au_n_objs (au_node_step p now n e))) else None)
  = au_track_node (au_node_step p now n e).
Proof.
  destruct (au_trk_meta p now n e) as (A & B & C & D & E & F & G). cbv zeta in *.
  apply au_node_eq; try (unfold au_trk_step; cbn [au_with au_n_me au_n_peer au_n_zone au_n_start au_n_conn au_n_updated au_n_last]; assumption).
  unfold au_trk_step. cbn [au_with au_n_objs]. rewrite !au_track_objs, au_step_objs.
  destruct (au_prints e) eqn:P.
  - apply au_resync_obs. intros o. apply au_obj_step_key.
  - f_equal. symmetry. apply au_map_id_ext.
    intros o. destruct e; try discriminate; reflexivity.
Qed.

Ltac au_zb := apply Z.eqb_eq; lia.

Lemma au_chk_trans_same o o' :
  au_o_paused o' = au_o_paused o -> au_o_pauses o' = au_o_pauses o -> au_o_resumes o' = au_o_resumes o ->
  au_chk_trans (au_o_paused o) (au_observe o o') = true.
Proof.
  intros A B C. unfold au_chk_trans, au_observe. cbn. rewrite A, B, C.
  destruct (au_o_paused o); cbn; apply andb_true_intro; split; au_zb.
Qed.

Lemma au_chk_obj_model p now n e o :
  au_chk_obj p now (au_track_node n) e (au_strip o) (au_observe o (au_obj_step p now n e o)) = true.
Proof.
  destruct e; cbn [au_chk_obj au_obj_step].
  - (* connect *) cbn [au_strip au_o_paused]. rewrite au_chk_trans_same by reflexivity. rewrite eqb_reflx. cbn. au_zb.
  - cbn [au_strip au_o_paused]. rewrite au_chk_trans_same by reflexivity. rewrite eqb_reflx. cbn. au_zb.
  - (* restart *) cbn. destruct (au_o_active o), (au_o_once o); reflexivity.
  - cbn [au_strip au_o_paused]. rewrite au_chk_trans_same by reflexivity. rewrite eqb_reflx. cbn. au_zb.
  - (* timer *)
    rewrite au_track_sel. cbn [au_strip au_o_paused au_o_active au_o_once au_o_name au_track_node au_with au_n_me].
    set (sel := au_node_sel p now n). set (me := au_n_me n). set (o' := au_update_obj p sel me o).
    destruct (au_update_obj_key p sel me o) as (_ & _ & _ & _ & _ & Hs). fold o' in Hs.
    pose proof (au_update_obj_once p sel me o) as (H1 & H2 & H3). fold o' in H1, H2, H3.
    assert (au_chk_trans (au_o_paused o) (au_observe o o') = true) as ->.
    { unfold au_chk_trans, au_observe. cbn.
      destruct (au_o_paused o) eqn:P, (au_o_paused o') eqn:P'; cbn.
      - rewrite (H1 eq_refl). apply andb_true_intro; split; au_zb.
      - destruct (H3 eq_refl eq_refl) as [A B]. rewrite A, B. apply andb_true_intro; split; au_zb.
      - destruct (H2 eq_refl eq_refl) as [A B]. rewrite A, B. apply andb_true_intro; split; au_zb.
      - rewrite (H1 eq_refl). apply andb_true_intro; split; au_zb. }
    assert ((au_oo_ds (au_observe o o') =? 0) = true) as -> by (cbn; au_zb).
    cbn [andb]. unfold o', au_update_obj.
    destruct (au_o_active o), (au_o_once o); cbn [negb orb andb]; try apply eqb_reflx.
    destruct (au_auth_of p sel me (au_o_name o)) as [a|]; cbn [au_observe au_oo_paused].
    + rewrite au_set_authority_paused. apply eqb_reflx.
    + apply eqb_reflx.
  - (* notify *)
    cbn [au_strip au_o_paused au_track_node au_with au_n_updated].
    unfold au_notify_obj. destruct (au_is_notification o && au_o_active o).
    + rewrite au_chk_trans_same by reflexivity. cbn [au_observe au_oo_paused au_with_notif au_o_paused]. rewrite eqb_reflx. cbn [andb].
      unfold au_observe, au_with_notif. cbn [au_oo_ds au_o_sent].
      match goal with |- context [au_o_sent o + ?r - au_o_sent o] => replace (au_o_sent o + r - au_o_sent o) with r by lia end.
      unfold au_send_guard. destruct (au_n_updated n), (au_o_paused o); cbn; try reflexivity.
      destruct (0 <? au_o_stash o); reflexivity.
    + rewrite au_chk_trans_same by reflexivity. cbn [au_observe au_oo_paused]. rewrite eqb_reflx. cbn [andb]. unfold au_observe. cbn [au_oo_ds].
      rewrite Z.sub_diag. reflexivity.
  - (* nc timer *)
    cbn [au_strip au_o_paused au_track_node au_with au_n_zone].
    unfold au_nctimer_obj. destruct (au_is_notification o && au_o_active o).
    + rewrite au_chk_trans_same by reflexivity. cbn [au_observe au_oo_paused au_with_notif au_o_paused]. rewrite eqb_reflx. cbn [andb].
      unfold au_observe, au_with_notif. cbn [au_oo_ds au_o_sent].
      match goal with |- context [au_o_sent o + ?r - au_o_sent o] => replace (au_o_sent o + r - au_o_sent o) with r by lia end.
      unfold au_nc_guard, au_has_me.
      destruct (au_o_paused o && match au_n_zone n with Some _ => true | None => false end && ha); cbn; [reflexivity|].
      match goal with |- (if ?c then _ else _) = true => destruct c; reflexivity end.
    + rewrite au_chk_trans_same by reflexivity. cbn [au_observe au_oo_paused]. rewrite eqb_reflx. cbn [andb]. unfold au_observe. cbn [au_oo_ds].
      rewrite Z.sub_diag. reflexivity.
Qed.

Lemma au_chk_list_model p now n e l :
  au_chk_list p now (au_track_node n) e (map au_strip l) (au_obs_list l (map (au_obj_step p now n e) l)) = true.
Proof.
  induction l as [|o l IH]; [reflexivity|]. cbn [map au_obs_list au_chk_list]. rewrite au_chk_obj_model, IH. reflexivity.
Qed.

Lemma au_track_get s i : au_get (au_track s) i = au_track_node (au_get s i).
Proof. destruct i; reflexivity. Qed.

Lemma au_track_put s i n : au_put (au_track s) i (au_track_node n) = au_track (au_put s i n).
Proof. destruct i; reflexivity. Qed.

Theorem au_oracle_from_model p evs : forall s idx,
  au_oracle_from p (au_track s) idx (au_model_trace p s evs) = None.
Proof.
  induction evs as [|te evs IH]; intros s idx; [reflexivity|].
  cbn [au_model_trace au_oracle_from au_ts_ev au_ts_now au_ts_obs].
  set (i := au_ev_id (snd te)). rewrite au_track_get.
  set (n := au_get s i).
  assert (match (if au_prints (snd te) then Some (au_obs_list (au_n_objs n) (au_n_objs (au_node_step p (fst te) n (snd te)))) else None) with
          | Some v => au_chk_list p (fst te) (au_track_node n) (snd te) (au_n_objs (au_track_node n)) v
          | None => true end = true) as ->.
  { destruct (au_prints (snd te)); [|reflexivity]. rewrite au_step_objs. apply au_chk_list_model. }
  rewrite au_trk_step_model, au_track_put. apply IH.
Qed.

Theorem au_oracle_accepts_model p a b za zb objs evs :
  au_oracle p a b za zb objs (au_model_trace p (au_init a b za zb objs) evs) = None.
Proof. apply au_oracle_from_model. Qed.
