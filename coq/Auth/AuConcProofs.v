(* C10 - concurrent SetAuthority: for ALL interleavings the calls of Resume()/Pause() on an object alternate,
   provided `paused' is tested again once the lock is held.  Without that test (the unlocked fast path alone)
   two overlapping SetAuthority(true) resume the object twice. *)
From Icv Require Import Base.Tac Auth.AuConc.
Local Open Scope Z_scope.

Lemma auc_after_app p tr c : auc_after p (tr ++ [c]) = auc_flip c.
Proof. unfold auc_after. rewrite fold_left_app. reflexivity. Qed.

Lemma auc_altb_app tr : forall p c, auc_altb p (tr ++ [c]) = auc_altb p tr && auc_call_ok (auc_after p tr) c.
Proof.
  induction tr as [|x tr IH]; intros p c; cbn [app auc_altb].
  - unfold auc_after. cbn. rewrite andb_true_r. reflexivity.
  - rewrite IH. rewrite andb_assoc. f_equal.
Qed.

Definition auc_inside (pc : auc_pc) : bool :=
  match pc with
  | AcLocked _ | AcResume1 | AcResume2 | AcPause1 | AcPause2 | AcUnlock => true
  | _ => false
  end.

(* flag vs. what the calls so far imply, depending on where the lock holder is *)
Definition auc_rel (holder : option auc_pc) (paused L : bool) : Prop :=
  match holder with
  | Some AcResume1 => paused = true /\ L = true
  | Some AcResume2 => paused = true /\ L = false
  | Some AcPause1 => paused = false /\ L = false
  | Some AcPause2 => paused = true /\ L = false
  | _ => paused = L
  end.

Definition auc_holder_pc (s : auc_state) : option auc_pc :=
  match auc_lock s with None => None | Some h => Some (auc_t_pc (auc_threads s h)) end.

Definition auc_me (s : auc_state) : Prop :=
  forall j, auc_inside (auc_t_pc (auc_threads s j)) = true <-> auc_lock s = Some j.

Definition auc_inv (p0 : bool) (s : auc_state) : Prop :=
  auc_altb p0 (auc_trace s) = true /\ auc_me s /\
  auc_rel (auc_holder_pc s) (auc_paused s) (auc_after p0 (auc_trace s)).

Lemma auc_upd_same f i t : auc_upd f i t i = t.
Proof. unfold auc_upd. rewrite Nat.eqb_refl. reflexivity. Qed.

Lemma auc_upd_other f i t j : j <> i -> auc_upd f i t j = f j.
Proof. intros H. unfold auc_upd. apply Nat.eqb_neq in H. rewrite H. reflexivity. Qed.

Lemma auc_me_set s i pc' todo' p' tr' l' :
  auc_me s -> (auc_inside pc' = true <-> l' = Some i) ->
  (forall j, j <> i -> (auc_lock s = Some j <-> l' = Some j)) ->
  auc_me (auc_set s p' l' i pc' todo' tr').
Proof.
  intros Hme H1 H2 j. unfold auc_set. cbn [auc_threads auc_lock].
  destruct (Nat.eq_dec j i) as [->|Hn].
  - rewrite auc_upd_same. cbn [auc_t_pc]. exact H1.
  - rewrite auc_upd_other by assumption. rewrite (Hme j). apply H2. assumption.
Qed.

(* a thread outside the critical section moves to another point outside: nothing observable changes *)
Lemma auc_inv_outside p0 s i pc' todo' :
  auc_inv p0 s -> auc_inside (auc_t_pc (auc_threads s i)) = false -> auc_inside pc' = false ->
  auc_inv p0 (auc_set s (auc_paused s) (auc_lock s) i pc' todo' (auc_trace s)).
Proof.
  intros (Halt & Hme & Hrel) Hout Hout'. split; [exact Halt|]. split.
  - apply auc_me_set; [exact Hme| |intros; reflexivity].
    rewrite Hout'. rewrite <- (Hme i), Hout. reflexivity.
  - unfold auc_holder_pc, auc_set in *. cbn [auc_lock auc_threads auc_paused auc_trace].
    destruct (auc_lock s) as [h|] eqn:El; [|exact Hrel].
    assert (h <> i) as Hn.
    { intros ->. pose proof (proj2 (Hme i) El) as Hin. congruence. }
    rewrite auc_upd_other by assumption. exact Hrel.
Qed.

(* the lock holder moves inside the critical section *)
Lemma auc_inv_holder p0 s i pc' todo' p' tr' :
  auc_me s -> auc_lock s = Some i -> auc_inside pc' = true ->
  auc_altb p0 tr' = true -> auc_rel (Some pc') p' (auc_after p0 tr') ->
  auc_inv p0 (auc_set s p' (auc_lock s) i pc' todo' tr').
Proof.
  intros Hme El Hin Halt Hrel. split; [exact Halt|]. split.
  - apply auc_me_set; [exact Hme| |intros; reflexivity]. rewrite Hin, El. tauto.
  - unfold auc_holder_pc, auc_set. cbn [auc_lock auc_threads auc_paused auc_trace]. rewrite El, auc_upd_same. exact Hrel.
Qed.

Lemma auc_step_inv c p0 s i :
  auc_recheck c = true -> auc_inv p0 s -> auc_inv p0 (auc_step c s i).
Proof.
  intros Hre Hinv. pose proof Hinv as (Halt & Hme & Hrel).
  unfold auc_step.
  destruct (auc_t_pc (auc_threads s i)) eqn:Epc.
  - (* idle *)
    destruct (auc_t_todo (auc_threads s i)); [exact Hinv|].
    apply auc_inv_outside; [exact Hinv|rewrite Epc; reflexivity|reflexivity].
  - (* start: the unlocked fast path, if there is one, only decides whether to go on *)
    destruct (auc_fast c); [destruct (negb (Bool.eqb a (auc_paused s)))|];
      (apply auc_inv_outside; [exact Hinv|rewrite Epc; reflexivity|reflexivity]).
  - (* taking the lock *)
    destruct (auc_lock s) as [h|] eqn:El; [exact Hinv|].
    split; [exact Halt|]. split.
    + apply auc_me_set; [exact Hme|cbn; tauto|]. intros j Hn. rewrite El. split; intros H; [discriminate|congruence].
    + unfold auc_holder_pc, auc_set. cbn [auc_lock auc_threads auc_paused auc_trace]. rewrite auc_upd_same. cbn [auc_t_pc auc_rel].
      unfold auc_holder_pc in Hrel. rewrite El in Hrel. exact Hrel.
  - (* the decision under the lock: this is where the second test of `paused' is needed *)
    assert (auc_lock s = Some i) as El by (apply Hme; rewrite Epc; reflexivity).
    assert (auc_paused s = auc_after p0 (auc_trace s)) as Hp.
    { unfold auc_holder_pc in Hrel. rewrite El, Epc in Hrel. exact Hrel. }
    rewrite Hre.
    destruct a, (auc_paused s) eqn:P; cbn [andb negb];
      (apply auc_inv_holder; [exact Hme|exact El|reflexivity|exact Halt|cbn [auc_rel]; try rewrite <- Hp; auto]).
  - (* Resume() is called *)
    assert (auc_lock s = Some i) as El by (apply Hme; rewrite Epc; reflexivity).
    unfold auc_holder_pc in Hrel. rewrite El, Epc in Hrel. destruct Hrel as [P L].
    apply auc_inv_holder; [exact Hme|exact El|reflexivity| |].
    + rewrite auc_altb_app, Halt, L. reflexivity.
    + rewrite auc_after_app. cbn. auto.
  - (* SetPaused(false) *)
    assert (auc_lock s = Some i) as El by (apply Hme; rewrite Epc; reflexivity).
    unfold auc_holder_pc in Hrel. rewrite El, Epc in Hrel. destruct Hrel as [P L].
    apply auc_inv_holder; [exact Hme|exact El|reflexivity|exact Halt|]. cbn. congruence.
  - (* SetPaused(true) *)
    assert (auc_lock s = Some i) as El by (apply Hme; rewrite Epc; reflexivity).
    unfold auc_holder_pc in Hrel. rewrite El, Epc in Hrel. destruct Hrel as [P L].
    apply auc_inv_holder; [exact Hme|exact El|reflexivity|exact Halt|]. cbn. auto.
  - (* Pause() is called *)
    assert (auc_lock s = Some i) as El by (apply Hme; rewrite Epc; reflexivity).
    unfold auc_holder_pc in Hrel. rewrite El, Epc in Hrel. destruct Hrel as [P L].
    apply auc_inv_holder; [exact Hme|exact El|reflexivity| |].
    + rewrite auc_altb_app, Halt, L. reflexivity.
    + rewrite auc_after_app. cbn. congruence.
  - (* release *)
    assert (auc_lock s = Some i) as El by (apply Hme; rewrite Epc; reflexivity).
    unfold auc_holder_pc in Hrel. rewrite El, Epc in Hrel. cbn [auc_rel] in Hrel.
    split; [exact Halt|]. split.
    + apply auc_me_set; [exact Hme|cbn; split; intros; discriminate|].
      intros j Hn. rewrite El. split; intros H; [congruence|discriminate].
    + unfold auc_holder_pc, auc_set. cbn [auc_lock auc_paused auc_trace auc_rel]. exact Hrel.
Qed.

Lemma auc_init_inv p0 todo : auc_inv p0 (auc_init p0 todo).
Proof.
  split; [reflexivity|]. split.
  - intros j. cbn. split; intros; discriminate.
  - reflexivity.
Qed.

Lemma auc_run_inv c p0 sched : forall s, auc_recheck c = true -> auc_inv p0 s -> auc_inv p0 (auc_run c s sched).
Proof.
  induction sched as [|i sched IH]; intros s Hre Hinv; [exact Hinv|].
  cbn [auc_run fold_left]. apply IH; [exact Hre|]. apply auc_step_inv; assumption.
Qed.

(* any number of threads, any arguments, any schedule; with or without an unlocked fast path *)
Theorem auc_once_concurrent c p0 todo sched :
  auc_recheck c = true ->
  let s := auc_run c (auc_init p0 todo) sched in
  auc_altb p0 (auc_trace s) = true /\
  (auc_lock s = None -> auc_paused s = auc_after p0 (auc_trace s)) /\
  (auc_lock s = None -> auc_round_ok p0 (auc_trace s) (auc_paused s) = true).
Proof.
  intros Hre s. pose proof (auc_run_inv c p0 sched _ Hre (auc_init_inv p0 todo)) as (Halt & _ & Hrel). fold s in Halt, Hrel.
  split; [exact Halt|].
  assert (auc_lock s = None -> auc_paused s = auc_after p0 (auc_trace s)) as H.
  { intros El. unfold auc_holder_pc in Hrel. rewrite El in Hrel. exact Hrel. }
  split; [exact H|]. intros El. unfold auc_round_ok. rewrite Halt, (H El), eqb_reflx. reflexivity.
Qed.

(* the fast path without the second test: two overlapping SetAuthority(true) on a paused object *)
Definition auc_seeded : auc_cfg := {| auc_fast := true; auc_recheck := false |}.
Definition auc_two_true (j : nat) : list bool := match j with 0%nat | 1%nat => [true] | _ => [] end.
Definition auc_bad_sched : list nat :=
  [0; 0; 1; 1;        (* both enter and pass the fast path: paused = true *)
   0; 0; 0;           (* thread 0 takes the lock, decides, calls Resume() *)
   0; 0;              (* ... SetPaused(false), unlock *)
   1; 1; 1; 1; 1]%nat.  (* thread 1 takes the lock and, not looking again, calls Resume() too *)

Theorem auc_needs_locked_recheck :
  let s := auc_run auc_seeded (auc_init true auc_two_true) auc_bad_sched in
  auc_trace s = [AcResumeCall; AcResumeCall] /\ auc_altb true (auc_trace s) = false /\ auc_lock s = None.
Proof. vm_compute. repeat split. Qed.

(* the same schedule is harmless when the flag is tested under the lock, fast path or not *)
Example auc_bad_sched_with_recheck :
  auc_trace (auc_run {| auc_fast := true; auc_recheck := true |} (auc_init true auc_two_true) auc_bad_sched) = [AcResumeCall].
Proof. vm_compute. reflexivity. Qed.
