(* C10 - the parameters the source text fixes right now (regenerated coq/Facts/Facts_c10.v).
   The theorems hold for every value of them; vmodel runs the model with these. *)
From Icv Require Import Base.Tac Auth.AuModel Auth.AuConc Facts.Facts_c10.
Local Open Scope Z_scope.

Definition au_params_now : au_params :=
  {| au_p_signed := true;     (* x86-64 SysV ABI: plain char is signed; checked by the SDBM comparison on bytes >= 0x80 *)
     au_p_window := match f_au_window with Some w => w | None => 30 end;
     au_p_strict := match f_au_strict with Some s => s | None => true end |}.

(* ConfigObject::SetAuthority as the source has it now: `paused' is tested under the ObjectLock unless the
   translator positively recognised that it is only looked at before the lock is taken. *)
Definition au_recheck_now : bool := match f_au_paused_test_under_lock with Some false => false | _ => true end.
