(* C04_next_check: now < next <= now + I for every offset, over exact rationals. *)
From Coq Require Import QArith Qround ZArith Bool Lqa Lia.
From Icv Require Import Sched.SchNext.
Local Open Scope Q_scope.

Lemma sch_qfmod_bounds x y : 0 < y -> 0 <= x -> 0 <= sch_qfmod x y /\ sch_qfmod x y < y.
Proof.
  intros Hy Hx. unfold sch_qfmod.
  pose proof (Qfloor_le (x / y)) as Hlo. pose proof (Qlt_floor (x / y)) as Hhi.
  set (f := inject_Z (Qfloor (x / y))) in *.
  assert (Hf1 : inject_Z (Qfloor (x / y) + 1) == f + 1).
  { unfold f. rewrite inject_Z_plus. reflexivity. }
  rewrite Hf1 in Hhi. clear Hf1.
  assert (Hxy : x == (x / y) * y). { field. intro E. rewrite E in Hy. apply Qlt_irrefl in Hy. exact Hy. }
  set (q := x / y) in *.
  split.
  - assert (y * f <= q * y) by nra. rewrite Hxy. lra.
  - assert (q * y < y * f + y) by nra. rewrite Hxy. lra.
Qed.

Lemma sch_qle_bool_spec a b : if Qle_bool a b then a <= b else b < a.
Proof.
  destruct (Qle_bool a b) eqn:E.
  - apply Qle_bool_iff. exact E.
  - apply Qnot_le_lt. intro H. apply Qle_bool_iff in H. congruence.
Qed.

Lemma sch_adj_bounds now interval offset :
  0 < interval -> 0 <= now * 100 + inject_Z offset -> (0 <= offset)%Z ->
  0 <= sch_adj now interval offset /\ sch_adj now interval offset < interval.
Proof.
  intros HI Hx Ho. unfold sch_adj.
  set (adj1 := if sch_qlt_bool 1 interval then _ else 0).
  assert (H1 : 0 <= adj1 /\ adj1 < interval).
  { unfold adj1, sch_qlt_bool. pose proof (sch_qle_bool_spec interval 1) as S.
    destruct (Qle_bool interval 1); cbn [negb]; [lra|].
    assert (Hy : 0 < interval * 100) by lra.
    destruct (sch_qfmod_bounds _ _ Hy Hx) as [A B].
    set (m := sch_qfmod (now * 100 + inject_Z offset) (interval * 100)) in *.
    assert (m / 100 == m * (1 # 100)) as -> by (field). lra. }
  destruct (Qeq_bool adj1 0) eqn:E; [exact H1|].
  assert (H2 : 0 < (1 # 2) + sch_qfmod (inject_Z offset) (interval * 5) / 100).
  { assert (Hy : 0 < interval * 5) by lra.
    assert (Hoff : 0 <= inject_Z offset). { change 0 with (inject_Z 0). rewrite <- Zle_Qle. exact Ho. }
    destruct (sch_qfmod_bounds _ _ Hy Hoff) as [A _].
    set (m := sch_qfmod (inject_Z offset) (interval * 5)) in *.
    assert (m / 100 == m * (1 # 100)) as -> by (field). lra. }
  unfold sch_qmin. set (a2 := (1 # 2) + _) in *.
  pose proof (sch_qle_bool_spec a2 adj1) as S. destruct (Qle_bool a2 adj1); lra.
Qed.

Theorem sch_next_check_bounds now ci ri soft has_cr offset :
  let I := sch_interval soft has_cr ci ri in
  0 < I -> 0 <= now -> (0 <= offset)%Z ->
  now < sch_update_next_check now I offset /\ sch_update_next_check now I offset <= now + I.
Proof.
  intros I HI Hn Ho. unfold sch_update_next_check.
  assert (Hx : 0 <= now * 100 + inject_Z offset).
  { assert (0 <= inject_Z offset). { change 0 with (inject_Z 0). rewrite <- Zle_Qle. exact Ho. } lra. }
  destruct (sch_adj_bounds now I offset HI Hx Ho) as [A B]. lra.
Qed.

(* the interval the code uses *)
Lemma sch_interval_soft ci ri : sch_interval true true ci ri = ri.
Proof. reflexivity. Qed.
Lemma sch_interval_other soft has_cr ci ri : soft && has_cr = false -> sch_interval soft has_cr ci ri = ci.
Proof. unfold sch_interval. intros ->. reflexivity. Qed.

(* after each execution: retry_interval exactly when the state AFTER the result is soft, whatever the
   pre-state was (never checked or not) *)
Lemma sch_interval_after_spec (soft_after : bool) (ci ri : Q) :
  sch_interval_after soft_after ci ri = if soft_after then ri else ci.
Proof. unfold sch_interval_after, sch_interval. rewrite andb_true_r. reflexivity. Qed.

Theorem sch_next_check_after_result (now ci ri : Q) (soft_after : bool) (offset : Z) :
  let I := if soft_after then ri else ci in
  0 < I -> 0 <= now -> (0 <= offset)%Z ->
  now < sch_update_next_check now (sch_interval_after soft_after ci ri) offset /\
  sch_update_next_check now (sch_interval_after soft_after ci ri) offset <= now + I.
Proof.
  intros I HI Hn Ho. rewrite sch_interval_after_spec. fold I.
  pose proof (sch_next_check_bounds now I I false false offset) as H. cbv zeta in H.
  unfold sch_interval in H. cbn [andb] in H. apply H; assumption.
Qed.
