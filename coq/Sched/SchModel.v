(* C04 - the check scheduler as a small-step concurrent model at LOCK GRANULARITY.
   No proofs in this file.

   One atomic step = one critical section (or one lock-free atomic access) of
     lib/checker/checkercomponent.cpp  CheckThreadProc (93-229), ExecuteCheckHelper (231-273),
                                       ObjectHandler (291-316), NextCheckChangedHandler (326-346)
     lib/icinga/checkable-check.cpp    ExecuteCheck (562-675: early UpdateNextCheck, test-and-set of
                                       m_CheckRunning under ObjectLock), ProcessCheckResult (103-106:
                                       clears m_CheckRunning), Increase/DecreasePendingChecks (696-707)
   Everything the code leaves to the environment is an argument of the step: which thread moves
   next, the clock, the value UpdateNextCheck computes (its arithmetic is SchNext.v), when flags
   of a checkable change, when the signal handlers connected to those changes get the mutex.

   Check commands come in three kinds, chosen by the environment per execution (after the test-and-set):
     synchronous  [SchATaskResult]   the command processes its result before Execute() returns;
     asynchronous [SchATaskLaunch; SchAFlightDone; SchAFlightResult]   every plugin check: Execute() returns at once,
                  the result arrives later on another thread - m_CheckRunning is the ONLY guard in between, because
                  ExecuteCheckHelper has put the checkable back into the idle set;
     remote       [SchATaskRemote]   command_endpoint set: the flag is released before ExecuteCheck returns.

   The idle / pending containers are boost::multi_index sets with a UNIQUE index on the object:
   [sch_insert] of an object that is already there leaves the container unchanged, [sch_erase]
   of an absent object is a no-op - exactly what the code relies on. *)
From Icv Require Import Base.Tac.
Local Open Scope Z_scope.

(* program counter of one queued ExecuteCheckHelper callback *)
Inductive sch_tpc :=
| SchTQueued      (* posted to the thread pool, nothing done yet *)
| SchTUpdated     (* ExecuteCheck: UpdateNextCheck() done, before the ObjectLock block *)
| SchTRunning     (* passed the test-and-set of m_CheckRunning; the check command executes *)
| SchTReturned    (* ExecuteCheck returned: result processed (flag cleared) or early return *)
| SchTDecr.       (* DecreasePendingChecks() done, before the final m_Mutex block *)

(* program counter of the scheduler thread (CheckThreadProc) *)
Inductive sch_spc :=
| SchSIdle                            (* outside m_Mutex: waiting on the condition variable *)
| SchSHold (c : nat) (forced : bool)  (* INSIDE m_Mutex: c erased from idle, decision not yet taken *)
| SchSPostA (c : nat) (forced : bool) (* unlocked after inserting into pending; before clearing force *)
| SchSPostB (c : nat)                 (* before IncreasePendingChecks *)
| SchSPostC (c : nat).                (* before QueueAsyncCallback *)

Record sch_ck := {
  sch_next : Z;          (* next_check *)
  sch_active : bool;     (* IsActive() *)
  sch_paused : bool;     (* IsPaused(): no authority *)
  sch_zone : bool;       (* same_zone as computed by ObjectHandler; static *)
  sch_force : bool;      (* force_next_check *)
  sch_enable : bool;     (* enable_active_checks and the global enable_{host,service}_checks *)
  sch_period : bool;     (* no check period or inside it *)
  sch_reach : bool;      (* IsReachable(DependencyCheckExecution) *)
  sch_running : bool;    (* m_CheckRunning *)
  sch_owed : nat         (* OnActiveChanged/OnPausedChanged emissions whose ObjectHandler has not yet run *)
}.

Record sch_state := {
  sch_cks : nat -> sch_ck;
  sch_idle : list (nat * Z);     (* m_IdleCheckables: (Object, NextCheck key) *)
  sch_pend : list (nat * Z);     (* m_PendingCheckables *)
  sch_pcount : Z;                (* Checkable::m_PendingChecks *)
  sch_tasks : list (nat * sch_tpc);   (* multiset of callbacks in the thread pool *)
  sch_flights : list nat;        (* asynchronous executions whose command is still at work (plugin process alive):
                                    ExecuteCheck() has long returned, the result has not arrived yet *)
  sch_fdone : list nat;          (* asynchronous executions whose command has finished and whose completion callback
                                    has counted the slot down but not yet entered ProcessCheckResult *)
  sch_pc : sch_spc;
  sch_clock : Z;
  sch_max : Z                    (* max_concurrent_checks *)
}.

(* ---- containers ---- *)
Definition sch_mem (c : nat) (l : list (nat * Z)) : bool := existsb (fun p => Nat.eqb (fst p) c) l.
Definition sch_erase (c : nat) (l : list (nat * Z)) : list (nat * Z) := filter (fun p => negb (Nat.eqb (fst p) c)) l.
Definition sch_insert (c : nat) (k : Z) (l : list (nat * Z)) : list (nat * Z) := if sch_mem c l then l else (c, k) :: l.
Definition sch_lookup (c : nat) (l : list (nat * Z)) : option Z :=
  match find (fun p => Nat.eqb (fst p) c) l with Some p => Some (snd p) | None => None end.
(* k is the key of idx.begin() of the index ordered by NextCheck *)
Definition sch_is_min (k : Z) (l : list (nat * Z)) : bool := forallb (fun p => k <=? snd p) l.

(* ---- tasks as a multiset ---- *)
Definition sch_tpc_eqb (a b : sch_tpc) : bool :=
  match a, b with
  | SchTQueued, SchTQueued | SchTUpdated, SchTUpdated | SchTRunning, SchTRunning
  | SchTReturned, SchTReturned | SchTDecr, SchTDecr => true
  | _, _ => false
  end.
Definition sch_task_eqb (a b : nat * sch_tpc) : bool := Nat.eqb (fst a) (fst b) && sch_tpc_eqb (snd a) (snd b).
Fixpoint sch_cnt (x : nat * sch_tpc) (l : list (nat * sch_tpc)) : nat :=
  match l with [] => O | y :: r => ((if sch_task_eqb x y then 1 else 0) + sch_cnt x r)%nat end.
Fixpoint sch_rem1 (x : nat * sch_tpc) (l : list (nat * sch_tpc)) : list (nat * sch_tpc) :=
  match l with [] => [] | y :: r => if sch_task_eqb x y then r else y :: sch_rem1 x r end.
Definition sch_has (x : nat * sch_tpc) (l : list (nat * sch_tpc)) : bool := existsb (sch_task_eqb x) l.
(* dispatched and not yet counted down *)
Definition sch_is_live (t : nat * sch_tpc) : bool := negb (sch_tpc_eqb (snd t) SchTDecr).
Definition sch_live (l : list (nat * sch_tpc)) : nat := length (filter sch_is_live l).
Definition sch_is_run (t : nat * sch_tpc) : bool := sch_tpc_eqb (snd t) SchTRunning.
Definition sch_runlist (l : list (nat * sch_tpc)) : list nat := map fst (filter sch_is_run l).

(* ---- asynchronous executions as a multiset of checkable ids ---- *)
Definition sch_fmem (c : nat) (l : list nat) : bool := existsb (Nat.eqb c) l.
Fixpoint sch_frem1 (c : nat) (l : list nat) : list nat :=
  match l with [] => [] | x :: r => if Nat.eqb c x then r else x :: sch_frem1 c r end.
Fixpoint sch_fcnt (c : nat) (l : list nat) : nat :=
  match l with [] => O | x :: r => ((if Nat.eqb c x then 1 else 0) + sch_fcnt c r)%nat end.
(* tasks that still may start, or are inside, a synchronous command: they occupy a concurrency slot *)
Definition sch_is_slot (t : nat * sch_tpc) : bool :=
  match snd t with SchTQueued | SchTUpdated | SchTRunning => true | _ => false end.
Definition sch_slots (l : list (nat * sch_tpc)) (fl : list nat) : nat := (length (filter sch_is_slot l) + length fl)%nat.

(* ---- field updates ---- *)
Definition sch_k_next (k : sch_ck) v := {| sch_next := v; sch_active := sch_active k; sch_paused := sch_paused k;
  sch_zone := sch_zone k; sch_force := sch_force k; sch_enable := sch_enable k; sch_period := sch_period k;
  sch_reach := sch_reach k; sch_running := sch_running k; sch_owed := sch_owed k |}.
Definition sch_k_active (k : sch_ck) b := {| sch_next := sch_next k; sch_active := b; sch_paused := sch_paused k;
  sch_zone := sch_zone k; sch_force := sch_force k; sch_enable := sch_enable k; sch_period := sch_period k;
  sch_reach := sch_reach k; sch_running := sch_running k; sch_owed := S (sch_owed k) |}.
Definition sch_k_paused (k : sch_ck) b := {| sch_next := sch_next k; sch_active := sch_active k; sch_paused := b;
  sch_zone := sch_zone k; sch_force := sch_force k; sch_enable := sch_enable k; sch_period := sch_period k;
  sch_reach := sch_reach k; sch_running := sch_running k; sch_owed := S (sch_owed k) |}.
Definition sch_k_force (k : sch_ck) b := {| sch_next := sch_next k; sch_active := sch_active k; sch_paused := sch_paused k;
  sch_zone := sch_zone k; sch_force := b; sch_enable := sch_enable k; sch_period := sch_period k;
  sch_reach := sch_reach k; sch_running := sch_running k; sch_owed := sch_owed k |}.
Definition sch_k_env (k : sch_ck) en per re := {| sch_next := sch_next k; sch_active := sch_active k; sch_paused := sch_paused k;
  sch_zone := sch_zone k; sch_force := sch_force k; sch_enable := en; sch_period := per;
  sch_reach := re; sch_running := sch_running k; sch_owed := sch_owed k |}.
Definition sch_k_running (k : sch_ck) b := {| sch_next := sch_next k; sch_active := sch_active k; sch_paused := sch_paused k;
  sch_zone := sch_zone k; sch_force := sch_force k; sch_enable := sch_enable k; sch_period := sch_period k;
  sch_reach := sch_reach k; sch_running := b; sch_owed := sch_owed k |}.
Definition sch_k_handled (k : sch_ck) := {| sch_next := sch_next k; sch_active := sch_active k; sch_paused := sch_paused k;
  sch_zone := sch_zone k; sch_force := sch_force k; sch_enable := sch_enable k; sch_period := sch_period k;
  sch_reach := sch_reach k; sch_running := sch_running k; sch_owed := pred (sch_owed k) |}.

Definition sch_upd (f : nat -> sch_ck) (c : nat) (x : sch_ck) : nat -> sch_ck :=
  fun c' => if Nat.eqb c' c then x else f c'.

Definition sch_s_cks s f := {| sch_cks := f; sch_idle := sch_idle s; sch_pend := sch_pend s; sch_pcount := sch_pcount s;
  sch_tasks := sch_tasks s; sch_flights := sch_flights s; sch_fdone := sch_fdone s; sch_pc := sch_pc s; sch_clock := sch_clock s; sch_max := sch_max s |}.
Definition sch_s_sets s i p pc := {| sch_cks := sch_cks s; sch_idle := i; sch_pend := p; sch_pcount := sch_pcount s;
  sch_tasks := sch_tasks s; sch_flights := sch_flights s; sch_fdone := sch_fdone s; sch_pc := pc; sch_clock := sch_clock s; sch_max := sch_max s |}.
Definition sch_s_tasks s t n := {| sch_cks := sch_cks s; sch_idle := sch_idle s; sch_pend := sch_pend s; sch_pcount := n;
  sch_tasks := t; sch_flights := sch_flights s; sch_fdone := sch_fdone s; sch_pc := sch_pc s; sch_clock := sch_clock s; sch_max := sch_max s |}.
Definition sch_s_pc s pc := sch_s_sets s (sch_idle s) (sch_pend s) pc.
Definition sch_s_fl s f d := {| sch_cks := sch_cks s; sch_idle := sch_idle s; sch_pend := sch_pend s; sch_pcount := sch_pcount s;
  sch_tasks := sch_tasks s; sch_flights := f; sch_fdone := d; sch_pc := sch_pc s; sch_clock := sch_clock s; sch_max := sch_max s |}.
Definition sch_s_clock s t := {| sch_cks := sch_cks s; sch_idle := sch_idle s; sch_pend := sch_pend s; sch_pcount := sch_pcount s;
  sch_tasks := sch_tasks s; sch_flights := sch_flights s; sch_fdone := sch_fdone s; sch_pc := sch_pc s; sch_clock := t; sch_max := sch_max s |}.

(* the condition ObjectHandler tests *)
Definition sch_sched (k : sch_ck) : bool := sch_active k && negb (sch_paused k) && sch_zone k.
(* the scheduler's decision for a checkable it holds ("check" in CheckThreadProc) *)
Definition sch_wants (forced : bool) (k : sch_ck) : bool := forced || (sch_reach k && sch_enable k && sch_period k).
(* m_Mutex is free *)
Definition sch_unlocked (s : sch_state) : bool := match sch_pc s with SchSHold _ _ => false | _ => true end.

Inductive sch_act :=
(* scheduler thread *)
| SchAPick (c : nat)      (* with m_Mutex: c = begin() of the next-check index, due, a slot is free: erase from idle, read force *)
| SchASkip                (* still with m_Mutex: not forced and unreachable/disabled/outside period: re-insert into idle, unlock *)
| SchADispatch            (* still with m_Mutex: insert into pending, unlock *)
| SchAClearForce          (* ObjectLock: SetForceNextCheck(false) if it was forced *)
| SchAIncrease            (* m_StatsMutex: m_PendingChecks++ *)
| SchAEnqueue             (* QueueAsyncCallback(ExecuteCheckHelper) *)
(* a pool thread running ExecuteCheckHelper for c *)
| SchATaskUpdate (c : nat) (v : Z)   (* ExecuteCheck: UpdateNextCheck() -> next_check := v *)
| SchATaskTas (c : nat)              (* ObjectLock: if m_CheckRunning return; m_CheckRunning = true *)
| SchATaskResult (c : nat) (v : Z)   (* check command done or threw; ProcessCheckResult: m_CheckRunning = false, next_check := v *)
| SchATaskLaunch (c : nat)           (* ASYNCHRONOUS check command (PluginCheckTask::ScriptFunc): the plugin process is spawned,
                                        m_PendingChecks++ (the task's own increment), Execute() and ExecuteCheck() return -
                                        m_CheckRunning STAYS SET, the result is outstanding *)
| SchAFlightDone (c : nat)           (* the process ended; callback on another thread (ProcessFinishedHandler): m_PendingChecks-- *)
| SchAFlightResult (c : nat) (v : Z) (* ... then ProcessCheckResult: m_CheckRunning = false, next_check := v *)
| SchATaskRemote (c : nat) (ov : option Z)
                                     (* command_endpoint branch of ExecuteCheck: macros collected; connected: message sent,
                                        SetNextCheck(now + timeout + 30) (ov = Some v); unconnected: UNKNOWN result processed
                                        (ov = Some v) or nothing during the cold-start window (ov = None); in every case
                                        m_CheckRunning = false BEFORE ExecuteCheck returns *)
| SchATaskDecrease (c : nat)         (* m_StatsMutex: m_PendingChecks-- *)
| SchATaskFinish (c : nat)           (* m_Mutex: if in pending: erase, re-insert into idle if IsActive() *)
(* everybody else *)
| SchASetActive (c : nat) (b : bool)   (* active flag changes; OnActiveChanged will be emitted *)
| SchASetPaused (c : nat) (b : bool)   (* SetAuthority -> paused flag changes; OnPausedChanged will be emitted *)
| SchAObjectHandler (c : nat)          (* m_Mutex: CheckerComponent::ObjectHandler *)
| SchANextCheckChanged (c : nat)       (* m_Mutex: CheckerComponent::NextCheckChangedHandler *)
| SchASetNext (c : nat) (v : Z)        (* SetNextCheck by anybody (API, UpdateNextCheck after a skip, parents/children) *)
| SchASetForce (c : nat) (b : bool)
| SchASetEnv (c : nat) (en per re : bool)
| SchATick (d : Z)
| SchASnap (cs : list nat).            (* an observer takes m_Mutex and reads both sets; no state change *)

Definition sch_exec (s : sch_state) (a : sch_act) : option sch_state :=
  let K := sch_cks s in
  match a with
  | SchAPick c =>
      match sch_pc s, sch_lookup c (sch_idle s) with
      | SchSIdle, Some k =>
          if sch_is_min k (sch_idle s) && (k <=? sch_clock s) && (sch_pcount s <? sch_max s)
          then Some (sch_s_sets s (sch_erase c (sch_idle s)) (sch_pend s) (SchSHold c (sch_force (K c))))
          else None
      | _, _ => None
      end
  | SchASkip =>
      match sch_pc s with
      | SchSHold c f =>
          if sch_wants f (K c) then None
          else Some (sch_s_sets s (sch_insert c (sch_next (K c)) (sch_idle s)) (sch_pend s) SchSIdle)
      | _ => None
      end
  | SchADispatch =>
      match sch_pc s with
      | SchSHold c f =>
          if sch_wants f (K c)
          then Some (sch_s_sets s (sch_idle s) (sch_insert c (sch_next (K c)) (sch_pend s)) (SchSPostA c f))
          else None
      | _ => None
      end
  | SchAClearForce =>
      match sch_pc s with
      | SchSPostA c f =>
          Some (sch_s_pc (sch_s_cks s (sch_upd K c (sch_k_force (K c) (if f then false else sch_force (K c))))) (SchSPostB c))
      | _ => None
      end
  | SchAIncrease =>
      match sch_pc s with
      | SchSPostB c => Some (sch_s_pc (sch_s_tasks s (sch_tasks s) (sch_pcount s + 1)) (SchSPostC c))
      | _ => None
      end
  | SchAEnqueue =>
      match sch_pc s with
      | SchSPostC c => Some (sch_s_pc (sch_s_tasks s ((c, SchTQueued) :: sch_tasks s) (sch_pcount s)) SchSIdle)
      | _ => None
      end
  | SchATaskUpdate c v =>
      if sch_has (c, SchTQueued) (sch_tasks s)
      then Some (sch_s_tasks (sch_s_cks s (sch_upd K c (sch_k_next (K c) v)))
                             ((c, SchTUpdated) :: sch_rem1 (c, SchTQueued) (sch_tasks s)) (sch_pcount s))
      else None
  | SchATaskTas c =>
      if sch_has (c, SchTUpdated) (sch_tasks s)
      then if sch_running (K c)
           then Some (sch_s_tasks s ((c, SchTReturned) :: sch_rem1 (c, SchTUpdated) (sch_tasks s)) (sch_pcount s))
           else Some (sch_s_tasks (sch_s_cks s (sch_upd K c (sch_k_running (K c) true)))
                                  ((c, SchTRunning) :: sch_rem1 (c, SchTUpdated) (sch_tasks s)) (sch_pcount s))
      else None
  | SchATaskResult c v =>
      if sch_has (c, SchTRunning) (sch_tasks s)
      then Some (sch_s_tasks (sch_s_cks s (sch_upd K c (sch_k_next (sch_k_running (K c) false) v)))
                             ((c, SchTReturned) :: sch_rem1 (c, SchTRunning) (sch_tasks s)) (sch_pcount s))
      else None
  | SchATaskLaunch c =>
      if sch_has (c, SchTRunning) (sch_tasks s)
      then Some (sch_s_fl (sch_s_tasks s ((c, SchTReturned) :: sch_rem1 (c, SchTRunning) (sch_tasks s)) (sch_pcount s + 1))
                          (c :: sch_flights s) (sch_fdone s))
      else None
  | SchAFlightDone c =>
      if sch_fmem c (sch_flights s)
      then Some (sch_s_fl (sch_s_tasks s (sch_tasks s) (sch_pcount s - 1)) (sch_frem1 c (sch_flights s)) (c :: sch_fdone s))
      else None
  | SchAFlightResult c v =>
      if sch_fmem c (sch_fdone s)
      then Some (sch_s_fl (sch_s_cks s (sch_upd K c (sch_k_next (sch_k_running (K c) false) v)))
                          (sch_flights s) (sch_frem1 c (sch_fdone s)))
      else None
  | SchATaskRemote c ov =>
      if sch_has (c, SchTRunning) (sch_tasks s)
      then Some (sch_s_tasks (sch_s_cks s (sch_upd K c (sch_k_next (sch_k_running (K c) false)
                                                          (match ov with Some v => v | None => sch_next (K c) end))))
                             ((c, SchTReturned) :: sch_rem1 (c, SchTRunning) (sch_tasks s)) (sch_pcount s))
      else None
  | SchATaskDecrease c =>
      if sch_has (c, SchTReturned) (sch_tasks s)
      then Some (sch_s_tasks s ((c, SchTDecr) :: sch_rem1 (c, SchTReturned) (sch_tasks s)) (sch_pcount s - 1))
      else None
  | SchATaskFinish c =>
      if sch_has (c, SchTDecr) (sch_tasks s) && sch_unlocked s
      then let s1 := sch_s_tasks s (sch_rem1 (c, SchTDecr) (sch_tasks s)) (sch_pcount s) in
           if sch_mem c (sch_pend s)
           then Some (sch_s_sets s1
                        (if sch_active (K c) then sch_insert c (sch_next (K c)) (sch_idle s) else sch_idle s)
                        (sch_erase c (sch_pend s)) (sch_pc s))
           else Some s1
      else None
  | SchASetActive c b => Some (sch_s_cks s (sch_upd K c (sch_k_active (K c) b)))
  | SchASetPaused c b => Some (sch_s_cks s (sch_upd K c (sch_k_paused (K c) b)))
  | SchAObjectHandler c =>
      if sch_unlocked s
      then let s1 := sch_s_cks s (sch_upd K c (sch_k_handled (K c))) in
           if sch_sched (K c)
           then if sch_mem c (sch_pend s) then Some s1
                else Some (sch_s_sets s1 (sch_insert c (sch_next (K c)) (sch_idle s)) (sch_pend s) (sch_pc s))
           else Some (sch_s_sets s1 (sch_erase c (sch_idle s)) (sch_erase c (sch_pend s)) (sch_pc s))
      else None
  | SchANextCheckChanged c =>
      if sch_unlocked s
      then if sch_mem c (sch_idle s)
           then Some (sch_s_sets s (sch_insert c (sch_next (K c)) (sch_erase c (sch_idle s))) (sch_pend s) (sch_pc s))
           else Some s
      else None
  | SchASetNext c v => Some (sch_s_cks s (sch_upd K c (sch_k_next (K c) v)))
  | SchASetForce c b => Some (sch_s_cks s (sch_upd K c (sch_k_force (K c) b)))
  | SchASetEnv c en per re => Some (sch_s_cks s (sch_upd K c (sch_k_env (K c) en per re)))
  | SchATick d => if 0 <=? d then Some (sch_s_clock s (sch_clock s + d)) else None
  | SchASnap _ => if sch_unlocked s then Some s else None
  end.

(* run a schedule (any interleaving = any list of actions); None as soon as an action is not enabled *)
Fixpoint sch_run (s : sch_state) (l : list sch_act) : option sch_state :=
  match l with
  | [] => Some s
  | a :: r => match sch_exec s a with Some s' => sch_run s' r | None => None end
  end.

(* initial states: component just started, nothing registered yet; every checkable enters through
   SetActive/SetPaused + ObjectHandler like in ConfigObject::Activate / ApiListener::UpdateObjectAuthority *)
Definition sch_init_ck (zone : bool) (next : Z) : sch_ck :=
  {| sch_next := next; sch_active := false; sch_paused := true; sch_zone := zone; sch_force := false;
     sch_enable := true; sch_period := true; sch_reach := true; sch_running := false; sch_owed := 0 |}.
Definition sch_init (zone : nat -> bool) (next : nat -> Z) (max : Z) : sch_state :=
  {| sch_cks := fun c => sch_init_ck (zone c) (next c); sch_idle := []; sch_pend := []; sch_pcount := 0;
     sch_tasks := []; sch_flights := []; sch_fdone := []; sch_pc := SchSIdle; sch_clock := 0; sch_max := max |}.

(* ---- observations (what the harness records) ----
   checkable ids are Z in events (binary: the oracle has to be fast on hundreds of checkables) *)
Inductive sch_ev :=
| SchEvStart (c : Z)         (* the check command of c starts executing *)
| SchEvEnd (c : Z)           (* ... has finished (or thrown) *)
| SchEvSnap (idle pend : list Z) (quiet : list (Z * bool)).
   (* membership of both sets read under m_Mutex; for every listed checkable on which no flag
      change is in flight (handler not owed): is it schedulable (active, unpaused, same zone) *)

Definition sch_zid (c : nat) : Z := Z.of_nat c.

Definition sch_observe (s : sch_state) (a : sch_act) : list sch_ev :=
  match a with
  | SchATaskTas c => if sch_running (sch_cks s c) then [] else [SchEvStart (sch_zid c)]
  | SchATaskResult c _ => [SchEvEnd (sch_zid c)]
  | SchATaskRemote c _ => [SchEvEnd (sch_zid c)]
  | SchAFlightDone c => [SchEvEnd (sch_zid c)]
  | SchASnap cs =>
      [SchEvSnap (map (fun p => sch_zid (fst p)) (sch_idle s)) (map (fun p => sch_zid (fst p)) (sch_pend s))
         (map (fun c => (sch_zid c, sch_sched (sch_cks s c)))
              (filter (fun c => Nat.eqb (sch_owed (sch_cks s c)) 0) cs))]
  | _ => []
  end.

Fixpoint sch_trace (s : sch_state) (l : list sch_act) : list sch_ev :=
  match l with
  | [] => []
  | a :: r => match sch_exec s a with Some s' => sch_observe s a ++ sch_trace s' r | None => [] end
  end.

(* ---- the executable oracle run over IMPLEMENTATION traces ----
   returns the index of the first event that no execution of the model can produce, with a code:
   1 = second start while running (single flight), 2 = more than max running, 3 = end without start,
   4 = duplicate in idle, 5 = duplicate in pending, 6 = idle and pending overlap,
   7 = schedulable checkable in neither set (dropped), 8 = unschedulable checkable still in a set *)
Definition sch_memb (c : Z) (l : list Z) : bool := existsb (Z.eqb c) l.
Fixpoint sch_nodupb (l : list Z) : bool :=
  match l with [] => true | x :: r => negb (sch_memb x r) && sch_nodupb r end.
Fixpoint sch_remove1 (c : Z) (l : list Z) : list Z :=
  match l with [] => [] | x :: r => if Z.eqb c x then r else x :: sch_remove1 c r end.

Definition sch_snap_code (idle pend : list Z) (quiet : list (Z * bool)) : Z :=
  if negb (sch_nodupb idle) then 4
  else if negb (sch_nodupb pend) then 5
  else if existsb (fun c => sch_memb c pend) idle then 6
  else if existsb (fun q => snd q && negb (sch_memb (fst q) idle || sch_memb (fst q) pend)) quiet then 7
  else if existsb (fun q => negb (snd q) && (sch_memb (fst q) idle || sch_memb (fst q) pend)) quiet then 8
  else 0.

Fixpoint sch_oracle_from (max : Z) (running : list Z) (idx : Z) (t : list sch_ev) : option (Z * Z) :=
  match t with
  | [] => None
  | SchEvStart c :: r =>
      if sch_memb c running then Some (idx, 1)
      else if max <? Z.of_nat (S (length running)) then Some (idx, 2)
      else sch_oracle_from max (c :: running) (idx + 1) r
  | SchEvEnd c :: r =>
      if sch_memb c running then sch_oracle_from max (sch_remove1 c running) (idx + 1) r
      else Some (idx, 3)
  | SchEvSnap i p q :: r =>
      let code := sch_snap_code i p q in
      if code =? 0 then sch_oracle_from max running (idx + 1) r else Some (idx, code)
  end.

Definition sch_oracle (max : Z) (t : list sch_ev) : option (Z * Z) := sch_oracle_from max [] 0 t.

(* ---- forced checks: where force_next_check is cleared ----
   observable on the implementation: OnForceNextCheckChanged with the new value false (the scheduler consumed a force
   request) and the entry of ExecuteCheck (SetLastCheckStarted is its first statement).  In the code as modelled the
   clear sits between the insertion into the pending set and QueueAsyncCallback, so every clear is FOLLOWED by the
   entry of the ExecuteCheck it belongs to.  [sch_owe_from n c t] counts the clears of c in t that no later entry of c
   has matched; it must be 0 once the scheduler is outside PostB/PostC and no callback of c is waiting in the pool. *)
Inductive sch_fev :=
| SchFClear (c : Z)     (* force_next_check of c set to false *)
| SchFEnter (c : Z).    (* ExecuteCheck of c entered *)

Definition sch_fobserve (s : sch_state) (a : sch_act) : list sch_fev :=
  match a with
  | SchAClearForce => match sch_pc s with SchSPostA c true => [SchFClear (sch_zid c)] | _ => [] end
  | SchATaskUpdate c _ => [SchFEnter (sch_zid c)]
  | _ => []
  end.

Fixpoint sch_ftrace (s : sch_state) (l : list sch_act) : list sch_fev :=
  match l with
  | [] => []
  | a :: r => match sch_exec s a with Some s' => sch_fobserve s a ++ sch_ftrace s' r | None => [] end
  end.

Fixpoint sch_owe_from (n : nat) (c : Z) (t : list sch_fev) : nat :=
  match t with
  | [] => n
  | SchFClear c' :: r => sch_owe_from (if Z.eqb c' c then S n else n) c r
  | SchFEnter c' :: r => sch_owe_from (if Z.eqb c' c then pred n else n) c r
  end.

(* first checkable of cs with a clear that was never followed by its ExecuteCheck *)
Definition sch_force_oracle (cs : list Z) (t : list sch_fev) : option Z :=
  find (fun c => negb (Nat.eqb (sch_owe_from 0 c t) 0)) cs.
