(* C04 - Checkable::UpdateNextCheck (lib/icinga/checkable-check.cpp:52-81) over exact rationals.
   Times and intervals are seconds in Q; the scheduling offset is the integer Utility::Random() drew
   in the constructor.  fmod(x, y) for x >= 0, y > 0 is x - y * floor(x / y).  No proofs here. *)
From Coq Require Import QArith Qround ZArith Bool.
Local Open Scope Q_scope.

Definition sch_qfmod (x y : Q) : Q := x - y * inject_Z (Qfloor (x / y)).
Definition sch_qmin (a b : Q) : Q := if Qle_bool a b then a else b.
Definition sch_qlt_bool (a b : Q) : bool := negb (Qle_bool b a).

(* interval = retry_interval in a soft state that has a check result, else check_interval *)
Definition sch_interval (soft has_cr : bool) (ci ri : Q) : Q := if soft && has_cr then ri else ci.

Definition sch_adj (now interval : Q) (offset : Z) : Q :=
  let adj1 := if sch_qlt_bool 1 interval
              then sch_qfmod (now * 100 + inject_Z offset) (interval * 100) / 100
              else 0 in
  if Qeq_bool adj1 0 then adj1
  else sch_qmin ((1 # 2) + sch_qfmod (inject_Z offset) (interval * 5) / 100) adj1.

Definition sch_update_next_check (now interval : Q) (offset : Z) : Q :=
  now - sch_adj now interval offset + interval.

(* (next - now) in units of 0.1 ms, rounded down: what the correspondence run prints *)
Definition sch_next_units (now interval : Q) (offset : Z) : Z :=
  Qfloor ((sch_update_next_check now interval offset - now) * 10000).

(* ProcessCheckResult calls UpdateNextCheck AFTER it has stored the new state type and the result
   (checkable-check.cpp: SetStateType 219-241, SetLastCheckResult 347/351, UpdateNextCheck 376): the
   interval after an execution is the one of the POST-state, in which a result always exists - also
   for the very first result of a never-checked checkable. *)
Definition sch_interval_after (soft_after : bool) (ci ri : Q) : Q := sch_interval soft_after true ci ri.

Definition sch_next_units_after (now : Q) (soft_after : bool) (ci ri : Q) (offset : Z) : Z :=
  sch_next_units now (sch_interval_after soft_after ci ri) offset.
