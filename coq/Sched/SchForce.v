(* C04 - forced checks: a force request made at ANY moment stays registered until a task of the checkable reaches its
   test-and-set AFTER the request; where force_next_check is cleared matters (refutation for the late clear). *)
From Icv Require Import Base.Tac Sched.SchModel Sched.SchProofs.
Local Open Scope Z_scope.

(* the request is still registered: the flag is set, or the scheduler has consumed it and is about to queue the
   callback, or a callback of c is in the pool and has not yet reached the test-and-set of m_CheckRunning *)
Definition sch_force_pending (s : sch_state) (c : nat) : Prop :=
  sch_force (sch_cks s c) = true \/
  (match sch_pc s with SchSPostB c' | SchSPostC c' => c' = c | _ => False end) \/
  sch_has (c, SchTQueued) (sch_tasks s) = true \/ sch_has (c, SchTUpdated) (sch_tasks s) = true.

(* the two things that end a request: a test-and-set of c (it starts the command, or an execution is in flight at that
   moment), and somebody withdrawing the flag *)
Definition sch_consumes (c : nat) (a : sch_act) : bool :=
  match a with
  | SchATaskTas c' => Nat.eqb c' c
  | SchASetForce c' false => Nat.eqb c' c
  | _ => false
  end.

Lemma sch_has_cons x y l : sch_has x (y :: l) = sch_task_eqb x y || sch_has x l.
Proof. reflexivity. Qed.

Lemma sch_has_rem1_other x y l : sch_task_eqb x y = false -> sch_has x (sch_rem1 y l) = sch_has x l.
Proof.
  intros N. induction l as [|z l IH]; [reflexivity|]. cbn [sch_rem1]. destruct (sch_task_eqb y z) eqn:E.
  - apply sch_task_eqb_eq in E. subst z. rewrite sch_has_cons, N. reflexivity.
  - rewrite !sch_has_cons, IH. reflexivity.
Qed.

Lemma sch_force_pending_step s a s' c :
  sch_exec s a = Some s' -> sch_consumes c a = false -> sch_force_pending s c -> sch_force_pending s' c.
Proof.
  intros H NC P. unfold sch_force_pending in *.
  destruct a; sch_cases H; unfold sch_s_pc;
    cbn [sch_tasks sch_pc sch_cks sch_s_sets sch_s_cks sch_s_tasks sch_s_clock sch_s_fl sch_consumes] in *;
    try match goal with Hp : sch_pc _ = _ |- _ => rewrite ?Hp in P end;
    try exact P.
  all: rewrite ?sch_has_cons; unfold sch_upd.
  all: repeat match goal with
    | |- context [sch_has (?x, ?p) (sch_rem1 (?c', ?q) ?l)] =>
        lazymatch p with
        | q => fail
        | _ => rewrite (sch_has_rem1_other (x, p) (c', q) l) by (unfold sch_task_eqb; cbn [fst snd sch_tpc_eqb]; apply andb_false_r)
        end
    end.
  all: unfold sch_task_eqb; cbn [fst snd sch_tpc_eqb]; rewrite ?andb_false_r, ?andb_true_r; cbn [orb].
  all: sch_eqb; cbn [sch_force sch_k_next sch_k_active sch_k_paused sch_k_force sch_k_env sch_k_running sch_k_handled orb] in *;
       try discriminate NC; try tauto.
  all: try (destruct P as [P|[P|[P|P]]]; try tauto; try congruence).
  all: try (rewrite sch_has_rem1_other by (unfold sch_task_eqb; cbn [fst snd]; apply andb_false_iff; left; apply Nat.eqb_neq; assumption);
            tauto).
  all: try (rewrite sch_has_rem1_other by (unfold sch_task_eqb; cbn [fst snd]; apply andb_false_iff; left; apply Nat.eqb_neq; congruence);
            tauto).
  match goal with |- ?b = true \/ _ => destruct b; [left; reflexivity|] end. cbn in NC. discriminate.
Qed.

Lemma sch_force_pending_run l2 : forall s s' c,
  sch_run s l2 = Some s' -> forallb (fun a => negb (sch_consumes c a)) l2 = true ->
  sch_force_pending s c -> sch_force_pending s' c.
Proof.
  induction l2 as [|a l IH]; intros s s' c H NC P; cbn in H.
  - inv H. exact P.
  - destruct (sch_exec s a) as [s1|] eqn:E; [|discriminate]. cbn [forallb] in NC. apply andb_true_iff in NC.
    destruct NC as [N1 N2]. apply negb_true_iff in N1.
    apply (IH s1 s' c H N2). eapply sch_force_pending_step; eassumption.
Qed.

Lemma sch_run_app l1 : forall l2 s s', sch_run s (l1 ++ l2) = Some s' ->
  exists s1, sch_run s l1 = Some s1 /\ sch_run s1 l2 = Some s'.
Proof.
  induction l1 as [|a l IH]; intros l2 s s' H; cbn in *; [eauto|].
  destruct (sch_exec s a) as [s1|]; [|discriminate]. apply IH. exact H.
Qed.

(* a force request made in ANY state s0 (whatever is running, queued, held by the scheduler - also while a forced
   check of the same checkable executes) stays registered as long as no task of c has reached its test-and-set after
   the request and nobody has withdrawn the flag *)
Lemma sch_thm_forced_request s0 c l2 s :
  sch_run s0 (SchASetForce c true :: l2) = Some s ->
  forallb (fun a => negb (sch_consumes c a)) l2 = true ->
  sch_force_pending s c.
Proof.
  intros H NC. cbn [sch_run] in H. cbn [sch_exec] in H.
  eapply sch_force_pending_run; [exact H|exact NC|]. left. cbn [sch_cks sch_s_cks]. rewrite sch_upd_same. reflexivity.
Qed.

(* what the test-and-set that ends the request does (reachable states): it starts the command - one more execution that
   begins after the request - or, THE exception, exactly one execution of c is in flight at that very moment *)
Lemma sch_thm_forced_tas zone next max l s c s' :
  0 <= max -> sch_run (sch_init zone next max) l = Some s -> sch_exec s (SchATaskTas c) = Some s' ->
  (sch_running (sch_cks s c) = false /\ sch_observe s (SchATaskTas c) = [SchEvStart (sch_zid c)] /\
     sch_has (c, SchTRunning) (sch_tasks s') = true) \/
  (sch_running (sch_cks s c) = true /\ sch_observe s (SchATaskTas c) = [] /\ sch_inflight s c = 1%nat /\ sch_inflight s' c = 1%nat).
Proof.
  intros Hm H E. pose proof (sch_thm_flag_exact zone next max l s c Hm H) as F.
  assert (H' : sch_run (sch_init zone next max) (l ++ [SchATaskTas c]) = Some s').
  { clear F. revert H. generalize (sch_init zone next max). induction l as [|a l IH]; intros s0 H; cbn in *.
    - inv H. rewrite E. reflexivity.
    - destruct (sch_exec s0 a); [apply IH; exact H|discriminate]. }
  pose proof (sch_thm_flag_exact zone next max _ s' c Hm H') as F'.
  unfold sch_observe. destruct (sch_running (sch_cks s c)) eqn:R.
  - right. repeat split; try assumption. sch_cases E; [|congruence]. rewrite F'. cbn [sch_cks sch_s_tasks]. match goal with Hq : sch_running _ = true |- _ => rewrite Hq end. reflexivity.
  - left. repeat split. sch_cases E; [congruence|]. cbn [sch_tasks sch_s_tasks sch_has existsb].
    unfold sch_task_eqb. cbn [fst snd sch_tpc_eqb]. rewrite Nat.eqb_refl. reflexivity.
Qed.

(* ---- the variant with the clear AFTER the execution ----
   [SchAClearForce] only remembers that the dispatch was forced; the pool thread clears force_next_check after
   ExecuteCheck() has returned (modelled at its next step, the count-down).  Second component of the state: forced
   dispatches whose ExecuteCheckHelper has not yet got there. *)
Definition sch_late_state := (sch_state * list nat)%type.

Definition sch_exec_late (sf : sch_late_state) (a : sch_act) : option sch_late_state :=
  let (s, F) := sf in
  match a with
  | SchAClearForce =>
      match sch_pc s with
      | SchSPostA c f => Some (sch_s_pc s (SchSPostB c), if f then c :: F else F)
      | _ => None
      end
  | SchATaskDecrease c =>
      match sch_exec s a with
      | Some s' => if sch_fmem c F
                   then Some (sch_s_cks s' (sch_upd (sch_cks s') c (sch_k_force (sch_cks s' c) false)), sch_frem1 c F)
                   else Some (s', F)
      | None => None
      end
  | _ => match sch_exec s a with Some s' => Some (s', F) | None => None end
  end.

Fixpoint sch_run_late (sf : sch_late_state) (l : list sch_act) : option sch_late_state :=
  match l with
  | [] => Some sf
  | a :: r => match sch_exec_late sf a with Some sf' => sch_run_late sf' r | None => None end
  end.

Definition sch_force_pendingb (s : sch_state) (c : nat) : bool :=
  sch_force (sch_cks s c) ||
  (match sch_pc s with SchSPostB c' | SchSPostC c' => Nat.eqb c' c | _ => false end) ||
  sch_has (c, SchTQueued) (sch_tasks s) || sch_has (c, SchTUpdated) (sch_tasks s).

Lemma sch_force_pendingb_spec s c : sch_force_pendingb s c = true <-> sch_force_pending s c.
Proof.
  unfold sch_force_pendingb, sch_force_pending. rewrite !orb_true_iff.
  destruct (sch_pc s); try rewrite Nat.eqb_eq; intuition congruence.
Qed.

(* checkable 7 only runs when forced (active checks disabled).  Request 1, the forced check starts; request 2 arrives
   while it executes; the check ends, its helper clears the flag: request 2 is gone although no task of 7 has reached a
   test-and-set after it.  At the next pop the checkable is not forced: it is skipped, it cannot be dispatched. *)
Definition sch_late_prefix : list sch_act :=
  [SchASetActive 7 true; SchAObjectHandler 7; SchASetPaused 7 false; SchAObjectHandler 7; SchASetEnv 7 false true true;
   SchASetForce 7 true; SchASetNext 7 0; SchANextCheckChanged 7;
   SchATick 5; SchAPick 7; SchADispatch; SchAClearForce; SchAIncrease; SchAEnqueue;
   SchATaskUpdate 7 100; SchATaskTas 7].
Definition sch_late_suffix : list sch_act :=
  [SchASetNext 7 5; SchANextCheckChanged 7; SchATaskResult 7 105; SchATaskDecrease 7; SchATaskFinish 7].

Lemma sch_thm_forced_late_clear_refuted :
  forallb (fun a => negb (sch_consumes 7 a)) sch_late_suffix = true /\
  match sch_run_late (sch_init (fun _ => true) (fun _ => 3) 2, []) (sch_late_prefix ++ SchASetForce 7 true :: sch_late_suffix) with
  | Some (s, _) =>
      sch_force_pendingb s 7 = false /\ sch_running (sch_cks s 7) = false /\ sch_tasks s = [] /\ sch_mem 7 (sch_idle s) = true /\
      match sch_run_late (s, []) [SchATick 200; SchAPick 7] with
      | Some (s2, _) => sch_pc s2 = SchSHold 7 false /\ sch_exec s2 SchADispatch = None /\
                        (exists s3, sch_exec s2 SchASkip = Some s3 /\ sch_mem 7 (sch_idle s3) = true /\ sch_tasks s3 = [])
      | None => False
      end
  | None => False
  end.
Proof. vm_compute. repeat split. eexists. repeat split. Qed.

(* the same schedule in the model of the code as it is: request 2 stays registered, the next pop is forced and cannot be skipped *)
Lemma sch_thm_forced_early_clear_same_schedule :
  match sch_run (sch_init (fun _ => true) (fun _ => 3) 2) (sch_late_prefix ++ SchASetForce 7 true :: sch_late_suffix) with
  | Some s =>
      sch_force_pendingb s 7 = true /\
      match sch_run s [SchATick 200; SchAPick 7] with
      | Some s2 => sch_pc s2 = SchSHold 7 true /\ sch_exec s2 SchASkip = None /\
                   (exists s3, sch_exec s2 SchADispatch = Some s3 /\ sch_mem 7 (sch_pend s3) = true)
      | None => False
      end
  | None => False
  end.
Proof. vm_compute. repeat split. eexists. repeat split. Qed.

(* ---- the clear is followed by the ExecuteCheck it belongs to (oracle over observable events) ---- *)
Definition sch_fbound (s : sch_state) (c : nat) : nat :=
  ((match sch_pc s with SchSPostB c' | SchSPostC c' => if Nat.eqb c' c then 1 else 0 | _ => 0 end) +
   sch_cnt (c, SchTQueued) (sch_tasks s))%nat.

Lemma sch_cnt_rem1_other x y l : sch_task_eqb x y = false -> sch_cnt x (sch_rem1 y l) = sch_cnt x l.
Proof.
  intros N. induction l as [|z l IH]; [reflexivity|]. cbn [sch_rem1]. destruct (sch_task_eqb y z) eqn:E.
  - apply sch_task_eqb_eq in E. subst z. cbn [sch_cnt]. rewrite N. reflexivity.
  - cbn [sch_cnt]. rewrite IH. reflexivity.
Qed.

Lemma sch_zid_eqb a b : Z.eqb (sch_zid a) (sch_zid b) = Nat.eqb a b.
Proof.
  unfold sch_zid. destruct (Nat.eqb_spec a b) as [E|E]; [subst; apply Z.eqb_refl|]. apply Z.eqb_neq. lia.
Qed.

Lemma sch_owe_step s a s1 c n :
  sch_exec s a = Some s1 -> (n <= sch_fbound s c)%nat ->
  exists n', (n' <= sch_fbound s1 c)%nat /\ forall r, sch_owe_from n (sch_zid c) (sch_fobserve s a ++ r) = sch_owe_from n' (sch_zid c) r.
Proof.
  intros H B. unfold sch_fbound in *.
  destruct a; sch_cases H; unfold sch_s_pc; cbn [sch_fobserve app];
    cbn [sch_tasks sch_pc sch_cks sch_s_sets sch_s_cks sch_s_tasks sch_s_clock sch_s_fl] in *;
    try match goal with Hp : sch_pc _ = _ |- _ => rewrite ?Hp in B; rewrite ?Hp end;
    try match goal with Hh : sch_has _ _ && _ = true |- _ => apply andb_true_iff in Hh; destruct Hh as [Hh _] end;
    try match goal with Hh : sch_has ?y ?l = true |- _ => pose proof (sch_cnt_rem1 (c, SchTQueued) y l Hh) as HC end;
    cbn [sch_cnt app sch_owe_from] in *; unfold sch_task_eqb in *; cbn [fst snd sch_tpc_eqb] in *;
    rewrite ?andb_false_r, ?andb_true_r, ?sch_zid_eqb in *;
    try (exists n; split; [lia|reflexivity]).
  - (* ClearForce *)
    destruct forced; cbn [app sch_owe_from]; rewrite ?sch_zid_eqb; sch_eqb;
      eexists; (split; [|reflexivity]); lia.
  - (* Enqueue *) exists n. split; [rewrite Nat.eqb_sym; sch_eqb; lia|reflexivity].
  - (* TaskUpdate: the entry *)
    rewrite (Nat.eqb_sym c c0) in HC.
    destruct (sch_pc s); sch_eqb; eexists; (split; [|reflexivity]); lia.
Qed.

Lemma sch_owe_model l : forall s s' c n,
  sch_run s l = Some s' -> (n <= sch_fbound s c)%nat ->
  (sch_owe_from n (sch_zid c) (sch_ftrace s l) <= sch_fbound s' c)%nat.
Proof.
  induction l as [|a l IH]; intros s s' c n H B; cbn in H; cbn [sch_ftrace sch_owe_from].
  - inv H. exact B.
  - destruct (sch_exec s a) as [s1|] eqn:E; [|discriminate].
    destruct (sch_owe_step s a s1 c n E B) as (n' & B' & R). rewrite R. apply (IH s1 s' c n' H B').
Qed.

(* complete runs: scheduler outside the window between clear and QueueAsyncCallback, no callback waiting in the pool *)
Definition sch_quiescent (s : sch_state) : Prop :=
  (match sch_pc s with SchSPostB _ | SchSPostC _ => False | _ => True end) /\
  forall c, sch_cnt (c, SchTQueued) (sch_tasks s) = 0%nat.

Theorem sch_force_oracle_accepts_model zone next max l s cs :
  sch_run (sch_init zone next max) l = Some s -> sch_quiescent s ->
  sch_force_oracle (map sch_zid cs) (sch_ftrace (sch_init zone next max) l) = None.
Proof.
  intros H (Q1 & Q2). unfold sch_force_oracle.
  destruct (find _ _) as [z|] eqn:F; [|reflexivity]. exfalso.
  apply find_some in F. destruct F as [Hin Hz]. apply in_map_iff in Hin. destruct Hin as (c & <- & _).
  assert (B0 : (0 <= sch_fbound (sch_init zone next max) c)%nat) by lia.
  pose proof (sch_owe_model l _ _ c 0%nat H B0) as O. unfold sch_fbound in O. rewrite (Q2 c) in O.
  destruct (sch_pc s); try contradiction; cbn in O;
    (assert (E : sch_owe_from 0 (sch_zid c) (sch_ftrace (sch_init zone next max) l) = 0%nat) by lia; rewrite E in Hz; discriminate).
Qed.
