(* C04 - invariants of the scheduler model over ALL interleavings (induction over arbitrary
   action lists from the initial state). *)
From Icv Require Import Base.Tac Sched.SchModel.
From Coq Require Import Permutation.
Local Open Scope Z_scope.

(* ------------------------------------------------------------------ containers *)
Lemma sch_mem_in c l : sch_mem c l = true <-> In c (map fst l).
Proof.
  unfold sch_mem. rewrite existsb_exists. split.
  - intros (p & Hp & He). apply Nat.eqb_eq in He. subst. apply in_map. assumption.
  - intros H. apply in_map_iff in H. destruct H as (p & He & Hp). exists p. split; [assumption|].
    apply Nat.eqb_eq. assumption.
Qed.

Lemma sch_mem_cons c p l : sch_mem c (p :: l) = Nat.eqb (fst p) c || sch_mem c l.
Proof. reflexivity. Qed.

Lemma sch_mem_erase c c' l : sch_mem c (sch_erase c' l) = sch_mem c l && negb (Nat.eqb c c').
Proof.
  induction l as [|p l IH]; [reflexivity|]. cbn [sch_erase filter]. fold (sch_erase c' l).
  rewrite sch_mem_cons.
  destruct (Nat.eqb_spec (fst p) c') as [E|E]; cbn [negb].
  - rewrite IH. destruct (Nat.eqb_spec (fst p) c) as [F|F], (Nat.eqb_spec c c') as [G|G]; cbn; try congruence;
      rewrite ?andb_false_r, ?andb_true_r; reflexivity.
  - rewrite sch_mem_cons, IH. destruct (Nat.eqb_spec (fst p) c) as [F|F], (Nat.eqb_spec c c') as [G|G]; cbn; try congruence;
      rewrite ?andb_false_r, ?andb_true_r; reflexivity.
Qed.

Lemma sch_mem_insert c c' k l : sch_mem c (sch_insert c' k l) = sch_mem c l || Nat.eqb c c'.
Proof.
  unfold sch_insert. destruct (sch_mem c' l) eqn:E.
  - destruct (Nat.eqb_spec c c'); subst; [rewrite E; reflexivity|rewrite orb_false_r; reflexivity].
  - unfold sch_mem at 1. cbn [existsb fst]. fold (sch_mem c l). rewrite Nat.eqb_sym. apply orb_comm.
Qed.

Lemma sch_nodup_erase c l : NoDup (map fst l) -> NoDup (map fst (sch_erase c l)).
Proof.
  induction l as [|p l IH]; intros H; [constructor|]. cbn in H. inv H.
  cbn [sch_erase filter]. destruct (negb (fst p =? c)%nat).
  - cbn [map]. constructor; [|apply IH; assumption]. intros Hin. apply H2.
    apply sch_mem_in in Hin. fold (sch_erase c l) in Hin. rewrite sch_mem_erase in Hin.
    apply andb_true_iff in Hin. apply sch_mem_in. tauto.
  - apply IH. assumption.
Qed.

Lemma sch_nodup_insert c k l : NoDup (map fst l) -> NoDup (map fst (sch_insert c k l)).
Proof.
  intros H. unfold sch_insert. destruct (sch_mem c l) eqn:E; [assumption|].
  cbn [map fst]. constructor; [|assumption]. intros Hin. apply sch_mem_in in Hin. congruence.
Qed.

Lemma sch_lookup_mem c l k : sch_lookup c l = Some k -> sch_mem c l = true.
Proof.
  unfold sch_lookup. destruct (find _ l) eqn:F; [|discriminate]. intros _.
  apply find_some in F. destruct F as [Hin He]. unfold sch_mem. apply existsb_exists. eauto.
Qed.

(* ------------------------------------------------------------------ task multiset *)
Lemma sch_tpc_eqb_eq a b : sch_tpc_eqb a b = true <-> a = b.
Proof. destruct a, b; cbn; split; congruence. Qed.

Lemma sch_task_eqb_eq a b : sch_task_eqb a b = true <-> a = b.
Proof.
  destruct a as [c p], b as [c' p']. unfold sch_task_eqb. cbn [fst snd]. rewrite andb_true_iff, Nat.eqb_eq, sch_tpc_eqb_eq.
  split; [intros [? ?]; subst; reflexivity|intros H; inv H; auto].
Qed.

Lemma sch_cnt_rem1 x y l : sch_has y l = true ->
  sch_cnt x l = (sch_cnt x (sch_rem1 y l) + (if sch_task_eqb x y then 1 else 0))%nat.
Proof.
  induction l as [|z l IH]; [discriminate|]. cbn [sch_has existsb sch_rem1 sch_cnt]. intros H.
  destruct (sch_task_eqb y z) eqn:E.
  - apply sch_task_eqb_eq in E. subst z. lia.
  - cbn [orb] in H. cbn [sch_cnt]. rewrite (IH H). lia.
Qed.

Lemma sch_filter_rem1 (f : nat * sch_tpc -> bool) y l : sch_has y l = true ->
  Permutation (filter f l) (if f y then y :: filter f (sch_rem1 y l) else filter f (sch_rem1 y l)).
Proof.
  induction l as [|z l IH]; [discriminate|]. cbn [sch_has existsb sch_rem1]. intros H.
  destruct (sch_task_eqb y z) eqn:E.
  - apply sch_task_eqb_eq in E. subst z. cbn [filter]. destruct (f y); apply Permutation_refl.
  - cbn [orb] in H. specialize (IH H). cbn [filter]. destruct (f z), (f y); try (apply perm_skip; assumption); try assumption.
    eapply perm_trans; [apply perm_skip; exact IH|apply perm_swap].
Qed.

Lemma sch_live_rem1 y l : sch_has y l = true ->
  sch_live l = (sch_live (sch_rem1 y l) + (if sch_is_live y then 1 else 0))%nat.
Proof.
  intros H. unfold sch_live. rewrite (Permutation_length (sch_filter_rem1 sch_is_live y l H)).
  destruct (sch_is_live y); cbn [length]; lia.
Qed.

Lemma sch_runlist_rem1 y l : sch_has y l = true ->
  Permutation (sch_runlist l) (if sch_is_run y then fst y :: sch_runlist (sch_rem1 y l) else sch_runlist (sch_rem1 y l)).
Proof.
  intros H. unfold sch_runlist. eapply perm_trans; [apply Permutation_map; apply (sch_filter_rem1 sch_is_run y l H)|].
  destruct (sch_is_run y); apply Permutation_refl.
Qed.

Lemma sch_cnt_runlist c l : sch_cnt (c, SchTRunning) l = count_occ Nat.eq_dec (sch_runlist l) c.
Proof.
  induction l as [|[c' p] l IH]; [reflexivity|]. cbn [sch_cnt]. unfold sch_runlist. cbn [filter].
  unfold sch_is_run at 1, sch_task_eqb. cbn [fst snd].
  destruct p; cbn [sch_tpc_eqb]; rewrite ?andb_false_r; cbn [map fst count_occ]; fold (sch_runlist l); try (rewrite IH; reflexivity).
  rewrite andb_true_r. destruct (Nat.eq_dec c' c), (Nat.eqb_spec c c'); subst; try congruence; rewrite IH; reflexivity.
Qed.

(* ------------------------------------------------------------------ the invariant *)
Definition sch_held (s : sch_state) (c : nat) : bool :=
  match sch_pc s with SchSHold c' _ => Nat.eqb c' c | _ => false end.

(* the sets *)
Definition sch_invA (s : sch_state) : Prop :=
  NoDup (map fst (sch_idle s)) /\ NoDup (map fst (sch_pend s)) /\
  (forall c, sch_mem c (sch_idle s) && sch_mem c (sch_pend s) = false) /\
  (forall c, sch_held s c = true -> sch_mem c (sch_idle s) || sch_mem c (sch_pend s) = false) /\
  (forall c, sch_owed (sch_cks s c) = 0%nat ->
     sch_mem c (sch_idle s) || sch_mem c (sch_pend s) || sch_held s c = sch_sched (sch_cks s c)).

Definition sch_pre (pc : sch_spc) : Z := match pc with SchSHold _ _ | SchSPostA _ _ | SchSPostB _ => 1 | _ => 0 end.
Definition sch_postc (pc : sch_spc) : Z := match pc with SchSPostC _ => 1 | _ => 0 end.

(* the counters and the single-flight flag *)
Definition sch_invB (s : sch_state) : Prop :=
  (forall c, (sch_cnt (c, SchTRunning) (sch_tasks s) + sch_fcnt c (sch_flights s) + sch_fcnt c (sch_fdone s))%nat
             = (if sch_running (sch_cks s c) then 1 else 0)%nat) /\
  sch_pcount s = Z.of_nat (sch_live (sch_tasks s)) + Z.of_nat (length (sch_flights s)) + sch_postc (sch_pc s) /\
  Z.of_nat (sch_slots (sch_tasks s) (sch_flights s)) + sch_pre (sch_pc s) + sch_postc (sch_pc s) <= sch_max s.

Ltac sch_cases H :=
  unfold sch_exec in H;
  repeat match type of H with
  | match ?x with _ => _ end = Some _ => destruct x eqn:?; try discriminate H
  | (if ?x then _ else _) = Some _ => destruct x eqn:?; try discriminate H
  | (let _ := _ in _) = Some _ => cbv zeta in H
  end;
  try (injection H as H; subst).

Ltac sch_eqb :=
  repeat match goal with
  | |- context [Nat.eqb ?a ?b] => destruct (Nat.eqb_spec a b); subst
  | H : context [Nat.eqb ?a ?b] |- _ => destruct (Nat.eqb_spec a b); subst
  end.

Lemma sch_upd_same f c x : sch_upd f c x c = x.
Proof. unfold sch_upd. rewrite Nat.eqb_refl. reflexivity. Qed.
Lemma sch_upd_other f c x c' : c' <> c -> sch_upd f c x c' = f c'.
Proof. unfold sch_upd. intros H. apply Nat.eqb_neq in H. rewrite H. reflexivity. Qed.

(* per-checkable view of invA: everything is a boolean function of five atoms *)
Definition sch_ckA (s : sch_state) (c : nat) : Prop :=
  sch_mem c (sch_idle s) && sch_mem c (sch_pend s) = false /\
  (sch_held s c = true -> sch_mem c (sch_idle s) || sch_mem c (sch_pend s) = false) /\
  (sch_owed (sch_cks s c) = 0%nat ->
     sch_mem c (sch_idle s) || sch_mem c (sch_pend s) || sch_held s c = sch_sched (sch_cks s c)).

Lemma sch_invA_ck s : sch_invA s <->
  NoDup (map fst (sch_idle s)) /\ NoDup (map fst (sch_pend s)) /\ forall c, sch_ckA s c.
Proof.
  unfold sch_invA, sch_ckA. split.
  - intros (A & B & C & D & E). repeat split; auto.
  - intros (A & B & C). repeat split; auto; intros c; destruct (C c) as (? & ? & ?); auto.
Qed.

Ltac sch_atoms :=
  repeat match goal with
  | H : context [sch_mem ?c ?l] |- _ => let b := fresh "m" in remember (sch_mem c l) as b eqn:?Hm; clear Hm
  | |- context [sch_mem ?c ?l] => let b := fresh "m" in remember (sch_mem c l) as b eqn:?Hm; clear Hm
  end.

Ltac sch_brute :=
  repeat match goal with
  | b : bool |- _ => destruct b
  end; cbn in *; try congruence; try tauto; try lia.

Lemma sch_sched_k_next k v : sch_sched (sch_k_next k v) = sch_sched k. Proof. reflexivity. Qed.
Lemma sch_sched_k_force k v : sch_sched (sch_k_force k v) = sch_sched k. Proof. reflexivity. Qed.
Lemma sch_sched_k_env k a b c : sch_sched (sch_k_env k a b c) = sch_sched k. Proof. reflexivity. Qed.
Lemma sch_sched_k_running k v : sch_sched (sch_k_running k v) = sch_sched k. Proof. reflexivity. Qed.
Lemma sch_sched_k_handled k : sch_sched (sch_k_handled k) = sch_sched k. Proof. reflexivity. Qed.
Lemma sch_sched_active k : sch_active k = false -> sch_sched k = false. Proof. unfold sch_sched. intros ->. reflexivity. Qed.
Lemma sch_sched_active' k : sch_sched k = true -> sch_active k = true.
Proof. unfold sch_sched. destruct (sch_active k); [reflexivity|discriminate]. Qed.

Lemma sch_unlocked_held s c : sch_unlocked s = true -> sch_held s c = false.
Proof. unfold sch_unlocked, sch_held. destruct (sch_pc s); congruence. Qed.

Lemma sch_held_pc s c : sch_held s c = match sch_pc s with SchSHold c' _ => Nat.eqb c' c | _ => false end.
Proof. reflexivity. Qed.

Ltac sch_dbool :=
  repeat match goal with
  | |- context [sch_mem ?a ?b] => destruct (sch_mem a b)
  | |- context [sch_sched ?a] => destruct (sch_sched a)
  | |- context [sch_held ?a ?b] => destruct (sch_held a b)
  end.

Ltac sch_fin :=
  cbn; intros;
  repeat match goal with H : ?a = ?a -> _ |- _ => specialize (H eq_refl) end;
  repeat split; intros; try congruence.

Lemma sch_invA_step s a s' : sch_exec s a = Some s' -> sch_invA s -> sch_invA s'.
Proof.
  intros H I. apply sch_invA_ck in I. destruct I as (ND1 & ND2 & CK). apply sch_invA_ck.
  destruct a; sch_cases H; cbn [sch_idle sch_pend sch_s_sets sch_s_cks sch_s_tasks sch_s_pc sch_s_clock sch_s_fl];
    (split; [|split]);
    try assumption; try (apply sch_nodup_erase; assumption); try (apply sch_nodup_insert; assumption);
    try (apply sch_nodup_insert; apply sch_nodup_erase; assumption);
    try (destruct (sch_active _); [apply sch_nodup_insert|]; assumption).
  all: intros c0; pose proof (CK c0) as (D0 & H0 & C0); clear CK ND1 ND2; unfold sch_ckA, sch_s_pc in *.
  all: try match goal with Hl : sch_lookup _ _ = Some _ |- _ => apply sch_lookup_mem in Hl end.
  all: try match goal with U : _ && sch_unlocked _ = true |- _ => apply andb_true_iff in U; destruct U as [_ U] end.
  all: try match goal with U : sch_unlocked _ = true |- _ => apply (sch_unlocked_held _ c0) in U end.
  all: revert D0 H0 C0; repeat match goal with Hm : sch_mem _ _ = _ |- _ => revert Hm end.
  all: rewrite ?sch_held_pc.
  all: cbn [sch_idle sch_pend sch_pc sch_cks sch_s_sets sch_s_cks sch_s_tasks sch_s_pc sch_s_clock sch_s_fl].
  all: try match goal with Hp : sch_pc _ = _ |- _ => rewrite ?Hp end.
  all: rewrite <- ?sch_held_pc.
  all: try match goal with U : sch_held _ _ = false |- _ => rewrite ?U end.
  all: try (match goal with |- context [if sch_active ?k then _ else _] =>
              destruct (sch_active k) eqn:Hact; [|pose proof (sch_sched_active _ Hact) as Hs] end).
  all: rewrite ?sch_mem_insert, ?sch_mem_erase.
  all: unfold sch_upd.
  all: sch_eqb; cbn [sch_owed sch_k_next sch_k_active sch_k_paused sch_k_force sch_k_env sch_k_running sch_k_handled];
       rewrite ?sch_sched_k_next, ?sch_sched_k_force, ?sch_sched_k_env, ?sch_sched_k_running, ?sch_sched_k_handled;
       try congruence.
  all: try rewrite Hs.
  all: try (destruct (sch_owed _); cbn [pred]).
  all: sch_dbool; sch_fin.
Qed.

Lemma sch_live_cons y l : sch_live (y :: l) = ((if sch_is_live y then 1 else 0) + sch_live l)%nat.
Proof. unfold sch_live. cbn [filter]. destruct (sch_is_live y); reflexivity. Qed.

(* ---- asynchronous executions (multiset of ids) ---- *)
Lemma sch_fcnt_rem1 x c l : sch_fmem c l = true ->
  sch_fcnt x l = (sch_fcnt x (sch_frem1 c l) + (if Nat.eqb x c then 1 else 0))%nat.
Proof.
  induction l as [|y l IH]; [discriminate|]. cbn [sch_fmem existsb sch_frem1 sch_fcnt]. intros H.
  destruct (Nat.eqb_spec c y) as [E|E].
  - subst y. lia.
  - cbn [orb] in H. cbn [sch_fcnt]. rewrite (IH H). lia.
Qed.

Lemma sch_flen_rem1 c l : sch_fmem c l = true -> length l = S (length (sch_frem1 c l)).
Proof.
  induction l as [|y l IH]; [discriminate|]. cbn [sch_fmem existsb sch_frem1]. intros H.
  destruct (Nat.eqb_spec c y) as [E|E]; [reflexivity|]. cbn [orb] in H. cbn [length]. rewrite (IH H). reflexivity.
Qed.

Lemma sch_fcnt_mem c l : (1 <= sch_fcnt c l)%nat -> sch_fmem c l = true.
Proof.
  induction l as [|y l IH]; cbn [sch_fcnt sch_fmem existsb]; [lia|]. intros H.
  destruct (Nat.eqb c y); [reflexivity|]. cbn [orb]. apply IH. lia.
Qed.

Lemma sch_fmem_cnt c l : sch_fmem c l = true -> (1 <= sch_fcnt c l)%nat.
Proof.
  induction l as [|y l IH]; cbn [sch_fcnt sch_fmem existsb]; [discriminate|].
  destruct (Nat.eqb c y); [lia|]. cbn [orb]. intros H. specialize (IH H). lia.
Qed.

Definition sch_nslot (l : list (nat * sch_tpc)) : nat := length (filter sch_is_slot l).

Lemma sch_nslot_cons y l : sch_nslot (y :: l) = ((if sch_is_slot y then 1 else 0) + sch_nslot l)%nat.
Proof. unfold sch_nslot. cbn [filter]. destruct (sch_is_slot y); reflexivity. Qed.

Lemma sch_nslot_rem1 y l : sch_has y l = true ->
  sch_nslot l = (sch_nslot (sch_rem1 y l) + (if sch_is_slot y then 1 else 0))%nat.
Proof.
  intros H. unfold sch_nslot. rewrite (Permutation_length (sch_filter_rem1 sch_is_slot y l H)).
  destruct (sch_is_slot y); cbn [length]; lia.
Qed.

Lemma sch_nslot_live l : (sch_nslot l <= sch_live l)%nat.
Proof.
  unfold sch_nslot, sch_live. induction l as [|[c p] l IH]; [cbn; lia|].
  cbn [filter]. unfold sch_is_slot at 1, sch_is_live at 1. cbn [snd].
  destruct p; cbn [sch_tpc_eqb negb length]; lia.
Qed.

Lemma sch_invB_step s a s' : sch_exec s a = Some s' -> sch_invB s -> sch_invB s'.
Proof.
  intros H (F & CN & BD). unfold sch_invB, sch_slots in *. fold (sch_nslot (sch_tasks s)) in BD. fold (sch_nslot (sch_tasks s')).
  pose proof (sch_nslot_live (sch_tasks s)) as NL.
  destruct a; sch_cases H; unfold sch_s_pc;
    cbn [sch_tasks sch_flights sch_fdone sch_pcount sch_pc sch_cks sch_max sch_s_sets sch_s_cks sch_s_tasks sch_s_clock sch_s_fl] in *.
  all: try match goal with Hp : sch_pc _ = _ |- _ => rewrite ?Hp in CN, BD end.
  all: try match goal with Hh : sch_has _ _ && _ = true |- _ => apply andb_true_iff in Hh; destruct Hh as [Hh _] end.
  all: try match goal with Hh : sch_has ?y ?l = true |- _ =>
         pose proof (sch_live_rem1 y l Hh) as HL; pose proof (fun c0 => sch_cnt_rem1 (c0, SchTRunning) y l Hh) as HC;
         pose proof (sch_nslot_rem1 y l Hh) as HS end.
  all: try match goal with Hh : sch_fmem ?y ?l = true |- _ =>
         pose proof (sch_flen_rem1 y l Hh) as HFL; pose proof (fun c0 => sch_fcnt_rem1 c0 y l Hh) as HFC end.
  all: (split; [|split]).
  all: try (intros c0; specialize (F c0); try specialize (HC c0); try specialize (HFC c0)).
  all: rewrite ?sch_live_cons, ?sch_nslot_cons; cbn [sch_cnt sch_fcnt length] in *;
       unfold sch_task_eqb, sch_is_live, sch_is_slot in *; cbn [sch_tpc_eqb fst snd negb sch_pre sch_postc] in *;
       rewrite ?andb_false_r, ?andb_true_r in *; unfold sch_upd.
  all: try match goal with Hb : _ && _ && (_ <? _) = true |- _ => apply andb_true_iff in Hb; destruct Hb as [_ Hb]; apply Z.ltb_lt in Hb end.
  all: sch_eqb; cbn [sch_running sch_k_next sch_k_active sch_k_paused sch_k_force sch_k_env sch_k_running sch_k_handled] in *;
       try congruence.
  all: revert F; repeat match goal with Hr : sch_running _ = _ |- _ => revert Hr end.
  all: repeat match goal with |- context [sch_running ?k] => destruct (sch_running k) end.
  all: intros; try congruence; try lia.
Qed.

(* ------------------------------------------------------------------ reachability *)
Lemma sch_invA_init zone next max : sch_invA (sch_init zone next max).
Proof.
  unfold sch_invA, sch_init, sch_held. cbn. repeat split; try constructor; intros; try reflexivity; discriminate.
Qed.

Lemma sch_invB_init zone next max : 0 <= max -> sch_invB (sch_init zone next max).
Proof. intros H. unfold sch_invB, sch_init. cbn. repeat split; intros; lia. Qed.

Lemma sch_inv_run l : forall s s', sch_invA s -> sch_invB s -> sch_run s l = Some s' -> sch_invA s' /\ sch_invB s'.
Proof.
  induction l as [|a l IH]; intros s s' A B H; cbn in H.
  - inv H. split; assumption.
  - destruct (sch_exec s a) as [s1|] eqn:E; [|discriminate].
    apply (IH s1 s'); [eapply sch_invA_step; eassumption|eapply sch_invB_step; eassumption|assumption].
Qed.

Lemma sch_max_step s a s' : sch_exec s a = Some s' -> sch_max s' = sch_max s.
Proof. intros H. destruct a; sch_cases H; reflexivity. Qed.

Lemma sch_max_run l : forall s s', sch_run s l = Some s' -> sch_max s' = sch_max s.
Proof.
  induction l as [|a l IH]; intros s s' H; cbn in H; [inv H; reflexivity|].
  destruct (sch_exec s a) as [s1|] eqn:E; [|discriminate]. rewrite (IH _ _ H). eapply sch_max_step; eassumption.
Qed.

Lemma sch_runlist_live l : (length (sch_runlist l) <= sch_live l)%nat.
Proof.
  unfold sch_runlist, sch_live. rewrite map_length. induction l as [|[c p] l IH]; [cbn; lia|].
  cbn [filter]. unfold sch_is_run at 1, sch_is_live at 1. cbn [snd].
  destruct p; cbn [sch_tpc_eqb negb length]; lia.
Qed.

(* ---- C04_inv ---- *)
Lemma sch_thm_inv zone next max l s :
  0 <= max -> sch_run (sch_init zone next max) l = Some s ->
  NoDup (map fst (sch_idle s)) /\ NoDup (map fst (sch_pend s)) /\
  (forall c, ~ (sch_mem c (sch_idle s) = true /\ sch_mem c (sch_pend s) = true)) /\
  (forall c, sch_unlocked s = true -> sch_owed (sch_cks s c) = 0%nat ->
     sch_mem c (sch_idle s) || sch_mem c (sch_pend s) = sch_sched (sch_cks s c)) /\
  (forall c f, sch_pc s = SchSHold c f ->
     sch_mem c (sch_idle s) = false /\ sch_mem c (sch_pend s) = false /\
     (sch_owed (sch_cks s c) = 0%nat -> sch_sched (sch_cks s c) = true)).
Proof.
  intros Hm H. destruct (sch_inv_run l _ _ (sch_invA_init zone next max) (sch_invB_init zone next max Hm) H) as [(A & B & C & D & E) _].
  repeat split; try assumption.
  - intros c [H1 H2]. specialize (C c). rewrite H1, H2 in C. discriminate.
  - intros c U O. specialize (E c O). rewrite (sch_unlocked_held s c U), orb_false_r in E. exact E.
  - assert (Hh : sch_held s c = true) by (unfold sch_held; rewrite H0; apply Nat.eqb_refl).
    specialize (D c Hh). apply orb_false_iff in D. tauto.
  - assert (Hh : sch_held s c = true) by (unfold sch_held; rewrite H0; apply Nat.eqb_refl).
    specialize (D c Hh). apply orb_false_iff in D. tauto.
  - intros O. assert (Hh : sch_held s c = true) by (unfold sch_held; rewrite H0; apply Nat.eqb_refl).
    specialize (E c O). rewrite Hh, orb_true_r in E. symmetry. exact E.
Qed.

(* what the ObjectHandler step itself establishes, whatever happened before (also while a check of c is pending) *)
Lemma sch_thm_handler s c s' :
  sch_exec s (SchAObjectHandler c) = Some s' ->
  (sch_sched (sch_cks s c) = false -> sch_mem c (sch_idle s') = false /\ sch_mem c (sch_pend s') = false) /\
  (sch_sched (sch_cks s c) = true -> sch_mem c (sch_idle s') || sch_mem c (sch_pend s') = true) /\
  sch_sched (sch_cks s' c) = sch_sched (sch_cks s c).
Proof.
  intros H. sch_cases H; cbn [sch_idle sch_pend sch_cks sch_s_sets sch_s_cks]; rewrite ?sch_upd_same, ?sch_sched_k_handled;
    rewrite ?sch_mem_insert, ?sch_mem_erase, ?Nat.eqb_refl; repeat split; intros; try congruence;
    rewrite ?andb_false_r, ?orb_true_r; try reflexivity.
  match goal with Hm : sch_mem _ _ = true |- _ => rewrite Hm end. apply orb_true_r.
Qed.

(* ---- C04_single_flight / C04_concurrency ---- *)
(* executions of c in flight: synchronous ones inside Execute(), asynchronous ones whose process is alive, and
   asynchronous ones whose result is on its way into ProcessCheckResult *)
Definition sch_inflight (s : sch_state) (c : nat) : nat :=
  (sch_cnt (c, SchTRunning) (sch_tasks s) + sch_fcnt c (sch_flights s) + sch_fcnt c (sch_fdone s))%nat.

Lemma sch_thm_single_flight zone next max l s c :
  0 <= max -> sch_run (sch_init zone next max) l = Some s ->
  (sch_inflight s c <= 1)%nat /\ (sch_inflight s c = 1%nat -> sch_running (sch_cks s c) = true).
Proof.
  intros Hm H. destruct (sch_inv_run l _ _ (sch_invA_init zone next max) (sch_invB_init zone next max Hm) H) as [_ (F & _ & _)].
  specialize (F c). unfold sch_inflight. destruct (sch_running (sch_cks s c)); split; intros; try reflexivity; lia.
Qed.

Lemma sch_runlist_nslot l : (length (sch_runlist l) <= sch_nslot l)%nat.
Proof.
  unfold sch_runlist, sch_nslot. rewrite map_length. induction l as [|[c p] l IH]; [cbn; lia|].
  cbn [filter]. unfold sch_is_run at 1, sch_is_slot at 1. cbn [snd].
  destruct p; cbn [sch_tpc_eqb negb length]; lia.
Qed.

(* executions at work (synchronous commands inside Execute + asynchronous processes alive) <= occupied slots <= max;
   the pending-check counter covers every occupied slot (it may exceed max: an asynchronous command counts itself
   once more while its ExecuteCheckHelper has not yet counted down) *)
Lemma sch_thm_concurrency zone next max l s :
  0 <= max -> sch_run (sch_init zone next max) l = Some s ->
  (length (sch_runlist (sch_tasks s)) + length (sch_flights s) <= sch_slots (sch_tasks s) (sch_flights s))%nat /\
  Z.of_nat (sch_slots (sch_tasks s) (sch_flights s)) <= max /\
  Z.of_nat (sch_slots (sch_tasks s) (sch_flights s)) <= sch_pcount s.
Proof.
  intros Hm H. destruct (sch_inv_run l _ _ (sch_invA_init zone next max) (sch_invB_init zone next max Hm) H) as [_ (_ & CN & BD)].
  rewrite (sch_max_run _ _ _ H) in BD. cbn [sch_max sch_init] in BD.
  pose proof (sch_runlist_nslot (sch_tasks s)). pose proof (sch_nslot_live (sch_tasks s)).
  unfold sch_slots in *. fold (sch_nslot (sch_tasks s)) in *.
  destruct (sch_pc s); cbn [sch_pre sch_postc] in *; lia.
Qed.

(* ---- C04_forced / C04_progress_partial: enabledness ---- *)
Lemma sch_thm_forced s c :
  sch_pc s = SchSHold c true ->
  sch_exec s SchASkip = None /\
  exists s', sch_exec s SchADispatch = Some s' /\ sch_mem c (sch_pend s') = true /\ sch_pc s' = SchSPostA c true.
Proof.
  intros H. unfold sch_exec. rewrite H. cbn [sch_wants orb]. split; [reflexivity|].
  eexists. split; [reflexivity|]. cbn [sch_pend sch_pc sch_s_sets]. rewrite sch_mem_insert, Nat.eqb_refl, orb_true_r. auto.
Qed.

Lemma sch_thm_pick_reads_force s c s' :
  sch_exec s (SchAPick c) = Some s' -> sch_pc s' = SchSHold c (sch_force (sch_cks s c)).
Proof. intros H. sch_cases H. reflexivity. Qed.

Lemma sch_thm_progress s c k :
  sch_pc s = SchSIdle -> sch_lookup c (sch_idle s) = Some k -> sch_is_min k (sch_idle s) = true ->
  k <= sch_clock s -> sch_pcount s < sch_max s ->
  exists s1, sch_exec s (SchAPick c) = Some s1 /\
    (forall a, a <> SchASkip -> a <> SchADispatch ->
       match a with SchAPick _ | SchAClearForce | SchAIncrease | SchAEnqueue => sch_exec s1 a = None | _ => True end) /\
    (if sch_wants (sch_force (sch_cks s c)) (sch_cks s c)
     then sch_exec s1 SchASkip = None /\
          exists s2, sch_exec s1 SchADispatch = Some s2 /\ sch_mem c (sch_pend s2) = true
     else sch_exec s1 SchADispatch = None /\
          exists s2, sch_exec s1 SchASkip = Some s2 /\ sch_mem c (sch_idle s2) = true).
Proof.
  intros Hpc Hl Hmin Hk Hp. unfold sch_exec at 1. rewrite Hpc, Hl, Hmin.
  apply Z.leb_le in Hk. apply Z.ltb_lt in Hp. rewrite Hk, Hp. cbn [andb].
  eexists. split; [reflexivity|]. split.
  - intros a _ _. destruct a; try exact I; reflexivity.
  - unfold sch_exec. cbn [sch_pc sch_s_sets sch_cks sch_idle sch_pend].
    destruct (sch_wants (sch_force (sch_cks s c)) (sch_cks s c)); (split; [reflexivity|]); eexists; (split; [reflexivity|]);
      cbn [sch_pend sch_idle sch_s_sets]; rewrite sch_mem_insert, Nat.eqb_refl; apply orb_true_r.
Qed.

(* ---- the running flag can never wedge ----
   reset points in the code: the FIRST statement of Checkable::ProcessCheckResult clears m_CheckRunning under the
   ObjectLock, before any early return (null result, agent check, inactive object, result older than the stored one).
   [SchATaskResult c v] / [SchAFlightResult c v] is that entry for the execution's own result, accepted or rejected
   alike (for a rejected result v is the unchanged next_check: the function returns before UpdateNextCheck). *)
Lemma sch_thm_flag_exact zone next max l s c :
  0 <= max -> sch_run (sch_init zone next max) l = Some s ->
  sch_inflight s c = (if sch_running (sch_cks s c) then 1 else 0)%nat.
Proof.
  intros Hm H. destruct (sch_inv_run l _ _ (sch_invA_init zone next max) (sch_invB_init zone next max Hm) H) as [_ (F & _ & _)].
  apply F.
Qed.

Lemma sch_cnt_has x l : (1 <= sch_cnt x l)%nat -> sch_has x l = true.
Proof.
  induction l as [|y l IH]; cbn [sch_cnt sch_has existsb]; [lia|]. intros H.
  destruct (sch_task_eqb x y); [reflexivity|]. cbn [orb]. apply IH. lia.
Qed.

Lemma sch_has_cnt x l : sch_has x l = true -> (1 <= sch_cnt x l)%nat.
Proof.
  induction l as [|y l IH]; cbn [sch_cnt sch_has existsb]; [discriminate|].
  destruct (sch_task_eqb x y); [lia|]. cbn [orb]. intros H. specialize (IH H). lia.
Qed.

(* the steps through which the one execution in flight delivers its result are enabled and end with the flag clear *)
Definition sch_can_finish (s : sch_state) (c : nat) : Prop :=
  (sch_has (c, SchTRunning) (sch_tasks s) = true /\
     forall v, exists s', sch_exec s (SchATaskResult c v) = Some s' /\ sch_running (sch_cks s' c) = false) \/
  (sch_fmem c (sch_flights s) = true /\
     exists s1, sch_exec s (SchAFlightDone c) = Some s1 /\
       forall v, exists s', sch_exec s1 (SchAFlightResult c v) = Some s' /\ sch_running (sch_cks s' c) = false) \/
  (sch_fmem c (sch_fdone s) = true /\
     forall v, exists s', sch_exec s (SchAFlightResult c v) = Some s' /\ sch_running (sch_cks s' c) = false).

(* flag set => exactly one execution is in flight (synchronous or asynchronous), its result-processing step is enabled
   (whatever the outcome), and that step clears the flag; flag clear => the next test-and-set starts the command *)
Lemma sch_thm_no_wedge zone next max l s c :
  0 <= max -> sch_run (sch_init zone next max) l = Some s ->
  (sch_running (sch_cks s c) = true -> sch_inflight s c = 1%nat /\ sch_can_finish s c) /\
  (sch_running (sch_cks s c) = false -> sch_has (c, SchTUpdated) (sch_tasks s) = true ->
     exists s', sch_exec s (SchATaskTas c) = Some s' /\ sch_observe s (SchATaskTas c) = [SchEvStart (sch_zid c)]).
Proof.
  intros Hm H. pose proof (sch_thm_flag_exact zone next max l s c Hm H) as F. split.
  - intros R. rewrite R in F. split; [exact F|]. unfold sch_inflight in F. unfold sch_can_finish.
    destruct (sch_has (c, SchTRunning) (sch_tasks s)) eqn:Hh.
    { left. split; [reflexivity|]. intros v. unfold sch_exec. rewrite Hh. eexists. split; [reflexivity|].
      cbn [sch_cks sch_s_tasks sch_s_cks]. rewrite sch_upd_same. reflexivity. }
    destruct (sch_fmem c (sch_flights s)) eqn:Hf.
    { right. left. split; [reflexivity|]. unfold sch_exec at 1. rewrite Hf. eexists. split; [reflexivity|].
      intros v. unfold sch_exec. cbn [sch_fdone sch_s_fl sch_fmem existsb]. rewrite Nat.eqb_refl. cbn [orb].
      eexists. split; [reflexivity|]. cbn [sch_cks sch_s_fl sch_s_cks sch_s_tasks]. rewrite sch_upd_same. reflexivity. }
    destruct (sch_fmem c (sch_fdone s)) eqn:Hd.
    { right. right. split; [reflexivity|]. intros v. unfold sch_exec. rewrite Hd. eexists. split; [reflexivity|].
      cbn [sch_cks sch_s_fl sch_s_cks]. rewrite sch_upd_same. reflexivity. }
    exfalso.
    assert (sch_cnt (c, SchTRunning) (sch_tasks s) = 0%nat).
    { destruct (sch_cnt (c, SchTRunning) (sch_tasks s)) eqn:E; [reflexivity|]. rewrite sch_cnt_has in Hh; [discriminate|lia]. }
    assert (sch_fcnt c (sch_flights s) = 0%nat).
    { destruct (sch_fcnt c (sch_flights s)) eqn:E; [reflexivity|]. rewrite sch_fcnt_mem in Hf; [discriminate|lia]. }
    assert (sch_fcnt c (sch_fdone s) = 0%nat).
    { destruct (sch_fcnt c (sch_fdone s)) eqn:E; [reflexivity|]. rewrite sch_fcnt_mem in Hd; [discriminate|lia]. }
    lia.
  - intros R Hh. unfold sch_exec, sch_observe. rewrite Hh, R. eexists. split; reflexivity.
Qed.

(* every result processing - the step itself, from any state - leaves the flag clear *)
Lemma sch_thm_result_clears s c v s' :
  sch_exec s (SchATaskResult c v) = Some s' \/ sch_exec s (SchAFlightResult c v) = Some s' -> sch_running (sch_cks s' c) = false.
Proof.
  intros [H|H]; sch_cases H; cbn [sch_cks sch_s_tasks sch_s_cks sch_s_fl]; rewrite sch_upd_same; reflexivity.
Qed.

(* ---- asynchronous check commands: the flag stays set until the result is processed ----
   (a) the steps "Execute() returned, result outstanding" and "process ended, slot counted down" do not touch any
       m_CheckRunning;
   (b) in every reachable state: an asynchronous execution of c in flight => flag set, the test-and-set of any further
       ExecuteCheck of c is enabled only as the guard return (no start event), and it does not create a second execution *)
Lemma sch_thm_flag_until_result_step s a s' c' :
  sch_exec s a = Some s' -> (exists c, a = SchATaskLaunch c \/ a = SchAFlightDone c) ->
  sch_running (sch_cks s' c') = sch_running (sch_cks s c').
Proof. intros H (c & [->| ->]); sch_cases H; reflexivity. Qed.

Lemma sch_thm_flag_until_result zone next max l s c :
  0 <= max -> sch_run (sch_init zone next max) l = Some s ->
  sch_fmem c (sch_flights s) || sch_fmem c (sch_fdone s) = true ->
  sch_running (sch_cks s c) = true /\
  sch_observe s (SchATaskTas c) = [] /\
  (forall s', sch_exec s (SchATaskTas c) = Some s' ->
     sch_inflight s' c = 1%nat /\ sch_flights s' = sch_flights s /\ sch_fdone s' = sch_fdone s /\
     sch_cnt (c, SchTRunning) (sch_tasks s') = 0%nat).
Proof.
  intros Hm H Hf. pose proof (sch_thm_flag_exact zone next max l s c Hm H) as F. unfold sch_inflight in *.
  assert (Hc : (1 <= sch_fcnt c (sch_flights s) + sch_fcnt c (sch_fdone s))%nat).
  { apply orb_true_iff in Hf. destruct Hf as [Hf|Hf]; apply sch_fmem_cnt in Hf; lia. }
  destruct (sch_running (sch_cks s c)) eqn:R; [|lia].
  split; [reflexivity|]. split; [unfold sch_observe; rewrite R; reflexivity|].
  intros s' E. sch_cases E; [|congruence].
  cbn [sch_tasks sch_flights sch_fdone sch_s_tasks].
  pose proof (sch_cnt_rem1 (c, SchTRunning) (c, SchTUpdated) _ Heqb) as HC.
  cbn [sch_cnt]. unfold sch_task_eqb in *. cbn [fst snd sch_tpc_eqb] in *. rewrite andb_false_r in *.
  repeat split; lia.
Qed.

(* ---- remote (command_endpoint) executions: the flag is released before ExecuteCheck returns, as the code has it ---- *)
Lemma sch_thm_remote_releases s c ov s' :
  sch_exec s (SchATaskRemote c ov) = Some s' ->
  sch_running (sch_cks s' c) = false /\ sch_has (c, SchTReturned) (sch_tasks s') = true /\
  sch_flights s' = sch_flights s /\ sch_fdone s' = sch_fdone s.
Proof.
  intros H. sch_cases H. cbn [sch_cks sch_tasks sch_flights sch_fdone sch_s_tasks sch_s_cks]. rewrite sch_upd_same.
  cbn [sch_has existsb]. unfold sch_task_eqb. cbn [fst snd sch_tpc_eqb]. rewrite Nat.eqb_refl. repeat split; reflexivity.
Qed.
