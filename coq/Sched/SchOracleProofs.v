(* The oracle that is run over implementation traces accepts every trace the model can produce
   (for every interleaving): it can only fire where the implementation leaves what C04_inv,
   C04_single_flight and C04_concurrency establish. *)
From Icv Require Import Base.Tac Sched.SchModel Sched.SchProofs.
From Coq Require Import Permutation FinFun.
Local Open Scope Z_scope.

Lemma sch_memb_in c l : sch_memb c l = true <-> In c l.
Proof.
  unfold sch_memb. rewrite existsb_exists. split.
  - intros (x & Hx & E). apply Z.eqb_eq in E. subst. assumption.
  - intros H. exists c. split; [assumption|apply Z.eqb_refl].
Qed.

Lemma sch_memb_false c l : ~ In c l -> sch_memb c l = false.
Proof. intros H. destruct (sch_memb c l) eqn:E; [|reflexivity]. apply sch_memb_in in E. contradiction. Qed.

Lemma sch_nodupb_NoDup l : NoDup l -> sch_nodupb l = true.
Proof.
  induction 1 as [|x l Hx Hl IH]; [reflexivity|]. cbn [sch_nodupb]. rewrite IH, (sch_memb_false _ _ Hx). reflexivity.
Qed.

Lemma sch_existsb_false {A} (f : A -> bool) l : (forall x, In x l -> f x = false) -> existsb f l = false.
Proof.
  intros H. destruct (existsb f l) eqn:E; [|reflexivity]. apply existsb_exists in E. destruct E as (x & Hx & Hf).
  rewrite (H x Hx) in Hf. discriminate.
Qed.

Lemma sch_zid_inj : Injective sch_zid.
Proof. intros a b H. apply Nat2Z.inj. exact H. Qed.

Definition sch_zids (l : list (nat * Z)) : list Z := map (fun p => sch_zid (fst p)) l.

Lemma sch_zids_map l : sch_zids l = map sch_zid (map fst l).
Proof. unfold sch_zids. rewrite map_map. reflexivity. Qed.

Lemma sch_memb_zids c l : sch_memb (sch_zid c) (sch_zids l) = sch_mem c l.
Proof.
  destruct (sch_mem c l) eqn:E.
  - apply sch_memb_in. rewrite sch_zids_map. apply in_map. apply sch_mem_in. assumption.
  - apply sch_memb_false. rewrite sch_zids_map. intros H. apply in_map_iff in H. destruct H as (x & Hx & Hin).
    apply sch_zid_inj in Hx. subst x. apply sch_mem_in in Hin. congruence.
Qed.

Lemma sch_snap_ok s cs :
  sch_invA s -> sch_unlocked s = true ->
  sch_snap_code (sch_zids (sch_idle s)) (sch_zids (sch_pend s))
    (map (fun c => (sch_zid c, sch_sched (sch_cks s c))) (filter (fun c => Nat.eqb (sch_owed (sch_cks s c)) 0) cs)) = 0.
Proof.
  intros (N1 & N2 & D & _ & C) U. unfold sch_snap_code.
  rewrite (sch_nodupb_NoDup (sch_zids (sch_idle s))), (sch_nodupb_NoDup (sch_zids (sch_pend s)));
    try (rewrite sch_zids_map; apply Injective_map_NoDup; [apply sch_zid_inj|assumption]).
  cbn [negb].
  rewrite sch_existsb_false.
  2:{ intros x Hx. rewrite sch_zids_map in Hx. apply in_map_iff in Hx. destruct Hx as (c & <- & Hc).
      rewrite sch_memb_zids. apply sch_mem_in in Hc. specialize (D c). rewrite Hc in D. exact D. }
  assert (Q : forall q, In q (map (fun c => (sch_zid c, sch_sched (sch_cks s c))) (filter (fun c => Nat.eqb (sch_owed (sch_cks s c)) 0) cs)) ->
              sch_memb (fst q) (sch_zids (sch_idle s)) || sch_memb (fst q) (sch_zids (sch_pend s)) = snd q).
  { intros q Hq. apply in_map_iff in Hq. destruct Hq as (c & <- & Hc). apply filter_In in Hc. destruct Hc as [_ Ho].
    apply Nat.eqb_eq in Ho. cbn [fst snd]. rewrite !sch_memb_zids. specialize (C c Ho).
    rewrite (sch_unlocked_held s c U), orb_false_r in C. exact C. }
  rewrite sch_existsb_false.
  2:{ intros q Hq. rewrite (Q q Hq). destruct (snd q); reflexivity. }
  rewrite sch_existsb_false.
  2:{ intros q Hq. rewrite (Q q Hq). destruct (snd q); reflexivity. }
  reflexivity.
Qed.

Lemma sch_perm_remove1 c R X : Permutation R (c :: X) -> Permutation (sch_remove1 c R) X.
Proof.
  intros H. assert (Hin : In c R) by (eapply Permutation_in; [apply Permutation_sym; exact H|left; reflexivity]).
  assert (P : Permutation R (c :: sch_remove1 c R)).
  { clear H. induction R as [|x R IH]; [contradiction|]. cbn [sch_remove1].
    destruct (Z.eqb_spec c x); [subst; apply Permutation_refl|].
    destruct Hin as [E|Hin]; [congruence|]. eapply perm_trans; [apply perm_skip; apply IH; assumption|apply perm_swap]. }
  eapply Permutation_cons_inv. eapply perm_trans; [apply Permutation_sym; exact P|exact H].
Qed.

Definition sch_zrun (s : sch_state) : list Z := map sch_zid (sch_runlist (sch_tasks s) ++ sch_flights s).

Lemma sch_runlist_cons y l : sch_runlist (y :: l) = if sch_is_run y then fst y :: sch_runlist l else sch_runlist l.
Proof. unfold sch_runlist. cbn [filter]. destruct (sch_is_run y); reflexivity. Qed.

Lemma sch_frem1_perm c l : sch_fmem c l = true -> Permutation l (c :: sch_frem1 c l).
Proof.
  induction l as [|x l IH]; [discriminate|]. cbn [sch_fmem existsb sch_frem1]. intros H.
  destruct (Nat.eqb_spec c x) as [E|E]; [subst; apply Permutation_refl|]. cbn [orb] in H.
  eapply perm_trans; [apply perm_skip; apply IH; exact H|apply perm_swap].
Qed.

(* steps other than a successful test-and-set and the end of a command leave the multiset of executions at work alone *)
Lemma sch_zrun_step s a s' :
  sch_exec s a = Some s' -> sch_observe s a = [] \/ (exists cs, a = SchASnap cs) -> Permutation (sch_zrun s') (sch_zrun s).
Proof.
  intros H O. unfold sch_zrun. apply Permutation_map.
  destruct a; sch_cases H; cbn [sch_tasks sch_flights sch_s_sets sch_s_cks sch_s_tasks sch_s_pc sch_s_clock sch_s_fl]; unfold sch_s_pc;
    cbn [sch_tasks sch_flights sch_s_sets sch_s_cks sch_s_tasks sch_s_pc sch_s_clock sch_s_fl];
    try apply Permutation_refl;
    try match goal with Hh : sch_has _ _ && _ = true |- _ => apply andb_true_iff in Hh; destruct Hh as [Hh _] end;
    try match goal with Hh : sch_has ?y ?l = true |- _ => pose proof (sch_runlist_rem1 y l Hh) as P; cbn in P end;
    rewrite ?sch_runlist_cons; cbn [sch_is_run snd sch_tpc_eqb fst];
    try (apply Permutation_app_tail; apply Permutation_sym; exact P); try apply Permutation_refl.
  - (* successful test-and-set emits an event *)
    cbn [sch_observe] in O. rewrite Heqb0 in O. destruct O as [O|[cs O]]; discriminate.
  - cbn [sch_observe] in O. destruct O as [O|[cs O]]; discriminate.
  - (* launch: the execution moves from the task to the multiset of asynchronous executions *)
    apply Permutation_sym. eapply perm_trans; [apply Permutation_app_tail; exact P|]. cbn [app].
    apply Permutation_middle.
  - cbn [sch_observe] in O. destruct O as [O|[cs O]]; discriminate.
  - cbn [sch_observe] in O. destruct O as [O|[cs O]]; discriminate.
Qed.

Lemma sch_zrun_len s : sch_invB s -> Z.of_nat (length (sch_zrun s)) + sch_pre (sch_pc s) + sch_postc (sch_pc s) <= sch_max s.
Proof.
  intros (_ & _ & BD). unfold sch_zrun. rewrite map_length, app_length. unfold sch_slots in BD.
  pose proof (sch_runlist_nslot (sch_tasks s)) as RL. unfold sch_nslot in RL. lia.
Qed.

Lemma sch_pre_postc_nonneg pc : 0 <= sch_pre pc + sch_postc pc.
Proof. destruct pc; cbn; lia. Qed.

Lemma sch_oracle_model l : forall s R idx max,
  sch_invA s -> sch_invB s -> sch_max s = max -> Permutation R (sch_zrun s) ->
  sch_oracle_from max R idx (sch_trace s l) = None.
Proof.
  induction l as [|a l IH]; intros s R idx max A B M P; [reflexivity|].
  cbn [sch_trace]. destruct (sch_exec s a) as [s1|] eqn:E; [|reflexivity].
  pose proof (sch_invA_step _ _ _ E A) as A1. pose proof (sch_invB_step _ _ _ E B) as B1.
  pose proof (sch_max_step _ _ _ E) as M1. rewrite M in M1. clear M.
  destruct (sch_observe s a) as [|e [|e2 r]] eqn:O.
  - cbn [app]. apply IH; try assumption. eapply perm_trans; [exact P|]. apply Permutation_sym.
    eapply sch_zrun_step; [exact E|left; exact O].
  - cbn [app sch_oracle_from]. destruct a; cbn [sch_observe] in O; try discriminate O.
    + (* test-and-set *)
      destruct (sch_running (sch_cks s c)) eqn:Hr; [discriminate|]. injection O as <-.
      pose proof B as (F & _ & _). specialize (F c). rewrite Hr in F.
      assert (Hnot : ~ In (sch_zid c) R).
      { intros Hin. eapply Permutation_in in Hin; [|exact P]. unfold sch_zrun in Hin. apply in_map_iff in Hin.
        destruct Hin as (x & Hx & Hin). apply sch_zid_inj in Hx. subst x. apply in_app_or in Hin. destruct Hin as [Hin|Hin].
        - rewrite sch_cnt_runlist in F. apply (count_occ_In Nat.eq_dec) in Hin. lia.
        - assert (Hf : sch_fmem c (sch_flights s) = true) by (unfold sch_fmem; apply existsb_exists; exists c; split; [assumption|apply Nat.eqb_refl]).
          apply sch_fmem_cnt in Hf. lia. }
      rewrite (sch_memb_false _ _ Hnot).
      assert (P1 : Permutation (sch_zid c :: R) (sch_zrun s1)).
      { revert M1 A1 B1. sch_cases E; [congruence|]. intros _ _ _.
        unfold sch_zrun. cbn [sch_tasks sch_flights sch_s_tasks sch_s_cks]. rewrite sch_runlist_cons. cbn [sch_is_run snd sch_tpc_eqb fst map app].
        apply perm_skip. eapply perm_trans; [exact P|]. unfold sch_zrun. apply Permutation_map. apply Permutation_app_tail.
        pose proof (sch_runlist_rem1 _ _ Heqb) as Q. cbn in Q. exact Q. }
      assert (Hlen : Z.of_nat (S (length R)) <= max).
      { pose proof (Permutation_length P1) as L. cbn [length] in L. rewrite L.
        pose proof (sch_zrun_len s1 B1) as ZL. pose proof (sch_pre_postc_nonneg (sch_pc s1)). lia. }
      apply Z.ltb_ge in Hlen. rewrite Hlen.
      apply IH; try assumption.
    + (* result of a synchronous command *)
      injection O as <-. revert M1 A1 B1. sch_cases E. intros M1 A1 B1.
      assert (Hin : In (sch_zid c) R).
      { eapply Permutation_in; [apply Permutation_sym; exact P|]. unfold sch_zrun. apply in_map. apply in_or_app. left.
        pose proof (sch_runlist_rem1 _ _ Heqb) as Q. cbn in Q. eapply Permutation_in; [apply Permutation_sym; exact Q|left; reflexivity]. }
      apply sch_memb_in in Hin. rewrite Hin.
      apply IH; try assumption.
      apply sch_perm_remove1. eapply perm_trans; [exact P|]. unfold sch_zrun. cbn [sch_tasks sch_flights sch_s_tasks sch_s_cks].
      rewrite sch_runlist_cons. cbn [sch_is_run snd sch_tpc_eqb].
      pose proof (sch_runlist_rem1 _ _ Heqb) as Q. cbn in Q.
      change (sch_zid c :: map sch_zid (sch_runlist (sch_rem1 (c, SchTRunning) (sch_tasks s)) ++ sch_flights s))
        with (map sch_zid ((c :: sch_runlist (sch_rem1 (c, SchTRunning) (sch_tasks s))) ++ sch_flights s)).
      apply Permutation_map. apply Permutation_app_tail. exact Q.
    + (* end of an asynchronous command *)
      injection O as <-. revert M1 A1 B1. sch_cases E. intros M1 A1 B1.
      pose proof (sch_frem1_perm _ _ Heqb) as Q.
      assert (Hin : In (sch_zid c) R).
      { eapply Permutation_in; [apply Permutation_sym; exact P|]. unfold sch_zrun. apply in_map. apply in_or_app. right.
        eapply Permutation_in; [apply Permutation_sym; exact Q|left; reflexivity]. }
      apply sch_memb_in in Hin. rewrite Hin.
      apply IH; try assumption.
      apply sch_perm_remove1. eapply perm_trans; [exact P|]. unfold sch_zrun. cbn [sch_tasks sch_flights sch_s_tasks sch_s_fl].
      change (sch_zid c :: map sch_zid (sch_runlist (sch_tasks s) ++ sch_frem1 c (sch_flights s)))
        with (map sch_zid (c :: sch_runlist (sch_tasks s) ++ sch_frem1 c (sch_flights s))).
      apply Permutation_map. eapply perm_trans; [apply Permutation_app_head; exact Q|]. apply Permutation_sym. apply Permutation_middle.
    + (* remote execution: released on return *)
      injection O as <-. revert M1 A1 B1. sch_cases E. intros M1 A1 B1.
      assert (Hin : In (sch_zid c) R).
      { eapply Permutation_in; [apply Permutation_sym; exact P|]. unfold sch_zrun. apply in_map. apply in_or_app. left.
        pose proof (sch_runlist_rem1 _ _ Heqb) as Q. cbn in Q. eapply Permutation_in; [apply Permutation_sym; exact Q|left; reflexivity]. }
      apply sch_memb_in in Hin. rewrite Hin.
      apply IH; try assumption.
      apply sch_perm_remove1. eapply perm_trans; [exact P|]. unfold sch_zrun. cbn [sch_tasks sch_flights sch_s_tasks sch_s_cks].
      rewrite sch_runlist_cons. cbn [sch_is_run snd sch_tpc_eqb].
      pose proof (sch_runlist_rem1 _ _ Heqb) as Q. cbn in Q.
      change (sch_zid c :: map sch_zid (sch_runlist (sch_rem1 (c, SchTRunning) (sch_tasks s)) ++ sch_flights s))
        with (map sch_zid ((c :: sch_runlist (sch_rem1 (c, SchTRunning) (sch_tasks s))) ++ sch_flights s)).
      apply Permutation_map. apply Permutation_app_tail. exact Q.
    + (* snapshot *)
      injection O as <-. assert (U : sch_unlocked s = true) by (clear M1; sch_cases E; first [reflexivity|assumption]).
      fold (sch_zids (sch_idle s)) (sch_zids (sch_pend s)). rewrite (sch_snap_ok s cs A U). cbn [Z.eqb].
      apply IH; try assumption. eapply perm_trans; [exact P|]. apply Permutation_sym.
      eapply sch_zrun_step; [exact E|right; eexists; reflexivity].
  - (* no action emits two events *)
    destruct a; cbn [sch_observe] in O; try discriminate O. destruct (sch_running (sch_cks s c)); discriminate.
Qed.

Theorem sch_oracle_accepts_model zone next max l :
  0 <= max -> sch_oracle max (sch_trace (sch_init zone next max) l) = None.
Proof.
  intros Hm. unfold sch_oracle. apply sch_oracle_model.
  - apply sch_invA_init. - apply sch_invB_init; assumption. - reflexivity. - apply Permutation_refl.
Qed.
