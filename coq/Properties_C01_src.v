(* C01 - theorems over the functions TRANSLATED from /repo on every run (tools/cxx2coq.py -> coq/Facts/Facts_fn_*.v).
   Each theorem is guarded by `src_<fn>_recognised = true`: a C++ shape outside the translator's subset leaves it
   trivially true (logged as "xlate: ... not recognised", tie by the correspondence run only); a recognised shape that no
   longer equals the model breaks the proof in coq/Src and with it this file.  Only `exact` + Print Assumptions here. *)
From Icv Require Import Base.Tac Src.XlPrelude Ck.CkState Ck.CkFull Facts.Facts_enums Facts.Facts_fn_ck Src.SrcCk.
Local Open Scope Z_scope.

(* Host::CalculateState, Host::IsStateOK, Service::IsStateOK and the virtual dispatch, on the enum values read from checkresult.ti *)
Theorem C01_src_host_calculate_state : src_host_calculate_state_recognised = true ->
  forall s, src_host_calculate_state (sstate_num s) = if host_up s then f_HostUp else f_HostDown.
Proof. exact src_host_calculate_state_eq. Qed.
Print Assumptions C01_src_host_calculate_state.

Theorem C01_src_host_is_state_ok : src_host_is_state_ok_recognised = true ->
  forall s, src_host_is_state_ok (sstate_num s) = is_ok KHost s.
Proof. exact src_host_is_state_ok_eq. Qed.
Print Assumptions C01_src_host_is_state_ok.

Theorem C01_src_service_is_state_ok : src_service_is_state_ok_recognised = true ->
  forall s, src_service_is_state_ok (sstate_num s) = is_ok KService s.
Proof. exact src_service_is_state_ok_eq. Qed.
Print Assumptions C01_src_service_is_state_ok.

Theorem C01_src_is_state_ok : src_checkable_is_state_ok_recognised = true ->
  forall k s, src_checkable_is_state_ok (xk_is_host k) (sstate_num s) = is_ok k s.
Proof. exact src_checkable_is_state_ok_eq. Qed.
Print Assumptions C01_src_is_state_ok.

(* regions of Checkable::ProcessCheckResult, translated as state-passing functions, against the model's step_accept
   (whose state type / attempt / recovery / stateChange / hardChange every C01 theorem is about) *)
Theorem C01_src_state_type_attempt : src_pcr_state_type_attempt_recognised = true ->
  forall c s r,
    src_pcr_state_type_attempt (xk_is_host (c_kind c)) (sstate_num (s_raw s)) (xst_num (s_type s)) (s_attempt s)
      (sstate_num (r_state r)) (c_max c) false (xst_num (s_type s))
    = (s_attempt (fst (step_accept c s r)), i_recovery (snd (step_accept c s r)), xst_num (s_type (fst (step_accept c s r)))).
Proof. exact src_pcr_state_type_attempt_eq. Qed.
Print Assumptions C01_src_state_type_attempt.

Theorem C01_src_state_change : src_pcr_state_change_recognised = true ->
  forall c s r,
    src_pcr_state_change (negb (xk_is_host (c_kind c))) (sstate_num (s_raw s)) (sstate_num (r_state r))
    = i_state_change (snd (step_accept c s r)).
Proof. exact src_pcr_state_change_eq. Qed.
Print Assumptions C01_src_state_change.

Theorem C01_src_hard_change : src_pcr_hard_change_recognised = true ->
  forall c s r,
    src_pcr_hard_change (i_state_change (snd (step_accept c s r))) (xst_num (s_type s)) (xst_num (s_type (fst (step_accept c s r))))
    = i_hard_change (snd (step_accept c s r)).
Proof. exact src_pcr_hard_change_eq. Qed.
Print Assumptions C01_src_hard_change.

Example C01_src_nonvacuous : src_checkable_is_state_ok_recognised = true -> src_checkable_is_state_ok true 1 = true /\ src_checkable_is_state_ok false 1 = false.
Proof. intro H; xl_rec H. all: repeat split; vm_compute; reflexivity. Qed.

