(* C01 - theorems over the functions TRANSLATED from /repo on every run (tools/cxx2coq.py -> coq/Facts/Facts_fn_*.v).
   Each theorem is guarded by `src_<fn>_recognised = true`: a C++ shape outside the translator's subset leaves it
   trivially true (logged as "xlate: ... not recognised", tie by the correspondence run only); a recognised shape that no
   longer equals the model breaks the proof in coq/Src and with it this file.  Only `exact` + Print Assumptions here. *)
From Icv Require Import Base.Tac Src.XlPrelude Ck.CkState Ck.CkFull Facts.Facts_enums Facts.Facts_fn_ck Src.SrcCk.
Local Open Scope Z_scope.

(* Host::CalculateState, Host::IsStateOK, Service::IsStateOK and the virtual dispatch, on the enum values read from checkresult.ti *)
Theorem C01_src_host_calculate_state : src_host_calculate_state_recognised = true ->
  forall s, src_host_calculate_state (sstate_num s) = if host_up s then f_HostUp else f_HostDown.
Proof. exact src_host_calculate_state_eq. Qed.
Print Assumptions C01_src_host_calculate_state.

Theorem C01_src_host_is_state_ok : src_host_is_state_ok_recognised = true ->
  forall s, src_host_is_state_ok (sstate_num s) = is_ok KHost s.
Proof. exact src_host_is_state_ok_eq. Qed.
Print Assumptions C01_src_host_is_state_ok.

Theorem C01_src_service_is_state_ok : src_service_is_state_ok_recognised = true ->
  forall s, src_service_is_state_ok (sstate_num s) = is_ok KService s.
Proof. exact src_service_is_state_ok_eq. Qed.
Print Assumptions C01_src_service_is_state_ok.

Theorem C01_src_is_state_ok : src_checkable_is_state_ok_recognised = true ->
  forall k s, src_checkable_is_state_ok (xk_is_host k) (sstate_num s) = is_ok k s.
Proof. exact src_checkable_is_state_ok_eq. Qed.
Print Assumptions C01_src_is_state_ok.

Example C01_src_nonvacuous : src_checkable_is_state_ok_recognised = true -> src_checkable_is_state_ok true 1 = true /\ src_checkable_is_state_ok false 1 = false.
Proof. intro H; xl_rec H. all: repeat split; vm_compute; reflexivity. Qed.

