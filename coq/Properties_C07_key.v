(* C07 - companion: the key of a checkable's dependency groups is a sum (parent identity | redundancy group name).
   Only statements, each proved by `exact` of a lemma in coq/Dep/DgKeyProofs.v / DgFacts.v, followed by Print Assumptions. *)
From Coq Require Import String.
From Icv Require Import Base.Tac Dep.DgModel Dep.DgKeyProofs Dep.DgFacts Facts.Facts_c07.
Local Open Scope Z_scope.

(* Two dependencies share a key iff they are of the same kind and have the same parent (plain) / the same group
   (redundant).  No naming occurs: a plain dependency and a group member never share a key, whatever the names are. *)
Theorem C07_group_key_injective : forall d1 d2,
  (dg_key_of d1 = dg_key_of d2 <->
   dgd_rg d1 = dgd_rg d2 /\ (dgd_rg d1 = None -> dgd_parent d1 = dgd_parent d2)) /\
  (dg_key_eqb (dg_key_of d1) (dg_key_of d2) = true <-> dg_key_of d1 = dg_key_of d2) /\
  (dgd_rg d1 = None -> dgd_rg d2 <> None -> dg_key_eqb (dg_key_of d1) (dg_key_of d2) = false).
Proof.
  intros d1 d2. exact (conj (dg_key_of_injective d1 d2) (conj (dg_key_eqb_eq _ _) (dg_key_kinds_apart d1 d2))).
Qed.
Print Assumptions C07_group_key_injective.

(* With names: for ANY object naming [on] and group naming [gn] that keep different objects / different groups apart
   (nothing is assumed about a group text versus an object name), the key is the pair (kind, text). *)
Theorem C07_group_key_is_tagged_text : forall on gn,
  (forall a b, on a = on b -> a = b) -> (forall a b, gn a = gn b -> a = b) ->
  forall d1 d2,
    dg_key_of d1 = dg_key_of d2 <->
    (dg_dep_is_rg d1 = dg_dep_is_rg d2 /\ dg_skey on gn d1 = dg_skey on gn d2).
Proof. exact dg_key_is_tagged_text. Qed.
Print Assumptions C07_group_key_is_tagged_text.

(* Every dependency of a child sits in exactly one of the child's groups (keys without duplicates), and all members of
   a group have the kind of its key: a group is never a mixture of plain and redundant dependencies. *)
Theorem C07_group_partition : forall g c d,
  In d (dg_child_deps (dgg_deps g) c) ->
  In (dg_key_of d) (dg_keys g c) /\ NoDup (dg_keys g c) /\
  (forall k, In d (dg_group_deps g c k) <-> k = dg_key_of d) /\
  (forall k d', In d' (dg_group_deps g c k) -> dg_dep_is_rg d' = dg_key_is_rg k).
Proof.
  intros g c d H. destruct (dg_dep_in_one_group g c d H) as [A [B C]].
  exact (conj A (conj B (conj C (fun k d' => dg_group_members_kind g c k d')))).
Qed.
Print Assumptions C07_group_partition.

(* Refutation of a text-only key (group name, or the parent's object name): if group n is named like parent p, the plain
   dependency on p and the members of group n get ONE text key (their sum keys differ).  The merged group
   [plain; m1; m2] is wrong whichever kind it is given: as a redundancy group it is Ok although the mandatory parent is
   unavailable (the separate plain group is Failed); as a plain group it is Failed although only one of two redundant
   parents is unavailable (both separate groups are Ok). *)
Theorem C07_string_key_refuted : forall (on gn : nat -> string) (p n c r1 r2 : nat),
  gn n = on p ->
  let plain := dg_mk_plain 0 c p in
  let m1 := dg_mk_member 1 c r1 n in
  let m2 := dg_mk_member 2 c r2 n in
  dg_skey on gn plain = dg_skey on gn m1 /\ dg_skey on gn m1 = dg_skey on gn m2 /\
  dg_key_eqb (dg_key_of plain) (dg_key_of m1) = false /\
  dg_key_eqb (dg_key_of m1) (dg_key_of m2) = true /\
  (forall rp av, (forall x, rp x = true) -> av plain = false -> av m1 = true -> av m2 = true ->
     dg_group_state rp av true [plain; m1; m2] = DgOk /\
     dg_group_state rp av (dg_key_is_rg (dg_key_of plain)) [plain] = DgFailed) /\
  (forall rp av, (forall x, rp x = true) -> av plain = true -> av m1 = false -> av m2 = true ->
     dg_group_state rp av false [plain; m1; m2] = DgFailed /\
     dg_group_state rp av (dg_key_is_rg (dg_key_of plain)) [plain] = DgOk /\
     dg_group_state rp av (dg_key_is_rg (dg_key_of m1)) [m1; m2] = DgOk).
Proof. exact dg_string_key_refuted. Qed.
Print Assumptions C07_string_key_refuted.

(* source fact, regenerated from /repo on every run: the C++ key type is a sum of exactly these two alternatives *)
Theorem C07_group_key_type_fact :
  dg_opt_is Facts_c07.f_dependency_group_key_alternatives
            (fun l => l = [dg_key_alt_name (DgKParent 0); dg_key_alt_name (DgKGroup 0)]).
Proof. exact dg_key_fact_holds. Qed.
Print Assumptions C07_group_key_type_fact.
