(* C17 - the property theorems, nothing else.  Each is closed by [exact] of a lemma proved in Cw/*.v and
   followed by Print Assumptions. *)
From Icv Require Import Base.Tac Facts.Facts_c17 Cw.CwModel Cw.CwTxn Cw.CwStrProofs Cw.CwTxnProofs Cw.CwRefuted Cw.CwFacts.
From Coq Require Import NArith.
Local Open Scope N_scope.

(* every NUL-free byte string survives EmitString + the lexer's STRING state unchanged.
   Visible hypothesis = negated signature of the recorded finding nul-truncation (F-C17-c). *)
Theorem C17_string_roundtrip : forall s, cw_nul_free s -> cw_lex_string (cw_emit_string s) = Some s.
Proof. exact cw_string_roundtrip. Qed.
Print Assumptions C17_string_roundtrip.

(* an emitted string literal (object name, string value, quoted key, index) is exactly ONE token, whatever
   bytes it contains and whatever follows: it can neither end early nor swallow what follows *)
Theorem C17_string_token : forall s rest, cw_nul_free s ->
  cw_next (cw_emit_string s ++ rest) = NxTok (CwTStr s) rest.
Proof. exact cw_string_token. Qed.
Print Assumptions C17_string_token.

(* the text the (fixed) writer emits for ANY key is exactly one token carrying that key - an identifier
   token, a string token, or a keyword token on which the parser fails; no second token, no statement *)
Theorem C17_key_token : forall k r, cw_nul_free k -> cw_follow_ok r ->
  cw_next (cw_emit_key CwMatch k ++ r) =
    NxTok (if cw_mem k cw_writer_keywords then CwTId k
           else if cw_ident_whole k then (if cw_mem k cw_lexer_keywords then CwTKw k else CwTId k)
           else CwTStr k) r.
Proof. exact cw_key_token. Qed.
Print Assumptions C17_key_token.

(* the template name after `import` is exactly one string token - provided it is escaped (proposed fix) or
   contains no byte that needs escaping: visible negated signature of the recorded finding import-unescaped *)
Theorem C17_import_token : forall esc s rest,
  cw_nul_free s -> (esc = true \/ forallb cw_plainb s = true) ->
  cw_next ((if esc then cw_emit_string s else 34 :: s ++ [34]) ++ rest) = NxTok (CwTStr s) rest.
Proof. exact cw_import_token. Qed.
Print Assumptions C17_import_token.

(* the pinned writer (regex_search, multi-line ^ $) violates the structure property *)
Theorem C17_structure_refuted :
  cw_nul_free cw_wit_key /\
  exists txt it,
    cw_emit_item_m CwSearch true cw_wit_host [104] false [] cw_wit_attrs = Some txt /\
    cw_parse_text txt = Some it /\
    cwi_body it = [CwAssign [118; 97; 114; 115] []
                     (CwDict (DCons [120] (CwNum false [1] []) (DCons [122] (CwStr [118]) DNil)))] /\
    Some it <> cw_expect_item cw_wit_host [104] false [] cw_wit_attrs.
Proof. exact cw_structure_refuted_search. Qed.
Print Assumptions C17_structure_refuted.

Theorem C17_number_precision_refuted :
  cw_parse_literal (cw_emit_value CwMatch 2 (CwNum false [0] [1; 2; 3; 4; 5; 6; 7]) ++ [10]) = Some (CwNum false [0] [1; 2; 3; 4; 5; 7]) /\
  cw_veqb (CwNum false [0] [1; 2; 3; 4; 5; 6; 7]) (CwNum false [0] [1; 2; 3; 4; 5; 7]) = false /\
  cw_parse_literal (cw_emit_value CwMatch 2 (CwNum false [0] [0; 0; 0; 0; 0; 0; 1]) ++ [10]) = Some (CwNum false [0] [0; 0; 0; 0; 0; 0]).
Proof. exact cw_number_precision_refuted. Qed.
Print Assumptions C17_number_precision_refuted.

Theorem C17_nul_truncation_refuted :
  cw_chunk_whole = false ->
  cw_lex_string (cw_emit_string [97; 98; 0; 99; 100]) = Some [97; 98] /\
  cw_lex_string (cw_emit_string [97; 0; 98; 34; 99]) = Some [97; 34; 99].
Proof. exact cw_nul_truncation_refuted. Qed.
Print Assumptions C17_nul_truncation_refuted.

Theorem C17_import_unescaped_refuted :
  exists txt it,
    cw_emit_item_m CwMatch false cw_wit_host [104] false [cw_wit_tmpl] DNil = Some txt /\
    cw_parse_text txt = Some it /\
    cwi_body it = [CwImport [116]; CwAssign [110; 111; 116; 101; 115] [] (CwStr [112; 119; 110])] /\
    Some it <> cw_expect_item cw_wit_host [104] false [cw_wit_tmpl] DNil.
Proof. exact cw_import_unescaped_refuted. Qed.
Print Assumptions C17_import_unescaped_refuted.

Theorem C17_name_extra_parts_refuted :
  let svc := [83; 101; 114; 118; 105; 99; 101] in
  let hostk := ([72; 111; 115; 116], [97]) in
  let st := cw_add_static cw_store0 hostk false [] in
  cw_name_parts_m false true [97; 33; 98; 33; 99] = Some ([98], Some [97]) /\
  let '(st', r) := cw_create st svc [97; 33; 98; 33; 99] true (CwoOk [97; 33; 98] [hostk]) in
  r = CwrOk /\ cw_find (svc, [97; 33; 98; 33; 99]) st' = None /\
  (exists o, cw_find (svc, [97; 33; 98]) st' = Some o /\ co_runtime o = true) /\ cs_files st' = [].
Proof. exact cw_name_extra_parts_refuted. Qed.
Print Assumptions C17_name_extra_parts_refuted.

(* create: failure => objects, items and files are exactly what they were *)
Theorem C17_all_or_nothing : forall st ty full nc o st',
  cw_inv st -> cw_create st ty full nc o = (st', CwrFail) -> st' = st.
Proof. exact cw_create_fail_unchanged. Qed.
Print Assumptions C17_all_or_nothing.

(* create: success under the requested name (negated signature of name-extra-parts: eff = full) =>
   an active runtime object with its file, nothing else changed *)
Theorem C17_create_complete : forall st ty full nc eff deps st',
  cw_create st ty full nc (CwoOk eff deps) = (st', CwrOk) -> cw_beq eff full = true ->
  cw_find (ty, full) st = None /\
  cw_flags_of st' (ty, full) =
    {| fl_obj := true; fl_active := true; fl_runtime := true;
       fl_item := (if nc then cw_kmem (ty, full) (cs_items st) else true); fl_file := true |} /\
  cs_objs st' = {| co_key := (ty, full); co_runtime := true; co_deps := deps |} :: cs_objs st /\
  cs_files st' = (ty, full) :: cs_files st.
Proof. exact cw_create_ok_complete. Qed.
Print Assumptions C17_create_complete.

Theorem C17_delete_refuses_static : forall st k c o,
  cw_find k st = Some o -> co_runtime o = false -> cw_delete st k c = (st, CwrFail).
Proof. exact cw_delete_refuses_static. Qed.
Print Assumptions C17_delete_refuses_static.

Theorem C17_delete_needs_cascade : forall st k o,
  cw_find k st = Some o -> cw_children k st <> [] -> cw_delete st k false = (st, CwrFail).
Proof. exact cw_delete_needs_cascade. Qed.
Print Assumptions C17_delete_needs_cascade.

Theorem C17_delete : forall st k c o,
  cw_find k st = Some o -> co_runtime o = true -> cw_children k st = [] ->
  cw_delete st k c =
    ({| cs_objs := cw_oremove k (cs_objs st); cs_items := cw_kremove k (cs_items st); cs_files := cw_kremove k (cs_files st) |}, CwrOk).
Proof. exact cw_delete_plain. Qed.
Print Assumptions C17_delete.

Theorem C17_delete_gone : forall st k c st',
  cw_delete st k c = (st', CwrOk) ->
  cw_find k st' = None /\ cw_kmem k (cs_items st') = false /\ cw_kmem k (cs_files st') = false.
Proof. exact cw_delete_ok_gone. Qed.
Print Assumptions C17_delete_gone.

Theorem C17_delete_only_removes : forall st k c st' r,
  cw_delete st k c = (st', r) -> incl (cs_objs st') (cs_objs st).
Proof. exact cw_delete_only_removes. Qed.
Print Assumptions C17_delete_only_removes.

(* never two objects of one type with the same name, over all create / static load / delete histories *)
Theorem C17_unique :
  (forall st ty full nc o st' r, cw_unique st -> cw_create st ty full nc o = (st', r) -> cw_unique st') /\
  (forall st k nc deps, cw_unique st -> cw_unique (cw_add_static st k nc deps)) /\
  (forall st k c st' r, cw_unique st -> cw_delete st k c = (st', r) -> cw_unique st').
Proof. exact (conj cw_create_unique (conj cw_static_unique cw_delete_unique)). Qed.
Print Assumptions C17_unique.

(* the executable oracle that is run over implementation traces returns "ok" on every create the model performs *)
Theorem C17_oracle_accepts_model : forall st ty full nc o st' r,
  cw_inv st -> cw_create st ty full nc o = (st', r) ->
  (r = CwrFail \/ exists deps, o = CwoOk full deps) ->
  (nc = true \/ cw_kmem (ty, full) (cs_items st) = false \/ True) ->
  cw_orc_create nc (cw_mk_cobs st st' (ty, full) r) = 0.
Proof. exact cw_oracle_accepts_create. Qed.
Print Assumptions C17_oracle_accepts_model.

(* model constants = what the source says now (regenerated facts); includes: the writer matches the
   identifier regex against the WHOLE string *)
Theorem C17_source_facts :
  cw_opt_is f_cw_ident_regex (fun r => r = cw_regex_src) /\
  cw_opt_is f_cw_lexer_ident_regex (fun r => r = cw_lexer_regex_src) /\
  cw_opt_is f_cw_keyword_test_first (fun b => b = true) /\
  cw_opt_is f_cw_emit_string_quotes_escaped (fun b => b = true) /\
  cw_opt_is f_cw_number_fixed6 (fun b => b = true) /\
  cw_src_mode = CwMatch /\
  filter (fun k => negb (cw_mem k cw_writer_keywords)) cw_lexer_keywords =
    [[100; 101; 98; 117; 103; 103; 101; 114]; [105; 110]] /\
  forallb (fun k => cw_mem k cw_lexer_keywords) [cw_s_null; cw_s_true; cw_s_false; cw_s_object; cw_s_import; cw_s_ignore_on_error] = true.
Proof. exact cw_facts. Qed.
Print Assumptions C17_source_facts.

(* non-vacuity: a NUL-free name with quote, backslash, newline, `}}}`, `*/`, `$` round-trips, and the
   invariant / premises of the transaction theorems hold in a reachable state *)
Example C17_nonvacuous :
  let s := [104; 34; 92; 10; 125; 125; 125; 42; 47; 36; 35] in
  cw_nul_free s /\ cw_lex_string (cw_emit_string s) = Some s /\
  cw_inv cw_store0 /\ cw_unique cw_store0 /\
  snd (cw_create cw_store0 [72] s false CwoCommitErr) = CwrFail /\
  snd (cw_create cw_store0 [72] s false (CwoOk s [])) = CwrOk.
Proof.
  cbv zeta. split; [repeat constructor; discriminate|]. split; [vm_compute; reflexivity|].
  split; [intros k H; discriminate H|]. split; [constructor|]. split; vm_compute; reflexivity.
Qed.
