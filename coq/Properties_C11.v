(* C11 - the property theorems, nothing else. *)
From Coq Require Import List Arith Bool PeanoNat.
From Icv Require Import Route.RtModel Route.RtProofs.
Import ListNotations.

(* every transmission of one relay step, for ALL zone configurations, views, origins and iteration orders:
   it goes to an endpoint of a zone entitled to the event (the target zone or one of its ancestors; for a
   global target the local zone and its direct children) that is directly related to the sender, the
   endpoint is connected, it is not the sender itself, not the endpoint the event came from and not in the
   zone it came from; across zone borders and to non-masters only the zone master sends *)
Theorem C11_entitled : forall c me lz conn o ord target log e,
  In e (rt_sends (rt_relay c me lz conn o ord target log)) ->
  exists z, In e (ord z) /\ rt_entitled c lz target z /\ rt_directly_related c lz z /\
            e <> me /\ In e conn /\ rt_ofrom o <> Some e /\ rt_ozone o <> Some z /\
            (rt_master c lz me conn = me \/ e = rt_master c lz me conn).
Proof. exact rt_entitled_sends. Qed.
Print Assumptions C11_entitled.
