(* C11 - the property theorems, nothing else.  Model: Route/RtModel.v (one relay step) and Route/RtNet.v
   (the network of endpoints, all delivery orders and all iteration orders). *)
From Coq Require Import List Arith Bool PeanoNat.
From Icv Require Import Route.RtModel Route.RtProofs Route.RtObs Route.RtOracleProofs
     Route.RtNet Route.RtFamilies Route.RtNetProofs.
Import ListNotations.

(* ---- one relay step: ALL zone configurations, views, origins, iteration orders (unbounded) ---- *)

(* every transmission goes to an endpoint of a zone entitled to the event (the target zone or one of its
   ancestors; for a global target the local zone and its direct children) that is directly related to the
   sender; the endpoint is connected, is not the sender, not the endpoint the event came from and not in the
   zone it came from; to anyone but the zone master only the zone master sends *)
Theorem C11_entitled : forall c me lz conn o ord target log e,
  In e (rt_sends (rt_relay c me lz conn o ord target log)) ->
  exists z, In e (ord z) /\ rt_entitled c lz target z /\ rt_directly_related c lz z /\
            e <> me /\ In e conn /\ rt_ofrom o <> Some e /\ rt_ozone o <> Some z /\
            (rt_master c lz me conn = me \/ e = rt_master c lz me conn).
Proof. exact rt_entitled_sends. Qed.
Print Assumptions C11_entitled.

(* hence zones off the target's chain receive nothing, whatever the rest of the tree looks like *)
Theorem C11_reduction : forall c me lz conn o ord target log e,
  (forall tz, rt_on_chain c target tz -> rt_global c tz = false) ->
  In e (rt_sends (rt_relay c me lz conn o ord target log)) ->
  exists z, In e (ord z) /\ rt_on_chain c target z.
Proof. exact rt_reduction. Qed.
Print Assumptions C11_reduction.

(* a foreign zone is entered through at most one endpoint *)
Theorem C11_single_entry : forall me lz master conn o ord cz,
  cz <> lz -> length (rt_asends (rt_zone_loop me lz master conn o ord cz)) <= 1.
Proof. exact rt_zone_loop_single. Qed.
Print Assumptions C11_single_entry.

(* the persist decision: the event is recorded in the replay log iff logging was requested and some relayed
   (entitled, directly related) zone - or the local zone - has an endpoint other than the sender but no
   connected one.  Bound of the statement: the local zone has at most one other endpoint. *)
Theorem C11_log : forall c me lz conn o ord target log,
  length (filter (rt_peer me) (ord lz)) <= 1 ->
  rt_persist (rt_relay c me lz conn o ord target log) =
  log && existsb (fun z => rt_unreachable me conn (ord z)) (rt_relay_zones c lz target).
Proof. exact rt_log_char. Qed.
Print Assumptions C11_log.

(* the bound of C11_log is tight (outside the property's quantifier: three endpoints in the local zone): with one
   connected and one disconnected peer the decision depends on the iteration order *)
Theorem C11_log_bound_tight :
  let c := [{| rt_zparent := None; rt_zglobal := false; rt_zeps := [1; 2; 3] |}] in
  rt_persist (rt_relay c 1 0 [3] rt_no_origin (fun _ => [1; 2; 3]) 0 true) = false /\
  rt_persist (rt_relay c 1 0 [3] rt_no_origin (fun _ => [1; 3; 2]) 0 true) = true.
Proof. exact rt_log_three_endpoints_order_dependent. Qed.
Print Assumptions C11_log_bound_tight.

(* the executable per-step check run over the implementation's observations accepts every step of the
   model, for every iteration order: single entry, nothing withheld, log positions included *)
Theorem C11_oracle_accepts_model : forall c me lz conn o ord target log,
  (forall z e, In e (ord z) <-> In e (rt_eps c z)) ->
  length (filter (rt_peer me) (ord lz)) <= 1 ->
  let r := rt_relay c me lz conn o ord target log in
  rt_oracle c me lz conn o target log (rt_sends r) (rt_skipped r) (rt_persist r) = 0.
Proof. exact rt_oracle_accepts. Qed.
Print Assumptions C11_oracle_accepts_model.

(* ---- the network: every delivery order, every iteration order (bounded families, kernel-evaluated) ---- *)
(* rt_run_ok c links target s final = true: in EVERY run of the event originating at endpoint s - whichever
   in-flight message is delivered next, whichever order each node iterates its endpoint sets in - the run
   ends after at most 2*|endpoints|+2 deliveries (finitely many transmissions), no endpoint receives the
   event after having processed it, and the set of endpoints that processed it satisfies [final]. *)

(* chains of 1..3 zones with 1-2 endpoints each (by C11_reduction all that matters for a non-global target),
   every target zone, every set of links between directly related endpoints, every originating endpoint *)
Theorem C11_finite_once : forall c links target s,
  In c rt_chains -> In links (rt_powerset (rt_related_pairs c)) -> target < length c ->
  In s (flat_map rt_zeps c) ->
  rt_run_ok c links target s (fun _ => true) = true.
Proof. intros. apply rt_all_ok_finite_once. apply rt_chains_all_ok; assumption. Qed.
Print Assumptions C11_finite_once.

(* ... and whenever the originator is in an entitled zone and the connectivity premise of the statement holds
   over the entitled zones (rt_premise), every endpoint of every entitled zone has processed the event *)
Theorem C11_complete : forall c links target s lzs,
  In c rt_chains -> In links (rt_powerset (rt_related_pairs c)) -> target < length c ->
  In s (flat_map rt_zeps c) -> rt_zone_of c s = Some lzs ->
  rt_run_ok c links target s (rt_final_complete c links target lzs) = true.
Proof.
  intros c links target s lzs H1 H2 H3 H4 H5.
  pose proof (rt_chains_all_ok c links target s H1 H2 H3 H4) as K. unfold rt_all_ok in K. rewrite H5 in K. exact K.
Qed.
Print Assumptions C11_complete.

(* global target: the same chains with a global zone ... *)
Theorem C11_global_chains : forall c links s,
  In c rt_chains -> In links (rt_powerset (rt_related_pairs (c ++ [rt_gzone]))) ->
  In s (flat_map rt_zeps (c ++ [rt_gzone])) ->
  rt_all_ok (c ++ [rt_gzone]) links (length c) s = true.
Proof. exact rt_chains_global_all_ok. Qed.
Print Assumptions C11_global_chains.

(* ... and every tree of depth <= 3 with <= 2 children per zone, 1-2 endpoints per zone and at most 9
   directly related endpoint pairs (the bound that keeps the kernel evaluation at a few minutes) *)
Theorem C11_global_trees : forall c links s,
  In c rt_global_trees -> rt_pairs c <= 9 -> In links (rt_powerset (rt_related_pairs c)) ->
  In s (flat_map rt_zeps c) ->
  rt_all_ok c links (rt_gtarget c) s = true /\ rt_run_ok c links (rt_gtarget c) s (fun _ => true) = true.
Proof.
  intros. assert (rt_all_ok c links (rt_gtarget c) s = true) by (apply rt_global_all_ok; assumption).
  split; [assumption | apply rt_all_ok_finite_once; assumption].
Qed.
Print Assumptions C11_global_trees.

(* non-vacuity: the 2/2/2 chain, fully connected, event about an object of the bottom zone originating at its
   non-master endpoint: premise holds, all six endpoints process exactly once; and a step that persists *)
Example C11_nonvacuous :
  let c := nth 13 rt_chains [] in
  let links := rt_related_pairs c in
  In c rt_chains /\
  rt_premise c links (rt_entitled_zones c 2 2) = true /\
  rt_run_ok c links 2 6 (fun p => (length p =? 6) && forallb (fun e => rt_mem e p) [1; 2; 3; 4; 5; 6]) = true /\
  rt_persist (rt_relay c 3 1 [1; 5] rt_no_origin (rt_eps c) 2 true) = true /\
  forallb (fun e => rt_mem e (rt_sends (rt_relay c 3 1 [1; 5] rt_no_origin (rt_eps c) 2 true))) [1; 5] = true.
Proof.
  split; [apply nth_In; vm_compute; repeat constructor|].
  vm_compute. repeat split.
Qed.
