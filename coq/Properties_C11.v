(* C11 - the property theorems, nothing else.  Model: Route/RtModel.v (one relay step) and Route/RtNet.v
   (the network of endpoints, all delivery orders and all iteration orders). *)
From Coq Require Import List Arith Bool PeanoNat.
From Icv Require Import Route.RtModel Route.RtProofs Route.RtObs Route.RtOracleProofs Route.RtStepLemmas Route.RtLoad
     Route.RtNet Route.RtFamilies Route.RtSched Route.RtNetSound Route.RtNetProofs
     Route.RtInv Route.RtChain Route.RtChainSafe Route.RtChainComplete Route.RtTree Route.RtTreeSafe Route.RtTreeComplete Route.RtLine Route.RtLineSafe Route.RtLineComplete
     Route.RtNetObs Route.RtNetObsProofs.
Import ListNotations.

(* ---- one relay step: ALL zone configurations, views, origins, iteration orders (unbounded) ---- *)

(* every transmission goes to an endpoint of a zone entitled to the event (the target zone or one of its
   ancestors; for a global target the local zone and its direct children) that is directly related to the
   sender; the endpoint is connected, is not the sender, not the endpoint the event came from and not in the
   zone it came from; to anyone but the zone master only the zone master sends *)
Theorem C11_entitled : forall c me lz conn o ord target log e,
  In e (rt_sends (rt_relay c me lz conn o ord target log)) ->
  exists z, In e (ord z) /\ rt_entitled c lz target z /\ rt_directly_related c lz z /\
            e <> me /\ In e conn /\ rt_ofrom o <> Some e /\ rt_ozone o <> Some z /\
            (rt_master c lz me conn = me \/ e = rt_master c lz me conn).
Proof. exact rt_entitled_sends. Qed.
Print Assumptions C11_entitled.

(* hence zones off the target's chain receive nothing, whatever the rest of the tree looks like *)
Theorem C11_reduction : forall c me lz conn o ord target log e,
  (forall tz, rt_on_chain c target tz -> rt_global c tz = false) ->
  In e (rt_sends (rt_relay c me lz conn o ord target log)) ->
  exists z, In e (ord z) /\ rt_on_chain c target z.
Proof. exact rt_reduction. Qed.
Print Assumptions C11_reduction.

(* a foreign zone is entered through at most one endpoint *)
Theorem C11_single_entry : forall me lz master conn o ord cz,
  cz <> lz -> length (rt_asends (rt_zone_loop me lz master conn o ord cz)) <= 1.
Proof. exact rt_zone_loop_single. Qed.
Print Assumptions C11_single_entry.

(* the persist decision: the event is recorded in the replay log iff logging was requested and some relayed
   (entitled, directly related) zone - or the local zone - has an endpoint other than the sender but no
   connected one.  Bound of the statement: the local zone has at most one other endpoint. *)
Theorem C11_log : forall c me lz conn o ord target log,
  length (filter (rt_peer me) (ord lz)) <= 1 ->
  rt_persist (rt_relay c me lz conn o ord target log) =
  log && existsb (fun z => rt_unreachable me conn (ord z)) (rt_relay_zones c lz target).
Proof. exact rt_log_char. Qed.
Print Assumptions C11_log.

(* the bound of C11_log is tight (outside the property's quantifier: three endpoints in the local zone): with one
   connected and one disconnected peer the decision depends on the iteration order *)
Theorem C11_log_bound_tight :
  let c := [{| rt_zparent := None; rt_zglobal := false; rt_zeps := [1; 2; 3] |}] in
  rt_persist (rt_relay c 1 0 [3] rt_no_origin (fun _ => [1; 2; 3]) 0 true) = false /\
  rt_persist (rt_relay c 1 0 [3] rt_no_origin (fun _ => [1; 3; 2]) 0 true) = true.
Proof. exact rt_log_three_endpoints_order_dependent. Qed.
Print Assumptions C11_log_bound_tight.

(* the executable per-step check run over the implementation's observations accepts every step of the
   model, for every iteration order: single entry, nothing withheld, log positions included *)
Theorem C11_oracle_accepts_model : forall c me lz conn o ord target log,
  (forall z e, In e (ord z) <-> In e (rt_eps c z)) ->
  length (filter (rt_peer me) (ord lz)) <= 1 ->
  let r := rt_relay c me lz conn o ord target log in
  rt_oracle c me lz conn o target log (rt_sends r) (rt_skipped r) (rt_persist r) = 0.
Proof. exact rt_oracle_accepts. Qed.
Print Assumptions C11_oracle_accepts_model.

(* ---- Zone::OnAllConfigLoaded: the ancestor chain the relay iterates, for every activation order ---- *)
Theorem C11_ancestor_chain : forall c order,
  rt_forest c -> (forall z, In z order -> z < length c) ->
  (forall z, length (rt_all_parents c z) <= 32) ->
  (forall z q, rt_parent c z = Some q -> rt_global c q = false) ->
  rt_load c order = Some (map (fun z => (z, (rt_parent c z, rt_all_parents c z))) order).
Proof. exact rt_load_any_order. Qed.
Print Assumptions C11_ancestor_chain.

(* rt_all_parents (fuel = number of zones) IS the ancestor chain of every acyclic forest *)
Theorem C11_all_parents_is_chain : forall c z l,
  rt_forest c -> z < length c -> rt_is_chain c (rt_parent c z) l -> rt_all_parents c z = l.
Proof. exact rt_all_parents_chain. Qed.
Print Assumptions C11_all_parents_is_chain.

(* ---- unbounded step lemmas of the measure argument (the global induction is not closed, see notes) ---- *)
Theorem C11_step_nonmaster : forall c me lz conn o ord target log e,
  rt_master c lz me conn <> me ->
  In e (rt_sends (rt_relay c me lz conn o ord target log)) -> e = rt_master c lz me conn.
Proof. exact rt_nonmaster_sends_only_master. Qed.
Print Assumptions C11_step_nonmaster.

Theorem C11_step_terminal : forall c me lz conn o ord target log,
  rt_master c lz me conn <> me -> rt_ofrom o = Some (rt_master c lz me conn) ->
  rt_sends (rt_relay c me lz conn o ord target log) = [].
Proof. exact rt_peer_of_master_terminal. Qed.
Print Assumptions C11_step_terminal.

(* ---- the network as a small-step relation ----
   State = (in-flight messages, endpoints that processed the event).  rt_sched_step rt_msg (rt_effect c links target nord):
   ANY in-flight message is delivered next; the receiver builds the origin (rt_recv_origin), applies the handlers'
   CanAccessObject test (rt_accepts), processes and re-relays with rt_relay, iterating its endpoint sets in its own
   order nord t.  nord is arbitrary per node (rt_nord_ok: permutations of the zones' endpoints).
   The partial-order reduction behind the sweeps: deliveries commute, so the verdict of one schedule is the verdict
   of all (for every effect function and every membership-invariant final condition): *)
Theorem C11_schedules_commute : forall (M : Type) (effect : M -> option (list M * list nat)) (final : list nat -> bool),
  (forall P P', (forall x, In x P <-> In x P') -> final P = final P') ->
  forall n l P, rt_run1 M effect final n l P = true <-> rt_good M effect final n (l, P).
Proof. intros M effect final H n l P. split; [apply rt_run1_good; assumption | apply rt_good_run1]. Qed.
Print Assumptions C11_schedules_commute.

(* the exploration evaluated by the sweeps covers every admissible per-node iteration order *)
Theorem C11_explore_sound : forall c links target final nord,
  rt_small c -> rt_nord_ok c nord ->
  forall fuel l P, rt_explore fuel c links target final l P = true ->
  rt_run1 rt_msg (rt_effect c links target nord) final fuel l P = true.
Proof. exact rt_explore_run1. Qed.
Print Assumptions C11_explore_sound.

(* chains of 1..3 zones with 1-2 endpoints each (by C11_reduction all that matters for a non-global target), every
   target zone, every set of links between directly related endpoints, every originating endpoint, every per-node
   iteration order, EVERY run of the relation: fewer than rt_fuel c = 2*|endpoints|+2 deliveries, and no delivery
   makes an endpoint process the event a second time *)
Theorem C11_finite_once : forall c links target s lz nord,
  In c rt_chains -> In links (rt_powerset (rt_related_pairs c)) -> target < length c ->
  In s (flat_map rt_zeps c) -> rt_zone_of c s = Some lz -> rt_nord_ok c nord ->
  forall k st', rt_sched_run rt_msg (rt_effect c links target nord) (rt_init c links target nord s lz) k st' ->
    k < rt_fuel c /\
    (forall np st'', rt_sched_step rt_msg (rt_effect c links target nord) st' np st'' -> rt_fresh np (snd st') = true).
Proof.
  intros c links target s lz nord H1 H2 H3 H4 H5 H6 k st' R.
  destruct (rt_all_ok_relational c links target s lz nord (proj1 (rt_chains_small c H1)) H6 H5
              (rt_chains_all_ok c links target s H1 H2 H3 H4) k st' R) as [A [_ B]]. split; assumption.
Qed.
Print Assumptions C11_finite_once.

(* ... and whenever such a run has nothing in flight any more, the originator is in an entitled zone and the
   connectivity premise of the statement holds over the entitled zones (rt_premise), every endpoint of every entitled
   zone has processed the event (rt_final_complete) - exactly once by C11_finite_once *)
Theorem C11_complete : forall c links target s lz nord,
  In c rt_chains -> In links (rt_powerset (rt_related_pairs c)) -> target < length c ->
  In s (flat_map rt_zeps c) -> rt_zone_of c s = Some lz -> rt_nord_ok c nord ->
  forall k st', rt_sched_run rt_msg (rt_effect c links target nord) (rt_init c links target nord s lz) k st' ->
    fst st' = [] -> rt_final_complete c links target lz (snd st') = true.
Proof.
  intros c links target s lz nord H1 H2 H3 H4 H5 H6 k st' R.
  destruct (rt_all_ok_relational c links target s lz nord (proj1 (rt_chains_small c H1)) H6 H5
              (rt_chains_all_ok c links target s H1 H2 H3 H4) k st' R) as [_ [A _]]. assumption.
Qed.
Print Assumptions C11_complete.

(* global target: the same chains with a global zone ... *)
Theorem C11_global_chains : forall c links s lz nord,
  In c rt_chains -> In links (rt_powerset (rt_related_pairs (c ++ [rt_gzone]))) ->
  In s (flat_map rt_zeps (c ++ [rt_gzone])) -> rt_zone_of (c ++ [rt_gzone]) s = Some lz -> rt_nord_ok (c ++ [rt_gzone]) nord ->
  forall k st', rt_sched_run rt_msg (rt_effect (c ++ [rt_gzone]) links (length c) nord)
                  (rt_init (c ++ [rt_gzone]) links (length c) nord s lz) k st' ->
    k < rt_fuel (c ++ [rt_gzone]) /\
    (fst st' = [] -> rt_final_complete (c ++ [rt_gzone]) links (length c) lz (snd st') = true) /\
    (forall np st'', rt_sched_step rt_msg (rt_effect (c ++ [rt_gzone]) links (length c) nord) st' np st'' -> rt_fresh np (snd st') = true).
Proof.
  intros c links s lz nord H1 H2 H3 H4 H5.
  exact (rt_all_ok_relational (c ++ [rt_gzone]) links (length c) s lz nord (proj2 (rt_chains_small c H1)) H5 H4
           (rt_chains_global_all_ok c links s H1 H2 H3)).
Qed.
Print Assumptions C11_global_chains.

(* ... and every tree of depth <= 3 with <= 2 children per zone, 1-2 endpoints per zone and at most 10 directly
   related endpoint pairs (the bound that keeps the kernel evaluation - and its re-evaluation by coqchk - at minutes;
   C11_global_*_unbounded below has no bound at all) *)
Theorem C11_global_trees : forall c links s lz nord,
  In c rt_global_trees -> rt_pairs c <= 10 -> In links (rt_powerset (rt_related_pairs c)) ->
  In s (flat_map rt_zeps c) -> rt_zone_of c s = Some lz -> rt_nord_ok c nord ->
  forall k st', rt_sched_run rt_msg (rt_effect c links (rt_gtarget c) nord) (rt_init c links (rt_gtarget c) nord s lz) k st' ->
    k < rt_fuel c /\
    (fst st' = [] -> rt_final_complete c links (rt_gtarget c) lz (snd st') = true) /\
    (forall np st'', rt_sched_step rt_msg (rt_effect c links (rt_gtarget c) nord) st' np st'' -> rt_fresh np (snd st') = true).
Proof.
  intros c links s lz nord H1 H2 H3 H4 H5 H6.
  exact (rt_all_ok_relational c links (rt_gtarget c) s lz nord (rt_global_trees_small c H1) H6 H5
           (rt_global_all_ok c links s H1 H2 H3 H4)).
Qed.
Print Assumptions C11_global_trees.

(* ================= UNBOUNDED: chains of ARBITRARY depth (no bound on depth, steps, names, links) =================
   rt_chain_wf c: zone 0 is the top, zone z+1 the child of zone z, no global zone, at most two endpoints per zone (the
   property's bound), every endpoint in one zone; endpoint names arbitrary.  links: ANY list of pairs (rt_view makes
   connectivity symmetric - a TCP connection has two ends).  Every target zone, every originator (also below the
   target), every per-node iteration order, every run of the relation. *)

(* the two endpoints of a zone that see each other elect the same master (needs <= 2 endpoints + symmetry) *)
Theorem C11_master_agree : forall c z links a b,
  (forall e, In e (rt_eps c z) -> e = a \/ e = b) ->
  In a (rt_eps c z) -> In b (rt_eps c z) -> In b (rt_view links a) ->
  rt_master c z a (rt_view links a) = rt_master c z b (rt_view links b).
Proof. exact rt_master_agree. Qed.
Print Assumptions C11_master_agree.

(* the invariant and the measure: in-flight messages are well-formed and the future sets (rt_fut) of the in-flight
   messages and the processed set are pairwise disjoint; every delivery processes at a fresh endpoint, preserves the
   invariant and strictly decreases rt_chain_measure = total size of the future sets *)
Theorem C11_chain_inv_step : forall c links T nord,
  rt_chain_wf c -> T < length c -> rt_nord_ok c nord ->
  forall st np st', rt_chain_inv c links T st -> rt_sched_step rt_msg (rt_effect c links T nord) st np st' ->
    rt_fresh np (snd st) = true /\ rt_chain_inv c links T st' /\ rt_chain_measure c links T st' < rt_chain_measure c links T st.
Proof. exact rt_chain_inv_step. Qed.
Print Assumptions C11_chain_inv_step.

(* (a)+(b): every run from the originating relay has fewer deliveries than there are endpoints (hence fewer than
   rt_fuel c), and no delivery makes an endpoint process the event a second time *)
Theorem C11_finite_once_unbounded : forall c links target s lz nord,
  rt_chain_wf c -> target < length c -> rt_zone_of c s = Some lz -> rt_nord_ok c nord ->
  forall k st', rt_sched_run rt_msg (rt_effect c links target nord) (rt_init c links target nord s lz) k st' ->
    k < length (flat_map rt_zeps c) /\ k < rt_fuel c /\
    (forall np st'', rt_sched_step rt_msg (rt_effect c links target nord) st' np st'' -> rt_fresh np (snd st') = true).
Proof. exact rt_chain_finite_once_run. Qed.
Print Assumptions C11_finite_once_unbounded.

(* (c): whenever such a run has nothing in flight any more, the originator is in an entitled zone and the connectivity
   premise holds over the entitled zones, every endpoint of every entitled zone has processed the event
   (rt_final_complete) - exactly once by C11_finite_once_unbounded *)
Theorem C11_complete_unbounded : forall c links target nord s lz,
  rt_chain_wf c -> target < length c -> rt_nord_ok c nord -> rt_zone_of c s = Some lz ->
  forall k st', rt_sched_run rt_msg (rt_effect c links target nord) (rt_init c links target nord s lz) k st' ->
    fst st' = [] -> rt_final_complete c links target lz (snd st') = true.
Proof. exact rt_chain_complete. Qed.
Print Assumptions C11_complete_unbounded.

(* non-vacuity: the chain of depth 6 with two endpoints everywhere satisfies rt_chain_wf and, fully connected, the
   premise; the exploration evaluated by the kernel on it (originator = non-master endpoint of the bottom zone,
   target = bottom zone; and target = zone 3 from zone 2) agrees with the theorems: all 12 (resp. 8) entitled
   endpoints process, once *)
Example C11_unbounded_nonvacuous :
  let c := rt_mk_cfg (rt_chain_parents 6) [2; 2; 2; 2; 2; 2] in
  let links := rt_related_pairs c in
  rt_chain_wf c /\ rt_zone_of c 12 = Some 5 /\
  rt_premise c links (rt_entitled_zones c 5 5) = true /\
  rt_run_ok c links 5 12 (fun p => (length p =? 12) && forallb (fun e => rt_mem e p) (seq 1 12)) = true /\
  rt_run_ok c links 3 6 (fun p => (length p =? 8) && forallb (fun e => rt_mem e p) (seq 1 8)) = true.
Proof.
  split; [apply rt_chain_wf_b_spec; vm_compute; reflexivity|].
  vm_compute. repeat split.
Qed.

(* ================= UNBOUNDED: GLOBAL target zone on zone trees of ARBITRARY depth and width =================
   rt_tree_wf c: acyclic forest (parents carry smaller numbers), global zones isolated (no parent, no children), at most
   two endpoints per zone, every endpoint in one zone; any number of children per zone, any depth, arbitrary names.
   G: any global zone.  Every link set, every originator, every per-node iteration order, every run. *)
Theorem C11_tree_inv_step : forall c links G nord,
  rt_tree_wf c -> rt_global c G = true -> rt_nord_ok c nord ->
  forall st np st', rt_tree_inv c links st -> rt_sched_step rt_msg (rt_effect c links G nord) st np st' ->
    rt_fresh np (snd st) = true /\ rt_tree_inv c links st' /\ rt_tree_measure c links st' < rt_tree_measure c links st.
Proof. exact rt_tree_inv_step. Qed.
Print Assumptions C11_tree_inv_step.

Theorem C11_global_finite_once_unbounded : forall c links G s lz nord,
  rt_tree_wf c -> rt_global c G = true -> rt_zone_of c s = Some lz -> rt_nord_ok c nord ->
  forall k st', rt_sched_run rt_msg (rt_effect c links G nord) (rt_init c links G nord s lz) k st' ->
    k < length (flat_map rt_zeps c) /\ k < rt_fuel c /\
    (forall np st'', rt_sched_step rt_msg (rt_effect c links G nord) st' np st'' -> rt_fresh np (snd st') = true).
Proof. exact rt_tree_finite_once_run. Qed.
Print Assumptions C11_global_finite_once_unbounded.

(* entitled zones of a global target: the originating zone and everything below it (rt_entitled_zones) *)
Theorem C11_global_complete_unbounded : forall c links G nord s lz,
  rt_tree_wf c -> rt_global c G = true -> rt_nord_ok c nord -> rt_zone_of c s = Some lz ->
  forall k st', rt_sched_run rt_msg (rt_effect c links G nord) (rt_init c links G nord s lz) k st' ->
    fst st' = [] -> rt_final_complete c links G lz (snd st') = true.
Proof. exact rt_tree_complete. Qed.
Print Assumptions C11_global_complete_unbounded.

(* non-vacuity: the full binary tree of depth 3 with two endpoints everywhere plus a global zone - 31 directly related
   endpoint pairs, 2^31 link sets, the member of rt_global_trees that the bounded sweep (<= 10 pairs) cannot reach -
   satisfies rt_tree_wf and, fully connected, the premise; the exploration evaluated on it (originator = non-master
   endpoint of the root zone: all 14 endpoints; originator in a leaf zone: its two endpoints) agrees *)
Example C11_global_unbounded_nonvacuous :
  let c := rt_mk_cfg (rt_tree_parents [2; 2]) [2; 2; 2; 2; 2; 2; 2] ++ [rt_gzone] in
  let links := rt_related_pairs c in
  rt_tree_wf c /\ rt_global c 7 = true /\ length links = 31 /\ In c rt_global_trees /\
  rt_premise c links (rt_entitled_zones c 7 0) = true /\
  rt_run_ok c links 7 2 (fun p => (length p =? 14) && forallb (fun e => rt_mem e p) (seq 1 14)) = true /\
  rt_run_ok c links 7 8 (fun p => (length p =? 2) && forallb (fun e => rt_mem e p) [7; 8]) = true.
Proof.
  split; [apply rt_tree_wf_b_spec; vm_compute; reflexivity|].
  split; [reflexivity|]. split; [reflexivity|].
  split; [|vm_compute; repeat split].
  unfold rt_global_trees. apply in_flat_map. exists [2; 2]. split; [vm_compute; tauto|].
  apply in_map_iff. exists [2; 2; 2; 2; 2; 2; 2]. split; [reflexivity|]. vm_compute. tauto.
Qed.

(* ================= UNBOUNDED: NON-GLOBAL target zone on zone trees of ARBITRARY depth and width =================
   The chain theorems generalised to every tree (rt_tree_wf c as above; side branches, any number of children) and
   every non-global target zone: entitled zones = the target's line (the target zone and its ancestors); originators on
   the line, below it or in a side branch.  Together with C11_global_*_unbounded: EVERY well-formed zone forest, EVERY
   target. *)
Theorem C11_line_inv_step : forall c links T nord,
  rt_tree_wf c -> rt_global c T = false -> rt_nord_ok c nord ->
  forall st np st', rt_line_inv c links T st -> rt_sched_step rt_msg (rt_effect c links T nord) st np st' ->
    rt_fresh np (snd st) = true /\ rt_line_inv c links T st' /\ rt_line_measure c links T st' < rt_line_measure c links T st.
Proof. exact rt_line_inv_step. Qed.
Print Assumptions C11_line_inv_step.

Theorem C11_tree_finite_once_unbounded : forall c links T s lz nord,
  rt_tree_wf c -> rt_global c T = false -> rt_zone_of c s = Some lz -> rt_nord_ok c nord ->
  forall k st', rt_sched_run rt_msg (rt_effect c links T nord) (rt_init c links T nord s lz) k st' ->
    k < length (flat_map rt_zeps c) /\ k < rt_fuel c /\
    (forall np st'', rt_sched_step rt_msg (rt_effect c links T nord) st' np st'' -> rt_fresh np (snd st') = true).
Proof. exact rt_line_finite_once_run. Qed.
Print Assumptions C11_tree_finite_once_unbounded.

Theorem C11_tree_complete_unbounded : forall c links T nord s lz,
  rt_tree_wf c -> rt_global c T = false -> rt_nord_ok c nord -> rt_zone_of c s = Some lz ->
  forall k st', rt_sched_run rt_msg (rt_effect c links T nord) (rt_init c links T nord s lz) k st' ->
    fst st' = [] -> rt_final_complete c links T lz (snd st') = true.
Proof. exact rt_line_complete. Qed.
Print Assumptions C11_tree_complete_unbounded.

(* non-vacuity: the full binary tree of depth 3 (two endpoints everywhere), target = a leaf zone (zone 3, line 3-1-0):
   from the non-master endpoint of the root all six endpoints of the line process once; an event originating in the
   side branch (zone 2) or below a sibling (zone 4) is discarded at the first hop *)
Example C11_tree_unbounded_nonvacuous :
  let c := rt_mk_cfg (rt_tree_parents [2; 2]) [2; 2; 2; 2; 2; 2; 2] ++ [rt_gzone] in
  let links := rt_related_pairs c in
  rt_tree_wf c /\ rt_global c 3 = false /\ rt_entitled_zones c 3 0 = [3; 1; 0] /\
  rt_premise c links (rt_entitled_zones c 3 0) = true /\
  rt_run_ok c links 3 2 (fun p => (length p =? 6) && forallb (fun e => rt_mem e p) [1; 2; 3; 4; 7; 8]) = true /\
  rt_run_ok c links 3 5 (fun p => length p =? 1) = true /\
  rt_run_ok c links 3 9 (fun p => length p =? 1) = true.
Proof.
  split; [apply rt_tree_wf_b_spec; vm_compute; reflexivity|].
  vm_compute. repeat split.
Qed.

(* the executable NETWORK-level check run over complete multi-hop runs of the real code (op rt_net: number of
   deliveries, endpoints that processed) accepts every complete run of the model's network relation - any schedule, any
   per-node iteration order, any link set, any originator - on every well-formed zone forest and every target
   (rt_net_pre_b = rt_tree_wf_b and target in range; outside it claims nothing): nobody twice, fewer deliveries than endpoints, complete under the
   premise *)
Theorem C11_net_oracle_accepts_model : forall c links target s lz nord k st',
  rt_zone_of c s = Some lz -> rt_nord_ok c nord ->
  rt_sched_run rt_msg (rt_effect c links target nord) (rt_init c links target nord s lz) k st' ->
  fst st' = [] ->
  rt_net_oracle c links target s k (snd st') = 0.
Proof. exact rt_net_oracle_accepts. Qed.
Print Assumptions C11_net_oracle_accepts_model.

(* non-vacuity: the 2/2/2 chain, fully connected, event about an object of the bottom zone originating at its
   non-master endpoint: premise holds, all six endpoints process exactly once; and a step that persists *)
Example C11_nonvacuous :
  let c := nth 13 rt_chains [] in
  let links := rt_related_pairs c in
  In c rt_chains /\
  rt_premise c links (rt_entitled_zones c 2 2) = true /\
  rt_run_ok c links 2 6 (fun p => (length p =? 6) && forallb (fun e => rt_mem e p) [1; 2; 3; 4; 5; 6]) = true /\
  rt_persist (rt_relay c 3 1 [1; 5] rt_no_origin (rt_eps c) 2 true) = true /\
  forallb (fun e => rt_mem e (rt_sends (rt_relay c 3 1 [1; 5] rt_no_origin (rt_eps c) 2 true))) [1; 5] = true.
Proof.
  split; [apply nth_In; vm_compute; repeat constructor|].
  vm_compute. repeat split.
Qed.
