(* C17 - what DeleteObjectHelper does to the three stores, in one formula: it removes a SET R of keys -
   the objects, their items and their files, and nothing else.  Under the invariant "a file belongs to an
   existing runtime object" the files that disappear are exactly the files of the removed objects. *)
From Icv Require Import Base.Tac Cw.CwModel Cw.CwTxn Cw.CwStrProofs Cw.CwTxnProofs Cw.CwCascadeProofs.
From Coq Require Import NArith.
Local Open Scope N_scope.

Lemma cw_beq_sym a : forall b, cw_beq a b = cw_beq b a.
Proof.
  induction a as [|x a IH]; intros [|y b]; try reflexivity. cbn. rewrite (N.eqb_sym x y), IH. reflexivity.
Qed.
Lemma cw_keq_sym a b : cw_keq a b = cw_keq b a.
Proof. unfold cw_keq. rewrite (cw_beq_sym (fst a)), (cw_beq_sym (snd a)). reflexivity. Qed.

Lemma cw_keq_true_iff a b : cw_keq a b = true <-> a = b.
Proof. split; [apply cw_keq_eq|intros ->; apply cw_keq_refl]. Qed.

Lemma cw_kmem_in k l : cw_kmem k l = true <-> In k l.
Proof.
  unfold cw_kmem. rewrite existsb_exists. split.
  - intros (x & Hx & E). apply cw_keq_eq in E. subst. assumption.
  - intros H. exists k. split; [assumption|apply cw_keq_refl].
Qed.

Lemma cw_kmem_app k a b : cw_kmem k (a ++ b) = cw_kmem k a || cw_kmem k b.
Proof. unfold cw_kmem. apply existsb_app. Qed.

Lemma cw_kmem_filter (p : cw_key -> bool) y l : cw_kmem y (filter p l) = cw_kmem y l && p y.
Proof.
  induction l as [|x l IH]; [reflexivity|]. cbn [filter]. destruct (p x) eqn:Px; cbn [cw_kmem existsb]; fold (cw_kmem y (filter p l)); fold (cw_kmem y l); rewrite IH.
  - destruct (cw_keq y x) eqn:E; cbn [orb]; [|reflexivity]. apply cw_keq_eq in E. subst. rewrite Px.
    destruct (cw_kmem x l); reflexivity.
  - destruct (cw_keq y x) eqn:E; cbn [orb]; [|reflexivity]. apply cw_keq_eq in E. subst. rewrite Px.
    rewrite andb_false_r. reflexivity.
Qed.

Lemma cw_filter_filter {A} (p q : A -> bool) l : filter q (filter p l) = filter (fun x => p x && q x) l.
Proof.
  induction l as [|x l IH]; [reflexivity|]. cbn [filter]. destruct (p x); cbn [filter andb]; [destruct (q x); rewrite IH; reflexivity|exact IH].
Qed.

Lemma cw_filter_ext {A} (p q : A -> bool) l : (forall x, In x l -> p x = q x) -> filter p l = filter q l.
Proof.
  induction l as [|x l IH]; intros H; [reflexivity|]. cbn [filter]. rewrite (H x (or_introl eq_refl)).
  rewrite IH; [reflexivity|]. intros y Hy. apply H. right. assumption.
Qed.

Lemma cw_filter_true {A} (p : A -> bool) l : (forall x, In x l -> p x = true) -> filter p l = l.
Proof.
  induction l as [|x l IH]; intros H; [reflexivity|]. cbn [filter]. rewrite (H x (or_introl eq_refl)).
  f_equal. apply IH. intros y Hy. apply H. right. assumption.
Qed.

(* ---------------------------------------------------------------- removing a set of keys *)
Definition cw_rm (R : list cw_key) (st : cw_store) : cw_store :=
  {| cs_objs := filter (fun o => negb (cw_kmem (co_key o) R)) (cs_objs st);
     cs_items := filter (fun i => negb (cw_kmem i R)) (cs_items st);
     cs_files := filter (fun f => negb (cw_kmem (fst f) R)) (cs_files st) |}.

Lemma cw_rm_nil st : cw_rm [] st = st.
Proof.
  destruct st as [o i f]. unfold cw_rm. cbn [cs_objs cs_items cs_files cw_kmem existsb negb].
  rewrite !cw_filter_true by reflexivity. reflexivity.
Qed.

Lemma cw_rm_app R1 R2 st : cw_rm R2 (cw_rm R1 st) = cw_rm (R1 ++ R2) st.
Proof.
  unfold cw_rm. cbn [cs_objs cs_items cs_files]. rewrite !cw_filter_filter. f_equal; apply cw_filter_ext; intros x _;
    rewrite cw_kmem_app, negb_orb; reflexivity.
Qed.

Lemma cw_find_rm x R st : cw_find x (cw_rm R st) = if cw_kmem x R then None else cw_find x st.
Proof.
  unfold cw_find, cw_rm. cbn [cs_objs]. induction (cs_objs st) as [|o l IH]; [destruct (cw_kmem x R); reflexivity|].
  cbn [filter find]. destruct (cw_keq x (co_key o)) eqn:E.
  - apply cw_keq_eq in E. subst x. destruct (cw_kmem (co_key o) R) eqn:M; cbn [negb]; [exact IH|].
    cbn [find]. rewrite cw_keq_refl. reflexivity.
  - destruct (cw_kmem (co_key o) R); cbn [negb]; [exact IH|]. cbn [find]. rewrite E. exact IH.
Qed.

Lemma cw_fmem_filter (p : cw_key -> bool) x (l : list cw_file) :
  cw_fmem x (filter (fun f => p (fst f)) l) = cw_fmem x l && p x.
Proof.
  unfold cw_fmem. induction l as [|f l IH]; [reflexivity|]. cbn [filter]. destruct (p (fst f)) eqn:Pf; cbn [existsb]; rewrite IH.
  - destruct (cw_keq x (fst f)) eqn:E; cbn [orb]; [|reflexivity]. apply cw_keq_eq in E. subst x. rewrite Pf.
    reflexivity.
  - destruct (cw_keq x (fst f)) eqn:E; cbn [orb]; [|reflexivity]. apply cw_keq_eq in E. subst x. rewrite Pf.
    rewrite andb_false_r. reflexivity.
Qed.

Lemma cw_fget_filter (p : cw_key -> bool) x (l : list cw_file) :
  cw_fget x (filter (fun f => p (fst f)) l) = if p x then cw_fget x l else None.
Proof.
  unfold cw_fget. induction l as [|f l IH]; [destruct (p x); reflexivity|]. cbn [filter find].
  destruct (cw_keq x (fst f)) eqn:E.
  - apply cw_keq_eq in E. subst x. destruct (p (fst f)) eqn:Pf; [cbn [find]; rewrite cw_keq_refl; reflexivity|exact IH].
  - destruct (p (fst f)); [cbn [find]; rewrite E|]; exact IH.
Qed.

Lemma cw_fget_fmem x l : cw_fmem x l = match cw_fget x l with Some _ => true | None => false end.
Proof.
  unfold cw_fmem, cw_fget. induction l as [|f l IH]; [reflexivity|]. cbn [existsb find].
  destruct (cw_keq x (fst f)); [reflexivity|exact IH].
Qed.

(* flags of a key that is not removed / that is removed *)
Lemma cw_flags_rm_notin x R st : cw_kmem x R = false -> cw_flags_of (cw_rm R st) x = cw_flags_of st x.
Proof.
  intros H. unfold cw_flags_of. rewrite cw_find_rm, H. unfold cw_rm. cbn [cs_items cs_files].
  rewrite cw_kmem_filter, (cw_fmem_filter (fun k => negb (cw_kmem k R))), H. cbn [negb]. rewrite !andb_true_r. reflexivity.
Qed.
Lemma cw_flags_rm_in x R st : cw_kmem x R = true -> cw_flags_of (cw_rm R st) x = cw_flags_none.
Proof.
  intros H. unfold cw_flags_of. rewrite cw_find_rm, H. unfold cw_rm. cbn [cs_items cs_files].
  rewrite cw_kmem_filter, (cw_fmem_filter (fun k => negb (cw_kmem k R))), H. cbn [negb]. rewrite !andb_false_r. reflexivity.
Qed.

(* ---------------------------------------------------------------- the invariant: a file belongs to a runtime object *)
Definition cw_finv (st : cw_store) : Prop :=
  forall k, cw_fmem k (cs_files st) = true -> exists o, cw_find k st = Some o /\ co_runtime o = true.

Lemma cw_finv_inv st : cw_finv st -> cw_inv st.
Proof. intros H k Hk. destruct (H k Hk) as (o & Ho & _). eauto. Qed.

Lemma cw_finv_rm R st : cw_finv st -> cw_finv (cw_rm R st).
Proof.
  intros H k Hk. unfold cw_rm in Hk. cbn [cs_files] in Hk.
  rewrite (cw_fmem_filter (fun k => negb (cw_kmem k R))) in Hk. apply andb_prop in Hk as [Hf Hn].
  destruct (H k Hf) as (o & Ho & Hr). exists o. split; [|exact Hr]. rewrite cw_find_rm.
  destruct (cw_kmem k R); [discriminate|exact Ho].
Qed.

(* one step: removing the object k (found as o) = cw_rm [k] *)
Lemma cw_rm_single k o st :
  cw_finv st -> cw_find k st = Some o ->
  {| cs_objs := cw_oremove k (cs_objs st); cs_items := cw_kremove k (cs_items st);
     cs_files := if co_runtime o then cw_fremove k (cs_files st) else cs_files st |} = cw_rm [k] st.
Proof.
  intros Hi Hf. unfold cw_rm, cw_oremove, cw_kremove, cw_fremove. f_equal.
  - apply cw_filter_ext. intros x _. cbn [cw_kmem existsb]. rewrite orb_false_r, cw_keq_sym. reflexivity.
  - apply cw_filter_ext. intros x _. cbn [cw_kmem existsb]. rewrite orb_false_r, cw_keq_sym. reflexivity.
  - destruct (co_runtime o) eqn:Hr.
    + apply cw_filter_ext. intros x _. cbn [cw_kmem existsb]. rewrite orb_false_r, cw_keq_sym. reflexivity.
    + symmetry. apply cw_filter_true. intros f Hin. cbn [cw_kmem existsb]. rewrite orb_false_r.
      destruct (cw_keq (fst f) k) eqn:E; [|reflexivity]. exfalso. apply cw_keq_eq in E.
      assert (Hm : cw_fmem k (cs_files st) = true).
      { unfold cw_fmem. apply existsb_exists. exists f. split; [assumption|]. rewrite <- E. apply cw_keq_refl. }
      destruct (Hi k Hm) as (o' & Ho' & Hr'). congruence.
Qed.

(* DeleteObjectHelper removes a set of keys, all of which were objects *)
Lemma cw_helper_rm : forall f k st, cw_finv st ->
  exists R, cw_del_helper f k st = cw_rm R st /\ (forall r, In r R -> cw_find r st <> None).
Proof.
  induction f as [|f IH]; intros k st Hi.
  - exists []. split; [symmetry; apply cw_rm_nil|intros r []].
  - cbn [cw_del_helper]. destruct (cw_find k st) as [o|] eqn:Hf.
    2:{ exists []. split; [symmetry; apply cw_rm_nil|intros r []]. }
    assert (F : forall ch st1, cw_finv st1 ->
              exists R, fold_left (fun s c => cw_del_helper f c s) ch st1 = cw_rm R st1 /\ (forall r, In r R -> cw_find r st1 <> None)).
    { induction ch as [|c ch IHc]; intros st1 Hi1.
      - exists []. split; [symmetry; apply cw_rm_nil|intros r []].
      - cbn [fold_left]. destruct (IH c st1 Hi1) as (R1 & E1 & P1). rewrite E1.
        destruct (IHc (cw_rm R1 st1) (cw_finv_rm R1 st1 Hi1)) as (R2 & E2 & P2). rewrite E2, cw_rm_app.
        exists (R1 ++ R2). split; [reflexivity|]. intros r Hr. apply in_app_or in Hr as [Hr|Hr]; [apply P1; assumption|].
        specialize (P2 r Hr). rewrite cw_find_rm in P2. destruct (cw_kmem r R1); [congruence|exact P2]. }
    destruct (F (cw_children k st) st Hi) as (R1 & E1 & P1). rewrite E1.
    assert (Hf1 : cw_find k (cw_rm R1 st) = Some o \/ cw_kmem k R1 = true).
    { rewrite cw_find_rm. destruct (cw_kmem k R1); [right; reflexivity|left; exact Hf]. }
    destruct Hf1 as [Hf1|Hin].
    + rewrite (cw_rm_single k o (cw_rm R1 st) (cw_finv_rm R1 st Hi) Hf1), cw_rm_app.
      exists (R1 ++ [k]). split; [reflexivity|]. intros r Hr. apply in_app_or in Hr as [Hr|[<-|[]]]; [apply P1; assumption|congruence].
    + (* k was already removed below (cannot happen on an acyclic graph): removing it again changes nothing *)
      exists R1. split; [|exact P1].
      assert (Hn : cw_find k (cw_rm R1 st) = None) by (rewrite cw_find_rm, Hin; reflexivity).
      unfold cw_rm at 1 2 3. cbn [cs_objs cs_items cs_files]. unfold cw_rm. f_equal.
      * unfold cw_oremove. rewrite cw_filter_filter. apply cw_filter_ext. intros x _.
        destruct (cw_kmem (co_key x) R1) eqn:M; cbn [negb andb]; [reflexivity|].
        destruct (cw_keq k (co_key x)) eqn:E; [|reflexivity]. apply cw_keq_eq in E. rewrite <- E, Hin in M. discriminate.
      * unfold cw_kremove. rewrite cw_filter_filter. apply cw_filter_ext. intros x _.
        destruct (cw_kmem x R1) eqn:M; cbn [negb andb]; [reflexivity|].
        destruct (cw_keq k x) eqn:E; [|reflexivity]. apply cw_keq_eq in E. rewrite <- E, Hin in M. discriminate.
      * destruct (co_runtime o); [|reflexivity].
        unfold cw_fremove. rewrite cw_filter_filter. apply cw_filter_ext. intros x _.
        destruct (cw_kmem (fst x) R1) eqn:M; cbn [negb andb]; [reflexivity|].
        destruct (cw_keq k (fst x)) eqn:E; [|reflexivity]. apply cw_keq_eq in E. rewrite <- E, Hin in M. discriminate.
Qed.

(* every successful delete, cascading or not, removes a set R of objects with their items and files *)
Theorem cw_delete_ok_rm st k c st' :
  cw_finv st -> cw_delete st k c = (st', CwrOk) ->
  exists R, st' = cw_rm R st /\ (forall r, In r R -> cw_find r st <> None) /\ cw_finv st'.
Proof.
  intros Hi. unfold cw_delete. destruct (cw_find k st) as [o|]; [|intros H; inversion H].
  destruct (negb (co_runtime o)); [intros H; inversion H|].
  destruct (negb c && _); intros H; inversion H; subst; clear H.
  destruct (cw_helper_rm (S (length (cs_objs st))) k st Hi) as (R & E & P).
  exists R. split; [exact E|]. split; [exact P|].
  pose proof (cw_finv_rm R st Hi) as Hfin. rewrite <- E in Hfin. exact Hfin.
Qed.

(* the invariant is preserved by create (under the object pre-check), static load and delete *)
Theorem cw_finv_create st ty full nc c o st' r :
  cw_finv st -> cw_create_m true st ty full nc c o = (st', r) -> (forall eff deps, o = CwoOk eff deps -> cw_beq eff full = true) -> cw_finv st'.
Proof.
  intros Hi Hc He. destruct r.
  - destruct o as [| | |eff deps].
    1-3: (unfold cw_create_m in Hc; destruct (cw_find (ty, full) st); inversion Hc).
    destruct (cw_create_ok_complete_m st ty full nc c eff deps st' (cw_finv_inv st Hi) Hc (He _ _ eq_refl)) as (Hn & _ & Ho & Hfl).
    pose proof (He _ _ eq_refl) as Hb. apply cw_beq_eq in Hb. subst eff.
    intros k Hk. rewrite Hfl in Hk. unfold cw_fmem in Hk. cbn [existsb fst] in Hk. unfold cw_find. rewrite Ho. cbn [find co_key].
    destruct (cw_keq k (ty, full)) eqn:E; [eexists; split; reflexivity|]. cbn [orb] in Hk. apply (Hi k Hk).
  - rewrite (cw_create_fail_unchanged_m st ty full nc c o st' (cw_finv_inv st Hi) Hc). exact Hi.
  - exfalso. unfold cw_create_m in Hc. destruct (cw_find (ty, full) st); [inversion Hc|].
    destruct o as [| | |eff deps]; try (inversion Hc; fail). cbn [cs_objs cs_items cs_files] in Hc.
    match type of Hc with context [cw_find (ty, eff) ?s] => destruct (cw_find (ty, eff) s) end; [inversion Hc|].
    match type of Hc with context [negb ?b] => destruct b end; cbn [negb] in Hc; [|inversion Hc].
    destruct (cw_beq eff full); inversion Hc.
Qed.

Lemma cw_fmem_fremove_sub k x l : cw_fmem x (cw_fremove k l) = true -> cw_fmem x l = true.
Proof.
  unfold cw_fremove. rewrite (cw_fmem_filter (fun y => negb (cw_keq k y))). intros H. apply andb_prop in H as [H _]. exact H.
Qed.

(* loading a declaration from ANY origin keeps the invariant; its file joins the _api tree exactly when the origin IS _api *)
Theorem cw_finv_loaded st k nc deps orig c : cw_finv st -> cw_finv (cw_add_loaded st k nc deps orig c).
Proof.
  intros Hi. unfold cw_add_loaded. destruct (cw_find k st) eqn:Hf; [exact Hi|].
  intros x Hx. cbn [cs_files] in Hx.
  assert (Hold : cw_fmem x (cs_files st) = true ->
    exists o, cw_find x {| cs_objs := {| co_key := k; co_pkg := orig; co_deps := deps |} :: cs_objs st;
                           cs_items := (if nc then cs_items st else k :: cs_items st);
                           cs_files := (if cw_origin_runtime orig then (k, c) :: cw_fremove k (cs_files st) else cs_files st) |} = Some o
              /\ co_runtime o = true).
  { intros Hx'. destruct (Hi x Hx') as (o & Ho & Hr). exists o. split; [|exact Hr].
    unfold cw_find. cbn [cs_objs find co_key]. destruct (cw_keq x k) eqn:E; [|exact Ho].
    apply cw_keq_eq in E. subst. congruence. }
  destruct (cw_origin_runtime orig) eqn:Ho; [|exact (Hold Hx)].
  unfold cw_fmem in Hx. cbn [existsb fst] in Hx. destruct (cw_keq x k) eqn:E.
  - eexists. split; [unfold cw_find; cbn [cs_objs find co_key]; rewrite E; reflexivity|exact Ho].
  - cbn [orb] in Hx. apply Hold. apply (cw_fmem_fremove_sub k). exact Hx.
Qed.

Theorem cw_finv_static st k nc deps : cw_finv st -> cw_finv (cw_add_static st k nc deps).
Proof. apply cw_finv_loaded. Qed.

Theorem cw_finv_delete st k c st' r : cw_finv st -> cw_delete st k c = (st', r) -> cw_finv st'.
Proof.
  intros Hi Hd. destruct r.
  - destruct (cw_delete_ok_rm st k c st' Hi Hd) as (R & _ & _ & H). exact H.
  - unfold cw_delete in Hd. destruct (cw_find k st) as [o|]; [|inversion Hd].
    destruct (negb (co_runtime o)); [inversion Hd; subst; exact Hi|]. destruct (negb c && _); inversion Hd; subst; exact Hi.
  - unfold cw_delete in Hd. destruct (cw_find k st) as [o|]; [|inversion Hd; subst; exact Hi].
    destruct (negb (co_runtime o)); [inversion Hd|]. destruct (negb c && _); inversion Hd.
Qed.
