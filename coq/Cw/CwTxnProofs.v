(* C17 - theorems about the transaction model (all-or-nothing create, delete) *)
From Icv Require Import Base.Tac Cw.CwModel Cw.CwTxn Cw.CwStrProofs.
From Coq Require Import NArith.
Local Open Scope N_scope.

Lemma cw_beq_refl a : cw_beq a a = true.
Proof. induction a as [|x a IH]; [reflexivity|]. cbn. rewrite N.eqb_refl, IH. reflexivity. Qed.

Lemma cw_keq_refl k : cw_keq k k = true.
Proof. unfold cw_keq. rewrite !cw_beq_refl. reflexivity. Qed.

Lemma cw_keq_eq a b : cw_keq a b = true -> a = b.
Proof.
  destruct a as [a1 a2], b as [b1 b2]. unfold cw_keq. cbn. intros H. apply andb_prop in H as [H1 H2].
  apply cw_beq_eq in H1, H2. subst. reflexivity.
Qed.

Lemma cw_kremove_notin k l : cw_kmem k l = false -> cw_kremove k l = l.
Proof.
  induction l as [|x l IH]; intros H; [reflexivity|]. cbn in *. apply orb_false_elim in H as [H1 H2].
  rewrite H1. cbn. f_equal. apply IH. exact H2.
Qed.

Lemma cw_fremove_notin k l : cw_fmem k l = false -> cw_fremove k l = l.
Proof.
  induction l as [|x l IH]; intros H; [reflexivity|]. cbn in *. apply orb_false_elim in H as [H1 H2].
  rewrite H1. cbn. f_equal. apply IH. exact H2.
Qed.

(* the regenerated fact: the duplicate pre-check asks the OBJECT registry (fails to check when the source says otherwise) *)
Lemma cw_precheck_fact : cw_src_precheck_object = true.
Proof. reflexivity. Qed.

(* invariant: a file of the _api package belongs to an existing object *)
Definition cw_inv (st : cw_store) : Prop :=
  forall k, cw_fmem k (cs_files st) = true -> exists o, cw_find k st = Some o.

Lemma cw_undo_fresh st k c :
  cw_inv st -> cw_find k st = None ->
  {| cs_objs := cs_objs st; cs_items := cs_items st; cs_files := cw_fremove k ((k, c) :: cw_fremove k (cs_files st)) |} = st.
Proof.
  intros Hi Hf. destruct st as [o i f]. cbn [cs_objs cs_items cs_files].
  assert (Hn : cw_fmem k f = false).
  { destruct (cw_fmem k f) eqn:E; [|reflexivity]. destruct (Hi k E) as (x & Hx). congruence. }
  rewrite (cw_fremove_notin k f Hn).
  assert (Hs : cw_fremove k ((k, c) :: f) = cw_fremove k f).
  { unfold cw_fremove. cbn [filter fst]. rewrite cw_keq_refl. reflexivity. }
  rewrite Hs, (cw_fremove_notin k f Hn). reflexivity.
Qed.

(* failure => objects, items and files - of EVERY object, names and contents - are exactly what they were *)
Theorem cw_create_fail_unchanged_m st ty full nc c o st' :
  cw_inv st -> cw_create_m true st ty full nc c o = (st', CwrFail) -> st' = st.
Proof.
  intros Hi. unfold cw_create_m. destruct (cw_find (ty, full) st) eqn:Hf; [intros H; inversion H; reflexivity|].
  pose proof (cw_undo_fresh st (ty, full) c Hi Hf) as Hu.
  destruct o as [| | |eff deps]; cbn [cs_objs cs_items cs_files]; try (intros H; inversion H; subst; exact Hu).
  match goal with |- context [cw_find (ty, eff) ?s] => destruct (cw_find (ty, eff) s) end;
    [intros H; inversion H; subst; exact Hu|].
  match goal with |- context [negb ?b] => destruct b end; cbn [negb];
    [|intros H; inversion H; subst; exact Hu].
  destruct (cw_beq eff full); intros H; inversion H.
Qed.

Theorem cw_create_fail_unchanged st ty full nc c o st' :
  cw_inv st -> cw_create st ty full nc c o = (st', CwrFail) -> st' = st.
Proof. unfold cw_create. rewrite cw_precheck_fact. apply cw_create_fail_unchanged_m. Qed.

(* success under the requested name => an active runtime object with its file (and item), holding the generated
   bytes; every other object, item and FILE as before *)
Theorem cw_create_ok_complete_m st ty full nc c eff deps st' :
  cw_inv st -> cw_create_m true st ty full nc c (CwoOk eff deps) = (st', CwrOk) -> cw_beq eff full = true ->
  cw_find (ty, full) st = None /\
  cw_flags_of st' (ty, full) =
    {| fl_obj := true; fl_active := true; fl_runtime := true;
       fl_item := (if nc then cw_kmem (ty, full) (cs_items st) else true); fl_file := true |} /\
  cs_objs st' = {| co_key := (ty, full); co_pkg := cw_origin_api; co_deps := deps |} :: cs_objs st /\
  cs_files st' = ((ty, full), c) :: cs_files st.
Proof.
  intros Hi. unfold cw_create_m. destruct (cw_find (ty, full) st) eqn:Hf; [intros H; inversion H|].
  assert (Hn : cw_fmem (ty, full) (cs_files st) = false).
  { destruct (cw_fmem (ty, full) (cs_files st)) eqn:E; [|reflexivity]. destruct (Hi _ E) as (x & Hx). congruence. }
  rewrite (cw_fremove_notin _ _ Hn).
  cbn [cs_objs cs_items cs_files].
  match goal with |- context [cw_find (ty, eff) ?s] => destruct (cw_find (ty, eff) s) end; [intros H; inversion H|].
  match goal with |- context [negb ?b] => destruct b end; cbn [negb]; [|intros H; inversion H].
  intros H Hb. rewrite Hb in H. apply cw_beq_eq in Hb. subst eff. inversion H; subst; clear H.
  split; [reflexivity|]. split; [|split; reflexivity].
  unfold cw_flags_of, cw_find. cbn [cs_objs cs_items cs_files find co_key co_runtime].
  rewrite cw_keq_refl. unfold cw_fmem. cbn [existsb fst]. rewrite cw_keq_refl.
  destruct nc; cbn [cw_kmem existsb]; rewrite ?cw_keq_refl; reflexivity.
Qed.

Theorem cw_create_ok_complete st ty full nc c eff deps st' :
  cw_inv st -> cw_create st ty full nc c (CwoOk eff deps) = (st', CwrOk) -> cw_beq eff full = true ->
  cw_find (ty, full) st = None /\
  cw_flags_of st' (ty, full) =
    {| fl_obj := true; fl_active := true; fl_runtime := true;
       fl_item := (if nc then cw_kmem (ty, full) (cs_items st) else true); fl_file := true |} /\
  cs_objs st' = {| co_key := (ty, full); co_pkg := cw_origin_api; co_deps := deps |} :: cs_objs st /\
  cs_files st' = ((ty, full), c) :: cs_files st.
Proof. unfold cw_create. rewrite cw_precheck_fact. apply cw_create_ok_complete_m. Qed.

(* ---------------------------------------------------------------- delete *)
Theorem cw_delete_refuses_static st k c o :
  cw_find k st = Some o -> co_runtime o = false -> cw_delete st k c = (st, CwrFail).
Proof. intros Hf Hr. unfold cw_delete. rewrite Hf, Hr. reflexivity. Qed.

Theorem cw_delete_needs_cascade st k o :
  cw_find k st = Some o -> cw_children k st <> [] -> cw_delete st k false = (st, CwrFail).
Proof.
  intros Hf Hc. unfold cw_delete. rewrite Hf. destruct (co_runtime o); [|reflexivity]. cbn [negb].
  destruct (cw_children k st); [congruence|reflexivity].
Qed.

(* without dependents: exactly this object, its item and its file go *)
Theorem cw_delete_plain st k c o :
  cw_find k st = Some o -> co_runtime o = true -> cw_children k st = [] ->
  cw_delete st k c =
    ({| cs_objs := cw_oremove k (cs_objs st); cs_items := cw_kremove k (cs_items st); cs_files := cw_fremove k (cs_files st) |}, CwrOk).
Proof.
  intros Hf Hr Hc. unfold cw_delete. rewrite Hf, Hr, Hc. cbn [negb]. rewrite andb_false_r.
  cbn [cw_del_helper]. rewrite Hf, Hc, Hr. reflexivity.
Qed.

Lemma cw_find_oremove k l : find (fun o => cw_keq k (co_key o)) (cw_oremove k l) = None.
Proof.
  induction l as [|x l IH]; [reflexivity|]. cbn. destruct (cw_keq k (co_key x)) eqn:E; cbn; [exact IH|]. rewrite E. exact IH.
Qed.
Lemma cw_kmem_kremove k l : cw_kmem k (cw_kremove k l) = false.
Proof.
  induction l as [|x l IH]; [reflexivity|]. cbn. destruct (cw_keq k x) eqn:E; cbn; [exact IH|]. rewrite E. exact IH.
Qed.
Lemma cw_fmem_fremove k l : cw_fmem k (cw_fremove k l) = false.
Proof.
  induction l as [|x l IH]; [reflexivity|]. cbn. destruct (cw_keq k (fst x)) eqn:E; cbn; [exact IH|]. rewrite E. exact IH.
Qed.

(* a successful delete leaves neither object nor item behind, and no file of a runtime object *)
Theorem cw_delete_ok_gone st k c st' :
  cw_delete st k c = (st', CwrOk) ->
  cw_find k st' = None /\ cw_kmem k (cs_items st') = false /\ cw_fmem k (cs_files st') = false.
Proof.
  unfold cw_delete. destruct (cw_find k st) as [o|] eqn:Hf; [|intros H; inversion H].
  destruct (co_runtime o) eqn:Hr; cbn [negb]; [|intros H; inversion H].
  destruct (negb c && negb match cw_children k st with [] => true | _ :: _ => false end); [intros H; inversion H|].
  cbn [cw_del_helper]. rewrite Hf, Hr. intros H. inversion H; subst; clear H.
  unfold cw_find. cbn [cs_objs cs_items cs_files]. rewrite cw_find_oremove, cw_kmem_kremove, cw_fmem_fremove. auto.
Qed.

(* deleting never creates anything: every object afterwards was there before (cascade or not) *)
Lemma cw_oremove_incl k l : incl (cw_oremove k l) l.
Proof. unfold cw_oremove. intros x Hx. apply filter_In in Hx. tauto. Qed.

Lemma cw_del_helper_incl fuel : forall k st, incl (cs_objs (cw_del_helper fuel k st)) (cs_objs st).
Proof.
  induction fuel as [|f IH]; intros k st; [apply incl_refl|].
  cbn [cw_del_helper]. destruct (cw_find k st); [|apply incl_refl]. cbn [cs_objs].
  eapply incl_tran; [apply cw_oremove_incl|].
  generalize (cw_children k st). intros ch. revert st.
  induction ch as [|c0 ch IHc]; intros st; [apply incl_refl|].
  cbn [fold_left]. eapply incl_tran; [apply IHc|]. apply IH.
Qed.

Theorem cw_delete_only_removes st k c st' r :
  cw_delete st k c = (st', r) -> incl (cs_objs st') (cs_objs st).
Proof.
  unfold cw_delete. destruct (cw_find k st) as [o|]; [|intros H; inversion H; apply incl_refl].
  destruct (negb (co_runtime o)); [intros H; inversion H; apply incl_refl|].
  destruct (negb c && _); intros H; apply (f_equal fst) in H; cbn [fst] in H; rewrite <- H; [apply incl_refl|apply cw_del_helper_incl].
Qed.

(* ---------------------------------------------------------------- never two objects of one type with the same name *)
Definition cw_unique (st : cw_store) : Prop := NoDup (map co_key (cs_objs st)).

Lemma cw_find_none_notin k st : cw_find k st = None -> ~ In k (map co_key (cs_objs st)).
Proof.
  unfold cw_find. intros Hf Hin. apply in_map_iff in Hin as (o & Hk & Ho).
  pose proof (find_none _ _ Hf o Ho) as Hn. cbn in Hn. rewrite Hk, cw_keq_refl in Hn. discriminate.
Qed.

Theorem cw_create_unique_m b st ty full nc c o st' r :
  cw_unique st -> cw_create_m b st ty full nc c o = (st', r) -> cw_unique st'.
Proof.
  unfold cw_unique, cw_create_m. intros Hu.
  match goal with |- context [if ?x then (st, CwrFail) else _] => destruct x end; [intros H; inversion H; subst; exact Hu|].
  destruct o as [| | |eff deps]; cbn [cs_objs cs_items cs_files]; try (intros H; inversion H; subst; exact Hu).
  match goal with |- context [cw_find (ty, eff) ?s] => destruct (cw_find (ty, eff) s) eqn:He end;
    [intros H; inversion H; subst; exact Hu|].
  match goal with |- context [negb ?b] => destruct b end; cbn [negb];
    [|intros H; inversion H; subst; exact Hu].
  apply cw_find_none_notin in He. cbn [cs_objs] in He.
  destruct (cw_beq eff full); intros H; inversion H; subst; cbn [cs_objs map co_key]; constructor; assumption.
Qed.
Theorem cw_create_unique st ty full nc c o st' r :
  cw_unique st -> cw_create st ty full nc c o = (st', r) -> cw_unique st'.
Proof. apply cw_create_unique_m. Qed.

Theorem cw_loaded_unique st k nc deps orig c : cw_unique st -> cw_unique (cw_add_loaded st k nc deps orig c).
Proof.
  unfold cw_unique, cw_add_loaded. intros Hu. destruct (cw_find k st) eqn:Hf; [exact Hu|].
  cbn [cs_objs map co_key]. constructor; [apply cw_find_none_notin; exact Hf|exact Hu].
Qed.
Theorem cw_static_unique st k nc deps : cw_unique st -> cw_unique (cw_add_static st k nc deps).
Proof. apply cw_loaded_unique. Qed.

Lemma cw_nodup_map_filter (p : cw_obj -> bool) l : NoDup (map co_key l) -> NoDup (map co_key (filter p l)).
Proof.
  induction l as [|x l IH]; intros H; [constructor|]. cbn in *. inversion H; subst.
  destruct (p x); cbn; [constructor; [|auto]|auto].
  intros Hin. apply in_map_iff in Hin as (y & Hy & Hin). apply filter_In in Hin as [Hin _].
  apply H2. apply in_map_iff. exists y. auto.
Qed.

Lemma cw_del_helper_unique fuel : forall k st, cw_unique st -> cw_unique (cw_del_helper fuel k st).
Proof.
  induction fuel as [|f IH]; intros k st Hu; [exact Hu|].
  cbn [cw_del_helper]. destruct (cw_find k st); [|exact Hu]. unfold cw_unique. cbn [cs_objs].
  apply cw_nodup_map_filter.
  generalize (cw_children k st). intros ch. revert st Hu.
  induction ch as [|c0 ch IHc]; intros st Hu; [exact Hu|].
  cbn [fold_left]. apply IHc. apply IH. exact Hu.
Qed.

Theorem cw_delete_unique st k c st' r : cw_unique st -> cw_delete st k c = (st', r) -> cw_unique st'.
Proof.
  unfold cw_delete. intros Hu. destruct (cw_find k st) as [o|]; [|intros H; inversion H; subst; exact Hu].
  destruct (negb (co_runtime o)); [intros H; inversion H; subst; exact Hu|].
  destruct (negb c && _); intros H; apply (f_equal fst) in H; cbn [fst] in H; rewrite <- H; [exact Hu|apply cw_del_helper_unique; exact Hu].
Qed.

