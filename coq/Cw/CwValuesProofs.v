(* C17_values as numeric equality: under "at most six fractional digits" the value that comes back is
   numerically EQUAL to the supplied one (corollary of the cw_expect_value statement). *)
From Icv Require Import Base.Tac Facts.Facts_c17 Cw.CwModel Cw.CwTxn Cw.CwStrProofs Cw.CwLexProofs Cw.CwParseProofs Cw.CwNameProofs.
From Coq Require Import NArith.
Local Open Scope N_scope.

Definition cw_digits (l : list N) : Prop := Forall (fun d => d < 10) l.

(* numbers: decimal digits and an integer digit (NO bound on the number of fractional digits any more: the writer
   emits the digits it is given); keys that the lexer accepts *)
Fixpoint cw_six (v : cw_value) : Prop :=
  match v with
  | CwNum _ ip fp => ip <> [] /\ cw_digits ip /\ cw_digits fp
  | CwArr l => cw_six_items l
  | CwDict d => cw_six_entries d
  | _ => True
  end
with cw_six_items (l : cw_vlist) : Prop := match l with VNil => True | VCons v r => cw_six v /\ cw_six_items r end
with cw_six_entries (d : cw_dlist) : Prop :=
  match d with DNil => True | DCons k v r => cw_key_lexes k = true /\ cw_six v /\ cw_six_entries r end.

Lemma cw_norm_id l : cw_digits l -> cw_norm_digits l = l.
Proof.
  induction 1 as [|d l Hd _ IH]; [reflexivity|]. cbn [cw_norm_digits map]. fold (cw_norm_digits l).
  rewrite IH, N.mod_small by assumption. reflexivity.
Qed.

Lemma cw_strip0_take fp : forall n, (length fp <= n)%nat -> cw_strip0 (cw_take6 fp n) = cw_strip0 fp.
Proof.
  intros n. revert fp. induction n as [|n IH]; intros fp H.
  - destruct fp; [reflexivity|cbn in H; lia].
  - destruct fp as [|d r]; cbn [cw_take6 cw_strip0].
    + rewrite (IH []) by (cbn; lia). reflexivity.
    + rewrite (IH r) by (cbn in H; lia). reflexivity.
Qed.

Lemma cw_strip0_pad6 fp : cw_strip0 (cw_pad6 fp) = cw_strip0 fp.
Proof.
  unfold cw_pad6. destruct (Nat.leb (length fp) 6) eqn:E; [|reflexivity].
  apply cw_strip0_take. apply Nat.leb_le. exact E.
Qed.

Lemma cw_leqb_refl l : cw_leqb l l = true.
Proof. induction l as [|x l IH]; [reflexivity|]. cbn. rewrite N.eqb_refl, IH. reflexivity. Qed.

Lemma cw_digits_take fp n : cw_digits fp -> cw_digits (cw_take6 fp n).
Proof.
  revert fp. induction n as [|n IH]; intros fp H; [constructor|].
  destruct fp as [|d r]; cbn [cw_take6].
  - constructor; [reflexivity|apply IH; constructor].
  - inversion H; subst. constructor; [assumption|apply IH; assumption].
Qed.

Lemma cw_digits_pad6 fp : cw_digits fp -> cw_digits (cw_pad6 fp).
Proof. intros H. unfold cw_pad6. destruct (Nat.leb (length fp) 6); [apply cw_digits_take|]; assumption. Qed.

Lemma cw_num_roundtrip neg ip fp :
  cw_digits ip -> cw_digits fp ->
  let '(i, f) := cw_num_digits ip fp in cw_num_eqb neg ip fp neg (cw_norm_digits i) (cw_norm_digits f) = true.
Proof.
  intros Hi Hf. unfold cw_num_digits, cw_num_digits_m. rewrite cw_number_roundtrip_true.
  rewrite (cw_norm_id ip Hi), (cw_norm_id _ (cw_digits_pad6 fp Hf)).
  unfold cw_num_eqb. rewrite cw_strip0_pad6. rewrite !cw_leqb_refl.
  destruct (cw_lstrip0 ip), (cw_strip0 fp); cbn; try reflexivity; destruct neg; reflexivity.
Qed.

Theorem cw_expect_equal_all :
  (forall v, cw_six v -> exists v', cw_expect_value v = Some v' /\ cw_veqb v v' = true) /\
  (forall l, cw_six_items l -> exists l', cw_expect_items l = Some l' /\ cw_vleqb l l' = true) /\
  (forall d, cw_six_entries d -> exists d', cw_expect_entries d = Some d' /\ cw_dleqb d d' = true).
Proof.
  apply cw_value_mutind.
  - intros _. eexists. split; reflexivity.
  - intros b _. eexists. split; [reflexivity|]. destruct b; reflexivity.
  - intros neg ip fp (Hne & Hi & Hf). cbn [cw_expect_value].
    pose proof (cw_num_roundtrip neg ip fp Hi Hf) as H. destruct (cw_num_digits ip fp) as [i f].
    eexists. split; [reflexivity|]. exact H.
  - intros s _. eexists. split; [reflexivity|]. cbn. apply cw_beq_refl'.
  - intros l IH H. destruct (IH H) as (l' & E & Q). cbn [cw_expect_value]. rewrite E.
    eexists. split; [reflexivity|]. exact Q.
  - intros d IH H. destruct (IH H) as (d' & E & Q). cbn [cw_expect_value]. rewrite E.
    eexists. split; [reflexivity|]. exact Q.
  - intros _. eexists. split; reflexivity.
  - intros v IHv l IHl [Hv Hl]. destruct (IHv Hv) as (v' & Ev & Qv). destruct (IHl Hl) as (l' & El & Ql).
    cbn [cw_expect_items]. rewrite Ev, El. eexists. split; [reflexivity|]. cbn [cw_vleqb]. rewrite Qv, Ql. reflexivity.
  - intros _. eexists. split; reflexivity.
  - intros k v IHv d IHd (Hk & Hv & Hd). destruct (IHv Hv) as (v' & Ev & Qv). destruct (IHd Hd) as (d' & Ed & Qd).
    cbn [cw_expect_entries]. rewrite Hk, Ev, Ed. eexists. split; [reflexivity|].
    cbn [cw_dleqb]. rewrite cw_beq_refl', Qv, Qd. reflexivity.
Qed.

Lemma cw_six_wf :
  (forall v, cw_six v -> cw_wf v) /\ (forall l, cw_six_items l -> cw_wf_items l) /\ (forall d, cw_six_entries d -> cw_wf_entries d).
Proof.
  apply cw_value_mutind; cbn [cw_six cw_six_items cw_six_entries cw_wf cw_wf_items cw_wf_entries]; tauto.
Qed.

(* C17_values, numeric form: what is read back is numerically equal to what was supplied *)
Theorem cw_values_equal v ind :
  cw_six v -> exists v', cw_parse_literal (cw_emit_value CwMatch ind v ++ [10]) = Some v' /\ cw_veqb v v' = true.
Proof.
  intros H. rewrite (cw_values_roundtrip v ind (proj1 cw_six_wf v H)).
  exact (proj1 cw_expect_equal_all v H).
Qed.

(* hence the round-trip oracle returns 0 on every such value, and 0 or 1 (number-precision) in general position
   is what the check observes; here: the exact case *)
Theorem cw_oracle_accepts_rt v ind :
  cw_six v -> cw_orc_rt v (cw_parse_literal (cw_emit_value CwMatch ind v ++ [10])) = 0.
Proof.
  intros H. destruct (cw_values_equal v ind H) as (v' & E & Q). rewrite E. unfold cw_orc_rt, cw_orc_value. rewrite Q. reflexivity.
Qed.
