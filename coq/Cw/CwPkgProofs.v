(* C17 - "created at runtime" is the config package named `_api`, EXACTLY: package names are byte strings, the
   criterion of DeleteObject / DeleteObjectHelper is equality with the four bytes `_api`.  A package whose name merely
   begins or ends with `_api`, differs in case, or is a proper prefix of it is some OTHER package: its objects are refused
   (with or without cascade), nothing changes - neither in the three stores nor in the stages of the other packages. *)
From Icv Require Import Base.Tac Facts.Facts_c17 Cw.CwModel Cw.CwTxn Cw.CwStrProofs Cw.CwTxnProofs Cw.CwRemovalProofs Cw.CwFacts.
From Coq Require Import NArith.
Local Open Scope N_scope.

(* the regenerated fact: the literal both functions compare GetPackage() with (None = shape not recognised: the run decides) *)
Lemma cw_pkg_fact : cw_opt_is f_cw_delete_pkg_equals (fun n => n = cw_api_pkg).
Proof. reflexivity. Qed.

Lemma cw_origin_runtime_iff o : cw_origin_runtime o = true <-> o = CwPkg cw_api_pkg.
Proof.
  destruct o as [|n]; cbn [cw_origin_runtime]; split; intros H; try discriminate.
  - apply cw_beq_eq in H. subst. reflexivity.
  - inversion H. apply cw_beq_refl.
Qed.

Lemma cw_origin_foreign o : o <> CwPkg cw_api_pkg -> cw_origin_runtime o = false.
Proof.
  intros H. destruct (cw_origin_runtime o) eqn:E; [|reflexivity]. apply cw_origin_runtime_iff in E. contradiction.
Qed.

(* the refusal, over package NAMES: whatever the object was loaded from - main configuration, or a package whose name is
   not byte-for-byte `_api` - the delete fails and the store is the one before, cascade or not *)
Theorem cw_delete_refuses_foreign st k c o :
  cw_find k st = Some o -> co_pkg o <> CwPkg cw_api_pkg -> cw_delete st k c = (st, CwrFail).
Proof. intros Hf Hp. apply (cw_delete_refuses_static st k c o Hf). unfold co_runtime. apply cw_origin_foreign. exact Hp. Qed.

(* and conversely: a delete that is NOT refused as "not created using the API" (it succeeds) had a target from `_api` *)
Theorem cw_delete_ok_is_api st k c st' o :
  cw_find k st = Some o -> cw_delete st k c = (st', CwrOk) -> co_pkg o = CwPkg cw_api_pkg.
Proof.
  intros Hf Hd. unfold cw_delete in Hd. rewrite Hf in Hd. destruct (co_runtime o) eqn:E; cbn [negb] in Hd; [|inversion Hd].
  apply cw_origin_runtime_iff. exact E.
Qed.

(* a prefix test instead of equality is a different criterion - concrete names *)
Fixpoint cw_prefixb (p s : cw_bytes) : bool :=
  match p, s with
  | [], _ => true
  | x :: p', y :: s' => (x =? y) && cw_prefixb p' s'
  | _ :: _, [] => false
  end.
Definition cw_n_api_import : cw_bytes := [95; 97; 112; 105; 45; 105; 109; 112; 111; 114; 116].    (* _api-import *)
Definition cw_n_api2 : cw_bytes := [95; 97; 112; 105; 50].                                          (* _api2 *)
Definition cw_n_API : cw_bytes := [95; 65; 80; 73].                                                 (* _API *)
Definition cw_n_x_api : cw_bytes := [120; 95; 97; 112; 105].                                        (* x_api *)
Definition cw_n_ap : cw_bytes := [95; 97; 112].                                                     (* _ap *)
Definition cw_foreign_names : list cw_bytes := [cw_n_api_import; cw_n_api2; cw_n_API; cw_n_x_api; cw_n_ap; []].

Lemma cw_foreign_names_distinct : forall n, In n cw_foreign_names -> CwPkg n <> CwPkg cw_api_pkg.
Proof.
  intros n Hin H. inversion H. subst n. cbn in Hin.
  repeat (destruct Hin as [Hin|Hin]; [discriminate Hin|]). exact Hin.
Qed.

(* the hazard: `_api-import` and `_api2` pass a prefix test, so "path/name starts with _api" would take them for runtime *)
Lemma cw_prefix_criterion_differs :
  cw_prefixb cw_api_pkg cw_n_api_import = true /\ cw_origin_runtime (CwPkg cw_n_api_import) = false /\
  cw_prefixb cw_api_pkg cw_n_api2 = true /\ cw_origin_runtime (CwPkg cw_n_api2) = false.
Proof. repeat split; reflexivity. Qed.

(* ---------------------------------------------------------------- the stages of the other packages *)

(* an object deployed through another package (name <> _api): refused, and the WHOLE world - the three stores, the files of
   `_api`, the files of every other package - is what it was *)
Theorem cw_wdelete_refuses_foreign w k c o n :
  cw_find k (ww_store w) = Some o -> co_pkg o = CwPkg n -> n <> cw_api_pkg -> cw_wdelete w k c = (w, CwrFail).
Proof.
  intros Hf Hp Hn. unfold cw_wdelete. rewrite (cw_delete_refuses_foreign _ k c o Hf).
  - destruct w; reflexivity.
  - rewrite Hp. intros H. inversion H. contradiction.
Qed.

(* loading through a foreign package makes a non-runtime object: it is found with that package, and the tree of `_api` is as before *)
Theorem cw_wload_foreign w k nc deps n content :
  cw_find k (ww_store w) = None -> n <> cw_api_pkg ->
  let w' := cw_wload w k nc deps (CwPkg n) content in
  (exists o, cw_find k (ww_store w') = Some o /\ co_pkg o = CwPkg n /\ co_runtime o = false) /\
  cs_files (ww_store w') = cs_files (ww_store w) /\ ww_foreign w' = ww_foreign w ++ [(n, (k, content))].
Proof.
  intros Hf Hn. cbv zeta. unfold cw_wload. rewrite Hf. cbn [ww_store ww_foreign]. unfold cw_add_loaded. rewrite Hf.
  assert (Hb : cw_beq n cw_api_pkg = false).
  { destruct (cw_beq n cw_api_pkg) eqn:E; [|reflexivity]. apply cw_beq_eq in E. contradiction. }
  cbn [cw_origin_runtime]. rewrite Hb. cbn [cs_files]. split; [|split; reflexivity].
  eexists. split; [unfold cw_find; cbn [cs_objs find co_key]; rewrite cw_keq_refl; reflexivity|].
  split; [reflexivity|]. unfold co_runtime. cbn [co_pkg cw_origin_runtime]. exact Hb.
Qed.
