(* C17 - abstract transaction model of ConfigObjectUtility::CreateObject / DeleteObject(Helper) over the
   three stores {objects; config items; files of the _api package - one file per runtime object, WITH its
   content}, and the executable oracle that is run over the IMPLEMENTATION's observations.  No proofs here. *)
From Icv Require Import Base.Tac Facts.Facts_c17 Cw.CwModel.
From Coq Require Import NArith.
Local Open Scope N_scope.

Definition cw_key := (cw_bytes * cw_bytes)%type.          (* (type, full name) *)
Definition cw_keq (a b : cw_key) : bool := cw_beq (fst a) (fst b) && cw_beq (snd a) (snd b).
Definition cw_kmem (k : cw_key) (l : list cw_key) : bool := existsb (cw_keq k) l.
Definition cw_kremove (k : cw_key) (l : list cw_key) : list cw_key := filter (fun x => negb (cw_keq k x)) l.

(* a file below api/packages/_api/<stage>/conf.d: which object it declares and its bytes *)
Definition cw_file := (cw_key * cw_bytes)%type.
Definition cw_fmem (k : cw_key) (l : list cw_file) : bool := existsb (fun f => cw_keq k (fst f)) l.
Definition cw_fget (k : cw_key) (l : list cw_file) : option cw_bytes :=
  match find (fun f => cw_keq k (fst f)) l with Some f => Some (snd f) | None => None end.
Definition cw_fremove (k : cw_key) (l : list cw_file) : list cw_file := filter (fun f => negb (cw_keq k (fst f))) l.

(* Where a declaration was loaded from: the main configuration (no package), or a stage of the config package with
   that NAME (a byte string).  ConfigItem::Commit copies it into the object's `package` attribute. *)
Inductive cw_origin := CwMain | CwPkg (name : cw_bytes).
Definition cw_api_pkg : cw_bytes := [95; 97; 112; 105].                (* "_api" *)
(* "created at runtime": the criterion of DeleteObject (refusal) and DeleteObjectHelper (file removal) is
   `object->GetPackage() == "_api"` - equality of the whole name, byte for byte (fact f_cw_delete_by_package_eq) *)
Definition cw_origin_runtime (o : cw_origin) : bool :=
  match o with CwMain => false | CwPkg n => cw_beq n cw_api_pkg end.
Definition cw_origin_api : cw_origin := CwPkg cw_api_pkg.

Record cw_obj := { co_key : cw_key; co_pkg : cw_origin; co_deps : list cw_key }.
Definition co_runtime (o : cw_obj) : bool := cw_origin_runtime (co_pkg o).
Record cw_store := { cs_objs : list cw_obj; cs_items : list cw_key; cs_files : list cw_file }.
Definition cw_store0 : cw_store := {| cs_objs := []; cs_items := []; cs_files := [] |}.

Definition cw_find (k : cw_key) (st : cw_store) : option cw_obj := find (fun o => cw_keq k (co_key o)) (cs_objs st).
Definition cw_oremove (k : cw_key) (l : list cw_obj) : list cw_obj := filter (fun o => negb (cw_keq k (co_key o))) l.

(* which registry the "Object ... already exists" pre-check of CreateObject consults (regenerated fact):
   true = the OBJECT registry of the type (ConfigType::GetObject(fullName)) - every type, composite names included;
   false = the config ITEM registry (ConfigItem::GetByTypeAndName), which does not know the items of composite-name types *)
Definition cw_src_precheck_object : bool := match f_cw_precheck_by_object with Some b => b | None => true end.

(* how compile / evaluate / commit of the written file went - an input of the model *)
Inductive cw_outcome :=
| CwoCompileErr                                  (* ConfigCompiler::CompileFile throws *)
| CwoEvalErr                                     (* expr->Evaluate throws: nothing registered yet *)
| CwoCommitErr                                   (* CommitItems fails: validation error, dangling reference *)
| CwoOk (eff : cw_bytes) (deps : list cw_key).   (* committed and activated under the EFFECTIVE name *)

Inductive cw_res := CwrOk | CwrFail | CwrNoSuch.

(* nc: the type has a NameComposer - its items live in m_UnnamedItems and leave it at commit.
   byobj: the pre-check asks the object registry (see cw_src_precheck_object).  content: the bytes CreateObjectConfig produced. *)
Definition cw_create_m (byobj : bool) (st : cw_store) (ty full : cw_bytes) (nc : bool) (content : cw_bytes) (o : cw_outcome)
  : cw_store * cw_res :=
  let k := (ty, full) in
  if (if byobj then match cw_find k st with Some _ => true | None => false end else cw_kmem k (cs_items st))
  then (st, CwrFail)                                                  (* "Object ... already exists." *)
  else
      (* AtomicFile::Write: creates the file or REPLACES the bytes of an existing one *)
      let st1 := {| cs_objs := cs_objs st; cs_items := cs_items st; cs_files := (k, content) :: cw_fremove k (cs_files st) |} in
      let undo (s : cw_store) := {| cs_objs := cs_objs s; cs_items := cs_items s; cs_files := cw_fremove k (cs_files s) |} in
      match o with
      | CwoCompileErr | CwoEvalErr => (undo st1, CwrFail)              (* Defer removeConfigPath *)
      | CwoCommitErr => (undo st1, CwrFail)                            (* CommitItems: every new item Unregister()ed *)
      | CwoOk eff deps =>
          let ke := (ty, eff) in
          match cw_find ke st1 with
          | Some _ => (undo st1, CwrFail)                              (* registry refuses a second object of that name *)
          | None =>
              if negb (forallb (fun d => match cw_find d st1 with Some _ => true | None => false end) deps)
              then (undo st1, CwrFail)                                 (* dangling reference: OnAllConfigLoaded throws, commit fails *)
              else
              let st2 := {| cs_objs := {| co_key := ke; co_pkg := cw_origin_api; co_deps := deps |} :: cs_objs st1;
                            cs_items := if nc then cs_items st1 else ke :: cs_items st1;
                            cs_files := cs_files st1 |} in
              (* `ctype->GetObject(fullName)`: only then removeConfigPath.Cancel() *)
              if cw_beq eff full then (st2, CwrOk) else (undo st2, CwrOk)
          end
      end.
Definition cw_create := cw_create_m cw_src_precheck_object.

(* an object loaded from a configuration file at start-up / reload: from the main configuration, from a stage of some
   other config package, or from a file that was already lying in the _api package (what a restart does with the
   objects created at runtime earlier).  Only in the last case the file belongs to the tree of the _api package. *)
Definition cw_add_loaded (st : cw_store) (k : cw_key) (nc : bool) (deps : list cw_key) (orig : cw_origin) (content : cw_bytes) : cw_store :=
  match cw_find k st with
  | Some _ => st
  | None => {| cs_objs := {| co_key := k; co_pkg := orig; co_deps := deps |} :: cs_objs st;
               cs_items := if nc then cs_items st else k :: cs_items st;
               cs_files := if cw_origin_runtime orig then (k, content) :: cw_fremove k (cs_files st) else cs_files st |}
  end.
(* an object loaded from ordinary configuration (no package) *)
Definition cw_add_static (st : cw_store) (k : cw_key) (nc : bool) (deps : list cw_key) : cw_store :=
  cw_add_loaded st k nc deps CwMain [].

(* The stages of the OTHER config packages (name <> "_api"): which package, which object the file declares, its bytes.
   Neither CreateObject nor DeleteObject(Helper) ever touches them: the only file operations of the two are
   AtomicFile::Write / Utility::Remove on paths below packages/_api (the second guarded by GetPackage() == "_api"). *)
Definition cw_pfile := (cw_bytes * cw_file)%type.
Record cw_world := { ww_store : cw_store; ww_foreign : list cw_pfile }.
Definition cw_world0 : cw_world := {| ww_store := cw_store0; ww_foreign := [] |}.
Definition cw_wload (w : cw_world) (k : cw_key) (nc : bool) (deps : list cw_key) (orig : cw_origin) (content : cw_bytes) : cw_world :=
  match cw_find k (ww_store w) with
  | Some _ => w
  | None => {| ww_store := cw_add_loaded (ww_store w) k nc deps orig content;
               ww_foreign := match orig with
                             | CwPkg n => if cw_beq n cw_api_pkg then ww_foreign w else ww_foreign w ++ [(n, (k, content))]
                             | CwMain => ww_foreign w
                             end |}
  end.

Definition cw_children (k : cw_key) (st : cw_store) : list cw_key :=
  map co_key (filter (fun o => cw_kmem k (co_deps o)) (cs_objs st)).

Fixpoint cw_del_helper (fuel : nat) (k : cw_key) (st : cw_store) : cw_store :=
  match fuel with
  | O => st
  | S f =>
      match cw_find k st with
      | None => st
      | Some o =>
          let st1 := fold_left (fun s c => cw_del_helper f c s) (cw_children k st) st in
          {| cs_objs := cw_oremove k (cs_objs st1);
             cs_items := cw_kremove k (cs_items st1);
             cs_files := if co_runtime o then cw_fremove k (cs_files st1) else cs_files st1 |}
      end
  end.

Definition cw_delete (st : cw_store) (k : cw_key) (cascade : bool) : cw_store * cw_res :=
  match cw_find k st with
  | None => (st, CwrNoSuch)                       (* the handler answers 404 before DeleteObject *)
  | Some o =>
      if negb (co_runtime o) then (st, CwrFail)   (* "not created using the API" *)
      else if negb cascade && negb (match cw_children k st with [] => true | _ => false end) then (st, CwrFail)
      else (cw_del_helper (S (length (cs_objs st))) k st, CwrOk)
  end.

(* create / delete in the world: the stages of the other packages are not among the things either of them writes *)
Definition cw_wcreate (w : cw_world) ty full nc content o : cw_world * cw_res :=
  let '(st', r) := cw_create (ww_store w) ty full nc content o in ({| ww_store := st'; ww_foreign := ww_foreign w |}, r).
Definition cw_wdelete (w : cw_world) k cascade : cw_world * cw_res :=
  let '(st', r) := cw_delete (ww_store w) k cascade in ({| ww_store := st'; ww_foreign := ww_foreign w |}, r).

(* ---------------------------------------------------------------- observations and the oracle *)
(* what vdrive prints about one tracked (type, name) *)
Record cw_flags := { fl_obj : bool; fl_active : bool; fl_runtime : bool; fl_item : bool; fl_file : bool }.
Definition cw_flags_eqb (a b : cw_flags) : bool :=
  Bool.eqb (fl_obj a) (fl_obj b) && Bool.eqb (fl_active a) (fl_active b) && Bool.eqb (fl_runtime a) (fl_runtime b)
  && Bool.eqb (fl_item a) (fl_item b) && Bool.eqb (fl_file a) (fl_file b).
Definition cw_flags_none : cw_flags := {| fl_obj := false; fl_active := false; fl_runtime := false; fl_item := false; fl_file := false |}.

Definition cw_flags_of (st : cw_store) (k : cw_key) : cw_flags :=
  match cw_find k st with
  | Some o => {| fl_obj := true; fl_active := true; fl_runtime := co_runtime o; fl_item := cw_kmem k (cs_items st);
                 fl_file := cw_fmem k (cs_files st) |}
  | None => {| fl_obj := false; fl_active := false; fl_runtime := false; fl_item := cw_kmem k (cs_items st);
               fl_file := cw_fmem k (cs_files st) |}
  end.

(* numeric equality of decimal expansions *)
Fixpoint cw_strip0 (l : list N) : list N :=        (* drop trailing zeros *)
  match l with
  | [] => []
  | d :: r => match cw_strip0 r with [] => if d =? 0 then [] else [d] | r' => d :: r' end
  end.
Fixpoint cw_lstrip0 (l : list N) : list N := match l with 0 :: r => cw_lstrip0 r | _ => l end.
Fixpoint cw_leqb (a b : list N) : bool :=
  match a, b with [], [] => true | x :: a', y :: b' => (x =? y) && cw_leqb a' b' | _, _ => false end.
Definition cw_num_eqb (n1 : bool) (i1 f1 : list N) (n2 : bool) (i2 f2 : list N) : bool :=
  let i1' := cw_lstrip0 i1 in let i2' := cw_lstrip0 i2 in
  let f1' := cw_strip0 f1 in let f2' := cw_strip0 f2 in
  cw_leqb i1' i2' && cw_leqb f1' f2' &&
  (match i1', f1' with [], [] => true | _, _ => Bool.eqb n1 n2 end).

Fixpoint cw_veqb (a b : cw_value) : bool :=
  match a, b with
  | CwNull, CwNull => true
  | CwBool x, CwBool y => Bool.eqb x y
  | CwNum n1 i1 f1, CwNum n2 i2 f2 => cw_num_eqb n1 i1 f1 n2 i2 f2
  | CwStr x, CwStr y => cw_beq x y
  | CwArr x, CwArr y => cw_vleqb x y
  | CwDict x, CwDict y => cw_dleqb x y
  | _, _ => false
  end
with cw_vleqb (a b : cw_vlist) : bool :=
  match a, b with
  | VNil, VNil => true
  | VCons x a', VCons y b' => cw_veqb x y && cw_vleqb a' b'
  | _, _ => false
  end
with cw_dleqb (a b : cw_dlist) : bool :=
  match a, b with
  | DNil, DNil => true
  | DCons k x a', DCons k' y b' => cw_beq k k' && cw_veqb x y && cw_dleqb a' b'
  | _, _ => false
  end.

(* the two recorded losses, applied to a supplied value: six decimals (F-C17-b), NUL truncation (F-C17-c) *)
(* the rest of the chunk after a NUL is lost; a chunk ends at the next byte the writer escapes *)
Fixpoint cw_trunc_nul_from (s : cw_bytes) (drop : bool) : cw_bytes :=
  match s with
  | [] => []
  | c :: r =>
      if c =? 0 then cw_trunc_nul_from r true
      else if existsb (fun cr => fst cr =? c) cw_escape_table then c :: cw_trunc_nul_from r false
      else if drop then cw_trunc_nul_from r true else c :: cw_trunc_nul_from r false
  end.
Definition cw_trunc_nul (s : cw_bytes) : cw_bytes := cw_trunc_nul_from s false.
Fixpoint cw_lossy (six nul : bool) (v : cw_value) : cw_value :=
  match v with
  | CwNum neg ip fp => if six then let '(i, f) := cw_round6 ip fp in CwNum neg i f else v
  | CwStr s => if nul then CwStr (cw_trunc_nul s) else v
  | CwArr l => CwArr (cw_lossy_items six nul l)
  | CwDict d => CwDict (cw_lossy_entries six nul d)
  | _ => v
  end
with cw_lossy_items (six nul : bool) (l : cw_vlist) : cw_vlist :=
  match l with VNil => VNil | VCons v r => VCons (cw_lossy six nul v) (cw_lossy_items six nul r) end
with cw_lossy_entries (six nul : bool) (d : cw_dlist) : cw_dlist :=
  match d with DNil => DNil | DCons k v r => DCons k (cw_lossy six nul v) (cw_lossy_entries six nul r) end.

(* verdict codes: 0 ok; 1 number-precision (known); 2 nul-truncation (known); 3 structure / value differs *)
Definition cw_orc_value (supplied got : cw_value) : N :=
  if cw_veqb supplied got then 0
  else if cw_veqb (cw_lossy true false supplied) got then 1
  else if cw_veqb (cw_lossy false true supplied) got then 2
  else 3.

(* round trip of one literal: failure to compile is always acceptable (nothing was created) *)
Definition cw_orc_rt (supplied : cw_value) (got : option cw_value) : N :=
  match got with None => 0 | Some g => cw_orc_value supplied g end.

(* per supplied attribute (key, value read back at that path) *)
Fixpoint cw_orc_attrs (supplied got : cw_dlist) : N :=
  match supplied, got with
  | DNil, DNil => 0
  | DCons k v r, DCons k' v' r' =>
      if cw_beq k k' then match cw_orc_value v v' with 0 => cw_orc_attrs r r' | c => c end else 3
  | _, _ => 3
  end.

(* ---------------------------------------------------------------- the file tree of the package *)
(* what vdrive lists below api/packages/_api after every operation: one entry per .conf file - which object's
   file it is (by path) and a digest of its bytes *)
Definition cw_ftree := list cw_file.
Definition cw_feqb (a b : cw_file) : bool := cw_keq (fst a) (fst b) && cw_beq (snd a) (snd b).
Fixpoint cw_ftree_eqb (a b : cw_ftree) : bool :=
  match a, b with [], [] => true | x :: a', y :: b' => cw_feqb x y && cw_ftree_eqb a' b' | _, _ => false end.
(* the tree of a model state, in the order of the tracked (type, name) pairs *)
Definition cw_ftree_of (tracked : list cw_key) (st : cw_store) : cw_ftree :=
  flat_map (fun k => match cw_fget k (cs_files st) with Some c => [(k, c)] | None => [] end) tracked.

(* create: [pre]/[post] flags of the target, counts of objects and files, globals / other objects untouched,
   the file tree before and after, the bytes CreateObjectConfig generated (when the glue can tell) *)
Record cw_cobs := {
  cb_ok : bool; cb_pre : cw_flags; cb_post : cw_flags;
  cb_nobj_pre : N; cb_nobj_post : N; cb_nfiles_pre : N; cb_nfiles_post : N;
  cb_globals_same : bool; cb_others_same : bool; cb_rest_same : bool;       (* every other tracked entry unchanged *)
  cb_key : cw_key; cb_tree_pre : cw_ftree; cb_tree_post : cw_ftree; cb_content : option cw_bytes
}.
(* the FILES of a create: failure => the tree (names AND contents) is what it was; success => exactly one new
   file, the target's, every other file untouched, its bytes are the generated configuration.
   0 ok; 14 a failed create changed the tree; 15 a successful create: not exactly the target's file is new;
   16 the new file does not hold the generated configuration *)
Definition cw_orc_files_create (b : cw_cobs) : N :=
  if cb_ok b then
    match cw_fget (cb_key b) (cb_tree_pre b), cw_fget (cb_key b) (cb_tree_post b) with
    | None, Some c =>
        if cw_ftree_eqb (cw_fremove (cb_key b) (cb_tree_post b)) (cb_tree_pre b)
        then match cb_content b with Some e => if cw_beq e c then 0 else 16 | None => 0 end
        else 15
    | _, _ => 15
    end
  else if cw_ftree_eqb (cb_tree_pre b) (cb_tree_post b) then 0 else 14.
(* verdict codes 0 ok; 10 failure left something behind / changed something; 11 success without a complete object;
   12 globals or other objects changed; 14-16 see above *)
Definition cw_orc_create (nc : bool) (b : cw_cobs) : N :=
  if negb (cb_globals_same b && cb_others_same b) then 12
  else if negb (cb_rest_same b) then 10
  else if cb_ok b then
    if fl_obj (cb_post b) && fl_active (cb_post b) && fl_runtime (cb_post b) && fl_file (cb_post b)
       && (nc || fl_item (cb_post b)) && negb (fl_obj (cb_pre b))
       && (cb_nobj_post b =? cb_nobj_pre b + 1) && (cb_nfiles_post b =? cb_nfiles_pre b + 1) then cw_orc_files_create b else 11
  else
    if cw_flags_eqb (cb_pre b) (cb_post b) && (cb_nobj_post b =? cb_nobj_pre b) && (cb_nfiles_post b =? cb_nfiles_pre b)
    then cw_orc_files_create b else 10.

(* delete: one entry per tracked (type, name): flags before and after, and the objects it refers to
   (its dependencies, from the request that created it) *)
Record cw_dent := { de_key : cw_key; de_pre : cw_flags; de_post : cw_flags; de_deps : list cw_key }.
Definition cw_de_gone (e : cw_dent) : bool := fl_obj (de_pre e) && negb (fl_obj (de_post e)).
Definition cw_gone_keys (ents : list cw_dent) : list cw_key := map de_key (filter cw_de_gone ents).
Record cw_dobs := {
  db_res : cw_res; db_cascade : bool; db_key : cw_key; db_ents : list cw_dent;
  db_globals_same : bool; db_others_same : bool;
  db_tree_pre : cw_ftree; db_tree_post : cw_ftree
}.
(* the objects that disappeared are EXACTLY the target and its transitive dependents, stated locally:
   the target is gone; whoever referred to a gone object is gone; whoever is gone is the target or referred to a gone object
   (on an acyclic reference graph this is the transitive closure) *)
Definition cw_orc_closure (k : cw_key) (ents : list cw_dent) : bool :=
  let gone := cw_gone_keys ents in
  cw_kmem k gone &&
  forallb (fun e => negb (fl_obj (de_pre e)) || cw_de_gone e || negb (existsb (fun d => cw_kmem d gone) (de_deps e))) ents &&
  forallb (fun e => negb (cw_de_gone e) || cw_keq k (de_key e) || existsb (fun d => cw_kmem d gone) (de_deps e)) ents.
(* 0 ok; 20 refused/failed delete changed something (flags or file tree); 21 deleted but object/item/file remains;
   22 non-runtime object deleted; 23 delete touched an object outside the closure / without cascade another object;
   24 the files that disappeared are not exactly the files of the deleted objects; 25 cascade: not the closure; 12 globals/others *)
Definition cw_orc_delete (b : cw_dobs) : N :=
  if negb (db_globals_same b && db_others_same b) then 12
  else match db_res b with
       | CwrOk =>
           let gone := cw_gone_keys (db_ents b) in
           if negb (existsb (fun e => cw_keq (db_key b) (de_key e) && fl_runtime (de_pre e)) (db_ents b)) then 22
           else if negb (forallb (fun e => negb (cw_de_gone e) || cw_flags_eqb (de_post e) cw_flags_none) (db_ents b)) then 21
           else if negb (cw_kmem (db_key b) gone) then 21
           else if negb (forallb (fun e => cw_de_gone e || cw_flags_eqb (de_pre e) (de_post e)) (db_ents b)) then 23
           else if negb (db_cascade b) && negb (forallb (cw_keq (db_key b)) gone) then 23
           else if negb (cw_orc_closure (db_key b) (db_ents b)) then 25
           else if negb (cw_ftree_eqb (db_tree_post b) (filter (fun f => negb (cw_kmem (fst f) gone)) (db_tree_pre b))) then 24
           else 0
       | _ =>
           if forallb (fun e => cw_flags_eqb (de_pre e) (de_post e)) (db_ents b) && cw_ftree_eqb (db_tree_pre b) (db_tree_post b)
           then 0 else 20
       end.
