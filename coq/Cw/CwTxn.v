(* C17 - abstract transaction model of ConfigObjectUtility::CreateObject / DeleteObject(Helper) over the
   three stores {objects; config items; files of the _api package}, and the executable oracle that is
   run over the IMPLEMENTATION's observations.  No proofs here. *)
From Icv Require Import Base.Tac Cw.CwModel.
From Coq Require Import NArith.
Local Open Scope N_scope.

Definition cw_key := (cw_bytes * cw_bytes)%type.          (* (type, full name) *)
Definition cw_keq (a b : cw_key) : bool := cw_beq (fst a) (fst b) && cw_beq (snd a) (snd b).
Definition cw_kmem (k : cw_key) (l : list cw_key) : bool := existsb (cw_keq k) l.
Definition cw_kremove (k : cw_key) (l : list cw_key) : list cw_key := filter (fun x => negb (cw_keq k x)) l.

Record cw_obj := { co_key : cw_key; co_runtime : bool; co_deps : list cw_key }.
Record cw_store := { cs_objs : list cw_obj; cs_items : list cw_key; cs_files : list cw_key }.
Definition cw_store0 : cw_store := {| cs_objs := []; cs_items := []; cs_files := [] |}.

Definition cw_find (k : cw_key) (st : cw_store) : option cw_obj := find (fun o => cw_keq k (co_key o)) (cs_objs st).
Definition cw_oremove (k : cw_key) (l : list cw_obj) : list cw_obj := filter (fun o => negb (cw_keq k (co_key o))) l.

(* how compile / evaluate / commit of the written file went - an input of the model *)
Inductive cw_outcome :=
| CwoCompileErr                                  (* ConfigCompiler::CompileFile throws *)
| CwoEvalErr                                     (* expr->Evaluate throws: nothing registered yet *)
| CwoCommitErr                                   (* CommitItems fails: validation error, dangling reference *)
| CwoOk (eff : cw_bytes) (deps : list cw_key).   (* committed and activated under the EFFECTIVE name *)

Inductive cw_res := CwrOk | CwrFail | CwrNoSuch.

(* nc: the type has a NameComposer - its items live in m_UnnamedItems and leave it at commit *)
Definition cw_create (st : cw_store) (ty full : cw_bytes) (nc : bool) (o : cw_outcome) : cw_store * cw_res :=
  let k := (ty, full) in
  match cw_find k st with
  | Some _ => (st, CwrFail)                                           (* "Object ... already exists." *)
  | None =>
      let st1 := {| cs_objs := cs_objs st; cs_items := cs_items st; cs_files := k :: cs_files st |} in   (* AtomicFile::Write *)
      let undo (s : cw_store) := {| cs_objs := cs_objs s; cs_items := cs_items s; cs_files := cw_kremove k (cs_files s) |} in
      match o with
      | CwoCompileErr | CwoEvalErr => (undo st1, CwrFail)              (* Defer removeConfigPath *)
      | CwoCommitErr => (undo st1, CwrFail)                            (* CommitItems: every new item Unregister()ed *)
      | CwoOk eff deps =>
          let ke := (ty, eff) in
          match cw_find ke st1 with
          | Some _ => (undo st1, CwrFail)                              (* registry refuses a second object of that name *)
          | None =>
              if negb (forallb (fun d => match cw_find d st1 with Some _ => true | None => false end) deps)
              then (undo st1, CwrFail)                                 (* dangling reference: OnAllConfigLoaded throws, commit fails *)
              else
              let st2 := {| cs_objs := {| co_key := ke; co_runtime := true; co_deps := deps |} :: cs_objs st1;
                            cs_items := if nc then cs_items st1 else ke :: cs_items st1;
                            cs_files := cs_files st1 |} in
              (* `ctype->GetObject(fullName)`: only then removeConfigPath.Cancel() *)
              if cw_beq eff full then (st2, CwrOk) else (undo st2, CwrOk)
          end
      end
  end.

(* an object loaded from ordinary configuration (package <> _api) *)
Definition cw_add_static (st : cw_store) (k : cw_key) (nc : bool) (deps : list cw_key) : cw_store :=
  match cw_find k st with
  | Some _ => st
  | None => {| cs_objs := {| co_key := k; co_runtime := false; co_deps := deps |} :: cs_objs st;
               cs_items := if nc then cs_items st else k :: cs_items st; cs_files := cs_files st |}
  end.

Definition cw_children (k : cw_key) (st : cw_store) : list cw_key :=
  map co_key (filter (fun o => cw_kmem k (co_deps o)) (cs_objs st)).

Fixpoint cw_del_helper (fuel : nat) (k : cw_key) (st : cw_store) : cw_store :=
  match fuel with
  | O => st
  | S f =>
      match cw_find k st with
      | None => st
      | Some o =>
          let st1 := fold_left (fun s c => cw_del_helper f c s) (cw_children k st) st in
          {| cs_objs := cw_oremove k (cs_objs st1);
             cs_items := cw_kremove k (cs_items st1);
             cs_files := if co_runtime o then cw_kremove k (cs_files st1) else cs_files st1 |}
      end
  end.

Definition cw_delete (st : cw_store) (k : cw_key) (cascade : bool) : cw_store * cw_res :=
  match cw_find k st with
  | None => (st, CwrNoSuch)                       (* the handler answers 404 before DeleteObject *)
  | Some o =>
      if negb (co_runtime o) then (st, CwrFail)   (* "not created using the API" *)
      else if negb cascade && negb (match cw_children k st with [] => true | _ => false end) then (st, CwrFail)
      else (cw_del_helper (S (length (cs_objs st))) k st, CwrOk)
  end.

(* ---------------------------------------------------------------- observations and the oracle *)
(* what vdrive prints about one tracked (type, name) *)
Record cw_flags := { fl_obj : bool; fl_active : bool; fl_runtime : bool; fl_item : bool; fl_file : bool }.
Definition cw_flags_eqb (a b : cw_flags) : bool :=
  Bool.eqb (fl_obj a) (fl_obj b) && Bool.eqb (fl_active a) (fl_active b) && Bool.eqb (fl_runtime a) (fl_runtime b)
  && Bool.eqb (fl_item a) (fl_item b) && Bool.eqb (fl_file a) (fl_file b).
Definition cw_flags_none : cw_flags := {| fl_obj := false; fl_active := false; fl_runtime := false; fl_item := false; fl_file := false |}.

Definition cw_flags_of (st : cw_store) (k : cw_key) : cw_flags :=
  match cw_find k st with
  | Some o => {| fl_obj := true; fl_active := true; fl_runtime := co_runtime o; fl_item := cw_kmem k (cs_items st);
                 fl_file := cw_kmem k (cs_files st) |}
  | None => {| fl_obj := false; fl_active := false; fl_runtime := false; fl_item := cw_kmem k (cs_items st);
               fl_file := cw_kmem k (cs_files st) |}
  end.

(* numeric equality of decimal expansions *)
Fixpoint cw_strip0 (l : list N) : list N :=        (* drop trailing zeros *)
  match l with
  | [] => []
  | d :: r => match cw_strip0 r with [] => if d =? 0 then [] else [d] | r' => d :: r' end
  end.
Fixpoint cw_lstrip0 (l : list N) : list N := match l with 0 :: r => cw_lstrip0 r | _ => l end.
Fixpoint cw_leqb (a b : list N) : bool :=
  match a, b with [], [] => true | x :: a', y :: b' => (x =? y) && cw_leqb a' b' | _, _ => false end.
Definition cw_num_eqb (n1 : bool) (i1 f1 : list N) (n2 : bool) (i2 f2 : list N) : bool :=
  let i1' := cw_lstrip0 i1 in let i2' := cw_lstrip0 i2 in
  let f1' := cw_strip0 f1 in let f2' := cw_strip0 f2 in
  cw_leqb i1' i2' && cw_leqb f1' f2' &&
  (match i1', f1' with [], [] => true | _, _ => Bool.eqb n1 n2 end).

Fixpoint cw_veqb (a b : cw_value) : bool :=
  match a, b with
  | CwNull, CwNull => true
  | CwBool x, CwBool y => Bool.eqb x y
  | CwNum n1 i1 f1, CwNum n2 i2 f2 => cw_num_eqb n1 i1 f1 n2 i2 f2
  | CwStr x, CwStr y => cw_beq x y
  | CwArr x, CwArr y => cw_vleqb x y
  | CwDict x, CwDict y => cw_dleqb x y
  | _, _ => false
  end
with cw_vleqb (a b : cw_vlist) : bool :=
  match a, b with
  | VNil, VNil => true
  | VCons x a', VCons y b' => cw_veqb x y && cw_vleqb a' b'
  | _, _ => false
  end
with cw_dleqb (a b : cw_dlist) : bool :=
  match a, b with
  | DNil, DNil => true
  | DCons k x a', DCons k' y b' => cw_beq k k' && cw_veqb x y && cw_dleqb a' b'
  | _, _ => false
  end.

(* the two recorded losses, applied to a supplied value: six decimals (F-C17-b), NUL truncation (F-C17-c) *)
(* the rest of the chunk after a NUL is lost; a chunk ends at the next byte the writer escapes *)
Fixpoint cw_trunc_nul_from (s : cw_bytes) (drop : bool) : cw_bytes :=
  match s with
  | [] => []
  | c :: r =>
      if c =? 0 then cw_trunc_nul_from r true
      else if existsb (fun cr => fst cr =? c) cw_escape_table then c :: cw_trunc_nul_from r false
      else if drop then cw_trunc_nul_from r true else c :: cw_trunc_nul_from r false
  end.
Definition cw_trunc_nul (s : cw_bytes) : cw_bytes := cw_trunc_nul_from s false.
Fixpoint cw_lossy (six nul : bool) (v : cw_value) : cw_value :=
  match v with
  | CwNum neg ip fp => if six then let '(i, f) := cw_round6 ip fp in CwNum neg i f else v
  | CwStr s => if nul then CwStr (cw_trunc_nul s) else v
  | CwArr l => CwArr (cw_lossy_items six nul l)
  | CwDict d => CwDict (cw_lossy_entries six nul d)
  | _ => v
  end
with cw_lossy_items (six nul : bool) (l : cw_vlist) : cw_vlist :=
  match l with VNil => VNil | VCons v r => VCons (cw_lossy six nul v) (cw_lossy_items six nul r) end
with cw_lossy_entries (six nul : bool) (d : cw_dlist) : cw_dlist :=
  match d with DNil => DNil | DCons k v r => DCons k (cw_lossy six nul v) (cw_lossy_entries six nul r) end.

(* verdict codes: 0 ok; 1 number-precision (known); 2 nul-truncation (known); 3 structure / value differs *)
Definition cw_orc_value (supplied got : cw_value) : N :=
  if cw_veqb supplied got then 0
  else if cw_veqb (cw_lossy true false supplied) got then 1
  else if cw_veqb (cw_lossy false true supplied) got then 2
  else 3.

(* round trip of one literal: failure to compile is always acceptable (nothing was created) *)
Definition cw_orc_rt (supplied : cw_value) (got : option cw_value) : N :=
  match got with None => 0 | Some g => cw_orc_value supplied g end.

(* per supplied attribute (key, value read back at that path) *)
Fixpoint cw_orc_attrs (supplied got : cw_dlist) : N :=
  match supplied, got with
  | DNil, DNil => 0
  | DCons k v r, DCons k' v' r' =>
      if cw_beq k k' then match cw_orc_value v v' with 0 => cw_orc_attrs r r' | c => c end else 3
  | _, _ => 3
  end.

(* create: [pre]/[post] flags of the target, counts of objects and files, globals / other objects untouched *)
Record cw_cobs := {
  cb_ok : bool; cb_pre : cw_flags; cb_post : cw_flags;
  cb_nobj_pre : N; cb_nobj_post : N; cb_nfiles_pre : N; cb_nfiles_post : N;
  cb_globals_same : bool; cb_others_same : bool; cb_rest_same : bool        (* every other tracked entry unchanged *)
}.
(* verdict codes 0 ok; 10 failure left something behind / changed something; 11 success without a complete object;
   12 globals or other objects changed *)
Definition cw_orc_create (nc : bool) (b : cw_cobs) : N :=
  if negb (cb_globals_same b && cb_others_same b) then 12
  else if negb (cb_rest_same b) then 10
  else if cb_ok b then
    if fl_obj (cb_post b) && fl_active (cb_post b) && fl_runtime (cb_post b) && fl_file (cb_post b)
       && (nc || fl_item (cb_post b)) && negb (fl_obj (cb_pre b))
       && (cb_nobj_post b =? cb_nobj_pre b + 1) && (cb_nfiles_post b =? cb_nfiles_pre b + 1) then 0 else 11
  else
    if cw_flags_eqb (cb_pre b) (cb_post b) && (cb_nobj_post b =? cb_nobj_pre b) && (cb_nfiles_post b =? cb_nfiles_pre b)
    then 0 else 10.

Record cw_dobs := {
  db_res : cw_res; db_cascade : bool; db_pre : cw_flags; db_post : cw_flags;
  db_nobj_pre : N; db_nobj_post : N; db_nfiles_pre : N; db_nfiles_post : N;
  db_globals_same : bool; db_others_same : bool;
  db_nondep_same : bool;      (* every tracked entry that does not depend on the target is unchanged *)
  db_dep_changed : bool       (* some tracked dependent changed *)
}.
(* 0 ok; 20 refused/failed delete changed something; 21 deleted but object/item/file remains;
   22 non-runtime object deleted; 23 non-cascading delete touched another object; 12 globals/others *)
Definition cw_orc_delete (b : cw_dobs) : N :=
  if negb (db_globals_same b && db_others_same b) then 12
  else match db_res b with
       | CwrOk =>
           if negb (fl_runtime (db_pre b)) then 22
           else if fl_obj (db_post b) || fl_item (db_post b) || fl_file (db_post b) then 21
           else if negb (db_nondep_same b) then 23
           else if negb (db_cascade b) && (db_dep_changed b || negb (db_nobj_post b + 1 =? db_nobj_pre b) || negb (db_nfiles_post b + 1 =? db_nfiles_pre b)) then 23
           else 0
       | _ =>
           if cw_flags_eqb (db_pre b) (db_post b) && db_nondep_same b && negb (db_dep_changed b)
              && (db_nobj_post b =? db_nobj_pre b) && (db_nfiles_post b =? db_nfiles_pre b) then 0 else 20
       end.
