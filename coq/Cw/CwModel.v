(* C17 - executable model (no proofs): ConfigWriter (lib/base/configwriter.cpp), the config lexer's
   INITIAL/STRING/HEREDOC/C_COMMENT states (lib/config/config_lexer.ll), a recogniser for exactly the
   token skeleton the writer produces (config_parser.yy: object declaration, import, `lhs = literal`),
   ConfigObjectUtility::CreateObjectConfig, and an abstract transaction model of CreateObject /
   DeleteObject(Helper) over {objects; items; files}.
   Bytes are N (< 256).  Tables that the source defines (keyword lists, escape table, which regex
   function, whether imports are escaped, the lexer's chunk rule) come from Facts/Facts_c17.v,
   regenerated from /repo on every run, so the model FOLLOWS the code. *)
From Icv Require Import Base.Tac Facts.Facts_c17.
From Coq Require Import NArith.
Local Open Scope N_scope.

Definition cw_bytes := list N.

Fixpoint cw_beq (a b : cw_bytes) : bool :=
  match a, b with
  | [], [] => true
  | x :: a', y :: b' => (x =? y) && cw_beq a' b'
  | _, _ => false
  end.
Definition cw_mem (a : cw_bytes) (l : list cw_bytes) : bool := existsb (cw_beq a) l.

(* unsigned lexicographic order (std::string::compare = what std::map<String,..> uses) *)
Fixpoint cw_bcmp (a b : cw_bytes) : comparison :=
  match a, b with
  | [], [] => Eq
  | [], _ => Lt
  | _, [] => Gt
  | x :: a', y :: b' => match x ?= y with Eq => cw_bcmp a' b' | c => c end
  end.

(* ---------------------------------------------------------------- source tables *)
Definition cw_writer_keywords : list cw_bytes := match f_cw_writer_keywords with Some l => l | None => [] end.
Definition cw_lexer_keywords : list cw_bytes := match f_cw_lexer_keywords with Some l => l | None => [] end.
Definition cw_escape_table : list (N * cw_bytes) := match f_cw_escape_table with Some l => l | None => [] end.
Definition cw_lexer_escapes : list (N * N) := match f_cw_lexer_escapes with Some l => l | None => [] end.
Inductive cw_imode := CwSearch | CwMatch.
Definition cw_src_mode : cw_imode := match f_cw_ident_whole_match with Some false => CwSearch | _ => CwMatch end.
Definition cw_chunk_whole : bool := match f_cw_lexer_chunk_whole with Some b => b | None => false end.
Definition cw_src_import_escaped : bool := match f_cw_import_escaped with Some b => b | None => false end.
Definition cw_src_number_roundtrip : bool := match f_cw_number_roundtrip with Some b => b | None => false end.
Definition cw_src_name_exact : bool := match f_cw_service_name_exact with Some b => b | None => false end.

(* ---------------------------------------------------------------- character classes *)
Definition cw_is_alpha (c : N) : bool := ((65 <=? c) && (c <=? 90)) || ((97 <=? c) && (c <=? 122)) || (c =? 95).
Definition cw_is_digit (c : N) : bool := (48 <=? c) && (c <=? 57).
Definition cw_is_idc (c : N) : bool := cw_is_alpha c || cw_is_digit c.
(* boost::regex (perl syntax, narrow char): line separators recognised by ^ and $ *)
Definition cw_is_sep (c : N) : bool := (c =? 10) || (c =? 13) || (c =? 12).

(* [a-zA-Z_][a-zA-Z0-9\_]* against the WHOLE string (boost::regex_match) *)
Definition cw_ident_whole (s : cw_bytes) : bool :=
  match s with c :: r => cw_is_alpha c && forallb cw_is_idc r | [] => false end.

Fixpoint cw_lines (s cur : cw_bytes) : list cw_bytes :=
  match s with
  | [] => [rev cur]
  | c :: r => if cw_is_sep c then rev cur :: cw_lines r [] else cw_lines r (c :: cur)
  end.
(* ^[a-zA-Z_][a-zA-Z0-9\_]*$ with boost::regex_search: ^ and $ also match at embedded line breaks and
   the match may start anywhere, i.e. SOME line is an identifier *)
Definition cw_ident_search (s : cw_bytes) : bool := existsb cw_ident_whole (cw_lines s []).
Definition cw_ident_ok (m : cw_imode) (s : cw_bytes) : bool :=
  match m with CwSearch => cw_ident_search s | CwMatch => cw_ident_whole s end.

(* ---------------------------------------------------------------- data model *)
Inductive cw_value :=
| CwNull | CwBool (b : bool)
| CwNum (neg : bool) (ip fp : list N)      (* exact decimal expansion: digits of integer / fractional part *)
| CwStr (s : cw_bytes)
| CwArr (l : cw_vlist)
| CwDict (d : cw_dlist)
with cw_vlist := VNil | VCons (v : cw_value) (l : cw_vlist)
with cw_dlist := DNil | DCons (k : cw_bytes) (v : cw_value) (d : cw_dlist).

(* ---------------------------------------------------------------- ConfigWriter *)
(* boost::algorithm::replace_all with a one-byte search pattern *)
Definition cw_replace_all (c : N) (r : cw_bytes) (s : cw_bytes) : cw_bytes :=
  flat_map (fun x => if x =? c then r else [x]) s.
(* EscapeIcingaString: the passes in source order *)
Definition cw_escape (s : cw_bytes) : cw_bytes :=
  fold_left (fun acc cr => cw_replace_all (fst cr) (snd cr) acc) cw_escape_table s.
Definition cw_emit_string (s : cw_bytes) : cw_bytes := 34 :: cw_escape s ++ [34].

(* EmitNumber: `fp << std::fixed << val`, precision 6, correctly rounded (half to even on the exact value) *)
Definition cw_dchar (d : N) : N := 48 + d mod 10.
Fixpoint cw_take6 (fp : list N) (n : nat) : list N :=
  match n with
  | O => []
  | S n' => match fp with [] => 0 :: cw_take6 [] n' | d :: r => d :: cw_take6 r n' end
  end.
Definition cw_tail_cmp (t : list N) : comparison :=
  match t with
  | [] => Lt
  | d :: r => if d <? 5 then Lt else if 5 <? d then Gt else if forallb (N.eqb 0) r then Eq else Gt
  end.
Fixpoint cw_incr_rev (l : list N) : list N * bool :=
  match l with
  | [] => ([], true)
  | d :: r => if d =? 9 then let '(r', c) := cw_incr_rev r in (0 :: r', c) else ((d + 1) :: r, false)
  end.
Definition cw_round6 (ip fp : list N) : list N * list N :=
  let f6 := cw_take6 fp 6 in
  let up := match cw_tail_cmp (skipn 6 fp) with Lt => false | Gt => true | Eq => N.odd (last f6 0) end in
  if up then
    let '(f', c) := cw_incr_rev (rev f6) in
    if c then let '(i', c') := cw_incr_rev (rev ip) in (if c' then 1 :: rev i' else rev i', rev f')
    else (ip, rev f')
  else (ip, f6).
(* EmitNumber.  rt = false (as pinned): always six decimals, correctly rounded.
   rt = true (round-trip form): six decimals, and more only while the text would not read back as the same
   binary64.  The supplied digit lists ARE that text's digits - the shortest fixed notation with at least six
   decimals that reads back as the double (explicit input, computed independently by the generator and tied by
   the run) - so the writer prints them, padded with zeros to six decimals. *)
Definition cw_pad6 (fp : list N) : list N := if Nat.leb (length fp) 6 then cw_take6 fp 6 else fp.
Definition cw_num_digits_m (rt : bool) (ip fp : list N) : list N * list N :=
  if rt then (ip, cw_pad6 fp) else cw_round6 ip fp.
Definition cw_num_digits := cw_num_digits_m cw_src_number_roundtrip.
Definition cw_emit_number_m (rt : bool) (neg : bool) (ip fp : list N) : cw_bytes :=
  let '(i, f) := cw_num_digits_m rt ip fp in
  (if neg then [45] else []) ++ map cw_dchar i ++ 46 :: map cw_dchar f.
Definition cw_emit_number := cw_emit_number_m cw_src_number_roundtrip.

Definition cw_emit_key (m : cw_imode) (k : cw_bytes) : cw_bytes :=
  if cw_mem k cw_writer_keywords then 64 :: k
  else if cw_ident_ok m k then k
  else cw_emit_string k.
(* EmitIdentifier(..., inAssignment = false) *)
Definition cw_emit_identifier (m : cw_imode) (k : cw_bytes) : option cw_bytes :=
  if cw_mem k cw_writer_keywords then Some (64 :: k)
  else if cw_ident_ok m k then Some k
  else None.

Fixpoint cw_tabs (n : nat) : cw_bytes := match n with O => [] | S k => 9 :: cw_tabs k end.

Definition cw_s_null : cw_bytes := [110; 117; 108; 108].
Definition cw_s_true : cw_bytes := [116; 114; 117; 101].
Definition cw_s_false : cw_bytes := [102; 97; 108; 115; 101].
Definition cw_s_object : cw_bytes := [111; 98; 106; 101; 99; 116].
Definition cw_s_import : cw_bytes := [105; 109; 112; 111; 114; 116].
Definition cw_s_ignore_on_error : cw_bytes := [105; 103; 110; 111; 114; 101; 95; 111; 110; 95; 101; 114; 114; 111; 114].
Definition cw_s_eq : cw_bytes := [32; 61; 32].            (* " = " *)

Fixpoint cw_emit_value (m : cw_imode) (ind : nat) (v : cw_value) : cw_bytes :=
  match v with
  | CwNull => cw_s_null
  | CwBool b => if b then cw_s_true else cw_s_false
  | CwNum neg ip fp => cw_emit_number neg ip fp
  | CwStr s => cw_emit_string s
  | CwArr l => 91 :: 32 :: cw_emit_items m ind l ++ (match l with VNil => [] | _ => [32] end) ++ [93]
  | CwDict d => 123 :: cw_emit_entries m ind d ++ 10 :: cw_tabs (ind - 1) ++ [125]
  end
with cw_emit_items (m : cw_imode) (ind : nat) (l : cw_vlist) : cw_bytes :=
  match l with
  | VNil => []
  | VCons v r => cw_emit_value m ind v ++ (match r with VNil => [] | _ => 44 :: 32 :: cw_emit_items m ind r end)
  end
with cw_emit_entries (m : cw_imode) (ind : nat) (d : cw_dlist) : cw_bytes :=
  match d with
  | DNil => []
  | DCons k v r => 10 :: cw_tabs ind ++ cw_emit_key m k ++ cw_s_eq ++ cw_emit_value m (S ind) v ++ cw_emit_entries m ind r
  end.

(* String::Split(".") = boost::split, no token compression *)
Fixpoint cw_split (sep : N) (s cur : cw_bytes) : list cw_bytes :=
  match s with
  | [] => [rev cur]
  | c :: r => if c =? sep then rev cur :: cw_split sep r [] else cw_split sep r (c :: cur)
  end.

Fixpoint cw_emit_index (l : list cw_bytes) : cw_bytes :=
  match l with [] => [] | t :: r => 91 :: cw_emit_string t ++ 93 :: cw_emit_index r end.

Definition cw_emit_lhs (m : cw_imode) (k : cw_bytes) : cw_bytes :=
  let toks := cw_split 46 k [] in cw_emit_key m (hd [] toks) ++ cw_emit_index (tl toks).

Fixpoint cw_emit_top (m : cw_imode) (d : cw_dlist) : cw_bytes :=
  match d with
  | DNil => []
  | DCons k v r => 10 :: 9 :: cw_emit_lhs m k ++ cw_s_eq ++ cw_emit_value m 2 v ++ cw_emit_top m r
  end.

(* the template name is streamed raw between double quotes or, once fixed, through EmitString *)
Definition cw_emit_import (esc : bool) (s : cw_bytes) : cw_bytes :=
  cw_s_import ++ 32 :: (if esc then cw_emit_string s else 34 :: s ++ [34]).
Fixpoint cw_emit_imports (esc : bool) (l : list cw_bytes) : cw_bytes :=
  match l with [] => [] | s :: r => 10 :: 9 :: cw_emit_import esc s ++ cw_emit_imports esc r end.

(* EmitConfigItem(isTemplate = false) followed by EmitRaw("\n") *)
Definition cw_emit_item_m (m : cw_imode) (esc : bool) (ty name : cw_bytes) (ign : bool) (imports : list cw_bytes)
           (attrs : cw_dlist) : option cw_bytes :=
  match cw_emit_identifier m ty with
  | None => None
  | Some tyb =>
      Some (cw_s_object ++ 32 :: tyb ++ 32 :: cw_emit_string name
            ++ (if ign then 32 :: cw_s_ignore_on_error else []) ++ 32 :: 123
            :: (match imports with [] => [] | _ => cw_emit_imports esc imports ++ [10] end)
            ++ cw_emit_top m attrs ++ [10; 125; 10])
  end.
Definition cw_emit_item := cw_emit_item_m cw_src_mode cw_src_import_escaped.

(* ---------------------------------------------------------------- dictionaries as std::map *)
Fixpoint cw_dset (k : cw_bytes) (v : cw_value) (d : cw_dlist) : cw_dlist :=
  match d with
  | DNil => DCons k v DNil
  | DCons k' v' r => match cw_bcmp k k' with
                     | Lt => DCons k v d
                     | Eq => DCons k v r
                     | Gt => DCons k' v' (cw_dset k v r)
                     end
  end.
Fixpoint cw_dremove (k : cw_bytes) (d : cw_dlist) : cw_dlist :=
  match d with
  | DNil => DNil
  | DCons k' v' r => if cw_beq k k' then cw_dremove k r else DCons k' v' (cw_dremove k r)
  end.
Fixpoint cw_dget (k : cw_bytes) (d : cw_dlist) : option cw_value :=
  match d with
  | DNil => None
  | DCons k' v' r => if cw_beq k k' then Some v' else cw_dget k r
  end.
Fixpoint cw_dcopy (src dst : cw_dlist) : cw_dlist :=
  match src with DNil => dst | DCons k v r => cw_dcopy r (cw_dset k v dst) end.
Fixpoint cw_dkeys (d : cw_dlist) : list cw_bytes := match d with DNil => [] | DCons k _ r => k :: cw_dkeys r end.

(* ---------------------------------------------------------------- CreateObjectConfig *)
Definition cw_s_name : cw_bytes := [110; 97; 109; 101].
Definition cw_s_host_name : cw_bytes := [104; 111; 115; 116; 95; 110; 97; 109; 101].
Definition cw_s_version : cw_bytes := [118; 101; 114; 115; 105; 111; 110].

(* the attribute whitelist: GetFieldId(prefix before the first '.') >= 0, FAConfig, key <> "name" *)
Fixpoint cw_attrs_allowed (allf cfgf : list cw_bytes) (d : cw_dlist) : bool :=
  match d with
  | DNil => true
  | DCons k _ r =>
      let pre := hd [] (cw_split 46 k []) in
      cw_mem pre allf && cw_mem pre cfgf && negb (cw_beq k cw_s_name) && cw_attrs_allowed allf cfgf r
  end.

(* nc = the type has a NameComposer (Service: host!name; with `tokens.size() < 2` as the only test,
   further '!'-separated parts are DROPPED) *)
Definition cw_name_parts_m (exact : bool) (nc : bool) (full : cw_bytes) : option (cw_bytes * option cw_bytes) :=
  if nc then
    match cw_split 33 full [] with
    | h :: n :: rest => if exact then (match rest with [] => Some (n, Some h) | _ => None end) else Some (n, Some h)
    | _ => None
    end
  else Some (full, None).
Definition cw_name_parts := cw_name_parts_m cw_src_name_exact.

Definition cw_all_attrs (host : option cw_bytes) (attrs : cw_dlist) (version : cw_value) : cw_dlist :=
  let a0 := cw_dcopy attrs DNil in
  let a1 := match host with Some h => cw_dset cw_s_name CwNull (cw_dset cw_s_host_name (CwStr h) a0) | None => a0 end in
  cw_dset cw_s_version version (cw_dremove cw_s_name a1).

Definition cw_create_config (allf cfgf : list cw_bytes) (nc : bool) (ty full : cw_bytes) (ign : bool)
           (imports : list cw_bytes) (attrs : cw_dlist) (version : cw_value) : option cw_bytes :=
  match cw_name_parts nc full with
  | None => None
  | Some (name, host) =>
      if cw_attrs_allowed allf cfgf (cw_dcopy attrs DNil) then
        cw_emit_item ty name ign imports (cw_all_attrs host attrs version)
      else None
  end.

(* Notification / Dependency / ScheduledDowntime / Comment / Downtime: `host!name` or `host!service!name`
   (`tokens.size() < 2` throws, with more than two tokens the first three are used).  hk / sk are the attribute
   names of the two leading parts (host_name, service_name; child_host_name, child_service_name for Dependency). *)
Definition cw_src_name3_exact : bool := match f_cw_composite_name_exact with Some b => b | None => false end.
(* exact = false: the code as pinned (further parts dropped, an empty middle part accepted and then ignored by MakeName);
   exact = true: at most three parts and a non-empty middle part are required *)
Definition cw_name_parts3_m (exact : bool) (full : cw_bytes) : option (cw_bytes * cw_bytes * option cw_bytes) :=
  match cw_split 33 full [] with
  | h :: n :: [] => Some (n, h, None)
  | h :: sv :: n :: rest =>
      if exact then (match rest with [] => if cw_beq sv [] then None else Some (n, h, Some sv) | _ => None end)
      else Some (n, h, Some sv)
  | _ => None
  end.
Definition cw_name_parts3 := cw_name_parts3_m cw_src_name3_exact.
Definition cw_all_attrs3 (hk sk h : cw_bytes) (sv : option cw_bytes) (attrs : cw_dlist) (version : cw_value) : cw_dlist :=
  let a0 := cw_dcopy attrs DNil in
  let a1 := cw_dset hk (CwStr h) a0 in
  let a2 := match sv with Some x => cw_dset sk (CwStr x) a1 | None => a1 end in
  cw_dset cw_s_version version (cw_dremove cw_s_name (cw_dset cw_s_name CwNull a2)).
Definition cw_create_config3 (allf cfgf : list cw_bytes) (hk sk ty full : cw_bytes) (ign : bool)
           (imports : list cw_bytes) (attrs : cw_dlist) (version : cw_value) : option cw_bytes :=
  match cw_name_parts3 full with
  | None => None
  | Some (name, h, sv) =>
      if cw_attrs_allowed allf cfgf (cw_dcopy attrs DNil) then
        cw_emit_item ty name ign imports (cw_all_attrs3 hk sk h sv attrs version)
      else None
  end.
(* the name under which such a declaration registers its object (NameComposer::MakeName) *)
Definition cw_effective_name3 (hk sk name : cw_bytes) (all : cw_dlist) : option cw_bytes :=
  match cw_dget hk all with
  | Some (CwStr h) =>
      match cw_dget sk all with
      | Some (CwStr sv) => Some (h ++ 33 :: (if cw_beq sv [] then name else sv ++ 33 :: name))
      | _ => Some (h ++ 33 :: name)
      end
  | _ => None
  end.

(* ---------------------------------------------------------------- lexer *)
Inductive cw_tok :=
| CwTStr (s : cw_bytes)
| CwTId (s : cw_bytes)
| CwTKw (s : cw_bytes)
| CwTNum (ip fp : list N) (sfx : cw_bytes)
| CwTNl
| CwTP (c : N)
| CwTOp (s : cw_bytes).

(* STRING state, one byte at a time.  SsDrop: inside a chunk (maximal run without backslash, newline, double quote) after a NUL (the chunk rule
   copies with `while ( *yptr )`, so the remainder of the chunk is lost) *)
Inductive cw_sst := SsNorm | SsDrop | SsEsc | SsOct (n : nat) (v : N).

Fixpoint cw_assoc (c : N) (l : list (N * N)) : option N :=
  match l with [] => None | (a, b) :: r => if c =? a then Some b else cw_assoc c r end.

(* [whole]: the chunk rule copies yyleng bytes (true) or stops at the first NUL (false, as pinned) *)
Fixpoint cw_lex_str_m (whole : bool) (s : cw_bytes) (st : cw_sst) (acc : cw_bytes) : option (cw_bytes * cw_bytes) :=
  match s with
  | [] => None                                    (* <STRING><<EOF>> *)
  | c :: r =>
      let norm (acc : cw_bytes) :=
        if c =? 34 then Some (rev acc, r)
        else if c =? 10 then None                 (* unterminated string literal *)
        else if c =? 92 then cw_lex_str_m whole r SsEsc acc
        else if c =? 0 then (if whole then cw_lex_str_m whole r SsNorm (c :: acc) else cw_lex_str_m whole r SsDrop acc)
        else match st with SsDrop => cw_lex_str_m whole r SsDrop acc | _ => cw_lex_str_m whole r SsNorm (c :: acc) end in
      match st with
      | SsNorm | SsDrop => norm acc
      | SsEsc =>
          if cw_is_digit c then (if c <? 56 then cw_lex_str_m whole r (SsOct 1 (c - 48)) acc else None)
          else if c =? 10 then cw_lex_str_m whole r SsNorm (c :: acc)
          else match cw_assoc c cw_lexer_escapes with
               | Some b => cw_lex_str_m whole r SsNorm (b :: acc)
               | None => None                     (* bad escape sequence *)
               end
      | SsOct n v =>
          if cw_is_digit c then
            (if (c <? 56) && Nat.ltb n 3 then cw_lex_str_m whole r (SsOct (S n) (v * 8 + (c - 48))) acc else None)
          else if 255 <? v then None
          else (* the escape is complete; c is scanned in the normal state *)
            let acc := v :: acc in
            if c =? 34 then Some (rev acc, r)
            else if c =? 10 then None
            else if c =? 92 then cw_lex_str_m whole r SsEsc acc
            else if c =? 0 then (if whole then cw_lex_str_m whole r SsNorm (c :: acc) else cw_lex_str_m whole r SsDrop acc)
            else cw_lex_str_m whole r SsNorm (c :: acc)
      end
  end.
Definition cw_lex_str := cw_lex_str_m cw_chunk_whole.

(* HEREDOC state: up to the first `}}}` *)
Fixpoint cw_heredoc (s acc : cw_bytes) : option (cw_bytes * cw_bytes) :=
  match s with
  | [] => None
  | c :: r =>
      match c, r with
      | 125, 125 :: 125 :: r' => Some (rev acc, r')
      | _, _ => cw_heredoc r (c :: acc)
      end
  end.

(* C_COMMENT state *)
Fixpoint cw_comment (s : cw_bytes) : option cw_bytes :=
  match s with
  | [] => None
  | c :: r => match c, r with 42, 47 :: r' => Some r' | _, _ => cw_comment r end
  end.

Fixpoint cw_span (p : N -> bool) (s : cw_bytes) : cw_bytes * cw_bytes :=
  match s with
  | c :: r => if p c then let '(a, b) := cw_span p r in (c :: a, b) else ([], s)
  | [] => ([], [])
  end.

Definition cw_ops2 : list cw_bytes :=
  [[61; 62]; [60; 60]; [62; 62]; [60; 61]; [62; 61]; [61; 61]; [33; 61]; [38; 38]; [124; 124]; [123; 123]; [125; 125];
   [43; 61]; [45; 61]; [42; 61]; [47; 61]; [37; 61]; [94; 61]; [38; 61]; [124; 61]].

Inductive cw_nx := NxTok (t : cw_tok) (r : cw_bytes) | NxSkip (r : cw_bytes) | NxErr | NxEof.

Definition cw_digits_of (s : cw_bytes) : list N := map (fun c => c - 48) s.

(* one step of the INITIAL state: the longest match, earlier rule on ties *)
Definition cw_next (s : cw_bytes) : cw_nx :=
  match s with
  | [] => NxEof
  | c :: r =>
      if c =? 34 then match cw_lex_str r SsNorm [] with Some (str, r') => NxTok (CwTStr str) r' | None => NxErr end
      else if (c =? 32) || (c =? 9) then NxSkip r
      else if (c =? 10) || (c =? 13) then NxTok CwTNl (snd (cw_span (fun x => (x =? 10) || (x =? 13)) r))
      else if c =? 35 then NxSkip (snd (cw_span (fun x => negb (x =? 10)) r))
      else if c =? 47 then
        match r with
        | 42 :: r' => match cw_comment r' with Some r'' => NxSkip r'' | None => NxErr end
        | 47 :: r' => NxSkip (snd (cw_span (fun x => negb (x =? 10)) r'))
        | 61 :: r' => NxTok (CwTOp [47; 61]) r'
        | _ => NxTok (CwTP c) r
        end
      else if c =? 123 then
        match r with
        | 123 :: 123 :: r' => match cw_heredoc r' [] with Some (str, r'') => NxTok (CwTStr str) r'' | None => NxErr end
        | 123 :: r' => NxTok (CwTOp [123; 123]) r'
        | _ => NxTok (CwTP c) r
        end
      else if cw_is_alpha c then
        let '(w, r') := cw_span cw_is_idc r in
        if cw_mem (c :: w) cw_lexer_keywords then NxTok (CwTKw (c :: w)) r' else NxTok (CwTId (c :: w)) r'
      else if c =? 64 then
        match r with
        | c2 :: r2 => if cw_is_alpha c2 then let '(w, r') := cw_span cw_is_idc r2 in NxTok (CwTId (c2 :: w)) r'
                      else NxTok (CwTP c) r
        | [] => NxTok (CwTP c) r
        end
      else if cw_is_digit c then
        let '(ds, r1) := cw_span cw_is_digit r in
        let '(fs, r2) :=
          match r1 with
          | 46 :: d :: r1' => if cw_is_digit d then let '(f, r2) := cw_span cw_is_digit r1' in (d :: f, r2) else ([], r1)
          | _ => ([], r1)
          end in
        let ip := cw_digits_of (c :: ds) in
        let fp := cw_digits_of fs in
        match r2 with
        | 109 :: 115 :: r3 => NxTok (CwTNum ip fp [109; 115]) r3
        | u :: r3 => if (u =? 100) || (u =? 104) || (u =? 109) || (u =? 115) then NxTok (CwTNum ip fp [u]) r3
                     else NxTok (CwTNum ip fp []) r2
        | [] => NxTok (CwTNum ip fp []) r2
        end
      else
        match r with
        | c2 :: r' => if cw_mem [c; c2] cw_ops2 then NxTok (CwTOp [c; c2]) r' else NxTok (CwTP c) r
        | [] => NxTok (CwTP c) r
        end
  end.

(* structural on the input: [skip] bytes of the current token are still to be passed over.
   At end of input the real lexer returns one T_NEWLINE. *)
Fixpoint cw_lex_s (s : cw_bytes) (skip : nat) : option (list cw_tok) :=
  match skip with
  | S k => match s with [] => None | _ :: r => cw_lex_s r k end
  | O =>
      match s with
      | [] => Some [CwTNl]
      | _ :: t =>
          match cw_next s with
          | NxEof => Some [CwTNl]
          | NxErr => None
          | NxSkip r => cw_lex_s t (length t - length r)
          | NxTok tok r => match cw_lex_s t (length t - length r) with Some l => Some (tok :: l) | None => None end
          end
      end
  end.
Definition cw_lex (s : cw_bytes) : option (list cw_tok) := cw_lex_s s 0.

(* the string literal alone (C17_string_roundtrip) *)
Definition cw_lex_string_m (whole : bool) (s : cw_bytes) : option cw_bytes :=
  match s with
  | 34 :: r => match cw_lex_str_m whole r SsNorm [] with Some (str, []) => Some str | _ => None end
  | _ => None
  end.
Definition cw_lex_string := cw_lex_string_m cw_chunk_whole.

(* ---------------------------------------------------------------- literal parser (writer skeleton only) *)
Definition cw_tok_is_p (t : cw_tok) (c : N) : bool := match t with CwTP x => x =? c | _ => false end.

Fixpoint cw_pvalue (n : nat) (t : list cw_tok) : option (cw_value * list cw_tok) :=
  match n with
  | O => None
  | S n' =>
      match t with
      | CwTStr s :: r => Some (CwStr s, r)
      | CwTNum ip fp sfx :: r => match sfx with [] => Some (CwNum false ip fp, r) | _ => None end
      | CwTKw k :: r =>
          if cw_beq k cw_s_null then Some (CwNull, r)
          else if cw_beq k cw_s_true then Some (CwBool true, r)
          else if cw_beq k cw_s_false then Some (CwBool false, r)
          else None
      | CwTP c :: r =>
          if c =? 45 then
            match r with
            | CwTNum ip fp sfx :: r' => match sfx with [] => Some (CwNum true ip fp, r') | _ => None end
            | _ => None
            end
          else if c =? 91 then
            match cw_pitems n' r with Some (l, r') => Some (CwArr l, r') | None => None end
          else if c =? 123 then
            match r with
            | CwTNl :: r' => match cw_pentries n' r' with Some (d, r'') => Some (CwDict d, r'') | None => None end
            | _ => None
            end
          else None
      | _ => None
      end
  end
with cw_pitems (n : nat) (t : list cw_tok) : option (cw_vlist * list cw_tok) :=
  match n with
  | O => None
  | S n' =>
      match t with
      | CwTP c :: r =>
          if c =? 93 then Some (VNil, r)
          else match cw_pvalue n' t with
               | Some (v, CwTP c2 :: r') =>
                   if c2 =? 44 then match cw_pitems n' r' with Some (l, r'') => Some (VCons v l, r'') | None => None end
                   else if c2 =? 93 then Some (VCons v VNil, r')
                   else None
               | _ => None
               end
      | _ => match cw_pvalue n' t with
             | Some (v, CwTP c2 :: r') =>
                 if c2 =? 44 then match cw_pitems n' r' with Some (l, r'') => Some (VCons v l, r'') | None => None end
                 else if c2 =? 93 then Some (VCons v VNil, r')
                 else None
             | _ => None
             end
      end
  end
with cw_pentries (n : nat) (t : list cw_tok) : option (cw_dlist * list cw_tok) :=
  match n with
  | O => None
  | S n' =>
      match t with
      | CwTP c :: r => if c =? 125 then Some (DNil, r) else None
      | CwTId k :: CwTP c :: r | CwTStr k :: CwTP c :: r =>
          if c =? 61 then
            match cw_pvalue n' r with
            | Some (v, CwTNl :: r') => match cw_pentries n' r' with Some (d, r'') => Some (DCons k v d, r'') | None => None end
            | _ => None
            end
          else None
      | _ => None
      end
  end.

Inductive cw_stmt := CwImport (s : cw_bytes) | CwAssign (k : cw_bytes) (idx : list cw_bytes) (v : cw_value).
Record cw_item := { cwi_type : cw_bytes; cwi_name : cw_bytes; cwi_ign : bool; cwi_body : list cw_stmt }.

Fixpoint cw_pindex (t : list cw_tok) : list cw_bytes * list cw_tok :=
  match t with
  | CwTP a :: CwTStr s :: CwTP b :: r =>
      if (a =? 91) && (b =? 93) then let '(l, r') := cw_pindex r in (s :: l, r') else ([], t)
  | _ => ([], t)
  end.

(* statements of the object body up to the closing brace; every statement ends with a newline *)
Fixpoint cw_pbody (n : nat) (t : list cw_tok) : option (list cw_stmt * list cw_tok) :=
  match n with
  | O => None
  | S n' =>
      match t with
      | CwTP c :: r => if c =? 125 then Some ([], r) else None
      | CwTKw k :: CwTStr s :: CwTNl :: r =>
          if cw_beq k cw_s_import then
            match cw_pbody n' r with Some (l, r') => Some (CwImport s :: l, r') | None => None end
          else None
      | CwTId k :: r | CwTStr k :: r =>
          let '(idx, r1) := cw_pindex r in
          match r1 with
          | CwTP c :: r2 =>
              if c =? 61 then
                match cw_pvalue n' r2 with
                | Some (v, CwTNl :: r3) =>
                    match cw_pbody n' r3 with Some (l, r') => Some (CwAssign k idx v :: l, r') | None => None end
                | _ => None
                end
              else None
          | _ => None
          end
      | _ => None
      end
  end.

Definition cw_all_nl (t : list cw_tok) : bool := forallb (fun x => match x with CwTNl => true | _ => false end) t.

Definition cw_parse_item (t : list cw_tok) : option cw_item :=
  let n := length t in
  match t with
  | CwTKw o :: CwTId ty :: CwTStr name :: r =>
      if cw_beq o cw_s_object then
        let '(ign, r1) := match r with
                          | CwTKw k :: r' => if cw_beq k cw_s_ignore_on_error then (true, r') else (false, r)
                          | _ => (false, r)
                          end in
        match r1 with
        | CwTP c :: CwTNl :: r2 =>
            if c =? 123 then
              match cw_pbody n r2 with
              | Some (body, rest) => if cw_all_nl rest then Some {| cwi_type := ty; cwi_name := name; cwi_ign := ign; cwi_body := body |} else None
              | None => None
              end
            else None
        | _ => None
        end
      else None
  | _ => None
  end.

Definition cw_parse_text (s : cw_bytes) : option cw_item :=
  match cw_lex s with Some t => cw_parse_item t | None => None end.

(* the text of a literal followed by a newline: its value *)
Definition cw_parse_literal (s : cw_bytes) : option cw_value :=
  match cw_lex s with
  | Some t => match cw_pvalue (length t) t with
              | Some (v, rest) => if cw_all_nl rest then Some v else None
              | None => None
              end
  | None => None
  end.

(* ---------------------------------------------------------------- what the parse is EXPECTED to be *)
(* digits as the lexer reads them back *)
Definition cw_norm_digits (l : list N) : list N := map (fun d => d mod 10) l.
(* a bare identifier that the lexer turns into a keyword token makes the parser fail *)
(* the keywords of the lexer that the writer does not know (and therefore writes bare): as the regenerated lists stand *)
Definition cw_lexer_only : list cw_bytes := filter (fun k => negb (cw_mem k cw_writer_keywords)) cw_lexer_keywords.
Definition cw_key_lexes (k : cw_bytes) : bool :=
  negb (cw_ident_whole k && negb (cw_mem k cw_writer_keywords) && cw_mem k cw_lexer_keywords).

Fixpoint cw_expect_value (v : cw_value) : option cw_value :=
  match v with
  | CwNum neg ip fp => let '(i, f) := cw_num_digits ip fp in Some (CwNum neg (cw_norm_digits i) (cw_norm_digits f))
  | CwArr l => match cw_expect_items l with Some l' => Some (CwArr l') | None => None end
  | CwDict d => match cw_expect_entries d with Some d' => Some (CwDict d') | None => None end
  | _ => Some v
  end
with cw_expect_items (l : cw_vlist) : option cw_vlist :=
  match l with
  | VNil => Some VNil
  | VCons v r => match cw_expect_value v, cw_expect_items r with Some v', Some r' => Some (VCons v' r') | _, _ => None end
  end
with cw_expect_entries (d : cw_dlist) : option cw_dlist :=
  match d with
  | DNil => Some DNil
  | DCons k v r =>
      if cw_key_lexes k then
        match cw_expect_value v, cw_expect_entries r with Some v', Some r' => Some (DCons k v' r') | _, _ => None end
      else None
  end.

Fixpoint cw_expect_top (d : cw_dlist) : option (list cw_stmt) :=
  match d with
  | DNil => Some []
  | DCons k v r =>
      let toks := cw_split 46 k [] in
      if cw_key_lexes (hd [] toks) then
        match cw_expect_value v, cw_expect_top r with
        | Some v', Some r' => Some (CwAssign (hd [] toks) (tl toks) v' :: r')
        | _, _ => None
        end
      else None
  end.

Definition cw_expect_item (ty name : cw_bytes) (ign : bool) (imports : list cw_bytes) (attrs : cw_dlist) : option cw_item :=
  if cw_key_lexes ty then
    match cw_expect_top attrs with
    | Some b => Some {| cwi_type := ty; cwi_name := name; cwi_ign := ign; cwi_body := map CwImport imports ++ b |}
    | None => None
    end
  else None.

(* ---------------------------------------------------------------- evaluating the parsed body (what the object gets) *)
Fixpoint cw_set_path (p : list cw_bytes) (v : cw_value) (cur : option cw_value) : cw_value :=
  match p with
  | [] => v
  | k :: p' =>
      let d := match cur with Some (CwDict d) => d | _ => DNil end in
      CwDict (cw_dset k (cw_set_path p' v (cw_dget k d)) d)
  end.
Fixpoint cw_eval_body (b : list cw_stmt) (obj : cw_dlist) : cw_dlist :=
  match b with
  | [] => obj
  | CwImport _ :: r => cw_eval_body r obj
  | CwAssign k idx v :: r =>
      match cw_set_path (k :: idx) v (Some (CwDict obj)) with CwDict d => cw_eval_body r d | _ => cw_eval_body r obj end
  end.
Fixpoint cw_get_path (p : list cw_bytes) (cur : cw_value) : option cw_value :=
  match p with
  | [] => Some cur
  | k :: p' => match cur with CwDict d => match cw_dget k d with Some x => cw_get_path p' x | None => None end | _ => None end
  end.
