(* C17 - proofs about string emission and string scanning (round trip), and the token lemmas that
   exclude injection through names, keys and string values. *)
From Icv Require Import Base.Tac Facts.Facts_c17 Cw.CwModel.
From Coq Require Import NArith.
Local Open Scope N_scope.

Definition cw_nul_free (s : cw_bytes) : Prop := Forall (fun c => c <> 0) s.

(* ---------------------------------------------------------------- EscapeIcingaString = a per-byte map *)
Lemma cw_replace_all_app c r a b : cw_replace_all c r (a ++ b) = cw_replace_all c r a ++ cw_replace_all c r b.
Proof. unfold cw_replace_all. apply flat_map_app. Qed.

Lemma cw_passes_app (tab : list (N * cw_bytes)) a b :
  fold_left (fun acc cr => cw_replace_all (fst cr) (snd cr) acc) tab (a ++ b) =
  fold_left (fun acc cr => cw_replace_all (fst cr) (snd cr) acc) tab a ++
  fold_left (fun acc cr => cw_replace_all (fst cr) (snd cr) acc) tab b.
Proof.
  revert a b. induction tab as [|cr tab IH]; intros a b; cbn [fold_left]; [reflexivity|].
  rewrite cw_replace_all_app. apply IH.
Qed.

Lemma cw_escape_app a b : cw_escape (a ++ b) = cw_escape a ++ cw_escape b.
Proof. unfold cw_escape. apply cw_passes_app. Qed.

Lemma cw_escape_cons c s : cw_escape (c :: s) = cw_escape [c] ++ cw_escape s.
Proof. change (c :: s) with ([c] ++ s). apply cw_escape_app. Qed.

(* the table the source has today, as one per-byte function (the passes do not interfere) *)
Definition cw_esc1 (c : N) : cw_bytes :=
  if c =? 92 then [92; 92] else if c =? 10 then [92; 110] else if c =? 9 then [92; 116]
  else if c =? 13 then [92; 114] else if c =? 8 then [92; 98] else if c =? 12 then [92; 102]
  else if c =? 34 then [92; 34] else [c].

Lemma cw_escape_single c : cw_escape [c] = cw_esc1 c.
Proof.
  unfold cw_esc1, cw_escape, cw_escape_table, f_cw_escape_table.
  (* independent of the order of the passes in the source, as long as they amount to the same map *)
  repeat (cbn [fold_left cw_replace_all flat_map fst snd app];
          match goal with
          | |- context [c =? ?k] => destruct (N.eqb_spec c k) as [->|?]; [reflexivity|]
          end).
  reflexivity.
Qed.

(* ---------------------------------------------------------------- scanning what was emitted *)
(* the chunk rule copies the whole match (the fix of F-C17-c is in place) *)
Lemma cw_chunk_whole_true : cw_chunk_whole = true.
Proof. reflexivity. Qed.

Lemma cw_chunk_char c tail acc :
  c <> 34 -> c <> 10 -> c <> 92 ->
  cw_lex_str_m true (c :: tail) SsNorm acc = cw_lex_str_m true tail SsNorm (c :: acc).
Proof.
  intros H1 H2 H3. cbn [cw_lex_str_m].
  apply N.eqb_neq in H1, H2, H3. rewrite H1, H2, H3. destruct (c =? 0); reflexivity.
Qed.

Lemma cw_lex_str_escaped_m s : forall acc rest,
  cw_lex_str_m true (cw_escape s ++ 34 :: rest) SsNorm acc = Some (rev acc ++ s, rest).
Proof.
  induction s as [|c s IH]; intros acc rest.
  - cbn. rewrite app_nil_r. reflexivity.
  - rewrite cw_escape_cons, cw_escape_single, <- app_assoc.
    set (tail := cw_escape s ++ 34 :: rest).
    assert (Hstep : forall e b, cw_assoc e cw_lexer_escapes = Some b -> cw_is_digit e = false -> (e =? 10) = false ->
                    cw_lex_str_m true (92 :: e :: tail) SsNorm acc = cw_lex_str_m true tail SsNorm (b :: acc)).
    { intros e b Ha Hd He. cbn [cw_lex_str_m]. change (92 =? 34) with false. change (92 =? 10) with false.
      change (92 =? 92) with true. cbn iota. rewrite Hd, He, Ha. reflexivity. }
    assert (Hfin : forall b, cw_lex_str_m true tail SsNorm (b :: acc) = Some (rev acc ++ b :: s, rest)).
    { intros b. unfold tail. rewrite IH. cbn [rev]. rewrite <- app_assoc. reflexivity. }
    unfold cw_esc1.
    destruct (N.eqb_spec c 92) as [->|H1]; [cbn [app]; rewrite (Hstep 92 92) by reflexivity; apply Hfin|].
    destruct (N.eqb_spec c 10) as [->|H2]; [cbn [app]; rewrite (Hstep 110 10) by reflexivity; apply Hfin|].
    destruct (N.eqb_spec c 9) as [->|H3]; [cbn [app]; rewrite (Hstep 116 9) by reflexivity; apply Hfin|].
    destruct (N.eqb_spec c 13) as [->|H4]; [cbn [app]; rewrite (Hstep 114 13) by reflexivity; apply Hfin|].
    destruct (N.eqb_spec c 8) as [->|H5]; [cbn [app]; rewrite (Hstep 98 8) by reflexivity; apply Hfin|].
    destruct (N.eqb_spec c 12) as [->|H6]; [cbn [app]; rewrite (Hstep 102 12) by reflexivity; apply Hfin|].
    destruct (N.eqb_spec c 34) as [->|H7]; [cbn [app]; rewrite (Hstep 34 34) by reflexivity; apply Hfin|].
    cbn [app]. rewrite cw_chunk_char by assumption. apply Hfin.
Qed.

Lemma cw_lex_str_escaped s acc rest :
  cw_lex_str (cw_escape s ++ 34 :: rest) SsNorm acc = Some (rev acc ++ s, rest).
Proof. unfold cw_lex_str. rewrite cw_chunk_whole_true. apply cw_lex_str_escaped_m. Qed.

(* EVERY byte string (NUL included, now that the chunk rule copies yyleng bytes) *)
Theorem cw_string_roundtrip s : cw_lex_string (cw_emit_string s) = Some s.
Proof.
  unfold cw_lex_string, cw_lex_string_m, cw_emit_string. rewrite cw_chunk_whole_true.
  change (34 :: cw_escape s ++ [34]) with (34 :: (cw_escape s ++ 34 :: [])).
  rewrite cw_lex_str_escaped_m. reflexivity.
Qed.

(* the emitted literal is ONE string token, whatever follows it: nothing inside a name, key or value
   can end the literal early *)
Theorem cw_string_token s rest :
  cw_next (cw_emit_string s ++ rest) = NxTok (CwTStr s) rest.
Proof.
  unfold cw_emit_string. cbn [app cw_next]. change (34 =? 34) with true. cbn iota.
  rewrite <- app_assoc. cbn [app]. rewrite cw_lex_str_escaped. reflexivity.
Qed.

(* ---------------------------------------------------------------- the lexer driver *)
Lemma cw_lex_skip p : forall r, cw_lex_s (p ++ r) (length p) = cw_lex_s r 0.
Proof.
  induction p as [|c p IH]; intros r; [reflexivity|]. cbn [app length cw_lex_s]. apply IH.
Qed.

Lemma cw_lex_tok c p r tok :
  cw_next (c :: p ++ r) = NxTok tok r ->
  cw_lex_s (c :: p ++ r) 0 = match cw_lex_s r 0 with Some l => Some (tok :: l) | None => None end.
Proof.
  intros H. cbn [cw_lex_s]. rewrite H.
  replace (length (p ++ r) - length r)%nat with (length p) by (rewrite app_length; lia).
  rewrite cw_lex_skip. reflexivity.
Qed.

Lemma cw_lex_string_tok s r :
  cw_lex_s (cw_emit_string s ++ r) 0 = match cw_lex_s r 0 with Some l => Some (CwTStr s :: l) | None => None end.
Proof.
  pose proof (cw_string_token s r) as H.
  unfold cw_emit_string in *. cbn [app] in *. rewrite <- app_assoc in *.
  replace (cw_escape s ++ [34] ++ r) with ((cw_escape s ++ [34]) ++ r) in * by (rewrite <- app_assoc; reflexivity).
  apply cw_lex_tok. exact H.
Qed.

(* ---------------------------------------------------------------- identifiers *)
Lemma cw_span_all p w : forall r,
  forallb p w = true -> (match r with c :: _ => p c = false | [] => True end) -> cw_span p (w ++ r) = (w, r).
Proof.
  induction w as [|c w IH]; intros r Hw Hr.
  - cbn [app]. destruct r as [|c r]; [reflexivity|]. cbn [cw_span]. rewrite Hr. reflexivity.
  - cbn [forallb] in Hw. apply andb_prop in Hw as [Hc Hw]. cbn [app cw_span]. rewrite Hc, IH by assumption. reflexivity.
Qed.

Definition cw_follow_ok (r : cw_bytes) : Prop := match r with c :: _ => cw_is_idc c = false | [] => True end.

Lemma cw_alpha_not_special c : cw_is_alpha c = true ->
  (c =? 34) = false /\ ((c =? 32) || (c =? 9)) = false /\ ((c =? 10) || (c =? 13)) = false /\ (c =? 35) = false /\
  (c =? 47) = false /\ (c =? 123) = false.
Proof.
  unfold cw_is_alpha. intros H.
  repeat split; try apply orb_false_intro; apply N.eqb_neq; intros ->; vm_compute in H; discriminate.
Qed.

(* a bare identifier is ONE token carrying exactly that identifier: an identifier token, or a keyword
   token (on which the parser fails) *)
Theorem cw_ident_token w r :
  cw_ident_whole w = true -> cw_follow_ok r ->
  cw_next (w ++ r) = NxTok (if cw_mem w cw_lexer_keywords then CwTKw w else CwTId w) r.
Proof.
  intros Hw Hr. destruct w as [|c w]; [discriminate|]. cbn [cw_ident_whole] in Hw.
  apply andb_prop in Hw as [Hc Hw].
  destruct (cw_alpha_not_special c Hc) as (E1 & E2 & E3 & E4 & E5 & E6).
  cbn [app cw_next]. rewrite E1, E2, E3, E4, E5, E6, Hc.
  rewrite (cw_span_all cw_is_idc w r Hw Hr).
  destruct (cw_mem (c :: w) cw_lexer_keywords); reflexivity.
Qed.

(* `@` + identifier: always an identifier token, keyword or not *)
Theorem cw_at_ident_token w r :
  cw_ident_whole w = true -> cw_follow_ok r -> cw_next (64 :: w ++ r) = NxTok (CwTId w) r.
Proof.
  intros Hw Hr. destruct w as [|c w]; [discriminate|]. cbn [cw_ident_whole] in Hw.
  apply andb_prop in Hw as [Hc Hw].
  cbn [app cw_next]. change (64 =? 34) with false. change ((64 =? 32) || (64 =? 9)) with false.
  change ((64 =? 10) || (64 =? 13)) with false. change (64 =? 35) with false. change (64 =? 47) with false.
  change (64 =? 123) with false. change (cw_is_alpha 64) with false. change (64 =? 64) with true. cbn iota.
  rewrite Hc. rewrite (cw_span_all cw_is_idc w r Hw Hr). reflexivity.
Qed.

Lemma cw_writer_keywords_are_identifiers : forallb cw_ident_whole cw_writer_keywords = true.
Proof. vm_compute. reflexivity. Qed.

Lemma cw_mem_forallb (p : cw_bytes -> bool) k l : cw_mem k l = true -> forallb p l = true ->
  (forall a b, cw_beq a b = true -> p b = true -> p a = true) -> p k = true.
Proof.
  intros Hm Hf Hext. unfold cw_mem in Hm. apply existsb_exists in Hm as (x & Hin & Hx).
  rewrite forallb_forall in Hf. eapply Hext; eauto.
Qed.

Lemma cw_beq_eq a : forall b, cw_beq a b = true -> a = b.
Proof.
  induction a as [|x a IH]; intros [|y b] H; try discriminate; [reflexivity|].
  cbn in H. apply andb_prop in H as [H1 H2]. apply N.eqb_eq in H1. f_equal; auto.
Qed.

(* THE KEY LEMMA (fixed writer: whole-string match).  Whatever bytes a key contains, the text emitted for
   it, followed by a blank, is exactly ONE token that carries the key (or a keyword token on which
   the parser fails): a key cannot contribute a second token, hence no statement. *)
Theorem cw_key_token k r :
  cw_follow_ok r ->
  cw_next (cw_emit_key CwMatch k ++ r) =
    NxTok (if cw_mem k cw_writer_keywords then CwTId k
           else if cw_ident_whole k then (if cw_mem k cw_lexer_keywords then CwTKw k else CwTId k)
           else CwTStr k) r.
Proof.
  intros Hr. unfold cw_emit_key, cw_ident_ok.
  destruct (cw_mem k cw_writer_keywords) eqn:Hk.
  - cbn [app]. apply cw_at_ident_token; [|assumption].
    apply (cw_mem_forallb cw_ident_whole k cw_writer_keywords Hk cw_writer_keywords_are_identifiers).
    intros a b Hab Hb. apply cw_beq_eq in Hab. subst. assumption.
  - destruct (cw_ident_whole k) eqn:Hi.
    + apply cw_ident_token; assumption.
    + apply cw_string_token.
Qed.

(* ---------------------------------------------------------------- template names after `import` *)
(* bytes the writer does not escape *)
Definition cw_plainb (c : N) : bool :=
  negb ((c =? 92) || (c =? 10) || (c =? 9) || (c =? 13) || (c =? 8) || (c =? 12) || (c =? 34)).

Lemma cw_esc1_plain c : cw_plainb c = true -> cw_esc1 c = [c].
Proof.
  unfold cw_plainb, cw_esc1. intros H. apply negb_true_iff in H.
  repeat (apply orb_false_elim in H; destruct H as [H ?]).
  repeat match goal with E : (c =? _) = false |- _ => rewrite E; clear E end. reflexivity.
Qed.

Lemma cw_escape_plain s : forallb cw_plainb s = true -> cw_escape s = s.
Proof.
  induction s as [|c s IH]; intros H; [reflexivity|]. cbn [forallb] in H. apply andb_prop in H as [Hc Hs].
  rewrite cw_escape_cons, cw_escape_single, cw_esc1_plain, IH by assumption. reflexivity.
Qed.

(* the name after `import` is one string token: it is written with EmitString (the fix of F-C17-d is in place) *)
Lemma cw_import_escaped_true : cw_src_import_escaped = true.
Proof. reflexivity. Qed.

Theorem cw_import_token s rest :
  cw_next ((if cw_src_import_escaped then cw_emit_string s else 34 :: s ++ [34]) ++ rest) = NxTok (CwTStr s) rest.
Proof. rewrite cw_import_escaped_true. apply cw_string_token. Qed.

(* ---------------------------------------------------------------- composed names (F-C17-e fixed) *)
Fixpoint cw_join (sep : N) (l : list cw_bytes) : cw_bytes :=
  match l with
  | [] => []
  | a :: r => match r with [] => a | _ => a ++ sep :: cw_join sep r end
  end.

Lemma cw_split_nonempty sep s : forall cur, cw_split sep s cur <> [].
Proof. induction s as [|c s IH]; intros cur; cbn [cw_split]; [discriminate|]. destruct (c =? sep); [discriminate|apply IH]. Qed.

Lemma cw_join_split sep s : forall cur, cw_join sep (cw_split sep s cur) = rev cur ++ s.
Proof.
  induction s as [|c s IH]; intros cur; cbn [cw_split].
  - cbn. rewrite app_nil_r. reflexivity.
  - destruct (N.eqb_spec c sep) as [->|Hne].
    + cbn [cw_join]. destruct (cw_split sep s []) eqn:E; [exfalso; exact (cw_split_nonempty sep s [] E)|].
      rewrite <- E, IH. reflexivity.
    + rewrite IH. cbn [rev]. rewrite <- app_assoc. reflexivity.
Qed.

(* with exactly two parts required, the name the object is registered under (host!name) IS the requested name *)
Theorem cw_effective_name full n h :
  cw_name_parts_m true true full = Some (n, Some h) -> h ++ 33 :: n = full.
Proof.
  unfold cw_name_parts_m. pose proof (cw_join_split 33 full []) as J.
  destruct (cw_split 33 full []) as [|h' [|n' [|x rest]]]; intros H; inversion H; subst.
  cbn in J. exact J.
Qed.
