(* C17 - CreateObjectConfig: the parts of a composed name are authoritative.  Whatever the request's
   attribute dictionary contains (a contradicting host_name, a `name`), the generated declaration carries
   the name parts of the REQUESTED full name, so the object is registered under exactly that name. *)
From Icv Require Import Base.Tac Facts.Facts_c17 Cw.CwModel Cw.CwStrProofs.
From Coq Require Import NArith.
Local Open Scope N_scope.

Lemma cw_bcmp_eq a : forall b, cw_bcmp a b = Eq -> a = b.
Proof.
  induction a as [|x a IH]; intros [|y b] H; try discriminate; [reflexivity|].
  cbn in H. destruct (x ?= y) eqn:E; try discriminate. apply N.compare_eq in E. subst. f_equal. auto.
Qed.

Lemma cw_beq_refl' a : cw_beq a a = true.
Proof. induction a as [|x a IH]; [reflexivity|]. cbn. rewrite N.eqb_refl, IH. reflexivity. Qed.

Lemma cw_beq_neq a b : a <> b -> cw_beq a b = false.
Proof. intros H. destruct (cw_beq a b) eqn:E; [|reflexivity]. apply cw_beq_eq in E. congruence. Qed.

Lemma cw_dget_dset_same k v d : cw_dget k (cw_dset k v d) = Some v.
Proof.
  induction d as [|k' v' r IH]; cbn [cw_dset cw_dget]; [rewrite cw_beq_refl'; reflexivity|].
  destruct (cw_bcmp k k') eqn:E; cbn [cw_dget]; rewrite ?cw_beq_refl'; try reflexivity.
  rewrite cw_beq_neq; [exact IH|]. intros ->. 
  assert (cw_bcmp k' k' = Eq) as X; [|congruence].
  clear. induction k' as [|x k IH]; [reflexivity|]. cbn. rewrite N.compare_refl. exact IH.
Qed.

Lemma cw_dget_dset_other k k' v d : k <> k' -> cw_dget k (cw_dset k' v d) = cw_dget k d.
Proof.
  intros Hn. induction d as [|k2 v2 r IH]; cbn [cw_dset cw_dget]; [rewrite cw_beq_neq by assumption; reflexivity|].
  destruct (cw_bcmp k' k2) eqn:E; cbn [cw_dget].
  - apply cw_bcmp_eq in E. subst k2. rewrite !cw_beq_neq by assumption. reflexivity.
  - rewrite (cw_beq_neq k k') by assumption. reflexivity.
  - destruct (cw_beq k k2); [reflexivity|exact IH].
Qed.

Lemma cw_dget_dremove_other k k' d : k <> k' -> cw_dget k (cw_dremove k' d) = cw_dget k d.
Proof.
  intros Hn. induction d as [|k2 v2 r IH]; [reflexivity|]. cbn [cw_dremove cw_dget].
  destruct (cw_beq k' k2) eqn:E.
  - apply cw_beq_eq in E. subst k2. rewrite cw_beq_neq by assumption. exact IH.
  - cbn [cw_dget]. destruct (cw_beq k k2); [reflexivity|exact IH].
Qed.

Lemma cw_dget_dremove_same k d : cw_dget k (cw_dremove k d) = None.
Proof.
  induction d as [|k2 v2 r IH]; [reflexivity|]. cbn [cw_dremove]. destruct (cw_beq k k2) eqn:E; [exact IH|].
  cbn [cw_dget]. rewrite E. exact IH.
Qed.

(* whatever [attrs] says about host_name / name: after the merge host_name is the part of the requested name, `name` is gone *)
Theorem cw_name_parts_authoritative h attrs version :
  cw_dget cw_s_host_name (cw_all_attrs (Some h) attrs version) = Some (CwStr h) /\
  cw_dget cw_s_name (cw_all_attrs (Some h) attrs version) = None.
Proof.
  unfold cw_all_attrs. split.
  - rewrite cw_dget_dset_other by discriminate. rewrite cw_dget_dremove_other by discriminate.
    rewrite cw_dget_dset_other by discriminate. apply cw_dget_dset_same.
  - rewrite cw_dget_dset_other by discriminate. apply cw_dget_dremove_same.
Qed.

(* the name under which the declaration registers its object: composed types prepend the host_name attribute *)
Definition cw_effective_name_of (nc : bool) (name : cw_bytes) (all : cw_dlist) : option cw_bytes :=
  if nc then match cw_dget cw_s_host_name all with Some (CwStr h) => Some (h ++ 33 :: name) | _ => None end
  else Some name.

(* THE EFFECTIVE NAME IS THE REQUESTED NAME, whatever the attribute dictionary contains *)
Theorem cw_effective_is_requested nc full name host attrs version :
  cw_name_parts_m true nc full = Some (name, host) ->
  cw_effective_name_of nc name (cw_all_attrs host attrs version) = Some full.
Proof.
  intros H. destruct nc.
  - assert (exists h, host = Some h) as (h & ->).
    { unfold cw_name_parts_m in H. destruct (cw_split 33 full []) as [|h' [|n' [|x rest]]]; inversion H. eauto. }
    unfold cw_effective_name_of. rewrite (proj1 (cw_name_parts_authoritative h attrs version)).
    f_equal. apply cw_effective_name. exact H.
  - unfold cw_name_parts_m in H. inversion H; subst. reflexivity.
Qed.
