(* C17 - the delete oracle that is run over implementation traces returns "ok" on the delete steps of the
   model: refused / failed deletes, and successful deletes of an object without dependents. *)
From Icv Require Import Base.Tac Cw.CwModel Cw.CwTxn Cw.CwStrProofs Cw.CwTxnProofs Cw.CwCascadeProofs.
From Coq Require Import NArith.
Local Open Scope N_scope.

(* what the glue computes from the tracked (type, name) pairs; [isdep] marks the tracked dependents of the target *)
Definition cw_mk_dobs (tracked : list cw_key) (isdep : cw_key -> bool) (st st' : cw_store) (k : cw_key)
           (cascade : bool) (r : cw_res) : cw_dobs :=
  {| db_res := r; db_cascade := cascade; db_pre := cw_flags_of st k; db_post := cw_flags_of st' k;
     db_nobj_pre := N.of_nat (length (cs_objs st)); db_nobj_post := N.of_nat (length (cs_objs st'));
     db_nfiles_pre := N.of_nat (length (cs_files st)); db_nfiles_post := N.of_nat (length (cs_files st'));
     db_globals_same := true; db_others_same := true;
     db_nondep_same := forallb (fun k' => cw_keq k k' || isdep k' || cw_flags_eqb (cw_flags_of st k') (cw_flags_of st' k')) tracked;
     db_dep_changed := existsb (fun k' => negb (cw_keq k k') && isdep k' && negb (cw_flags_eqb (cw_flags_of st k') (cw_flags_of st' k'))) tracked |}.

Lemma cw_delete_not_ok_same st k c st' r : cw_delete st k c = (st', r) -> r <> CwrOk -> st' = st.
Proof.
  unfold cw_delete. destruct (cw_find k st) as [o|]; [|intros H; inversion H; reflexivity].
  destruct (negb (co_runtime o)); [intros H; inversion H; reflexivity|].
  destruct (negb c && _); intros H Hr; [inversion H; reflexivity|].
  apply (f_equal snd) in H. cbn [snd] in H. congruence.
Qed.

Theorem cw_oracle_accepts_delete_refused tracked isdep st k c st' r :
  cw_delete st k c = (st', r) -> r <> CwrOk ->
  cw_orc_delete (cw_mk_dobs tracked isdep st st' k c r) = 0.
Proof.
  intros H Hr. pose proof (cw_delete_not_ok_same st k c st' r H Hr) as ->.
  unfold cw_orc_delete, cw_mk_dobs. cbn [db_globals_same db_others_same db_res db_pre db_post db_nondep_same
    db_dep_changed db_nobj_pre db_nobj_post db_nfiles_pre db_nfiles_post andb negb].
  assert (A : forallb (fun k' => cw_keq k k' || isdep k' || cw_flags_eqb (cw_flags_of st k') (cw_flags_of st k')) tracked = true).
  { apply forallb_forall. intros x _. rewrite cw_flags_eqb_refl, orb_true_r. reflexivity. }
  assert (B : existsb (fun k' => negb (cw_keq k k') && isdep k' && negb (cw_flags_eqb (cw_flags_of st k') (cw_flags_of st k'))) tracked = false).
  { induction tracked as [|x l IH]; [reflexivity|]. cbn [existsb]. rewrite cw_flags_eqb_refl. cbn [negb].
    rewrite andb_false_r. cbn [orb]. apply IH. apply forallb_forall. intros y _. rewrite cw_flags_eqb_refl, orb_true_r. reflexivity. }
  rewrite A, B, cw_flags_eqb_refl, !N.eqb_refl. destruct r; try reflexivity. congruence.
Qed.

Lemma cw_kmem_kremove_other k k' l : cw_keq k k' = false -> cw_kmem k' (cw_kremove k l) = cw_kmem k' l.
Proof.
  intros Hne. unfold cw_kmem, cw_kremove. induction l as [|x l IH]; [reflexivity|]. cbn [filter existsb].
  destruct (cw_keq k x) eqn:E1; cbn [negb].
  - destruct (cw_keq k' x) eqn:E2; [|exact IH].
    apply cw_keq_eq in E1, E2. subst. rewrite cw_keq_refl in Hne. discriminate.
  - cbn [existsb]. rewrite IH. reflexivity.
Qed.

Lemma cw_kremove_len k l : NoDup l -> In k l -> (length (cw_kremove k l) + 1 = length l)%nat.
Proof.
  induction l as [|x l IH]; intros Hn Hin; [contradiction|]. inversion Hn; subst. cbn [cw_kremove filter].
  destruct (cw_keq k x) eqn:E; cbn [negb length].
  - apply cw_keq_eq in E. subst x. fold (cw_kremove k l). rewrite cw_kremove_notin; [lia|].
    destruct (cw_kmem k l) eqn:M; [|reflexivity]. exfalso. apply H1.
    unfold cw_kmem in M. apply existsb_exists in M as (y & Hy & Ey). apply cw_keq_eq in Ey. subst. assumption.
  - fold (cw_kremove k l). destruct Hin as [->|Hin]; [rewrite cw_keq_refl in E; discriminate|].
    rewrite <- (IH H2 Hin). lia.
Qed.

Lemma cw_oremove_keys k l : map co_key (cw_oremove k l) = cw_kremove k (map co_key l).
Proof.
  induction l as [|x l IH]; [reflexivity|]. cbn [cw_oremove cw_kremove filter map].
  destruct (cw_keq k (co_key x)); cbn [negb map]; [exact IH|]. f_equal. exact IH.
Qed.

(* a successful delete of a runtime object without dependents (cascade or not): exactly one object and one
   file less, the target gone, every other tracked entry untouched *)
Theorem cw_oracle_accepts_delete_plain tracked isdep st k c o :
  cw_unique st -> NoDup (cs_files st) -> In k (cs_files st) ->
  cw_find k st = Some o -> co_runtime o = true -> cw_children k st = [] ->
  cw_orc_delete (cw_mk_dobs tracked isdep st (fst (cw_delete st k c)) k c CwrOk) = 0.
Proof.
  intros Hu Hnf Hinf Hf Hr Hc. rewrite (cw_delete_plain st k c o Hf Hr Hc). cbn [fst].
  set (st' := {| cs_objs := cw_oremove k (cs_objs st); cs_items := cw_kremove k (cs_items st); cs_files := cw_kremove k (cs_files st) |}).
  assert (Hother : forall k', cw_keq k k' = false -> cw_flags_of st' k' = cw_flags_of st k').
  { intros k' Hne. unfold cw_flags_of, cw_find, st'. cbn [cs_objs cs_items cs_files].
    rewrite (cw_find_oremove_other k k' _ Hne), !(cw_kmem_kremove_other k k' _ Hne). reflexivity. }
  assert (Hpost : cw_flags_of st' k = cw_flags_none).
  { unfold cw_flags_of, cw_find, st'. cbn [cs_objs cs_items cs_files]. rewrite cw_find_oremove, !cw_kmem_kremove. reflexivity. }
  assert (Hpre : fl_runtime (cw_flags_of st k) = true) by (unfold cw_flags_of; rewrite Hf; exact Hr).
  assert (A : forallb (fun k' => cw_keq k k' || isdep k' || cw_flags_eqb (cw_flags_of st k') (cw_flags_of st' k')) tracked = true).
  { apply forallb_forall. intros x _. destruct (cw_keq k x) eqn:E; [reflexivity|].
    rewrite (Hother x E), cw_flags_eqb_refl, orb_true_r. reflexivity. }
  assert (B : existsb (fun k' => negb (cw_keq k k') && isdep k' && negb (cw_flags_eqb (cw_flags_of st k') (cw_flags_of st' k'))) tracked = false).
  { clear A. induction tracked as [|x l IH]; [reflexivity|]. cbn [existsb]. rewrite IH, orb_false_r.
    destruct (cw_keq k x) eqn:E; [reflexivity|]. rewrite (Hother x E), cw_flags_eqb_refl. cbn [negb]. apply andb_false_r. }
  assert (Lo : (length (cs_objs st') + 1 = length (cs_objs st))%nat).
  { unfold st'. cbn [cs_objs]. rewrite <- (map_length co_key (cw_oremove k (cs_objs st))), cw_oremove_keys.
    rewrite <- (map_length co_key (cs_objs st)). apply cw_kremove_len; [exact Hu|].
    apply cw_find_in in Hf as [Hin Hk]. rewrite <- Hk. apply in_map. assumption. }
  assert (Lf : (length (cs_files st') + 1 = length (cs_files st))%nat) by (apply cw_kremove_len; assumption).
  unfold cw_orc_delete, cw_mk_dobs. cbn [db_globals_same db_others_same db_res db_pre db_post db_nondep_same
    db_dep_changed db_nobj_pre db_nobj_post db_nfiles_pre db_nfiles_post db_cascade andb negb].
  rewrite A, B, Hpost, Hpre. cbn [negb fl_obj fl_item fl_file cw_flags_none orb].
  replace (N.of_nat (length (cs_objs st')) + 1 =? N.of_nat (length (cs_objs st))) with true by (symmetry; apply N.eqb_eq; lia).
  replace (N.of_nat (length (cs_files st')) + 1 =? N.of_nat (length (cs_files st))) with true by (symmetry; apply N.eqb_eq; lia).
  destruct c; reflexivity.
Qed.
