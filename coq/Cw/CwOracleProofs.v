(* C17 - the oracles that are run over implementation traces return "ok" on every step of the model:
   create (failure / success under the requested name), delete refused / failed, delete successful -
   plain AND cascading -, each with the file tree (names and contents) of the whole package. *)
From Icv Require Import Base.Tac Facts.Facts_c17 Cw.CwFacts Cw.CwModel Cw.CwTxn Cw.CwStrProofs Cw.CwTxnProofs Cw.CwCascadeProofs Cw.CwRemovalProofs.
From Coq Require Import NArith.
Local Open Scope N_scope.

Lemma cw_flags_eqb_refl f : cw_flags_eqb f f = true.
Proof. destruct f as [[] [] [] [] []]; reflexivity. Qed.

Lemma cw_ftree_eqb_refl t : cw_ftree_eqb t t = true.
Proof.
  induction t as [|x t IH]; [reflexivity|]. cbn [cw_ftree_eqb]. unfold cw_feqb. rewrite cw_keq_refl, cw_beq_refl, IH. reflexivity.
Qed.

(* ---------------------------------------------------------------- create *)
(* what the glue computes from two model states; [exp] = the digest of the generated text, when the glue has one *)
Definition cw_mk_cobs (tracked : list cw_key) (st st' : cw_store) (k : cw_key) (r : cw_res) (exp : option cw_bytes) : cw_cobs :=
  {| cb_ok := match r with CwrOk => true | _ => false end;
     cb_pre := cw_flags_of st k; cb_post := cw_flags_of st' k;
     cb_nobj_pre := N.of_nat (length (cs_objs st)); cb_nobj_post := N.of_nat (length (cs_objs st'));
     cb_nfiles_pre := N.of_nat (length (cs_files st)); cb_nfiles_post := N.of_nat (length (cs_files st'));
     cb_globals_same := true; cb_others_same := true; cb_rest_same := true;
     cb_key := k; cb_tree_pre := cw_ftree_of tracked st; cb_tree_post := cw_ftree_of tracked st'; cb_content := exp |}.

Lemma cw_fget_cons_same k c l : cw_fget k ((k, c) :: l) = Some c.
Proof. unfold cw_fget. cbn [find fst]. rewrite cw_keq_refl. reflexivity. Qed.
Lemma cw_fget_cons_other k k' c l : cw_keq k' k = false -> cw_fget k' ((k, c) :: l) = cw_fget k' l.
Proof. intros H. unfold cw_fget. cbn [find fst]. rewrite H. reflexivity. Qed.

(* the tree after adding the file of a key that had none: the old tree plus exactly that entry *)
Lemma cw_ftree_add st st' k c : cs_files st' = (k, c) :: cs_files st -> cw_fget k (cs_files st) = None -> forall tracked,
  cw_fremove k (cw_ftree_of tracked st') = cw_ftree_of tracked st.
Proof.
  intros Hf Hn. unfold cw_ftree_of. rewrite Hf. induction tracked as [|x l IH]; [reflexivity|]. cbn [flat_map].
  unfold cw_fremove in *. rewrite filter_app, IH. f_equal.
  destruct (cw_keq x k) eqn:E.
  - apply cw_keq_eq in E. subst x. rewrite cw_fget_cons_same, Hn. cbn [filter fst]. rewrite cw_keq_refl. reflexivity.
  - rewrite (cw_fget_cons_other k x c (cs_files st) E). destruct (cw_fget x (cs_files st)); [|reflexivity].
    cbn [filter fst]. rewrite cw_keq_sym, E. reflexivity.
Qed.

Lemma cw_fget_ftree st k : forall tracked,
  cw_fget k (cw_ftree_of tracked st) = if cw_kmem k tracked then cw_fget k (cs_files st) else None.
Proof.
  unfold cw_ftree_of. induction tracked as [|x l IH]; [reflexivity|]. cbn [flat_map cw_kmem existsb]. fold (cw_kmem k l).
  destruct (cw_keq k x) eqn:E; cbn [orb].
  - apply cw_keq_eq in E. subst x. destruct (cw_fget k (cs_files st)) as [d|] eqn:G; cbn [app].
    + apply cw_fget_cons_same.
    + rewrite IH. destruct (cw_kmem k l); reflexivity.
  - destruct (cw_fget x (cs_files st)); cbn [app]; [rewrite (cw_fget_cons_other x k _ _ E)|]; exact IH.
Qed.
Lemma cw_fget_ftree_in st k tracked : In k tracked -> cw_fget k (cw_ftree_of tracked st) = cw_fget k (cs_files st).
Proof. intros H. rewrite cw_fget_ftree. apply cw_kmem_in in H. rewrite H. reflexivity. Qed.

Lemma cw_fget_none_fmem k l : cw_fmem k l = false -> cw_fget k l = None.
Proof. intros H. rewrite cw_fget_fmem in H. destruct (cw_fget k l); [discriminate|reflexivity]. Qed.

(* on every create the model can perform - failure, or success under the requested name - the oracle returns 0,
   INCLUDING its file-tree part: failure => same tree; success => exactly the target's file is new and holds [c] *)
Theorem cw_oracle_accepts_create tracked st ty full nc c o st' r :
  cw_inv st -> In (ty, full) tracked -> cw_create st ty full nc c o = (st', r) ->
  (r = CwrFail \/ exists deps, o = CwoOk full deps) ->
  cw_orc_create nc (cw_mk_cobs tracked st st' (ty, full) r (Some c)) = 0.
Proof.
  intros Hi Ht Hc Hcase.
  assert (Fail : forall s, cw_orc_create nc (cw_mk_cobs tracked s s (ty, full) CwrFail (Some c)) = 0).
  { intros s. unfold cw_orc_create, cw_orc_files_create, cw_mk_cobs. cbn. rewrite cw_flags_eqb_refl, !N.eqb_refl, cw_ftree_eqb_refl. reflexivity. }
  destruct Hcase as [->|(deps & ->)].
  - apply cw_create_fail_unchanged in Hc; [|assumption]. subst st'. apply Fail.
  - destruct r.
    + destruct (cw_create_ok_complete st ty full nc c full deps st' Hi Hc (cw_beq_refl full)) as (Hpre & Hpost & Ho & Hfiles).
      assert (Hnf : cw_fget (ty, full) (cs_files st) = None).
      { apply cw_fget_none_fmem. destruct (cw_fmem (ty, full) (cs_files st)) eqn:E; [|reflexivity]. destruct (Hi _ E) as (x & Hx). congruence. }
      unfold cw_orc_create, cw_mk_cobs. cbn [cb_globals_same cb_others_same cb_rest_same cb_ok cb_pre cb_post
        cb_nobj_pre cb_nobj_post cb_nfiles_pre cb_nfiles_post andb negb].
      rewrite Hpost, Ho, Hfiles. cbn [fl_obj fl_active fl_runtime fl_file fl_item length andb].
      unfold cw_flags_of at 1. rewrite Hpre. cbn [fl_obj negb].
      replace (N.of_nat (S (length (cs_objs st))) =? N.of_nat (length (cs_objs st)) + 1) with true by (symmetry; apply N.eqb_eq; lia).
      replace (N.of_nat (S (length (cs_files st))) =? N.of_nat (length (cs_files st)) + 1) with true by (symmetry; apply N.eqb_eq; lia).
      assert (Hfc : cw_orc_files_create
         {| cb_ok := true; cb_pre := cw_flags_of st (ty, full); cb_post := cw_flags_of st' (ty, full);
            cb_nobj_pre := N.of_nat (length (cs_objs st)); cb_nobj_post := N.of_nat (length (cs_objs st'));
            cb_nfiles_pre := N.of_nat (length (cs_files st)); cb_nfiles_post := N.of_nat (length (cs_files st'));
            cb_globals_same := true; cb_others_same := true; cb_rest_same := true;
            cb_key := (ty, full); cb_tree_pre := cw_ftree_of tracked st; cb_tree_post := cw_ftree_of tracked st'; cb_content := Some c |} = 0).
      { unfold cw_orc_files_create. cbn [cb_ok cb_key cb_tree_pre cb_tree_post cb_content].
        rewrite (cw_fget_ftree_in st (ty, full) tracked Ht), Hnf.
        rewrite (cw_fget_ftree_in st' (ty, full) tracked Ht), Hfiles, cw_fget_cons_same.
        rewrite (cw_ftree_add st st' (ty, full) c Hfiles Hnf tracked), cw_ftree_eqb_refl, cw_beq_refl. reflexivity. }
      destruct nc; cbn [orb andb]; exact Hfc.
    + apply cw_create_fail_unchanged in Hc; [|assumption]. subst st'. apply Fail.
    + exfalso. unfold cw_create, cw_create_m in Hc. destruct (if cw_src_precheck_object then _ else _); [inversion Hc|].
      cbn [cs_objs cs_items cs_files] in Hc.
      match type of Hc with context [cw_find (ty, full) ?s] => destruct (cw_find (ty, full) s) end; [inversion Hc|].
      match type of Hc with context [negb ?b] => destruct b end; cbn [negb] in Hc; [|inversion Hc].
      destruct (cw_beq full full); inversion Hc.
Qed.

(* ---------------------------------------------------------------- delete *)
Definition cw_deps_of (st : cw_store) (x : cw_key) : list cw_key := match cw_find x st with Some o => co_deps o | None => [] end.
Definition cw_mk_dent (st st' : cw_store) (x : cw_key) : cw_dent :=
  {| de_key := x; de_pre := cw_flags_of st x; de_post := cw_flags_of st' x; de_deps := cw_deps_of st x |}.
Definition cw_mk_dobs (tracked : list cw_key) (st st' : cw_store) (k : cw_key) (cascade : bool) (r : cw_res) : cw_dobs :=
  {| db_res := r; db_cascade := cascade; db_key := k; db_ents := map (cw_mk_dent st st') tracked;
     db_globals_same := true; db_others_same := true;
     db_tree_pre := cw_ftree_of tracked st; db_tree_post := cw_ftree_of tracked st' |}.

Lemma cw_delete_not_ok_same st k c st' r : cw_delete st k c = (st', r) -> r <> CwrOk -> st' = st.
Proof.
  unfold cw_delete. destruct (cw_find k st) as [o|]; [|intros H; inversion H; reflexivity].
  destruct (negb (co_runtime o)); [intros H; inversion H; reflexivity|].
  destruct (negb c && _); intros H Hr; [inversion H; reflexivity|].
  apply (f_equal snd) in H. cbn [snd] in H. congruence.
Qed.

(* refused (static / dependents without cascade) or no such object: nothing changes, the oracle accepts *)
Theorem cw_oracle_accepts_delete_refused tracked st k c st' r :
  cw_delete st k c = (st', r) -> r <> CwrOk ->
  cw_orc_delete (cw_mk_dobs tracked st st' k c r) = 0.
Proof.
  intros H Hr. pose proof (cw_delete_not_ok_same st k c st' r H Hr) as ->.
  unfold cw_orc_delete, cw_mk_dobs. cbn [db_globals_same db_others_same db_res db_ents db_tree_pre db_tree_post andb negb].
  assert (A : forallb (fun e => cw_flags_eqb (de_pre e) (de_post e)) (map (cw_mk_dent st st) tracked) = true).
  { apply forallb_forall. intros e He. apply in_map_iff in He as (x & <- & _). apply cw_flags_eqb_refl. }
  rewrite A, cw_ftree_eqb_refl. destruct r; try reflexivity. congruence.
Qed.

Definition cw_pres (st : cw_store) (x : cw_key) : bool := match cw_find x st with Some _ => true | None => false end.

Lemma cw_pres_flags st x : fl_obj (cw_flags_of st x) = cw_pres st x.
Proof. unfold cw_flags_of, cw_pres. destruct (cw_find x st); reflexivity. Qed.

Lemma cw_desc_last st k x : cw_desc st k x -> x = k \/ exists c, cw_desc st k c /\ In x (cw_children c st).
Proof.
  induction 1 as [k|k c x Hc Hd IH]; [left; reflexivity|]. right. destruct IH as [->|(c' & Hd' & Hx)].
  - exists k. split; [constructor|assumption].
  - exists c'. split; [eapply cw_desc_step; eauto|assumption].
Qed.

Lemma cw_desc_present st k x : cw_find k st <> None -> cw_desc st k x -> cw_find x st <> None.
Proof. intros Hk Hd. induction Hd as [k|k c x Hc Hd IH]; [assumption|]. apply IH. eapply cw_children_present; eauto. Qed.

Lemma cw_child_dep st c x o : cw_unique st -> In x (cw_children c st) -> cw_find x st = Some o -> cw_kmem c (co_deps o) = true.
Proof.
  intros Hu Hx Hf. unfold cw_children in Hx. apply in_map_iff in Hx as (o' & Hk & Hin). apply filter_In in Hin as [Hin Hd].
  apply cw_find_in in Hf as [Hin2 Hk2]. assert (o' = o) as ->; [|exact Hd].
  apply (cw_nodup_key_inj (cs_objs st)); [exact Hu|assumption|assumption|congruence].
Qed.

Lemma cw_dep_child st d x o : cw_find x st = Some o -> cw_kmem d (co_deps o) = true -> In x (cw_children d st).
Proof.
  intros Hf Hd. apply cw_find_in in Hf as [Hin Hk]. unfold cw_children. apply in_map_iff. exists o. split; [exact Hk|].
  apply filter_In. split; assumption.
Qed.

(* the tree after removing the set R: the old tree without the entries of R *)
Lemma cw_ftree_rm R st (G : list cw_key) : cw_finv st -> forall l,
  (forall x, In x l -> cw_pres st x = true -> cw_kmem x G = cw_kmem x R) ->
  cw_ftree_of l (cw_rm R st) = filter (fun f => negb (cw_kmem (fst f) G)) (cw_ftree_of l st).
Proof.
  intros Hi. unfold cw_ftree_of, cw_rm. cbn [cs_files]. induction l as [|x l IH]; intros HG; [reflexivity|].
  cbn [flat_map]. rewrite filter_app, IH by (intros y Hy; apply HG; right; exact Hy). f_equal.
  rewrite (cw_fget_filter (fun k => negb (cw_kmem k R))). destruct (cw_fget x (cs_files st)) as [d|] eqn:E.
  - assert (Hp : cw_pres st x = true).
    { assert (Hm : cw_fmem x (cs_files st) = true) by (rewrite cw_fget_fmem, E; reflexivity).
      destruct (Hi x Hm) as (o & Ho & _). unfold cw_pres. rewrite Ho. reflexivity. }
    cbn [filter fst]. rewrite (HG x (or_introl eq_refl) Hp). destruct (cw_kmem x R); reflexivity.
  - destruct (negb (cw_kmem x R)); reflexivity.
Qed.

(* EVERY successful delete of the model - plain or cascading, any acyclic dependency graph - is accepted by the
   oracle that is run on implementation traces: target and exactly its transitive dependents are gone with their
   items and files, every other tracked entry and every other file (name and content) is untouched.
   Premises: invariants of the reachable states (cw_unique, cw_finv - both proved preserved), every object is
   tracked by the script (true in the harness: objects only come into being through tracked operations), and
   the depth premise of C17_delete_cascade_exact. *)
Theorem cw_oracle_accepts_delete_ok tracked st k c st' :
  cw_unique st -> cw_finv st -> (forall x, cw_find x st <> None -> In x tracked) ->
  cw_depth st k (S (length (cs_objs st))) ->
  cw_delete st k c = (st', CwrOk) ->
  cw_orc_delete (cw_mk_dobs tracked st st' k c CwrOk) = 0.
Proof.
  intros Hu Hi Htr Hdep Hd.
  destruct (cw_delete_ok_rm st k c st' Hi Hd) as (R & -> & HR & _).
  (* the shape of a successful delete *)
  assert (Hshape : exists o, cw_find k st = Some o /\ co_runtime o = true /\ (c = true \/ cw_children k st = []) /\
            cw_delete st k true = (cw_rm R st, CwrOk)).
  { revert Hd. unfold cw_delete. destruct (cw_find k st) as [o|]; [|intros H; inversion H].
    destruct (co_runtime o) eqn:Hr; cbn [negb]; [|intros H; inversion H].
    destruct c; cbn [negb andb]; intros H.
    - exists o. repeat split; auto.
    - destruct (cw_children k st) eqn:Hc; cbn [negb] in H; [|inversion H]. exists o. repeat split; auto. }
  destruct Hshape as (o & Hf & Hr & Hcc & Htrue).
  destruct (cw_delete_cascade_exact st k o Hu Hf Hr Hdep) as (st2 & E2 & _ & Hex). rewrite Htrue in E2. inversion E2; subst st2; clear E2.
  assert (Hkp : cw_find k st <> None) by congruence.
  (* gone <-> removed <-> descendant, for objects of st *)
  assert (Hgone : forall x, cw_pres st x = true -> (cw_kmem x R = true <-> cw_desc st k x)).
  { intros x Hp. assert (Hx : cw_find x st <> None) by (unfold cw_pres in Hp; destruct (cw_find x st); [discriminate|discriminate Hp]).
    rewrite <- (Hex x Hx), cw_find_rm. destruct (cw_kmem x R); split; intros H; try reflexivity; try discriminate.
    exfalso. apply Hx. exact H. }
  assert (HRp : forall x, cw_kmem x R = true -> cw_pres st x = true).
  { intros x Hx. apply cw_kmem_in in Hx. specialize (HR x Hx). unfold cw_pres. destruct (cw_find x st); [reflexivity|congruence]. }
  set (ents := map (cw_mk_dent st (cw_rm R st)) tracked).
  assert (Hg : forall x, cw_de_gone (cw_mk_dent st (cw_rm R st) x) = cw_kmem x R).
  { intros x. unfold cw_de_gone, cw_mk_dent. cbn [de_pre de_post]. rewrite !cw_pres_flags. unfold cw_pres at 2. rewrite cw_find_rm.
    destruct (cw_kmem x R) eqn:M; [rewrite (HRp x M); reflexivity|]. fold (cw_pres st x). destruct (cw_pres st x); reflexivity. }
  assert (HG : forall x, cw_kmem x (cw_gone_keys ents) = cw_kmem x tracked && cw_kmem x R).
  { intros x. unfold cw_gone_keys, ents. clear - Hg. induction tracked as [|y l IH]; [reflexivity|].
    cbn [map filter]. rewrite Hg. destruct (cw_kmem y R) eqn:M; cbn [map cw_kmem existsb de_key cw_mk_dent];
      fold (cw_kmem x (map de_key (filter cw_de_gone (map (cw_mk_dent st (cw_rm R st)) l)))); fold (cw_kmem x l); rewrite IH.
    - destruct (cw_keq x y) eqn:E; cbn [orb andb]; [|reflexivity]. apply cw_keq_eq in E. subst. rewrite M. reflexivity.
    - destruct (cw_keq x y) eqn:E; cbn [orb andb]; [|reflexivity]. apply cw_keq_eq in E. subst. rewrite M.
      rewrite andb_false_r. reflexivity. }
  assert (HGp : forall x, cw_pres st x = true -> cw_kmem x (cw_gone_keys ents) = cw_kmem x R).
  { intros x Hp. rewrite HG. assert (Hin : cw_kmem x tracked = true).
    { apply cw_kmem_in. apply Htr. unfold cw_pres in Hp. destruct (cw_find x st); [discriminate|discriminate Hp]. }
    rewrite Hin. reflexivity. }
  assert (Hkt : In k tracked) by (apply Htr; exact Hkp).
  assert (HkR : cw_kmem k R = true).
  { apply Hgone; [unfold cw_pres; rewrite Hf; reflexivity|constructor]. }
  unfold cw_orc_delete, cw_mk_dobs. cbn [db_globals_same db_others_same db_res db_ents db_key db_cascade db_tree_pre db_tree_post andb negb].
  fold ents.
  (* 22: the target is a runtime object *)
  assert (C22 : existsb (fun e => cw_keq k (de_key e) && fl_runtime (de_pre e)) ents = true).
  { apply existsb_exists. exists (cw_mk_dent st (cw_rm R st) k). split; [apply in_map; exact Hkt|].
    cbn [de_key de_pre cw_mk_dent]. rewrite cw_keq_refl. unfold cw_flags_of. rewrite Hf. cbn [fl_runtime]. rewrite Hr. reflexivity. }
  rewrite C22. cbn [negb].
  (* 21: what is gone left nothing behind *)
  assert (C21 : forallb (fun e => negb (cw_de_gone e) || cw_flags_eqb (de_post e) cw_flags_none) ents = true).
  { apply forallb_forall. intros e He. apply in_map_iff in He as (x & <- & _). rewrite Hg.
    destruct (cw_kmem x R) eqn:M; [|reflexivity]. cbn [negb orb de_post cw_mk_dent]. rewrite (cw_flags_rm_in x R st M). reflexivity. }
  rewrite C21. cbn [negb].
  rewrite (HGp k) by (unfold cw_pres; rewrite Hf; reflexivity). rewrite HkR. cbn [negb].
  (* 23: everything else is untouched *)
  assert (C23 : forallb (fun e => cw_de_gone e || cw_flags_eqb (de_pre e) (de_post e)) ents = true).
  { apply forallb_forall. intros e He. apply in_map_iff in He as (x & <- & _). rewrite Hg.
    destruct (cw_kmem x R) eqn:M; [reflexivity|]. cbn [orb de_pre de_post cw_mk_dent]. rewrite (cw_flags_rm_notin x R st M). apply cw_flags_eqb_refl. }
  rewrite C23. cbn [negb].
  (* 23: without cascade only the target *)
  assert (C23b : negb c && negb (forallb (cw_keq k) (cw_gone_keys ents)) = false).
  { destruct c; [reflexivity|]. cbn [negb andb]. destruct Hcc as [Hcc|Hcc]; [discriminate|].
    assert (A : forallb (cw_keq k) (cw_gone_keys ents) = true); [|rewrite A; reflexivity].
    apply forallb_forall. intros y Hy. apply cw_kmem_in in Hy. rewrite HG in Hy. apply andb_prop in Hy as [_ Hy].
    apply (Hgone y (HRp y Hy)) in Hy. inversion Hy as [|k1 c1 x1 Hc1 _]; subst; [apply cw_keq_refl|]. rewrite Hcc in Hc1. contradiction. }
  rewrite C23b.
  (* 25: the closure, stated locally *)
  assert (C25 : cw_orc_closure k ents = true).
  { unfold cw_orc_closure. rewrite (HGp k) by (unfold cw_pres; rewrite Hf; reflexivity). rewrite HkR. cbn [andb].
    apply andb_true_intro. split.
    - apply forallb_forall. intros e He. apply in_map_iff in He as (x & <- & _). rewrite Hg. cbn [de_pre de_deps cw_mk_dent].
      rewrite cw_pres_flags. destruct (cw_pres st x) eqn:Hp; [|reflexivity]. cbn [negb orb].
      destruct (cw_kmem x R) eqn:M; [reflexivity|]. cbn [orb].
      destruct (existsb (fun d => cw_kmem d (cw_gone_keys ents)) (cw_deps_of st x)) eqn:Ex; [|reflexivity].
      exfalso. apply existsb_exists in Ex as (d & Hd1 & Hd2). rewrite HG in Hd2. apply andb_prop in Hd2 as [_ Hd2].
      pose proof (proj1 (Hgone d (HRp d Hd2)) Hd2) as Hdesc.
      unfold cw_deps_of in Hd1. unfold cw_pres in Hp. destruct (cw_find x st) as [ox|] eqn:Hfx; [|discriminate].
      assert (Hch : In x (cw_children d st)) by (apply (cw_dep_child st d x ox Hfx); apply cw_kmem_in; exact Hd1).
      assert (Hdx : cw_desc st k x) by (eapply cw_desc_trans; [exact Hdesc|eapply cw_desc_step; [exact Hch|constructor]]).
      assert (Hpx : cw_pres st x = true) by (unfold cw_pres; rewrite Hfx; reflexivity).
      apply (Hgone x Hpx) in Hdx. congruence.
    - apply forallb_forall. intros e He. apply in_map_iff in He as (x & <- & _). rewrite Hg. cbn [de_key de_deps cw_mk_dent].
      destruct (cw_kmem x R) eqn:M; [|reflexivity]. cbn [negb orb].
      destruct (cw_keq k x) eqn:E; [reflexivity|]. cbn [orb].
      pose proof (proj1 (Hgone x (HRp x M)) M) as Hdesc. apply cw_desc_last in Hdesc as [->|(c0 & Hc0 & Hx)]; [rewrite cw_keq_refl in E; discriminate|].
      pose proof (HRp x M) as Hp. unfold cw_pres in Hp. destruct (cw_find x st) as [ox|] eqn:Hfx; [|discriminate].
      pose proof (cw_child_dep st c0 x ox Hu Hx Hfx) as Hdep0.
      unfold cw_deps_of. rewrite Hfx. apply existsb_exists. exists c0. split; [apply cw_kmem_in; exact Hdep0|].
      assert (Hc0p : cw_pres st c0 = true).
      { pose proof (cw_desc_present st k c0 Hkp Hc0) as Hn. unfold cw_pres. destruct (cw_find c0 st); [reflexivity|congruence]. }
      rewrite (HGp c0 Hc0p). apply (Hgone c0 Hc0p). exact Hc0. }
  rewrite C25. cbn [negb].
  (* 24: the files that are gone are exactly the files of what is gone; names and contents of the rest as before *)
  rewrite (cw_ftree_rm R st (cw_gone_keys ents) Hi tracked) by (intros x _ Hp; apply HGp; exact Hp).
  rewrite cw_ftree_eqb_refl. reflexivity.
Qed.

(* ---------------------------------------------------------------- statements used by Properties_C17.v *)
Lemma cw_all_or_nothing_files : forall tracked st ty full nc content o st',
  cw_inv st -> cw_create st ty full nc content o = (st', CwrFail) -> cw_ftree_of tracked st' = cw_ftree_of tracked st.
Proof. intros tracked st ty full nc content o st' Hi Hc. rewrite (cw_create_fail_unchanged st ty full nc content o st' Hi Hc). reflexivity. Qed.

Lemma cw_file_invariant :
  cw_finv cw_store0 /\
  (forall st, cw_finv st -> cw_inv st) /\
  (forall st ty full nc content o st' r, cw_finv st -> cw_create st ty full nc content o = (st', r) ->
     (forall eff deps, o = CwoOk eff deps -> cw_beq eff full = true) -> cw_finv st') /\
  (forall st k nc deps, cw_finv st -> cw_finv (cw_add_static st k nc deps)) /\
  (forall st k c st' r, cw_finv st -> cw_delete st k c = (st', r) -> cw_finv st').
Proof.
  split; [intros k H; discriminate H|]. split; [exact cw_finv_inv|]. split; [|split; [exact cw_finv_static|exact cw_finv_delete]].
  intros st ty full nc content o st' r Hi Hc. unfold cw_create in Hc. rewrite cw_precheck_fact in Hc. exact (cw_finv_create st ty full nc content o st' r Hi Hc).
Qed.

Lemma cw_delete_cascade_files : forall st k o st',
  cw_unique st -> cw_finv st -> cw_find k st = Some o -> co_runtime o = true ->
  cw_depth st k (S (length (cs_objs st))) -> cw_delete st k true = (st', CwrOk) ->
  forall x, cw_find x st <> None ->
    (cw_desc st k x -> cw_fget x (cs_files st') = None) /\
    (~ cw_desc st k x -> cw_fget x (cs_files st') = cw_fget x (cs_files st)).
Proof.
  intros st k o st' Hu Hi Hf Hr Hd Hdel x Hx.
  destruct (cw_delete_cascade_exact st k o Hu Hf Hr Hd) as (st2 & E2 & _ & Hex). rewrite Hdel in E2. inversion E2; subst st2; clear E2.
  destruct (cw_delete_ok_rm st k true st' Hi Hdel) as (R & -> & _ & _).
  specialize (Hex x Hx). rewrite cw_find_rm in Hex. unfold cw_rm. cbn [cs_files].
  rewrite (cw_fget_filter (fun y => negb (cw_kmem y R))).
  destruct (cw_kmem x R); cbn [negb]; split; intros H; try reflexivity.
  - exfalso. apply H. apply Hex. reflexivity.
  - exfalso. apply Hx. apply Hex. exact H.
Qed.

Lemma cw_facts_all :
  cw_opt_is f_cw_ident_regex (fun r => r = cw_regex_src) /\
  cw_opt_is f_cw_lexer_ident_regex (fun r => r = cw_lexer_regex_src) /\
  cw_opt_is f_cw_keyword_test_first (fun b => b = true) /\
  cw_opt_is f_cw_emit_string_quotes_escaped (fun b => b = true) /\
  cw_opt_is f_cw_number_fixed6 (fun b => b = true) /\
  cw_src_mode = CwMatch /\
  cw_chunk_whole = true /\ cw_src_import_escaped = true /\ cw_src_name_exact = true /\ cw_src_number_roundtrip = true /\
  cw_src_precheck_object = true /\ cw_opt_is f_cw_delete_helper_removes_file (fun b => b = true) /\
  cw_lexer_only = [] /\
  forallb (fun k => cw_mem k cw_lexer_keywords) [cw_s_null; cw_s_true; cw_s_false; cw_s_object; cw_s_import; cw_s_ignore_on_error] = true.
Proof.
  destruct cw_facts as (A1 & A2 & A3 & A4 & A5 & A6 & A7 & A8 & A9 & A10 & A11).
  split; [exact A1|]. split; [exact A2|]. split; [exact A3|]. split; [exact A4|]. split; [exact A5|]. split; [exact A6|].
  split; [exact A7|]. split; [exact A8|]. split; [exact A9|]. split; [exact A10|].
  split; [exact cw_precheck_fact|]. split; [reflexivity|]. exact A11.
Qed.

