From Icv Require Import Base.Tac Cw.CwModel Cw.CwTxn Cw.CwStrProofs Cw.CwTxnProofs Cw.CwCascadeProofs Cw.CwRemovalProofs.
From Coq Require Import NArith.
Local Open Scope N_scope.

(* ---------------------------------------------------------------- what a restart finds *)
(* every run-time object has its file (with cw_finv: the files of the package are exactly the run-time objects) *)
Definition cw_rinv (st : cw_store) : Prop :=
  forall o, In o (cs_objs st) -> co_runtime o = true -> cw_fmem (co_key o) (cs_files st) = true.

Lemma cw_rinv_create st ty full nc c o st' r :
  cw_inv st -> cw_rinv st -> cw_create_m true st ty full nc c o = (st', r) ->
  (forall eff deps, o = CwoOk eff deps -> cw_beq eff full = true) -> cw_rinv st'.
Proof.
  intros Hi Hr Hc He. destruct r.
  - destruct o as [| | |eff deps].
    1-3: (unfold cw_create_m in Hc; destruct (cw_find (ty, full) st); inversion Hc).
    destruct (cw_create_ok_complete_m st ty full nc c eff deps st' Hi Hc (He _ _ eq_refl)) as (_ & _ & Ho & Hfl).
    intros x Hx Hrt. rewrite Ho in Hx. rewrite Hfl. unfold cw_fmem. cbn [existsb fst].
    destruct Hx as [<-|Hx]; [cbn [co_key]; rewrite cw_keq_refl; reflexivity|].
    fold (cw_fmem (co_key x) (cs_files st)). rewrite (Hr x Hx Hrt). apply orb_true_r.
  - rewrite (cw_create_fail_unchanged_m st ty full nc c o st' Hi Hc). exact Hr.
  - exfalso. unfold cw_create_m in Hc. destruct (cw_find (ty, full) st); [inversion Hc|].
    destruct o as [| | |eff deps]; try (inversion Hc; fail). cbn [cs_objs cs_items cs_files] in Hc.
    match type of Hc with context [cw_find (ty, eff) ?s] => destruct (cw_find (ty, eff) s) end; [inversion Hc|].
    match type of Hc with context [negb ?b] => destruct b end; cbn [negb] in Hc; [|inversion Hc].
    destruct (cw_beq eff full); inversion Hc.
Qed.

Lemma cw_rinv_loaded st k nc deps orig c : cw_rinv st -> cw_rinv (cw_add_loaded st k nc deps orig c).
Proof.
  intros Hr. unfold cw_add_loaded. destruct (cw_find k st) eqn:Hf; [exact Hr|]. intros x Hx Hrt. cbn [cs_objs cs_files] in *.
  destruct Hx as [<-|Hx].
  - unfold co_runtime in Hrt. cbn [co_pkg co_key] in *. rewrite Hrt. unfold cw_fmem. cbn [existsb fst]. rewrite cw_keq_refl. reflexivity.
  - pose proof (Hr x Hx Hrt) as Hm. destruct (cw_origin_runtime orig); [|exact Hm].
    unfold cw_fmem. cbn [existsb fst]. destruct (cw_keq (co_key x) k) eqn:E; [reflexivity|]. cbn [orb].
    fold (cw_fmem (co_key x) (cw_fremove k (cs_files st))). unfold cw_fremove.
    rewrite (cw_fmem_filter (fun y => negb (cw_keq k y))), Hm.
    assert (E' : cw_keq k (co_key x) = false).
    { destruct (cw_keq k (co_key x)) eqn:E2; [|reflexivity]. apply cw_keq_eq in E2. subst k. rewrite cw_keq_refl in E. discriminate. }
    rewrite E'. reflexivity.
Qed.
Lemma cw_rinv_static st k nc deps : cw_rinv st -> cw_rinv (cw_add_static st k nc deps).
Proof. apply cw_rinv_loaded. Qed.

Lemma cw_rinv_rm R st : cw_rinv st -> cw_rinv (cw_rm R st).
Proof.
  intros Hr x Hx Hrt. unfold cw_rm in *. cbn [cs_objs cs_files] in *. apply filter_In in Hx as [Hx Hn].
  rewrite (cw_fmem_filter (fun k => negb (cw_kmem k R))), (Hr x Hx Hrt), Hn. reflexivity.
Qed.

Lemma cw_rinv_delete st k c st' r : cw_finv st -> cw_rinv st -> cw_delete st k c = (st', r) -> cw_rinv st'.
Proof.
  intros Hi Hr Hd. destruct r.
  - destruct (cw_delete_ok_rm st k c st' Hi Hd) as (R & -> & _ & _). apply cw_rinv_rm. exact Hr.
  - unfold cw_delete in Hd. destruct (cw_find k st) as [o|]; [|inversion Hd].
    destruct (negb (co_runtime o)); [inversion Hd; subst; exact Hr|]. destruct (negb c && _); inversion Hd; subst; exact Hr.
  - unfold cw_delete in Hd. destruct (cw_find k st) as [o|]; [|inversion Hd; subst; exact Hr].
    destruct (negb (co_runtime o)); [inversion Hd|]. destruct (negb c && _); inversion Hd.
Qed.

(* RESTART CONSISTENCY as an invariant of all histories: in every reachable state the files of the package and the
   run-time objects correspond one to one - every file belongs to an existing run-time object (cw_finv), every
   run-time object has its file (cw_rinv).  What a restart loads from the package is therefore the live set. *)
Lemma cw_restart_consistent :
  cw_rinv cw_store0 /\
  (forall st ty full nc content o st' r, cw_finv st -> cw_rinv st -> cw_create st ty full nc content o = (st', r) ->
     (forall eff deps, o = CwoOk eff deps -> cw_beq eff full = true) -> cw_rinv st') /\
  (forall st k nc deps, cw_rinv st -> cw_rinv (cw_add_static st k nc deps)) /\
  (forall st k c st' r, cw_finv st -> cw_rinv st -> cw_delete st k c = (st', r) -> cw_rinv st').
Proof.
  split; [intros o []|]. split; [|split; [exact cw_rinv_static|exact cw_rinv_delete]].
  intros st ty full nc content o st' r Hi Hr Hc. unfold cw_create in Hc. rewrite cw_precheck_fact in Hc.
  exact (cw_rinv_create st ty full nc content o st' r (cw_finv_inv st Hi) Hr Hc).
Qed.
