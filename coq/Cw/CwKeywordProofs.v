(* C17 - the writer's keyword list covers the lexer's (regenerated lists; fix 918cf68): the premise "no nested key is a
   lexer-only keyword" of the value / structure theorems is vacuous for the source as it is.  Everything here is derived from
   the one regenerated fact cw_lexer_only = [] (Cw/CwFacts.v); the general theorems (over cw_key_lexes) stay as they are. *)
From Icv Require Import Base.Tac Facts.Facts_c17 Cw.CwModel Cw.CwTxn Cw.CwFacts Cw.CwStrProofs Cw.CwLexProofs Cw.CwParseProofs
  Cw.CwNameProofs Cw.CwValuesProofs.
From Coq Require Import NArith.
Local Open Scope N_scope.

Lemma cw_src_lexer_only_nil : cw_lexer_only = [].
Proof. reflexivity. Qed.

Lemma cw_lexer_subset k : cw_lexer_only = [] -> cw_mem k cw_lexer_keywords = true -> cw_mem k cw_writer_keywords = true.
Proof.
  intros Hnil Hm. unfold cw_mem in Hm. apply existsb_exists in Hm. destruct Hm as (x & Hin & Hb).
  apply cw_beq_eq in Hb. subst x.
  destruct (cw_mem k cw_writer_keywords) eqn:E; [reflexivity|]. exfalso.
  assert (In k cw_lexer_only) as H by (unfold cw_lexer_only; apply filter_In; split; [exact Hin | rewrite E; reflexivity]).
  rewrite Hnil in H. exact H.
Qed.

(* GENERAL over the lists: if the writer knows every lexer keyword, every key lexes as a key *)
Lemma cw_key_lexes_of_nil : cw_lexer_only = [] -> forall k, cw_key_lexes k = true.
Proof.
  intros Hnil k. unfold cw_key_lexes.
  destruct (cw_mem k cw_lexer_keywords) eqn:El; [|rewrite !andb_false_r; reflexivity].
  rewrite (cw_lexer_subset k Hnil El). cbn [negb]. rewrite andb_false_r. reflexivity.
Qed.

Theorem cw_key_lexes_all : forall k, cw_key_lexes k = true.
Proof. exact (cw_key_lexes_of_nil cw_src_lexer_only_nil). Qed.

(* numbers only: decimal digits and an integer digit; NO demand on keys *)
Fixpoint cw_numok (v : cw_value) : Prop :=
  match v with
  | CwNum _ ip fp => ip <> [] /\ cw_digits ip /\ cw_digits fp
  | CwArr l => cw_numok_items l
  | CwDict d => cw_numok_entries d
  | _ => True
  end
with cw_numok_items (l : cw_vlist) : Prop := match l with VNil => True | VCons v r => cw_numok v /\ cw_numok_items r end
with cw_numok_entries (d : cw_dlist) : Prop := match d with DNil => True | DCons _ v r => cw_numok v /\ cw_numok_entries r end.

Lemma cw_numok_six :
  (forall v, cw_numok v -> cw_six v) /\ (forall l, cw_numok_items l -> cw_six_items l) /\ (forall d, cw_numok_entries d -> cw_six_entries d).
Proof.
  apply cw_value_mutind; cbn [cw_numok cw_numok_items cw_numok_entries cw_six cw_six_items cw_six_entries]; try tauto.
  intros k v IHv d IHd [Hv Hd]. split; [apply cw_key_lexes_all|]. split; [apply IHv; exact Hv | apply IHd; exact Hd].
Qed.

(* C17_values_equal for the source as it is: ANY keys *)
Theorem cw_values_equal_src v ind :
  cw_numok v -> exists v', cw_parse_literal (cw_emit_value CwMatch ind v ++ [10]) = Some v' /\ cw_veqb v v' = true.
Proof. intros H. apply cw_values_equal. apply (proj1 cw_numok_six). exact H. Qed.

(* what is expected is always defined: the generated text ALWAYS compiles *)
Lemma cw_expect_total :
  (forall v, exists v', cw_expect_value v = Some v') /\ (forall l, exists l', cw_expect_items l = Some l') /\
  (forall d, exists d', cw_expect_entries d = Some d').
Proof.
  apply cw_value_mutind.
  - eexists; reflexivity.
  - intros b. eexists; reflexivity.
  - intros neg ip fp. cbn [cw_expect_value]. destruct (cw_num_digits ip fp). eexists; reflexivity.
  - intros s. eexists; reflexivity.
  - intros l [l' H]. cbn [cw_expect_value]. rewrite H. eexists; reflexivity.
  - intros d [d' H]. cbn [cw_expect_value]. rewrite H. eexists; reflexivity.
  - eexists; reflexivity.
  - intros v [v' Hv] l [l' Hl]. cbn [cw_expect_items]. rewrite Hv, Hl. eexists; reflexivity.
  - eexists; reflexivity.
  - intros k v [v' Hv] d [d' Hd]. cbn [cw_expect_entries]. rewrite cw_key_lexes_all, Hv, Hd. eexists; reflexivity.
Qed.

Lemma cw_expect_top_total : forall d, exists b, cw_expect_top d = Some b.
Proof.
  induction d as [|k v r IH]; cbn [cw_expect_top]; [eexists; reflexivity|].
  rewrite cw_key_lexes_all. destruct (proj1 cw_expect_total v) as [v' ->]. destruct IH as [b ->]. eexists; reflexivity.
Qed.

Theorem cw_structure_compiles ty name ign imports attrs txt :
  cw_wf_entries attrs -> cw_emit_item ty name ign imports attrs = Some txt ->
  exists item, cw_parse_text txt = Some item /\ cw_expect_item ty name ign imports attrs = Some item.
Proof.
  intros Hw He. rewrite (cw_structure_src ty name ign imports attrs txt Hw He).
  unfold cw_expect_item. rewrite cw_key_lexes_all. destruct (cw_expect_top_total attrs) as [b ->].
  eexists. split; reflexivity.
Qed.
