(* C17 - what the model hard-codes, re-checked against the facts regenerated from /repo on every run.
   A recognised fact that differs breaks this file (and with it Properties_C17.v). *)
From Icv Require Import Base.Tac Facts.Facts_c17 Cw.CwModel.
From Coq Require Import NArith.
Local Open Scope N_scope.

Definition cw_opt_is {A} (o : option A) (P : A -> Prop) : Prop := match o with Some v => P v | None => True end.

(* "^[a-zA-Z_][a-zA-Z0-9\_]*$" and the lexer's "[a-zA-Z_][a-zA-Z0-9\_]*" *)
Definition cw_regex_src : cw_bytes :=
  [94; 91; 97; 45; 122; 65; 45; 90; 95; 93; 91; 97; 45; 122; 65; 45; 90; 48; 45; 57; 92; 95; 93; 42; 36].
Definition cw_lexer_regex_src : cw_bytes :=
  [91; 97; 45; 122; 65; 45; 90; 95; 93; 91; 97; 45; 122; 65; 45; 90; 48; 45; 57; 92; 95; 93; 42].

Lemma cw_facts :
  cw_opt_is f_cw_ident_regex (fun r => r = cw_regex_src) /\
  cw_opt_is f_cw_lexer_ident_regex (fun r => r = cw_lexer_regex_src) /\
  cw_opt_is f_cw_keyword_test_first (fun b => b = true) /\
  cw_opt_is f_cw_emit_string_quotes_escaped (fun b => b = true) /\
  cw_opt_is f_cw_number_fixed6 (fun b => b = true) /\
  (* the writer applies the identifier regex to the WHOLE string (the fix of F-C17-a is in place) *)
  cw_src_mode = CwMatch /\
  (* F-C17-b, -c, -d, -e are fixed: whole chunk copied, template names escaped, exactly two name parts, numbers round-trip *)
  cw_chunk_whole = true /\ cw_src_import_escaped = true /\ cw_src_name_exact = true /\ cw_src_number_roundtrip = true /\
  (* the writer knows EVERY keyword of the lexer (fix 918cf68 added `debugger`, `in`): no key is written bare and read back
     as a keyword.  Before the fix this list was [debugger; in]: such a key made a created object fail to compile (cleanly)
     and made modified-attributes.conf uncompilable (C14 finding modattr-keyword-key) *)
  cw_lexer_only = [] /\
  forallb (fun k => cw_mem k cw_lexer_keywords) [cw_s_null; cw_s_true; cw_s_false; cw_s_object; cw_s_import; cw_s_ignore_on_error] = true.
Proof. repeat split; reflexivity. Qed.
