(* C17 - the findings, exhibited on the faithful transcription (concrete witnesses, kernel-evaluated) *)
From Icv Require Import Base.Tac Facts.Facts_c17 Cw.CwModel Cw.CwTxn Cw.CwStrProofs.
From Coq Require Import NArith.
Local Open Scope N_scope.

(* F-C17-a.  ConfigWriter::EmitIdentifier as pinned: boost::regex_search, ^ and $ match at embedded line
   breaks.  vars = { "x = 1\nz": "v" } is emitted with the key UNQUOTED and parses as TWO assignments. *)
Definition cw_wit_key : cw_bytes := [120; 32; 61; 32; 49; 10; 122].            (* x = 1 <LF> z *)
Definition cw_wit_attrs : cw_dlist :=
  DCons [118; 97; 114; 115] (CwDict (DCons cw_wit_key (CwStr [118]) DNil)) DNil.
Definition cw_wit_host : cw_bytes := [72; 111; 115; 116].

Theorem cw_structure_refuted_search :
  exists txt it,
    cw_emit_item_m CwSearch true cw_wit_host [104] false [] cw_wit_attrs = Some txt /\
    cw_parse_text txt = Some it /\
    cwi_body it = [CwAssign [118; 97; 114; 115] []
                     (CwDict (DCons [120] (CwNum false [1] []) (DCons [122] (CwStr [118]) DNil)))] /\
    Some it <> cw_expect_item cw_wit_host [104] false [] cw_wit_attrs.
Proof.
  eexists. eexists. split; [vm_compute; reflexivity|]. split; [vm_compute; reflexivity|].
  split; [reflexivity|]. vm_compute. intros H. discriminate H.
Qed.

(* the same request through the FIXED writer (regex_match) is one assignment with the key intact *)
Example cw_structure_witness_fixed :
  exists txt, cw_emit_item_m CwMatch true cw_wit_host [104] false [] cw_wit_attrs = Some txt /\
              cw_parse_text txt = cw_expect_item cw_wit_host [104] false [] cw_wit_attrs /\
              cw_parse_text txt <> None.
Proof. eexists. split; [vm_compute; reflexivity|]. split; vm_compute; [reflexivity|discriminate]. Qed.

(* F-C17-b.  EmitNumber as pinned (mode rt = false) keeps six decimals: 0.1234567 comes back as 0.123457,
   0.0000001 as 0 *)
Theorem cw_number_precision_refuted :
  cw_parse_literal (cw_emit_number_m false false [0] [1; 2; 3; 4; 5; 6; 7] ++ [10]) = Some (CwNum false [0] [1; 2; 3; 4; 5; 7]) /\
  cw_veqb (CwNum false [0] [1; 2; 3; 4; 5; 6; 7]) (CwNum false [0] [1; 2; 3; 4; 5; 7]) = false /\
  cw_parse_literal (cw_emit_number_m false false [0] [0; 0; 0; 0; 0; 0; 1] ++ [10]) = Some (CwNum false [0] [0; 0; 0; 0; 0; 0]).
Proof. repeat split; vm_compute; reflexivity. Qed.

(* round-half-even on the exact value: 0.0078125 = 2^-7 printed as 0.007812 by the pinned code *)
Example cw_number_half_even :
  cw_emit_number_m false false [0] [0; 0; 7; 8; 1; 2; 5] = [48; 46; 48; 48; 55; 56; 49; 50] /\
  cw_emit_number_m false false [0] [9; 9; 9; 9; 9; 9; 5] = [49; 46; 48; 48; 48; 48; 48; 48].
Proof. split; vm_compute; reflexivity. Qed.

(* the round-trip form prints what it is given, padded to six decimals *)
Example cw_number_roundtrip_form :
  cw_emit_number_m true false [0] [1; 2; 3; 4; 5; 6; 7] = [48; 46; 49; 50; 51; 52; 53; 54; 55] /\
  cw_emit_number_m true true [5] [] = [45; 53; 46; 48; 48; 48; 48; 48; 48].
Proof. split; vm_compute; reflexivity. Qed.

(* F-C17-c.  The pinned chunk rule (copy with `while ( *yptr )`, mode whole = false): the rest of the chunk
   after a NUL is lost *)
Theorem cw_nul_truncation_refuted :
  cw_lex_string_m false (cw_emit_string [97; 98; 0; 99; 100]) = Some [97; 98] /\
  cw_lex_string_m false (cw_emit_string [97; 0; 98; 34; 99]) = Some [97; 34; 99].
Proof. split; vm_compute; reflexivity. Qed.

(* F-C17-d.  Template names are written raw between double quotes: a quote + newline ends the import
   and what follows is parsed as a statement of the object body *)
Definition cw_wit_tmpl : cw_bytes :=
  [116; 34; 10; 9; 110; 111; 116; 101; 115; 32; 61; 32; 34; 112; 119; 110].     (* t" <LF> <TAB> notes = "pwn *)
Theorem cw_import_unescaped_refuted :
  exists txt it,
    cw_emit_item_m CwMatch false cw_wit_host [104] false [cw_wit_tmpl] DNil = Some txt /\
    cw_parse_text txt = Some it /\
    cwi_body it = [CwImport [116]; CwAssign [110; 111; 116; 101; 115] [] (CwStr [112; 119; 110])] /\
    Some it <> cw_expect_item cw_wit_host [104] false [cw_wit_tmpl] DNil.
Proof.
  eexists. eexists. split; [vm_compute; reflexivity|]. split; [vm_compute; reflexivity|].
  split; [reflexivity|]. vm_compute. intros H. discriminate H.
Qed.

(* F-C17-e.  ServiceNameComposer::ParseName only requires >= 2 parts: "a!b!c" is created as "a!b";
   CreateObject then looks up "a!b!c", finds nothing, removes the file and still reports success *)
Theorem cw_name_extra_parts_refuted :
  let svc := [83; 101; 114; 118; 105; 99; 101] in
  let hostk := ([72; 111; 115; 116], [97]) in
  let st := cw_add_static cw_store0 hostk false [] in
  cw_name_parts_m false true [97; 33; 98; 33; 99] = Some ([98], Some [97]) /\
  let '(st', r) := cw_create st svc [97; 33; 98; 33; 99] true [120] (CwoOk [97; 33; 98] [hostk]) in
  r = CwrOk /\ cw_find (svc, [97; 33; 98; 33; 99]) st' = None /\
  (exists o, cw_find (svc, [97; 33; 98]) st' = Some o /\ co_runtime o = true) /\ cs_files st' = [].
Proof. vm_compute. repeat split; try reflexivity. eexists. split; reflexivity. Qed.

(* Seeded-change class "pre-check by config item".  If the "already exists" pre-check of CreateObject consults the
   config ITEM registry, a second create of an existing object of a composite-name type (its item is unnamed) is not
   stopped: the existing object's file is overwritten, the commit fails on the duplicate name, the clean-up removes the
   file - the request fails as it should, but the EXISTING object has lost its file. *)
Theorem cw_precheck_by_item_refuted :
  let svc := [83; 101; 114; 118; 105; 99; 101] in
  let hostk := ([72; 111; 115; 116], [97]) in
  let st0 := cw_add_static cw_store0 hostk false [] in
  let st1 := fst (cw_create_m true st0 svc [97; 33; 98] true [49] (CwoOk [97; 33; 98] [hostk])) in
  cw_fget (svc, [97; 33; 98]) (cs_files st1) = Some [49] /\
  (* by object: refused, nothing changes *)
  cw_create_m true st1 svc [97; 33; 98] true [50] (CwoOk [97; 33; 98] [hostk]) = (st1, CwrFail) /\
  (* by item: refused as well, but the file of the existing object is gone *)
  let '(st2, r) := cw_create_m false st1 svc [97; 33; 98] true [50] (CwoOk [97; 33; 98] [hostk]) in
  r = CwrFail /\ (exists o, cw_find (svc, [97; 33; 98]) st2 = Some o /\ co_runtime o = true) /\
  cw_fget (svc, [97; 33; 98]) (cs_files st2) = None /\ st2 <> st1.
Proof.
  vm_compute. split; [reflexivity|]. split; [reflexivity|]. split; [reflexivity|]. split; [eexists; split; reflexivity|].
  split; [reflexivity|]. intros H. discriminate H.
Qed.

(* The same defect as F-C17-e in the five host!name | host!service!name composers (Notification, Dependency,
   ScheduledDowntime, Comment, Downtime), as pinned: "a!b!c!d" is parsed as host a, service b, name c - the object is
   registered as "a!b!c", the requested name has no object, the file is removed, success is reported.  Likewise an empty
   middle part ("a!!c" is created as the HOST object "a!c"). *)
Theorem cw_composite_name_extra_parts_refuted :
  let nty := [78] in
  let hostk := ([72; 111; 115; 116], [97]) in
  let svck := ([83; 101; 114; 118; 105; 99; 101], [97; 33; 98]) in
  let st := cw_add_static (cw_add_static cw_store0 hostk false []) svck true [hostk] in
  cw_name_parts3_m false [97; 33; 98; 33; 99; 33; 100] = Some ([99], [97], Some [98]) /\
  cw_name_parts3_m true [97; 33; 98; 33; 99; 33; 100] = None /\
  cw_name_parts3_m false [97; 33; 33; 99] = Some ([99], [97], Some []) /\
  cw_name_parts3_m true [97; 33; 33; 99] = None /\
  let '(st', r) := cw_create_m true st nty [97; 33; 98; 33; 99; 33; 100] true [120] (CwoOk [97; 33; 98; 33; 99] [hostk; svck]) in
  r = CwrOk /\ cw_find (nty, [97; 33; 98; 33; 99; 33; 100]) st' = None /\
  (exists o, cw_find (nty, [97; 33; 98; 33; 99]) st' = Some o /\ co_runtime o = true) /\ cs_files st' = [].
Proof. vm_compute. repeat split; try reflexivity. eexists. split; reflexivity. Qed.
