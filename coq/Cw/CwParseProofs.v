(* C17 - the recogniser turns the token skeleton of a value back into exactly the expected value
   (the parser half of C17_structure / C17_values, value level). *)
From Icv Require Import Base.Tac Facts.Facts_c17 Cw.CwModel Cw.CwStrProofs Cw.CwLexProofs.
From Coq Require Import NArith.
Local Open Scope N_scope.

Definition cw_ret {A} (o : option A) (rest : list cw_tok) : option (A * list cw_tok) :=
  match o with Some x => Some (x, rest) | None => None end.

Lemma cw_key_tok_cases k :
  (cw_key_lexes k = true /\ (cw_key_tok k = CwTId k \/ cw_key_tok k = CwTStr k)) \/
  (cw_key_lexes k = false /\ cw_key_tok k = CwTKw k).
Proof.
  unfold cw_key_lexes, cw_key_tok.
  destruct (cw_mem k cw_writer_keywords), (cw_ident_whole k), (cw_mem k cw_lexer_keywords); cbn; auto.
Qed.

(* entries with the newline AFTER each entry (what the parser sees after `{ NL`) *)
Fixpoint cw_toks_entries' (d : cw_dlist) : list cw_tok :=
  match d with
  | DNil => []
  | DCons k v r => cw_key_tok k :: CwTP 61 :: cw_toks_value v ++ CwTNl :: cw_toks_entries' r
  end.

Lemma cw_entries_shift d x : cw_toks_entries d ++ CwTNl :: x = CwTNl :: cw_toks_entries' d ++ x.
Proof.
  induction d as [|k v r IH]; [reflexivity|]. cbn [cw_toks_entries cw_toks_entries' app].
  rewrite <- !app_assoc. rewrite IH. reflexivity.
Qed.

Lemma cw_entries_len d : length (cw_toks_entries' d) = length (cw_toks_entries d).
Proof.
  induction d as [|k v r IH]; [reflexivity|]. cbn [cw_toks_entries cw_toks_entries' length].
  rewrite !app_length. cbn [length]. rewrite IH. lia.
Qed.

Lemma cw_toks_value_head v rest r : cw_toks_value v ++ rest <> CwTP 93 :: r.
Proof.
  destruct v; cbn [cw_toks_value app]; try discriminate.
  unfold cw_num_toks. destruct (cw_num_digits ip fp). destruct neg; discriminate.
Qed.

Lemma cw_pitems_unfold n' t : (forall r, t <> CwTP 93 :: r) ->
  cw_pitems (S n') t =
    match cw_pvalue n' t with
    | Some (v, CwTP c2 :: r') =>
        if c2 =? 44 then match cw_pitems n' r' with Some (l, r'') => Some (VCons v l, r'') | None => None end
        else if c2 =? 93 then Some (VCons v VNil, r') else None
    | _ => None
    end.
Proof.
  intros H. destruct t as [|[] t]; try reflexivity.
  cbn [cw_pitems]. destruct (N.eqb_spec c 93) as [->|]; [exfalso; eapply H; reflexivity|reflexivity].
Qed.

Theorem cw_parse_value_all :
  (forall v, cw_wf v -> forall n rest, (length (cw_toks_value v) <= n)%nat ->
     cw_pvalue n (cw_toks_value v ++ rest) = cw_ret (cw_expect_value v) rest) /\
  (forall l, cw_wf_items l -> forall n rest, (length (cw_toks_items l) + 1 <= n)%nat ->
     cw_pitems n (cw_toks_items l ++ CwTP 93 :: rest) = cw_ret (cw_expect_items l) rest) /\
  (forall d, cw_wf_entries d -> forall n rest, (length (cw_toks_entries' d) + 1 <= n)%nat ->
     cw_pentries n (cw_toks_entries' d ++ CwTP 125 :: rest) = cw_ret (cw_expect_entries d) rest).
Proof.
  apply cw_value_mutind.
  - intros _ n rest Hn. destruct n; [cbn in Hn; lia|]. reflexivity.
  - intros b _ n rest Hn. destruct n; [cbn in Hn; lia|]. destruct b; reflexivity.
  - intros neg ip fp _ n rest Hn. cbn [cw_toks_value cw_expect_value] in *. unfold cw_num_toks in *.
    destruct (cw_num_digits ip fp) as [i f]. destruct n; [destruct neg; cbn in Hn; lia|]. destruct neg; reflexivity.
  - intros s _ n rest Hn. destruct n; [cbn in Hn; lia|]. reflexivity.
  - (* array *) intros l IH Hw n rest Hn. cbn [cw_toks_value cw_expect_value cw_wf] in *.
    destruct n; [cbn in Hn; lia|]. cbn [app]. rewrite <- app_assoc. cbn [app].
    cbn [cw_pvalue]. change (91 =? 45) with false. change (91 =? 91) with true. cbn iota.
    rewrite (IH Hw n rest) by (cbn [length] in Hn; rewrite app_length in Hn; cbn [length] in Hn; lia).
    destruct (cw_expect_items l); reflexivity.
  - (* dict *) intros d IH Hw n rest Hn. cbn [cw_toks_value cw_expect_value cw_wf] in *.
    destruct n; [cbn in Hn; lia|]. cbn [app]. rewrite <- app_assoc. cbn [app].
    rewrite cw_entries_shift.
    cbn [cw_pvalue]. change (123 =? 45) with false. change (123 =? 91) with false. change (123 =? 123) with true. cbn iota.
    rewrite (IH Hw n rest) by (cbn [length] in Hn; rewrite app_length in Hn; cbn [length] in Hn; rewrite cw_entries_len; lia).
    destruct (cw_expect_entries d); reflexivity.
  - (* VNil *) intros _ n rest Hn. destruct n; [cbn in Hn; lia|]. reflexivity.
  - (* VCons *) intros v IHv l IHl Hw n rest Hn. cbn [cw_wf_items] in Hw. destruct Hw as [Hv Hl].
    cbn [cw_toks_items cw_expect_items] in *. rewrite app_length in Hn.
    destruct n; [lia|]. rewrite <- app_assoc.
    rewrite cw_pitems_unfold by (intros r; apply cw_toks_value_head).
    rewrite (IHv Hv n) by lia.
    destruct (cw_expect_value v) as [v'|]; cbn [cw_ret]; [|reflexivity].
    destruct l as [|v2 l'].
    + cbn [app cw_expect_items]. change (93 =? 44) with false. change (93 =? 93) with true. reflexivity.
    + set (ll := VCons v2 l') in *. cbn [app]. change (44 =? 44) with true. cbn iota.
      rewrite (IHl Hl n rest) by (cbn [length] in Hn; lia).
      destruct (cw_expect_items ll); reflexivity.
  - (* DNil *) intros _ n rest Hn. destruct n; [cbn in Hn; lia|]. reflexivity.
  - (* DCons *) intros k v IHv d IHd Hw n rest Hn. cbn [cw_wf_entries] in Hw. destruct Hw as [Hv Hd].
    cbn [cw_toks_entries' cw_expect_entries] in *. cbn [length] in Hn. rewrite app_length in Hn. cbn [length] in Hn.
    destruct n; [lia|]. cbn [app]. rewrite <- app_assoc. cbn [app].
    destruct (cw_key_tok_cases k) as [[Hk [-> | ->]] | [Hk ->]]; rewrite Hk; cbn [cw_pentries];
      try reflexivity;
      (change (61 =? 61) with true; cbn iota; rewrite (IHv Hv n) by lia;
       destruct (cw_expect_value v) as [v'|]; cbn [cw_ret]; [|reflexivity];
       rewrite (IHd Hd n rest) by lia; destruct (cw_expect_entries d); reflexivity).
Qed.

(* C17_values, value level: emit with the writer, lex, parse = the supplied value (numbers as the six
   decimals the writer keeps, keys that are lexer-only keywords make it fail) *)
Theorem cw_values_roundtrip v ind :
  cw_wf v -> cw_parse_literal (cw_emit_value CwMatch ind v ++ [10]) = cw_expect_value v.
Proof.
  intros Hw. unfold cw_parse_literal, cw_lex.
  rewrite (proj1 cw_lex_value_all v Hw ind [10]) by (exists 10, []; auto).
  rewrite cw_lex_nl by exact I. cbn [cw_lex_s cw_oc cw_oa].
  rewrite (proj1 cw_parse_value_all v Hw) by (rewrite app_length; lia).
  destruct (cw_expect_value v); reflexivity.
Qed.

(* ---------------------------------------------------------------- the whole declaration *)
Fixpoint cw_toks_imports' (l : list cw_bytes) : list cw_tok :=
  match l with [] => [] | s :: r => CwTKw cw_s_import :: CwTStr s :: CwTNl :: cw_toks_imports' r end.
Fixpoint cw_toks_top' (d : cw_dlist) : list cw_tok :=
  match d with
  | DNil => []
  | DCons k v r =>
      cw_key_tok (hd [] (cw_split 46 k [])) :: cw_toks_index (tl (cw_split 46 k [])) ++ CwTP 61 :: cw_toks_value v
        ++ CwTNl :: cw_toks_top' r
  end.

Lemma cw_imports_shift l x : cw_toks_imports l ++ CwTNl :: x = CwTNl :: cw_toks_imports' l ++ x.
Proof. induction l as [|s l IH]; [reflexivity|]. cbn [cw_toks_imports cw_toks_imports' app]. rewrite IH. reflexivity. Qed.

Lemma cw_top_shift d x : cw_toks_top d ++ CwTNl :: x = CwTNl :: cw_toks_top' d ++ x.
Proof.
  induction d as [|k v r IH]; [reflexivity|]. cbn [cw_toks_top cw_toks_top']. cbv zeta. cbn [app].
  rewrite <- !app_assoc. cbn [app]. rewrite <- !app_assoc. rewrite IH. reflexivity.
Qed.

Lemma cw_pindex_eq x : cw_pindex (CwTP 61 :: x) = ([], CwTP 61 :: x).
Proof.
  destruct x as [|t1 x]; [reflexivity|]. destruct t1; try reflexivity.
  destruct x as [|t2 x]; [reflexivity|]. destruct t2; reflexivity.
Qed.

Lemma cw_pindex_toks l : forall x, cw_pindex (cw_toks_index l ++ CwTP 61 :: x) = (l, CwTP 61 :: x).
Proof.
  induction l as [|t l IH]; intros x; [apply cw_pindex_eq|].
  cbn [cw_toks_index app cw_pindex]. change ((91 =? 91) && (93 =? 93)) with true. cbn iota. rewrite IH. reflexivity.
Qed.

Lemma cw_pbody_top d : cw_wf_entries d -> forall n rest, (length (cw_toks_top' d) + 1 <= n)%nat ->
  cw_pbody n (cw_toks_top' d ++ CwTP 125 :: rest) = cw_ret (cw_expect_top d) rest.
Proof.
  induction d as [|k v r IH]; intros Hw n rest Hn.
  - destruct n; [cbn in Hn; lia|]. reflexivity.
  - cbn [cw_wf_entries] in Hw. destruct Hw as [Hv Hr].
    cbn [cw_toks_top' cw_expect_top] in *. cbv zeta.
    set (ks := cw_split 46 k []) in *.
    cbn [length] in Hn. rewrite !app_length in Hn. cbn [length] in Hn. rewrite app_length in Hn. cbn [length] in Hn.
    destruct n; [lia|]. cbn [app]. rewrite <- !app_assoc. cbn [app]. rewrite <- !app_assoc. cbn [app].
    destruct (cw_key_tok_cases (hd [] ks)) as [[Hk [-> | ->]] | [Hk ->]]; rewrite Hk.
    + cbn [cw_pbody]. rewrite cw_pindex_toks. change (61 =? 61) with true. cbn iota.
      rewrite (proj1 cw_parse_value_all v Hv n) by lia.
      destruct (cw_expect_value v) as [v'|]; cbn [cw_ret]; [|reflexivity].
      rewrite (IH Hr n rest) by lia. destruct (cw_expect_top r); reflexivity.
    + cbn [cw_pbody]. rewrite cw_pindex_toks. change (61 =? 61) with true. cbn iota.
      rewrite (proj1 cw_parse_value_all v Hv n) by lia.
      destruct (cw_expect_value v) as [v'|]; cbn [cw_ret]; [|reflexivity].
      rewrite (IH Hr n rest) by lia. destruct (cw_expect_top r); reflexivity.
    + destruct (tl ks); reflexivity.
Qed.

Lemma cw_pbody_imports l : forall n x,
  cw_pbody (length l + n) (cw_toks_imports' l ++ x) =
    match cw_pbody n x with Some (b, r) => Some (map CwImport l ++ b, r) | None => None end.
Proof.
  induction l as [|s l IH]; intros n x.
  - cbn [length plus cw_toks_imports' app map]. destruct (cw_pbody n x) as [[b r]|]; reflexivity.
  - cbn [length plus cw_toks_imports' app cw_pbody]. change (cw_beq cw_s_import cw_s_import) with true. cbn iota.
    rewrite IH. destruct (cw_pbody n x) as [[b r]|]; reflexivity.
Qed.

(* THE PARSER HALF OF C17_structure: the token skeleton of a request is recognised as exactly ONE object
   declaration of the requested type and name whose body is the imports followed by exactly the assignments
   of the attribute dictionary (values as in C17_values) - or it does not parse at all *)
Theorem cw_parse_toks_item ty name ign imports attrs :
  cw_wf_entries attrs -> (cw_mem ty cw_writer_keywords || cw_ident_whole ty) = true ->
  cw_parse_item (cw_toks_item ty name ign imports attrs) = cw_expect_item ty name ign imports attrs.
Proof.
  intros Hw Hty. unfold cw_toks_item, cw_expect_item.
  assert (Ebody : cw_toks_imports imports ++ cw_toks_top attrs ++ [CwTNl; CwTP 125; CwTNl; CwTNl] =
                  CwTNl :: cw_toks_imports' imports ++ cw_toks_top' attrs ++ CwTP 125 :: [CwTNl; CwTNl]).
  { change [CwTNl; CwTP 125; CwTNl; CwTNl] with (CwTNl :: CwTP 125 :: [CwTNl; CwTNl]).
    rewrite cw_top_shift, cw_imports_shift. reflexivity. }
  rewrite Ebody.
  assert (Hb : forall n, (length (cw_toks_imports' imports) + length (cw_toks_top' attrs) + 1 <= n)%nat ->
            cw_pbody n (cw_toks_imports' imports ++ cw_toks_top' attrs ++ CwTP 125 :: [CwTNl; CwTNl]) =
            match cw_expect_top attrs with Some b => Some (map CwImport imports ++ b, [CwTNl; CwTNl]) | None => None end).
  { intros n Hn.
    assert (Hl : (length imports <= length (cw_toks_imports' imports))%nat).
    { clear. induction imports; cbn [cw_toks_imports' length]; lia. }
    replace n with (length imports + (n - length imports))%nat by lia.
    rewrite cw_pbody_imports. rewrite (cw_pbody_top attrs Hw) by lia.
    destruct (cw_expect_top attrs); reflexivity. }
  destruct (cw_key_tok_cases ty) as [[Hk [E | E]] | [Hk E]]; rewrite Hk, E.
  - set (body := cw_toks_imports' imports ++ cw_toks_top' attrs ++ CwTP 125 :: [CwTNl; CwTNl]) in *.
    destruct ign; cbn [app].
    + unfold cw_parse_item. change (cw_beq cw_s_object cw_s_object) with true. cbn iota.
      change (cw_beq cw_s_ignore_on_error cw_s_ignore_on_error) with true. cbn iota.
      change (123 =? 123) with true. cbn iota.
      rewrite Hb by (cbn [length]; unfold body; rewrite !app_length; cbn [length]; lia).
      destruct (cw_expect_top attrs); reflexivity.
    + unfold cw_parse_item. change (cw_beq cw_s_object cw_s_object) with true. cbn iota.
      change (123 =? 123) with true. cbn iota.
      rewrite Hb by (cbn [length]; unfold body; rewrite !app_length; cbn [length]; lia).
      destruct (cw_expect_top attrs); reflexivity.
  - exfalso. unfold cw_key_tok in E. destruct (cw_mem ty cw_writer_keywords); [discriminate|].
    destruct (cw_ident_whole ty); [destruct (cw_mem ty cw_lexer_keywords); discriminate|discriminate].
  - reflexivity.
Qed.

(* C17_structure + C17_values in full: emit, lex, parse = exactly the requested declaration, or nothing *)
Theorem cw_structure ty name ign imports attrs txt :
  cw_wf_entries attrs ->
  cw_emit_item_m CwMatch true ty name ign imports attrs = Some txt ->
  cw_parse_text txt = cw_expect_item ty name ign imports attrs.
Proof.
  intros Hw He. unfold cw_parse_text. rewrite (cw_lex_item ty name ign imports attrs txt Hw He).
  apply cw_parse_toks_item; [assumption|].
  unfold cw_emit_item_m, cw_emit_identifier, cw_ident_ok in He.
  destruct (cw_mem ty cw_writer_keywords); [reflexivity|]. destruct (cw_ident_whole ty); [reflexivity|discriminate].
Qed.

(* the same for the writer AS THE SOURCE HAS IT (mode and import emission from the regenerated facts) *)
Theorem cw_structure_src ty name ign imports attrs txt :
  cw_wf_entries attrs ->
  cw_emit_item ty name ign imports attrs = Some txt ->
  cw_parse_text txt = cw_expect_item ty name ign imports attrs.
Proof.
  unfold cw_emit_item. change cw_src_mode with CwMatch. change cw_src_import_escaped with true.
  apply cw_structure.
Qed.

(* ... and through CreateObjectConfig: whitelist, name parts, version *)
Theorem cw_structure_config allf cfgf nc ty full ign imports attrs version txt name host :
  cw_name_parts nc full = Some (name, host) ->
  cw_wf_entries (cw_all_attrs host attrs version) ->
  cw_create_config allf cfgf nc ty full ign imports attrs version = Some txt ->
  cw_parse_text txt = cw_expect_item ty name ign imports (cw_all_attrs host attrs version).
Proof.
  intros Hn Hw. unfold cw_create_config. rewrite Hn.
  destruct (cw_attrs_allowed allf cfgf (cw_dcopy attrs DNil)); [|discriminate].
  apply cw_structure_src. assumption.
Qed.
