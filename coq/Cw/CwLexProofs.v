(* C17 - the lexer reads the text emitted for ANY value / attribute dictionary as exactly the token
   skeleton of that value: composition of the token lemmas over nested arrays and dictionaries. *)
From Icv Require Import Base.Tac Facts.Facts_c17 Cw.CwModel Cw.CwStrProofs.
From Coq Require Import NArith.
Local Open Scope N_scope.

Notation cw_L r := (cw_lex_s r 0).
Definition cw_oc (t : cw_tok) (o : option (list cw_tok)) : option (list cw_tok) :=
  match o with Some l => Some (t :: l) | None => None end.
Definition cw_oa (ts : list cw_tok) (o : option (list cw_tok)) : option (list cw_tok) :=
  match o with Some l => Some (ts ++ l) | None => None end.

Lemma cw_oa_nil o : cw_oa [] o = o.
Proof. destruct o; reflexivity. Qed.
Lemma cw_oa_cons t ts o : cw_oa (t :: ts) o = cw_oc t (cw_oa ts o).
Proof. destruct o; reflexivity. Qed.
Lemma cw_oa_app a b o : cw_oa (a ++ b) o = cw_oa a (cw_oa b o).
Proof. destruct o; cbn; [rewrite <- app_assoc|]; reflexivity. Qed.
Lemma cw_oa_one t o : cw_oa [t] o = cw_oc t o.
Proof. destruct o; reflexivity. Qed.

Lemma cw_lex_tok1 c r tok : cw_next (c :: r) = NxTok tok r -> cw_L (c :: r) = cw_oc tok (cw_L r).
Proof. intros H. exact (cw_lex_tok c [] r tok H). Qed.

Lemma cw_lex_tokp p r tok : p <> [] -> cw_next (p ++ r) = NxTok tok r -> cw_L (p ++ r) = cw_oc tok (cw_L r).
Proof. destruct p as [|c p]; [congruence|]. intros _ H. exact (cw_lex_tok c p r tok H). Qed.

Lemma cw_lex_skip1 c r : cw_next (c :: r) = NxSkip r -> cw_L (c :: r) = cw_L r.
Proof. intros H. cbn [cw_lex_s]. rewrite H, Nat.sub_diag. reflexivity. Qed.

Lemma cw_lex_blank r : cw_L (32 :: r) = cw_L r.
Proof. apply cw_lex_skip1. reflexivity. Qed.
Lemma cw_lex_tab r : cw_L (9 :: r) = cw_L r.
Proof. apply cw_lex_skip1. reflexivity. Qed.
Lemma cw_lex_tabs n r : cw_L (cw_tabs n ++ r) = cw_L r.
Proof. induction n as [|n IH]; cbn [cw_tabs app]; [reflexivity|]. rewrite cw_lex_tab. exact IH. Qed.

(* what may follow a value: newline, blank or comma *)
Definition cw_sep_start (r : cw_bytes) : Prop := exists c r', r = c :: r' /\ (c = 10 \/ c = 32 \/ c = 44).
Definition cw_nl_follow (r : cw_bytes) : Prop :=
  match r with c :: _ => ((c =? 10) || (c =? 13)) = false | [] => True end.
Ltac cw_sep H := destruct H as (? & ? & -> & [-> | [-> | ->]]).

Lemma cw_lex_nl r : cw_nl_follow r -> cw_L (10 :: r) = cw_oc CwTNl (cw_L r).
Proof.
  intros H. apply cw_lex_tok1. destruct r as [|c r]; [reflexivity|].
  change (cw_next (10 :: c :: r)) with (NxTok CwTNl (snd (cw_span (fun x => (x =? 10) || (x =? 13)) (c :: r)))).
  cbn [cw_span]. cbn [cw_nl_follow] in H. rewrite H. reflexivity.
Qed.

Lemma cw_lex_close c r : c = 93 \/ c = 125 -> cw_sep_start r -> cw_L (c :: r) = cw_oc (CwTP c) (cw_L r).
Proof. intros [-> | ->] H; cw_sep H; apply cw_lex_tok1; reflexivity. Qed.

Lemma cw_lex_word w r :
  cw_ident_whole w = true -> cw_mem w cw_lexer_keywords = true -> cw_sep_start r ->
  cw_L (w ++ r) = cw_oc (CwTKw w) (cw_L r).
Proof.
  intros Hw Hk Hs. apply cw_lex_tokp; [destruct w; discriminate|].
  rewrite (cw_ident_token w r Hw); [rewrite Hk; reflexivity|]. cw_sep Hs; reflexivity.
Qed.

(* ---------------------------------------------------------------- keys *)
Definition cw_key_tok (k : cw_bytes) : cw_tok :=
  if cw_mem k cw_writer_keywords then CwTId k
  else if cw_ident_whole k then (if cw_mem k cw_lexer_keywords then CwTKw k else CwTId k)
  else CwTStr k.

Lemma cw_emit_key_head k : exists c p, cw_emit_key CwMatch k = c :: p /\ ((c =? 10) || (c =? 13)) = false.
Proof.
  unfold cw_emit_key, cw_ident_ok. destruct (cw_mem k cw_writer_keywords); [eexists; eexists; split; reflexivity|].
  destruct (cw_ident_whole k) eqn:Hi.
  - destruct k as [|c k]; [discriminate|]. cbn [cw_ident_whole] in Hi. apply andb_prop in Hi as [Hc _].
    exists c, k. split; [reflexivity|]. apply (cw_alpha_not_special c Hc).
  - unfold cw_emit_string. eexists; eexists; split; reflexivity.
Qed.

Lemma cw_nl_follow_tabs_key n k x : cw_nl_follow (cw_tabs n ++ cw_emit_key CwMatch k ++ x).
Proof.
  destruct n; cbn [cw_tabs app]; [|reflexivity].
  destruct (cw_emit_key_head k) as (c & p & -> & H). exact H.
Qed.

Lemma cw_lex_key k r : cw_follow_ok r ->
  cw_L (cw_emit_key CwMatch k ++ r) = cw_oc (cw_key_tok k) (cw_L r).
Proof.
  intros Hr. apply cw_lex_tokp; [destruct (cw_emit_key_head k) as (c & p & -> & _); discriminate|].
  apply cw_key_token. assumption.
Qed.

(* ---------------------------------------------------------------- numbers *)
Lemma cw_dchar_digit d : cw_is_digit (cw_dchar d) = true.
Proof.
  unfold cw_is_digit, cw_dchar. assert (H : d mod 10 < 10) by (apply N.mod_lt; discriminate).
  generalize dependent (d mod 10). intros m H.
  apply andb_true_intro; split; apply N.leb_le; lia.
Qed.

Lemma cw_digit_classes c : cw_is_digit c = true ->
  (c =? 34) = false /\ ((c =? 32) || (c =? 9)) = false /\ ((c =? 10) || (c =? 13)) = false /\ (c =? 35) = false /\
  (c =? 47) = false /\ (c =? 123) = false /\ cw_is_alpha c = false /\ (c =? 64) = false /\ (c =? 61) = false.
Proof.
  unfold cw_is_digit. intros H. apply andb_prop in H as [H1 H2]. apply N.leb_le in H1, H2.
  assert (A1 : (65 <=? c) = false) by (apply N.leb_gt; lia).
  assert (A2 : (97 <=? c) = false) by (apply N.leb_gt; lia).
  assert (A3 : (c =? 95) = false) by (apply N.eqb_neq; lia).
  unfold cw_is_alpha. rewrite A1, A2, A3.
  repeat split; try reflexivity; repeat (apply orb_false_intro); apply N.eqb_neq; lia.
Qed.

Lemma cw_all_digits l : forallb cw_is_digit (map cw_dchar l) = true.
Proof. induction l as [|d l IH]; [reflexivity|]. cbn [map forallb]. rewrite cw_dchar_digit, IH. reflexivity. Qed.

Lemma cw_digits_of_dchar l : cw_digits_of (map cw_dchar l) = cw_norm_digits l.
Proof.
  unfold cw_digits_of, cw_norm_digits. rewrite map_map. apply map_ext. intros d. unfold cw_dchar. generalize (d mod 10). intros m. lia.
Qed.

Lemma cw_num_next d i f0 f r : cw_sep_start r ->
  cw_next (map cw_dchar (d :: i) ++ 46 :: map cw_dchar (f0 :: f) ++ r) =
    NxTok (CwTNum (cw_norm_digits (d :: i)) (cw_norm_digits (f0 :: f)) []) r.
Proof.
  intros Hs. rewrite <- !cw_digits_of_dchar. cbn [map app].
  destruct (cw_digit_classes _ (cw_dchar_digit d)) as (E1 & E2 & E3 & E4 & E5 & E6 & E7 & E8 & _).
  cbn [cw_next]. rewrite E1, E2, E3, E4, E5, E6, E7, E8, (cw_dchar_digit d).
  rewrite (cw_span_all cw_is_digit (map cw_dchar i) _ (cw_all_digits i)) by reflexivity.
  cbv beta iota zeta. rewrite (cw_dchar_digit f0).
  assert (Hr : match r with c :: _ => cw_is_digit c = false | [] => True end) by (cw_sep Hs; reflexivity).
  rewrite (cw_span_all cw_is_digit (map cw_dchar f) r (cw_all_digits f) Hr).
  cbv beta iota zeta. cw_sep Hs; reflexivity.
Qed.

Lemma cw_minus_next c2 r : cw_is_digit c2 = true -> cw_next (45 :: c2 :: r) = NxTok (CwTP 45) (c2 :: r).
Proof.
  intros H. destruct (cw_digit_classes c2 H) as (_ & _ & _ & _ & _ & _ & _ & _ & E).
  change (cw_next (45 :: c2 :: r)) with
    (if cw_mem [45; c2] cw_ops2 then NxTok (CwTOp [45; c2]) r else NxTok (CwTP 45) (c2 :: r)).
  replace (cw_mem [45; c2] cw_ops2) with false; [reflexivity|].
  unfold cw_mem, cw_ops2. cbn. rewrite E. reflexivity.
Qed.

Lemma cw_incr_rev_length l : length (fst (cw_incr_rev l)) = length l.
Proof.
  induction l as [|d l IH]; [reflexivity|]. cbn [cw_incr_rev]. destruct (d =? 9); [|reflexivity].
  destruct (cw_incr_rev l) as [r' c]. cbn in *. rewrite IH. reflexivity.
Qed.
Lemma cw_take6_length fp : length (cw_take6 fp 6) = 6%nat.
Proof. destruct fp as [|? [|? [|? [|? [|? [|? ?]]]]]]; reflexivity. Qed.
Lemma cw_len_cons {A} (l : list A) : (0 < length l)%nat -> exists a r, l = a :: r.
Proof. destruct l; cbn; [lia|eauto]. Qed.

Lemma cw_number_roundtrip_true : cw_src_number_roundtrip = true.
Proof. reflexivity. Qed.

Lemma cw_pad6_length fp : (6 <= length (cw_pad6 fp))%nat.
Proof.
  unfold cw_pad6. destruct (Nat.leb (length fp) 6) eqn:E; [rewrite cw_take6_length; lia|].
  apply Nat.leb_gt in E. lia.
Qed.

Lemma cw_num_digits_shape ip fp : ip <> [] -> exists d i f0 f, cw_num_digits ip fp = (d :: i, f0 :: f).
Proof.
  intros Hip. unfold cw_num_digits, cw_num_digits_m. rewrite cw_number_roundtrip_true.
  destruct ip as [|d i]; [congruence|]. pose proof (cw_pad6_length fp) as H.
  destruct (cw_pad6 fp) as [|f0 f]; [cbn in H; lia|]. eauto.
Qed.

Definition cw_num_toks (neg : bool) (ip fp : list N) : list cw_tok :=
  let '(i, f) := cw_num_digits ip fp in
  (if neg then [CwTP 45] else []) ++ [CwTNum (cw_norm_digits i) (cw_norm_digits f) []].

Lemma cw_lex_number neg ip fp r : ip <> [] -> cw_sep_start r ->
  cw_L (cw_emit_number neg ip fp ++ r) = cw_oa (cw_num_toks neg ip fp) (cw_L r).
Proof.
  intros Hip Hs. unfold cw_emit_number, cw_emit_number_m, cw_num_toks. fold cw_num_digits.
  destruct (cw_num_digits_shape ip fp Hip) as (d & i & f0 & f & ->).
  assert (Hn : cw_L ((map cw_dchar (d :: i) ++ 46 :: map cw_dchar (f0 :: f)) ++ r) =
               cw_oc (CwTNum (cw_norm_digits (d :: i)) (cw_norm_digits (f0 :: f)) []) (cw_L r)).
  { apply cw_lex_tokp; [discriminate|]. rewrite <- app_assoc. cbn [app]. apply (cw_num_next d i f0 f r Hs). }
  destruct neg; cbn [app].
  - rewrite cw_oa_cons, cw_oa_one.
    change (45 :: (map cw_dchar (d :: i) ++ 46 :: map cw_dchar (f0 :: f)) ++ r)
      with (45 :: cw_dchar d :: (map cw_dchar i ++ 46 :: map cw_dchar (f0 :: f)) ++ r).
    rewrite (cw_lex_tok1 45 _ (CwTP 45) (cw_minus_next (cw_dchar d) _ (cw_dchar_digit d))).
    f_equal. exact Hn.
  - rewrite cw_oa_one. exact Hn.
Qed.

(* ---------------------------------------------------------------- the token skeleton of a value *)
Fixpoint cw_toks_value (v : cw_value) : list cw_tok :=
  match v with
  | CwNull => [CwTKw cw_s_null]
  | CwBool b => [CwTKw (if b then cw_s_true else cw_s_false)]
  | CwNum neg ip fp => cw_num_toks neg ip fp
  | CwStr s => [CwTStr s]
  | CwArr l => CwTP 91 :: cw_toks_items l ++ [CwTP 93]
  | CwDict d => CwTP 123 :: cw_toks_entries d ++ [CwTNl; CwTP 125]
  end
with cw_toks_items (l : cw_vlist) : list cw_tok :=
  match l with
  | VNil => []
  | VCons v r => cw_toks_value v ++ (match r with VNil => [] | _ => CwTP 44 :: cw_toks_items r end)
  end
with cw_toks_entries (d : cw_dlist) : list cw_tok :=
  match d with
  | DNil => []
  | DCons k v r => CwTNl :: cw_key_tok k :: CwTP 61 :: cw_toks_value v ++ cw_toks_entries r
  end.

(* well-formed numbers: at least one integer digit (what every binary64 expansion has) *)
Fixpoint cw_wf (v : cw_value) : Prop :=
  match v with
  | CwNum _ ip _ => ip <> []
  | CwArr l => cw_wf_items l
  | CwDict d => cw_wf_entries d
  | _ => True
  end
with cw_wf_items (l : cw_vlist) : Prop := match l with VNil => True | VCons v r => cw_wf v /\ cw_wf_items r end
with cw_wf_entries (d : cw_dlist) : Prop := match d with DNil => True | DCons _ v r => cw_wf v /\ cw_wf_entries r end.

Scheme cw_value_mut := Induction for cw_value Sort Prop
  with cw_vlist_mut := Induction for cw_vlist Sort Prop
  with cw_dlist_mut := Induction for cw_dlist Sort Prop.
Combined Scheme cw_value_mutind from cw_value_mut, cw_vlist_mut, cw_dlist_mut.

Definition cw_nl_start (r : cw_bytes) : Prop := exists r', r = 10 :: r' /\ cw_nl_follow r'.

Lemma cw_sep_of_nl r : cw_nl_start r -> cw_sep_start r.
Proof. intros (r' & -> & _). exists 10, r'. auto. Qed.

Lemma cw_entries_head m ind d y : exists x, cw_emit_entries m ind d ++ 10 :: y = 10 :: x.
Proof. destruct d; cbn [cw_emit_entries app]; eauto. Qed.

Lemma cw_entries_nl_start ind d r : cw_nl_start r -> cw_nl_start (cw_emit_entries CwMatch ind d ++ r).
Proof.
  intros Hr. destruct d as [|k v d]; [exact Hr|]. cbn [cw_emit_entries app].
  eexists. split; [reflexivity|]. rewrite <- !app_assoc. apply cw_nl_follow_tabs_key.
Qed.

Lemma cw_true_kw : cw_mem cw_s_true cw_lexer_keywords = true /\ cw_mem cw_s_false cw_lexer_keywords = true /\
                   cw_mem cw_s_null cw_lexer_keywords = true.
Proof. repeat split; vm_compute; reflexivity. Qed.

Theorem cw_lex_value_all :
  (forall v, cw_wf v -> forall ind r, cw_sep_start r ->
     cw_L (cw_emit_value CwMatch ind v ++ r) = cw_oa (cw_toks_value v) (cw_L r)) /\
  (forall l, cw_wf_items l -> forall ind r, cw_sep_start r ->
     cw_L (cw_emit_items CwMatch ind l ++ r) = cw_oa (cw_toks_items l) (cw_L r)) /\
  (forall d, cw_wf_entries d -> forall ind r, cw_nl_start r ->
     cw_L (cw_emit_entries CwMatch ind d ++ r) = cw_oa (cw_toks_entries d) (cw_L r)).
Proof.
  apply cw_value_mutind.
  - (* null *) intros _ ind r Hs. cbn [cw_emit_value cw_toks_value]. rewrite cw_oa_one.
    apply cw_lex_word; [reflexivity|apply cw_true_kw|assumption].
  - (* bool *) intros b _ ind r Hs. cbn [cw_emit_value cw_toks_value]. rewrite cw_oa_one.
    destruct b; (apply cw_lex_word; [reflexivity|apply cw_true_kw|assumption]).
  - (* number *) intros neg ip fp Hw ind r Hs. cbn [cw_emit_value cw_toks_value]. apply cw_lex_number; assumption.
  - (* string *) intros s _ ind r Hs. cbn [cw_emit_value cw_toks_value]. rewrite cw_oa_one. apply cw_lex_string_tok.
  - (* array *) intros l IH Hw ind r Hs. cbn [cw_emit_value cw_toks_value]. cbn [cw_wf] in Hw.
    rewrite cw_oa_cons, cw_oa_app, cw_oa_one.
    cbn [app]. rewrite (cw_lex_tok1 91 _ (CwTP 91)) by reflexivity. f_equal. rewrite cw_lex_blank.
    rewrite <- !app_assoc.
    destruct l as [|v l'].
    + cbn [cw_emit_items cw_toks_items app]. rewrite cw_oa_nil. apply cw_lex_close; auto.
    + set (ll := VCons v l') in *. change (match ll with VNil => [] | VCons _ _ => [32] end) with [32].
      cbn [app]. rewrite (IH Hw ind (32 :: 93 :: r)) by (exists 32, (93 :: r); auto).
      f_equal. rewrite cw_lex_blank. apply cw_lex_close; auto.
  - (* dict *) intros d IH Hw ind r Hs. cbn [cw_emit_value cw_toks_value]. cbn [cw_wf] in Hw.
    rewrite cw_oa_cons, cw_oa_app.
    cbn [app]. rewrite <- ?app_assoc. cbn [app]. rewrite <- ?app_assoc. cbn [app].
    destruct (cw_entries_head CwMatch ind d (cw_tabs (ind - 1) ++ 125 :: r)) as (x & Ex).
    rewrite Ex. rewrite (cw_lex_tok1 123 _ (CwTP 123)) by reflexivity. rewrite <- Ex. f_equal.
    assert (Hnl : cw_nl_start (10 :: cw_tabs (ind - 1) ++ 125 :: r)).
    { eexists. split; [reflexivity|]. destruct (ind - 1)%nat; reflexivity. }
    rewrite (IH Hw ind _ Hnl). f_equal.
    rewrite cw_lex_nl by (destruct (ind - 1)%nat; reflexivity).
    rewrite cw_lex_tabs, cw_oa_cons, cw_oa_one. f_equal. apply cw_lex_close; auto.
  - (* VNil *) intros _ ind r Hs. cbn [cw_emit_items cw_toks_items app]. rewrite cw_oa_nil. reflexivity.
  - (* VCons *) intros v IHv l IHl Hw ind r Hs. cbn [cw_wf_items] in Hw. destruct Hw as [Hv Hl].
    cbn [cw_emit_items cw_toks_items]. rewrite cw_oa_app, <- app_assoc.
    destruct l as [|v2 l'].
    + cbn [app]. rewrite cw_oa_nil. apply IHv; assumption.
    + set (ll := VCons v2 l') in *. cbn [app].
      rewrite (IHv Hv ind (44 :: 32 :: cw_emit_items CwMatch ind ll ++ r)) by (eexists; eexists; split; [reflexivity|auto]).
      f_equal. rewrite cw_oa_cons. rewrite (cw_lex_tok1 44 _ (CwTP 44)) by reflexivity. f_equal.
      rewrite cw_lex_blank. apply IHl; assumption.
  - (* DNil *) intros _ ind r Hs. cbn [cw_emit_entries cw_toks_entries app]. rewrite cw_oa_nil. reflexivity.
  - (* DCons *) intros k v IHv d IHd Hw ind r Hs. cbn [cw_wf_entries] in Hw. destruct Hw as [Hv Hd].
    cbn [cw_emit_entries cw_toks_entries]. rewrite !cw_oa_cons, cw_oa_app.
    cbn [app]. rewrite <- !app_assoc.
    rewrite cw_lex_nl by apply cw_nl_follow_tabs_key. f_equal.
    rewrite cw_lex_tabs. unfold cw_s_eq. cbn [app].
    rewrite cw_lex_key by reflexivity. f_equal.
    rewrite cw_lex_blank. rewrite (cw_lex_tok1 61 _ (CwTP 61)) by reflexivity. f_equal.
    rewrite cw_lex_blank.
    rewrite (IHv Hv (S ind) _ (cw_sep_of_nl _ (cw_entries_nl_start ind d r Hs))). f_equal.
    apply IHd; assumption.
Qed.

(* ---------------------------------------------------------------- the whole object declaration *)
Lemma cw_lex_string_tok' s r : cw_L (cw_emit_string s ++ r) = cw_oc (CwTStr s) (cw_L r).
Proof. apply cw_lex_string_tok. Qed.

Lemma cw_lex_p_any c r : c = 91 \/ c = 93 \/ c = 44 -> cw_L (c :: r) = cw_oc (CwTP c) (cw_L r).
Proof. intros [-> | [-> | ->]]; apply cw_lex_tok1; destruct r; reflexivity. Qed.

Lemma cw_lex_nlnl r : cw_nl_follow r -> cw_L (10 :: 10 :: r) = cw_L (10 :: r).
Proof.
  intros H. rewrite (cw_lex_nl r H). apply (cw_lex_tok 10 [10] r CwTNl).
  destruct r as [|c r]; [reflexivity|].
  change (cw_next (10 :: [10] ++ c :: r)) with (NxTok CwTNl (snd (cw_span (fun x => (x =? 10) || (x =? 13)) (10 :: c :: r)))).
  cbn [cw_span]. change ((10 =? 10) || (10 =? 13)) with true. cbn iota. cbn [cw_nl_follow] in H. rewrite H. reflexivity.
Qed.

Fixpoint cw_toks_index (l : list cw_bytes) : list cw_tok :=
  match l with [] => [] | t :: r => CwTP 91 :: CwTStr t :: CwTP 93 :: cw_toks_index r end.
Fixpoint cw_toks_top (d : cw_dlist) : list cw_tok :=
  match d with
  | DNil => []
  | DCons k v r =>
      let ks := cw_split 46 k [] in
      CwTNl :: cw_key_tok (hd [] ks) :: cw_toks_index (tl ks) ++ CwTP 61 :: cw_toks_value v ++ cw_toks_top r
  end.
Fixpoint cw_toks_imports (l : list cw_bytes) : list cw_tok :=
  match l with [] => [] | s :: r => CwTNl :: CwTKw cw_s_import :: CwTStr s :: cw_toks_imports r end.
Definition cw_toks_item (ty name : cw_bytes) (ign : bool) (imports : list cw_bytes) (attrs : cw_dlist) : list cw_tok :=
  CwTKw cw_s_object :: cw_key_tok ty :: CwTStr name :: (if ign then [CwTKw cw_s_ignore_on_error] else [])
  ++ CwTP 123 :: cw_toks_imports imports ++ cw_toks_top attrs ++ [CwTNl; CwTP 125; CwTNl; CwTNl].

Lemma cw_lex_index l : forall r, cw_L (cw_emit_index l ++ 32 :: r) = cw_oa (cw_toks_index l) (cw_L (32 :: r)).
Proof.
  induction l as [|t l IH]; intros r; [cbn; rewrite cw_oa_nil; reflexivity|].
  cbn [cw_emit_index cw_toks_index app]. rewrite !cw_oa_cons, <- app_assoc.
  rewrite cw_lex_p_any by auto. f_equal. rewrite cw_lex_string_tok'. f_equal.
  cbn [app]. rewrite cw_lex_p_any by auto. f_equal. apply IH.
Qed.

Lemma cw_top_nl_start d r : cw_nl_start r -> cw_nl_start (cw_emit_top CwMatch d ++ r).
Proof. intros Hr. destruct d as [|k v d]; [exact Hr|]. cbn [cw_emit_top app]. eexists. split; reflexivity. Qed.

Lemma cw_lex_top d : cw_wf_entries d -> forall r, cw_nl_start r ->
  cw_L (cw_emit_top CwMatch d ++ r) = cw_oa (cw_toks_top d) (cw_L r).
Proof.
  induction d as [|k v d IH]; intros Hw r Hr; [cbn; rewrite cw_oa_nil; reflexivity|].
  cbn [cw_wf_entries] in Hw. destruct Hw as [Hv Hd].
  cbn [cw_emit_top cw_toks_top]. cbv zeta. unfold cw_emit_lhs, cw_s_eq. cbv zeta.
  set (ks := cw_split 46 k []).
  rewrite !cw_oa_cons, cw_oa_app, cw_oa_cons, cw_oa_app.
  cbn [app]. rewrite <- ?app_assoc. cbn [app]. rewrite <- ?app_assoc. cbn [app].
  rewrite cw_lex_nl by reflexivity. f_equal. rewrite cw_lex_tab.
  rewrite cw_lex_key by (destruct (tl ks); reflexivity). f_equal.
  rewrite cw_lex_index. f_equal.
  rewrite cw_lex_blank. rewrite (cw_lex_tok1 61 _ (CwTP 61)) by reflexivity. f_equal.
  rewrite cw_lex_blank.
  rewrite (proj1 cw_lex_value_all v Hv 2%nat _ (cw_sep_of_nl _ (cw_top_nl_start d r Hr))). f_equal.
  apply IH; assumption.
Qed.

Lemma cw_lex_imports l : forall r,
  cw_L (cw_emit_imports true l ++ r) = cw_oa (cw_toks_imports l) (cw_L r).
Proof.
  induction l as [|s l IH]; intros r; [cbn; rewrite cw_oa_nil; reflexivity|].
  cbn [cw_emit_imports cw_toks_imports]. unfold cw_emit_import. rewrite !cw_oa_cons.
  cbn [app]. rewrite <- ?app_assoc. cbn [app]. rewrite <- ?app_assoc.
  rewrite cw_lex_nl by reflexivity. f_equal. rewrite cw_lex_tab.
  rewrite cw_lex_word; [|reflexivity|vm_compute; reflexivity|eexists; eexists; split; [reflexivity|auto]].
  f_equal. rewrite cw_lex_blank. rewrite cw_lex_string_tok'. f_equal. apply IH.
Qed.

(* THE LEXICAL HALF OF C17_structure: for every type identifier, name, ignore flag, template list and
   attribute dictionary (any bytes), the generated object configuration lexes to EXACTLY the token
   skeleton of the request - nothing in a name, key, index, template name or value yields a token of its own *)
Theorem cw_lex_item ty name ign imports attrs txt :
  cw_wf_entries attrs ->
  cw_emit_item_m CwMatch true ty name ign imports attrs = Some txt ->
  cw_lex txt = Some (cw_toks_item ty name ign imports attrs).
Proof.
  intros Hw. unfold cw_emit_item_m, cw_emit_identifier, cw_ident_ok.
  assert (Htail : cw_nl_start [10; 125; 10]) by (eexists; split; reflexivity).
  assert (Hend : cw_L [10; 125; 10] = Some [CwTNl; CwTP 125; CwTNl; CwTNl]).
  { rewrite cw_lex_nl by reflexivity. rewrite cw_lex_close by (auto; exists 10, []; auto).
    rewrite cw_lex_nl by exact I. reflexivity. }
  assert (Hbody : forall pre, cw_L (cw_emit_top CwMatch attrs ++ [10; 125; 10]) = pre ->
            cw_L (match imports with [] => [] | _ :: _ => cw_emit_imports true imports ++ [10] end
                  ++ cw_emit_top CwMatch attrs ++ [10; 125; 10]) = cw_oa (cw_toks_imports imports) pre).
  { intros pre Hp. destruct imports as [|s imports]; [cbn [app cw_toks_imports]; rewrite cw_oa_nil; exact Hp|].
    rewrite <- app_assoc. rewrite cw_lex_imports.
    f_equal. cbn [app]. destruct (cw_top_nl_start attrs _ Htail) as (y & Ey & Hy). rewrite Ey.
    rewrite cw_lex_nlnl by exact Hy. rewrite <- Ey. exact Hp. }
  assert (Hrest : forall tyb, cw_L (tyb ++ 32 :: cw_emit_string name
            ++ (if ign then 32 :: cw_s_ignore_on_error else []) ++ 32 :: 123
            :: (match imports with [] => [] | _ :: _ => cw_emit_imports true imports ++ [10] end)
            ++ cw_emit_top CwMatch attrs ++ [10; 125; 10]) =
          cw_oc (cw_key_tok ty) (cw_oa (CwTStr name :: (if ign then [CwTKw cw_s_ignore_on_error] else [])
            ++ CwTP 123 :: cw_toks_imports imports ++ cw_toks_top attrs ++ [CwTNl; CwTP 125; CwTNl; CwTNl]) (Some [])) ->
          cw_L (cw_s_object ++ 32 :: tyb ++ 32 :: cw_emit_string name
            ++ (if ign then 32 :: cw_s_ignore_on_error else []) ++ 32 :: 123
            :: (match imports with [] => [] | _ :: _ => cw_emit_imports true imports ++ [10] end)
            ++ cw_emit_top CwMatch attrs ++ [10; 125; 10]) = Some (cw_toks_item ty name ign imports attrs)).
  { intros tyb H. rewrite cw_lex_word; [|reflexivity|vm_compute; reflexivity|eexists; eexists; split; [reflexivity|auto]].
    rewrite cw_lex_blank, H. unfold cw_toks_item. cbn [cw_oa cw_oc]. rewrite app_nil_r. reflexivity. }
  assert (Hafter : cw_L (32 :: cw_emit_string name
            ++ (if ign then 32 :: cw_s_ignore_on_error else []) ++ 32 :: 123
            :: (match imports with [] => [] | _ :: _ => cw_emit_imports true imports ++ [10] end)
            ++ cw_emit_top CwMatch attrs ++ [10; 125; 10]) =
          cw_oa (CwTStr name :: (if ign then [CwTKw cw_s_ignore_on_error] else [])
            ++ CwTP 123 :: cw_toks_imports imports ++ cw_toks_top attrs ++ [CwTNl; CwTP 125; CwTNl; CwTNl]) (Some [])).
  { rewrite cw_lex_blank, cw_lex_string_tok', cw_oa_cons. f_equal.
    assert (Hopen : cw_L (32 :: 123 :: (match imports with [] => [] | _ :: _ => cw_emit_imports true imports ++ [10] end)
                           ++ cw_emit_top CwMatch attrs ++ [10; 125; 10]) =
                    cw_oa (CwTP 123 :: cw_toks_imports imports ++ cw_toks_top attrs ++ [CwTNl; CwTP 125; CwTNl; CwTNl]) (Some [])).
    { rewrite cw_lex_blank, cw_oa_cons.
      assert (Hb := Hbody _ (cw_lex_top attrs Hw _ Htail)). rewrite Hend in Hb.
      assert (Hh : exists x, (match imports with [] => [] | _ :: _ => cw_emit_imports true imports ++ [10] end)
                     ++ cw_emit_top CwMatch attrs ++ [10; 125; 10] = 10 :: x).
      { destruct imports; [|cbn [cw_emit_imports app]; eauto]. cbn [app].
        destruct (cw_top_nl_start attrs _ Htail) as (y & Ey & _). eauto. }
      destruct Hh as (x & Ex). rewrite Ex. rewrite (cw_lex_tok1 123 _ (CwTP 123)) by reflexivity. rewrite <- Ex, Hb.
      f_equal. cbn [cw_oa]. rewrite app_nil_r. reflexivity. }
    destruct ign; cbn [app].
    - rewrite cw_lex_blank. rewrite cw_lex_word; [|reflexivity|vm_compute; reflexivity|eexists; eexists; split; [reflexivity|auto]].
      rewrite cw_oa_cons. f_equal. exact Hopen.
    - exact Hopen. }
  destruct (cw_mem ty cw_writer_keywords) eqn:Hk.
  - intros H. inversion H; subst; clear H. unfold cw_lex. apply (Hrest (64 :: ty)).
    assert (E : cw_emit_key CwMatch ty = 64 :: ty) by (unfold cw_emit_key; rewrite Hk; reflexivity).
    rewrite <- E. rewrite cw_lex_key by reflexivity. f_equal. exact Hafter.
  - destruct (cw_ident_whole ty) eqn:Hi; [|discriminate].
    intros H. inversion H; subst; clear H. unfold cw_lex. apply (Hrest ty).
    assert (E : cw_emit_key CwMatch ty = ty) by (unfold cw_emit_key, cw_ident_ok; rewrite Hk, Hi; reflexivity).
    rewrite <- E at 1. rewrite cw_lex_key by reflexivity. f_equal. exact Hafter.
Qed.
