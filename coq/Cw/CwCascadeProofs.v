(* C17 - cascade exactness: a cascading delete removes EXACTLY the transitive dependents of the target
   (the objects DeleteObjectHelper reaches through DependencyGraph::GetChildren), nothing else. *)
From Icv Require Import Base.Tac Cw.CwModel Cw.CwTxn Cw.CwStrProofs Cw.CwTxnProofs.
From Coq Require Import NArith.
Local Open Scope N_scope.

(* x is the target k or depends on it, directly or through other objects *)
Inductive cw_desc (st : cw_store) : cw_key -> cw_key -> Prop :=
| cw_desc_self k : cw_desc st k k
| cw_desc_step k c x : In c (cw_children k st) -> cw_desc st c x -> cw_desc st k x.

(* the dependency graph below k has depth at most n (every acyclic graph: at most the number of objects) *)
Inductive cw_depth (st : cw_store) : cw_key -> nat -> Prop :=
| cw_depth_intro k n : (forall c, In c (cw_children k st) -> cw_depth st c n) -> cw_depth st k (S n).

Definition cw_sub (st1 st : cw_store) : Prop := incl (cs_objs st1) (cs_objs st).
Definition cw_absent (k : cw_key) (st : cw_store) : Prop := cw_find k st = None.

Lemma cw_desc_trans st a b c : cw_desc st a b -> cw_desc st b c -> cw_desc st a c.
Proof. induction 1; intros Hbc; [exact Hbc|]. eapply cw_desc_step; eauto. Qed.

Lemma cw_children_mono k st1 st : cw_sub st1 st -> incl (cw_children k st1) (cw_children k st).
Proof.
  intros Hs c Hc. unfold cw_children in *. apply in_map_iff in Hc as (o & Ho & Hin).
  apply filter_In in Hin as [Hin Hf]. apply in_map_iff. exists o. split; [assumption|].
  apply filter_In. split; [apply Hs; assumption|assumption].
Qed.

Lemma cw_find_in k st o : cw_find k st = Some o -> In o (cs_objs st) /\ co_key o = k.
Proof.
  unfold cw_find. intros H. apply find_some in H as [Hin Hk]. split; [assumption|].
  apply cw_keq_eq in Hk. auto.
Qed.

Lemma cw_in_find o st : In o (cs_objs st) -> cw_find (co_key o) st <> None.
Proof.
  intros Hin Hn. unfold cw_find in Hn. pose proof (find_none _ _ Hn o Hin) as H. cbn in H.
  rewrite cw_keq_refl in H. discriminate.
Qed.

Lemma cw_absent_sub k st1 st : cw_sub st1 st -> cw_absent k st -> cw_absent k st1.
Proof.
  unfold cw_absent. intros Hs Ha. destruct (cw_find k st1) as [o|] eqn:E; [|reflexivity].
  apply cw_find_in in E as [Hin Hk]. subst k. exfalso. exact (cw_in_find o st (Hs o Hin) Ha).
Qed.

Lemma cw_children_present k st c : In c (cw_children k st) -> cw_find c st <> None.
Proof.
  unfold cw_children. intros H. apply in_map_iff in H as (o & <- & Hin). apply filter_In in Hin as [Hin _].
  apply cw_in_find. assumption.
Qed.

Lemma cw_find_oremove_other k k' l : cw_keq k k' = false ->
  find (fun o => cw_keq k' (co_key o)) (cw_oremove k l) = find (fun o => cw_keq k' (co_key o)) l.
Proof.
  intros Hne. induction l as [|x l IH]; [reflexivity|]. cbn [cw_oremove filter find].
  destruct (cw_keq k (co_key x)) eqn:E1; cbn [negb].
  - destruct (cw_keq k' (co_key x)) eqn:E2; [|exact IH].
    apply cw_keq_eq in E1, E2. subst. rewrite cw_keq_refl in Hne. discriminate.
  - cbn [find]. destruct (cw_keq k' (co_key x)); [reflexivity|exact IH].
Qed.

Lemma cw_helper_sub fuel k st : cw_sub (cw_del_helper fuel k st) st.
Proof. apply cw_del_helper_incl. Qed.

Lemma cw_sub_trans a b c : cw_sub a b -> cw_sub b c -> cw_sub a c.
Proof. unfold cw_sub. intros H1 H2. eapply incl_tran; eauto. Qed.

Lemma cw_fold_sub f ch : forall st, cw_sub (fold_left (fun s c => cw_del_helper f c s) ch st) st.
Proof.
  induction ch as [|c ch IH]; intros st; [apply incl_refl|]. cbn [fold_left].
  eapply cw_sub_trans; [apply IH|apply cw_helper_sub].
Qed.

(* ---------------------------------------------------------------- only dependents are removed *)
Lemma cw_cascade_sound st0 k' : forall f k st,
  cw_sub st st0 -> cw_find k' st <> None -> cw_absent k' (cw_del_helper f k st) -> cw_desc st0 k k'.
Proof.
  induction f as [|f IH]; intros k st Hs Hp Ha; [exfalso; exact (Hp Ha)|].
  cbn [cw_del_helper] in Ha. destruct (cw_find k st) as [ob|] eqn:Ek; [|exfalso; exact (Hp Ha)].
  destruct (cw_keq k k') eqn:Ekk; [apply cw_keq_eq in Ekk; subst; constructor|].
  unfold cw_absent, cw_find in Ha. cbn [cs_objs] in Ha. rewrite (cw_find_oremove_other k k' _ Ekk) in Ha.
  assert (F : forall ch st1, cw_sub st1 st0 -> cw_find k' st1 <> None ->
              cw_absent k' (fold_left (fun s c => cw_del_helper f c s) ch st1) ->
              exists c, In c ch /\ cw_desc st0 c k').
  { induction ch as [|c ch IHc]; intros st1 Hs1 Hp1 Ha1; [exfalso; exact (Hp1 Ha1)|].
    cbn [fold_left] in Ha1. destruct (cw_find k' (cw_del_helper f c st1)) eqn:E.
    - destruct (IHc (cw_del_helper f c st1)) as (c' & Hc' & Hd); try assumption.
      + eapply cw_sub_trans; [apply cw_helper_sub|assumption].
      + congruence.
      + exists c'. split; [right; assumption|assumption].
    - exists c. split; [left; reflexivity|]. eapply IH; eauto. }
  destruct (F (cw_children k st) st Hs Hp Ha) as (c & Hc & Hd).
  eapply cw_desc_step; [|exact Hd]. apply (cw_children_mono k st st0 Hs). exact Hc.
Qed.

(* ---------------------------------------------------------------- all dependents are removed *)
(* what is gone took its dependents with it *)
Definition cw_closed (st0 st : cw_store) : Prop :=
  forall y x, cw_find y st0 <> None -> cw_absent y st -> cw_desc st0 y x -> cw_absent x st.

Lemma cw_nodup_key_inj (l : list cw_obj) a b :
  NoDup (map co_key l) -> In a l -> In b l -> co_key a = co_key b -> a = b.
Proof.
  induction l as [|x l IH]; intros Hn Ha Hb He; [contradiction|]. cbn in Hn. inversion Hn; subst.
  destruct Ha as [<-|Ha], Hb as [<-|Hb]; try reflexivity.
  - exfalso. apply H1. rewrite He. apply in_map. assumption.
  - exfalso. apply H1. rewrite <- He. apply in_map. assumption.
  - apply IH; assumption.
Qed.

Lemma cw_child_still st0 st k c :
  cw_unique st0 -> cw_sub st st0 -> In c (cw_children k st0) -> cw_find c st <> None -> In c (cw_children k st).
Proof.
  intros Hu Hs Hc Hp. unfold cw_children in Hc. apply in_map_iff in Hc as (o & Ho & Hin).
  apply filter_In in Hin as [Hin Hf].
  destruct (cw_find c st) as [o'|] eqn:E; [|congruence]. apply cw_find_in in E as [Hin' Hk'].
  assert (o' = o) as ->.
  { apply (cw_nodup_key_inj (cs_objs st0)); [exact Hu|apply Hs; assumption|assumption|congruence]. }
  unfold cw_children. apply in_map_iff. exists o. split; [assumption|]. apply filter_In. split; assumption.
Qed.

Lemma cw_cascade_complete st0 : cw_unique st0 -> forall f k st,
  cw_sub st st0 -> cw_closed st0 st -> cw_find k st0 <> None -> cw_depth st0 k f ->
  (forall x, cw_desc st0 k x -> cw_absent x (cw_del_helper f k st)) /\ cw_closed st0 (cw_del_helper f k st).
Proof.
  intros Hu. induction f as [|f IH]; intros k st Hs Hc Hk Hd; [inversion Hd|].
  inversion Hd as [k0 n Hch]; subst.
  cbn [cw_del_helper]. destruct (cw_find k st) as [ob|] eqn:Ek.
  2:{ split; [|exact Hc]. intros x Hx. exact (Hc k x Hk Ek Hx). }
  (* the fold over the children *)
  assert (G : forall ch st1, (forall c, In c ch -> cw_find c st0 <> None /\ cw_depth st0 c f) ->
              cw_sub st1 st0 -> cw_closed st0 st1 ->
              (forall c, In c ch -> forall x, cw_desc st0 c x ->
                 cw_absent x (fold_left (fun s c => cw_del_helper f c s) ch st1)) /\
              cw_closed st0 (fold_left (fun s c => cw_del_helper f c s) ch st1)).
  { induction ch as [|c ch IHc]; intros st1 Hall Hs1 Hc1; [split; [intros c []|exact Hc1]|].
    cbn [fold_left].
    destruct (Hall c (or_introl eq_refl)) as [Hpc Hdc].
    destruct (IH c st1 Hs1 Hc1 Hpc Hdc) as [A1 C1].
    destruct (IHc (cw_del_helper f c st1)) as [A2 C2].
    - intros c' Hc'. apply Hall. right. assumption.
    - eapply cw_sub_trans; [apply cw_helper_sub|assumption].
    - exact C1.
    - split; [|exact C2]. intros c' [<-|Hc'] x Hx.
      + eapply cw_absent_sub; [apply cw_fold_sub|]. apply A1. assumption.
      + eapply A2; eauto. }
  destruct (G (cw_children k st) st) as [A C]; try assumption.
  { intros c Hcin. pose proof (cw_children_mono k st st0 Hs c Hcin) as Hc0.
    split; [apply (cw_children_present k st0 c Hc0)|apply Hch; assumption]. }
  set (st1 := fold_left (fun s c => cw_del_helper f c s) (cw_children k st) st) in *.
  assert (Hs1 : cw_sub st1 st) by apply cw_fold_sub.
  assert (Hrm : forall x, cw_absent x st1 -> cw_absent x
             {| cs_objs := cw_oremove k (cs_objs st1); cs_items := cw_kremove k (cs_items st1);
                cs_files := if co_runtime ob then cw_fremove k (cs_files st1) else cs_files st1 |}).
  { intros x Hx. eapply cw_absent_sub; [|exact Hx]. unfold cw_sub. cbn [cs_objs]. apply cw_oremove_incl. }
  assert (Hall : forall x, cw_desc st0 k x -> cw_absent x
             {| cs_objs := cw_oremove k (cs_objs st1); cs_items := cw_kremove k (cs_items st1);
                cs_files := if co_runtime ob then cw_fremove k (cs_files st1) else cs_files st1 |}).
  { intros x Hx. inversion Hx as [|k1 c x1 Hcin Hcx]; subst.
    - unfold cw_absent, cw_find. cbn [cs_objs]. apply cw_find_oremove.
    - apply Hrm. destruct (cw_find c st) as [oc|] eqn:Ec.
      + apply (A c); [|assumption]. apply (cw_child_still st0 st k c Hu Hs Hcin). congruence.
      + eapply cw_absent_sub; [exact Hs1|]. exact (Hc c x (cw_children_present k st0 c Hcin) Ec Hcx). }
  split; [exact Hall|].
  intros y x Hy Hay Hyx.
  destruct (cw_keq k y) eqn:Eky.
  - apply cw_keq_eq in Eky. subst y. apply Hall. assumption.
  - apply Hrm. apply (C y x Hy); [|assumption].
    unfold cw_absent, cw_find in Hay |- *. cbn [cs_objs] in Hay. rewrite (cw_find_oremove_other k y _ Eky) in Hay. exact Hay.
Qed.

(* ---------------------------------------------------------------- the theorem *)
Theorem cw_delete_cascade_exact st k o :
  cw_unique st -> cw_find k st = Some o -> co_runtime o = true ->
  cw_depth st k (S (length (cs_objs st))) ->
  exists st', cw_delete st k true = (st', CwrOk) /\ cw_sub st' st /\
    forall x, cw_find x st <> None -> (cw_find x st' = None <-> cw_desc st k x).
Proof.
  intros Hu Hf Hr Hd. unfold cw_delete. rewrite Hf, Hr. cbn [negb andb].
  eexists. split; [reflexivity|]. split; [apply cw_helper_sub|].
  intros x Hx. split.
  - intros Ha. eapply (cw_cascade_sound st x); [apply incl_refl|exact Hx|exact Ha].
  - intros Hdx.
    destruct (cw_cascade_complete st Hu (S (length (cs_objs st))) k st (incl_refl _)) as [A _]; try assumption.
    + intros y z Hy Hay _. exfalso. exact (Hy Hay).
    + congruence.
    + apply A. assumption.
Qed.

(* a non-cascading delete of an object with dependents is refused and changes nothing: cw_delete_needs_cascade *)
