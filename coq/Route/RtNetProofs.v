(* C11 - the network theorems: the kernel-evaluated shards (RtSweep_*.v) combined into statements over
   the whole finite families, and the "finite, at most once" reading obtained from the same sweep. *)
From Coq Require Import List Arith Bool PeanoNat Lia.
From Icv Require Import Route.RtModel Route.RtProofs Route.RtNet Route.RtFamilies Route.RtSched Route.RtNetSound.
From Icv Require Import Route.RtSweep_ch_a Route.RtSweep_ch_b Route.RtSweep_ch_g
     Route.RtSweep_g_a Route.RtSweep_g_b.
Import ListNotations.

(* a weaker final condition is satisfied by every run that satisfies a stronger one *)
Lemma rt_explore_mono : forall (f g : list nat -> bool), (forall p, f p = true -> g p = true) ->
  forall fuel c links target inflight processed,
  rt_explore fuel c links target f inflight processed = true ->
  rt_explore fuel c links target g inflight processed = true.
Proof.
  intros f g H. induction fuel as [|n IH]; intros c links target inflight processed; [simpl; auto|].
  cbn [rt_explore]. destruct inflight as [|m r]; [apply H|].
  destruct (rt_effects c links target m) as [effs|]; [|auto].
  rewrite !forallb_forall. intros K e He. specialize (K e He).
  apply andb_true_iff in K. destruct K as [K1 K2]. apply andb_true_iff. split; [assumption|apply IH; assumption].
Qed.

Lemma rt_run_ok_mono : forall (f g : list nat -> bool), (forall p, f p = true -> g p = true) ->
  forall c links target s, rt_run_ok c links target s f = true -> rt_run_ok c links target s g = true.
Proof.
  intros f g H c links target s. unfold rt_run_ok. destruct (rt_zone_of c s); [|auto].
  rewrite !forallb_forall. intros K x Hx. eapply rt_explore_mono; [exact H|]. apply K. assumption.
Qed.

Lemma rt_all_ok_finite_once : forall c links target s,
  rt_all_ok c links target s = true -> rt_run_ok c links target s (fun _ => true) = true.
Proof.
  unfold rt_all_ok. intros c links target s. destruct (rt_zone_of c s) eqn:E; [|discriminate].
  apply rt_run_ok_mono. reflexivity.
Qed.

Lemma rt_sweep_cfg_spec : forall c targets links target s,
  rt_sweep_cfg c targets = true -> In links (rt_powerset (rt_related_pairs c)) -> In target targets ->
  In s (flat_map rt_zeps c) -> rt_all_ok c links target s = true.
Proof.
  unfold rt_sweep_cfg. intros c targets links target s H H1 H2 H3.
  rewrite forallb_forall in H. specialize (H links H1).
  rewrite forallb_forall in H. specialize (H target H2).
  rewrite forallb_forall in H. apply H. assumption.
Qed.

Lemma rt_in_split : forall (A : Type) n (l : list A) x, In x l -> In x (firstn n l) \/ In x (skipn n l).
Proof. intros A n l x H. rewrite <- (firstn_skipn n l) in H. apply in_app_or. assumption. Qed.

(* the shard lemmas are only ever used through these generic, variable-headed steps, so that the kernel never
   has to compare two closed sweep terms up to conversion (which would re-run the sweep lazily) *)
Lemma rt_forallb_in : forall (A : Type) (f : A -> bool) l x, forallb f l = true -> In x l -> f x = true.
Proof. intros A f l x H. rewrite forallb_forall in H. apply H. Qed.

Lemma rt_sweep_ch_in : forall l c, rt_sweep_ch l = true -> In c l -> rt_sweep_cfg c (seq 0 (length c)) = true.
Proof. intros l c H I. exact (rt_forallb_in _ (fun c => rt_sweep_cfg c (seq 0 (length c))) l c H I). Qed.

Lemma rt_sweep_chg_in : forall l c, RtFamilies.rt_sweep_chg l = true -> In c l -> rt_sweep_cfg (c ++ [rt_gzone]) [length c] = true.
Proof. intros l c H I. exact (rt_forallb_in _ (fun c => rt_sweep_cfg (c ++ [rt_gzone]) [length c]) l c H I). Qed.

Lemma rt_sweep_g_in : forall l c, rt_sweep_g l = true -> In c l -> rt_sweep_cfg c [rt_gtarget c] = true.
Proof. intros l c H I. exact (rt_forallb_in _ (fun c => rt_sweep_cfg c [rt_gtarget c]) l c H I). Qed.

Lemma rt_fam_g_in : forall l lo hi c, In c l -> lo <= rt_pairs c -> rt_pairs c <= hi ->
  In c (filter (fun c => (lo <=? rt_pairs c) && (rt_pairs c <=? hi)) l).
Proof.
  intros l lo hi c I A B. apply filter_In. split; [assumption|].
  apply andb_true_iff. split; apply Nat.leb_le; assumption.
Qed.

(* chains of 1..3 zones, every target zone of the chain *)
Theorem rt_chains_all_ok : forall c links target s,
  In c rt_chains -> In links (rt_powerset (rt_related_pairs c)) -> target < length c ->
  In s (flat_map rt_zeps c) -> rt_all_ok c links target s = true.
Proof.
  intros c links target s Hc Hl Ht Hs.
  assert (rt_sweep_cfg c (seq 0 (length c)) = true) as K.
  { destruct (rt_in_split _ 13 _ _ Hc) as [H|H].
    - exact (rt_sweep_ch_in _ c rt_sweep_ch_a H).
    - exact (rt_sweep_ch_in _ c rt_sweep_ch_b H). }
  apply (rt_sweep_cfg_spec c (seq 0 (length c)) links target s K Hl); [|exact Hs]. apply in_seq. lia.
Qed.

(* the same chains with a global zone as target *)
Theorem rt_chains_global_all_ok : forall c links s,
  In c rt_chains -> In links (rt_powerset (rt_related_pairs (c ++ [rt_gzone]))) ->
  In s (flat_map rt_zeps (c ++ [rt_gzone])) -> rt_all_ok (c ++ [rt_gzone]) links (length c) s = true.
Proof.
  intros c links s Hc Hl Hs.
  apply (rt_sweep_cfg_spec (c ++ [rt_gzone]) [length c] links (length c) s (rt_sweep_chg_in _ c rt_sweep_ch_g Hc) Hl); [|exact Hs].
  left. reflexivity.
Qed.

Lemma rt_skipn_skipn : forall (A : Type) m n (l : list A), skipn n (skipn m l) = skipn (m + n) l.
Proof.
  induction m as [|m IH]; intros n l; [reflexivity|].
  destruct l as [|x l]; simpl; [destruct n; reflexivity | apply IH].
Qed.

Lemma rt_in_split3 : forall (A : Type) n (l : list A) x, In x l ->
  In x (firstn n l) \/ In x (firstn n (skipn n l)) \/ In x (firstn n (skipn (2 * n) l)) \/ In x (skipn (3 * n) l).
Proof.
  intros A n l x H. destruct (rt_in_split A n l x H) as [K|K]; [auto|].
  destruct (rt_in_split A n _ x K) as [K2|K2]; [auto|]. rewrite rt_skipn_skipn in K2.
  replace (n + n) with (2 * n) in K2 by lia.
  destruct (rt_in_split A n _ x K2) as [K3|K3]; [auto|].
  rewrite rt_skipn_skipn in K3. replace (2 * n + n) with (3 * n) in K3 by lia. auto.
Qed.

(* trees of depth <= 3, <= 2 children per zone, global target, at most 10 directly related endpoint pairs.
   (Round 2 went up to 12 pairs in six more shards; they were dropped in round 3: C11_global_*_unbounded covers every
   tree, and the shards made the clean build and above all coqchk - which evaluates vm_compute casts lazily -
   prohibitively slow.) *)
Theorem rt_global_all_ok : forall c links s,
  In c rt_global_trees -> rt_pairs c <= 10 -> In links (rt_powerset (rt_related_pairs c)) ->
  In s (flat_map rt_zeps c) -> rt_all_ok c links (rt_gtarget c) s = true.
Proof.
  intros c links s Hc Hp Hl Hs.
  assert (rt_sweep_cfg c [rt_gtarget c] = true) as K.
  { destruct (le_lt_dec (rt_pairs c) 9) as [A|A].
    { exact (rt_sweep_g_in _ c rt_sweep_g_a (rt_fam_g_in rt_global_trees 0 9 c Hc (Nat.le_0_l _) A)). }
    assert (10 <= rt_pairs c) as B' by lia.
    exact (rt_sweep_g_in _ c rt_sweep_g_b (rt_fam_g_in rt_global_trees 10 10 c Hc B' Hp)). }
  apply (rt_sweep_cfg_spec c [rt_gtarget c] links (rt_gtarget c) s K Hl); [|exact Hs]. left. reflexivity.
Qed.

(* ---------------- from the boolean verdicts to statements about the step relation ---------------- *)
Lemma rt_final_complete_ext : forall c links target lzs P P',
  (forall x, In x P <-> In x P') -> rt_final_complete c links target lzs P = rt_final_complete c links target lzs P'.
Proof.
  intros c links target lzs P P' H. unfold rt_final_complete. f_equal.
  induction (flat_map (rt_eps c) (rt_entitled_zones c target lzs)) as [|e l IH]; simpl; [reflexivity|].
  rewrite IH. f_equal. apply eq_true_iff_eq. rewrite !rt_mem_In. apply H.
Qed.

Definition rt_small_b (c : rt_cfg) : bool := forallb (fun zr => length (rt_zeps zr) <=? 2) c.
Lemma rt_small_b_spec : forall c, rt_small_b c = true -> rt_small c.
Proof.
  intros c H z. unfold rt_eps, rt_getz. destruct (nth_in_or_default z c rt_zdummy) as [K|K].
  - unfold rt_small_b in H. rewrite forallb_forall in H. apply Nat.leb_le. apply H. assumption.
  - rewrite K. simpl. lia.
Qed.

Lemma rt_families_small :
  forallb rt_small_b rt_chains && forallb (fun c => rt_small_b (c ++ [rt_gzone])) rt_chains &&
  forallb rt_small_b rt_global_trees = true.
Proof. vm_compute. reflexivity. Qed.

Lemma rt_chains_small : forall c, In c rt_chains -> rt_small c /\ rt_small (c ++ [rt_gzone]).
Proof.
  intros c H. pose proof rt_families_small as F.
  apply andb_true_iff in F. destruct F as [F _]. apply andb_true_iff in F. destruct F as [F1 F2].
  split; apply rt_small_b_spec.
  - exact (rt_forallb_in _ rt_small_b rt_chains c F1 H).
  - exact (rt_forallb_in _ (fun c => rt_small_b (c ++ [rt_gzone])) rt_chains c F2 H).
Qed.

Lemma rt_global_trees_small : forall c, In c rt_global_trees -> rt_small c.
Proof.
  intros c H. pose proof rt_families_small as F. apply andb_true_iff in F. destruct F as [_ F].
  apply rt_small_b_spec. exact (rt_forallb_in _ rt_small_b rt_global_trees c F H).
Qed.

(* what rt_all_ok = true means: for EVERY admissible per-node iteration order and EVERY run of the network
   relation from the originating relay: fewer than rt_fuel c deliveries (finitely many transmissions), no
   delivery makes an endpoint process the event a second time, and when nothing is in flight any more the
   processed set is complete (under the connectivity premise, see rt_final_complete) *)
Theorem rt_all_ok_relational : forall c links target s lz nord,
  rt_small c -> rt_nord_ok c nord -> rt_zone_of c s = Some lz -> rt_all_ok c links target s = true ->
  forall k st', rt_sched_run rt_msg (rt_effect c links target nord) (rt_init c links target nord s lz) k st' ->
    k < rt_fuel c /\
    (fst st' = [] -> rt_final_complete c links target lz (snd st') = true) /\
    (forall np st'', rt_sched_step rt_msg (rt_effect c links target nord) st' np st'' -> rt_fresh np (snd st') = true).
Proof.
  intros c links target s lz nord Hs Hn Hz H. unfold rt_all_ok in H. rewrite Hz in H.
  apply (rt_run_ok_sound c links target s lz (rt_final_complete c links target lz) nord); try assumption.
  apply rt_final_complete_ext.
Qed.
