(* C11 - the network theorems: the kernel-evaluated shards (RtSweep_*.v) combined into statements over
   the whole finite families, and the "finite, at most once" reading obtained from the same sweep. *)
From Coq Require Import List Arith Bool PeanoNat Lia.
From Icv Require Import Route.RtModel Route.RtNet Route.RtFamilies.
From Icv Require Import Route.RtSweep_ch_a Route.RtSweep_ch_b Route.RtSweep_chg
     Route.RtSweep_g_a Route.RtSweep_g_b.
Import ListNotations.

(* a weaker final condition is satisfied by every run that satisfies a stronger one *)
Lemma rt_explore_mono : forall (f g : list nat -> bool), (forall p, f p = true -> g p = true) ->
  forall fuel c links target inflight processed,
  rt_explore fuel c links target f inflight processed = true ->
  rt_explore fuel c links target g inflight processed = true.
Proof.
  intros f g H. induction fuel as [|n IH]; intros c links target inflight processed; [simpl; auto|].
  cbn [rt_explore]. destruct inflight as [|m r]; [apply H|].
  remember (m :: r) as infl. clear Heqinfl. rewrite !forallb_forall. intros K i Hi. specialize (K i Hi).
  destruct (rt_zone_of c (rt_mto (nth i infl rt_msg0))); [|discriminate].
  match goal with |- (if ?b then _ else _) = true => destruct b end; [apply IH; assumption|].
  match goal with |- (if ?b then _ else _) = true => destruct b end; [discriminate|].
  rewrite forallb_forall in *. intros x Hx. apply IH. apply K. assumption.
Qed.

Lemma rt_run_ok_mono : forall (f g : list nat -> bool), (forall p, f p = true -> g p = true) ->
  forall c links target s, rt_run_ok c links target s f = true -> rt_run_ok c links target s g = true.
Proof.
  intros f g H c links target s. unfold rt_run_ok. destruct (rt_zone_of c s); [|auto].
  rewrite !forallb_forall. intros K x Hx. eapply rt_explore_mono; [exact H|]. apply K. assumption.
Qed.

Lemma rt_all_ok_finite_once : forall c links target s,
  rt_all_ok c links target s = true -> rt_run_ok c links target s (fun _ => true) = true.
Proof.
  unfold rt_all_ok. intros c links target s. destruct (rt_zone_of c s) eqn:E; [|discriminate].
  apply rt_run_ok_mono. reflexivity.
Qed.

Lemma rt_sweep_cfg_spec : forall c targets links target s,
  rt_sweep_cfg c targets = true -> In links (rt_powerset (rt_related_pairs c)) -> In target targets ->
  In s (flat_map rt_zeps c) -> rt_all_ok c links target s = true.
Proof.
  unfold rt_sweep_cfg. intros c targets links target s H H1 H2 H3.
  rewrite forallb_forall in H. specialize (H links H1).
  rewrite forallb_forall in H. specialize (H target H2).
  rewrite forallb_forall in H. apply H. assumption.
Qed.

Lemma rt_in_split : forall (A : Type) n (l : list A) x, In x l -> In x (firstn n l) \/ In x (skipn n l).
Proof. intros A n l x H. rewrite <- (firstn_skipn n l) in H. apply in_app_or. assumption. Qed.

(* the shard lemmas are only ever used through these generic, variable-headed steps, so that the kernel never
   has to compare two closed sweep terms up to conversion (which would re-run the sweep lazily) *)
Lemma rt_forallb_in : forall (A : Type) (f : A -> bool) l x, forallb f l = true -> In x l -> f x = true.
Proof. intros A f l x H. rewrite forallb_forall in H. apply H. Qed.

Lemma rt_sweep_ch_in : forall l c, rt_sweep_ch l = true -> In c l -> rt_sweep_cfg c (seq 0 (length c)) = true.
Proof. intros l c H I. exact (rt_forallb_in _ (fun c => rt_sweep_cfg c (seq 0 (length c))) l c H I). Qed.

Lemma rt_sweep_chg_in : forall l c, RtFamilies.rt_sweep_chg l = true -> In c l -> rt_sweep_cfg (c ++ [rt_gzone]) [length c] = true.
Proof. intros l c H I. exact (rt_forallb_in _ (fun c => rt_sweep_cfg (c ++ [rt_gzone]) [length c]) l c H I). Qed.

Lemma rt_sweep_g_in : forall l c, rt_sweep_g l = true -> In c l -> rt_sweep_cfg c [rt_gtarget c] = true.
Proof. intros l c H I. exact (rt_forallb_in _ (fun c => rt_sweep_cfg c [rt_gtarget c]) l c H I). Qed.

Lemma rt_fam_g_in : forall l lo hi c, In c l -> lo <= rt_pairs c -> rt_pairs c <= hi ->
  In c (filter (fun c => (lo <=? rt_pairs c) && (rt_pairs c <=? hi)) l).
Proof.
  intros l lo hi c I A B. apply filter_In. split; [assumption|].
  apply andb_true_iff. split; apply Nat.leb_le; assumption.
Qed.

(* chains of 1..3 zones, every target zone of the chain *)
Theorem rt_chains_all_ok : forall c links target s,
  In c rt_chains -> In links (rt_powerset (rt_related_pairs c)) -> target < length c ->
  In s (flat_map rt_zeps c) -> rt_all_ok c links target s = true.
Proof.
  intros c links target s Hc Hl Ht Hs.
  assert (rt_sweep_cfg c (seq 0 (length c)) = true) as K.
  { destruct (rt_in_split _ 13 _ _ Hc) as [H|H].
    - exact (rt_sweep_ch_in _ c rt_sweep_ch_a H).
    - exact (rt_sweep_ch_in _ c rt_sweep_ch_b H). }
  apply (rt_sweep_cfg_spec c (seq 0 (length c)) links target s K Hl); [|exact Hs]. apply in_seq. lia.
Qed.

(* the same chains with a global zone as target *)
Theorem rt_chains_global_all_ok : forall c links s,
  In c rt_chains -> In links (rt_powerset (rt_related_pairs (c ++ [rt_gzone]))) ->
  In s (flat_map rt_zeps (c ++ [rt_gzone])) -> rt_all_ok (c ++ [rt_gzone]) links (length c) s = true.
Proof.
  intros c links s Hc Hl Hs.
  apply (rt_sweep_cfg_spec (c ++ [rt_gzone]) [length c] links (length c) s (rt_sweep_chg_in _ c RtSweep_chg.rt_sweep_chg Hc) Hl); [|exact Hs].
  left. reflexivity.
Qed.

(* trees of depth <= 3, <= 2 children per zone, global target, at most 9 directly related endpoint pairs *)
Theorem rt_global_all_ok : forall c links s,
  In c rt_global_trees -> rt_pairs c <= 9 -> In links (rt_powerset (rt_related_pairs c)) ->
  In s (flat_map rt_zeps c) -> rt_all_ok c links (rt_gtarget c) s = true.
Proof.
  intros c links s Hc Hp Hl Hs.
  assert (rt_sweep_cfg c [rt_gtarget c] = true) as K.
  { destruct (le_lt_dec (rt_pairs c) 8) as [A|A].
    - exact (rt_sweep_g_in _ c rt_sweep_g_a (rt_fam_g_in rt_global_trees 0 8 c Hc (Nat.le_0_l _) A)).
    - assert (9 <= rt_pairs c) as B by lia.
      exact (rt_sweep_g_in _ c rt_sweep_g_b (rt_fam_g_in rt_global_trees 9 9 c Hc B Hp)). }
  apply (rt_sweep_cfg_spec c [rt_gtarget c] links (rt_gtarget c) s K Hl); [|exact Hs]. left. reflexivity.
Qed.
