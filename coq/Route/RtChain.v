(* C11 - chains of ARBITRARY depth: the configuration class, what a relay step iterates on it, the zone master
   seen from both endpoints of a zone (symmetric connectivity), structural facts about the send list of one
   relay step, and the "future set" of an in-flight message that the unbounded induction (RtChainSafe.v,
   RtChainComplete.v) is built on.  Proofs only; nothing here is extracted. *)
From Coq Require Import List Arith Bool PeanoNat Lia Permutation.
From Icv Require Import Route.RtModel Route.RtProofs Route.RtOracleProofs Route.RtNet.
Import ListNotations.

(* ---------------------------------------------------------------- generic list facts *)
Lemma rt_nodup_flat_map : forall (A : Type) (g : A -> list nat) l,
  NoDup l -> (forall a, In a l -> NoDup (g a)) ->
  (forall a b x, In a l -> In b l -> a <> b -> In x (g a) -> In x (g b) -> False) ->
  NoDup (flat_map g l).
Proof.
  intros A g. induction l as [|a l IH]; simpl; intros ND H1 H2; [constructor|].
  inversion ND as [|a0 l0 Na NDl]; subst.
  assert (NoDup (flat_map g l)) as K.
  { apply IH; [assumption| |]; intros; eauto. }
  assert (forall u v : list nat, NoDup u -> NoDup v -> (forall x, In x u -> In x v -> False) -> NoDup (u ++ v)) as App.
  { induction u as [|h u IHu]; simpl; intros v Nu Nv D; [assumption|].
    inversion Nu; subst. constructor.
    - intros Q. apply in_app_or in Q. destruct Q as [Q|Q]; [contradiction | apply (D h); auto].
    - apply IHu; [assumption|assumption|]. intros x X1 X2. apply (D x); auto. }
  apply App; [apply H1; left; reflexivity | assumption |].
  intros x X1 X2. apply in_flat_map in X2. destruct X2 as [b [B1 B2]].
  apply (H2 a b x); auto. intros E. subst. contradiction.
Qed.

Lemma rt_two : forall (l : list nat) a b, NoDup l -> length l <= 2 -> In a l -> In b l -> a <> b ->
  forall e, In e l -> e = a \/ e = b.
Proof.
  intros l a b ND L Ha Hb Ne e He.
  destruct l as [|x [|y [|w l]]]; simpl in *; try lia; try tauto.
Qed.

Lemma rt_nodup_app_inv : forall (u v : list nat), NoDup (u ++ v) ->
  NoDup u /\ NoDup v /\ (forall x, In x u -> In x v -> False).
Proof.
  induction u as [|h u IH]; simpl; intros v N.
  - split; [constructor|]. split; [assumption|]. intros x [].
  - inversion N as [|? ? N1 N2]; subst. destruct (IH v N2) as [K1 [K2 K3]]. split; [|split].
    + constructor; [|assumption]. intros Q. apply N1. apply in_or_app. auto.
    + assumption.
    + intros x [E|E] X; [subst; apply N1; apply in_or_app; auto | eapply K3; eauto].
Qed.

Lemma rt_nodup_app_replace : forall (X A R : list nat),
  NoDup (A ++ R) -> NoDup X -> incl X A -> NoDup (X ++ R).
Proof.
  induction X as [|x X IH]; simpl; intros A R N NX I.
  - apply rt_nodup_app_inv in N. tauto.
  - inversion NX; subst. constructor.
    + intros Q. apply in_app_or in Q. destruct Q as [Q|Q]; [contradiction|].
      assert (In x A) as XA by (apply I; left; reflexivity).
      clear - N XA Q. induction A as [|h A IHA]; simpl in *; [contradiction|].
      inversion N; subst. destruct XA as [E|XA].
      * subst. apply H1. apply in_or_app. auto.
      * apply IHA; assumption.
    + apply (IH A R); [assumption|assumption|]. intros y Hy. apply I. right. assumption.
Qed.

(* ---------------------------------------------------------------- Endpoint::GetZone on well-formed configurations *)
Definition rt_all_eps (c : rt_cfg) : list nat := flat_map (rt_eps c) (seq 0 (length c)).

Lemma rt_zone_of_from_some : forall c i e z, rt_zone_of_from c i e = Some z ->
  i <= z /\ z - i < length c /\ In e (rt_zeps (nth (z - i) c rt_zdummy)).
Proof.
  induction c as [|zr r IH]; simpl; intros i e z H; [discriminate|].
  destruct (rt_mem e (rt_zeps zr)) eqn:E.
  - inversion H. subst. rewrite Nat.sub_diag. apply rt_mem_In in E. repeat split; [lia|lia|assumption].
  - apply IH in H. destruct H as [H1 [H2 H3]]. split; [lia|]. split; [lia|].
    replace (z - i) with (S (z - S i)) by lia. assumption.
Qed.

Lemma rt_zone_of_some : forall c e z, rt_zone_of c e = Some z -> z < length c /\ In e (rt_eps c z).
Proof.
  unfold rt_zone_of. intros c e z H. apply rt_zone_of_from_some in H. rewrite Nat.sub_0_r in H.
  unfold rt_eps, rt_getz. tauto.
Qed.

Lemma rt_zone_of_from_ex : forall c i e k, k < length c -> In e (rt_zeps (nth k c rt_zdummy)) ->
  exists z, rt_zone_of_from c i e = Some z.
Proof.
  induction c as [|zr r IH]; simpl; intros i e k L H; [lia|].
  destruct (rt_mem e (rt_zeps zr)) eqn:E; [eexists; reflexivity|].
  destruct k as [|k].
  - apply rt_mem_In in H. congruence.
  - apply (IH (S i) e k); [lia|assumption].
Qed.

Lemma rt_zone_of_in : forall c e z, NoDup (rt_all_eps c) -> z < length c -> In e (rt_eps c z) ->
  rt_zone_of c e = Some z.
Proof.
  intros c e z ND L H.
  destruct (rt_zone_of_from_ex c 0 e z L H) as [z' E]. fold (rt_zone_of c e) in E.
  destruct (rt_zone_of_some c e z' E) as [L' H'].
  rewrite E. f_equal.
  apply (rt_nodup_flat_disjoint (rt_eps c) (seq 0 (length c)) z' z e); try assumption; apply in_seq; lia.
Qed.

Lemma rt_all_eps_in : forall c e, In e (rt_all_eps c) <-> exists z, rt_zone_of c e = Some z.
Proof.
  intros c e. unfold rt_all_eps. rewrite in_flat_map. split.
  - intros [z [H1 H2]]. apply in_seq in H1. apply (rt_zone_of_from_ex c 0 e z); [lia|exact H2].
  - intros [z H]. apply rt_zone_of_some in H. exists z. split; [apply in_seq; lia|tauto].
Qed.

Lemma rt_all_eps_zeps : forall c, rt_all_eps c = flat_map rt_zeps c.
Proof.
  intros c. unfold rt_all_eps, rt_eps, rt_getz.
  assert (forall (pre : rt_cfg) r, flat_map (fun z => rt_zeps (nth z (pre ++ r) rt_zdummy)) (seq (length pre) (length r)) = flat_map rt_zeps r) as G.
  { intros pre r. revert pre. induction r as [|x r IH]; intros pre; simpl; [reflexivity|].
    rewrite app_nth2 by lia. rewrite Nat.sub_diag. simpl. f_equal.
    specialize (IH (pre ++ [x])). rewrite <- app_assoc, app_length in IH. simpl in IH.
    rewrite Nat.add_1_r in IH. exact IH. }
  exact (G [] c).
Qed.

(* ---------------------------------------------------------------- chains *)
(* zone 0 is the top, zone z+1 is the child of zone z; no global zone; at most two endpoints per zone (the
   property's bound); every endpoint belongs to one zone.  Endpoint NAMES (numbers) are arbitrary. *)
Definition rt_chain_wf (c : rt_cfg) : Prop :=
  (forall z, z < length c -> rt_parent c z = match z with 0 => None | S j => Some j end) /\
  (forall z, z < length c -> rt_global c z = false) /\
  (forall z, length (rt_eps c z) <= 2) /\
  NoDup (rt_all_eps c).

Lemma rt_chain_parents_from : forall c, rt_chain_wf c ->
  forall fuel z, z < length c -> z <= fuel -> rt_parents_from c fuel z = rev (seq 0 z).
Proof.
  intros c [Hp _]. induction fuel as [|f IH]; intros z L F.
  - assert (z = 0) by lia. subst. reflexivity.
  - simpl. rewrite Hp by assumption. destruct z as [|j]; [reflexivity|].
    rewrite IH by lia. rewrite seq_S. simpl. rewrite rev_app_distr. reflexivity.
Qed.

Lemma rt_chain_all_parents : forall c z, rt_chain_wf c -> z < length c -> rt_all_parents c z = rev (seq 0 z).
Proof. intros c z W L. unfold rt_all_parents. apply rt_chain_parents_from; [assumption|assumption|lia]. Qed.

Lemma rt_chain_line_in : forall c T z, rt_chain_wf c -> T < length c ->
  (In z (T :: rt_all_parents c T) <-> z <= T).
Proof.
  intros c T z W L. rewrite rt_chain_all_parents by assumption. simpl. rewrite <- in_rev, in_seq. lia.
Qed.

Lemma rt_chain_line_nodup : forall c T, rt_chain_wf c -> T < length c -> NoDup (T :: rt_all_parents c T).
Proof.
  intros c T W L. rewrite rt_chain_all_parents by assumption. constructor.
  - rewrite <- in_rev, in_seq. lia.
  - apply NoDup_rev. apply seq_NoDup.
Qed.

Lemma rt_chain_one_zones : forall c lz tz, rt_chain_wf c -> lz < length c -> tz < length c ->
  rt_one_zones c lz tz = if (tz =? lz) || (S tz =? lz) || (tz =? S lz) then [tz] else [].
Proof.
  intros c lz tz [Hp [Hg _]] L1 L2.
  assert (rt_oeqb (match lz with 0 => None | S j => Some j end) (Some tz) = (S tz =? lz)) as E1.
  { destruct lz; simpl; [reflexivity | apply Nat.eqb_sym]. }
  assert (rt_oeqb (match tz with 0 => None | S j => Some j end) (Some lz) = (tz =? S lz)) as E2.
  { destruct tz; simpl; reflexivity. }
  unfold rt_one_zones, rt_target_zones, rt_related.
  rewrite (Hg tz L2), (Hp lz L1), (Hp tz L2), E1, E2.
  destruct ((tz =? lz) || (S tz =? lz) || (tz =? S lz)); reflexivity.
Qed.

Lemma rt_chain_relay_zones_in : forall c lz T z, rt_chain_wf c -> lz < length c -> T < length c ->
  (In z (rt_relay_zones c lz T) <-> z <= T /\ (z = lz \/ S z = lz \/ z = S lz)).
Proof.
  intros c lz T z W L1 L2. unfold rt_relay_zones. rewrite in_flat_map. split.
  - intros [tz [H1 H2]]. apply (rt_chain_line_in c T tz W L2) in H1.
    rewrite rt_chain_one_zones in H2 by (try assumption; lia).
    destruct ((tz =? lz) || (S tz =? lz) || (tz =? S lz)) eqn:E; [|contradiction].
    destruct H2 as [H2|[]]. subst z. split; [assumption|].
    apply orb_true_iff in E. destruct E as [E|E]; [apply orb_true_iff in E; destruct E as [E|E]|];
      apply Nat.eqb_eq in E; auto.
  - intros [H1 H2]. exists z. split; [apply (rt_chain_line_in c T z W L2); assumption|].
    rewrite rt_chain_one_zones by (try assumption; lia).
    assert ((z =? lz) || (S z =? lz) || (z =? S lz) = true) as E.
    { destruct H2 as [H2|[H2|H2]]; subst; rewrite ?Nat.eqb_refl, ?orb_true_r; reflexivity. }
    rewrite E. left. reflexivity.
Qed.

Lemma rt_chain_relay_zones_nodup : forall c lz T, rt_chain_wf c -> lz < length c -> T < length c ->
  NoDup (rt_relay_zones c lz T).
Proof.
  intros c lz T W L1 L2. unfold rt_relay_zones.
  apply rt_nodup_flat_map.
  - apply rt_chain_line_nodup; assumption.
  - intros tz H. apply (rt_chain_line_in c T tz W L2) in H.
    rewrite rt_chain_one_zones by (try assumption; lia).
    destruct ((tz =? lz) || (S tz =? lz) || (tz =? S lz)); repeat constructor. simpl. tauto.
  - intros a b x Ha Hb Ne Xa Xb.
    apply (rt_chain_line_in c T a W L2) in Ha. apply (rt_chain_line_in c T b W L2) in Hb.
    rewrite rt_chain_one_zones in Xa, Xb by (try assumption; lia).
    destruct ((a =? lz) || (S a =? lz) || (a =? S lz)); [|contradiction].
    destruct ((b =? lz) || (S b =? lz) || (b =? S lz)); [|contradiction].
    destruct Xa as [Xa|[]], Xb as [Xb|[]]. congruence.
Qed.

(* ---------------------------------------------------------------- GetMaster *)
Lemma rt_master_cases : forall c lz me conn,
  let m := rt_master c lz me conn in
  (m = me \/ (In m (rt_eps c lz) /\ In m conn)) /\ m <= me /\
  (forall e, In e (rt_eps c lz) -> In e conn -> m <= e).
Proof.
  intros c lz me conn. unfold rt_master.
  induction (rt_eps c lz) as [|a l IH]; simpl.
  - split; [left; reflexivity|]. split; [lia|]. intros e [].
  - destruct IH as [I1 [I2 I3]].
    destruct (rt_mem a conn || (a =? me)) eqn:P; simpl.
    + set (m' := fold_right Nat.min me (filter (fun e => rt_mem e conn || (e =? me)) l)) in *.
      split; [|split].
      * destruct (Nat.min_dec a m') as [E|E]; rewrite E.
        -- apply orb_true_iff in P. destruct P as [P|P].
           ++ right. apply rt_mem_In in P. auto.
           ++ apply Nat.eqb_eq in P. left. assumption.
        -- destruct I1 as [I1|[I1 I1']]; [left; assumption | right; auto].
      * lia.
      * intros e [E|E] C; [subst; lia|]. specialize (I3 e E C). lia.
    + split; [|split].
      * destruct I1 as [I1|[I1 I1']]; [left; assumption | right; auto].
      * assumption.
      * intros e [E|E] C; [|auto]. subst. apply rt_mem_In in C. rewrite C in P. discriminate.
Qed.

Lemma rt_view_in : forall links a b, In b (rt_view links a) <->
  exists p, In p links /\ ((fst p = a /\ snd p = b) \/ (fst p <> a /\ snd p = a /\ fst p = b)).
Proof.
  intros links a b. unfold rt_view. rewrite in_flat_map. split; intros [p [H1 H2]]; exists p; split; try assumption.
  - destruct (fst p =? a) eqn:E1.
    + apply Nat.eqb_eq in E1. destruct H2 as [H2|[]]. auto.
    + apply Nat.eqb_neq in E1. destruct (snd p =? a) eqn:E2; [|contradiction].
      apply Nat.eqb_eq in E2. destruct H2 as [H2|[]]. auto.
  - destruct H2 as [[A B]|[A [B C]]].
    + apply Nat.eqb_eq in A. rewrite A. left. assumption.
    + apply Nat.eqb_neq in A. rewrite A. apply Nat.eqb_eq in B. rewrite B. left. assumption.
Qed.

(* a TCP connection has two ends: the views derived from a link set are symmetric *)
Lemma rt_view_sym : forall links a b, In b (rt_view links a) -> In a (rt_view links b).
Proof.
  intros links a b H. apply rt_view_in in H. destruct H as [p [H1 H2]]. apply rt_view_in. exists p. split; [assumption|].
  destruct H2 as [[A B]|[A [B C]]].
  - destruct (Nat.eq_dec (fst p) b) as [E|E]; [left; split; congruence | right; auto].
  - left. auto.
Qed.

Lemma rt_linked_view : forall links a b, rt_linked links a b = true -> In b (rt_view links a).
Proof.
  intros links a b H. unfold rt_linked in H. apply existsb_exists in H. destruct H as [p [H1 H2]].
  apply rt_view_in. exists p. split; [assumption|].
  apply orb_true_iff in H2. destruct H2 as [H2|H2]; apply andb_true_iff in H2; destruct H2 as [A B];
    apply Nat.eqb_eq in A; apply Nat.eqb_eq in B.
  - auto.
  - destruct (Nat.eq_dec (fst p) a) as [E|E]; [left; split; congruence | right; auto].
Qed.

(* rt_master_agree: the two endpoints of a zone that see each other elect the same master *)
Lemma rt_master_agree : forall c z links a b,
  (forall e, In e (rt_eps c z) -> e = a \/ e = b) ->
  In a (rt_eps c z) -> In b (rt_eps c z) -> In b (rt_view links a) ->
  rt_master c z a (rt_view links a) = rt_master c z b (rt_view links b).
Proof.
  intros c z links a b H2 Ha Hb V. pose proof (rt_view_sym links a b V) as V'.
  destruct (rt_master_cases c z a (rt_view links a)) as [A1 [A2 A3]].
  destruct (rt_master_cases c z b (rt_view links b)) as [B1 [B2 B3]].
  specialize (A3 b Hb V). specialize (B3 a Ha V').
  assert (rt_master c z a (rt_view links a) = a \/ rt_master c z a (rt_view links a) = b) as A.
  { destruct A1 as [A1|[A1 _]]; [auto | apply H2; assumption]. }
  assert (rt_master c z b (rt_view links b) = a \/ rt_master c z b (rt_view links b) = b) as B.
  { destruct B1 as [B1|[B1 _]]; [auto | apply H2; assumption]. }
  lia.
Qed.

(* ---------------------------------------------------------------- the send list of one relay step *)
Lemma rt_sends_split : forall c me lz conn o ord target log e,
  In e (rt_sends (rt_relay c me lz conn o ord target log)) <->
  exists z, In z (rt_relay_zones c lz target) /\
            In e (rt_asends (rt_zone_loop me lz (rt_master c lz me conn) conn o ord z)).
Proof.
  intros. unfold rt_relay. simpl. rewrite in_flat_map. split.
  - intros [a [H1 H2]]. apply in_map_iff in H1. destruct H1 as [z [H1 H3]]. subst a. exists z. auto.
  - intros [z [H1 H2]]. eexists. split; [apply in_map; eassumption|assumption].
Qed.

Lemma rt_ep_step_asends : forall me lz master conn o cz a te,
  rt_asends (rt_ep_step me lz master conn o cz a te) = rt_asends a \/
  rt_asends (rt_ep_step me lz master conn o cz a te) = te :: rt_asends a.
Proof.
  intros. unfold rt_ep_step.
  destruct (te =? me); [auto|]. destruct (rt_mem te conn); simpl.
  2:{ destruct (cz =? lz); auto. }
  destruct (rt_relayed a && negb (cz =? lz)); [auto|].
  destruct (rt_oeqb (rt_ofrom o) (Some te)); [auto|].
  destruct (rt_oeqb (rt_ozone o) (Some cz)); [auto|].
  destruct (negb (master =? me) && negb (te =? master)); simpl; auto.
Qed.

Lemma rt_loop_sends_nodup : forall me lz master conn o cz l a,
  NoDup l -> NoDup (rt_asends a) -> (forall e, In e (rt_asends a) -> ~ In e l) ->
  NoDup (rt_asends (fold_left (rt_ep_step me lz master conn o cz) l a)).
Proof.
  induction l as [|te l IH]; simpl; intros a N1 N2 D; [assumption|].
  inversion N1; subst. apply IH; [assumption| |].
  - destruct (rt_ep_step_asends me lz master conn o cz a te) as [E|E]; rewrite E; [assumption|].
    constructor; [|assumption]. intros Q. apply (D te Q). left. reflexivity.
  - intros e He. destruct (rt_ep_step_asends me lz master conn o cz a te) as [E|E]; rewrite E in He.
    + intros Q. apply (D e He). right. assumption.
    + destruct He as [He|He]; [subst; assumption|]. intros Q. apply (D e He). right. assumption.
Qed.

Lemma rt_zeps_nodup_in : forall (l : rt_cfg) zr, In zr l -> NoDup (flat_map rt_zeps l) -> NoDup (rt_zeps zr).
Proof.
  induction l as [|x r IH]; simpl; intros zr K ND; [contradiction|].
  apply rt_nodup_app_inv in ND. destruct ND as [N1 [N2 _]].
  destruct K as [K|K]; [subst; assumption | apply IH; assumption].
Qed.

Section RtChainSends.
  Variables (c : rt_cfg) (ord : nat -> list nat).
  Hypothesis Hwf : rt_chain_wf c.
  Hypothesis Hord : forall z, Permutation (ord z) (rt_eps c z).

  Lemma rt_ord_in : forall z e, In e (ord z) <-> In e (rt_eps c z).
  Proof. intros z e. split; apply Permutation_in; [apply Hord | apply Permutation_sym; apply Hord]. Qed.

  Lemma rt_ord_zone : forall z e, z < length c -> In e (ord z) -> rt_zone_of c e = Some z.
  Proof.
    intros z e L H. destruct Hwf as [_ [_ [_ ND]]]. apply rt_zone_of_in; [assumption|assumption|].
    apply rt_ord_in. assumption.
  Qed.

  Lemma rt_eps_nodup : forall z, NoDup (rt_eps c z).
  Proof.
    intros z. destruct Hwf as [_ [_ [_ ND]]]. unfold rt_eps, rt_getz.
    destruct (nth_in_or_default z c rt_zdummy) as [K|K]; [|rewrite K; constructor].
    rewrite rt_all_eps_zeps in ND. exact (rt_zeps_nodup_in c _ K ND).
  Qed.

  Lemma rt_ord_nodup : forall z, NoDup (ord z).
  Proof.
    intros z. apply (Permutation_NoDup (l := rt_eps c z)); [apply Permutation_sym; apply Hord | apply rt_eps_nodup].
  Qed.

  (* every send goes to an endpoint of a zone next to (or equal to) the local zone and inside the target's line *)
  Lemma rt_chain_send : forall me lz conn o T log e, lz < length c -> T < length c ->
    In e (rt_sends (rt_relay c me lz conn o ord T log)) ->
    exists z, rt_zone_of c e = Some z /\ z <= T /\ (z = lz \/ S z = lz \/ z = S lz) /\
              In e (rt_eps c z) /\ e <> me /\ In e conn /\ rt_ofrom o <> Some e /\ rt_ozone o <> Some z /\
              (rt_master c lz me conn = me \/ e = rt_master c lz me conn).
  Proof.
    intros me lz conn o T log e L1 L2 H. apply rt_sends_in in H.
    destruct H as [z [Z1 [Z2 [Q1 [Q2 [Q3 [Q4 Q5]]]]]]].
    apply (rt_chain_relay_zones_in c lz T z Hwf L1 L2) in Z1. destruct Z1 as [Z1 Z3].
    exists z. assert (z < length c) as Lz by lia.
    split; [apply rt_ord_zone; assumption|]. repeat split; try assumption. apply rt_ord_in. assumption.
  Qed.

  Lemma rt_chain_sends_nodup : forall me lz conn o T log, lz < length c -> T < length c ->
    NoDup (rt_sends (rt_relay c me lz conn o ord T log)).
  Proof.
    intros me lz conn o T log L1 L2. unfold rt_relay. simpl.
    rewrite flat_map_concat_map, map_map, <- flat_map_concat_map.
    apply rt_nodup_flat_map.
    - apply rt_chain_relay_zones_nodup; assumption.
    - intros z _. unfold rt_zone_loop. apply rt_loop_sends_nodup; [apply rt_ord_nodup | constructor | simpl; tauto].
    - intros a b x Ha Hb Ne Xa Xb.
      apply (rt_chain_relay_zones_in c lz T a Hwf L1 L2) in Ha.
      apply (rt_chain_relay_zones_in c lz T b Hwf L1 L2) in Hb.
      apply rt_zone_loop_sends in Xa. apply rt_zone_loop_sends in Xb.
      destruct Xa as [Xa _], Xb as [Xb _].
      apply rt_ord_zone in Xa; [|lia]. apply rt_ord_zone in Xb; [|lia]. congruence.
  Qed.

  (* a foreign zone is entered through one endpoint: two sends into the same foreign zone are the same send *)
  Lemma rt_chain_sends_single : forall me lz conn o T log e e' z, lz < length c -> T < length c ->
    In e (rt_sends (rt_relay c me lz conn o ord T log)) ->
    In e' (rt_sends (rt_relay c me lz conn o ord T log)) ->
    rt_zone_of c e = Some z -> rt_zone_of c e' = Some z -> z <> lz -> e = e'.
  Proof.
    intros me lz conn o T log e e' z L1 L2 H H' Z Z' Ne.
    apply rt_sends_split in H. apply rt_sends_split in H'.
    destruct H as [z1 [A1 A2]]. destruct H' as [z2 [B1 B2]].
    apply (rt_chain_relay_zones_in c lz T z1 Hwf L1 L2) in A1.
    apply (rt_chain_relay_zones_in c lz T z2 Hwf L1 L2) in B1.
    pose proof (rt_zone_loop_sends _ _ _ _ _ _ _ _ A2) as [A3 _].
    pose proof (rt_zone_loop_sends _ _ _ _ _ _ _ _ B2) as [B3 _].
    apply rt_ord_zone in A3; [|lia]. apply rt_ord_zone in B3; [|lia].
    assert (z1 = z) by congruence. assert (z2 = z) by congruence. subst z1 z2.
    pose proof (rt_zone_loop_single me lz (rt_master c lz me conn) conn o ord z Ne) as S.
    destruct (rt_asends (rt_zone_loop me lz (rt_master c lz me conn) conn o ord z)) as [|x [|y l]]; simpl in *; try lia; try tauto.
  Qed.
End RtChainSends.
