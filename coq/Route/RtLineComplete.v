(* C11 - NON-GLOBAL target zone on zone trees of ARBITRARY depth and width, completeness half: under the statement's
   connectivity premise over the target's line and with the originator on the line, every endpoint of every zone of the
   line has processed the event whenever nothing is in flight any more.  Generalises RtChainComplete.v. *)
From Coq Require Import List Arith Bool PeanoNat Lia Permutation.
From Icv Require Import Route.RtModel Route.RtProofs Route.RtObs Route.RtOracleProofs Route.RtStepLemmas Route.RtLoad Route.RtNet
     Route.RtSched Route.RtNetSound Route.RtInv Route.RtChain Route.RtChainSafe Route.RtChainComplete Route.RtTree Route.RtTreeSafe
     Route.RtTreeComplete Route.RtLine Route.RtLineSafe.
Import ListNotations.

(* two ancestors of one zone are comparable *)
Lemma rt_anc_comparable : forall c, rt_forest c -> forall z a b, rt_desc c z a -> rt_desc c z b ->
  a = b \/ rt_desc c a b \/ rt_desc c b a.
Proof.
  intros c F z. induction z as [z IH] using lt_wf_ind. intros a b Ha Hb.
  pose proof Ha as Ha'. unfold rt_desc in Ha'. rewrite rt_all_parents_unfold in Ha' by assumption.
  destruct (rt_parent c z) as [p|] eqn:E; [|contradiction]. clear Ha'.
  apply (rt_desc_step c z p a F E) in Ha. apply (rt_desc_step c z p b F E) in Hb.
  destruct Ha as [Ha|Ha], Hb as [Hb|Hb]; subst; auto.
  apply (IH p (F z p E) a b Ha Hb).
Qed.

Lemma rt_line_trichotomy : forall c T a b, rt_forest c -> rt_onl c T a -> rt_onl c T b ->
  a = b \/ rt_desc c a b \/ rt_desc c b a.
Proof.
  intros c T a b F [Ha|Ha] [Hb|Hb]; subst; auto. apply (rt_anc_comparable c F T a b Ha Hb).
Qed.

Section RtLineCov.
  Variables (c : rt_cfg) (links : list (nat * nat)) (T : nat) (nord : nat -> nat -> list nat).
  Hypothesis Hwf : rt_tree_wf c.
  Hypothesis HT : rt_global c T = false.
  Hypothesis Hnord : rt_nord_ok c nord.
  Hypothesis Hprem : rt_premise c links (T :: rt_all_parents c T) = true.

  Lemma rt_lprem_peers : forall z a b, rt_onl c T z -> In a (rt_eps c z) -> In b (rt_eps c z) -> a <> b -> In b (rt_view links a).
  Proof. intros z a b O. apply (rt_premise_spec c links _ Hprem z). apply rt_onl_in. assumption. Qed.

  Lemma rt_lprem_adjacent : forall z z', rt_onl c T z -> rt_onl c T z' ->
    (rt_parent c z = Some z' \/ rt_parent c z' = Some z) ->
    exists e, In e (rt_eps c z') /\ In e (rt_view links (rt_zmaster c z)).
  Proof.
    intros z z' O O' A.
    apply (rt_premise_spec c links _ Hprem z); try (apply rt_onl_in; assumption).
    unfold rt_adjacent. destruct A as [A|A]; rewrite A; simpl; rewrite Nat.eqb_refl; rewrite ?orb_true_r; reflexivity.
  Qed.

  Lemma rt_lprem_master : forall z t, rt_onl c T z -> In t (rt_eps c z) ->
    rt_master c z t (rt_view links t) = rt_zmaster c z.
  Proof.
    intros z t O Ht.
    assert (rt_eps c z <> []) as NE by (intros Q; rewrite Q in Ht; contradiction).
    destruct (rt_zmaster_spec c z NE) as [Z1 Z2].
    destruct (rt_master_cases c z t (rt_view links t)) as [M1 [M2 M3]].
    assert (In (rt_master c z t (rt_view links t)) (rt_eps c z)) as MI.
    { destruct M1 as [M1|[M1 _]]; [rewrite M1|]; assumption. }
    pose proof (Z2 _ MI) as A.
    assert (rt_master c z t (rt_view links t) <= rt_zmaster c z) as B.
    { destruct (Nat.eq_dec (rt_zmaster c z) t) as [Q|Q]; [rewrite Q; assumption|].
      apply M3; [assumption|]. apply (rt_lprem_peers z t (rt_zmaster c z) O Ht Z1). auto. }
    lia.
  Qed.

  Section RtRelayCov.
    Variables (t Z : nat) (o : rt_origin).
    Hypothesis Ht : rt_zone_of c t = Some Z.
    Hypothesis HZ : rt_onl c T Z.
    Hypothesis O1 : rt_ozone o <> Some Z.
    Hypothesis O2 : forall f zf, rt_ofrom o = Some f -> rt_zone_of c f = Some zf -> zf = Z \/ rt_ozone o = Some zf.
    Hypothesis O3 : rt_master c Z t (rt_view links t) = t \/ rt_ofrom o <> Some (rt_master c Z t (rt_view links t)).

    Local Notation conn := (rt_view links t).
    Local Notation master := (rt_master c Z t (rt_view links t)).
    Local Notation sends := (rt_sends (rt_relay c t Z (rt_view links t) o (nord t) T true)).
    Local Notation mk := (fun x : nat => {| rt_mfrom := t; rt_mto := x; rt_moz := rt_ozone o |}).

    Lemma rt_lcov_Z : Z < length c /\ In t (rt_eps c Z).
    Proof. apply rt_zone_of_some. assumption. Qed.

    Lemma rt_lcov_send_local : forall e, In e (rt_eps c Z) -> e <> t -> In e conn -> rt_ofrom o <> Some e ->
      (master = t \/ e = master) -> In e sends.
    Proof.
      intros e He Ne Hc Ho Hm.
      apply (rt_sends_of_zone c t Z conn o (nord t) T true Z e).
      - apply (rt_line_relay_zones_in c Z T Z Hwf HT). auto.
      - unfold rt_zone_loop. apply rt_fold_send_local; try assumption; [reflexivity|].
        apply (rt_g_ord_in c (nord t) (Hnord t)). assumption.
    Qed.

    Lemma rt_lcov_send_foreign : forall z', rt_onl c T z' -> (rt_parent c Z = Some z' \/ rt_parent c z' = Some Z) ->
      master = t -> rt_ozone o <> Some z' -> exists x, In x sends /\ rt_zone_of c x = Some z'.
    Proof.
      intros z' O' A M Oz. destruct rt_lcov_Z as [LZ InZ]. pose proof (rt_tree_nd c Hwf) as ND.
      pose proof (rt_tree_F c Hwf) as Fo.
      assert (z' <> Z) as Nz by (destruct A as [A|A]; apply Fo in A; lia).
      assert (In z' (rt_relay_zones c Z T)) as RZ.
      { apply (rt_line_relay_zones_in c Z T z' Hwf HT). split; [assumption|]. tauto. }
      destruct (rt_lprem_adjacent Z z' HZ O' A) as [e0 [E1 E2]].
      rewrite <- (rt_lprem_master Z t HZ InZ) in E2. rewrite M in E2.
      assert (rt_zone_of c e0 = Some z') as Ze0.
      { apply rt_zone_of_in; [assumption| |assumption]. eapply rt_g_eps_range. eassumption. }
      assert (e0 <> t) as Ne0 by (intros Q; subst; rewrite Ht in Ze0; inversion Ze0; congruence).
      assert (rt_ofrom o <> Some e0) as No0.
      { intros Q. destruct (O2 e0 z' Q Ze0) as [K|K]; [contradiction|contradiction]. }
      assert (rt_relayed (rt_zone_loop t Z master conn o (nord t) z') = true) as R.
      { unfold rt_zone_loop. apply rt_fold_relayed_foreign with (e := e0); try assumption.
        apply (rt_g_ord_in c (nord t) (Hnord t)). assumption. }
      assert (rt_asends (rt_zone_loop t Z master conn o (nord t) z') <> []) as N.
      { unfold rt_zone_loop in *. apply rt_fold_relayed_nonempty; [simpl; discriminate | assumption]. }
      destruct (rt_asends (rt_zone_loop t Z master conn o (nord t) z')) as [|x l] eqn:S; [congruence|].
      assert (In x (rt_asends (rt_zone_loop t Z master conn o (nord t) z'))) as Hx by (rewrite S; left; reflexivity).
      exists x. split.
      - apply (rt_sends_of_zone c t Z conn o (nord t) T true z' x RZ). assumption.
      - apply rt_zone_loop_sends in Hx. destruct Hx as [Hx _].
        apply (rt_g_ord_zone c (nord t) ND (Hnord t) z' x Hx).
    Qed.

    Theorem rt_line_relay_cov : forall e, rt_lregionP c T t Z o e ->
      exists x, In x sends /\ rt_lfutP c links T (mk x) e.
    Proof.
      intros e [ze [Ee [Ne R]]]. destruct rt_lcov_Z as [LZ InZ]. pose proof (rt_tree_F c Hwf) as Fo.
      pose proof (rt_tree_nd c Hwf) as ND.
      destruct (Nat.eq_dec master t) as [M|M].
      - destruct R as [[R1 R2]|[[R1 R2]|[R1 [R2 R3]]]].
        + subst ze. destruct (rt_zone_of_some c e Z Ee) as [_ InE].
          exists e. split.
          * apply rt_lcov_send_local; auto. apply (rt_lprem_peers Z t e HZ InZ InE). auto.
          * apply (rt_lfutP_new c links T t Z o Ht e Z e Ee). left. reflexivity.
        + (* upwards, through the parent zone *)
          pose proof R1 as R1'. unfold rt_desc in R1'. rewrite rt_all_parents_unfold in R1' by assumption.
          destruct (rt_parent c Z) as [p|] eqn:P; [|contradiction]. clear R1'.
          pose proof (Fo Z p P) as Lt. pose proof (rt_onl_parent c T Z p Fo HZ P) as Op.
          destruct (rt_lcov_send_foreign p Op (or_introl P) M R2) as [x [X1 X2]].
          exists x. split; [assumption|]. apply (rt_lfutP_new c links T t Z o Ht x p e X2).
          destruct (Nat.eq_dec e x) as [Q|Q]; [left; assumption|right].
          split; [left; lia|]. exists ze. split; [assumption|]. split; [assumption|].
          assert ((Z =? p) = false) as B by (apply Nat.eqb_neq; lia). rewrite B. cbn [rt_ofrom rt_ozone].
          apply (rt_desc_step c Z p ze Fo P) in R1. destruct R1 as [R1|R1].
          -- left. split; [assumption|]. intros K. inversion K. congruence.
          -- right. left. split; [assumption|]. intros K. symmetry in K. apply Fo in K. lia.
        + (* downwards, through the child on the line *)
          destruct (rt_desc_via_child c Fo ze Z R2) as [zc [P D]].
          pose proof (Fo zc Z P) as Lt. pose proof (rt_onl_anc c T ze zc Fo R1 D) as Oc.
          assert (rt_ozone o <> Some zc) as Nzc by (intros Q; apply (R3 zc Q); auto).
          destruct (rt_lcov_send_foreign zc Oc (or_intror P) M Nzc) as [x [X1 X2]].
          exists x. split; [assumption|]. apply (rt_lfutP_new c links T t Z o Ht x zc e X2).
          destruct (Nat.eq_dec e x) as [Q|Q]; [left; assumption|right].
          split; [left; lia|]. exists ze. split; [assumption|]. split; [assumption|].
          assert ((Z =? zc) = false) as B by (apply Nat.eqb_neq; lia). rewrite B. cbn [rt_ofrom rt_ozone].
          destruct D as [D|D].
          -- left. split; [assumption|]. intros K. inversion K. congruence.
          -- right. right. split; [assumption|]. split; [assumption|].
             intros zcc K [P' _]. inversion K. subst zcc. apply Fo in P'. lia.
      - destruct O3 as [O3'|O3']; [contradiction|].
        destruct (rt_master_cases c Z t conn) as [[K|[K1 K2]] _]; [contradiction|].
        assert (rt_zone_of c master = Some Z) as Zu by (apply rt_zone_of_in; assumption).
        assert (In master sends) as Su by (apply rt_lcov_send_local; auto).
        assert (rt_master c Z master (rt_view links master) = master) as Mu.
        { rewrite (rt_lprem_master Z master HZ K1). symmetry. apply (rt_lprem_master Z t HZ InZ). }
        exists master. split; [assumption|]. apply (rt_lfutP_new c links T t Z o Ht master Z e Zu).
        destruct (Nat.eq_dec e master) as [Q|Q]; [left; assumption|right].
        split; [right; assumption|]. rewrite Nat.eqb_refl.
        exists ze. split; [assumption|]. split; [assumption|]. cbn [rt_ofrom rt_ozone].
        destruct R as [[R1 R2]|[R|R]]; [|right; left; assumption|right; right; assumption].
        subst ze. exfalso. destruct (rt_tree_two c Hwf Z t master e Ht Zu Ee); [auto| |]; congruence.
    Qed.
  End RtRelayCov.

  Local Notation eff := (rt_effect c links T nord).

  Definition rt_lmwfT (m : rt_msg) : Prop :=
    exists Zf, rt_zone_of c (rt_mfrom m) = Some Zf /\ rt_onl c T Zf /\
      forall z', rt_moz m = Some z' -> rt_onl c T z' /\ z' <> Zf.

  Definition rt_line_cov (st : rt_st rt_msg) : Prop :=
    (forall m, In m (fst st) -> rt_lmwfT m) /\
    (forall e ze, rt_zone_of c e = Some ze -> rt_onl c T ze ->
       In e (snd st) \/ exists m, In m (fst st) /\ rt_lfutP c links T m e).

  Lemma rt_line_can_access : forall fz, rt_onl c T fz -> rt_can_access c fz T = true.
  Proof.
    intros fz O. unfold rt_can_access, rt_is_child_of. apply orb_true_iff. right.
    apply orb_true_iff. destruct O as [O|O]; [left; apply Nat.eqb_eq; auto | right; apply rt_mem_In; assumption].
  Qed.

  Theorem rt_line_step_cov : forall m new np, rt_lmwf c links T m -> rt_lmwfT m -> eff m = Some (new, np) ->
    np = [rt_mto m] /\ (forall m', In m' new -> rt_lmwfT m') /\
    (forall e, rt_lfutP c links T m e -> e = rt_mto m \/ exists m', In m' new /\ rt_lfutP c links T m' e).
  Proof.
    intros m new np W WT H. pose proof (rt_tree_F c Hwf) as Fo.
    destruct W as [Zf [Z [E1 [E2 [OZ W]]]]]. destruct WT as [Zf' [E1' [OF St]]].
    assert (Zf' = Zf) by congruence. subst Zf'.
    set (o := rt_recv_origin c Z (Some (rt_mfrom m)) (rt_moz m)).
    assert (rt_ofrom o = Some (rt_mfrom m)) as Of by reflexivity.
    assert (rt_ozone o = if Zf =? Z then rt_moz m else Some Zf) as Oz.
    { unfold o, rt_recv_origin. simpl. rewrite E1. simpl. reflexivity. }
    assert (forall z', rt_ozone o = Some z' -> rt_onl c T z' /\ z' <> Z) as Ost.
    { intros z' Q. rewrite Oz in Q. destruct (Zf =? Z) eqn:B.
      - apply Nat.eqb_eq in B. subst Zf. apply St. assumption.
      - apply Nat.eqb_neq in B. inversion Q. subst z'. auto. }
    assert (rt_accepts c o T = true) as Acc.
    { unfold rt_accepts. destruct (rt_ozone o) as [fz|] eqn:Q; [|reflexivity].
      apply rt_line_can_access. apply (Ost fz eq_refl). }
    assert (new = rt_mk_msgs (rt_mto m) (rt_ozone o)
                    (rt_sends (rt_relay c (rt_mto m) Z (rt_view links (rt_mto m)) o (nord (rt_mto m)) T true)) /\
            np = [rt_mto m]) as [Hn Hp].
    { unfold rt_effect in H. rewrite E2 in H. fold o in H. rewrite Acc in H. simpl in H.
      injection H as H1 H2. split; symmetry; assumption. }
    split; [assumption|]. split.
    - intros m' Hm'. rewrite Hn in Hm'. unfold rt_mk_msgs in Hm'. apply in_map_iff in Hm'.
      destruct Hm' as [x [Q _]]. subst m'. exists Z. simpl. auto.
    - intros e [Zf2 [Z2 [F1 [F2 F]]]]. assert (Zf2 = Zf) by congruence. assert (Z2 = Z) by congruence. subst Zf2 Z2.
      destruct F as [F|[F1' F2']]; [left; assumption|right]. fold o in F2'.
      destruct (rt_line_relay_cov (rt_mto m) Z o E2 OZ) with (e := e) as [x [X1 X2]].
      + intros Q. apply Ost in Q. tauto.
      + intros f zf Q1 Q2. rewrite Of in Q1. inversion Q1. subst f. assert (zf = Zf) by congruence. subst zf.
        rewrite Oz. destruct (Zf =? Z) eqn:B; [left; apply Nat.eqb_eq; assumption | right; reflexivity].
      + destruct F1' as [F1'|F1']; [|left; assumption].
        destruct (rt_master_cases c Z (rt_mto m) (rt_view links (rt_mto m))) as [[K|[K _]] _]; [left; assumption|right].
        rewrite Of. intros Q. inversion Q as [Q']. rewrite <- Q' in K.
        destruct (rt_zone_of_some c _ _ E2) as [Lz _].
        apply (rt_zone_of_in c _ Z (rt_tree_nd c Hwf) Lz) in K. congruence.
      + assumption.
      + exists {| rt_mfrom := rt_mto m; rt_mto := x; rt_moz := rt_ozone o |}. split; [|assumption].
        rewrite Hn. unfold rt_mk_msgs. apply (in_map (fun e0 => {| rt_mfrom := rt_mto m; rt_mto := e0; rt_moz := rt_ozone o |})). assumption.
  Qed.

  Theorem rt_line_cov_step : forall st np st', rt_line_inv c links T st -> rt_line_cov st ->
    rt_sched_step rt_msg eff st np st' -> rt_line_cov st'.
  Proof.
    intros st np st' [I1 _] [C1 C2] S. inversion S as [pre m post P new np0 Em]. subst. cbn [fst snd] in *.
    assert (In m (pre ++ m :: post)) as Hm by (apply in_or_app; right; left; reflexivity).
    destruct (rt_line_step_cov m new np (I1 m Hm) (C1 m Hm) Em) as [Hnp [Hw Hc]].
    split.
    - intros m' Hm'. apply in_app_or in Hm'. destruct Hm' as [Hm'|Hm'].
      + apply C1. apply in_or_app. left. assumption.
      + apply in_app_or in Hm'. destruct Hm' as [Hm'|Hm']; [|apply Hw; assumption].
        apply C1. apply in_or_app. right. right. assumption.
    - intros e ze Ee Le. destruct (C2 e ze Ee Le) as [K|[m0 [K1 K2]]].
      + left. apply in_or_app. right. assumption.
      + apply in_app_or in K1. destruct K1 as [K1|[K1|K1]].
        * right. exists m0. split; [apply in_or_app; left; assumption|assumption].
        * subst m0. destruct (Hc e K2) as [Q|[m' [Q1 Q2]]].
          -- left. subst. left. reflexivity.
          -- right. exists m'. split; [|assumption]. apply in_or_app. right. apply in_or_app. right. assumption.
        * right. exists m0. split; [|assumption]. apply in_or_app. right. apply in_or_app. left. assumption.
  Qed.

  Theorem rt_line_cov_init : forall s lz, rt_zone_of c s = Some lz -> rt_onl c T lz ->
    rt_line_cov (rt_init c links T nord s lz).
  Proof.
    intros s lz E L. pose proof (rt_tree_F c Hwf) as Fo. unfold rt_init, rt_line_cov. cbn [fst snd]. split.
    - intros m Hm. unfold rt_mk_msgs in Hm. apply in_map_iff in Hm. destruct Hm as [x [Q _]]. subst m.
      exists lz. simpl. split; [assumption|]. split; [assumption|]. intros z' K. discriminate.
    - intros e ze Ee Le. destruct (Nat.eq_dec e s) as [Q|Q]; [left; left; auto|right].
      destruct (rt_line_relay_cov s lz rt_no_origin E L) with (e := e) as [x [X1 X2]].
      + simpl. discriminate.
      + simpl. intros f zf K. discriminate.
      + right. simpl. discriminate.
      + exists ze. split; [assumption|]. split; [assumption|]. cbn [rt_ofrom rt_ozone rt_no_origin].
        destruct (rt_line_trichotomy c T ze lz Fo Le L) as [K|[K|K]].
        * left. split; [assumption|discriminate].
        * right. right. split; [assumption|]. split; [assumption|]. intros zc Q'. discriminate.
        * right. left. split; [assumption|].
          pose proof K as K'. unfold rt_desc in K'. rewrite rt_all_parents_unfold in K' by assumption.
          destruct (rt_parent c lz); [discriminate|contradiction].
      + exists {| rt_mfrom := s; rt_mto := x; rt_moz := None |}. split; [|assumption].
        unfold rt_mk_msgs. apply (in_map (fun e0 => {| rt_mfrom := s; rt_mto := e0; rt_moz := None |})). assumption.
  Qed.
End RtLineCov.

Theorem rt_line_complete : forall c links T nord s lz,
  rt_tree_wf c -> rt_global c T = false -> rt_nord_ok c nord -> rt_zone_of c s = Some lz ->
  forall k st', rt_sched_run rt_msg (rt_effect c links T nord) (rt_init c links T nord s lz) k st' ->
    fst st' = [] -> rt_final_complete c links T lz (snd st') = true.
Proof.
  intros c links T nord s lz Hwf HT Hnord E k st' R F.
  unfold rt_final_complete, rt_entitled_zones. rewrite HT.
  destruct (rt_mem lz (T :: rt_all_parents c T) && rt_premise c links (T :: rt_all_parents c T)) eqn:P; [|reflexivity].
  cbn [negb orb]. apply andb_true_iff in P. destruct P as [P1 P2].
  apply rt_mem_In in P1. apply rt_onl_in in P1.
  assert (forall st0 k0 st1, rt_sched_run rt_msg (rt_effect c links T nord) st0 k0 st1 ->
            rt_line_inv c links T st0 -> rt_line_cov c links T st0 -> rt_line_cov c links T st1) as Run.
  { intros st0 k0 st1 R0. induction R0 as [st|st np st1 k1 st2 S R0 IH]; intros I C; [assumption|].
    apply IH.
    - apply (rt_line_inv_step c links T nord Hwf HT Hnord st np st1 I S).
    - apply (rt_line_cov_step c links T nord Hwf HT Hnord P2 st np st1 I C S). }
  destruct (rt_line_init c links T nord Hwf HT Hnord s lz E) as [I0 _].
  pose proof (Run _ _ _ R I0 (rt_line_cov_init c links T nord Hwf HT Hnord P2 s lz E P1)) as [_ C].
  apply forallb_forall. intros e He. apply in_flat_map in He. destruct He as [z [Z1 Z2]].
  apply rt_onl_in in Z1. apply rt_mem_In.
  assert (rt_zone_of c e = Some z) as Ze.
  { apply rt_zone_of_in; [apply (rt_tree_nd c Hwf)| |assumption]. eapply rt_g_eps_range. eassumption. }
  destruct (C e z Ze Z1) as [K|[m [K _]]]; [assumption|]. rewrite F in K. contradiction.
Qed.

Theorem rt_line_finite_once_run : forall c links T s lz nord,
  rt_tree_wf c -> rt_global c T = false -> rt_zone_of c s = Some lz -> rt_nord_ok c nord ->
  forall k st', rt_sched_run rt_msg (rt_effect c links T nord) (rt_init c links T nord s lz) k st' ->
    k < length (flat_map rt_zeps c) /\ k < rt_fuel c /\
    (forall np st'', rt_sched_step rt_msg (rt_effect c links T nord) st' np st'' -> rt_fresh np (snd st') = true).
Proof.
  intros c links T s lz nord Hwf HT E Hn k st' R.
  destruct (rt_line_finite_once c links T nord Hwf HT Hn s lz E k st' R) as [K1 [_ [_ K2]]].
  rewrite rt_all_eps_zeps in K1. split; [assumption|]. split; [unfold rt_fuel; lia|assumption].
Qed.
