(* C11 - several events in the zone network: RtMulti instantiated with the single-event effect RtNet.rt_effect, the
   connection of a message, the receiver's stale test AS THE CODE HAS IT (read off the Gallina translation of
   JsonRpcConnection::MessageHandler that tools/facts_fn.py regenerates from the source on every run), and the executable
   check of a delivery log of the real code against the rule "dropped iff ts < the sender's remote log position". *)
From Coq Require Import List Arith Bool PeanoNat ZArith.
From Icv Require Import Route.RtModel Route.RtNet Route.RtSched Route.RtMulti Facts.Facts_fn_zone2.
Import ListNotations.

Definition rt_mlink (m : rt_msg) : nat * nat := (rt_mfrom m, rt_mto m).

(* MessageHandler on a connection with an Endpoint object and a message with "ts": first component = returned before the
   origin was built (dropped) *)
Definition rt_stale_code (ts p : nat) : bool :=
  fst (fst (src_jsonrpc_message_origin true true (Z.of_nat ts) (Z.of_nat p) None 0 None)).

(* the rule the property needs: strictly older is dropped, EQUAL passes (ts is a clock value, not an event id) *)
Definition rt_stale_spec (ts p : nat) : bool := ts <? p.
(* what a change to "not newer" would be *)
Definition rt_stale_le (ts p : nat) : bool := ts <=? p.

(* a delivery log of the real code: ((sender, receiver), (ts, h)), h = 0 the handler did not run, 1 it ran, else not observed *)
Fixpoint rt_log_check (log : list ((nat * nat) * (nat * nat))) (rlp : nat * nat -> nat) : bool :=
  match log with
  | [] => true
  | (l, (ts, h)) :: r =>
      let st := rt_stale_spec ts (rlp l) in
      (match h with 0 => st | 1 => negb st | _ => true end) &&
      rt_log_check r (if st then rlp else fun l' => if rt_link_eqb l l' then ts else rlp l')
  end.
Definition rt_log_ok (log : list ((nat * nat) * (nat * nat))) : bool := rt_log_check log (fun _ => 0).

(* the model's own multi-event run (oldest message first, clock standing still at the last origination): events = (id,
   (originating endpoint, ts)); result: processed (event, endpoint) pairs, dropped deliveries, left in flight *)
Definition rt_multi_init (c : rt_cfg) (links : list (nat * nat)) (target : nat) (evs : list (nat * (nat * nat)))
  : list (rt_tmsg rt_msg) * list (nat * nat) :=
  let nord := fun (_ : nat) z => rt_eps c z in
  fold_left (fun acc ev =>
    let '(e, (s, ts)) := ev in
    match rt_zone_of c s with
    | None => acc
    | Some lz =>
        (fst acc ++ map (rt_tag rt_msg e ts)
           (rt_mk_msgs s None (rt_sends (rt_relay c s lz (rt_view links s) rt_no_origin (nord s) target true))),
         (e, s) :: snd acc)
    end) evs ([], []).

Definition rt_multi_model (stale : nat -> nat -> bool) (c : rt_cfg) (links : list (nat * nat)) (target : nat)
           (evs : list (nat * (nat * nat))) (now : nat) : list (nat * nat) * nat * nat :=
  let nord := fun (_ : nat) z => rt_eps c z in
  let i := rt_multi_init c links target evs in
  rt_mfifo rt_msg (rt_effect c links target nord) rt_mlink stale (length evs * rt_fuel c) (fst i) (fun _ => 0) now (snd i) 0.
