(* C11 - kernel-evaluated sweep, shard g_c1 (see RtNetProofs.v for how the shards are combined) *)
From Coq Require Import List Arith Bool.
From Icv Require Import Route.RtModel Route.RtNet Route.RtFamilies.
Import ListNotations.
Lemma rt_sweep_g_c1 : rt_sweep_g (firstn 13 (rt_fam_g 11 11)) = true.
Proof. vm_compute. reflexivity. Qed.
