(* C11 - chains of ARBITRARY depth, safety half of the unbounded induction: finitely many deliveries (explicit
   measure) and no endpoint processes the event twice - for every chain (rt_chain_wf: any depth, <= 2 endpoints per
   zone, arbitrary names), every link set (views are symmetric by construction), every target zone, every
   originator, every per-node iteration order and every schedule of the network relation.

   The argument: every in-flight message m carries a FUTURE SET rt_fut m - the endpoints that can still process the
   event as a consequence of m (the receiver; if the receiver will forward, its zone peer and all zones further
   along the line in the direction the event travels, as restricted by the origin the receiver will construct).
   Invariant rt_chain_inv: all in-flight messages are well-formed and the future sets of the in-flight messages and
   the set of endpoints that already processed are pairwise disjoint (NoDup of their concatenation).  A delivery
   replaces rt_fut m by the receiver plus the future sets of the new messages, which are pairwise disjoint subsets of
   rt_fut m without the receiver (rt_chain_step); so the receiver is fresh, the invariant is preserved and the
   measure rt_chain_measure = total size of the future sets strictly decreases.  Where the proof uses what:
   two endpoints per zone + symmetric connectivity -> rt_master_agree (a zone never has two forwarders);
   single entry -> two sends into the same foreign zone coincide; "not back into the origin zone" -> direction. *)
From Coq Require Import List Arith Bool PeanoNat Lia Permutation.
From Icv Require Import Route.RtModel Route.RtProofs Route.RtOracleProofs Route.RtStepLemmas Route.RtNet
     Route.RtSched Route.RtNetSound Route.RtInv Route.RtChain.
Import ListNotations.

(* the endpoints a relay by t (zone Z) under origin o can still cause to process: everybody but t itself in the
   own zone except the origin endpoint, everything above unless the event came from above, everything below down to
   the target zone T unless it came from below *)
Definition rt_regionP (c : rt_cfg) (T t Z : nat) (o : rt_origin) (e : nat) : Prop :=
  exists ze, rt_zone_of c e = Some ze /\ e <> t /\
    ((ze = Z /\ rt_ofrom o <> Some e) \/
     (ze < Z /\ rt_ozone o <> Some (Z - 1)) \/
     (Z < ze /\ ze <= T /\ rt_ozone o <> Some (S Z))).

Definition rt_regionb (c : rt_cfg) (T t Z : nat) (o : rt_origin) (e : nat) : bool :=
  match rt_zone_of c e with
  | None => false
  | Some ze => negb (e =? t) &&
      (((ze =? Z) && negb (rt_oeqb (rt_ofrom o) (Some e))) ||
       ((ze <? Z) && negb (rt_oeqb (rt_ozone o) (Some (Z - 1)))) ||
       ((Z <? ze) && (ze <=? T) && negb (rt_oeqb (rt_ozone o) (Some (S Z)))))
  end.

Lemma rt_regionb_spec : forall c T t Z o e, rt_regionb c T t Z o e = true <-> rt_regionP c T t Z o e.
Proof.
  intros c T t Z o e. unfold rt_regionb, rt_regionP. destruct (rt_zone_of c e) as [ze|].
  - rewrite andb_true_iff, !orb_true_iff, !andb_true_iff, !negb_true_iff, Nat.eqb_neq, Nat.eqb_eq,
      !Nat.ltb_lt, Nat.leb_le, !rt_oeqb_neq.
    split.
    + intros [H1 H2]. exists ze. split; [reflexivity|]. split; [assumption|]. tauto.
    + intros [ze' [E [H1 H2]]]. inversion E. subst ze'. tauto.
  - split; [discriminate|]. intros [ze [E _]]. discriminate.
Qed.

Section RtChainFut.
  Variables (c : rt_cfg) (links : list (nat * nat)) (T : nat).

  Definition rt_futP (m : rt_msg) (e : nat) : Prop :=
    exists Zf Z, rt_zone_of c (rt_mfrom m) = Some Zf /\ rt_zone_of c (rt_mto m) = Some Z /\
      (e = rt_mto m \/
       ((Zf <> Z \/ rt_master c Z (rt_mto m) (rt_view links (rt_mto m)) = rt_mto m) /\
        rt_regionP c T (rt_mto m) Z (rt_recv_origin c Z (Some (rt_mfrom m)) (rt_moz m)) e)).

  Definition rt_futb (m : rt_msg) (e : nat) : bool :=
    match rt_zone_of c (rt_mfrom m), rt_zone_of c (rt_mto m) with
    | Some Zf, Some Z =>
        (e =? rt_mto m) ||
        ((negb (Zf =? Z) || (rt_master c Z (rt_mto m) (rt_view links (rt_mto m)) =? rt_mto m)) &&
         rt_regionb c T (rt_mto m) Z (rt_recv_origin c Z (Some (rt_mfrom m)) (rt_moz m)) e)
    | _, _ => false
    end.

  Lemma rt_futb_spec : forall m e, rt_futb m e = true <-> rt_futP m e.
  Proof.
    intros m e. unfold rt_futb, rt_futP.
    destruct (rt_zone_of c (rt_mfrom m)) as [Zf|]; [|split; [discriminate | intros [? [? [E _]]]; discriminate]].
    destruct (rt_zone_of c (rt_mto m)) as [Z|]; [|split; [discriminate | intros [? [? [_ [E _]]]]; discriminate]].
    rewrite orb_true_iff, andb_true_iff, orb_true_iff, negb_true_iff, Nat.eqb_neq, !Nat.eqb_eq, rt_regionb_spec.
    split.
    - intros H. exists Zf, Z. auto.
    - intros [Zf' [Z' [E1 [E2 H]]]]. inversion E1. inversion E2. subst. assumption.
  Qed.

  (* the future set of an in-flight message, as a duplicate-free list *)
  Definition rt_fut (m : rt_msg) : list nat := filter (rt_futb m) (rt_all_eps c).

  Lemma rt_fut_in : forall m e, In e (rt_fut m) <-> rt_futP m e.
  Proof.
    intros m e. unfold rt_fut. rewrite filter_In, rt_futb_spec. split; [tauto|]. intros H. split; [|assumption].
    apply rt_all_eps_in. destruct H as [Zf [Z [E1 [E2 [H|[_ [ze [H _]]]]]]]]; [subst; eauto | eauto].
  Qed.

  Lemma rt_fut_nodup : forall m, rt_chain_wf c -> NoDup (rt_fut m).
  Proof. intros m [_ [_ [_ ND]]]. unfold rt_fut. apply NoDup_filter. assumption. Qed.

  (* well-formed in-flight message: both ends are endpoints; inside a zone between two different endpoints that
     see each other; across a border between adjacent zones, into the target's line *)
  Definition rt_mwf (m : rt_msg) : Prop :=
    exists Zf Z, rt_zone_of c (rt_mfrom m) = Some Zf /\ rt_zone_of c (rt_mto m) = Some Z /\
      ((Zf = Z /\ rt_mfrom m <> rt_mto m /\ In (rt_mfrom m) (rt_view links (rt_mto m))) \/
       ((Zf = S Z \/ Z = S Zf) /\ Z <= T)).

  Lemma rt_mwf_fut_self : forall m, rt_mwf m -> In (rt_mto m) (rt_fut m).
  Proof.
    intros m [Zf [Z [E1 [E2 _]]]]. apply rt_fut_in. exists Zf, Z. auto.
  Qed.
End RtChainFut.

(* a zone of a chain has no third endpoint *)
Lemma rt_zone_two : forall c, rt_chain_wf c -> forall z a b e,
  rt_zone_of c a = Some z -> rt_zone_of c b = Some z -> rt_zone_of c e = Some z -> a <> b -> e = a \/ e = b.
Proof.
  intros c W z a b e Ha Hb He Ne. pose proof (rt_eps_nodup c W z) as ND. destruct W as [_ [_ [Hs _]]].
  apply rt_zone_of_some in Ha. apply rt_zone_of_some in Hb. apply rt_zone_of_some in He.
  apply (rt_two (rt_eps c z) a b ND (Hs z)); tauto.
Qed.

Section RtChainRelay.
  Variables (c : rt_cfg) (links : list (nat * nat)) (T : nat) (nord : nat -> nat -> list nat).
  Hypothesis Hwf : rt_chain_wf c.
  Hypothesis HT : T < length c.
  Hypothesis Hnord : rt_nord_ok c nord.

  Variables (t Z : nat) (o : rt_origin).
  Hypothesis Ht : rt_zone_of c t = Some Z.

  Let sends := rt_sends (rt_relay c t Z (rt_view links t) o (nord t) T true).
  Let mk (x : nat) : rt_msg := {| rt_mfrom := t; rt_mto := x; rt_moz := rt_ozone o |}.

  Lemma rt_chain_Z : Z < length c /\ In t (rt_eps c Z).
  Proof. apply rt_zone_of_some. assumption. Qed.

  Lemma rt_chain_sendx : forall x, In x sends ->
    exists zx, rt_zone_of c x = Some zx /\ zx <= T /\ (zx = Z \/ S zx = Z \/ zx = S Z) /\
               In x (rt_eps c zx) /\ x <> t /\ In x (rt_view links t) /\ rt_ofrom o <> Some x /\
               rt_ozone o <> Some zx /\
               (rt_master c Z t (rt_view links t) = t \/ x = rt_master c Z t (rt_view links t)).
  Proof.
    intros x H. destruct rt_chain_Z as [LZ _].
    exact (rt_chain_send c (nord t) Hwf (Hnord t) t Z (rt_view links t) o T true x LZ HT H).
  Qed.

  (* only the (self-believed) master sends across a zone border *)
  Lemma rt_cross_sender_master : forall x zx, In x sends -> rt_zone_of c x = Some zx -> zx <> Z ->
    rt_master c Z t (rt_view links t) = t.
  Proof.
    intros x zx H E Ne. destruct (rt_chain_sendx x H) as [zx' [E' [_ [_ [_ [Nx [_ [_ [_ M]]]]]]]]].
    destruct M as [M|M]; [assumption|].
    destruct (rt_master_cases c Z t (rt_view links t)) as [[K|[K _]] _]; [assumption|].
    exfalso. destruct rt_chain_Z as [LZ _]. destruct Hwf as [_ [_ [_ ND]]].
    rewrite <- M in K. apply (rt_zone_of_in c x Z ND LZ) in K. congruence.
  Qed.

  (* the local peer the master sends to does not regard itself as master; the master a non-master sends to does *)
  Lemma rt_intra_agree : forall x, In x sends -> rt_zone_of c x = Some Z ->
    rt_master c Z x (rt_view links x) = rt_master c Z t (rt_view links t).
  Proof.
    intros x H E. destruct (rt_chain_sendx x H) as [zx [_ [_ [_ [_ [Nx [V _]]]]]]].
    symmetry. apply rt_master_agree; try assumption.
    - intros e He. destruct rt_chain_Z as [LZ _]. destruct Hwf as [_ [_ [_ ND]]].
      apply (rt_zone_of_in c e Z ND LZ) in He. apply (rt_zone_two c Hwf Z t x e); try assumption. auto.
    - apply rt_chain_Z.
    - apply rt_zone_of_some in E. tauto.
  Qed.

  Lemma rt_futP_new : forall x zx e, rt_zone_of c x = Some zx ->
    (rt_futP c links T (mk x) e <->
     e = x \/ ((Z <> zx \/ rt_master c zx x (rt_view links x) = x) /\
               rt_regionP c T x zx {| rt_ofrom := Some t; rt_ozone := if Z =? zx then rt_ozone o else Some Z |} e)).
  Proof.
    intros x zx e E. unfold rt_futP, mk. cbn [rt_mfrom rt_mto rt_moz].
    assert (rt_recv_origin c zx (Some t) (rt_ozone o) =
            {| rt_ofrom := Some t; rt_ozone := if Z =? zx then rt_ozone o else Some Z |}) as R.
    { unfold rt_recv_origin. rewrite Ht. simpl. destruct (Z =? zx); reflexivity. }
    split.
    - intros [Zf [Z' [E1 [E2 H]]]]. rewrite Ht in E1. rewrite E in E2. inversion E1. inversion E2. subst Zf Z'.
      rewrite R in H. assumption.
    - intros H. exists Z, zx. rewrite R. auto.
  Qed.

  (* RL1: the new messages are well-formed *)
  Lemma rt_relay_new_wf : forall x, In x sends -> rt_mwf c links T (mk x).
  Proof.
    intros x H. destruct (rt_chain_sendx x H) as [zx [E [L [A [_ [Nx [V _]]]]]]].
    exists Z, zx. simpl. split; [assumption|]. split; [assumption|].
    destruct (Nat.eq_dec zx Z) as [Q|Q].
    - left. subst zx. split; [reflexivity|]. split; [auto|]. apply rt_view_sym. assumption.
    - right. split; [lia|assumption].
  Qed.

  (* where the future set of a new message lies *)
  Lemma rt_fut_new_zone : forall x zx e ze, In x sends -> rt_zone_of c x = Some zx -> rt_zone_of c e = Some ze ->
    rt_futP c links T (mk x) e ->
    (S zx = Z -> ze <= zx) /\ (zx = S Z -> zx <= ze /\ ze <= T) /\
    (zx = Z -> e = x \/ (ze <> Z /\ rt_master c Z x (rt_view links x) = x)).
  Proof.
    intros x zx e ze H E Ee F. destruct (rt_chain_sendx x H) as [zx' [E' [L [A [_ [Nx [V [NO [NZ _]]]]]]]]].
    assert (zx' = zx) by congruence. subst zx'.
    apply (rt_futP_new x zx e E) in F.
    destruct F as [F|[F1 [ze' [Ee' [Ne F2]]]]].
    - subst e. assert (ze = zx) by congruence. subst ze. repeat split; try lia.
    - assert (ze' = ze) by congruence. subst ze'. split; [|split].
      + intros Q. assert ((Z =? zx) = false) as B by (apply Nat.eqb_neq; lia). rewrite B in F2. simpl in F2.
        destruct F2 as [F2|[F2|[F2 [F3 F4]]]]; [lia|lia|]. exfalso. apply F4. f_equal. lia.
      + intros Q. assert ((Z =? zx) = false) as B by (apply Nat.eqb_neq; lia). rewrite B in F2. simpl in F2.
        destruct F2 as [F2|[[F2 F3]|F2]]; [lia| |lia]. exfalso. apply F3. f_equal. lia.
      + intros Q. subst zx. right. destruct F1 as [F1|F1]; [congruence|]. split; [|assumption].
        intros Q. subst ze. destruct F2 as [[_ F2]|[F2|F2]]; try lia. simpl in F2.
        destruct (rt_zone_two c Hwf Z t x e Ht E Ee) as [K|K]; [auto| |]; congruence.
  Qed.

  (* RL3: the future sets of the new messages lie inside the region the relaying node can reach *)
  Lemma rt_relay_new_region : forall x e, In x sends -> rt_futP c links T (mk x) e -> rt_regionP c T t Z o e.
  Proof.
    intros x e H F. destruct (rt_chain_sendx x H) as [zx [E [L [A [_ [Nx [V [NO [NZ _]]]]]]]]].
    apply (rt_futP_new x zx e E) in F.
    destruct F as [F|[F1 [ze [Ee [Ne F2]]]]].
    - subst e. exists zx. split; [assumption|]. split; [assumption|].
      destruct A as [A|[A|A]].
      + left. subst. auto.
      + right. left. split; [lia|]. intros Q. apply NZ. rewrite Q. f_equal. lia.
      + right. right. split; [lia|]. split; [lia|]. intros Q. apply NZ. rewrite Q. f_equal. lia.
    - exists ze. split; [assumption|].
      assert (e <> t) as Net.
      { intros Q. subst e. assert (ze = Z) by congruence. subst ze. simpl in F2.
        destruct A as [A|[A|A]].
        - subst zx. destruct F2 as [[_ F2]|[F2|F2]]; [congruence|lia|lia].
        - assert ((Z =? zx) = false) as B by (apply Nat.eqb_neq; lia). rewrite B in F2.
          destruct F2 as [F2|[F2|[_ [_ F2]]]]; [lia|lia|]. apply F2. f_equal. lia.
        - assert ((Z =? zx) = false) as B by (apply Nat.eqb_neq; lia). rewrite B in F2.
          destruct F2 as [F2|[[_ F2]|F2]]; [lia| |lia]. apply F2. f_equal. lia. }
      split; [assumption|]. simpl in F2.
      destruct A as [A|[A|A]].
      + subst zx. rewrite Nat.eqb_refl in F2.
        destruct F2 as [[F2 F3]|[F2|F2]]; [|right; left; assumption|right; right; assumption].
        subst ze. exfalso. destruct (rt_zone_two c Hwf Z t x e Ht E Ee) as [K|K]; [auto| |]; congruence.
      + assert ((Z =? zx) = false) as B by (apply Nat.eqb_neq; lia). rewrite B in F2.
        right. left. split.
        * destruct F2 as [F2|[F2|[_ [_ F2]]]]; [lia|lia|]. exfalso. apply F2. f_equal. lia.
        * intros Q. apply NZ. rewrite Q. f_equal. lia.
      + assert ((Z =? zx) = false) as B by (apply Nat.eqb_neq; lia). rewrite B in F2.
        right. right.
        assert (Z < ze /\ ze <= T) as K.
        { destruct F2 as [F2|[[_ F2]|F2]]; [lia| |lia]. exfalso. apply F2. f_equal. lia. }
        split; [tauto|]. split; [tauto|]. intros Q. apply NZ. rewrite Q. f_equal. lia.
  Qed.

  (* RL2: the future sets of the new messages are pairwise disjoint *)
  Lemma rt_relay_new_disjoint : forall x x' e, In x sends -> In x' sends -> x <> x' ->
    rt_futP c links T (mk x) e -> rt_futP c links T (mk x') e -> False.
  Proof.
    assert (forall x x' e zx zx' ze, In x sends -> In x' sends -> x <> x' ->
              rt_zone_of c x = Some zx -> rt_zone_of c x' = Some zx' -> rt_zone_of c e = Some ze ->
              zx = Z -> zx' <> Z ->
              rt_futP c links T (mk x) e -> rt_futP c links T (mk x') e -> False) as Mixed.
    { intros x x' e zx zx' ze H H' Ne E E' Ee Q Q' F F'. subst zx.
      destruct (rt_chain_sendx x H) as [zx [Ex [_ [_ [_ [Nx _]]]]]].
      destruct (rt_chain_sendx x' H') as [zx2 [Ex' [_ [A' _]]]].
      assert (zx2 = zx') by congruence. subst zx2.
      destruct (rt_fut_new_zone x Z e ze H E Ee F) as [_ [_ K]].
      destruct (rt_fut_new_zone x' zx' e ze H' E' Ee F') as [K1 [K2 _]].
      destruct (K eq_refl) as [K3|[K3 K4]].
      - subst e. assert (ze = Z) by congruence. subst ze. destruct A' as [A'|[A'|A']]; [contradiction| |].
        + specialize (K1 A'). lia.
        + specialize (K2 A'). lia.
      - pose proof (rt_cross_sender_master x' zx' H' E' Q') as M.
        pose proof (rt_intra_agree x H E) as G. congruence. }
    intros x x' e H H' Ne F F'.
    destruct (rt_chain_sendx x H) as [zx [E [_ [A _]]]].
    destruct (rt_chain_sendx x' H') as [zx' [E' [_ [A' [_ [Nx' _]]]]]].
    assert (exists ze, rt_zone_of c e = Some ze) as [ze Ee].
    { apply rt_all_eps_in. apply (rt_fut_in c links T (mk x) e) in F. unfold rt_fut in F. apply filter_In in F. tauto. }
    destruct (Nat.eq_dec zx Z) as [Q|Q], (Nat.eq_dec zx' Z) as [Q'|Q'].
    - subst. destruct (rt_chain_sendx x H) as [_ [_ [_ [_ [_ [Nx _]]]]]].
      destruct (rt_zone_two c Hwf Z t x x' Ht E E') as [K|K]; [auto| |]; congruence.
    - exact (Mixed x x' e zx zx' ze H H' Ne E E' Ee Q Q' F F').
    - apply (Mixed x' x e zx' zx ze H' H); auto.
    - destruct (Nat.eq_dec zx zx') as [S|S].
      + subst zx'. destruct rt_chain_Z as [LZ _].
        apply Ne. exact (rt_chain_sends_single c (nord t) Hwf (Hnord t) t Z (rt_view links t) o T true x x' zx LZ HT H H' E E' Q).
      + destruct (rt_fut_new_zone x zx e ze H E Ee F) as [K1 [K2 _]].
        destruct (rt_fut_new_zone x' zx' e ze H' E' Ee F') as [K1' [K2' _]].
        destruct A as [A|[A|A]]; [contradiction| |]; destruct A' as [A'|[A'|A']]; try contradiction; lia.
  Qed.

  Lemma rt_flat_map_map : forall (A B : Type) (f : A -> B) (g : B -> list nat) l,
    flat_map g (map f l) = flat_map (fun a => g (f a)) l.
  Proof. intros. rewrite !flat_map_concat_map, map_map. reflexivity. Qed.

  (* the relay lemma: what one relay step puts in flight *)
  Theorem rt_chain_relay : let new := rt_mk_msgs t (rt_ozone o) sends in
    (forall m, In m new -> rt_mwf c links T m) /\
    NoDup (flat_map (rt_fut c links T) new) /\
    (forall e, In e (flat_map (rt_fut c links T) new) -> rt_regionP c T t Z o e).
  Proof.
    simpl. unfold rt_mk_msgs. fold mk. split; [|split].
    - intros m H. apply in_map_iff in H. destruct H as [x [E H]]. subst m. apply rt_relay_new_wf. assumption.
    - rewrite rt_flat_map_map. apply rt_nodup_flat_map.
      + destruct rt_chain_Z as [LZ _]. exact (rt_chain_sends_nodup c (nord t) Hwf (Hnord t) t Z (rt_view links t) o T true LZ HT).
      + intros x _. apply rt_fut_nodup. assumption.
      + intros a b x Ha Hb Ne Xa Xb. apply rt_fut_in in Xa. apply rt_fut_in in Xb.
        exact (rt_relay_new_disjoint a b x Ha Hb Ne Xa Xb).
    - intros e H. rewrite rt_flat_map_map in H. apply in_flat_map in H. destruct H as [x [H1 H2]].
      apply rt_fut_in in H2. exact (rt_relay_new_region x e H1 H2).
  Qed.
End RtChainRelay.

Lemma rt_perm_swap4 : forall (a b x y p : list nat),
  Permutation ((a ++ b) ++ x ++ y ++ p) ((x ++ y ++ b) ++ a ++ p).
Proof.
  intros. rewrite <- !app_assoc.
  apply Permutation_trans with (l' := (b ++ x ++ y) ++ a ++ p).
  - rewrite <- !app_assoc.
    apply Permutation_trans with (l' := (a ++ (b ++ x ++ y)) ++ p); [rewrite <- !app_assoc; apply Permutation_refl|].
    apply Permutation_trans with (l' := ((b ++ x ++ y) ++ a) ++ p); [|rewrite <- !app_assoc; apply Permutation_refl].
    apply Permutation_app_tail. apply Permutation_app_comm.
  - replace (x ++ y ++ b ++ a ++ p) with (((x ++ y) ++ b) ++ a ++ p) by (rewrite <- !app_assoc; reflexivity).
    apply Permutation_app_tail. apply Permutation_app_comm.
Qed.

Section RtChainStep.
  Variables (c : rt_cfg) (links : list (nat * nat)) (T : nat) (nord : nat -> nat -> list nat).
  Hypothesis Hwf : rt_chain_wf c.
  Hypothesis HT : T < length c.
  Hypothesis Hnord : rt_nord_ok c nord.

  Let eff := rt_effect c links T nord.
  Let fut := rt_fut c links T.

  Lemma rt_mwf_effect : forall m, rt_mwf c links T m -> eff m <> None.
  Proof.
    intros m [Zf [Z [_ [E _]]]]. unfold eff, rt_effect. rewrite E.
    destruct (negb (rt_accepts c (rt_recv_origin c Z (Some (rt_mfrom m)) (rt_moz m)) T)); discriminate.
  Qed.

  Lemma rt_effect_cases : forall m new np Z, rt_zone_of c (rt_mto m) = Some Z -> eff m = Some (new, np) ->
    (new = [] /\ np = []) \/
    (new = rt_mk_msgs (rt_mto m) (rt_ozone (rt_recv_origin c Z (Some (rt_mfrom m)) (rt_moz m)))
             (rt_sends (rt_relay c (rt_mto m) Z (rt_view links (rt_mto m))
                                 (rt_recv_origin c Z (Some (rt_mfrom m)) (rt_moz m)) (nord (rt_mto m)) T true)) /\
     np = [rt_mto m]).
  Proof.
    intros m new np Z E H. unfold eff, rt_effect in H. rewrite E in H.
    destruct (negb (rt_accepts c (rt_recv_origin c Z (Some (rt_mfrom m)) (rt_moz m)) T));
      injection H as H1 H2; subst new np; [left|right]; split; reflexivity.
  Qed.

  (* one delivery: the receiver and the future sets of the new messages are pairwise disjoint parts of the future
     set of the delivered message *)
  Theorem rt_chain_step : forall m new np, rt_mwf c links T m -> eff m = Some (new, np) ->
    (np = [rt_mto m] \/ (np = [] /\ new = [])) /\
    (forall m', In m' new -> rt_mwf c links T m') /\
    NoDup (rt_mto m :: flat_map fut new) /\ incl (rt_mto m :: flat_map fut new) (fut m).
  Proof.
    intros m new np W H. pose proof (rt_mwf_fut_self c links T m W) as Self.
    assert (forall np', (np' = [rt_mto m] \/ (np' = [] /\ @nil rt_msg = [])) ->
            (np' = [rt_mto m] \/ (np' = [] /\ @nil rt_msg = [])) /\
            (forall m', In m' (@nil rt_msg) -> rt_mwf c links T m') /\
            NoDup (rt_mto m :: flat_map fut []) /\ incl (rt_mto m :: flat_map fut []) (fut m)) as Empty.
    { intros np' K. split; [assumption|]. split; [intros m' []|]. simpl. split; [repeat constructor; simpl; tauto|].
      intros e [E|[]]. subst. assumption. }
    destruct W as [Zf [Z [E1 [E2 W]]]].
    destruct (rt_effect_cases m new np Z E2 H) as [[H1 H2]|[H1 H2]]; subst new np.
    { apply Empty. auto. }
    set (o := rt_recv_origin c Z (Some (rt_mfrom m)) (rt_moz m)) in *.
    destruct (Nat.eq_dec Zf Z) as [Q|Q].
    - destruct (Nat.eq_dec (rt_master c Z (rt_mto m) (rt_view links (rt_mto m))) (rt_mto m)) as [M|M].
      + destruct (rt_chain_relay c links T nord Hwf HT Hnord (rt_mto m) Z o E2) as [R1 [R2 R3]].
        split; [auto|]. split; [assumption|]. split.
        * constructor; [|assumption]. intros K. apply R3 in K. destruct K as [ze [_ [K _]]]. congruence.
        * intros e [E|E]; [subst; assumption|]. apply rt_fut_in. exists Zf, Z. split; [assumption|]. split; [assumption|].
          right. split; [auto|]. apply R3. assumption.
      + (* a non-master that got the event from its zone peer forwards nothing *)
        destruct W as [[_ [Nf Vf]]|[W _]]; [|lia]. subst Zf.
        assert (rt_master c Z (rt_mto m) (rt_view links (rt_mto m)) = rt_mfrom m) as MF.
        { destruct (rt_master_cases c Z (rt_mto m) (rt_view links (rt_mto m))) as [[K|[K _]] _]; [contradiction|].
          destruct (rt_zone_of_some c _ _ E2) as [LZ _]. destruct Hwf as [_ [_ [_ ND]]].
          apply (rt_zone_of_in c _ Z ND LZ) in K.
          destruct (rt_zone_two c Hwf Z (rt_mto m) (rt_mfrom m) _ E2 E1 K); [auto|contradiction|assumption]. }
        rewrite (rt_peer_of_master_terminal c (rt_mto m) Z (rt_view links (rt_mto m)) o (nord (rt_mto m)) T true M).
        * simpl. apply Empty. auto.
        * rewrite MF. reflexivity.
    - destruct (rt_chain_relay c links T nord Hwf HT Hnord (rt_mto m) Z o E2) as [R1 [R2 R3]].
      split; [auto|]. split; [assumption|]. split.
      + constructor; [|assumption]. intros K. apply R3 in K. destruct K as [ze [_ [K _]]]. congruence.
      + intros e [E|E]; [subst; assumption|]. apply rt_fut_in. exists Zf, Z. split; [assumption|]. split; [assumption|].
        right. split; [auto|]. apply R3. assumption.
  Qed.

  (* rt_chain_inv: in-flight messages are well-formed; their future sets and the processed set are pairwise disjoint *)
  Definition rt_chain_inv (st : rt_st rt_msg) : Prop :=
    (forall m, In m (fst st) -> rt_mwf c links T m) /\ NoDup (flat_map fut (fst st) ++ snd st).
  (* rt_chain_measure: the number of endpoints that can still process the event *)
  Definition rt_chain_measure (st : rt_st rt_msg) : nat := length (flat_map fut (fst st)).

  Theorem rt_chain_inv_step : forall st np st', rt_chain_inv st -> rt_sched_step rt_msg eff st np st' ->
    rt_fresh np (snd st) = true /\ rt_chain_inv st' /\ rt_chain_measure st' < rt_chain_measure st.
  Proof.
    intros st np st' [I1 I2] S. inversion S as [pre m post P new np0 Em]. subst. cbn [fst snd] in *.
    assert (rt_mwf c links T m) as W by (apply I1; apply in_or_app; right; left; reflexivity).
    destruct (rt_chain_step m new np W Em) as [Hnp [Hw [Hnd Hincl]]].
    rewrite flat_map_app in I2. simpl in I2.
    assert (NoDup (fut m ++ (flat_map fut pre ++ flat_map fut post ++ P))) as N.
    { apply (Permutation_NoDup (l := (flat_map fut pre ++ fut m ++ flat_map fut post) ++ P)); [|assumption].
      rewrite <- !app_assoc. apply Permutation_app_swap_app. }
    assert (NoDup (np ++ flat_map fut new) /\ incl (np ++ flat_map fut new) (fut m)) as [NX IX].
    { destruct Hnp as [Hnp|[Hnp Hnew]]; subst.
      - split; assumption.
      - simpl. split; [constructor | intros e []]. }
    split; [|split].
    - apply rt_fresh_spec. intros e He K.
      destruct Hnp as [Hnp|[Hnp _]]; subst; [|contradiction]. destruct He as [He|[]]. subst e.
      apply rt_nodup_app_inv in N. destruct N as [_ [_ D]]. apply (D (rt_mto m)).
      + apply Hincl. left. reflexivity.
      + apply in_or_app. right. apply in_or_app. right. assumption.
    - split.
      + intros m' Hm'. cbn [fst] in Hm'. apply in_app_or in Hm'. destruct Hm' as [Hm'|Hm'].
        * apply I1. apply in_or_app. left. assumption.
        * apply in_app_or in Hm'. destruct Hm' as [Hm'|Hm']; [|apply Hw; assumption].
          apply I1. apply in_or_app. right. right. assumption.
      + cbn [fst snd]. rewrite !flat_map_app.
        apply (Permutation_NoDup (l := (np ++ flat_map fut new) ++ flat_map fut pre ++ flat_map fut post ++ P)).
        * apply rt_perm_swap4.
        * apply (rt_nodup_app_replace _ (fut m)); assumption.
    - unfold rt_chain_measure. cbn [fst]. rewrite !flat_map_app, !app_length. simpl. rewrite app_length.
      pose proof (NoDup_incl_length Hnd Hincl) as L. cbn [length] in L. unfold fut in *. lia.
  Qed.

  (* the originating relay establishes the invariant; the measure starts below the number of endpoints *)
  Theorem rt_chain_init : forall s lz, rt_zone_of c s = Some lz ->
    rt_chain_inv (rt_init c links T nord s lz) /\
    rt_chain_measure (rt_init c links T nord s lz) < length (rt_all_eps c) /\
    (forall e, In e (flat_map fut (fst (rt_init c links T nord s lz))) -> rt_regionP c T s lz rt_no_origin e).
  Proof.
    intros s lz E. destruct (rt_chain_relay c links T nord Hwf HT Hnord s lz rt_no_origin E) as [R1 [R2 R3]].
    unfold rt_init, rt_chain_inv, rt_chain_measure. cbn [fst snd]. cbn [rt_ozone rt_no_origin] in *.
    assert (NoDup (s :: flat_map fut (rt_mk_msgs s None (rt_sends (rt_relay c s lz (rt_view links s) rt_no_origin (nord s) T true))))) as N.
    { constructor; [|assumption]. intros K. apply R3 in K. destruct K as [ze [_ [K _]]]. congruence. }
    split; [split|split].
    - assumption.
    - apply (Permutation_NoDup (l := s :: flat_map fut (rt_mk_msgs s None (rt_sends (rt_relay c s lz (rt_view links s) rt_no_origin (nord s) T true))))); [|assumption].
      apply Permutation_cons_append.
    - assert (incl (s :: flat_map fut (rt_mk_msgs s None (rt_sends (rt_relay c s lz (rt_view links s) rt_no_origin (nord s) T true)))) (rt_all_eps c)) as I.
      { intros e [K|K].
        - subst. apply rt_all_eps_in. eauto.
        - apply in_flat_map in K. destruct K as [m [_ K]]. unfold fut, rt_fut in K. apply filter_In in K. tauto. }
      pose proof (NoDup_incl_length N I) as L. cbn [length] in L. lia.
    - assumption.
  Qed.

  (* finitely many deliveries, nobody processes twice - every schedule, arbitrary depth *)
  Theorem rt_chain_finite_once : forall s lz, rt_zone_of c s = Some lz ->
    forall k st', rt_sched_run rt_msg eff (rt_init c links T nord s lz) k st' ->
      k < length (rt_all_eps c) /\ k + rt_chain_measure st' <= rt_chain_measure (rt_init c links T nord s lz) /\
      rt_chain_inv st' /\
      (forall np st'', rt_sched_step rt_msg eff st' np st'' -> rt_fresh np (snd st') = true).
  Proof.
    intros s lz E k st' R. destruct (rt_chain_init s lz E) as [I0 [M0 _]].
    assert (forall st0 k0 st1, rt_sched_run rt_msg eff st0 k0 st1 -> rt_chain_inv st0 ->
              k0 + rt_chain_measure st1 <= rt_chain_measure st0 /\ rt_chain_inv st1) as G.
    { clear R. intros st0 k0 st3 R. induction R as [st|st np st1 k1 st2 S R IH]; intros I; [split; [lia|assumption]|].
      destruct (rt_chain_inv_step st np st1 I S) as [_ [I1 D]]. destruct (IH I1) as [K1 K2]. split; [lia|assumption]. }
    destruct (G _ _ _ R I0) as [K1 K2]. split; [lia|]. split; [assumption|]. split; [assumption|].
    intros np st'' S. apply (rt_chain_inv_step st' np st'' K2 S).
  Qed.
End RtChainStep.
