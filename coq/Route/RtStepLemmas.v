(* C11 - unbounded step lemmas for the measure argument over chains of any depth (all configurations, all
   views, all orders).  They are the per-step facts an inductive proof of finite/once/complete needs; the
   global invariant over in-flight messages is NOT proved (see notes/C11.md, "unbounded, partial"). *)
From Coq Require Import List Arith Bool PeanoNat Lia.
From Icv Require Import Route.RtModel Route.RtProofs.
Import ListNotations.

(* a node that is not the zone master sends to nobody but the master *)
Theorem rt_nonmaster_sends_only_master : forall c me lz conn o ord target log e,
  rt_master c lz me conn <> me ->
  In e (rt_sends (rt_relay c me lz conn o ord target log)) -> e = rt_master c lz me conn.
Proof.
  intros c me lz conn o ord target log e Hm H. apply rt_entitled_sends in H.
  destruct H as [z [_ [_ [_ [_ [_ [_ [_ [K|K]]]]]]]]]; [contradiction|assumption].
Qed.

(* ... hence a non-master that got the event from its master forwards it to nobody: inside a zone the event
   travels master -> peer (or peer -> master -> nobody back) exactly once *)
Theorem rt_peer_of_master_terminal : forall c me lz conn o ord target log,
  rt_master c lz me conn <> me -> rt_ofrom o = Some (rt_master c lz me conn) ->
  rt_sends (rt_relay c me lz conn o ord target log) = [].
Proof.
  intros c me lz conn o ord target log Hm Ho.
  destruct (rt_sends (rt_relay c me lz conn o ord target log)) as [|e l] eqn:E; [reflexivity|].
  exfalso. assert (In e (rt_sends (rt_relay c me lz conn o ord target log))) as H by (rewrite E; left; reflexivity).
  pose proof (rt_nonmaster_sends_only_master _ _ _ _ _ _ _ _ _ Hm H) as K.
  apply rt_entitled_sends in H. destruct H as [z [_ [_ [_ [_ [_ [N _]]]]]]]. apply N. rewrite Ho, K. reflexivity.
Qed.

(* no echo: nothing goes back to the endpoint the event came from, nor into the zone it came from *)
Theorem rt_no_echo : forall c me lz conn o ord target log e,
  In e (rt_sends (rt_relay c me lz conn o ord target log)) ->
  rt_ofrom o <> Some e /\ forall z, In e (ord z) -> In z (rt_relay_zones c lz target) ->
    (forall z', In e (ord z') -> z' = z) -> rt_ozone o <> Some z.
Proof.
  intros c me lz conn o ord target log e H. apply rt_entitled_sends in H.
  destruct H as [z [Z1 [_ [_ [_ [_ [N1 [N2 _]]]]]]]]. split; [assumption|].
  intros z0 H0 _ U. rewrite <- (U z Z1). assumption.
Qed.

(* the message a re-relay puts in flight names the zone the event entered the local zone from: a relay across a
   zone border stamps the sender's zone, a relay inside a zone keeps the stamp *)
Theorem rt_stamp : forall c lz f oz,
  rt_ozone (rt_recv_origin c lz (Some f) oz) = if rt_oeqb (rt_zone_of c f) (Some lz) then oz else rt_zone_of c f.
Proof. reflexivity. Qed.
