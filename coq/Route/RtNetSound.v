(* C11 - soundness of the exploration w.r.t. the small-step network relation.
   The relation: RtSched.rt_sched_step instantiated with RtNet.rt_effect c links target nord, where
   nord : node -> zone -> list endpoint is each node's (fixed, arbitrary) iteration order of its endpoint sets.
   rt_explore = true  ==>  for EVERY admissible nord and EVERY schedule (RtSched.rt_good). *)
From Coq Require Import List Arith Bool PeanoNat Lia Permutation.
From Icv Require Import Route.RtModel Route.RtProofs Route.RtNet Route.RtSched.
Import ListNotations.

(* every node iterates a permutation of each zone's endpoints *)
Definition rt_nord_ok (c : rt_cfg) (nord : nat -> nat -> list nat) : Prop :=
  forall n z, Permutation (nord n z) (rt_eps c z).
(* the property's bound: at most two endpoints per zone *)
Definition rt_small (c : rt_cfg) : Prop := forall z, length (rt_eps c z) <= 2.

Lemma rt_list_eqb_eq : forall a b, rt_list_eqb a b = true <-> a = b.
Proof.
  induction a as [|x a IH]; destruct b as [|y b]; simpl; split; intros H; try discriminate; try reflexivity.
  - apply andb_true_iff in H. destruct H as [H1 H2]. apply Nat.eqb_eq in H1. apply IH in H2. subst. reflexivity.
  - inversion H. subst. rewrite Nat.eqb_refl. simpl. apply IH. reflexivity.
Qed.

Lemma rt_dedup_in : forall l x, In x l -> In x (rt_dedup l).
Proof.
  induction l as [|y l IH]; simpl; intros x H; [contradiction|].
  destruct (existsb (rt_list_eqb y) l) eqn:E.
  - destruct H as [H|H]; [|auto]. subst. apply IH. apply existsb_exists in E. destruct E as [z [E1 E2]].
    apply rt_list_eqb_eq in E2. subst. assumption.
  - destruct H as [H|H]; [left; assumption | right; auto].
Qed.

Lemma rt_subsets_filter : forall (p : nat -> bool) l, In (filter p l) (rt_subsets l).
Proof.
  induction l as [|x l IH]; simpl; [auto|].
  apply in_or_app. destruct (p x); [right; apply in_map; assumption | left; assumption].
Qed.

Lemma rt_perm_small : forall (o l : list nat), length l <= 2 -> Permutation o l -> o = l \/ o = rev l.
Proof.
  intros o l H P. destruct l as [|a [|b [|x l]]]; simpl in H.
  - left. apply Permutation_nil. apply Permutation_sym. assumption.
  - left. apply Permutation_length_1_inv. apply Permutation_sym. assumption.
  - apply Permutation_sym in P. apply Permutation_length_2_inv in P. destruct P as [P|P]; [left|right]; assumption.
  - lia.
Qed.

Lemma rt_rev_short : forall l : list nat, length l <= 1 -> rev l = l.
Proof. intros [|a [|b l]] H; simpl in *; try reflexivity. lia. Qed.

(* a relay step reads the iteration order only at the zones it iterates *)
Lemma rt_relay_ext_in : forall c me lz conn o ord ord' target log,
  (forall z, In z (rt_relay_zones c lz target) -> ord z = ord' z) ->
  rt_relay c me lz conn o ord target log = rt_relay c me lz conn o ord' target log.
Proof.
  intros c me lz conn o ord ord' target log H. unfold rt_relay.
  assert (map (rt_zone_loop me lz (rt_master c lz me conn) conn o ord) (rt_relay_zones c lz target) =
          map (rt_zone_loop me lz (rt_master c lz me conn) conn o ord') (rt_relay_zones c lz target)) as E.
  { apply map_ext_in. intros z Hz. unfold rt_zone_loop. rewrite (H z Hz). reflexivity. }
  rewrite E. reflexivity.
Qed.

(* every admissible iteration order yields one of the explored variants *)
Lemma rt_variants_cover : forall c me lz conn o target ord,
  rt_small c -> (forall z, Permutation (ord z) (rt_eps c z)) ->
  In (rt_sends (rt_relay c me lz conn o ord target true)) (rt_variants c me lz conn o target).
Proof.
  intros c me lz conn o target ord Hs Hp. unfold rt_variants.
  set (vary := filter (fun z => 2 <=? length (rt_eps c z)) (rt_relay_zones c lz target)).
  set (fl := filter (fun z => negb (rt_list_eqb (ord z) (rt_eps c z))) vary).
  apply rt_dedup_in.
  assert (rt_relay c me lz conn o ord target true = rt_relay c me lz conn o (rt_ord_of c fl) target true) as E.
  { apply rt_relay_ext_in. intros z Hz. unfold rt_ord_of.
    destruct (rt_list_eqb (ord z) (rt_eps c z)) eqn:Q.
    - apply rt_list_eqb_eq in Q.
      assert (rt_mem z fl = false) as N.
      { apply not_true_is_false. intros K. apply rt_mem_In in K. unfold fl in K. apply filter_In in K.
        destruct K as [_ K]. rewrite (proj2 (rt_list_eqb_eq _ _) Q) in K. discriminate. }
      rewrite N. assumption.
    - destruct (rt_perm_small (ord z) (rt_eps c z) (Hs z) (Hp z)) as [K|K].
      + apply rt_list_eqb_eq in K. congruence.
      + assert (2 <= length (rt_eps c z)) as L.
        { destruct (le_lt_dec 2 (length (rt_eps c z))) as [L|L]; [assumption|].
          exfalso. rewrite rt_rev_short in K by lia. apply rt_list_eqb_eq in K. congruence. }
        assert (rt_mem z fl = true) as Y.
        { apply rt_mem_In. unfold fl. apply filter_In. split.
          - unfold vary. apply filter_In. split; [assumption|]. apply Nat.leb_le. assumption.
          - rewrite Q. reflexivity. }
        rewrite Y. assumption. }
  rewrite E. apply (in_map (fun fl => rt_sends (rt_relay c me lz conn o (rt_ord_of c fl) target true))).
  unfold fl. apply rt_subsets_filter.
Qed.

Lemma rt_effects_cover : forall c links target nord m,
  rt_small c -> rt_nord_ok c nord ->
  match rt_effects c links target m with
  | None => rt_effect c links target nord m = None
  | Some effs => exists e, In e effs /\ rt_effect c links target nord m = Some e
  end.
Proof.
  intros c links target nord m Hs Hn. unfold rt_effects, rt_effect.
  destruct (rt_zone_of c (rt_mto m)) as [lz|]; [|reflexivity].
  destruct (negb (rt_accepts c (rt_recv_origin c lz (Some (rt_mfrom m)) (rt_moz m)) target)).
  - eexists. split; [left; reflexivity | reflexivity].
  - eexists. split; [|reflexivity].
    apply (in_map (fun sends => (rt_mk_msgs (rt_mto m) (rt_ozone (rt_recv_origin c lz (Some (rt_mfrom m)) (rt_moz m))) sends, [rt_mto m]))).
    apply rt_variants_cover; [assumption|]. intros z. apply Hn.
Qed.

Lemma rt_fresh_b_eq : forall np P, rt_fresh_b np P = rt_fresh np P.
Proof. reflexivity. Qed.

(* exploring all orders covers the representative run of every admissible per-node order *)
Theorem rt_explore_run1 : forall c links target final nord,
  rt_small c -> rt_nord_ok c nord ->
  forall fuel l P, rt_explore fuel c links target final l P = true ->
  rt_run1 rt_msg (rt_effect c links target nord) final fuel l P = true.
Proof.
  intros c links target final nord Hs Hn. induction fuel as [|f IH]; intros l P H; [simpl in H; discriminate|].
  simpl in *. destruct l as [|m rest]; [assumption|].
  pose proof (rt_effects_cover c links target nord m Hs Hn) as K.
  destruct (rt_effects c links target m) as [effs|]; [|discriminate].
  destruct K as [[new np] [K1 K2]]. rewrite K2.
  rewrite forallb_forall in H. specialize (H _ K1). simpl in H.
  apply andb_true_iff in H. destruct H as [H1 H2].
  rewrite <- rt_fresh_b_eq, H1. simpl. apply IH. assumption.
Qed.

(* the initial state of an event originating at endpoint s of zone lz under the orders nord *)
Definition rt_init (c : rt_cfg) (links : list (nat * nat)) (target : nat) (nord : nat -> nat -> list nat)
           (s lz : nat) : list rt_msg * list nat :=
  (rt_mk_msgs s None (rt_sends (rt_relay c s lz (rt_view links s) rt_no_origin (nord s) target true)), [s]).

(* the verdict of the exploration, as a statement about the relation: every run under every admissible
   per-node iteration order, from the originating relay on *)
Theorem rt_run_ok_sound : forall c links target s lz final nord,
  (forall P P', (forall x, In x P <-> In x P') -> final P = final P') ->
  rt_small c -> rt_nord_ok c nord -> rt_zone_of c s = Some lz ->
  rt_run_ok c links target s final = true ->
  forall k st', rt_sched_run rt_msg (rt_effect c links target nord) (rt_init c links target nord s lz) k st' ->
    k < rt_fuel c /\
    (fst st' = [] -> final (snd st') = true) /\
    (forall np st'', rt_sched_step rt_msg (rt_effect c links target nord) st' np st'' -> rt_fresh np (snd st') = true).
Proof.
  intros c links target s lz final nord Hf Hs Hn Hz H k st' R.
  unfold rt_run_ok in H. rewrite Hz in H. rewrite forallb_forall in H.
  specialize (H _ (rt_variants_cover c s lz (rt_view links s) rt_no_origin target (nord s) Hs (Hn s))).
  apply (rt_explore_run1 c links target final nord Hs Hn) in H.
  apply (rt_run1_good rt_msg (rt_effect c links target nord) final Hf) in H.
  exact (rt_good_runs rt_msg (rt_effect c links target nord) final (rt_fuel c) _ H k st' R).
Qed.
