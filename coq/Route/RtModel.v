(* C11 - cluster routing.  Executable model of one relay step
   (ApiListener::SyncRelayMessage + RelayMessageOne + GetMaster, lib/remote/apilistener.cpp)
   and of the origin a receiving connection constructs (JsonRpcConnection::MessageHandler,
   lib/remote/jsonrpcconnection.cpp:316-326).  Definitions only; proofs are in RtProofs.v.

   Zones are numbered 0..n-1 (index into the configuration list); endpoints are natural
   numbers whose numeric order is the order of their NAMES (the harness names endpoint k
   "e%03d", so std::sort on the names = numeric order; GetMaster only depends on that order).
   Everything the C++ leaves to pointer values - the iteration order of the
   std::set<Endpoint::Ptr> returned by Zone::GetEndpoints() - is the explicit input [ord]. *)
From Coq Require Import List Arith Bool PeanoNat.
Import ListNotations.

Record rt_zone := { rt_zparent : option nat; rt_zglobal : bool; rt_zeps : list nat }.
Definition rt_cfg := list rt_zone.
Definition rt_zdummy : rt_zone := {| rt_zparent := None; rt_zglobal := false; rt_zeps := [] |}.
Definition rt_getz (c : rt_cfg) (z : nat) : rt_zone := nth z c rt_zdummy.
Definition rt_parent (c : rt_cfg) (z : nat) : option nat := rt_zparent (rt_getz c z).
Definition rt_global (c : rt_cfg) (z : nat) : bool := rt_zglobal (rt_getz c z).
Definition rt_eps (c : rt_cfg) (z : nat) : list nat := rt_zeps (rt_getz c z).

Definition rt_mem (x : nat) (l : list nat) : bool := existsb (Nat.eqb x) l.
Definition rt_oeqb (a b : option nat) : bool :=
  match a, b with
  | Some x, Some y => x =? y
  | None, None => true
  | _, _ => false
  end.

(* Zone::m_AllParents (zone.cpp:38-46): the parent chain, nearest first.  The C++ loop gives up
   after 32 levels with a config error; the model follows at most [length c] links, which is
   the whole chain for every acyclic configuration. *)
Fixpoint rt_parents_from (c : rt_cfg) (fuel : nat) (z : nat) : list nat :=
  match fuel with
  | 0 => []
  | S f => match rt_parent c z with
           | None => []
           | Some p => p :: rt_parents_from c f p
           end
  end.
Definition rt_all_parents (c : rt_cfg) (z : nat) : list nat := rt_parents_from c (length c) z.

(* Endpoint::GetZone(): the zone whose endpoints attribute lists the endpoint *)
Fixpoint rt_zone_of_from (c : rt_cfg) (i : nat) (e : nat) : option nat :=
  match c with
  | [] => None
  | z :: r => if rt_mem e (rt_zeps z) then Some i else rt_zone_of_from r (S i) e
  end.
Definition rt_zone_of (c : rt_cfg) (e : nat) : option nat := rt_zone_of_from c 0 e.

(* Zone::IsChildOf (zone.cpp:113-125): reflexive-transitive parent relation *)
Definition rt_is_child_of (c : rt_cfg) (z anc : nat) : bool :=
  (z =? anc) || rt_mem anc (rt_all_parents c z).

(* ApiListener::GetMaster (apilistener.cpp:390-406): the smallest name among the endpoints of
   the local zone that are connected or are the local identity. *)
Definition rt_master (c : rt_cfg) (lz me : nat) (conn : list nat) : nat :=
  fold_right Nat.min me (filter (fun e => rt_mem e conn || (e =? me)) (rt_eps c lz)).

(* MessageOrigin as far as routing looks at it: FromClient->GetEndpoint() and FromZone.
   A null origin and an origin without client/zone behave identically in RelayMessageOne. *)
Record rt_origin := { rt_ofrom : option nat; rt_ozone : option nat }.
Definition rt_no_origin : rt_origin := {| rt_ofrom := None; rt_ozone := None |}.

(* state of the loop over one zone's endpoints (apilistener.cpp:1251-1311) *)
Record rt_acc := {
  rt_relayed : bool; rt_logneeded : bool; rt_logdone : bool;
  rt_asends : list nat;     (* SyncSendMessage(targetEndpoint, ...) calls, newest first *)
  rt_askipped : list nat    (* skippedEndpoints.push_back, newest first *)
}.
Definition rt_acc0 : rt_acc :=
  {| rt_relayed := false; rt_logneeded := false; rt_logdone := false; rt_asends := []; rt_askipped := [] |}.

Definition rt_skip (a : rt_acc) (te : nat) : rt_acc :=
  {| rt_relayed := rt_relayed a; rt_logneeded := rt_logneeded a; rt_logdone := rt_logdone a;
     rt_asends := rt_asends a; rt_askipped := te :: rt_askipped a |}.

(* one iteration of "for (targetEndpoint : currentTargetZone->GetEndpoints())", statement by statement *)
Definition rt_ep_step (me lz master : nat) (conn : list nat) (o : rt_origin) (cz : nat)
           (a : rt_acc) (te : nat) : rt_acc :=
  (* if (targetEndpoint == localEndpoint) continue; *)
  if te =? me then a else
  (* log_needed = true; *)
  let a1 := {| rt_relayed := rt_relayed a; rt_logneeded := true; rt_logdone := rt_logdone a;
               rt_asends := rt_asends a; rt_askipped := rt_askipped a |} in
  (* if (!targetEndpoint->GetConnected()) { if (currentTargetZone == localZone) log_done = false; continue; } *)
  if negb (rt_mem te conn) then
    (if cz =? lz then
       {| rt_relayed := rt_relayed a1; rt_logneeded := true; rt_logdone := false;
          rt_asends := rt_asends a1; rt_askipped := rt_askipped a1 |}
     else a1)
  else
  (* log_done = true; *)
  let a2 := {| rt_relayed := rt_relayed a1; rt_logneeded := true; rt_logdone := true;
               rt_asends := rt_asends a1; rt_askipped := rt_askipped a1 |} in
  (* if (relayed && currentTargetZone != localZone) { skipped; continue; } *)
  if rt_relayed a2 && negb (cz =? lz) then rt_skip a2 te
  (* if (origin && origin->FromClient && targetEndpoint == origin->FromClient->GetEndpoint()) *)
  else if rt_oeqb (rt_ofrom o) (Some te) then rt_skip a2 te
  (* if (origin && origin->FromZone && currentTargetZone == origin->FromZone) *)
  else if rt_oeqb (rt_ozone o) (Some cz) then rt_skip a2 te
  (* bool isMaster = (currentZoneMaster == localEndpoint);
     if (!isMaster && targetEndpoint != currentZoneMaster) *)
  else if negb (master =? me) && negb (te =? master) then rt_skip a2 te
  (* relayed = true; SyncSendMessage(targetEndpoint, message); *)
  else {| rt_relayed := true; rt_logneeded := true; rt_logdone := true;
          rt_asends := te :: rt_asends a2; rt_askipped := rt_askipped a2 |}.

Definition rt_zone_loop (me lz master : nat) (conn : list nat) (o : rt_origin)
           (ord : nat -> list nat) (cz : nat) : rt_acc :=
  fold_left (rt_ep_step me lz master conn o cz) (ord cz) rt_acc0.

(* direct children of the local zone: ConfigType::GetObjectsByType<Zone>() filtered by GetParent() == localZone *)
Definition rt_children (c : rt_cfg) (lz : nat) : list nat :=
  filter (fun z => rt_oeqb (rt_parent c z) (Some lz)) (seq 0 (length c)).

(* targetZone == localZone || targetZone == localZone->GetParent() || targetZone->GetParent() == localZone *)
Definition rt_related (c : rt_cfg) (lz tz : nat) : bool :=
  (tz =? lz) || rt_oeqb (rt_parent c lz) (Some tz) || rt_oeqb (rt_parent c tz) (Some lz).

(* allTargetZones (apilistener.cpp:1234-1246) *)
Definition rt_target_zones (c : rt_cfg) (lz tz : nat) : list nat :=
  if rt_global c tz then lz :: rt_children c lz else [tz].

(* the zones one RelayMessageOne call actually iterates (empty: the early "return true") *)
Definition rt_one_zones (c : rt_cfg) (lz tz : nat) : list nat :=
  if negb (rt_global c tz) && negb (rt_related c lz tz) then [] else rt_target_zones c lz tz.

Definition rt_needs_replay (a : rt_acc) : bool := rt_logneeded a && negb (rt_logdone a).

(* the zones SyncRelayMessage iterates: RelayMessageOne(target_zone) and then every parent *)
Definition rt_relay_zones (c : rt_cfg) (lz target : nat) : list nat :=
  flat_map (rt_one_zones c lz) (target :: rt_all_parents c target).

Record rt_result := {
  rt_sends : list nat;         (* endpoints SyncSendMessage was called for *)
  rt_skipped : list nat;       (* endpoints whose local log position is advanced to the message ts *)
  rt_persist : bool;           (* PersistMessage was called *)
  rt_oz_out : option nat       (* the "originZone" attribute stamped on the message *)
}.

(* SyncRelayMessage (apilistener.cpp:1328-1363).  [lz] is Zone::GetLocalZone(), [target] the
   security object's zone (the caller substitutes the local zone when there is none). *)
Definition rt_relay (c : rt_cfg) (me lz : nat) (conn : list nat) (o : rt_origin)
           (ord : nat -> list nat) (target : nat) (log : bool) : rt_result :=
  let master := rt_master c lz me conn in
  let accs := map (rt_zone_loop me lz master conn o ord) (rt_relay_zones c lz target) in
  {| rt_sends := flat_map rt_asends accs;
     rt_skipped := flat_map rt_askipped accs;
     rt_persist := log && existsb rt_needs_replay accs;
     rt_oz_out := rt_ozone o |}.

(* JsonRpcConnection::MessageHandler: the origin built for a message that arrived from
   endpoint [from] carrying the attribute originZone = [oz] *)
Definition rt_recv_origin (c : rt_cfg) (lz : nat) (from : option nat) (oz : option nat) : rt_origin :=
  match from with
  | None => {| rt_ofrom := None; rt_ozone := None |}          (* anonymous client: m_Endpoint == nullptr *)
  | Some f =>
      {| rt_ofrom := Some f;
         rt_ozone := if rt_oeqb (rt_zone_of c f) (Some lz) then oz else rt_zone_of c f |}
  end.

(* Zone::CanAccessObject for an object in zone [target] (zone.cpp:95-111), the test every
   event handler in clusterevents.cpp applies to origin->FromZone before it processes and re-relays *)
Definition rt_can_access (c : rt_cfg) (fz target : nat) : bool :=
  rt_global c target || rt_is_child_of c target fz.
Definition rt_accepts (c : rt_cfg) (o : rt_origin) (target : nat) : bool :=
  match rt_ozone o with
  | None => true
  | Some fz => rt_can_access c fz target
  end.
