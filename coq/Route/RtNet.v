(* C11 - the network: endpoints exchanging one event.  In-flight messages form a multiset, any of them
   may be delivered next; the receiving endpoint builds the origin exactly as
   JsonRpcConnection::MessageHandler does, applies the handler's CanAccessObject test, processes the
   event and re-relays with that origin (what every handler in clusterevents.cpp does).  The iteration
   order of each node's endpoint sets is unknown (pointer values, different in every process), so every
   relay branches over all orders that can make a difference.
   [rt_explore] explores ONE representative delivery order (deliveries commute, RtSched.v) and ALL iteration
   orders; RtNetSound.v turns its verdict into a statement about the step relation. *)
From Coq Require Import List Arith Bool PeanoNat.
From Icv Require Import Route.RtModel.
Import ListNotations.

Record rt_msg := { rt_mfrom : nat; rt_mto : nat; rt_moz : option nat }.

(* symmetric connectivity: a set of unordered endpoint pairs *)
Definition rt_view (links : list (nat * nat)) (me : nat) : list nat :=
  flat_map (fun p => if fst p =? me then [snd p] else if snd p =? me then [fst p] else []) links.

(* iteration orders: every subset of zones may be iterated in reverse (all permutations for <= 2 endpoints) *)
Fixpoint rt_subsets (l : list nat) : list (list nat) :=
  match l with
  | [] => [[]]
  | x :: r => let s := rt_subsets r in s ++ map (cons x) s
  end.

Definition rt_ord_of (c : rt_cfg) (flipped : list nat) (z : nat) : list nat :=
  if rt_mem z flipped then rev (rt_eps c z) else rt_eps c z.

Fixpoint rt_list_eqb (a b : list nat) : bool :=
  match a, b with
  | [], [] => true
  | x :: a', y :: b' => (x =? y) && rt_list_eqb a' b'
  | _, _ => false
  end.

Fixpoint rt_dedup (l : list (list nat)) : list (list nat) :=
  match l with
  | [] => []
  | x :: r => if existsb (rt_list_eqb x) r then rt_dedup r else x :: rt_dedup r
  end.

(* the distinct send lists one relay can produce over all iteration orders of zones with two endpoints
   (RtNetSound.rt_variants_cover: every admissible order yields one of them) *)
Definition rt_variants (c : rt_cfg) (me lz : nat) (conn : list nat) (o : rt_origin) (target : nat) : list (list nat) :=
  let vary := filter (fun z => 2 <=? length (rt_eps c z)) (rt_relay_zones c lz target) in
  rt_dedup (map (fun fl => rt_sends (rt_relay c me lz conn o (rt_ord_of c fl) target true)) (rt_subsets vary)).

Definition rt_mk_msgs (t : nat) (oz : option nat) (sends : list nat) : list rt_msg :=
  map (fun e => {| rt_mfrom := t; rt_mto := e; rt_moz := oz |}) sends.

(* what delivering message m does, at a receiver that iterates its endpoint sets in the orders [nord t]:
   None = ill-formed (receiver in no zone); otherwise the new in-flight messages and the endpoints (none when the
   handler's CanAccessObject test discards the message, else the receiver) that process the event *)
Definition rt_effect (c : rt_cfg) (links : list (nat * nat)) (target : nat) (nord : nat -> nat -> list nat)
           (m : rt_msg) : option (list rt_msg * list nat) :=
  let t := rt_mto m in
  match rt_zone_of c t with
  | None => None
  | Some lz =>
      let o := rt_recv_origin c lz (Some (rt_mfrom m)) (rt_moz m) in
      if negb (rt_accepts c o target) then Some ([], [])
      else Some (rt_mk_msgs t (rt_ozone o)
                   (rt_sends (rt_relay c t lz (rt_view links t) o (nord t) target true)), [t])
  end.

(* the same for every iteration order at once *)
Definition rt_effects (c : rt_cfg) (links : list (nat * nat)) (target : nat) (m : rt_msg)
  : option (list (list rt_msg * list nat)) :=
  let t := rt_mto m in
  match rt_zone_of c t with
  | None => None
  | Some lz =>
      let o := rt_recv_origin c lz (Some (rt_mfrom m)) (rt_moz m) in
      if negb (rt_accepts c o target) then Some [([], [])]
      else Some (map (fun sends => (rt_mk_msgs t (rt_ozone o) sends, [t]))
                     (rt_variants c t lz (rt_view links t) o target))
  end.

Definition rt_fresh_b (np P : list nat) : bool := negb (existsb (fun e => existsb (Nat.eqb e) P) np).

(* the representative schedule (oldest message first), branching over every iteration order of every receiver:
   false as soon as fuel runs out, an endpoint that already processed the event would process it again, or the
   end state is not final.  RtSched.rt_run1_good + RtNetSound: a verdict about ALL schedules and ALL orders. *)
Fixpoint rt_explore (fuel : nat) (c : rt_cfg) (links : list (nat * nat)) (target : nat)
         (final : list nat -> bool) (inflight : list rt_msg) (processed : list nat) : bool :=
  match fuel with
  | 0 => false
  | S f =>
      match inflight with
      | [] => final processed
      | m :: rest =>
          match rt_effects c links target m with
          | None => false
          | Some effs =>
              forallb (fun e => rt_fresh_b (snd e) processed &&
                                rt_explore f c links target final (rest ++ fst e) (snd e ++ processed)) effs
          end
      end
  end.

(* an event originating at endpoint s (processed there, relayed without origin) *)
Definition rt_fuel (c : rt_cfg) : nat := 2 * length (flat_map rt_zeps c) + 2.

Definition rt_run_ok (c : rt_cfg) (links : list (nat * nat)) (target s : nat) (final : list nat -> bool) : bool :=
  match rt_zone_of c s with
  | None => false
  | Some lz =>
      forallb (fun sends => rt_explore (rt_fuel c) c links target final (rt_mk_msgs s None sends) [s])
        (rt_variants c s lz (rt_view links s) rt_no_origin target)
  end.

(* ---------------- the statement's connectivity premise ---------------- *)
Definition rt_linked (links : list (nat * nat)) (a b : nat) : bool :=
  existsb (fun p => ((fst p =? a) && (snd p =? b)) || ((fst p =? b) && (snd p =? a))) links.

Definition rt_zmaster (c : rt_cfg) (z : nat) : nat :=
  match rt_eps c z with [] => 0 | e :: r => fold_right Nat.min e r end.

Definition rt_adjacent (c : rt_cfg) (z z' : nat) : bool :=
  rt_oeqb (rt_parent c z) (Some z') || rt_oeqb (rt_parent c z') (Some z).

(* over the entitled zones zs: every zone's endpoints are pairwise connected, and every zone master is
   connected to at least one endpoint of each directly related entitled zone *)
Definition rt_premise (c : rt_cfg) (links : list (nat * nat)) (zs : list nat) : bool :=
  forallb (fun z =>
    forallb (fun a => forallb (fun b => (a =? b) || rt_linked links a b) (rt_eps c z)) (rt_eps c z) &&
    forallb (fun z' => negb (rt_adjacent c z z') || existsb (rt_linked links (rt_zmaster c z)) (rt_eps c z')) zs) zs.

(* entitled zones: the target's chain; for a global target everything below (and including) the
   originating zone - each hop relays to "the local zone and its direct children" *)
Definition rt_entitled_zones (c : rt_cfg) (target lzs : nat) : list nat :=
  if rt_global c target then filter (fun z => rt_is_child_of c z lzs && negb (rt_global c z)) (seq 0 (length c))
  else target :: rt_all_parents c target.

Definition rt_final_complete (c : rt_cfg) (links : list (nat * nat)) (target lzs : nat) (processed : list nat) : bool :=
  let zs := rt_entitled_zones c target lzs in
  negb (rt_mem lzs zs && rt_premise c links zs) ||
  forallb (fun e => rt_mem e processed) (flat_map (rt_eps c) zs).

(* finite + at most once + (under the premise) complete, for one configuration/connectivity/origin *)
Definition rt_all_ok (c : rt_cfg) (links : list (nat * nat)) (target s : nat) : bool :=
  match rt_zone_of c s with
  | None => false
  | Some lzs => rt_run_ok c links target s (rt_final_complete c links target lzs)
  end.

(* ---------------- the finite families ---------------- *)
(* directly related endpoint pairs: same zone, or parent/child zones *)
Definition rt_related_pairs (c : rt_cfg) : list (nat * nat) :=
  let zs := seq 0 (length c) in
  flat_map (fun z =>
    (match rt_eps c z with [a; b] => [(a, b)] | _ => [] end) ++
    match rt_parent c z with
    | Some p => list_prod (rt_eps c z) (rt_eps c p)
    | None => []
    end) zs.

Fixpoint rt_powerset (l : list (nat * nat)) : list (list (nat * nat)) :=
  match l with
  | [] => [[]]
  | x :: r => let s := rt_powerset r in s ++ map (cons x) s
  end.

(* zone i of a family member has endpoints 2i+1 (and 2i+2): within a zone the smaller name comes first;
   the iteration order is enumerated separately by rt_variants *)
Definition rt_mk_eps (i n : nat) : list nat := if n =? 1 then [2 * i + 1] else [2 * i + 1; 2 * i + 2].

Fixpoint rt_count_lists (n : nat) : list (list nat) :=
  match n with
  | 0 => [[]]
  | S m => flat_map (fun l => [1 :: l; 2 :: l]) (rt_count_lists m)
  end.

Definition rt_mk_cfg (parents : list (option nat)) (counts : list nat) : rt_cfg :=
  map (fun '(i, (p, n)) => {| rt_zparent := p; rt_zglobal := false; rt_zeps := rt_mk_eps i n |})
      (combine (seq 0 (length parents)) (combine parents counts)).

(* chains z0 <- z1 <- ... of length 1..3 *)
Definition rt_chain_parents (n : nat) : list (option nat) :=
  map (fun i => match i with 0 => None | S j => Some j end) (seq 0 n).
Definition rt_chains : list rt_cfg :=
  flat_map (fun n => map (rt_mk_cfg (rt_chain_parents n)) (rt_count_lists n)) [1; 2; 3].

(* trees of depth <= 3 with <= 2 children per zone: root, children 1..k, grandchildren after them;
   gs = number of grandchildren under each child; a global zone (the target) is appended last *)
Definition rt_tree_parents (gs : list nat) : list (option nat) :=
  None :: map (fun _ => Some 0) gs ++
  flat_map (fun '(i, g) => repeat (Some (S i)) g) (combine (seq 0 (length gs)) gs).
Definition rt_tree_shapes : list (list nat) :=
  [[]; [0]; [1]; [2]; [0; 0]; [0; 1]; [0; 2]; [1; 0]; [1; 1]; [1; 2]; [2; 0]; [2; 1]; [2; 2]].
Definition rt_gzone : rt_zone := {| rt_zparent := None; rt_zglobal := true; rt_zeps := [] |}.
Definition rt_global_trees : list rt_cfg :=
  flat_map (fun gs => let ps := rt_tree_parents gs in
                      map (fun cn => rt_mk_cfg ps cn ++ [rt_gzone]) (rt_count_lists (length ps)))
           rt_tree_shapes.

Definition rt_sweep_cfg (c : rt_cfg) (targets : list nat) : bool :=
  forallb (fun links =>
    forallb (fun target =>
      forallb (fun s => rt_all_ok c links target s) (flat_map rt_zeps c)) targets)
    (rt_powerset (rt_related_pairs c)).
