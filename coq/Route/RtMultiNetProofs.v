(* C11 - several events with equal / non-decreasing time stamps in the zone network: nothing is dropped, and every event is
   processed exactly once at every entitled endpoint - per EVENT.  And the counter-example for a stale test "ts <= position". *)
From Coq Require Import List Arith Bool PeanoNat ZArith Lia.
From Icv Require Import Route.RtModel Route.RtProofs Route.RtObs Route.RtNet Route.RtSched Route.RtNetSound
     Route.RtTree Route.RtTreeComplete Route.RtNetObs Route.RtNetObsProofs Route.RtMulti Route.RtMultiProofs Route.RtMultiNet
     Src.XlPrelude Facts.Facts_fn_zone2.
Import ListNotations.

(* the code's test IS the rule: read off the regenerated translation of MessageHandler *)
Lemma rt_stale_code_spec : src_jsonrpc_message_origin_recognised = true ->
  forall ts p, rt_stale_code ts p = rt_stale_spec ts p.
Proof.
  intro Hrec; xl_rec Hrec.
  all: intros ts p; unfold rt_stale_code, rt_stale_spec, src_jsonrpc_message_origin; cbn [andb].
  all: destruct (Z.ltb (Z.of_nat ts) (Z.of_nat p)) eqn:E; cbn [fst]; symmetry.
  all: [> apply Nat.ltb_lt; apply Z.ltb_lt in E; lia | apply Nat.ltb_ge; apply Z.ltb_ge in E; lia].
Qed.

Lemma rt_stale_spec_ok : forall ts p, p <= ts -> rt_stale_spec ts p = false.
Proof. intros ts p H. unfold rt_stale_spec. apply Nat.ltb_ge. assumption. Qed.

Lemma rt_stale_code_ok : src_jsonrpc_message_origin_recognised = true ->
  forall ts p, p <= ts -> rt_stale_code ts p = false.
Proof. intros H ts p L. rewrite (rt_stale_code_spec H). apply rt_stale_spec_ok. assumption. Qed.

(* what a zero of the single-event network oracle says, spelled out *)
Lemma rt_net_oracle_zero : forall c links target s lz k proc,
  rt_net_pre_b c target = true -> rt_zone_of c s = Some lz ->
  rt_net_oracle c links target s k proc = 0 ->
  rt_nodup_b proc = true /\ k < length (flat_map rt_zeps c) /\ rt_final_complete c links target lz proc = true.
Proof.
  intros c links target s lz k proc Pre E H. unfold rt_net_oracle in H. rewrite Pre, E in H. cbn [negb] in H.
  destruct (rt_nodup_b proc); cbn [negb] in H; [|discriminate].
  destruct (k <? length (flat_map rt_zeps c)) eqn:K; cbn [negb] in H; [|discriminate].
  destruct (rt_final_complete c links target lz proc); cbn [negb] in H; [|discriminate].
  apply Nat.ltb_lt in K. auto.
Qed.

(* MAIN: every well-formed zone forest, every target (rt_net_pre_b = rt_tree_wf_b and target in range), every link set, every per-node iteration order, every stale test that
   lets ts >= position through (the code's: rt_stale_code_ok), ANY number of distinct events originating at any endpoints at
   any moments of a clock that never runs backwards but may stand still (equal time stamps), every interleaving of
   originations and deliveries with per-connection FIFO order.  Then no delivery is dropped, and for every event that
   originated at an endpoint s: nobody processed it twice; and if nothing is in flight any more, every endpoint of every
   entitled zone processed it (rt_final_complete: under the statement's connectivity premise, originator entitled). *)
Theorem rt_net_multi_event_complete : forall c links target nord stale,
  rt_net_pre_b c target = true -> rt_nord_ok c nord ->
  (forall ts p, p <= ts -> stale ts p = false) ->
  forall n st', rt_mrun rt_msg (rt_effect c links target nord) rt_mlink stale (rt_mst0 rt_msg) n st' ->
    rt_mdrops rt_msg st' = 0 /\
    forall e s lz, rt_zone_of c s = Some lz -> In (e, rt_init c links target nord s lz) (rt_morig rt_msg st') ->
      exists k,
        (rt_mq rt_msg st' = [] ->
           rt_net_oracle c links target s k (snd (rt_proj rt_msg e st')) = 0 /\
           rt_nodup_b (snd (rt_proj rt_msg e st')) = true /\ k < length (flat_map rt_zeps c) /\
           rt_final_complete c links target lz (snd (rt_proj rt_msg e st')) = true).
Proof.
  intros c links target nord stale Pre Hn Hs n st' R.
  destruct (rt_mst0_inv rt_msg (rt_effect c links target nord) rt_mlink) as [I0 E0].
  destruct (rt_multi_no_loss rt_msg (rt_effect c links target nord) rt_mlink stale Hs 0 _ n st' R I0 E0) as [_ [D P]].
  split; [assumption|]. intros e s lz Ez Hi. unfold rt_init in Hi.
  destruct (P e _ _ Hi) as [k Rk].
  exists k. intros Q.
    assert (O: rt_net_oracle c links target s k (snd (rt_proj rt_msg e st')) = 0).
    { apply (rt_net_oracle_accepts c links target s lz nord k (rt_proj rt_msg e st') Ez Hn Rk).
      apply rt_proj_quiescent. assumption. }
    split; [assumption|]. exact (rt_net_oracle_zero c links target s lz k _ Pre Ez O).
Qed.

(* ---------------- refutation for "ts <= position" (a change to "ignore old AND ALREADY PROCESSED messages") ----------------
   one zone, endpoints 1 and 2, connected; two distinct events originate at endpoint 1 within one clock tick (ts = 5).
   Endpoint 2 processes the first, records position 5 and drops the second before any handler runs: nothing is in flight
   any more, yet endpoint 2 - entitled, premise holds - never processed event 1. *)
Definition rt_cx_c : rt_cfg := [{| rt_zparent := None; rt_zglobal := false; rt_zeps := [1; 2] |}].
Definition rt_cx_links : list (nat * nat) := [(1, 2)].
Definition rt_cx_nord : nat -> nat -> list nat := fun _ z => rt_eps rt_cx_c z.
Definition rt_cx_m12 : rt_msg := {| rt_mfrom := 1; rt_mto := 2; rt_moz := None |}.

Theorem rt_stale_le_loses_event :
  rt_net_pre_b rt_cx_c 0 = true /\ rt_nord_ok rt_cx_c rt_cx_nord /\
  rt_final_complete rt_cx_c rt_cx_links 0 0 [] = false /\
  exists n st',
    rt_mrun rt_msg (rt_effect rt_cx_c rt_cx_links 0 rt_cx_nord) rt_mlink rt_stale_le (rt_mst0 rt_msg) n st' /\
    rt_mq rt_msg st' = [] /\ rt_mdrops rt_msg st' = 1 /\
    In (1, rt_init rt_cx_c rt_cx_links 0 rt_cx_nord 1 0) (rt_morig rt_msg st') /\
    snd (rt_proj rt_msg 1 st') = [1] /\
    rt_final_complete rt_cx_c rt_cx_links 0 0 (snd (rt_proj rt_msg 1 st')) = false /\
    rt_final_complete rt_cx_c rt_cx_links 0 0 (snd (rt_proj rt_msg 0 st')) = true.
Proof.
  split; [vm_compute; reflexivity|]. split; [intros t z; apply Permutation.Permutation_refl|].
  split; [vm_compute; reflexivity|].
  eexists. eexists. split.
  - eapply rt_mrun_cons.
    { apply (rt_mstep_originate rt_msg _ _ _ [] (fun _ => 0) 0 [] 0 [] 0 5 [rt_cx_m12] [1]); [lia|intros []]. }
    eapply rt_mrun_cons.
    { apply (rt_mstep_originate rt_msg _ _ _ _ _ _ _ _ _ 1 5 [rt_cx_m12] [1]); [lia|cbn; intros [K|[]]; discriminate]. }
    cbn [app map].
    eapply rt_mrun_cons.
    { eapply (rt_mstep_deliver rt_msg _ _ _ [] (rt_tag rt_msg 0 5 rt_cx_m12) [rt_tag rt_msg 1 5 rt_cx_m12] _ _ _ _ _ 5);
        [intros y []|lia|vm_compute; reflexivity|vm_compute; reflexivity]. }
    cbn [app map rt_tev rt_tag rt_tts rt_tbody].
    eapply rt_mrun_cons.
    { eapply (rt_mstep_drop rt_msg _ _ _ [] (rt_tag rt_msg 1 5 rt_cx_m12) [] _ _ _ _ _ 5);
        [intros y []|lia|vm_compute; reflexivity]. }
    apply rt_mrun_nil.
  - vm_compute. repeat split; auto.
Qed.

(* the executable model agrees: with the code's test both events are complete and nothing is dropped, with "<=" one delivery
   is dropped and event 1 stays incomplete - also on a two-zone chain where the dropped message was the only way down *)
Example rt_multi_model_eq_ts :
  let c := [{| rt_zparent := None; rt_zglobal := false; rt_zeps := [1; 2] |};
            {| rt_zparent := Some 0; rt_zglobal := false; rt_zeps := [3; 4] |}] in
  let links := [(1, 2); (1, 3); (1, 4); (2, 3); (2, 4); (3, 4)] in
  let evs := [(0, (1, 5)); (1, (1, 5)); (2, (1, 5))] in
  let done stale e := map snd (filter (fun p => fst p =? e) (fst (fst (rt_multi_model stale c links 1 evs 5)))) in
  snd (fst (rt_multi_model rt_stale_spec c links 1 evs 5)) = 0 /\ snd (rt_multi_model rt_stale_spec c links 1 evs 5) = 0 /\
  forallb (fun e => rt_final_complete c links 1 0 (done rt_stale_spec e)) [0; 1; 2] = true /\
  forallb (fun e => length (done rt_stale_spec e) =? 4) [0; 1; 2] = true /\
  snd (rt_multi_model rt_stale_le c links 1 evs 5) = 0 /\ 0 < snd (fst (rt_multi_model rt_stale_le c links 1 evs 5)) /\
  rt_final_complete c links 1 0 (done rt_stale_le 0) = true /\
  rt_final_complete c links 1 0 (done rt_stale_le 1) = false /\
  rt_final_complete c links 1 0 (done rt_stale_le 2) = false.
Proof. vm_compute. repeat split; auto. Qed.
