(* C11 - NON-GLOBAL target zone on zone TREES of arbitrary depth and width: the target's line (the target zone and its
   ancestors), what a relay step iterates (the zones of the line that are the local zone, its parent or a direct
   child), and the structure of its send list.  Basis of RtLineSafe.v / RtLineComplete.v, which generalise the chain
   theorems (RtChain*.v) to arbitrary trees: side branches, originators anywhere. *)
From Coq Require Import List Arith Bool PeanoNat Lia Permutation.
From Icv Require Import Route.RtModel Route.RtProofs Route.RtOracleProofs Route.RtLoad Route.RtNet Route.RtChain Route.RtTree.
Import ListNotations.

(* on the line of target T: T itself or one of its ancestors *)
Definition rt_onl (c : rt_cfg) (T z : nat) : Prop := z = T \/ rt_desc c T z.
Definition rt_onlb (c : rt_cfg) (T z : nat) : bool := (z =? T) || rt_mem z (rt_all_parents c T).

Lemma rt_onlb_spec : forall c T z, rt_onlb c T z = true <-> rt_onl c T z.
Proof. intros. unfold rt_onlb, rt_onl, rt_desc. rewrite orb_true_iff, Nat.eqb_eq, rt_mem_In. tauto. Qed.

Lemma rt_onl_in : forall c T z, In z (T :: rt_all_parents c T) <-> rt_onl c T z.
Proof. intros. unfold rt_onl, rt_desc. simpl. split; intros [H|H]; auto. Qed.

Lemma rt_desc_trans : forall c, rt_forest c -> forall a b d, rt_desc c a b -> rt_desc c b d -> rt_desc c a d.
Proof.
  intros c F a. induction a as [a IH] using lt_wf_ind. intros b d H1 H2.
  pose proof H1 as H1'. unfold rt_desc in H1'. rewrite rt_all_parents_unfold in H1' by assumption.
  destruct (rt_parent c a) as [p|] eqn:E; [|contradiction]. clear H1'.
  apply (rt_desc_step c a p d F E). right.
  apply (rt_desc_step c a p b F E) in H1. destruct H1 as [H1|H1]; [subst; assumption|].
  apply (IH p (F a p E) b d H1 H2).
Qed.

Lemma rt_desc_is_parent : forall c, rt_forest c -> forall a z, rt_desc c a z -> exists w, rt_parent c w = Some z.
Proof.
  intros c F a. induction a as [a IH] using lt_wf_ind. intros z H.
  pose proof H as H'. unfold rt_desc in H'. rewrite rt_all_parents_unfold in H' by assumption.
  destruct (rt_parent c a) as [p|] eqn:E; [|contradiction]. clear H'.
  apply (rt_desc_step c a p z F E) in H. destruct H as [H|H]; [subst; eauto|]. apply (IH p (F a p E) z H).
Qed.

Lemma rt_onl_parent : forall c T Z p, rt_forest c -> rt_onl c T Z -> rt_parent c Z = Some p -> rt_onl c T p.
Proof.
  intros c T Z p F [H|H] E; right.
  - subst. apply rt_desc_child; assumption.
  - apply (rt_desc_trans_child c F T Z p H E).
Qed.

Lemma rt_onl_anc : forall c T ze zc, rt_forest c -> rt_onl c T ze -> (ze = zc \/ rt_desc c ze zc) -> rt_onl c T zc.
Proof.
  intros c T ze zc F [H|H] [K|K]; subst; unfold rt_onl; auto. right. apply (rt_desc_trans c F T ze zc H K).
Qed.

(* a zone has at most one child on the line *)
Lemma rt_line_child_unique : forall c T Z zc zc', rt_forest c -> rt_onl c T zc -> rt_onl c T zc' ->
  rt_parent c zc = Some Z -> rt_parent c zc' = Some Z -> zc = zc'.
Proof.
  intros c T Z zc zc' F H H' P P'.
  apply (rt_anc_unique_child c F T zc zc' Z); try assumption.
  - destruct H as [H|H]; auto.
  - destruct H' as [H'|H']; auto.
Qed.

Lemma rt_line_nonglobal : forall c T z, rt_tree_wf c -> rt_global c T = false -> rt_onl c T z -> rt_global c z = false.
Proof.
  intros c T z [F [Hg _]] G [H|H]; [subst; assumption|].
  destruct (rt_desc_is_parent c F T z H) as [w E]. apply (Hg w z E).
Qed.

Lemma rt_line_nodup : forall c, rt_forest c -> forall z, NoDup (z :: rt_all_parents c z).
Proof.
  intros c F z. induction z as [z IH] using lt_wf_ind. constructor.
  - intros K. apply (rt_desc_lt c F z z) in K. lia.
  - rewrite rt_all_parents_unfold by assumption. destruct (rt_parent c z) as [p|] eqn:E; [|constructor].
    apply IH. apply (F z p E).
Qed.

Lemma rt_line_one_zones : forall c lz tz, rt_global c tz = false ->
  rt_one_zones c lz tz = if rt_related c lz tz then [tz] else [].
Proof.
  intros c lz tz G. unfold rt_one_zones, rt_target_zones. rewrite G. simpl. destruct (rt_related c lz tz); reflexivity.
Qed.

Lemma rt_related_spec : forall c lz tz, rt_related c lz tz = true <->
  (tz = lz \/ rt_parent c lz = Some tz \/ rt_parent c tz = Some lz).
Proof.
  intros. unfold rt_related. rewrite !orb_true_iff, Nat.eqb_eq, !rt_oeqb_eq. tauto.
Qed.

Lemma rt_line_relay_zones_in : forall c lz T z, rt_tree_wf c -> rt_global c T = false ->
  (In z (rt_relay_zones c lz T) <->
   rt_onl c T z /\ (z = lz \/ rt_parent c lz = Some z \/ rt_parent c z = Some lz)).
Proof.
  intros c lz T z W G. unfold rt_relay_zones. rewrite in_flat_map. split.
  - intros [tz [H1 H2]]. apply rt_onl_in in H1.
    rewrite rt_line_one_zones in H2 by (eapply rt_line_nonglobal; eassumption).
    destruct (rt_related c lz tz) eqn:R; [|contradiction]. destruct H2 as [H2|[]]. subst tz.
    split; [assumption|]. apply rt_related_spec. assumption.
  - intros [H1 H2]. exists z. split; [apply rt_onl_in; assumption|].
    rewrite rt_line_one_zones by (eapply rt_line_nonglobal; eassumption).
    apply rt_related_spec in H2. rewrite H2. left. reflexivity.
Qed.

Lemma rt_line_relay_zones_nodup : forall c lz T, rt_tree_wf c -> rt_global c T = false ->
  NoDup (rt_relay_zones c lz T).
Proof.
  intros c lz T W G. unfold rt_relay_zones. pose proof W as [F _].
  apply rt_nodup_flat_map.
  - apply rt_line_nodup. assumption.
  - intros tz H. apply rt_onl_in in H. rewrite rt_line_one_zones by (eapply rt_line_nonglobal; eassumption).
    destruct (rt_related c lz tz); repeat constructor. simpl. tauto.
  - intros a b x Ha Hb Ne Xa Xb. apply rt_onl_in in Ha. apply rt_onl_in in Hb.
    rewrite rt_line_one_zones in Xa, Xb by (eapply rt_line_nonglobal; eassumption).
    destruct (rt_related c lz a); [|contradiction]. destruct (rt_related c lz b); [|contradiction].
    destruct Xa as [Xa|[]], Xb as [Xb|[]]. congruence.
Qed.

(* ---------------------------------------------------------------- the send list, any target *)
Section RtGSends.
  Variables (c : rt_cfg) (ord : nat -> list nat).
  Hypothesis Hnd : NoDup (rt_all_eps c).
  Hypothesis Hord : forall z, Permutation (ord z) (rt_eps c z).

  Lemma rt_g_sends_nodup : forall me lz conn o T log, NoDup (rt_relay_zones c lz T) ->
    NoDup (rt_sends (rt_relay c me lz conn o ord T log)).
  Proof.
    intros me lz conn o T log NZ. unfold rt_relay. simpl.
    rewrite flat_map_concat_map, map_map, <- flat_map_concat_map.
    apply rt_nodup_flat_map.
    - assumption.
    - intros z _. unfold rt_zone_loop. apply rt_loop_sends_nodup; [apply (rt_g_ord_nodup c ord Hnd Hord) | constructor | simpl; tauto].
    - intros a b x Ha Hb Ne Xa Xb.
      apply rt_zone_loop_sends in Xa. apply rt_zone_loop_sends in Xb.
      destruct Xa as [Xa _], Xb as [Xb _].
      apply (rt_g_ord_zone c ord Hnd Hord) in Xa. apply (rt_g_ord_zone c ord Hnd Hord) in Xb. congruence.
  Qed.

  Lemma rt_g_sends_single : forall me lz conn o T log e e' z,
    In e (rt_sends (rt_relay c me lz conn o ord T log)) ->
    In e' (rt_sends (rt_relay c me lz conn o ord T log)) ->
    rt_zone_of c e = Some z -> rt_zone_of c e' = Some z -> z <> lz -> e = e'.
  Proof.
    intros me lz conn o T log e e' z H H' Z Z' Ne.
    apply rt_sends_split in H. apply rt_sends_split in H'.
    destruct H as [z1 [A1 A2]]. destruct H' as [z2 [B1 B2]].
    pose proof (rt_zone_loop_sends _ _ _ _ _ _ _ _ A2) as [A3 _].
    pose proof (rt_zone_loop_sends _ _ _ _ _ _ _ _ B2) as [B3 _].
    apply (rt_g_ord_zone c ord Hnd Hord) in A3. apply (rt_g_ord_zone c ord Hnd Hord) in B3.
    assert (z1 = z) by congruence. assert (z2 = z) by congruence. subst z1 z2.
    pose proof (rt_zone_loop_single me lz (rt_master c lz me conn) conn o ord z Ne) as S.
    destruct (rt_asends (rt_zone_loop me lz (rt_master c lz me conn) conn o ord z)) as [|x [|y l]]; simpl in *; try lia; try tauto.
  Qed.
End RtGSends.

Section RtLineSends.
  Variables (c : rt_cfg) (T : nat) (ord : nat -> list nat).
  Hypothesis Hwf : rt_tree_wf c.
  Hypothesis HT : rt_global c T = false.
  Hypothesis Hord : forall z, Permutation (ord z) (rt_eps c z).

  Lemma rt_line_send : forall me lz conn o log e,
    In e (rt_sends (rt_relay c me lz conn o ord T log)) ->
    exists z, rt_zone_of c e = Some z /\ rt_onl c T z /\
              (z = lz \/ rt_parent c lz = Some z \/ rt_parent c z = Some lz) /\
              In e (rt_eps c z) /\ e <> me /\ In e conn /\ rt_ofrom o <> Some e /\ rt_ozone o <> Some z /\
              (rt_master c lz me conn = me \/ e = rt_master c lz me conn).
  Proof.
    intros me lz conn o log e H. apply rt_sends_in in H.
    destruct H as [z [Z1 [Z2 [Q1 [Q2 [Q3 [Q4 Q5]]]]]]].
    apply (rt_line_relay_zones_in c lz T z Hwf HT) in Z1. destruct Z1 as [Z1 Z3].
    exists z. split; [apply (rt_g_ord_zone c ord (rt_tree_nd c Hwf) Hord); assumption|].
    repeat split; try assumption. apply (rt_g_ord_in c ord Hord). assumption.
  Qed.
End RtLineSends.
