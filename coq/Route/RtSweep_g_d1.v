(* C11 - kernel-evaluated sweep, shard g_d1 (see RtNetProofs.v for how the shards are combined) *)
From Coq Require Import List Arith Bool.
From Icv Require Import Route.RtModel Route.RtNet Route.RtFamilies.
Import ListNotations.
Lemma rt_sweep_g_d1 : rt_sweep_g (firstn 8 (rt_fam_g 12 12)) = true.
Proof. vm_compute. reflexivity. Qed.
