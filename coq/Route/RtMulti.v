(* C11 - SEVERAL events in one network, and the receiver's "ignore old messages" test.
   Every relayed message carries ts = the relaying node's clock (ApiListener::SyncRelayMessage: Utility::GetTime()), which is
   NOT an event id: distinct events relayed within one clock tick carry the same value.  The receiver
   (JsonRpcConnection::MessageHandler) keeps, per sending endpoint, the remote log position = ts of the last message it let
   through, and drops a message that its stale test rejects BEFORE origin construction and before any handler runs; a dropped
   message is neither processed nor relayed further.
   This file: the scheduling theory of that layer, independent of what a delivery does (same style as RtSched.v).
   State = in-flight messages tagged (event, ts) in emission order, the log position per connection (receiver's record for a
   sender), the clock, the (event, endpoint) pairs that processed, the number of dropped deliveries, the events originated.
   Steps: an event originates (its first relay, stamped with the clock); a message that is the OLDEST in flight on its
   connection (a connection is a FIFO byte stream) is delivered - dropped if stale, otherwise the position moves to its ts and
   the single-event effect happens, new messages stamped with the clock.  The clock never runs backwards but need not advance.
   RtMultiProofs.v: if the stale test lets ts >= position through (the code: ts < position drops), nothing is ever dropped and
   the run restricted to ONE event is a run of the single-event relation, so every single-event theorem holds per event. *)
From Coq Require Import List Arith Bool PeanoNat.
From Icv Require Import Route.RtSched.
Import ListNotations.

Definition rt_link_eqb (a b : nat * nat) : bool := (fst a =? fst b) && (snd a =? snd b).

Section RtMulti.
  Variable M : Type.                                   (* messages of the single-event network *)
  Variable effect : M -> option (list M * list nat).   (* single-event effect of a delivery *)
  Variable mlink : M -> nat * nat.                     (* the connection a message travels on: (sender, receiver) *)
  Variable stale : nat -> nat -> bool.                 (* ts -> remote log position -> dropped? *)

  Record rt_tmsg := { rt_tev : nat; rt_tts : nat; rt_tbody : M }.

  Record rt_mst := { rt_mq : list rt_tmsg;                       (* in flight, oldest first *)
                     rt_mrlp : nat * nat -> nat;                 (* remote log position per connection *)
                     rt_mclock : nat;
                     rt_mproc : list (nat * nat);                (* (event, endpoint) that processed *)
                     rt_mdrops : nat;                            (* deliveries dropped by the stale test *)
                     rt_morig : list (nat * (list M * list nat)) (* events originated so far, with their initial state *) }.

  Definition rt_tlink (x : rt_tmsg) : nat * nat := mlink (rt_tbody x).
  Definition rt_tag (e now : nat) (m : M) : rt_tmsg := {| rt_tev := e; rt_tts := now; rt_tbody := m |}.
  Definition rt_upd (f : nat * nat -> nat) (l : nat * nat) (v : nat) : nat * nat -> nat :=
    fun l' => if rt_link_eqb l l' then v else f l'.

  (* x is the oldest in-flight message of its connection *)
  Definition rt_first_on_link (pre : list rt_tmsg) (x : rt_tmsg) : Prop :=
    forall y, In y pre -> rt_link_eqb (rt_tlink y) (rt_tlink x) = false.

  Inductive rt_mstep : rt_mst -> rt_mst -> Prop :=
  | rt_mstep_originate : forall q rlp clk P d og e now l0 p0,
      clk <= now -> ~ In e (map fst og) ->
      rt_mstep {| rt_mq := q; rt_mrlp := rlp; rt_mclock := clk; rt_mproc := P; rt_mdrops := d; rt_morig := og |}
               {| rt_mq := q ++ map (rt_tag e now) l0; rt_mrlp := rlp; rt_mclock := now;
                  rt_mproc := map (pair e) p0 ++ P; rt_mdrops := d; rt_morig := (e, (l0, p0)) :: og |}
  | rt_mstep_drop : forall pre x post rlp clk P d og now,
      rt_first_on_link pre x -> clk <= now ->
      stale (rt_tts x) (rlp (rt_tlink x)) = true ->
      rt_mstep {| rt_mq := pre ++ x :: post; rt_mrlp := rlp; rt_mclock := clk; rt_mproc := P; rt_mdrops := d; rt_morig := og |}
               {| rt_mq := pre ++ post; rt_mrlp := rlp; rt_mclock := now; rt_mproc := P; rt_mdrops := S d; rt_morig := og |}
  | rt_mstep_deliver : forall pre x post rlp clk P d og now new np,
      rt_first_on_link pre x -> clk <= now ->
      stale (rt_tts x) (rlp (rt_tlink x)) = false ->
      effect (rt_tbody x) = Some (new, np) ->
      rt_mstep {| rt_mq := pre ++ x :: post; rt_mrlp := rlp; rt_mclock := clk; rt_mproc := P; rt_mdrops := d; rt_morig := og |}
               {| rt_mq := pre ++ post ++ map (rt_tag (rt_tev x) now) new; rt_mrlp := rt_upd rlp (rt_tlink x) (rt_tts x);
                  rt_mclock := now; rt_mproc := map (pair (rt_tev x)) np ++ P; rt_mdrops := d; rt_morig := og |}.

  Inductive rt_mrun : rt_mst -> nat -> rt_mst -> Prop :=
  | rt_mrun_nil : forall st, rt_mrun st 0 st
  | rt_mrun_cons : forall st st' n st'', rt_mstep st st' -> rt_mrun st' n st'' -> rt_mrun st (S n) st''.

  Definition rt_mst0 : rt_mst :=
    {| rt_mq := []; rt_mrlp := fun _ => 0; rt_mclock := 0; rt_mproc := []; rt_mdrops := 0; rt_morig := [] |}.

  (* the run restricted to one event: a state of the single-event network *)
  Definition rt_proj (e : nat) (st : rt_mst) : list M * list nat :=
    (map rt_tbody (filter (fun x => rt_tev x =? e) (rt_mq st)),
     map snd (filter (fun p => fst p =? e) (rt_mproc st))).

  (* executable: always deliver the oldest message; the clock stands still (the worst case for equal time stamps) *)
  Fixpoint rt_mfifo (fuel : nat) (q : list rt_tmsg) (rlp : nat * nat -> nat) (now : nat) (P : list (nat * nat)) (d : nat)
    : list (nat * nat) * nat * nat :=
    match fuel with
    | 0 => (P, d, length q)
    | S f =>
        match q with
        | [] => (P, d, 0)
        | x :: rest =>
            if stale (rt_tts x) (rlp (rt_tlink x)) then rt_mfifo f rest rlp now P (S d)
            else match effect (rt_tbody x) with
                 | None => (P, d, length q)
                 | Some (new, np) =>
                     rt_mfifo f (rest ++ map (rt_tag (rt_tev x) now) new) (rt_upd rlp (rt_tlink x) (rt_tts x)) now
                              (map (pair (rt_tev x)) np ++ P) d
                 end
        end
    end.
End RtMulti.
