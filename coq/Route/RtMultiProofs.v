(* C11 - several events, equal time stamps: with a stale test that lets ts >= position through, no delivery is ever dropped
   and every event's share of a multi-event run is a run of the single-event network relation (RtSched.rt_sched_run). *)
From Coq Require Import List Arith Bool PeanoNat Lia.
From Icv Require Import Route.RtSched Route.RtMulti.
Import ListNotations.

Lemma rt_link_eqb_refl : forall a, rt_link_eqb a a = true.
Proof. intros [a b]. unfold rt_link_eqb. cbn. rewrite !Nat.eqb_refl. reflexivity. Qed.

Lemma rt_link_eqb_eq : forall a b, rt_link_eqb a b = true -> a = b.
Proof.
  intros [a1 a2] [b1 b2] H. unfold rt_link_eqb in H. cbn in H. apply andb_true_iff in H. destruct H as [H1 H2].
  apply Nat.eqb_eq in H1. apply Nat.eqb_eq in H2. subst. reflexivity.
Qed.

Lemma rt_link_eqb_sym : forall a b, rt_link_eqb a b = rt_link_eqb b a.
Proof. intros [a1 a2] [b1 b2]. unfold rt_link_eqb. cbn. rewrite (Nat.eqb_sym a1 b1), (Nat.eqb_sym a2 b2). reflexivity. Qed.

Section RtMultiProofs.
  Variable M : Type.
  Variable effect : M -> option (list M * list nat).
  Variable mlink : M -> nat * nat.
  Variable stale : nat -> nat -> bool.
  (* the code's test: only ts < position is dropped *)
  Hypothesis stale_ok : forall ts p, p <= ts -> stale ts p = false.

  Notation tmsg := (rt_tmsg M).
  Notation mst := (rt_mst M).
  Notation tlink := (rt_tlink M mlink).
  Notation mstep := (rt_mstep M effect mlink stale).
  Notation mrun := (rt_mrun M effect mlink stale).
  Notation proj := (rt_proj M).
  Notation srun := (rt_sched_run M effect).
  Notation sstep := (rt_sched_step M effect).

  (* per connection the in-flight messages carry non-decreasing time stamps, oldest first *)
  Fixpoint rt_lsorted (q : list tmsg) : Prop :=
    match q with
    | [] => True
    | x :: r => (forall y, In y r -> rt_link_eqb (tlink y) (tlink x) = true -> rt_tts M x <= rt_tts M y) /\ rt_lsorted r
    end.

  Lemma rt_lsorted_app : forall a b,
    rt_lsorted (a ++ b) <->
    rt_lsorted a /\ rt_lsorted b /\
    (forall x y, In x a -> In y b -> rt_link_eqb (tlink y) (tlink x) = true -> rt_tts M x <= rt_tts M y).
  Proof.
    induction a as [|x a IH]; intros b; cbn [app rt_lsorted].
    - split; [intros H; repeat split; auto; intros ? ? []|tauto].
    - rewrite IH. split.
      + intros [H1 [H2 [H3 H4]]]. repeat split; auto.
        * intros y Hy. apply H1. apply in_or_app. auto.
        * intros x0 y [E|Hx] Hy L; [subst x0; apply H1; [apply in_or_app; auto|assumption]|exact (H4 x0 y Hx Hy L)].
      + intros [[H1 H2] [H3 H4]]. repeat split; auto.
        * intros y Hy L. apply in_app_or in Hy. destruct Hy as [Hy|Hy]; [exact (H1 y Hy L)|apply (H4 x y); simpl; auto].
        * intros x0 y Hx Hy L. apply (H4 x0 y); simpl; auto.
  Qed.

  Record rt_minv (st : mst) : Prop := {
    rt_minv_clock : forall x, In x (rt_mq M st) -> rt_tts M x <= rt_mclock M st;
    rt_minv_pos : forall x, In x (rt_mq M st) -> rt_mrlp M st (tlink x) <= rt_tts M x;
    rt_minv_sorted : rt_lsorted (rt_mq M st);
    rt_minv_rlp : forall l, rt_mrlp M st l <= rt_mclock M st }.

  Record rt_einv (d0 : nat) (st : mst) : Prop := {
    rt_einv_drops : rt_mdrops M st = d0;
    rt_einv_nodup : NoDup (map fst (rt_morig M st));
    rt_einv_none : forall e, ~ In e (map fst (rt_morig M st)) -> proj e st = ([], []);
    rt_einv_run : forall e l0 p0, In (e, (l0, p0)) (rt_morig M st) -> exists k, srun (l0, p0) k (proj e st) }.

  Lemma rt_sched_run_snoc : forall st k st', srun st k st' -> forall np st'', sstep st' np st'' -> srun st (S k) st''.
  Proof.
    induction 1 as [st|st np0 st1 k st2 S0 R IH]; intros np st'' S.
    - eapply rt_run_cons; [exact S|apply rt_run_nil].
    - eapply rt_run_cons; [exact S0|]. eapply IH. exact S.
  Qed.

  Lemma rt_mst0_inv : rt_minv (rt_mst0 M) /\ rt_einv 0 (rt_mst0 M).
  Proof.
    split; constructor; cbn.
    - intros x [].
    - intros x [].
    - exact I.
    - intros _. apply Nat.le_refl.
    - reflexivity.
    - constructor.
    - reflexivity.
    - intros e l0 p0 [].
  Qed.

  Lemma rt_filter_tag_same : forall e now (l : list M),
    map (rt_tbody M) (filter (fun x => rt_tev M x =? e) (map (rt_tag M e now) l)) = l.
  Proof. induction l as [|m l IH]; cbn; [reflexivity|]. rewrite Nat.eqb_refl. cbn. rewrite IH. reflexivity. Qed.

  Lemma rt_filter_tag_other : forall e e' now (l : list M), e' <> e ->
    filter (fun x => rt_tev M x =? e) (map (rt_tag M e' now) l) = [].
  Proof.
    induction l as [|m l IH]; intros N; cbn; [reflexivity|].
    destruct (e' =? e) eqn:E; [apply Nat.eqb_eq in E; contradiction|]. apply IH. assumption.
  Qed.

  Lemma rt_filter_pair_same : forall e (l : list nat) ,
    map snd (filter (fun p : nat * nat => fst p =? e) (map (pair e) l)) = l.
  Proof. induction l as [|m l IH]; cbn; [reflexivity|]. rewrite Nat.eqb_refl. cbn. rewrite IH. reflexivity. Qed.

  Lemma rt_filter_pair_other : forall e e' (l : list nat), e' <> e ->
    filter (fun p : nat * nat => fst p =? e) (map (pair e') l) = [].
  Proof.
    induction l as [|m l IH]; intros N; cbn; [reflexivity|].
    destruct (e' =? e) eqn:E; [apply Nat.eqb_eq in E; contradiction|]. apply IH. assumption.
  Qed.

  (* new messages stamped with the clock go to the end of the queue *)
  Lemma rt_minv_append : forall q rlp clk now e (new : list M),
    (forall x, In x q -> rt_tts M x <= clk) -> (forall x, In x q -> rlp (tlink x) <= rt_tts M x) -> rt_lsorted q ->
    (forall l, rlp l <= now) -> clk <= now ->
    (forall x, In x (q ++ map (rt_tag M e now) new) -> rt_tts M x <= now) /\
    (forall x, In x (q ++ map (rt_tag M e now) new) -> rlp (tlink x) <= rt_tts M x) /\
    rt_lsorted (q ++ map (rt_tag M e now) new).
  Proof.
    intros q rlp clk now e new H1 H2 H3 H5 Hc.
    assert (T: forall y, In y (map (rt_tag M e now) new) -> rt_tts M y = now).
    { intros y Hy. apply in_map_iff in Hy. destruct Hy as [m [E _]]. subst y. reflexivity. }
    split; [|split].
    - intros x Hx. apply in_app_or in Hx. destruct Hx as [Hx|Hx]; [specialize (H1 x Hx); lia|rewrite (T x Hx); lia].
    - intros x Hx. apply in_app_or in Hx. destruct Hx as [Hx|Hx]; [exact (H2 x Hx)|rewrite (T x Hx); apply H5].
    - apply rt_lsorted_app. split; [assumption|]. split.
      + induction new as [|m new IH]; cbn; [exact I|]. split; [|apply IH; intros y Hy; apply T; right; assumption].
        intros y Hy _. rewrite (T y); [lia|right; assumption].
      + intros x y Hx Hy _. rewrite (T y Hy). specialize (H1 x Hx). lia.
  Qed.

  Lemma rt_mstep_inv : forall d0 st st', mstep st st' -> rt_minv st -> rt_einv d0 st -> rt_minv st' /\ rt_einv d0 st'.
  Proof.
    intros d0 st st' Hst [I1 I2 I3 I5] [E0 E1 E2 E3]. cbn in *.
    inversion Hst as [q rlp clk P d og e now l0 p0 Hc Hn
                   |pre x post rlp clk P d og now Hf Hc Hs
                   |pre x post rlp clk P d og now new np Hf Hc Hs He]; subst; cbn in *.
    - (* an event originates *)
      destruct (rt_minv_append q rlp clk now e l0 I1 I2 I3) as [A1 [A2 A3]]; [intros l; specialize (I5 l); lia|assumption|].
      split; constructor; cbn; auto.
      + intros l. specialize (I5 l). lia.
      + constructor; assumption.
      + intros e' N. unfold rt_proj. cbn. rewrite !filter_app, !map_app.
        assert (e <> e') by (intros K; apply N; left; exact K).
        rewrite rt_filter_tag_other, rt_filter_pair_other by assumption. cbn. rewrite app_nil_r.
        apply (E2 e'). intros K. apply N. right. exact K.
      + intros e' l1 p1 [K|K].
        * inversion K; subst. exists 0. unfold rt_proj. cbn. rewrite !filter_app, !map_app.
          rewrite rt_filter_tag_same, rt_filter_pair_same.
          specialize (E2 e' Hn). unfold rt_proj in E2. cbn in E2. inversion E2 as [[Q1 Q2]]. rewrite Q1, Q2.
          cbn. rewrite app_nil_r. apply rt_run_nil.
        * assert (e <> e').
          { intros K'. subst e'. apply Hn. apply in_map_iff. exists (e, (l1, p1)). split; [reflexivity|assumption]. }
          destruct (E3 e' l1 p1 K) as [k R]. exists k. unfold rt_proj in *. cbn in *. rewrite !filter_app, !map_app.
          rewrite rt_filter_tag_other, rt_filter_pair_other by assumption. cbn. rewrite app_nil_r. exact R.
    - (* dropped: impossible, the oldest message of a connection is never older than the position *)
      exfalso. rewrite stale_ok in Hs; [discriminate|]. apply I2. apply in_or_app. right. left. reflexivity.
    - (* delivered *)
      apply rt_lsorted_app in I3. destruct I3 as [S1 [S2 S3]]. cbn [rt_lsorted] in S2. destruct S2 as [S2 S4].
      assert (B1: forall y, In y (pre ++ post) -> rt_tts M y <= clk).
      { intros y Hy. apply I1. apply in_app_or in Hy. apply in_or_app. destruct Hy; [left|right; right]; assumption. }
      assert (Tx: rt_tts M x <= clk) by (apply I1; apply in_or_app; right; left; reflexivity).
      assert (B2: forall y, In y (pre ++ post) -> rt_upd rlp (tlink x) (rt_tts M x) (tlink y) <= rt_tts M y).
      { intros y Hy. unfold rt_upd. destruct (rt_link_eqb (tlink x) (tlink y)) eqn:L.
        - apply in_app_or in Hy. destruct Hy as [Hy|Hy].
          + specialize (Hf y Hy). rewrite rt_link_eqb_sym in Hf. congruence.
          + apply S2; [assumption|]. rewrite rt_link_eqb_sym. assumption.
        - apply I2. apply in_app_or in Hy. apply in_or_app. destruct Hy; [left|right; right]; assumption. }
      assert (B3: rt_lsorted (pre ++ post)).
      { apply rt_lsorted_app. split; [assumption|]. split; [assumption|].
        intros a b Ha Hb L. apply (S3 a b Ha); [right; assumption|assumption]. }
      assert (B5: forall l, rt_upd rlp (tlink x) (rt_tts M x) l <= now).
      { intros l. unfold rt_upd. destruct (rt_link_eqb (tlink x) l); [lia|specialize (I5 l); lia]. }
      destruct (rt_minv_append (pre ++ post) (rt_upd rlp (tlink x) (rt_tts M x)) clk now (rt_tev M x) new B1 B2 B3 B5 Hc)
        as [A1 [A2 A3]].
      rewrite <- app_assoc in A1, A2, A3.
      split; constructor; cbn; auto.
      + intros e' N. specialize (E2 e' N). unfold rt_proj in *. cbn in *.
        rewrite !filter_app, !map_app in *. cbn [filter] in E2.
        destruct (rt_tev M x =? e') eqn:Ee.
        * cbn in E2. inversion E2 as [[Q1 Q2]]. apply app_eq_nil in Q1. destruct Q1 as [_ Q1]. discriminate.
        * apply Nat.eqb_neq in Ee. rewrite rt_filter_tag_other, rt_filter_pair_other by assumption.
          cbn. rewrite app_nil_r. exact E2.
      + intros e' l1 p1 K. destruct (E3 e' l1 p1 K) as [k R]. unfold rt_proj in *. cbn in *.
        rewrite !filter_app, !map_app in *. cbn [filter] in R.
        destruct (rt_tev M x =? e') eqn:Ee.
        * apply Nat.eqb_eq in Ee. subst e'. exists (S k). rewrite rt_filter_tag_same, rt_filter_pair_same.
          cbn [map] in R. eapply rt_sched_run_snoc; [exact R|].
          apply (rt_sched_deliver M effect _ (rt_tbody M x) _ _ new np He).
        * apply Nat.eqb_neq in Ee. exists k. rewrite rt_filter_tag_other, rt_filter_pair_other by assumption.
          cbn. rewrite app_nil_r. exact R.
  Qed.

  (* MAIN (generic): from any state that satisfies the invariants - in particular from the empty network - every run, with
     every interleaving of originations and deliveries, every clock that does not run backwards (it may stand still: equal
     time stamps) and per-connection FIFO delivery: no delivery is dropped, and for every event that originated, its share of
     the run is a run of the single-event relation from that event's originating relay *)
  Theorem rt_multi_no_loss : forall d0 st n st', mrun st n st' -> rt_minv st -> rt_einv d0 st ->
    rt_minv st' /\ rt_mdrops M st' = d0 /\
    forall e l0 p0, In (e, (l0, p0)) (rt_morig M st') -> exists k, srun (l0, p0) k (proj e st').
  Proof.
    intros d0 st n st' R. induction R as [st|st st1 n st2 S R IH]; intros I E.
    - split; [assumption|]. split; [apply (rt_einv_drops _ _ E)|apply (rt_einv_run _ _ E)].
    - destruct (rt_mstep_inv d0 st st1 S I E) as [I' E']. apply IH; assumption.
  Qed.

  (* nothing of an event in flight in the whole network = nothing in flight in its share *)
  Lemma rt_proj_quiescent : forall e st, rt_mq M st = [] -> fst (proj e st) = [].
  Proof. intros e st H. unfold rt_proj. rewrite H. reflexivity. Qed.
End RtMultiProofs.
