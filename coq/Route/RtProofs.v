(* C11 - proofs about one relay step (all configurations, all views, all iteration orders). *)
From Coq Require Import List Arith Bool PeanoNat Lia.
From Icv Require Import Route.RtModel.
Import ListNotations.

Lemma rt_mem_In : forall x l, rt_mem x l = true <-> In x l.
Proof.
  unfold rt_mem. intros. rewrite existsb_exists. split.
  - intros [y [H1 H2]]. apply Nat.eqb_eq in H2. subst. assumption.
  - intros H. exists x. split; [assumption | apply Nat.eqb_refl].
Qed.

Lemma rt_oeqb_eq : forall a b, rt_oeqb a b = true <-> a = b.
Proof.
  destruct a, b; simpl; split; intros H; try discriminate; try reflexivity.
  - apply Nat.eqb_eq in H. subst. reflexivity.
  - inversion H. apply Nat.eqb_refl.
Qed.

Lemma rt_oeqb_neq : forall a b, rt_oeqb a b = false <-> a <> b.
Proof.
  intros. split.
  - intros H E. apply rt_oeqb_eq in E. congruence.
  - intros H. destruct (rt_oeqb a b) eqn:E; [apply rt_oeqb_eq in E; contradiction | reflexivity].
Qed.

(* ------------------------------------------------------------------ *)
(* what justifies a single SyncSendMessage inside the loop over zone cz *)
Definition rt_send_cond (me lz master : nat) (conn : list nat) (o : rt_origin) (cz e : nat) : Prop :=
  e <> me /\ In e conn /\ rt_ofrom o <> Some e /\ rt_ozone o <> Some cz /\ (master = me \/ e = master).

Lemma rt_ep_step_sends : forall me lz master conn o cz a te e,
  In e (rt_asends (rt_ep_step me lz master conn o cz a te)) ->
  In e (rt_asends a) \/ (e = te /\ rt_send_cond me lz master conn o cz e /\
                         (rt_relayed a = false \/ cz = lz)).
Proof.
  intros me lz master conn o cz a te e. unfold rt_ep_step.
  destruct (te =? me) eqn:Eme; [auto|].
  destruct (rt_mem te conn) eqn:Ec; simpl.
  2:{ destruct (cz =? lz); simpl; auto. }
  destruct (rt_relayed a && negb (cz =? lz)) eqn:Er; simpl; [auto|].
  destruct (rt_oeqb (rt_ofrom o) (Some te)) eqn:Eo; simpl; [auto|].
  destruct (rt_oeqb (rt_ozone o) (Some cz)) eqn:Ez; simpl; [auto|].
  destruct (negb (master =? me) && negb (te =? master)) eqn:Em; simpl; [auto|].
  intros [H|H]; [|auto]. subst te. right. split; [reflexivity|]. split.
  - unfold rt_send_cond. apply Nat.eqb_neq in Eme. apply rt_mem_In in Ec.
    apply rt_oeqb_neq in Eo. apply rt_oeqb_neq in Ez.
    repeat split; try assumption.
    apply andb_false_iff in Em. destruct Em as [Em|Em]; apply negb_false_iff in Em; apply Nat.eqb_eq in Em; auto.
  - apply andb_false_iff in Er. destruct Er as [Er|Er]; [auto|].
    apply negb_false_iff in Er. apply Nat.eqb_eq in Er. auto.
Qed.

Lemma rt_loop_sends : forall me lz master conn o cz l a e,
  In e (rt_asends (fold_left (rt_ep_step me lz master conn o cz) l a)) ->
  In e (rt_asends a) \/ (In e l /\ rt_send_cond me lz master conn o cz e).
Proof.
  induction l as [|te l IH]; simpl; intros a e H; [auto|].
  apply IH in H. destruct H as [H|[H1 H2]].
  - apply rt_ep_step_sends in H. destruct H as [H|[H1 [H2 _]]]; [auto|]. subst. right. auto.
  - right. auto.
Qed.

(* every send of the loop over zone cz *)
Lemma rt_zone_loop_sends : forall me lz master conn o ord cz e,
  In e (rt_asends (rt_zone_loop me lz master conn o ord cz)) ->
  In e (ord cz) /\ rt_send_cond me lz master conn o cz e.
Proof.
  unfold rt_zone_loop. intros. apply rt_loop_sends in H. simpl in H. destruct H as [[]|H]. assumption.
Qed.

(* ------------------------------------------------------------------ *)
(* which zones a relay step iterates *)
Lemma rt_children_spec : forall c lz z, In z (rt_children c lz) <-> (z < length c /\ rt_parent c z = Some lz).
Proof.
  unfold rt_children. intros. rewrite filter_In, in_seq, rt_oeqb_eq. simpl. split; intros [H1 H2]; split; try assumption; lia.
Qed.

(* the zone is the local zone, its parent, or one of its direct children *)
Definition rt_directly_related (c : rt_cfg) (lz z : nat) : Prop :=
  z = lz \/ rt_parent c lz = Some z \/ rt_parent c z = Some lz.

(* entitlement of zone z for an event about an object in zone [target], as seen from local zone lz *)
Definition rt_entitled (c : rt_cfg) (lz target z : nat) : Prop :=
  exists tz, In tz (target :: rt_all_parents c target) /\
    ((rt_global c tz = true /\ (z = lz \/ rt_parent c z = Some lz)) \/
     (rt_global c tz = false /\ z = tz)).

Lemma rt_one_zones_spec : forall c lz tz z,
  In z (rt_one_zones c lz tz) ->
  rt_directly_related c lz z /\
  ((rt_global c tz = true /\ (z = lz \/ rt_parent c z = Some lz)) \/ (rt_global c tz = false /\ z = tz)).
Proof.
  unfold rt_one_zones, rt_target_zones. intros c lz tz z.
  destruct (rt_global c tz) eqn:G; simpl.
  - intros [H|H].
    + subst. split; [left; reflexivity | left; auto].
    + apply rt_children_spec in H. destruct H as [_ H]. split; [right; right; assumption | left; auto].
  - destruct (rt_related c lz tz) eqn:R; simpl; [|tauto].
    intros [H|[]]. subst z. split; [|right; auto].
    unfold rt_related in R. apply orb_true_iff in R. destruct R as [R|R].
    + apply orb_true_iff in R. destruct R as [R|R].
      * apply Nat.eqb_eq in R. left. assumption.
      * apply rt_oeqb_eq in R. right. left. assumption.
    + apply rt_oeqb_eq in R. right. right. assumption.
Qed.

Lemma rt_relay_zones_spec : forall c lz target z,
  In z (rt_relay_zones c lz target) -> rt_directly_related c lz z /\ rt_entitled c lz target z.
Proof.
  unfold rt_relay_zones. intros c lz target z H. apply in_flat_map in H. destruct H as [tz [H1 H2]].
  apply rt_one_zones_spec in H2. destruct H2 as [H2 H3]. split; [assumption|]. exists tz. auto.
Qed.

(* ------------------------------------------------------------------ *)
(* C11_entitled: every send of one SyncRelayMessage *)
Theorem rt_entitled_sends : forall c me lz conn o ord target log e,
  In e (rt_sends (rt_relay c me lz conn o ord target log)) ->
  exists z, In e (ord z) /\ rt_entitled c lz target z /\ rt_directly_related c lz z /\
            e <> me /\ In e conn /\ rt_ofrom o <> Some e /\ rt_ozone o <> Some z /\
            (rt_master c lz me conn = me \/ e = rt_master c lz me conn).
Proof.
  unfold rt_relay. simpl. intros c me lz conn o ord target log e H.
  apply in_flat_map in H. destruct H as [a [H1 H2]].
  apply in_map_iff in H1. destruct H1 as [z [H1 H3]]. subst a.
  apply rt_zone_loop_sends in H2. destruct H2 as [H2 [Q1 [Q2 [Q3 [Q4 Q5]]]]].
  apply rt_relay_zones_spec in H3. destruct H3 as [H3 H4].
  exists z. repeat split; assumption.
Qed.

(* the chain of the target: the zone itself and its ancestors *)
Definition rt_on_chain (c : rt_cfg) (target z : nat) : Prop := In z (target :: rt_all_parents c target).

(* C11_reduction: for a non-global target whose ancestors are not global, nothing is sent into a
   zone off the chain, whatever the rest of the tree looks like *)
Theorem rt_reduction : forall c me lz conn o ord target log e,
  (forall tz, rt_on_chain c target tz -> rt_global c tz = false) ->
  In e (rt_sends (rt_relay c me lz conn o ord target log)) ->
  exists z, In e (ord z) /\ rt_on_chain c target z.
Proof.
  intros c me lz conn o ord target log e NG H. apply rt_entitled_sends in H.
  destruct H as [z [H1 [[tz [T1 T2]] _]]]. exists z. split; [assumption|].
  destruct T2 as [[G _]|[_ E]].
  - rewrite NG in G by assumption. discriminate.
  - subst. assumption.
Qed.

(* ------------------------------------------------------------------ *)
(* a foreign zone is entered through at most one endpoint per loop *)
Lemma rt_ep_step_single : forall me lz master conn o cz a te,
  cz <> lz ->
  (rt_relayed a = false -> rt_asends a = []) -> length (rt_asends a) <= 1 ->
  let r := rt_ep_step me lz master conn o cz a te in
  (rt_relayed r = false -> rt_asends r = []) /\ length (rt_asends r) <= 1.
Proof.
  intros me lz master conn o cz a te Hz H1 H2. unfold rt_ep_step.
  assert (E: (cz =? lz) = false) by (apply Nat.eqb_neq; assumption). rewrite E. simpl.
  destruct (te =? me); [auto|].
  destruct (rt_mem te conn); simpl; [|auto].
  rewrite andb_true_r.
  destruct (rt_relayed a) eqn:R; simpl; [auto|].
  destruct (rt_oeqb (rt_ofrom o) (Some te)); simpl; [auto|].
  destruct (rt_oeqb (rt_ozone o) (Some cz)); simpl; [auto|].
  destruct (negb (master =? me) && negb (te =? master)); simpl; [auto|].
  split; [discriminate|]. rewrite H1 by reflexivity. simpl. lia.
Qed.

Lemma rt_loop_single : forall me lz master conn o cz l a,
  cz <> lz ->
  (rt_relayed a = false -> rt_asends a = []) -> length (rt_asends a) <= 1 ->
  let r := fold_left (rt_ep_step me lz master conn o cz) l a in
  (rt_relayed r = false -> rt_asends r = []) /\ length (rt_asends r) <= 1.
Proof.
  induction l as [|te l IH]; simpl; intros a Hz H1 H2; [auto|].
  destruct (rt_ep_step_single me lz master conn o cz a te Hz H1 H2) as [K1 K2].
  apply IH; assumption.
Qed.

Theorem rt_zone_loop_single : forall me lz master conn o ord cz,
  cz <> lz -> length (rt_asends (rt_zone_loop me lz master conn o ord cz)) <= 1.
Proof.
  intros. unfold rt_zone_loop. apply rt_loop_single; simpl; auto.
Qed.

(* ------------------------------------------------------------------ *)
(* the log flags at the end of the loop *)
Definition rt_peer (me e : nat) : bool := negb (e =? me).

Lemma rt_loop_log : forall me lz master conn o cz l a,
  let r := fold_left (rt_ep_step me lz master conn o cz) l a in
  rt_logneeded r = rt_logneeded a || existsb (rt_peer me) l /\
  rt_logdone r =
    (if cz =? lz
     then fold_left (fun d e => if e =? me then d else rt_mem e conn) l (rt_logdone a)
     else rt_logdone a || existsb (fun e => rt_peer me e && rt_mem e conn) l).
Proof.
  induction l as [|te l IH]; simpl; intros a.
  - rewrite !orb_false_r. destruct (cz =? lz); auto.
  - specialize (IH (rt_ep_step me lz master conn o cz a te)). simpl in IH. destruct IH as [IH1 IH2].
    rewrite IH1, IH2. clear IH1 IH2. unfold rt_ep_step, rt_peer.
    destruct (te =? me) eqn:Eme; simpl.
    { split; [reflexivity|]. destruct (cz =? lz); reflexivity. }
    destruct (rt_mem te conn) eqn:Ec; simpl.
    2:{ destruct (cz =? lz) eqn:Ez; simpl; rewrite ?Ez, ?orb_true_r, ?orb_false_r; split; reflexivity. }
    assert (forall x : rt_acc, rt_logneeded x = true -> rt_logdone x = true ->
      (rt_logneeded x || existsb (fun e => negb (e =? me)) l = rt_logneeded a || true) /\
      (if cz =? lz then fold_left (fun d e => if e =? me then d else rt_mem e conn) l (rt_logdone x)
       else rt_logdone x || existsb (fun e => negb (e =? me) && rt_mem e conn) l) =
      (if cz =? lz then fold_left (fun d e => if e =? me then d else rt_mem e conn) l true
       else rt_logdone a || (true || existsb (fun e => negb (e =? me) && rt_mem e conn) l))) as K.
    { intros x X1 X2. rewrite X1, X2. simpl. rewrite !orb_true_r. split; [reflexivity|].
      destruct (cz =? lz); reflexivity. }
    destruct (rt_relayed a && negb (cz =? lz)); [apply K; reflexivity|].
    destruct (rt_oeqb (rt_ofrom o) (Some te)); [apply K; reflexivity|].
    destruct (rt_oeqb (rt_ozone o) (Some cz)); [apply K; reflexivity|].
    destruct (negb (master =? me) && negb (te =? master)); apply K; reflexivity.
Qed.

(* "no endpoint of that zone other than ourselves is connected, and there is one" *)
Definition rt_unreachable (me : nat) (conn : list nat) (l : list nat) : bool :=
  existsb (rt_peer me) l && negb (existsb (fun e => rt_peer me e && rt_mem e conn) l).

Lemma rt_fold_last_le1 : forall me conn l d,
  length (filter (rt_peer me) l) <= 1 ->
  fold_left (fun d e => if e =? me then d else rt_mem e conn) l d =
  if existsb (rt_peer me) l then existsb (fun e => rt_peer me e && rt_mem e conn) l else d.
Proof.
  induction l as [|e l IH]; simpl; intros d H; [reflexivity|].
  unfold rt_peer in *. destruct (e =? me) eqn:E; simpl in *.
  - apply IH. assumption.
  - assert (L: length (filter (fun e0 => negb (e0 =? me)) l) <= 1) by lia.
    rewrite IH by assumption.
    destruct (existsb (fun e0 => negb (e0 =? me)) l) eqn:X.
    + exfalso. apply existsb_exists in X. destruct X as [x [X1 X2]].
      assert (In x (filter (fun e0 => negb (e0 =? me)) l)) by (apply filter_In; auto).
      destruct (filter (fun e0 => negb (e0 =? me)) l); simpl in *; [contradiction | lia].
    + assert (existsb (fun e0 => negb (e0 =? me) && rt_mem e0 conn) l = false) as Y.
      { apply not_true_is_false. intros Y. apply existsb_exists in Y. destruct Y as [x [Y1 Y2]].
        apply andb_true_iff in Y2. destruct Y2 as [Y2 _].
        assert (existsb (fun e0 => negb (e0 =? me)) l = true) by (apply existsb_exists; eauto). congruence. }
      rewrite Y, orb_false_r. reflexivity.
Qed.

Lemma rt_zone_loop_replay : forall me lz master conn o ord cz,
  (cz = lz -> length (filter (rt_peer me) (ord lz)) <= 1) ->
  rt_needs_replay (rt_zone_loop me lz master conn o ord cz) = rt_unreachable me conn (ord cz).
Proof.
  intros me lz master conn o ord cz H. unfold rt_needs_replay, rt_zone_loop, rt_unreachable.
  destruct (rt_loop_log me lz master conn o cz (ord cz) rt_acc0) as [L1 L2]. rewrite L1, L2. simpl.
  destruct (cz =? lz) eqn:E; [|reflexivity].
  apply Nat.eqb_eq in E. subst cz. rewrite rt_fold_last_le1 by auto.
  destruct (existsb (rt_peer me) (ord lz)); reflexivity.
Qed.

(* C11_log: the persist decision of one SyncRelayMessage *)
Theorem rt_log_char : forall c me lz conn o ord target log,
  length (filter (rt_peer me) (ord lz)) <= 1 ->
  rt_persist (rt_relay c me lz conn o ord target log) =
  log && existsb (fun z => rt_unreachable me conn (ord z)) (rt_relay_zones c lz target).
Proof.
  intros c me lz conn o ord target log H. unfold rt_relay. simpl. f_equal.
  induction (rt_relay_zones c lz target) as [|z l IH]; simpl; [reflexivity|].
  rewrite IH. f_equal. apply rt_zone_loop_replay. intros _. assumption.
Qed.

(* the bound of rt_log_char is tight: with two other endpoints in the local zone, one connected and one not,
   the persist decision depends on the iteration order (log_done is whatever the LAST iterated peer says) *)
Lemma rt_log_three_endpoints_order_dependent :
  let c := [{| rt_zparent := None; rt_zglobal := false; rt_zeps := [1; 2; 3] |}] in
  rt_persist (rt_relay c 1 0 [3] rt_no_origin (fun _ => [1; 2; 3]) 0 true) = false /\
  rt_persist (rt_relay c 1 0 [3] rt_no_origin (fun _ => [1; 3; 2]) 0 true) = true.
Proof. split; reflexivity. Qed.
