(* C11 - the network-level check accepts every complete run of the model's network relation (any schedule, any
   per-node iteration order, any link set, any originator) on every well-formed zone forest and every target. *)
From Coq Require Import List Arith Bool PeanoNat Lia.
From Icv Require Import Route.RtModel Route.RtProofs Route.RtObs Route.RtOracleProofs Route.RtNet Route.RtSched Route.RtNetSound
     Route.RtChain Route.RtChainSafe Route.RtChainComplete Route.RtTree Route.RtTreeSafe Route.RtTreeComplete
     Route.RtLine Route.RtLineSafe Route.RtLineComplete Route.RtNetObs.
Import ListNotations.

Lemma rt_NoDup_nodup_b : forall l, NoDup l -> rt_nodup_b l = true.
Proof.
  induction l as [|x l IH]; simpl; intros N; [reflexivity|]. inversion N; subst.
  apply andb_true_iff. split; [|apply IH; assumption].
  apply negb_true_iff. apply not_true_is_false. intros K. apply rt_mem_In in K. contradiction.
Qed.

Theorem rt_net_oracle_accepts : forall c links target s lz nord k st',
  rt_zone_of c s = Some lz -> rt_nord_ok c nord ->
  rt_sched_run rt_msg (rt_effect c links target nord) (rt_init c links target nord s lz) k st' ->
  fst st' = [] ->
  rt_net_oracle c links target s k (snd st') = 0.
Proof.
  intros c links target s lz nord k st' E Hn R F. unfold rt_net_oracle.
  destruct (rt_net_pre_b c target) eqn:Pre; cbn [negb]; [|reflexivity]. rewrite E.
  unfold rt_net_pre_b in Pre. apply andb_true_iff in Pre. destruct Pre as [W _]. apply rt_tree_wf_b_spec in W.
  assert (NoDup (snd st') /\ k < length (flat_map rt_zeps c) /\ rt_final_complete c links target lz (snd st') = true) as [A [B C]].
  { destruct (rt_global c target) eqn:G.
    - destruct (rt_tree_finite_once c links target nord W G Hn s lz E k st' R) as [K1 [_ [[_ K2] _]]].
      split; [|split].
      + apply rt_nodup_app_inv in K2. tauto.
      + rewrite <- rt_all_eps_zeps. assumption.
      + exact (rt_tree_complete c links target nord s lz W G Hn E k st' R F).
    - destruct (rt_line_finite_once c links target nord W G Hn s lz E k st' R) as [K1 [_ [[_ K2] _]]].
      split; [|split].
      + apply rt_nodup_app_inv in K2. tauto.
      + rewrite <- rt_all_eps_zeps. assumption.
      + exact (rt_line_complete c links target nord s lz W G Hn E k st' R F). }
  rewrite (rt_NoDup_nodup_b _ A). cbn [negb].
  apply Nat.ltb_lt in B. rewrite B. cbn [negb]. rewrite C. reflexivity.
Qed.
