(* C11 - NON-GLOBAL target zone on zone trees of ARBITRARY depth and width, safety half: finitely many deliveries
   (explicit measure), no endpoint processes the event twice - every tree (rt_tree_wf), every non-global target, every
   link set, every originator (on the target's line, below it, in a side branch), every per-node iteration order,
   every schedule.  Generalises RtChainSafe.v: the future set of a message = the receiver and (if it forwards) the
   region of its relay: the zone peer, the proper ancestors of its zone unless the event came from the parent zone, the
   zones of the target's line below its zone unless the event came from the line child. *)
From Coq Require Import List Arith Bool PeanoNat Lia Permutation.
From Icv Require Import Route.RtModel Route.RtProofs Route.RtOracleProofs Route.RtStepLemmas Route.RtLoad Route.RtNet
     Route.RtSched Route.RtNetSound Route.RtInv Route.RtChain Route.RtChainSafe Route.RtTree Route.RtTreeSafe Route.RtLine.
Import ListNotations.

(* the event did not come from the child of Z that lies on the target's line *)
Definition rt_ldownok (c : rt_cfg) (T Z : nat) (oz : option nat) : Prop :=
  forall zc, oz = Some zc -> ~ (rt_parent c zc = Some Z /\ rt_onl c T zc).
Definition rt_ldownokb (c : rt_cfg) (T Z : nat) (oz : option nat) : bool :=
  match oz with
  | None => true
  | Some zc => negb (rt_oeqb (rt_parent c zc) (Some Z) && rt_onlb c T zc)
  end.
Lemma rt_ldownokb_spec : forall c T Z oz, rt_ldownokb c T Z oz = true <-> rt_ldownok c T Z oz.
Proof.
  intros c T Z oz. unfold rt_ldownokb, rt_ldownok. destruct oz as [zc|].
  - rewrite negb_true_iff, andb_false_iff. split.
    + intros H zc' E [P O]. inversion E. subst zc'. destruct H as [H|H].
      * apply rt_oeqb_neq in H. contradiction.
      * apply rt_onlb_spec in O. congruence.
    + intros H. destruct (rt_oeqb (rt_parent c zc) (Some Z)) eqn:A; [|auto]. right.
      destruct (rt_onlb c T zc) eqn:B; [|reflexivity]. exfalso. apply (H zc eq_refl).
      split; [apply rt_oeqb_eq; assumption | apply rt_onlb_spec; assumption].
  - split; [intros _ zc E; discriminate | reflexivity].
Qed.

Definition rt_lregionP (c : rt_cfg) (T t Z : nat) (o : rt_origin) (e : nat) : Prop :=
  exists ze, rt_zone_of c e = Some ze /\ e <> t /\
    ((ze = Z /\ rt_ofrom o <> Some e) \/
     (rt_desc c Z ze /\ rt_ozone o <> rt_parent c Z) \/
     (rt_onl c T ze /\ rt_desc c ze Z /\ rt_ldownok c T Z (rt_ozone o))).

Definition rt_lregionb (c : rt_cfg) (T t Z : nat) (o : rt_origin) (e : nat) : bool :=
  match rt_zone_of c e with
  | None => false
  | Some ze => negb (e =? t) &&
      (((ze =? Z) && negb (rt_oeqb (rt_ofrom o) (Some e))) ||
       (rt_mem ze (rt_all_parents c Z) && negb (rt_oeqb (rt_ozone o) (rt_parent c Z))) ||
       (rt_onlb c T ze && rt_mem Z (rt_all_parents c ze) && rt_ldownokb c T Z (rt_ozone o)))
  end.

Lemma rt_lregionb_spec : forall c T t Z o e, rt_lregionb c T t Z o e = true <-> rt_lregionP c T t Z o e.
Proof.
  intros c T t Z o e. unfold rt_lregionb, rt_lregionP, rt_desc. destruct (rt_zone_of c e) as [ze|].
  - rewrite andb_true_iff, !orb_true_iff, !andb_true_iff, !negb_true_iff, Nat.eqb_neq, Nat.eqb_eq,
      !rt_oeqb_neq, !rt_mem_In, rt_onlb_spec, rt_ldownokb_spec.
    split.
    + intros [H1 H2]. exists ze. split; [reflexivity|]. split; [assumption|]. tauto.
    + intros [ze' [E [H1 H2]]]. inversion E. subst ze'. tauto.
  - split; [discriminate|]. intros [ze [E _]]. discriminate.
Qed.

Section RtLineFut.
  Variables (c : rt_cfg) (links : list (nat * nat)) (T : nat).

  Definition rt_lfutP (m : rt_msg) (e : nat) : Prop :=
    exists Zf Z, rt_zone_of c (rt_mfrom m) = Some Zf /\ rt_zone_of c (rt_mto m) = Some Z /\
      (e = rt_mto m \/
       ((Zf <> Z \/ rt_master c Z (rt_mto m) (rt_view links (rt_mto m)) = rt_mto m) /\
        rt_lregionP c T (rt_mto m) Z (rt_recv_origin c Z (Some (rt_mfrom m)) (rt_moz m)) e)).

  Definition rt_lfutb (m : rt_msg) (e : nat) : bool :=
    match rt_zone_of c (rt_mfrom m), rt_zone_of c (rt_mto m) with
    | Some Zf, Some Z =>
        (e =? rt_mto m) ||
        ((negb (Zf =? Z) || (rt_master c Z (rt_mto m) (rt_view links (rt_mto m)) =? rt_mto m)) &&
         rt_lregionb c T (rt_mto m) Z (rt_recv_origin c Z (Some (rt_mfrom m)) (rt_moz m)) e)
    | _, _ => false
    end.

  Lemma rt_lfutb_spec : forall m e, rt_lfutb m e = true <-> rt_lfutP m e.
  Proof.
    intros m e. unfold rt_lfutb, rt_lfutP.
    destruct (rt_zone_of c (rt_mfrom m)) as [Zf|]; [|split; [discriminate | intros [? [? [E _]]]; discriminate]].
    destruct (rt_zone_of c (rt_mto m)) as [Z|]; [|split; [discriminate | intros [? [? [_ [E _]]]]; discriminate]].
    rewrite orb_true_iff, andb_true_iff, orb_true_iff, negb_true_iff, Nat.eqb_neq, !Nat.eqb_eq, rt_lregionb_spec.
    split.
    - intros H. exists Zf, Z. auto.
    - intros [Zf' [Z' [E1 [E2 H]]]]. inversion E1. inversion E2. subst. assumption.
  Qed.

  Definition rt_lfut (m : rt_msg) : list nat := filter (rt_lfutb m) (rt_all_eps c).

  Lemma rt_lfut_in : forall m e, In e (rt_lfut m) <-> rt_lfutP m e.
  Proof.
    intros m e. unfold rt_lfut. rewrite filter_In, rt_lfutb_spec. split; [tauto|]. intros H. split; [|assumption].
    apply rt_all_eps_in. destruct H as [Zf [Z [E1 [E2 [H|[_ [ze [H _]]]]]]]]; [subst; eauto | eauto].
  Qed.

  Lemma rt_lfut_nodup : forall m, NoDup (rt_all_eps c) -> NoDup (rt_lfut m).
  Proof. intros m ND. unfold rt_lfut. apply NoDup_filter. assumption. Qed.

  (* well-formed in-flight message: the receiver's zone is on the target's line; inside a zone between two different
     endpoints that see each other, or between a zone and its parent (either direction) *)
  Definition rt_lmwf (m : rt_msg) : Prop :=
    exists Zf Z, rt_zone_of c (rt_mfrom m) = Some Zf /\ rt_zone_of c (rt_mto m) = Some Z /\ rt_onl c T Z /\
      ((Zf = Z /\ rt_mfrom m <> rt_mto m /\ In (rt_mfrom m) (rt_view links (rt_mto m))) \/
       rt_parent c Zf = Some Z \/ rt_parent c Z = Some Zf).

  Lemma rt_lmwf_fut_self : forall m, rt_lmwf m -> In (rt_mto m) (rt_lfut m).
  Proof. intros m [Zf [Z [E1 [E2 _]]]]. apply rt_lfut_in. exists Zf, Z. auto. Qed.
End RtLineFut.

Section RtLineRelay.
  Variables (c : rt_cfg) (links : list (nat * nat)) (T : nat) (nord : nat -> nat -> list nat).
  Hypothesis Hwf : rt_tree_wf c.
  Hypothesis HT : rt_global c T = false.
  Hypothesis Hnord : rt_nord_ok c nord.

  Variables (t Z : nat) (o : rt_origin).
  Hypothesis Ht : rt_zone_of c t = Some Z.

  Local Notation sends := (rt_sends (rt_relay c t Z (rt_view links t) o (nord t) T true)).
  Local Notation mk := (fun x : nat => {| rt_mfrom := t; rt_mto := x; rt_moz := rt_ozone o |}).

  Lemma rt_line_sendx : forall x, In x sends ->
    exists zx, rt_zone_of c x = Some zx /\ rt_onl c T zx /\
               (zx = Z \/ rt_parent c Z = Some zx \/ rt_parent c zx = Some Z) /\
               In x (rt_eps c zx) /\ x <> t /\ In x (rt_view links t) /\ rt_ofrom o <> Some x /\
               rt_ozone o <> Some zx /\
               (rt_master c Z t (rt_view links t) = t \/ x = rt_master c Z t (rt_view links t)).
  Proof.
    intros x H. exact (rt_line_send c T (nord t) Hwf HT (Hnord t) t Z (rt_view links t) o true x H).
  Qed.

  Lemma rt_lcross_sender_master : forall x zx, In x sends -> rt_zone_of c x = Some zx -> zx <> Z ->
    rt_master c Z t (rt_view links t) = t.
  Proof.
    intros x zx H E Ne. destruct (rt_line_sendx x H) as [zx' [E' [_ [_ [_ [Nx [_ [_ [_ M]]]]]]]]].
    destruct M as [M|M]; [assumption|].
    destruct (rt_master_cases c Z t (rt_view links t)) as [[K|[K _]] _]; [assumption|].
    exfalso. destruct (rt_zone_of_some c t Z Ht) as [LZ _].
    rewrite <- M in K. apply (rt_zone_of_in c x Z (rt_tree_nd c Hwf) LZ) in K. congruence.
  Qed.

  Lemma rt_lintra_agree : forall x, In x sends -> rt_zone_of c x = Some Z ->
    rt_master c Z x (rt_view links x) = rt_master c Z t (rt_view links t).
  Proof.
    intros x H E. destruct (rt_line_sendx x H) as [zx [_ [_ [_ [_ [Nx [V _]]]]]]].
    destruct (rt_zone_of_some c t Z Ht) as [LZ InZ].
    symmetry. apply rt_master_agree; try assumption.
    - intros e He. apply (rt_zone_of_in c e Z (rt_tree_nd c Hwf) LZ) in He. apply (rt_tree_two c Hwf Z t x e); try assumption. auto.
    - apply rt_zone_of_some in E. tauto.
  Qed.

  Lemma rt_lfutP_new : forall x zx e, rt_zone_of c x = Some zx ->
    (rt_lfutP c links T (mk x) e <->
     e = x \/ ((Z <> zx \/ rt_master c zx x (rt_view links x) = x) /\
               rt_lregionP c T x zx {| rt_ofrom := Some t; rt_ozone := if Z =? zx then rt_ozone o else Some Z |} e)).
  Proof.
    intros x zx e E. unfold rt_lfutP. cbn [rt_mfrom rt_mto rt_moz].
    assert (rt_recv_origin c zx (Some t) (rt_ozone o) =
            {| rt_ofrom := Some t; rt_ozone := if Z =? zx then rt_ozone o else Some Z |}) as R.
    { unfold rt_recv_origin. rewrite Ht. simpl. destruct (Z =? zx); reflexivity. }
    split.
    - intros [Zf [Z' [E1 [E2 H]]]]. rewrite Ht in E1. rewrite E in E2. inversion E1. inversion E2. subst Zf Z'.
      rewrite R in H. assumption.
    - intros H. exists Z, zx. rewrite R. auto.
  Qed.

  Lemma rt_relay_new_lwf : forall x, In x sends -> rt_lmwf c links T (mk x).
  Proof.
    intros x H. destruct (rt_line_sendx x H) as [zx [E [O [A [_ [Nx [V _]]]]]]].
    exists Z, zx. cbn [rt_mfrom rt_mto]. split; [assumption|]. split; [assumption|]. split; [assumption|].
    destruct A as [A|[A|A]].
    - left. subst zx. split; [reflexivity|]. split; [auto|]. apply rt_view_sym. assumption.
    - right. left. assumption.
    - right. right. assumption.
  Qed.

  (* where the future set of a new message lies *)
  Lemma rt_lfut_new_zone : forall x zx e ze, In x sends -> rt_zone_of c x = Some zx -> rt_zone_of c e = Some ze ->
    rt_lfutP c links T (mk x) e ->
    (rt_parent c Z = Some zx -> rt_onl c T Z -> ze = zx \/ rt_desc c zx ze) /\
    (rt_parent c zx = Some Z -> rt_onl c T ze /\ (ze = zx \/ rt_desc c ze zx)) /\
    (zx = Z -> e = x \/ (ze <> Z /\ rt_master c Z x (rt_view links x) = x)).
  Proof.
    intros x zx e ze H E Ee F. pose proof (rt_tree_F c Hwf) as Fo.
    destruct (rt_line_sendx x H) as [zx' [E' [Ox _]]]. assert (zx' = zx) by congruence. subst zx'.
    apply (rt_lfutP_new x zx e E) in F.
    destruct F as [F|[F1 [ze' [Ee' [Ne F2]]]]].
    - subst e. assert (ze = zx) by congruence. subst ze. split; [auto|]. split; auto.
    - assert (ze' = ze) by congruence. subst ze'. cbn [rt_ofrom rt_ozone] in F2. split; [|split].
      + intros P OZ. pose proof (Fo Z zx P) as Lt.
        assert ((Z =? zx) = false) as B by (apply Nat.eqb_neq; lia). rewrite B in F2.
        destruct F2 as [[F2 _]|[[F2 _]|[_ [_ F2]]]]; [auto|auto|].
        exfalso. apply (F2 Z eq_refl). auto.
      + intros P. pose proof (Fo zx Z P) as Lt.
        assert ((Z =? zx) = false) as B by (apply Nat.eqb_neq; lia). rewrite B in F2.
        destruct F2 as [[F2 _]|[[_ F2]|[F2 [F3 _]]]].
        * subst ze. auto.
        * exfalso. apply F2. symmetry. assumption.
        * auto.
      + intros Q. subst zx. right. destruct F1 as [F1|F1]; [congruence|]. split; [|assumption].
        intros Q. subst ze. destruct F2 as [[_ F2]|[[F2 _]|[_ [F2 _]]]].
        * destruct (rt_tree_two c Hwf Z t x e Ht E Ee) as [K|K]; [|congruence|congruence].
          destruct (rt_line_sendx x H) as [_ [_ [_ [_ [_ [Nx _]]]]]]. auto.
        * apply (rt_desc_lt c Fo) in F2. lia.
        * apply (rt_desc_lt c Fo) in F2. lia.
  Qed.

  (* RL3: the future sets of the new messages lie inside the region of the relaying node (its zone on the line) *)
  Lemma rt_relay_new_lregion : forall x e, rt_onl c T Z -> In x sends -> rt_lfutP c links T (mk x) e ->
    rt_lregionP c T t Z o e.
  Proof.
    intros x e OZ H F. pose proof (rt_tree_F c Hwf) as Fo.
    destruct (rt_line_sendx x H) as [zx [E [Ox [A [_ [Nx [V [NO [NZ _]]]]]]]]].
    assert (exists ze, rt_zone_of c e = Some ze) as [ze Ee].
    { apply rt_all_eps_in. apply (rt_lfut_in c links T (mk x) e) in F. unfold rt_lfut in F. apply filter_In in F. tauto. }
    destruct (rt_lfut_new_zone x zx e ze H E Ee F) as [K1 [K2 K3]].
    exists ze. split; [assumption|].
    destruct A as [A|[A|A]].
    - subst zx. destruct (K3 eq_refl) as [K|[K4 K5]].
      + subst e. split; [assumption|]. left. assert (ze = Z) by congruence. auto.
      + apply (rt_lfutP_new x Z e E) in F.
        destruct F as [F|[_ [ze' [Ee' [Ne' F2]]]]]; [subst; exfalso; apply K4; congruence|].
        assert (ze' = ze) by congruence. subst ze'. rewrite Nat.eqb_refl in F2. cbn [rt_ofrom rt_ozone] in F2.
        split; [intros Q; subst e; apply K4; congruence|].
        destruct F2 as [[F2 _]|[F2|F2]]; [contradiction|right; left; assumption|right; right; assumption].
    - pose proof (Fo Z zx A) as Lt.
      assert (rt_desc c Z ze) as D.
      { apply (rt_desc_step c Z zx ze Fo A). destruct (K1 A OZ) as [K|K]; auto. }
      split.
      + intros Q. subst e. apply (rt_desc_lt c Fo) in D. assert (ze = Z) by congruence. lia.
      + right. left. split; [assumption|]. rewrite A. assumption.
    - pose proof (Fo zx Z A) as Lt. destruct (K2 A) as [K4 K5].
      assert (rt_desc c ze Z) as D.
      { destruct K5 as [K5|K5]; [subst; apply rt_desc_child; assumption | apply (rt_desc_trans_child c Fo ze zx Z K5 A)]. }
      split.
      + intros Q. subst e. apply (rt_desc_lt c Fo) in D. assert (ze = Z) by congruence. lia.
      + right. right. split; [assumption|]. split; [assumption|].
        intros zc Q [P O']. apply NZ. rewrite Q. f_equal.
        exact (rt_line_child_unique c T Z zc zx Fo O' Ox P A).
  Qed.

  (* the relaying node is never in the future set of a message it sends (also for an originator off the line) *)
  Lemma rt_lfut_new_not_self : forall x, In x sends -> ~ rt_lfutP c links T (mk x) t.
  Proof.
    intros x H F. pose proof (rt_tree_F c Hwf) as Fo.
    destruct (rt_line_sendx x H) as [zx [E [Ox [A [_ [Nx _]]]]]].
    assert (rt_onl c T Z \/ (~ rt_onl c T Z /\ rt_parent c Z = Some zx)) as [OZ|[NOZ P]].
    { destruct A as [A|[A|A]].
      - subst. auto.
      - destruct (rt_onlb c T Z) eqn:B; [left; apply rt_onlb_spec; assumption|right].
        split; [|assumption]. intros Q. apply rt_onlb_spec in Q. congruence.
      - left. apply (rt_onl_parent c T zx Z Fo Ox A). }
    - destruct (rt_relay_new_lregion x t OZ H F) as [ze [_ [K _]]]. congruence.
    - pose proof (Fo Z zx P) as Lt.
      apply (rt_lfutP_new x zx t E) in F. destruct F as [F|[_ [ze [Ee [_ F2]]]]]; [congruence|].
      assert (ze = Z) by congruence. subst ze. cbn [rt_ofrom rt_ozone] in F2.
      destruct F2 as [[F2 _]|[[F2 _]|[F2 _]]]; [lia| |contradiction].
      apply (rt_desc_lt c Fo) in F2. lia.
  Qed.

  Lemma rt_relay_new_ldisjoint : forall x x' e, In x sends -> In x' sends -> x <> x' ->
    rt_lfutP c links T (mk x) e -> rt_lfutP c links T (mk x') e -> False.
  Proof.
    pose proof (rt_tree_F c Hwf) as Fo.
    assert (forall x x' e zx' ze, In x sends -> In x' sends -> x <> x' ->
              rt_zone_of c x = Some Z -> rt_zone_of c x' = Some zx' -> rt_zone_of c e = Some ze -> zx' <> Z ->
              rt_lfutP c links T (mk x) e -> rt_lfutP c links T (mk x') e -> False) as Mixed.
    { intros x x' e zx' ze H H' Ne E E' Ee Nz F F'.
      destruct (rt_line_sendx x H) as [zx0 [E0 [OZ [_ [_ [Nx _]]]]]]. assert (zx0 = Z) by congruence. subst zx0.
      destruct (rt_line_sendx x' H') as [zx1 [E1 [_ [A' _]]]]. assert (zx1 = zx') by congruence. subst zx1.
      destruct (rt_lfut_new_zone x Z e ze H E Ee F) as [_ [_ K]].
      destruct (rt_lfut_new_zone x' zx' e ze H' E' Ee F') as [K1 [K2 _]].
      destruct (K eq_refl) as [K3|[K3 K4]].
      - subst e. assert (ze = Z) by congruence. subst ze.
        destruct A' as [A'|[A'|A']]; [contradiction| |].
        + pose proof (Fo Z zx' A') as Lt. destruct (K1 A' OZ) as [K5|K5]; [lia|]. apply (rt_desc_lt c Fo) in K5. lia.
        + pose proof (Fo zx' Z A') as Lt. destruct (K2 A') as [_ [K5|K5]]; [lia|]. apply (rt_desc_lt c Fo) in K5. lia.
      - pose proof (rt_lcross_sender_master x' zx' H' E' Nz) as M.
        pose proof (rt_lintra_agree x H E) as Gq. congruence. }
    intros x x' e H H' Ne F F'.
    destruct (rt_line_sendx x H) as [zx [E [Ox [A [_ [Nx _]]]]]].
    destruct (rt_line_sendx x' H') as [zx' [E' [Ox' [A' [_ [Nx' _]]]]]].
    assert (exists ze, rt_zone_of c e = Some ze) as [ze Ee].
    { apply rt_all_eps_in. apply (rt_lfut_in c links T (mk x) e) in F. unfold rt_lfut in F. apply filter_In in F. tauto. }
    destruct (Nat.eq_dec zx Z) as [Q|Q], (Nat.eq_dec zx' Z) as [Q'|Q'].
    - subst. destruct (rt_tree_two c Hwf Z t x x' Ht E E') as [K|K]; [auto| |]; congruence.
    - subst zx. exact (Mixed x x' e zx' ze H H' Ne E E' Ee Q' F F').
    - subst zx'. apply (Mixed x' x e zx ze H' H); auto.
    - destruct (Nat.eq_dec zx zx') as [S|S].
      + subst zx'. apply Ne.
        exact (rt_g_sends_single c (nord t) (rt_tree_nd c Hwf) (Hnord t) t Z (rt_view links t) o T true x x' zx H H' E E' Q).
      + destruct A as [A|[A|A]]; [contradiction| |]; destruct A' as [A'|[A'|A']]; try contradiction.
        * congruence.
        * (* x upwards, x' downwards *)
          pose proof (rt_onl_parent c T zx' Z Fo Ox' A') as OZ.
          destruct (rt_lfut_new_zone x zx e ze H E Ee F) as [K1 _].
          destruct (rt_lfut_new_zone x' zx' e ze H' E' Ee F') as [_ [K2 _]].
          pose proof (Fo Z zx A) as L1. pose proof (Fo zx' Z A') as L2.
          assert (ze <= zx) as B1 by (destruct (K1 A OZ) as [K|K]; [lia | apply (rt_desc_lt c Fo) in K; lia]).
          assert (zx' <= ze) as B2 by (destruct (K2 A') as [_ [K|K]]; [lia | apply (rt_desc_lt c Fo) in K; lia]).
          lia.
        * pose proof (rt_onl_parent c T zx Z Fo Ox A) as OZ.
          destruct (rt_lfut_new_zone x zx e ze H E Ee F) as [_ [K2 _]].
          destruct (rt_lfut_new_zone x' zx' e ze H' E' Ee F') as [K1 _].
          pose proof (Fo Z zx' A') as L1. pose proof (Fo zx Z A) as L2.
          assert (ze <= zx') as B1 by (destruct (K1 A' OZ) as [K|K]; [lia | apply (rt_desc_lt c Fo) in K; lia]).
          assert (zx <= ze) as B2 by (destruct (K2 A) as [_ [K|K]]; [lia | apply (rt_desc_lt c Fo) in K; lia]).
          lia.
        * apply S. exact (rt_line_child_unique c T Z zx zx' Fo Ox Ox' A A').
  Qed.

  Theorem rt_line_relay : let new := rt_mk_msgs t (rt_ozone o) sends in
    (forall m, In m new -> rt_lmwf c links T m) /\
    NoDup (flat_map (rt_lfut c links T) new) /\
    (forall e, In e (flat_map (rt_lfut c links T) new) -> e <> t) /\
    (rt_onl c T Z -> forall e, In e (flat_map (rt_lfut c links T) new) -> rt_lregionP c T t Z o e).
  Proof.
    simpl. unfold rt_mk_msgs. split; [|split; [|split]].
    - intros m H. apply in_map_iff in H. destruct H as [x [E H]]. subst m. apply rt_relay_new_lwf. assumption.
    - rewrite rt_flat_map_map. apply rt_nodup_flat_map.
      + apply (rt_g_sends_nodup c (nord t) (rt_tree_nd c Hwf) (Hnord t) t Z (rt_view links t) o T true).
        apply rt_line_relay_zones_nodup; assumption.
      + intros x _. apply rt_lfut_nodup. apply (rt_tree_nd c Hwf).
      + intros a b x Ha Hb Ne Xa Xb. apply rt_lfut_in in Xa. apply rt_lfut_in in Xb.
        exact (rt_relay_new_ldisjoint a b x Ha Hb Ne Xa Xb).
    - intros e H Q. subst e. rewrite rt_flat_map_map in H. apply in_flat_map in H. destruct H as [x [H1 H2]].
      apply rt_lfut_in in H2. exact (rt_lfut_new_not_self x H1 H2).
    - intros OZ e H. rewrite rt_flat_map_map in H. apply in_flat_map in H. destruct H as [x [H1 H2]].
      apply rt_lfut_in in H2. exact (rt_relay_new_lregion x e OZ H1 H2).
  Qed.
End RtLineRelay.

Section RtLineStep.
  Variables (c : rt_cfg) (links : list (nat * nat)) (T : nat) (nord : nat -> nat -> list nat).
  Hypothesis Hwf : rt_tree_wf c.
  Hypothesis HT : rt_global c T = false.
  Hypothesis Hnord : rt_nord_ok c nord.

  Local Notation eff := (rt_effect c links T nord).
  Local Notation fut := (rt_lfut c links T).

  Lemma rt_lmwf_effect : forall m, rt_lmwf c links T m -> eff m <> None.
  Proof.
    intros m [Zf [Z [_ [E _]]]]. unfold rt_effect. rewrite E.
    destruct (negb (rt_accepts c (rt_recv_origin c Z (Some (rt_mfrom m)) (rt_moz m)) T)); discriminate.
  Qed.

  Theorem rt_line_step : forall m new np, rt_lmwf c links T m -> eff m = Some (new, np) ->
    (np = [rt_mto m] \/ (np = [] /\ new = [])) /\
    (forall m', In m' new -> rt_lmwf c links T m') /\
    NoDup (rt_mto m :: flat_map fut new) /\ incl (rt_mto m :: flat_map fut new) (fut m).
  Proof.
    intros m new np W H. pose proof (rt_lmwf_fut_self c links T m W) as Self.
    assert (forall np', (np' = [rt_mto m] \/ (np' = [] /\ @nil rt_msg = [])) ->
            (np' = [rt_mto m] \/ (np' = [] /\ @nil rt_msg = [])) /\
            (forall m', In m' (@nil rt_msg) -> rt_lmwf c links T m') /\
            NoDup (rt_mto m :: flat_map fut []) /\ incl (rt_mto m :: flat_map fut []) (fut m)) as Empty.
    { intros np' K. split; [assumption|]. split; [intros m' []|]. simpl. split; [repeat constructor; simpl; tauto|].
      intros e [E|[]]. subst. assumption. }
    destruct W as [Zf [Z [E1 [E2 [OZ W]]]]].
    destruct (rt_effect_cases c links T nord m new np Z E2 H) as [[H1 H2]|[H1 H2]]; subst new np.
    { apply Empty. auto. }
    set (o := rt_recv_origin c Z (Some (rt_mfrom m)) (rt_moz m)) in *.
    assert ((Zf <> Z \/ rt_master c Z (rt_mto m) (rt_view links (rt_mto m)) = rt_mto m) ->
      ([rt_mto m] = [rt_mto m] \/ [rt_mto m] = [] /\
         rt_mk_msgs (rt_mto m) (rt_ozone o) (rt_sends (rt_relay c (rt_mto m) Z (rt_view links (rt_mto m)) o (nord (rt_mto m)) T true)) = []) /\
      (forall m', In m' (rt_mk_msgs (rt_mto m) (rt_ozone o) (rt_sends (rt_relay c (rt_mto m) Z (rt_view links (rt_mto m)) o (nord (rt_mto m)) T true))) -> rt_lmwf c links T m') /\
      NoDup (rt_mto m :: flat_map fut (rt_mk_msgs (rt_mto m) (rt_ozone o) (rt_sends (rt_relay c (rt_mto m) Z (rt_view links (rt_mto m)) o (nord (rt_mto m)) T true)))) /\
      incl (rt_mto m :: flat_map fut (rt_mk_msgs (rt_mto m) (rt_ozone o) (rt_sends (rt_relay c (rt_mto m) Z (rt_view links (rt_mto m)) o (nord (rt_mto m)) T true)))) (fut m)) as Fwd.
    { intros C. destruct (rt_line_relay c links T nord Hwf HT Hnord (rt_mto m) Z o E2) as [R1 [R2 [R3 R4]]].
      split; [auto|]. split; [assumption|]. split.
      - constructor; [|assumption]. intros K. exact (R3 _ K eq_refl).
      - intros e [E|E]; [subst; assumption|]. apply rt_lfut_in. exists Zf, Z. split; [assumption|]. split; [assumption|].
        right. split; [assumption|]. apply (R4 OZ). assumption. }
    destruct (Nat.eq_dec Zf Z) as [Q|Q]; [|apply Fwd; auto].
    destruct (Nat.eq_dec (rt_master c Z (rt_mto m) (rt_view links (rt_mto m))) (rt_mto m)) as [M|M]; [apply Fwd; auto|].
    (* a non-master that got the event from its zone peer forwards nothing *)
    pose proof (rt_tree_F c Hwf) as Fo.
    destruct W as [[_ [Nf Vf]]|[W|W]].
    2:{ exfalso. apply Fo in W. lia. }
    2:{ exfalso. apply Fo in W. lia. }
    subst Zf.
    assert (rt_master c Z (rt_mto m) (rt_view links (rt_mto m)) = rt_mfrom m) as MF.
    { destruct (rt_master_cases c Z (rt_mto m) (rt_view links (rt_mto m))) as [[K|[K _]] _]; [contradiction|].
      destruct (rt_zone_of_some c _ _ E2) as [LZ _].
      apply (rt_zone_of_in c _ Z (rt_tree_nd c Hwf) LZ) in K.
      destruct (rt_tree_two c Hwf Z (rt_mto m) (rt_mfrom m) _ E2 E1 K); [auto|contradiction|assumption]. }
    rewrite (rt_peer_of_master_terminal c (rt_mto m) Z (rt_view links (rt_mto m)) o (nord (rt_mto m)) T true M).
    - simpl. apply Empty. auto.
    - rewrite MF. reflexivity.
  Qed.

  Definition rt_line_inv (st : rt_st rt_msg) : Prop :=
    (forall m, In m (fst st) -> rt_lmwf c links T m) /\ NoDup (flat_map fut (fst st) ++ snd st).
  Definition rt_line_measure (st : rt_st rt_msg) : nat := length (flat_map fut (fst st)).

  Theorem rt_line_inv_step : forall st np st', rt_line_inv st -> rt_sched_step rt_msg eff st np st' ->
    rt_fresh np (snd st) = true /\ rt_line_inv st' /\ rt_line_measure st' < rt_line_measure st.
  Proof.
    intros st np st' [I1 I2] S. inversion S as [pre m post P new np0 Em]. subst. cbn [fst snd] in *.
    assert (rt_lmwf c links T m) as W by (apply I1; apply in_or_app; right; left; reflexivity).
    destruct (rt_line_step m new np W Em) as [Hnp [Hw [Hnd Hincl]]].
    rewrite flat_map_app in I2. simpl in I2.
    assert (NoDup (fut m ++ (flat_map fut pre ++ flat_map fut post ++ P))) as N.
    { apply (Permutation_NoDup (l := (flat_map fut pre ++ fut m ++ flat_map fut post) ++ P)); [|assumption].
      rewrite <- !app_assoc. apply Permutation_app_swap_app. }
    assert (NoDup (np ++ flat_map fut new) /\ incl (np ++ flat_map fut new) (fut m)) as [NX IX].
    { destruct Hnp as [Hnp|[Hnp Hnew]]; subst.
      - split; assumption.
      - simpl. split; [constructor | intros e []]. }
    split; [|split].
    - apply rt_fresh_spec. intros e He K.
      destruct Hnp as [Hnp|[Hnp _]]; subst; [|contradiction]. destruct He as [He|[]]. subst e.
      apply rt_nodup_app_inv in N. destruct N as [_ [_ D]]. apply (D (rt_mto m)).
      + apply Hincl. left. reflexivity.
      + apply in_or_app. right. apply in_or_app. right. assumption.
    - split.
      + intros m' Hm'. cbn [fst] in Hm'. apply in_app_or in Hm'. destruct Hm' as [Hm'|Hm'].
        * apply I1. apply in_or_app. left. assumption.
        * apply in_app_or in Hm'. destruct Hm' as [Hm'|Hm']; [|apply Hw; assumption].
          apply I1. apply in_or_app. right. right. assumption.
      + cbn [fst snd]. rewrite !flat_map_app.
        apply (Permutation_NoDup (l := (np ++ flat_map fut new) ++ flat_map fut pre ++ flat_map fut post ++ P)).
        * apply rt_perm_swap4.
        * apply (rt_nodup_app_replace _ (fut m)); assumption.
    - unfold rt_line_measure. cbn [fst]. rewrite !flat_map_app, !app_length. simpl. rewrite app_length.
      pose proof (NoDup_incl_length Hnd Hincl) as L. cbn [length] in L. lia.
  Qed.

  Theorem rt_line_init : forall s lz, rt_zone_of c s = Some lz ->
    rt_line_inv (rt_init c links T nord s lz) /\
    rt_line_measure (rt_init c links T nord s lz) < length (rt_all_eps c).
  Proof.
    intros s lz E. destruct (rt_line_relay c links T nord Hwf HT Hnord s lz rt_no_origin E) as [R1 [R2 [R3 _]]].
    unfold rt_init, rt_line_inv, rt_line_measure. cbn [fst snd]. cbn [rt_ozone rt_no_origin] in *.
    assert (NoDup (s :: flat_map fut (rt_mk_msgs s None (rt_sends (rt_relay c s lz (rt_view links s) rt_no_origin (nord s) T true))))) as N.
    { constructor; [|assumption]. intros K. exact (R3 _ K eq_refl). }
    split; [split|].
    - assumption.
    - apply (Permutation_NoDup (l := s :: flat_map fut (rt_mk_msgs s None (rt_sends (rt_relay c s lz (rt_view links s) rt_no_origin (nord s) T true))))); [|assumption].
      apply Permutation_cons_append.
    - assert (incl (s :: flat_map fut (rt_mk_msgs s None (rt_sends (rt_relay c s lz (rt_view links s) rt_no_origin (nord s) T true)))) (rt_all_eps c)) as I.
      { intros e [K|K].
        - subst. apply rt_all_eps_in. eauto.
        - apply in_flat_map in K. destruct K as [m [_ K]]. unfold rt_lfut in K. apply filter_In in K. tauto. }
      pose proof (NoDup_incl_length N I) as L. cbn [length] in L. lia.
  Qed.

  Theorem rt_line_finite_once : forall s lz, rt_zone_of c s = Some lz ->
    forall k st', rt_sched_run rt_msg eff (rt_init c links T nord s lz) k st' ->
      k < length (rt_all_eps c) /\ k + rt_line_measure st' <= rt_line_measure (rt_init c links T nord s lz) /\
      rt_line_inv st' /\
      (forall np st'', rt_sched_step rt_msg eff st' np st'' -> rt_fresh np (snd st') = true).
  Proof.
    intros s lz E k st' R. destruct (rt_line_init s lz E) as [I0 M0].
    assert (forall st0 k0 st1, rt_sched_run rt_msg eff st0 k0 st1 -> rt_line_inv st0 ->
              k0 + rt_line_measure st1 <= rt_line_measure st0 /\ rt_line_inv st1) as Gn.
    { clear R. intros st0 k0 st3 R. induction R as [st|st np st1 k1 st2 S R IH]; intros I; [split; [lia|assumption]|].
      destruct (rt_line_inv_step st np st1 I S) as [_ [I1 D]]. destruct (IH I1) as [K1 K2]. split; [lia|assumption]. }
    destruct (Gn _ _ _ R I0) as [K1 K2]. split; [lia|]. split; [assumption|]. split; [assumption|].
    intros np st'' S. apply (rt_line_inv_step st' np st'' K2 S).
  Qed.
End RtLineStep.
