(* C11 - the executable per-step check [rt_oracle] accepts every step the model can produce, for every
   iteration order: the oracle only fires where the implementation leaves what the theorems establish. *)
From Coq Require Import List Arith Bool PeanoNat Lia.
From Icv Require Import Route.RtModel Route.RtProofs Route.RtObs.
Import ListNotations.

Lemma rt_existsb_iff : forall (f : nat -> bool) l1 l2,
  (forall x, In x l1 <-> In x l2) -> existsb f l1 = existsb f l2.
Proof.
  intros f l1 l2 H. apply eq_true_iff_eq. rewrite !existsb_exists.
  split; intros [x [H1 H2]]; exists x; split; try assumption; apply H; assumption.
Qed.

Lemma rt_nodup_b_NoDup : forall l, rt_nodup_b l = true -> NoDup l.
Proof.
  induction l as [|x l IH]; simpl; intros H; constructor.
  - apply andb_true_iff in H. destruct H as [H _]. apply negb_true_iff in H.
    intros K. apply rt_mem_In in K. congruence.
  - apply IH. apply andb_true_iff in H. tauto.
Qed.

Lemma rt_nodup_flat_disjoint : forall (f : nat -> list nat) l a b x,
  NoDup (flat_map f l) -> In a l -> In b l -> In x (f a) -> In x (f b) -> a = b.
Proof.
  induction l as [|y l IH]; simpl; intros a b x ND Ha Hb Xa Xb; [contradiction|].
  assert (K: forall u v : list nat, NoDup (u ++ v) -> (forall t, In t u -> In t v -> False) /\ NoDup v).
  { induction u as [|h u IHu]; simpl; intros v N; [split; [tauto|assumption]|].
    inversion N; subst. destruct (IHu v H2) as [K1 K2]. split; [|assumption].
    intros t [T|T] T2; [subst; apply H1; apply in_or_app; auto | eapply K1; eauto]. }
  destruct (K _ _ ND) as [K1 K2].
  destruct Ha as [Ha|Ha], Hb as [Hb|Hb]; subst.
  - reflexivity.
  - exfalso. apply (K1 x Xa). apply in_flat_map. eauto.
  - exfalso. apply (K1 x Xb). apply in_flat_map. eauto.
  - eapply IH; eauto.
Qed.

Section RtLoop.
  Variables (me lz master : nat) (conn : list nat) (o : rt_origin) (cz : nat).
  Let step := rt_ep_step me lz master conn o cz.

  Lemma rt_step_mono : forall a te e, In e (rt_asends a) -> In e (rt_asends (step a te)).
  Proof.
    intros a te e H. unfold step, rt_ep_step.
    destruct (te =? me); [assumption|]. destruct (rt_mem te conn); simpl.
    2:{ destruct (cz =? lz); assumption. }
    destruct (rt_relayed a && negb (cz =? lz)); [assumption|].
    destruct (rt_oeqb (rt_ofrom o) (Some te)); [assumption|].
    destruct (rt_oeqb (rt_ozone o) (Some cz)); [assumption|].
    destruct (negb (master =? me) && negb (te =? master)); [assumption|]. simpl. auto.
  Qed.

  Lemma rt_step_mono_skip : forall a te e, In e (rt_askipped a) -> In e (rt_askipped (step a te)).
  Proof.
    intros a te e H. unfold step, rt_ep_step.
    destruct (te =? me); [assumption|]. destruct (rt_mem te conn); simpl.
    2:{ destruct (cz =? lz); assumption. }
    destruct (rt_relayed a && negb (cz =? lz)); [simpl; auto|].
    destruct (rt_oeqb (rt_ofrom o) (Some te)); [simpl; auto|].
    destruct (rt_oeqb (rt_ozone o) (Some cz)); [simpl; auto|].
    destruct (negb (master =? me) && negb (te =? master)); simpl; auto.
  Qed.

  Lemma rt_fold_mono : forall l a e, In e (rt_asends a) -> In e (rt_asends (fold_left step l a)).
  Proof. induction l; simpl; intros; [assumption|]. apply IHl. apply rt_step_mono. assumption. Qed.

  Lemma rt_fold_mono_skip : forall l a e, In e (rt_askipped a) -> In e (rt_askipped (fold_left step l a)).
  Proof. induction l; simpl; intros; [assumption|]. apply IHl. apply rt_step_mono_skip. assumption. Qed.

  (* every connected endpoint other than ourselves is either sent to or recorded as skipped *)
  Lemma rt_step_cover : forall a te, te <> me -> In te conn ->
    In te (rt_asends (step a te)) \/ In te (rt_askipped (step a te)).
  Proof.
    intros a te H1 H2. unfold step, rt_ep_step.
    apply Nat.eqb_neq in H1. rewrite H1. apply rt_mem_In in H2. rewrite H2. simpl.
    destruct (rt_relayed a && negb (cz =? lz)); [simpl; auto|].
    destruct (rt_oeqb (rt_ofrom o) (Some te)); [simpl; auto|].
    destruct (rt_oeqb (rt_ozone o) (Some cz)); [simpl; auto|].
    destruct (negb (master =? me) && negb (te =? master)); simpl; auto.
  Qed.

  Lemma rt_fold_cover : forall l a e, In e l -> e <> me -> In e conn ->
    In e (rt_asends (fold_left step l a)) \/ In e (rt_askipped (fold_left step l a)).
  Proof.
    induction l as [|te l IH]; simpl; intros a e H H1 H2; [contradiction|].
    destruct H as [H|H].
    - subst. destruct (rt_step_cover a e H1 H2); [left; apply rt_fold_mono | right; apply rt_fold_mono_skip]; assumption.
    - apply IH; assumption.
  Qed.

  Lemma rt_step_skipped : forall a te e, In e (rt_askipped (step a te)) ->
    In e (rt_askipped a) \/ (e = te /\ e <> me /\ In e conn).
  Proof.
    intros a te e. unfold step, rt_ep_step.
    destruct (te =? me) eqn:E1; [auto|]. destruct (rt_mem te conn) eqn:E2; simpl.
    2:{ destruct (cz =? lz); auto. }
    apply Nat.eqb_neq in E1. apply rt_mem_In in E2.
    assert (K: In e (te :: rt_askipped a) -> In e (rt_askipped a) \/ e = te /\ e <> me /\ In e conn).
    { intros [K|K]; [subst; auto | auto]. }
    destruct (rt_relayed a && negb (cz =? lz)); [exact K|].
    destruct (rt_oeqb (rt_ofrom o) (Some te)); [exact K|].
    destruct (rt_oeqb (rt_ozone o) (Some cz)); [exact K|].
    destruct (negb (master =? me) && negb (te =? master)); [exact K|]. simpl. auto.
  Qed.

  Lemma rt_fold_skipped : forall l a e, In e (rt_askipped (fold_left step l a)) ->
    In e (rt_askipped a) \/ (In e l /\ e <> me /\ In e conn).
  Proof.
    induction l as [|te l IH]; simpl; intros a e H; [auto|].
    apply IH in H. destruct H as [H|[H1 H2]]; [|auto].
    apply rt_step_skipped in H. destruct H as [H|[H1 H2]]; [auto|]. subst. auto.
  Qed.

  (* local zone: nothing is withheld *)
  Lemma rt_step_send_local : forall a te, cz = lz -> te <> me -> In te conn ->
    rt_ofrom o <> Some te -> rt_ozone o <> Some cz -> (master = me \/ te = master) ->
    In te (rt_asends (step a te)).
  Proof.
    intros a te Hz H1 H2 H3 H4 H5. unfold step, rt_ep_step.
    apply Nat.eqb_neq in H1. rewrite H1. apply rt_mem_In in H2. rewrite H2. simpl.
    assert (E: (cz =? lz) = true) by (apply Nat.eqb_eq; assumption). rewrite E, andb_false_r.
    apply rt_oeqb_neq in H3. rewrite H3. apply rt_oeqb_neq in H4. rewrite H4.
    assert (M: negb (master =? me) && negb (te =? master) = false).
    { destruct H5 as [H5|H5]; subst.
      - rewrite Nat.eqb_refl. reflexivity.
      - rewrite Nat.eqb_refl. apply andb_false_r. }
    rewrite M. simpl. auto.
  Qed.

  Lemma rt_fold_send_local : forall l a e, cz = lz -> In e l -> e <> me -> In e conn ->
    rt_ofrom o <> Some e -> rt_ozone o <> Some cz -> (master = me \/ e = master) ->
    In e (rt_asends (fold_left step l a)).
  Proof.
    induction l as [|te l IH]; simpl; intros a e Hz H H1 H2 H3 H4 H5; [contradiction|].
    destruct H as [H|H].
    - subst te. apply rt_fold_mono. apply rt_step_send_local; assumption.
    - apply IH; assumption.
  Qed.

  (* foreign zone: the master enters it if it can *)
  Lemma rt_step_relayed_mono : forall a te, rt_relayed a = true -> rt_relayed (step a te) = true.
  Proof.
    intros a te H. unfold step, rt_ep_step.
    destruct (te =? me); [assumption|]. destruct (rt_mem te conn); simpl.
    2:{ destruct (cz =? lz); assumption. }
    destruct (rt_relayed a && negb (cz =? lz)); [assumption|].
    destruct (rt_oeqb (rt_ofrom o) (Some te)); [assumption|].
    destruct (rt_oeqb (rt_ozone o) (Some cz)); [assumption|].
    destruct (negb (master =? me) && negb (te =? master)); [assumption|]. reflexivity.
  Qed.

  Lemma rt_step_relayed_nonempty : forall a te,
    (rt_relayed a = true -> rt_asends a <> []) -> rt_relayed (step a te) = true -> rt_asends (step a te) <> [].
  Proof.
    intros a te H. unfold step, rt_ep_step.
    destruct (te =? me); [assumption|]. destruct (rt_mem te conn); simpl.
    2:{ destruct (cz =? lz); assumption. }
    destruct (rt_relayed a && negb (cz =? lz)); [assumption|].
    destruct (rt_oeqb (rt_ofrom o) (Some te)); [assumption|].
    destruct (rt_oeqb (rt_ozone o) (Some cz)); [assumption|].
    destruct (negb (master =? me) && negb (te =? master)); [assumption|]. simpl. discriminate.
  Qed.

  Lemma rt_fold_relayed_nonempty : forall l a,
    (rt_relayed a = true -> rt_asends a <> []) ->
    rt_relayed (fold_left step l a) = true -> rt_asends (fold_left step l a) <> [].
  Proof.
    induction l as [|te l IH]; simpl; intros a H; [assumption|].
    apply IH. apply rt_step_relayed_nonempty. assumption.
  Qed.

  Lemma rt_fold_relayed_mono : forall l a, rt_relayed a = true -> rt_relayed (fold_left step l a) = true.
  Proof. induction l; simpl; intros; [assumption|]. apply IHl. apply rt_step_relayed_mono. assumption. Qed.

  Lemma rt_step_relayed_foreign : forall a te, master = me -> te <> me -> In te conn ->
    rt_ofrom o <> Some te -> rt_ozone o <> Some cz -> rt_relayed (step a te) = true.
  Proof.
    intros a te Hm H1 H2 H3 H4. unfold step, rt_ep_step.
    apply Nat.eqb_neq in H1. rewrite H1. apply rt_mem_In in H2. rewrite H2. simpl.
    destruct (rt_relayed a && negb (cz =? lz)) eqn:R.
    { simpl. apply andb_true_iff in R. tauto. }
    apply rt_oeqb_neq in H3. rewrite H3. apply rt_oeqb_neq in H4. rewrite H4.
    subst master. rewrite Nat.eqb_refl. reflexivity.
  Qed.

  Lemma rt_fold_relayed_foreign : forall l a e, master = me -> In e l -> e <> me -> In e conn ->
    rt_ofrom o <> Some e -> rt_ozone o <> Some cz -> rt_relayed (fold_left step l a) = true.
  Proof.
    induction l as [|te l IH]; simpl; intros a e Hm H H1 H2 H3 H4; [contradiction|].
    destruct H as [H|H].
    - subst te. apply rt_fold_relayed_mono. apply rt_step_relayed_foreign; assumption.
    - eapply IH; eauto.
  Qed.
End RtLoop.

(* ------------------------------------------------------------------ *)
Lemma rt_sends_in : forall c me lz conn o ord target log e,
  In e (rt_sends (rt_relay c me lz conn o ord target log)) ->
  exists z, In z (rt_relay_zones c lz target) /\ In e (ord z) /\
            rt_send_cond me lz (rt_master c lz me conn) conn o z e.
Proof.
  unfold rt_relay. simpl. intros c me lz conn o ord target log e H.
  apply in_flat_map in H. destruct H as [a [H1 H2]].
  apply in_map_iff in H1. destruct H1 as [z [H1 H3]]. subst a.
  apply rt_zone_loop_sends in H2. exists z. tauto.
Qed.

Lemma rt_sends_of_zone : forall c me lz conn o ord target log z e,
  In z (rt_relay_zones c lz target) ->
  In e (rt_asends (rt_zone_loop me lz (rt_master c lz me conn) conn o ord z)) ->
  In e (rt_sends (rt_relay c me lz conn o ord target log)).
Proof.
  intros. unfold rt_relay. simpl. apply in_flat_map. eexists. split; [apply in_map; eassumption|assumption].
Qed.

Lemma rt_skipped_of_zone : forall c me lz conn o ord target log z e,
  In z (rt_relay_zones c lz target) ->
  In e (rt_askipped (rt_zone_loop me lz (rt_master c lz me conn) conn o ord z)) ->
  In e (rt_skipped (rt_relay c me lz conn o ord target log)).
Proof.
  intros. unfold rt_relay. simpl. apply in_flat_map. eexists. split; [apply in_map; eassumption|assumption].
Qed.

Lemma rt_filter_flat_single : forall (f : nat -> bool) (g : nat -> list nat) l z,
  NoDup l -> (forall z', In z' l -> z' <> z -> filter f (g z') = []) -> length (g z) <= 1 ->
  length (filter f (flat_map g l)) <= 1.
Proof.
  induction l as [|y l IH]; simpl; intros z ND H1 H2; [lia|].
  inversion ND; subst. rewrite filter_app, app_length.
  destruct (Nat.eq_dec y z) as [E|E].
  - subst y.
    assert (filter f (flat_map g l) = []) as K.
    { clear IH ND H2. induction l as [|w l IHl]; simpl; [reflexivity|].
      rewrite filter_app. rewrite H1; [simpl | right; left; reflexivity | intros K; subst; apply H3; left; reflexivity].
      apply IHl.
      - intros z' [Z|Z] Z2; apply H1; auto. right. right. assumption.
      - intros Q. apply H3. right. assumption.
      - inversion H4; assumption. }
    rewrite K. simpl.
    assert (length (filter f (g z)) <= length (g z)) by (clear; induction (g z); simpl; [lia|destruct (f a); simpl; lia]).
    lia.
  - rewrite H1 by auto. simpl. apply (IH z); auto.
Qed.

Lemma rt_unreachable_ord : forall c me conn (ord : nat -> list nat) l,
  (forall z e, In e (ord z) <-> In e (rt_eps c z)) ->
  existsb (fun z => rt_unreachable me conn (ord z)) l = existsb (fun z => rt_unreachable me conn (rt_eps c z)) l.
Proof.
  intros c me conn ord l Hord. induction l as [|z l IH]; simpl; [reflexivity|]. rewrite IH. f_equal.
  unfold rt_unreachable. rewrite (rt_existsb_iff _ (ord z) (rt_eps c z)) by (apply Hord).
  rewrite (rt_existsb_iff (fun e => rt_peer me e && rt_mem e conn) (ord z) (rt_eps c z)) by (apply Hord). reflexivity.
Qed.

Theorem rt_oracle_accepts : forall c me lz conn o ord target log,
  (forall z e, In e (ord z) <-> In e (rt_eps c z)) ->
  length (filter (rt_peer me) (ord lz)) <= 1 ->
  let r := rt_relay c me lz conn o ord target log in
  rt_oracle c me lz conn o target log (rt_sends r) (rt_skipped r) (rt_persist r) = 0.
Proof.
  intros c me lz conn o ord target log Hord Hpeer r. unfold rt_oracle.
  destruct (rt_pre_b c me lz target) eqn:Pre; cbn [negb]; [|reflexivity].
  unfold rt_pre_b in Pre. apply andb_true_iff in Pre. destruct Pre as [Pre P4].
  apply andb_true_iff in Pre. destruct Pre as [Pre P3].
  apply andb_true_iff in Pre. destruct Pre as [P1 P2].
  apply rt_nodup_b_NoDup in P1. apply rt_nodup_b_NoDup in P2.
  rewrite forallb_forall in P4.
  (* clause 1 *)
  assert (C1: forallb (rt_send_ok_b c me lz conn o target) (rt_sends r) = true).
  { apply forallb_forall. intros e He. apply rt_sends_in in He.
    destruct He as [z [Z1 [Z2 [Q1 [Q2 [Q3 [Q4 Q5]]]]]]]. unfold rt_send_ok_b.
    repeat (apply andb_true_iff; split).
    - apply existsb_exists. exists z. split; [assumption|]. apply andb_true_iff. split.
      + apply rt_mem_In. apply Hord. assumption.
      + apply negb_true_iff. apply rt_oeqb_neq. assumption.
    - apply negb_true_iff. apply Nat.eqb_neq. assumption.
    - apply rt_mem_In. assumption.
    - apply negb_true_iff. apply rt_oeqb_neq. assumption.
    - apply orb_true_iff. destruct Q5 as [Q5|Q5]; [left|right]; apply Nat.eqb_eq; auto. }
  rewrite C1. cbn [negb].
  (* clause 2 *)
  assert (C2: rt_single_b c lz target (rt_sends r) = true).
  { unfold rt_single_b. apply forallb_forall. intros z Hz.
    destruct (z =? lz) eqn:E; [reflexivity|]. simpl. apply Nat.leb_le.
    unfold r, rt_relay. simpl. rewrite flat_map_concat_map, map_map, <- flat_map_concat_map.
    apply rt_filter_flat_single with (z := z); [assumption| |].
    - intros z' Hz' Ne.
      destruct (filter (fun e => rt_mem e (rt_eps c z)) (rt_asends (rt_zone_loop me lz (rt_master c lz me conn) conn o ord z'))) as [|x l] eqn:F; [reflexivity|].
      exfalso. assert (In x (x :: l)) as K by (left; reflexivity). rewrite <- F in K.
      apply filter_In in K. destruct K as [K1 K2]. apply rt_mem_In in K2.
      apply rt_zone_loop_sends in K1. destruct K1 as [K1 _]. apply Hord in K1.
      apply Ne. apply (rt_nodup_flat_disjoint (rt_eps c) (seq 0 (length c)) z' z x); try assumption.
      + apply in_seq. apply P4 in Hz'. apply Nat.ltb_lt in Hz'. lia.
      + apply in_seq. apply P4 in Hz. apply Nat.ltb_lt in Hz. lia.
    - apply rt_zone_loop_single. apply Nat.eqb_neq. assumption. }
  rewrite C2. cbn [negb].
  (* clause 3 *)
  assert (C3: Bool.eqb (rt_persist r) (rt_persist_spec c me lz conn target log) = true).
  { apply eqb_true_iff. unfold r. rewrite rt_log_char by assumption. unfold rt_persist_spec. f_equal.
    apply rt_unreachable_ord. assumption. }
  rewrite C3. cbn [negb].
  (* clause 4 *)
  assert (C4: rt_complete_b c me lz conn o target (rt_sends r) = true).
  { unfold rt_complete_b. apply forallb_forall. intros z Hz.
    destruct (rt_oeqb (rt_ozone o) (Some z)) eqn:Oz; [reflexivity|]. simpl. apply rt_oeqb_neq in Oz.
    destruct (z =? lz) eqn:E.
    - apply Nat.eqb_eq in E. apply forallb_forall. intros e He.
      destruct (rt_cand_b me conn o e && ((rt_master c lz me conn =? me) || (e =? rt_master c lz me conn))) eqn:Cd; [|reflexivity].
      simpl. apply rt_mem_In. apply andb_true_iff in Cd. destruct Cd as [Cd M].
      unfold rt_cand_b in Cd. apply andb_true_iff in Cd. destruct Cd as [Cd D3].
      apply andb_true_iff in Cd. destruct Cd as [D1 D2].
      apply negb_true_iff in D1. apply Nat.eqb_neq in D1. apply rt_mem_In in D2.
      apply negb_true_iff in D3. apply rt_oeqb_neq in D3.
      apply (rt_sends_of_zone c me lz conn o ord target log z e Hz). unfold rt_zone_loop.
      apply rt_fold_send_local; try assumption.
      + apply Hord. assumption.
      + apply orb_true_iff in M. destruct M as [M|M]; apply Nat.eqb_eq in M; auto.
    - destruct (rt_master c lz me conn =? me) eqn:M; [|reflexivity]. simpl.
      destruct (existsb (rt_cand_b me conn o) (rt_eps c z)) eqn:X; [|reflexivity]. simpl.
      apply existsb_exists in X. destruct X as [e [X1 Cd]].
      unfold rt_cand_b in Cd. apply andb_true_iff in Cd. destruct Cd as [Cd D3].
      apply andb_true_iff in Cd. destruct Cd as [D1 D2].
      apply negb_true_iff in D1. apply Nat.eqb_neq in D1. apply rt_mem_In in D2.
      apply negb_true_iff in D3. apply rt_oeqb_neq in D3. apply Nat.eqb_eq in M.
      assert (R: rt_relayed (rt_zone_loop me lz (rt_master c lz me conn) conn o ord z) = true).
      { unfold rt_zone_loop. apply rt_fold_relayed_foreign with (e := e); try assumption. apply Hord. assumption. }
      assert (N: rt_asends (rt_zone_loop me lz (rt_master c lz me conn) conn o ord z) <> []).
      { unfold rt_zone_loop in *. apply rt_fold_relayed_nonempty; [simpl; discriminate | assumption]. }
      destruct (rt_asends (rt_zone_loop me lz (rt_master c lz me conn) conn o ord z)) as [|x l] eqn:S; [congruence|].
      apply existsb_exists. exists x. split.
      + apply Hord. assert (In x (x :: l)) as K by (left; reflexivity). rewrite <- S in K.
        apply rt_zone_loop_sends in K. tauto.
      + apply rt_mem_In. apply (rt_sends_of_zone c me lz conn o ord target log z x Hz). rewrite S. left. reflexivity. }
  rewrite C4. cbn [negb].
  (* clause 5 *)
  assert (C5: rt_skipped_b c me lz conn target (rt_sends r) (rt_skipped r) = true).
  { unfold rt_skipped_b. apply andb_true_iff. split.
    - apply forallb_forall. intros e He. unfold r, rt_relay in He. simpl in He.
      apply in_flat_map in He. destruct He as [a [H1 H2]]. apply in_map_iff in H1. destruct H1 as [z [H1 H3]]. subst a.
      unfold rt_zone_loop in H2. apply rt_fold_skipped in H2. simpl in H2. destruct H2 as [[]|[K1 [K2 K3]]].
      repeat (apply andb_true_iff; split).
      + apply negb_true_iff. apply Nat.eqb_neq. assumption.
      + apply rt_mem_In. assumption.
      + apply existsb_exists. exists z. split; [assumption|]. apply rt_mem_In. apply Hord. assumption.
    - apply forallb_forall. intros z Hz. apply forallb_forall. intros e He.
      destruct (e =? me) eqn:E1; [reflexivity|]. destruct (rt_mem e conn) eqn:E2; [|reflexivity]. cbn [negb orb].
      apply Nat.eqb_neq in E1. apply rt_mem_In in E2. apply Hord in He.
      destruct (rt_fold_cover me lz (rt_master c lz me conn) conn o z (ord z) rt_acc0 e He E1 E2) as [K|K].
      + assert (In e (rt_sends r)) as Q by (apply (rt_sends_of_zone c me lz conn o ord target log z e Hz); assumption).
        apply rt_mem_In in Q. rewrite Q. reflexivity.
      + assert (In e (rt_skipped r)) as Q by (apply (rt_skipped_of_zone c me lz conn o ord target log z e Hz); assumption).
        apply rt_mem_In in Q. rewrite Q. apply orb_true_r. }
  rewrite C5. reflexivity.
Qed.
