(* C11 - invariant + measure principle for the network relation of RtSched.v (generic in the message type and the
   effect of a delivery): a state invariant that every step preserves, under which every delivery processes only at
   fresh endpoints and strictly decreases a natural-number measure, and which implies the final condition when
   nothing is in flight, makes the state [rt_good] - i.e. EVERY schedule from it stops within (measure+1) steps,
   nobody processes twice, every quiescent state is final.  No bound on anything; used by RtChain*.v. *)
From Coq Require Import List Arith Bool PeanoNat Lia.
From Icv Require Import Route.RtSched.
Import ListNotations.

Section RtInv.
  Variable M : Type.
  Variable effect : M -> option (list M * list nat).
  Variable final : list nat -> bool.
  Variable Inv : rt_st M -> Prop.
  Variable mu : rt_st M -> nat.

  Hypothesis inv_wf : forall st m, Inv st -> In m (fst st) -> effect m <> None.
  Hypothesis inv_final : forall st, Inv st -> fst st = [] -> final (snd st) = true.
  Hypothesis inv_step : forall st np st', Inv st -> rt_sched_step M effect st np st' ->
    rt_fresh np (snd st) = true /\ Inv st' /\ mu st' < mu st.

  Theorem rt_inv_good : forall n st, Inv st -> mu st < n -> rt_good M effect final n st.
  Proof.
    induction n as [|n IH]; intros st I L; [lia|].
    cbn [rt_good]. split; [|split].
    - apply inv_final. assumption.
    - intros m Hm. apply (inv_wf st m I Hm).
    - intros np st' S. destruct (inv_step st np st' I S) as [F [I' D]]. split; [assumption|].
      apply IH; [assumption|lia].
  Qed.

  (* the statement about runs, with the measure as the explicit bound on the number of deliveries *)
  Theorem rt_inv_runs : forall st, Inv st ->
    forall k st', rt_sched_run M effect st k st' ->
      k <= mu st /\ Inv st' /\ (fst st' = [] -> final (snd st') = true) /\
      (forall np st'', rt_sched_step M effect st' np st'' -> rt_fresh np (snd st') = true).
  Proof.
    intros st I k st' R. revert I. induction R as [st|st np st1 k st2 S R IH]; intros I.
    - split; [lia|]. split; [assumption|]. split; [apply inv_final; assumption|].
      intros np st'' S. apply (inv_step st np st'' I S).
    - destruct (inv_step st np st1 I S) as [_ [I1 D]]. destruct (IH I1) as [K1 K2]. split; [lia|assumption].
  Qed.
End RtInv.
