(* C11 - how the finite families of RtNet.v are cut into shards for the kernel-evaluated sweeps *)
From Coq Require Import List Arith Bool.
From Icv Require Import Route.RtModel Route.RtNet.
Import ListNotations.

Definition rt_pairs (c : rt_cfg) : nat := length (rt_related_pairs c).
Definition rt_fam_g (lo hi : nat) : list rt_cfg :=
  filter (fun c => (lo <=? rt_pairs c) && (rt_pairs c <=? hi)) rt_global_trees.
(* target of a member of rt_global_trees: the global zone appended last *)
Definition rt_gtarget (c : rt_cfg) : nat := length c - 1.
Definition rt_sweep_g (l : list rt_cfg) : bool := forallb (fun c => rt_sweep_cfg c [rt_gtarget c]) l.
Definition rt_sweep_ch (l : list rt_cfg) : bool := forallb (fun c => rt_sweep_cfg c (seq 0 (length c))) l.
Definition rt_sweep_chg (l : list rt_cfg) : bool := forallb (fun c => rt_sweep_cfg (c ++ [rt_gzone]) [length c]) l.
