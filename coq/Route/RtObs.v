(* C11 - the per-step statement as an executable check over what ONE real SyncRelayMessage was
   observed to do (which connections got the message, whether the replay log grew).  It does not
   take the iteration order: which endpoint of a foreign zone was chosen is read from the run and
   only checked to be admissible. *)
From Coq Require Import List Arith Bool PeanoNat.
From Icv Require Import Route.RtModel Route.RtProofs.
Import ListNotations.

Fixpoint rt_nodup_b (l : list nat) : bool :=
  match l with
  | [] => true
  | x :: r => negb (rt_mem x r) && rt_nodup_b r
  end.

(* side conditions under which the single-entry and log statements are claimed: every relayed zone is
   iterated once, endpoints belong to one zone, the local zone has at most one other endpoint *)
Definition rt_pre_b (c : rt_cfg) (me lz target : nat) : bool :=
  rt_nodup_b (rt_relay_zones c lz target) &&
  rt_nodup_b (flat_map (rt_eps c) (seq 0 (length c))) &&
  (length (filter (rt_peer me) (rt_eps c lz)) <=? 1) &&
  forallb (fun z => z <? length c) (rt_relay_zones c lz target).

(* O1: entitled, directly related, connected, not back to the origin endpoint / origin zone, master rule *)
Definition rt_send_ok_b (c : rt_cfg) (me lz : nat) (conn : list nat) (o : rt_origin) (target : nat) (e : nat) : bool :=
  let master := rt_master c lz me conn in
  existsb (fun z => rt_mem e (rt_eps c z) && negb (rt_oeqb (rt_ozone o) (Some z))) (rt_relay_zones c lz target)
  && negb (e =? me) && rt_mem e conn && negb (rt_oeqb (rt_ofrom o) (Some e))
  && ((master =? me) || (e =? master)).

(* O2: a foreign zone is entered through at most one endpoint *)
Definition rt_single_b (c : rt_cfg) (lz target : nat) (sent : list nat) : bool :=
  forallb (fun z => (z =? lz) || (length (filter (fun e => rt_mem e (rt_eps c z)) sent) <=? 1))
          (rt_relay_zones c lz target).

(* O3: the persist decision *)
Definition rt_persist_spec (c : rt_cfg) (me lz : nat) (conn : list nat) (target : nat) (log : bool) : bool :=
  log && existsb (fun z => rt_unreachable me conn (rt_eps c z)) (rt_relay_zones c lz target).

(* O4: nothing is withheld: the master enters every relayed foreign zone that has a connected endpoint
   (other than the origin's zone / endpoint); inside the local zone the master reaches every connected
   peer and a non-master reaches the master *)
Definition rt_cand_b (me : nat) (conn : list nat) (o : rt_origin) (e : nat) : bool :=
  negb (e =? me) && rt_mem e conn && negb (rt_oeqb (rt_ofrom o) (Some e)).

Definition rt_complete_b (c : rt_cfg) (me lz : nat) (conn : list nat) (o : rt_origin) (target : nat) (sent : list nat) : bool :=
  let master := rt_master c lz me conn in
  forallb (fun z =>
    rt_oeqb (rt_ozone o) (Some z) ||
    (if z =? lz then
       forallb (fun e => negb (rt_cand_b me conn o e && ((master =? me) || (e =? master))) || rt_mem e sent) (rt_eps c z)
     else
       negb (master =? me) || negb (existsb (rt_cand_b me conn o) (rt_eps c z))
       || existsb (fun e => rt_mem e sent) (rt_eps c z)))
    (rt_relay_zones c lz target).

(* O5: every connected endpoint of a relayed zone is either sent to or has its log position advanced *)
Definition rt_skipped_b (c : rt_cfg) (me lz : nat) (conn : list nat) (target : nat) (sent skipped : list nat) : bool :=
  forallb (fun e => negb (e =? me) && rt_mem e conn &&
                    existsb (fun z => rt_mem e (rt_eps c z)) (rt_relay_zones c lz target)) skipped &&
  forallb (fun z => forallb (fun e => (e =? me) || negb (rt_mem e conn) || rt_mem e sent || rt_mem e skipped) (rt_eps c z))
          (rt_relay_zones c lz target).

(* result: 0 = ok, k = number of the first failed clause *)
Definition rt_oracle (c : rt_cfg) (me lz : nat) (conn : list nat) (o : rt_origin) (target : nat) (log : bool)
           (sent skipped : list nat) (persist : bool) : nat :=
  if negb (rt_pre_b c me lz target) then 0
  else if negb (forallb (rt_send_ok_b c me lz conn o target) sent) then 1
  else if negb (rt_single_b c lz target sent) then 2
  else if negb (Bool.eqb persist (rt_persist_spec c me lz conn target log)) then 3
  else if negb (rt_complete_b c me lz conn o target sent) then 4
  else if negb (rt_skipped_b c me lz conn target sent skipped) then 5
  else 0.
