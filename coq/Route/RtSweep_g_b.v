(* C11 - kernel-evaluated sweep, shard g_b (see RtNetProofs.v for how the shards are combined) *)
From Coq Require Import List Arith Bool.
From Icv Require Import Route.RtModel Route.RtNet Route.RtFamilies.
Import ListNotations.
Lemma rt_sweep_g_b : rt_sweep_g (rt_fam_g 10 10) = true.
Proof. vm_compute. reflexivity. Qed.
