(* C11 - GLOBAL target zone on zone trees of ARBITRARY depth and width, completeness half: under the statement's
   connectivity premise over the entitled zones (the originating zone and everything below it) every endpoint of every
   entitled zone has processed the event whenever nothing is in flight any more.  Same structure as
   RtChainComplete.v: covering invariant rt_tree_cov, preserved because under the premise nothing is withheld
   (rt_tree_relay_cov). *)
From Coq Require Import List Arith Bool PeanoNat Lia Permutation.
From Icv Require Import Route.RtModel Route.RtProofs Route.RtObs Route.RtOracleProofs Route.RtStepLemmas Route.RtLoad Route.RtNet
     Route.RtSched Route.RtNetSound Route.RtInv Route.RtChain Route.RtChainSafe Route.RtChainComplete Route.RtTree Route.RtTreeSafe.
Import ListNotations.

(* below Z means: equal to or below exactly one child of Z *)
Lemma rt_desc_via_child : forall c, rt_forest c -> forall ze Z, rt_desc c ze Z ->
  exists zc, rt_parent c zc = Some Z /\ (ze = zc \/ rt_desc c ze zc).
Proof.
  intros c F ze. induction ze as [ze IH] using lt_wf_ind. intros Z D.
  pose proof D as D'. unfold rt_desc in D'. rewrite rt_all_parents_unfold in D' by assumption.
  destruct (rt_parent c ze) as [p|] eqn:E; [|contradiction]. clear D'.
  apply (rt_desc_step c ze p Z F E) in D. destruct D as [D|D].
  - subst p. exists ze. auto.
  - destruct (IH p (F ze p E) Z D) as [zc [Z1 Z2]]. exists zc. split; [assumption|]. right.
    apply (rt_desc_step c ze p zc F E). destruct Z2 as [Z2|Z2]; auto.
Qed.

Section RtTreeCov.
  Variables (c : rt_cfg) (links : list (nat * nat)) (G : nat) (nord : nat -> nat -> list nat) (S0 : nat).
  Hypothesis Hwf : rt_tree_wf c.
  Hypothesis HG : rt_global c G = true.
  Hypothesis Hnord : rt_nord_ok c nord.
  Hypothesis HS0 : rt_global c S0 = false.
  Hypothesis Hprem : rt_premise c links (rt_entitled_zones c G S0) = true.

  (* entitled: the originating zone and everything below it *)
  Definition rt_ent (z : nat) : Prop := z = S0 \/ rt_desc c z S0.

  Lemma rt_tree_Fo : rt_forest c.
  Proof. destruct Hwf as [F _]. assumption. Qed.

  Lemma rt_ent_zs : forall z, z < length c -> rt_ent z -> In z (rt_entitled_zones c G S0).
  Proof.
    intros z L E. unfold rt_entitled_zones. rewrite HG. apply filter_In. split; [apply in_seq; lia|].
    apply andb_true_iff. split.
    - unfold rt_is_child_of. apply orb_true_iff. destruct E as [E|E]; [left; apply Nat.eqb_eq; assumption | right; apply rt_mem_In; assumption].
    - apply negb_true_iff. destruct E as [E|E]; [subst; assumption|].
      unfold rt_desc in E. rewrite rt_all_parents_unfold in E by apply rt_tree_Fo.
      destruct (rt_parent c z) as [p|] eqn:P; [|contradiction]. destruct Hwf as [_ [Hg _]]. apply (Hg z p P).
  Qed.

  Lemma rt_ent_child : forall z zc, rt_ent z -> rt_parent c zc = Some z -> rt_ent zc.
  Proof.
    intros z zc E P. right. apply (rt_desc_step c zc z S0 rt_tree_Fo P). destruct E as [E|E]; auto.
  Qed.

  Lemma rt_gprem_peers : forall z a b, z < length c -> rt_ent z -> In a (rt_eps c z) -> In b (rt_eps c z) -> a <> b ->
    In b (rt_view links a).
  Proof. intros z a b L E. apply (rt_premise_spec c links _ Hprem z). apply rt_ent_zs; assumption. Qed.

  Lemma rt_gprem_adjacent : forall z zc, z < length c -> rt_ent z -> rt_parent c zc = Some z ->
    exists e, In e (rt_eps c zc) /\ In e (rt_view links (rt_zmaster c z)).
  Proof.
    intros z zc L E P.
    apply (rt_premise_spec c links _ Hprem z).
    - apply rt_ent_zs; assumption.
    - apply rt_ent_zs; [eapply rt_parent_range; eassumption | eapply rt_ent_child; eassumption].
    - unfold rt_adjacent. rewrite P. simpl. rewrite Nat.eqb_refl. apply orb_true_r.
  Qed.

  Lemma rt_gprem_master : forall z t, z < length c -> rt_ent z -> In t (rt_eps c z) ->
    rt_master c z t (rt_view links t) = rt_zmaster c z.
  Proof.
    intros z t L E Ht.
    assert (rt_eps c z <> []) as NE by (intros Q; rewrite Q in Ht; contradiction).
    destruct (rt_zmaster_spec c z NE) as [Z1 Z2].
    destruct (rt_master_cases c z t (rt_view links t)) as [M1 [M2 M3]].
    assert (In (rt_master c z t (rt_view links t)) (rt_eps c z)) as MI.
    { destruct M1 as [M1|[M1 _]]; [rewrite M1|]; assumption. }
    pose proof (Z2 _ MI) as A.
    assert (rt_master c z t (rt_view links t) <= rt_zmaster c z) as B.
    { destruct (Nat.eq_dec (rt_zmaster c z) t) as [Q|Q]; [rewrite Q; assumption|].
      apply M3; [assumption|]. apply (rt_gprem_peers z t (rt_zmaster c z) L E Ht Z1). auto. }
    lia.
  Qed.

  Section RtRelayCov.
    Variables (t Z : nat) (o : rt_origin).
    Hypothesis Ht : rt_zone_of c t = Some Z.
    Hypothesis HZ : rt_ent Z.
    Hypothesis O1 : rt_ozone o <> Some Z.
    Hypothesis O1' : forall zc, rt_parent c zc = Some Z -> rt_ozone o <> Some zc.
    Hypothesis O2 : forall f zf, rt_ofrom o = Some f -> rt_zone_of c f = Some zf -> zf = Z \/ rt_ozone o = Some zf.
    Hypothesis O3 : rt_master c Z t (rt_view links t) = t \/ rt_ofrom o <> Some (rt_master c Z t (rt_view links t)).

    Local Notation conn := (rt_view links t).
    Local Notation master := (rt_master c Z t (rt_view links t)).
    Local Notation sends := (rt_sends (rt_relay c t Z (rt_view links t) o (nord t) G true)).
    Local Notation mk := (fun x : nat => {| rt_mfrom := t; rt_mto := x; rt_moz := rt_ozone o |}).

    Lemma rt_gcov_Z : Z < length c /\ In t (rt_eps c Z).
    Proof. apply rt_zone_of_some. assumption. Qed.

    Lemma rt_gcov_send_local : forall e, In e (rt_eps c Z) -> e <> t -> In e conn -> rt_ofrom o <> Some e ->
      (master = t \/ e = master) -> In e sends.
    Proof.
      intros e He Ne Hc Ho Hm.
      apply (rt_sends_of_zone c t Z conn o (nord t) G true Z e).
      - apply (rt_tree_relay_zones_in c Z G Z Hwf HG). auto.
      - unfold rt_zone_loop. apply rt_fold_send_local; try assumption; [reflexivity|].
        apply (rt_g_ord_in c (nord t) (Hnord t)). assumption.
    Qed.

    Lemma rt_gcov_send_foreign : forall zc, rt_parent c zc = Some Z -> master = t ->
      exists x, In x sends /\ rt_zone_of c x = Some zc.
    Proof.
      intros zc P M. destruct rt_gcov_Z as [LZ InZ]. pose proof (rt_tree_nd c Hwf) as ND.
      pose proof (rt_tree_Fo zc Z P) as Lt.
      assert (In zc (rt_relay_zones c Z G)) as RZ by (apply (rt_tree_relay_zones_in c Z G zc Hwf HG); auto).
      destruct (rt_gprem_adjacent Z zc LZ HZ P) as [e0 [E1 E2]].
      rewrite <- (rt_gprem_master Z t LZ HZ InZ) in E2. rewrite M in E2.
      assert (rt_zone_of c e0 = Some zc) as Ze0.
      { apply rt_zone_of_in; [assumption| |assumption]. eapply rt_parent_range; eassumption. }
      assert (e0 <> t) as Ne0 by (intros Q; subst; rewrite Ht in Ze0; inversion Ze0; lia).
      assert (rt_ofrom o <> Some e0) as No0.
      { intros Q. destruct (O2 e0 zc Q Ze0) as [K|K]; [lia|]. exact (O1' zc P K). }
      assert (rt_relayed (rt_zone_loop t Z master conn o (nord t) zc) = true) as R.
      { unfold rt_zone_loop. apply rt_fold_relayed_foreign with (e := e0); try assumption.
        - apply (rt_g_ord_in c (nord t) (Hnord t)). assumption.
        - apply O1'. assumption. }
      assert (rt_asends (rt_zone_loop t Z master conn o (nord t) zc) <> []) as N.
      { unfold rt_zone_loop in *. apply rt_fold_relayed_nonempty; [simpl; discriminate | assumption]. }
      destruct (rt_asends (rt_zone_loop t Z master conn o (nord t) zc)) as [|x l] eqn:S; [congruence|].
      assert (In x (rt_asends (rt_zone_loop t Z master conn o (nord t) zc))) as Hx by (rewrite S; left; reflexivity).
      exists x. split.
      - apply (rt_sends_of_zone c t Z conn o (nord t) G true zc x RZ). assumption.
      - apply rt_zone_loop_sends in Hx. destruct Hx as [Hx _].
        apply (rt_g_ord_zone c (nord t) ND (Hnord t) zc x Hx).
    Qed.

    Theorem rt_tree_relay_cov : forall e, rt_gregionP c t Z o e ->
      exists x, In x sends /\ rt_gfutP c links (mk x) e.
    Proof.
      intros e [ze [Ee [Ne R]]]. destruct rt_gcov_Z as [LZ InZ]. pose proof rt_tree_Fo as Fo.
      pose proof (rt_tree_nd c Hwf) as ND.
      destruct (Nat.eq_dec master t) as [M|M].
      - destruct R as [[R1 R2]|R].
        + subst ze. destruct (rt_zone_of_some c e Z Ee) as [_ InE].
          exists e. split.
          * apply rt_gcov_send_local; auto. apply (rt_gprem_peers Z t e LZ HZ InZ InE). auto.
          * apply (rt_gfutP_new c links t Z o Ht e Z e Ee). left. reflexivity.
        + destruct (rt_desc_via_child c Fo ze Z R) as [zc [P D]].
          destruct (rt_gcov_send_foreign zc P M) as [x [X1 X2]].
          pose proof (Fo zc Z P) as Lt.
          exists x. split; [assumption|]. apply (rt_gfutP_new c links t Z o Ht x zc e X2).
          destruct (Nat.eq_dec e x) as [Q|Q]; [left; assumption|right].
          split; [left; lia|]. exists ze. split; [assumption|]. split; [assumption|].
          destruct D as [D|D]; [|right; assumption]. left. split; [assumption|]. cbn [rt_ofrom]. intros K. inversion K. congruence.
      - destruct O3 as [O3'|O3']; [contradiction|].
        destruct (rt_master_cases c Z t conn) as [[K|[K1 K2]] _]; [contradiction|].
        assert (rt_zone_of c master = Some Z) as Zu by (apply rt_zone_of_in; assumption).
        assert (In master sends) as Su by (apply rt_gcov_send_local; auto).
        assert (rt_master c Z master (rt_view links master) = master) as Mu.
        { rewrite (rt_gprem_master Z master LZ HZ K1). symmetry. apply (rt_gprem_master Z t LZ HZ InZ). }
        exists master. split; [assumption|]. apply (rt_gfutP_new c links t Z o Ht master Z e Zu).
        destruct (Nat.eq_dec e master) as [Q|Q]; [left; assumption|right].
        split; [right; assumption|].
        exists ze. split; [assumption|]. split; [assumption|].
        destruct R as [[R1 R2]|R]; [|right; assumption].
        subst ze. exfalso. destruct (rt_tree_two c Hwf Z t master e Ht Zu Ee); [auto| |]; congruence.
    Qed.
  End RtRelayCov.

  Local Notation eff := (rt_effect c links G nord).

  Definition rt_gmwfT (m : rt_msg) : Prop :=
    exists Zf, rt_zone_of c (rt_mfrom m) = Some Zf /\ rt_ent Zf /\
      forall z', rt_moz m = Some z' -> z' <> Zf /\ rt_parent c z' <> Some Zf.

  Definition rt_tree_cov (st : rt_st rt_msg) : Prop :=
    (forall m, In m (fst st) -> rt_gmwfT m) /\
    (forall e ze, rt_zone_of c e = Some ze -> rt_ent ze ->
       In e (snd st) \/ exists m, In m (fst st) /\ rt_gfutP c links m e).

  Theorem rt_tree_step_cov : forall m new np, rt_gmwf c links m -> rt_gmwfT m -> eff m = Some (new, np) ->
    np = [rt_mto m] /\ (forall m', In m' new -> rt_gmwfT m') /\
    (forall e, rt_gfutP c links m e -> e = rt_mto m \/ exists m', In m' new /\ rt_gfutP c links m' e).
  Proof.
    intros m new np W WT H. pose proof rt_tree_Fo as Fo.
    destruct W as [Zf [Z [E1 [E2 W]]]]. destruct WT as [Zf' [E1' [EF St]]].
    assert (Zf' = Zf) by congruence. subst Zf'.
    assert (rt_ent Z) as EZ.
    { destruct W as [[W _]|W]; [subst; assumption|]. eapply rt_ent_child; eassumption. }
    assert (Zf = Z \/ (Zf <> Z /\ rt_parent c Z = Some Zf)) as Wz.
    { destruct W as [[W _]|W]; [auto|]. right. split; [|assumption]. apply Fo in W. lia. }
    set (o := rt_recv_origin c Z (Some (rt_mfrom m)) (rt_moz m)).
    assert (rt_ofrom o = Some (rt_mfrom m)) as Of by reflexivity.
    assert (rt_ozone o = if Zf =? Z then rt_moz m else Some Zf) as Oz.
    { unfold o, rt_recv_origin. simpl. rewrite E1. simpl. reflexivity. }
    assert (forall z', rt_ozone o = Some z' -> z' <> Z /\ rt_parent c z' <> Some Z) as Ost.
    { intros z' Q. rewrite Oz in Q. destruct (Zf =? Z) eqn:B.
      - apply Nat.eqb_eq in B. subst Zf. apply St. assumption.
      - apply Nat.eqb_neq in B. inversion Q. subst z'. split; [assumption|].
        destruct Wz as [Wz|[_ Wz]]; [contradiction|]. intros K. apply Fo in K. apply Fo in Wz. lia. }
    assert (rt_accepts c o G = true) as Acc.
    { unfold rt_accepts. destruct (rt_ozone o); [|reflexivity]. unfold rt_can_access. rewrite HG. reflexivity. }
    assert (new = rt_mk_msgs (rt_mto m) (rt_ozone o)
                    (rt_sends (rt_relay c (rt_mto m) Z (rt_view links (rt_mto m)) o (nord (rt_mto m)) G true)) /\
            np = [rt_mto m]) as [Hn Hp].
    { unfold rt_effect in H. rewrite E2 in H. fold o in H. rewrite Acc in H. simpl in H.
      injection H as H1 H2. split; symmetry; assumption. }
    split; [assumption|]. split.
    - intros m' Hm'. rewrite Hn in Hm'. unfold rt_mk_msgs in Hm'. apply in_map_iff in Hm'.
      destruct Hm' as [x [Q _]]. subst m'. exists Z. simpl. auto.
    - intros e [Zf2 [Z2 [F1 [F2 F]]]]. assert (Zf2 = Zf) by congruence. assert (Z2 = Z) by congruence. subst Zf2 Z2.
      destruct F as [F|[F1' F2']]; [left; assumption|right]. fold o in F2'.
      destruct (rt_tree_relay_cov (rt_mto m) Z o E2 EZ) with (e := e) as [x [X1 X2]].
      + intros Q. apply Ost in Q. tauto.
      + intros zc P Q. apply Ost in Q. tauto.
      + intros f zf Q1 Q2. rewrite Of in Q1. inversion Q1. subst f. assert (zf = Zf) by congruence. subst zf.
        rewrite Oz. destruct (Zf =? Z) eqn:B; [left; apply Nat.eqb_eq; assumption | right; reflexivity].
      + destruct F1' as [F1'|F1']; [|left; assumption].
        destruct (rt_master_cases c Z (rt_mto m) (rt_view links (rt_mto m))) as [[K|[K _]] _]; [left; assumption|right].
        rewrite Of. intros Q. inversion Q as [Q']. rewrite <- Q' in K.
        destruct (rt_zone_of_some c _ _ E2) as [Lz _].
        apply (rt_zone_of_in c _ Z (rt_tree_nd c Hwf) Lz) in K. congruence.
      + assumption.
      + exists {| rt_mfrom := rt_mto m; rt_mto := x; rt_moz := rt_ozone o |}. split; [|assumption].
        rewrite Hn. unfold rt_mk_msgs. apply (in_map (fun e0 => {| rt_mfrom := rt_mto m; rt_mto := e0; rt_moz := rt_ozone o |})). assumption.
  Qed.

  Theorem rt_tree_cov_step : forall st np st', rt_tree_inv c links st -> rt_tree_cov st ->
    rt_sched_step rt_msg eff st np st' -> rt_tree_cov st'.
  Proof.
    intros st np st' [I1 _] [C1 C2] S. inversion S as [pre m post P new np0 Em]. subst. cbn [fst snd] in *.
    assert (In m (pre ++ m :: post)) as Hm by (apply in_or_app; right; left; reflexivity).
    destruct (rt_tree_step_cov m new np (I1 m Hm) (C1 m Hm) Em) as [Hnp [Hw Hc]].
    split.
    - intros m' Hm'. apply in_app_or in Hm'. destruct Hm' as [Hm'|Hm'].
      + apply C1. apply in_or_app. left. assumption.
      + apply in_app_or in Hm'. destruct Hm' as [Hm'|Hm']; [|apply Hw; assumption].
        apply C1. apply in_or_app. right. right. assumption.
    - intros e ze Ee Le. destruct (C2 e ze Ee Le) as [K|[m0 [K1 K2]]].
      + left. apply in_or_app. right. assumption.
      + apply in_app_or in K1. destruct K1 as [K1|[K1|K1]].
        * right. exists m0. split; [apply in_or_app; left; assumption|assumption].
        * subst m0. destruct (Hc e K2) as [Q|[m' [Q1 Q2]]].
          -- left. subst. left. reflexivity.
          -- right. exists m'. split; [|assumption]. apply in_or_app. right. apply in_or_app. right. assumption.
        * right. exists m0. split; [|assumption]. apply in_or_app. right. apply in_or_app. left. assumption.
  Qed.

  Theorem rt_tree_cov_init : forall s, rt_zone_of c s = Some S0 -> rt_tree_cov (rt_init c links G nord s S0).
  Proof.
    intros s E. unfold rt_init, rt_tree_cov. cbn [fst snd]. split.
    - intros m Hm. unfold rt_mk_msgs in Hm. apply in_map_iff in Hm. destruct Hm as [x [Q _]]. subst m.
      exists S0. simpl. split; [assumption|]. split; [left; reflexivity|]. intros z' K. discriminate.
    - intros e ze Ee Le. destruct (Nat.eq_dec e s) as [Q|Q]; [left; left; auto|right].
      destruct (rt_tree_relay_cov s S0 rt_no_origin E (or_introl eq_refl)) with (e := e) as [x [X1 X2]].
      + simpl. discriminate.
      + simpl. intros zc _. discriminate.
      + simpl. intros f zf K. discriminate.
      + right. simpl. discriminate.
      + exists ze. split; [assumption|]. split; [assumption|]. simpl.
        destruct Le as [Le|Le]; [left; split; [assumption|discriminate] | right; assumption].
      + exists {| rt_mfrom := s; rt_mto := x; rt_moz := None |}. split; [|assumption].
        unfold rt_mk_msgs. apply (in_map (fun e0 => {| rt_mfrom := s; rt_mto := e0; rt_moz := None |})). assumption.
  Qed.
End RtTreeCov.

Theorem rt_tree_complete : forall c links G nord s lz,
  rt_tree_wf c -> rt_global c G = true -> rt_nord_ok c nord -> rt_zone_of c s = Some lz ->
  forall k st', rt_sched_run rt_msg (rt_effect c links G nord) (rt_init c links G nord s lz) k st' ->
    fst st' = [] -> rt_final_complete c links G lz (snd st') = true.
Proof.
  intros c links G nord s lz Hwf HG Hnord E k st' R F.
  unfold rt_final_complete.
  destruct (rt_mem lz (rt_entitled_zones c G lz) && rt_premise c links (rt_entitled_zones c G lz)) eqn:P; [|reflexivity].
  cbn [negb orb]. apply andb_true_iff in P. destruct P as [P1 P2].
  assert (rt_global c lz = false) as HS0.
  { apply rt_mem_In in P1. unfold rt_entitled_zones in P1. rewrite HG in P1. apply filter_In in P1.
    destruct P1 as [_ P1]. apply andb_true_iff in P1. destruct P1 as [_ P1]. apply negb_true_iff in P1. assumption. }
  assert (forall st0 k0 st1, rt_sched_run rt_msg (rt_effect c links G nord) st0 k0 st1 ->
            rt_tree_inv c links st0 -> rt_tree_cov c links lz st0 -> rt_tree_cov c links lz st1) as Run.
  { intros st0 k0 st1 R0. induction R0 as [st|st np st1 k1 st2 S R0 IH]; intros I C; [assumption|].
    apply IH.
    - apply (rt_tree_inv_step c links G nord Hwf HG Hnord st np st1 I S).
    - apply (rt_tree_cov_step c links G nord lz Hwf HG Hnord HS0 P2 st np st1 I C S). }
  destruct (rt_tree_init c links G nord Hwf HG Hnord s lz E) as [I0 _].
  pose proof (Run _ _ _ R I0 (rt_tree_cov_init c links G nord lz Hwf HG Hnord HS0 P2 s E)) as [_ C].
  apply forallb_forall. intros e He. apply in_flat_map in He. destruct He as [z [Z1 Z2]].
  unfold rt_entitled_zones in Z1. rewrite HG in Z1. apply filter_In in Z1. destruct Z1 as [Z0 Z1].
  apply in_seq in Z0. apply andb_true_iff in Z1. destruct Z1 as [Z1 _].
  assert (rt_ent c lz z) as Ez.
  { unfold rt_is_child_of in Z1. apply orb_true_iff in Z1. destruct Z1 as [Z1|Z1];
      [left; apply Nat.eqb_eq; assumption | right; apply rt_mem_In; assumption]. }
  apply rt_mem_In.
  assert (rt_zone_of c e = Some z) as Ze.
  { apply rt_zone_of_in; [apply (rt_tree_nd c Hwf)|lia|assumption]. }
  destruct (C e z Ze Ez) as [K|[m [K _]]]; [assumption|]. rewrite F in K. contradiction.
Qed.

(* packaging *)
Theorem rt_tree_finite_once_run : forall c links G s lz nord,
  rt_tree_wf c -> rt_global c G = true -> rt_zone_of c s = Some lz -> rt_nord_ok c nord ->
  forall k st', rt_sched_run rt_msg (rt_effect c links G nord) (rt_init c links G nord s lz) k st' ->
    k < length (flat_map rt_zeps c) /\ k < rt_fuel c /\
    (forall np st'', rt_sched_step rt_msg (rt_effect c links G nord) st' np st'' -> rt_fresh np (snd st') = true).
Proof.
  intros c links G s lz nord Hwf HG E Hn k st' R.
  destruct (rt_tree_finite_once c links G nord Hwf HG Hn s lz E k st' R) as [K1 [_ [_ K2]]].
  rewrite rt_all_eps_zeps in K1. split; [assumption|]. split; [unfold rt_fuel; lia|assumption].
Qed.

Definition rt_tree_wf_b (c : rt_cfg) : bool :=
  forallb (fun z => match rt_parent c z with
                    | None => true
                    | Some p => (p <? z) && negb (rt_global c z) && negb (rt_global c p)
                    end) (seq 0 (length c)) &&
  forallb (fun zr => length (rt_zeps zr) <=? 2) c && rt_nodup_b (rt_all_eps c).

Lemma rt_tree_wf_b_spec : forall c, rt_tree_wf_b c = true -> rt_tree_wf c.
Proof.
  intros c H. unfold rt_tree_wf_b in H. apply andb_true_iff in H. destruct H as [H H3].
  apply andb_true_iff in H. destruct H as [H1 H2]. rewrite forallb_forall in H1, H2.
  assert (forall z p, rt_parent c z = Some p -> p < z /\ rt_global c z = false /\ rt_global c p = false) as K.
  { intros z p E. pose proof (rt_parent_range c z p E) as L.
    assert (In z (seq 0 (length c))) as I by (apply in_seq; lia). specialize (H1 z I). rewrite E in H1.
    apply andb_true_iff in H1. destruct H1 as [H1 H1c]. apply andb_true_iff in H1. destruct H1 as [H1a H1b].
    apply Nat.ltb_lt in H1a. apply negb_true_iff in H1b. apply negb_true_iff in H1c. auto. }
  split; [|split; [|split]].
  - intros z p E. apply (K z p E).
  - intros z p E. apply (K z p E).
  - intros z. unfold rt_eps, rt_getz. destruct (nth_in_or_default z c rt_zdummy) as [Q|Q].
    + apply Nat.leb_le. apply H2. assumption.
    + rewrite Q. simpl. lia.
  - apply rt_nodup_b_NoDup. assumption.
Qed.
