(* C11 - scheduling theory of the network, independent of what a delivery does.
   A network state is (in-flight messages, endpoints that processed the event).  Delivering a message m has an
   effect that depends on m only - the new messages it puts in flight and the endpoints (none or one) that
   process the event - because a relay step reads nothing but the configuration, the receiver's view and the
   message (RtModel.rt_relay has no state).  Hence deliveries of different in-flight messages COMMUTE, and the
   verdict of the representative schedule "always deliver the oldest message" ([rt_run1]) holds for every
   schedule ([rt_run1_good]): this is the partial-order reduction the sweeps rely on. *)
From Coq Require Import List Arith Bool PeanoNat Lia Permutation.
Import ListNotations.

Section RtSched.
  Variable M : Type.                                   (* messages *)
  Variable effect : M -> option (list M * list nat).   (* None: ill-formed (receiver in no zone) *)
  Variable final : list nat -> bool.
  Hypothesis final_ext : forall P P', (forall x, In x P <-> In x P') -> final P = final P'.

  Definition rt_st : Type := (list M * list nat)%type.

  (* small-step relation: any in-flight message may be delivered next; the label is the set of endpoints
     that process the event in this step *)
  Inductive rt_sched_step : rt_st -> list nat -> rt_st -> Prop :=
  | rt_sched_deliver : forall pre m post P new np,
      effect m = Some (new, np) ->
      rt_sched_step (pre ++ m :: post, P) np (pre ++ post ++ new, np ++ P).

  Definition rt_fresh (np P : list nat) : bool := negb (existsb (fun e => existsb (Nat.eqb e) P) np).

  (* the representative schedule: oldest message first, new messages queue up behind *)
  Fixpoint rt_run1 (fuel : nat) (l : list M) (P : list nat) : bool :=
    match fuel with
    | 0 => false
    | S f =>
        match l with
        | [] => final P
        | m :: rest =>
            match effect m with
            | None => false
            | Some (new, np) => rt_fresh np P && rt_run1 f (rest ++ new) (np ++ P)
            end
        end
    end.

  (* all schedules: within [n] deliveries every run stops, nobody processes twice, the end state is final *)
  Fixpoint rt_good (n : nat) (st : rt_st) : Prop :=
    match n with
    | 0 => False
    | S k =>
        (fst st = [] -> final (snd st) = true) /\
        (forall m, In m (fst st) -> effect m <> None) /\
        (forall np st', rt_sched_step st np st' -> rt_fresh np (snd st) = true /\ rt_good k st')
    end.

  Lemma rt_fresh_ext : forall np P P', (forall x, In x P <-> In x P') -> rt_fresh np P = rt_fresh np P'.
  Proof.
    intros np P P' H. unfold rt_fresh. f_equal. induction np as [|e np IH]; simpl; [reflexivity|].
    rewrite IH. f_equal. apply eq_true_iff_eq. rewrite !existsb_exists.
    split; intros [x [H1 H2]]; exists x; split; try assumption; apply H; assumption.
  Qed.

  Lemma rt_fresh_spec : forall np P, rt_fresh np P = true <-> (forall e, In e np -> ~ In e P).
  Proof.
    intros np P. unfold rt_fresh. rewrite negb_true_iff. split.
    - intros H e He K. assert (existsb (fun e => existsb (Nat.eqb e) P) np = true); [|congruence].
      apply existsb_exists. exists e. split; [assumption|]. apply existsb_exists. exists e. split; [assumption|apply Nat.eqb_refl].
    - intros H. apply not_true_is_false. intros K. apply existsb_exists in K. destruct K as [e [K1 K2]].
      apply existsb_exists in K2. destruct K2 as [x [K2 K3]]. apply Nat.eqb_eq in K3. subst x. exact (H e K1 K2).
  Qed.

  (* the verdict of the representative schedule does not depend on the order of the queue nor on the order in
     which endpoints were recorded: the commutation lemma *)
  Lemma rt_run1_perm : forall fuel l l' P P',
    Permutation l l' -> (forall x, In x P <-> In x P') -> rt_run1 fuel l P = rt_run1 fuel l' P'.
  Proof.
    induction fuel as [fuel IHf] using lt_wf_ind. intros l l' P P' Hp. revert P P'.
    induction Hp as [|a l l' Hp IH|a b l|l1 l2 l3 H12 IH12 H23 IH23]; intros P P' HP.
    - destruct fuel; simpl; [reflexivity|]. apply final_ext. assumption.
    - destruct fuel as [|f]; simpl; [reflexivity|].
      destruct (effect a) as [[new np]|]; [|reflexivity].
      rewrite (rt_fresh_ext np P P' HP). f_equal. apply IHf; [lia| |].
      + apply Permutation_app_tail. assumption.
      + intros x. rewrite !in_app_iff. rewrite HP. tauto.
    - (* swap *)
      destruct fuel as [|f]; simpl; [reflexivity|].
      destruct (effect b) as [[newb npb]|] eqn:Eb, (effect a) as [[newa npa]|] eqn:Ea.
      + destruct f as [|f]; simpl.
        { rewrite !andb_false_r. reflexivity. }
        rewrite Ea, Eb.
        assert (F: forall X Y Q, rt_fresh X (Y ++ Q) = rt_fresh X Q && rt_fresh X Y).
        { intros X Y Q. apply eq_true_iff_eq. rewrite andb_true_iff, !rt_fresh_spec.
          split.
          - intros H. split; intros e He K; apply (H e He); apply in_or_app; auto.
          - intros [H1 H2] e He K. apply in_app_or in K. destruct K as [K|K]; [exact (H2 e He K)|exact (H1 e He K)]. }
        rewrite !F.
        rewrite (rt_fresh_ext npb P P' HP), (rt_fresh_ext npa P P' HP).
        assert (S: rt_fresh npa npb = rt_fresh npb npa).
        { apply eq_true_iff_eq. rewrite !rt_fresh_spec. split; intros H e He K; exact (H e K He). }
        rewrite S.
        assert (R: rt_run1 f ((l ++ newb) ++ newa) (npa ++ npb ++ P) = rt_run1 f ((l ++ newa) ++ newb) (npb ++ npa ++ P')).
        { apply IHf; [lia| |].
          - rewrite <- !app_assoc. apply Permutation_app_head. apply Permutation_app_comm.
          - intros x. rewrite !in_app_iff. rewrite HP. tauto. }
        rewrite R.
        destruct (rt_fresh npb P'), (rt_fresh npa P'), (rt_fresh npb npa); simpl; rewrite ?andb_false_r; reflexivity.
      + destruct f as [|f]; simpl; [rewrite !andb_false_r; reflexivity|]. rewrite Ea. rewrite andb_false_r. reflexivity.
      + destruct f as [|f]; simpl; [rewrite !andb_false_r; reflexivity|]. rewrite Eb. rewrite andb_false_r. reflexivity.
      + reflexivity.
    - rewrite (IH12 P P) by tauto. apply IH23. assumption.
  Qed.

  Lemma rt_run1_front : forall fuel pre m post P,
    rt_run1 fuel (pre ++ m :: post) P = rt_run1 fuel (m :: pre ++ post) P.
  Proof.
    intros. apply rt_run1_perm; [|tauto]. apply Permutation_sym. apply Permutation_middle.
  Qed.

  (* soundness of the reduction: what the representative schedule reports holds of ALL schedules *)
  Theorem rt_run1_good : forall n l P, rt_run1 n l P = true -> rt_good n (l, P).
  Proof.
    induction n as [|k IH]; intros l P H; [simpl in H; discriminate|].
    cbn [rt_good fst snd]. split; [|split].
    - intros E. subst l. simpl in H. assumption.
    - intros m Hm. apply in_split in Hm. destruct Hm as [pre [post E]]. subst l.
      rewrite rt_run1_front in H. simpl in H. intros K. rewrite K in H. discriminate.
    - intros np st' Hs. inversion Hs as [pre m post P0 new np0 Em E1 E2 E3]. subst.
      rewrite rt_run1_front in H. simpl in H. rewrite Em in H.
      apply andb_true_iff in H. destruct H as [H1 H2]. split; [assumption|].
      apply IH. rewrite <- app_assoc in H2. assumption.
  Qed.

  (* ... and conversely: the representative schedule is one of the schedules *)
  Theorem rt_good_run1 : forall n l P, rt_good n (l, P) -> rt_run1 n l P = true.
  Proof.
    induction n as [|k IH]; intros l P H; [simpl in H; contradiction|].
    cbn [rt_good fst snd] in H. destruct H as [H1 [H2 H3]].
    destruct l as [|m rest]; simpl; [auto|].
    destruct (effect m) as [[new np]|] eqn:Em.
    - destruct (H3 np (rest ++ new, np ++ P)) as [K1 K2].
      { pose proof (rt_sched_deliver [] m rest P new np Em) as S. simpl in S. exact S. }
      rewrite K1. simpl. apply IH. assumption.
    - exfalso. apply (H2 m); [left; reflexivity|assumption].
  Qed.

  (* runs as sequences of steps *)
  Inductive rt_sched_run : rt_st -> nat -> rt_st -> Prop :=
  | rt_run_nil : forall st, rt_sched_run st 0 st
  | rt_run_cons : forall st np st' k st'', rt_sched_step st np st' -> rt_sched_run st' k st'' -> rt_sched_run st (S k) st''.

  (* every run from a good state is shorter than n (finitely many transmissions); whenever it stops with nothing
     in flight the end state is final; and every further step processes only at fresh endpoints *)
  Theorem rt_good_runs : forall n st, rt_good n st ->
    forall k st', rt_sched_run st k st' ->
      k < n /\ (fst st' = [] -> final (snd st') = true) /\
      (forall np st'', rt_sched_step st' np st'' -> rt_fresh np (snd st') = true).
  Proof.
    induction n as [|n IH]; intros st G k st' R; [simpl in G; contradiction|].
    cbn [rt_good] in G. destruct G as [G1 [G2 G3]].
    inversion R as [|s0 np s1 k0 s2 S0 R0]; subst.
    - split; [lia|]. split; [assumption|]. intros np st'' S. apply (G3 np st'' S).
    - destruct (G3 np s1 S0) as [_ G]. destruct (IH s1 G k0 st' R0) as [K1 K2]. split; [lia|assumption].
  Qed.
End RtSched.
