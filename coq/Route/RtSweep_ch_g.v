(* C11 - kernel-evaluated sweep, shard ch_g (see RtNetProofs.v for how the shards are combined) *)
From Coq Require Import List Arith Bool.
From Icv Require Import Route.RtModel Route.RtNet Route.RtFamilies.
Import ListNotations.
Lemma rt_sweep_ch_g : rt_sweep_chg rt_chains = true.
Proof. vm_compute. reflexivity. Qed.
