(* C11 - zone TREES of arbitrary depth and width with a GLOBAL target zone: the configuration class, the ancestor
   relation (unfolding equation for rt_all_parents on acyclic forests, uniqueness of the child through which a
   descendant hangs), what a relay step iterates (the local zone and its direct children) and the structure of its
   send list.  Basis of the unbounded induction in RtTreeSafe.v / RtTreeComplete.v. *)
From Coq Require Import List Arith Bool PeanoNat Lia Permutation.
From Icv Require Import Route.RtModel Route.RtProofs Route.RtOracleProofs Route.RtLoad Route.RtNet Route.RtChain.
Import ListNotations.

(* acyclic forest (parents carry smaller numbers - every finite forest can be numbered that way), global zones are
   isolated (no parent, no children: Zone::OnAllConfigLoaded rejects a global parent), at most two endpoints per
   zone, every endpoint in one zone; names arbitrary, any number of children per zone, any depth *)
Definition rt_tree_wf (c : rt_cfg) : Prop :=
  rt_forest c /\
  (forall z p, rt_parent c z = Some p -> rt_global c z = false /\ rt_global c p = false) /\
  (forall z, length (rt_eps c z) <= 2) /\
  NoDup (rt_all_eps c).

(* ---------------------------------------------------------------- ancestors *)
Lemma rt_parent_range : forall c z p, rt_parent c z = Some p -> z < length c.
Proof.
  intros c z p H. destruct (le_lt_dec (length c) z) as [L|L]; [|assumption].
  unfold rt_parent, rt_getz in H. rewrite nth_overflow in H by assumption. discriminate.
Qed.

Lemma rt_parents_from_fuel : forall c, rt_forest c -> forall f f' z, z <= f -> z <= f' ->
  rt_parents_from c f z = rt_parents_from c f' z.
Proof.
  intros c F. induction f as [|f IH]; intros f' z L L'.
  - assert (z = 0) by lia. subst. destruct f'; simpl; [reflexivity|].
    destruct (rt_parent c 0) as [p|] eqn:E; [|reflexivity]. apply F in E. lia.
  - destruct f' as [|f'].
    + assert (z = 0) by lia. subst. simpl. destruct (rt_parent c 0) as [p|] eqn:E; [|reflexivity]. apply F in E. lia.
    + simpl. destruct (rt_parent c z) as [p|] eqn:E; [|reflexivity]. f_equal.
      pose proof (F z p E). apply IH; lia.
Qed.

(* the unfolding equation of Zone::m_AllParents on an acyclic forest *)
Lemma rt_all_parents_unfold : forall c z, rt_forest c ->
  rt_all_parents c z = match rt_parent c z with None => [] | Some p => p :: rt_all_parents c p end.
Proof.
  intros c z F. unfold rt_all_parents. destruct (rt_parent c z) as [p|] eqn:E.
  - pose proof (rt_parent_range c z p E) as L. pose proof (F z p E) as Lp.
    destruct (length c) as [|n] eqn:Len; [lia|].
    change (rt_parents_from c (S n) z) with (match rt_parent c z with None => [] | Some q => q :: rt_parents_from c n q end).
    rewrite E. f_equal. apply rt_parents_from_fuel; [assumption|lia|lia].
  - destruct (length c); simpl; [reflexivity|]. rewrite E. reflexivity.
Qed.

(* strict descendant: Z is among the ancestors of z *)
Definition rt_desc (c : rt_cfg) (z Z : nat) : Prop := In Z (rt_all_parents c z).

Lemma rt_desc_lt : forall c, rt_forest c -> forall z Z, rt_desc c z Z -> Z < z.
Proof.
  intros c F z. induction z as [z IH] using lt_wf_ind. intros Z H. unfold rt_desc in H.
  rewrite rt_all_parents_unfold in H by assumption.
  destruct (rt_parent c z) as [p|] eqn:E; [|contradiction]. pose proof (F z p E) as L.
  destruct H as [H|H]; [lia|]. specialize (IH p L Z H). lia.
Qed.

Lemma rt_desc_child : forall c z Z, rt_forest c -> rt_parent c z = Some Z -> rt_desc c z Z.
Proof. intros c z Z F E. unfold rt_desc. rewrite rt_all_parents_unfold by assumption. rewrite E. left. reflexivity. Qed.

Lemma rt_desc_step : forall c z p a, rt_forest c -> rt_parent c z = Some p -> (rt_desc c z a <-> a = p \/ rt_desc c p a).
Proof.
  intros c z p a F E. unfold rt_desc. rewrite (rt_all_parents_unfold c z F). rewrite E. simpl. split; intros [H|H]; auto.
Qed.

Lemma rt_desc_trans_child : forall c, rt_forest c -> forall z x Z, rt_desc c z x -> rt_parent c x = Some Z -> rt_desc c z Z.
Proof.
  intros c F z. induction z as [z IH] using lt_wf_ind. intros x Z H E.
  unfold rt_desc in H. rewrite rt_all_parents_unfold in H by assumption.
  destruct (rt_parent c z) as [p|] eqn:Ez; [|contradiction].
  apply (rt_desc_step c z p Z F Ez). right. destruct H as [H|H].
  - subst x. apply rt_desc_child; assumption.
  - apply (IH p (F z p Ez) x Z H E).
Qed.

(* a zone hangs below Z through exactly one child of Z *)
Lemma rt_anc_unique_child : forall c, rt_forest c -> forall ze a b Z,
  (ze = a \/ rt_desc c ze a) -> (ze = b \/ rt_desc c ze b) ->
  rt_parent c a = Some Z -> rt_parent c b = Some Z -> a = b.
Proof.
  intros c F ze. induction ze as [ze IH] using lt_wf_ind. intros a b Z Ha Hb Pa Pb.
  assert (forall u v, ze = u -> rt_desc c ze v -> rt_parent c u = Some Z -> rt_parent c v = Some Z -> False) as Mixed.
  { intros u v Eu Dv Pu Pv. subst u. apply (rt_desc_step c ze Z v F Pu) in Dv. destruct Dv as [Dv|Dv].
    - subst v. apply F in Pv. lia.
    - apply (rt_desc_lt c F) in Dv. apply F in Pv. lia. }
  destruct Ha as [Ha|Ha], Hb as [Hb|Hb].
  - congruence.
  - exfalso. exact (Mixed a b Ha Hb Pa Pb).
  - exfalso. exact (Mixed b a Hb Ha Pb Pa).
  - unfold rt_desc in Ha. pose proof Ha as Ha'. rewrite rt_all_parents_unfold in Ha' by assumption.
    destruct (rt_parent c ze) as [p|] eqn:E; [|contradiction]. clear Ha'.
    apply (rt_desc_step c ze p a F E) in Ha. apply (rt_desc_step c ze p b F E) in Hb.
    apply (IH p (F ze p E) a b Z); try assumption; [destruct Ha as [Ha|Ha]; auto | destruct Hb as [Hb|Hb]; auto].
Qed.

(* ---------------------------------------------------------------- what a relay step iterates for a global target *)
Lemma rt_tree_global_root : forall c G, rt_tree_wf c -> rt_global c G = true -> rt_parent c G = None.
Proof.
  intros c G [_ [Hg _]] H. destruct (rt_parent c G) as [p|] eqn:E; [|reflexivity].
  destruct (Hg G p E) as [K _]. congruence.
Qed.

Lemma rt_tree_relay_zones : forall c lz G, rt_tree_wf c -> rt_global c G = true ->
  rt_relay_zones c lz G = lz :: rt_children c lz.
Proof.
  intros c lz G W H. unfold rt_relay_zones. destruct W as [F W'].
  rewrite (rt_all_parents_unfold c G F). rewrite (rt_tree_global_root c G (conj F W') H). simpl.
  unfold rt_one_zones, rt_target_zones. rewrite H. simpl. f_equal. apply app_nil_r.
Qed.

Lemma rt_tree_relay_zones_in : forall c lz G z, rt_tree_wf c -> rt_global c G = true ->
  (In z (rt_relay_zones c lz G) <-> z = lz \/ rt_parent c z = Some lz).
Proof.
  intros c lz G z W H. rewrite rt_tree_relay_zones by assumption. simpl. rewrite rt_children_spec. split.
  - intros [K|[_ K]]; auto.
  - intros [K|K]; [auto|]. right. split; [eapply rt_parent_range; eassumption | assumption].
Qed.

Lemma rt_tree_relay_zones_nodup : forall c lz G, rt_tree_wf c -> rt_global c G = true ->
  NoDup (rt_relay_zones c lz G).
Proof.
  intros c lz G W H. rewrite rt_tree_relay_zones by assumption. constructor.
  - intros K. apply rt_children_spec in K. destruct K as [_ K]. destruct W as [F _]. apply F in K. lia.
  - unfold rt_children. apply NoDup_filter. apply seq_NoDup.
Qed.

(* ---------------------------------------------------------------- facts that only need "every endpoint in one zone" *)
Section RtOrdFacts.
  Variables (c : rt_cfg) (ord : nat -> list nat).
  Hypothesis Hnd : NoDup (rt_all_eps c).
  Hypothesis Hord : forall z, Permutation (ord z) (rt_eps c z).

  Lemma rt_g_ord_in : forall z e, In e (ord z) <-> In e (rt_eps c z).
  Proof. intros z e. split; apply Permutation_in; [apply Hord | apply Permutation_sym; apply Hord]. Qed.

  Lemma rt_g_eps_range : forall z e, In e (rt_eps c z) -> z < length c.
  Proof.
    intros z e H. destruct (le_lt_dec (length c) z) as [L|L]; [|assumption].
    unfold rt_eps, rt_getz in H. rewrite nth_overflow in H by assumption. contradiction.
  Qed.

  Lemma rt_g_ord_zone : forall z e, In e (ord z) -> rt_zone_of c e = Some z.
  Proof.
    intros z e H. apply rt_g_ord_in in H. apply rt_zone_of_in; [assumption| |assumption].
    eapply rt_g_eps_range. eassumption.
  Qed.

  Lemma rt_g_eps_nodup : forall z, NoDup (rt_eps c z).
  Proof.
    intros z. unfold rt_eps, rt_getz.
    destruct (nth_in_or_default z c rt_zdummy) as [K|K]; [|rewrite K; constructor].
    pose proof Hnd as ND. rewrite rt_all_eps_zeps in ND. exact (rt_zeps_nodup_in c _ K ND).
  Qed.

  Lemma rt_g_ord_nodup : forall z, NoDup (ord z).
  Proof.
    intros z. apply (Permutation_NoDup (l := rt_eps c z)); [apply Permutation_sym; apply Hord | apply rt_g_eps_nodup].
  Qed.
End RtOrdFacts.

Lemma rt_g_zone_two : forall c, NoDup (rt_all_eps c) -> (forall z, length (rt_eps c z) <= 2) -> forall z a b e,
  rt_zone_of c a = Some z -> rt_zone_of c b = Some z -> rt_zone_of c e = Some z -> a <> b -> e = a \/ e = b.
Proof.
  intros c ND Hs z a b e Ha Hb He Ne.
  apply rt_zone_of_some in Ha. apply rt_zone_of_some in Hb. apply rt_zone_of_some in He.
  apply (rt_two (rt_eps c z) a b (rt_g_eps_nodup c ND z) (Hs z)); tauto.
Qed.

(* ---------------------------------------------------------------- the send list of one relay step, global target *)
Section RtTreeSends.
  Variables (c : rt_cfg) (G : nat) (ord : nat -> list nat).
  Hypothesis Hwf : rt_tree_wf c.
  Hypothesis HG : rt_global c G = true.
  Hypothesis Hord : forall z, Permutation (ord z) (rt_eps c z).

  Lemma rt_tree_nd : NoDup (rt_all_eps c).
  Proof. destruct Hwf as [_ [_ [_ ND]]]. assumption. Qed.

  Lemma rt_tree_send : forall me lz conn o log e,
    In e (rt_sends (rt_relay c me lz conn o ord G log)) ->
    exists z, rt_zone_of c e = Some z /\ (z = lz \/ rt_parent c z = Some lz) /\
              In e (rt_eps c z) /\ e <> me /\ In e conn /\ rt_ofrom o <> Some e /\ rt_ozone o <> Some z /\
              (rt_master c lz me conn = me \/ e = rt_master c lz me conn).
  Proof.
    intros me lz conn o log e H. apply rt_sends_in in H.
    destruct H as [z [Z1 [Z2 [Q1 [Q2 [Q3 [Q4 Q5]]]]]]].
    apply (rt_tree_relay_zones_in c lz G z Hwf HG) in Z1.
    exists z. split; [apply (rt_g_ord_zone c ord rt_tree_nd Hord); assumption|].
    repeat split; try assumption. apply (rt_g_ord_in c ord Hord). assumption.
  Qed.

  Lemma rt_tree_sends_nodup : forall me lz conn o log, NoDup (rt_sends (rt_relay c me lz conn o ord G log)).
  Proof.
    intros me lz conn o log. unfold rt_relay. simpl.
    rewrite flat_map_concat_map, map_map, <- flat_map_concat_map.
    apply rt_nodup_flat_map.
    - apply rt_tree_relay_zones_nodup; assumption.
    - intros z _. unfold rt_zone_loop. apply rt_loop_sends_nodup; [apply (rt_g_ord_nodup c ord rt_tree_nd Hord) | constructor | simpl; tauto].
    - intros a b x Ha Hb Ne Xa Xb.
      apply rt_zone_loop_sends in Xa. apply rt_zone_loop_sends in Xb.
      destruct Xa as [Xa _], Xb as [Xb _].
      apply (rt_g_ord_zone c ord rt_tree_nd Hord) in Xa. apply (rt_g_ord_zone c ord rt_tree_nd Hord) in Xb. congruence.
  Qed.

  Lemma rt_tree_sends_single : forall me lz conn o log e e' z,
    In e (rt_sends (rt_relay c me lz conn o ord G log)) ->
    In e' (rt_sends (rt_relay c me lz conn o ord G log)) ->
    rt_zone_of c e = Some z -> rt_zone_of c e' = Some z -> z <> lz -> e = e'.
  Proof.
    intros me lz conn o log e e' z H H' Z Z' Ne.
    apply rt_sends_split in H. apply rt_sends_split in H'.
    destruct H as [z1 [A1 A2]]. destruct H' as [z2 [B1 B2]].
    pose proof (rt_zone_loop_sends _ _ _ _ _ _ _ _ A2) as [A3 _].
    pose proof (rt_zone_loop_sends _ _ _ _ _ _ _ _ B2) as [B3 _].
    apply (rt_g_ord_zone c ord rt_tree_nd Hord) in A3. apply (rt_g_ord_zone c ord rt_tree_nd Hord) in B3.
    assert (z1 = z) by congruence. assert (z2 = z) by congruence. subst z1 z2.
    pose proof (rt_zone_loop_single me lz (rt_master c lz me conn) conn o ord z Ne) as S.
    destruct (rt_asends (rt_zone_loop me lz (rt_master c lz me conn) conn o ord z)) as [|x [|y l]]; simpl in *; try lia; try tauto.
  Qed.
End RtTreeSends.
