(* C11 - GLOBAL target zone on zone trees of ARBITRARY depth and width, safety half of the unbounded induction:
   finitely many deliveries (explicit measure), no endpoint processes the event twice - every tree (rt_tree_wf), every
   link set, every originator, every per-node iteration order, every schedule.  Same argument as RtChainSafe.v with the
   future set of a message = the receiver, (if it forwards) its zone peer and the whole SUBTREE below its zone: an event
   about a global-zone object only travels downwards (local zone + direct children at every hop), and two different
   children of a zone have disjoint subtrees (RtTree.rt_anc_unique_child). *)
From Coq Require Import List Arith Bool PeanoNat Lia Permutation.
From Icv Require Import Route.RtModel Route.RtProofs Route.RtOracleProofs Route.RtStepLemmas Route.RtLoad Route.RtNet
     Route.RtSched Route.RtNetSound Route.RtInv Route.RtChain Route.RtChainSafe Route.RtTree.
Import ListNotations.

(* the endpoints a relay by t (zone Z) under origin o can still cause to process: the zone peer unless it is the origin
   endpoint, and everything strictly below Z *)
Definition rt_gregionP (c : rt_cfg) (t Z : nat) (o : rt_origin) (e : nat) : Prop :=
  exists ze, rt_zone_of c e = Some ze /\ e <> t /\
    ((ze = Z /\ rt_ofrom o <> Some e) \/ rt_desc c ze Z).

Definition rt_gregionb (c : rt_cfg) (t Z : nat) (o : rt_origin) (e : nat) : bool :=
  match rt_zone_of c e with
  | None => false
  | Some ze => negb (e =? t) &&
      (((ze =? Z) && negb (rt_oeqb (rt_ofrom o) (Some e))) || rt_mem Z (rt_all_parents c ze))
  end.

Lemma rt_gregionb_spec : forall c t Z o e, rt_gregionb c t Z o e = true <-> rt_gregionP c t Z o e.
Proof.
  intros c t Z o e. unfold rt_gregionb, rt_gregionP, rt_desc. destruct (rt_zone_of c e) as [ze|].
  - rewrite andb_true_iff, orb_true_iff, andb_true_iff, !negb_true_iff, Nat.eqb_neq, Nat.eqb_eq, rt_oeqb_neq, rt_mem_In.
    split.
    + intros [H1 H2]. exists ze. split; [reflexivity|]. split; assumption.
    + intros [ze' [E [H1 H2]]]. inversion E. subst ze'. split; assumption.
  - split; [discriminate|]. intros [ze [E _]]. discriminate.
Qed.

Section RtTreeFut.
  Variables (c : rt_cfg) (links : list (nat * nat)).

  Definition rt_gfutP (m : rt_msg) (e : nat) : Prop :=
    exists Zf Z, rt_zone_of c (rt_mfrom m) = Some Zf /\ rt_zone_of c (rt_mto m) = Some Z /\
      (e = rt_mto m \/
       ((Zf <> Z \/ rt_master c Z (rt_mto m) (rt_view links (rt_mto m)) = rt_mto m) /\
        rt_gregionP c (rt_mto m) Z (rt_recv_origin c Z (Some (rt_mfrom m)) (rt_moz m)) e)).

  Definition rt_gfutb (m : rt_msg) (e : nat) : bool :=
    match rt_zone_of c (rt_mfrom m), rt_zone_of c (rt_mto m) with
    | Some Zf, Some Z =>
        (e =? rt_mto m) ||
        ((negb (Zf =? Z) || (rt_master c Z (rt_mto m) (rt_view links (rt_mto m)) =? rt_mto m)) &&
         rt_gregionb c (rt_mto m) Z (rt_recv_origin c Z (Some (rt_mfrom m)) (rt_moz m)) e)
    | _, _ => false
    end.

  Lemma rt_gfutb_spec : forall m e, rt_gfutb m e = true <-> rt_gfutP m e.
  Proof.
    intros m e. unfold rt_gfutb, rt_gfutP.
    destruct (rt_zone_of c (rt_mfrom m)) as [Zf|]; [|split; [discriminate | intros [? [? [E _]]]; discriminate]].
    destruct (rt_zone_of c (rt_mto m)) as [Z|]; [|split; [discriminate | intros [? [? [_ [E _]]]]; discriminate]].
    rewrite orb_true_iff, andb_true_iff, orb_true_iff, negb_true_iff, Nat.eqb_neq, !Nat.eqb_eq, rt_gregionb_spec.
    split.
    - intros H. exists Zf, Z. auto.
    - intros [Zf' [Z' [E1 [E2 H]]]]. inversion E1. inversion E2. subst. assumption.
  Qed.

  Definition rt_gfut (m : rt_msg) : list nat := filter (rt_gfutb m) (rt_all_eps c).

  Lemma rt_gfut_in : forall m e, In e (rt_gfut m) <-> rt_gfutP m e.
  Proof.
    intros m e. unfold rt_gfut. rewrite filter_In, rt_gfutb_spec. split; [tauto|]. intros H. split; [|assumption].
    apply rt_all_eps_in. destruct H as [Zf [Z [E1 [E2 [H|[_ [ze [H _]]]]]]]]; [subst; eauto | eauto].
  Qed.

  Lemma rt_gfut_nodup : forall m, NoDup (rt_all_eps c) -> NoDup (rt_gfut m).
  Proof. intros m ND. unfold rt_gfut. apply NoDup_filter. assumption. Qed.

  (* well-formed in-flight message: inside a zone between two different endpoints that see each other, or from a
     zone into one of its direct children *)
  Definition rt_gmwf (m : rt_msg) : Prop :=
    exists Zf Z, rt_zone_of c (rt_mfrom m) = Some Zf /\ rt_zone_of c (rt_mto m) = Some Z /\
      ((Zf = Z /\ rt_mfrom m <> rt_mto m /\ In (rt_mfrom m) (rt_view links (rt_mto m))) \/
       rt_parent c Z = Some Zf).

  Lemma rt_gmwf_fut_self : forall m, rt_gmwf m -> In (rt_mto m) (rt_gfut m).
  Proof. intros m [Zf [Z [E1 [E2 _]]]]. apply rt_gfut_in. exists Zf, Z. auto. Qed.
End RtTreeFut.

Section RtTreeRelay.
  Variables (c : rt_cfg) (links : list (nat * nat)) (G : nat) (nord : nat -> nat -> list nat).
  Hypothesis Hwf : rt_tree_wf c.
  Hypothesis HG : rt_global c G = true.
  Hypothesis Hnord : rt_nord_ok c nord.

  Variables (t Z : nat) (o : rt_origin).
  Hypothesis Ht : rt_zone_of c t = Some Z.

  Local Notation sends := (rt_sends (rt_relay c t Z (rt_view links t) o (nord t) G true)).
  Local Notation mk := (fun x : nat => {| rt_mfrom := t; rt_mto := x; rt_moz := rt_ozone o |}).

  Lemma rt_tree_F : rt_forest c.
  Proof. destruct Hwf as [F _]. assumption. Qed.
  Lemma rt_tree_two : forall z a b e, rt_zone_of c a = Some z -> rt_zone_of c b = Some z -> rt_zone_of c e = Some z ->
    a <> b -> e = a \/ e = b.
  Proof. destruct Hwf as [_ [_ [Hs ND]]]. apply rt_g_zone_two; assumption. Qed.

  Lemma rt_tree_sendx : forall x, In x sends ->
    exists zx, rt_zone_of c x = Some zx /\ (zx = Z \/ rt_parent c zx = Some Z) /\
               In x (rt_eps c zx) /\ x <> t /\ In x (rt_view links t) /\ rt_ofrom o <> Some x /\
               rt_ozone o <> Some zx /\
               (rt_master c Z t (rt_view links t) = t \/ x = rt_master c Z t (rt_view links t)).
  Proof.
    intros x H. exact (rt_tree_send c G (nord t) Hwf HG (Hnord t) t Z (rt_view links t) o true x H).
  Qed.

  Lemma rt_gcross_sender_master : forall x zx, In x sends -> rt_zone_of c x = Some zx -> zx <> Z ->
    rt_master c Z t (rt_view links t) = t.
  Proof.
    intros x zx H E Ne. destruct (rt_tree_sendx x H) as [zx' [E' [_ [_ [Nx [_ [_ [_ M]]]]]]]].
    destruct M as [M|M]; [assumption|].
    destruct (rt_master_cases c Z t (rt_view links t)) as [[K|[K _]] _]; [assumption|].
    exfalso. destruct (rt_zone_of_some c t Z Ht) as [LZ _].
    rewrite <- M in K. apply (rt_zone_of_in c x Z (rt_tree_nd c Hwf) LZ) in K. congruence.
  Qed.

  Lemma rt_gintra_agree : forall x, In x sends -> rt_zone_of c x = Some Z ->
    rt_master c Z x (rt_view links x) = rt_master c Z t (rt_view links t).
  Proof.
    intros x H E. destruct (rt_tree_sendx x H) as [zx [_ [_ [_ [Nx [V _]]]]]].
    destruct (rt_zone_of_some c t Z Ht) as [LZ InZ].
    symmetry. apply rt_master_agree; try assumption.
    - intros e He. apply (rt_zone_of_in c e Z (rt_tree_nd c Hwf) LZ) in He. apply (rt_tree_two Z t x e); try assumption. auto.
    - apply rt_zone_of_some in E. tauto.
  Qed.

  Lemma rt_gfutP_new : forall x zx e, rt_zone_of c x = Some zx ->
    (rt_gfutP c links (mk x) e <->
     e = x \/ ((Z <> zx \/ rt_master c zx x (rt_view links x) = x) /\
               rt_gregionP c x zx {| rt_ofrom := Some t; rt_ozone := if Z =? zx then rt_ozone o else Some Z |} e)).
  Proof.
    intros x zx e E. unfold rt_gfutP. cbn [rt_mfrom rt_mto rt_moz].
    assert (rt_recv_origin c zx (Some t) (rt_ozone o) =
            {| rt_ofrom := Some t; rt_ozone := if Z =? zx then rt_ozone o else Some Z |}) as R.
    { unfold rt_recv_origin. rewrite Ht. simpl. destruct (Z =? zx); reflexivity. }
    split.
    - intros [Zf [Z' [E1 [E2 H]]]]. rewrite Ht in E1. rewrite E in E2. inversion E1. inversion E2. subst Zf Z'.
      rewrite R in H. assumption.
    - intros H. exists Z, zx. rewrite R. auto.
  Qed.

  Lemma rt_relay_new_gwf : forall x, In x sends -> rt_gmwf c links (mk x).
  Proof.
    intros x H. destruct (rt_tree_sendx x H) as [zx [E [A [_ [Nx [V _]]]]]].
    exists Z, zx. cbn [rt_mfrom rt_mto]. split; [assumption|]. split; [assumption|].
    destruct A as [A|A].
    - left. subst zx. split; [reflexivity|]. split; [auto|]. apply rt_view_sym. assumption.
    - right. assumption.
  Qed.

  (* where the future set of a new message lies *)
  Lemma rt_gfut_new_zone : forall x zx e ze, In x sends -> rt_zone_of c x = Some zx -> rt_zone_of c e = Some ze ->
    rt_gfutP c links (mk x) e ->
    (rt_parent c zx = Some Z -> ze = zx \/ rt_desc c ze zx) /\
    (zx = Z -> e = x \/ (ze <> Z /\ rt_master c Z x (rt_view links x) = x)).
  Proof.
    intros x zx e ze H E Ee F. pose proof rt_tree_F as Fo.
    apply (rt_gfutP_new x zx e E) in F.
    destruct F as [F|[F1 [ze' [Ee' [Ne F2]]]]].
    - subst e. assert (ze = zx) by congruence. subst ze. split; auto.
    - assert (ze' = ze) by congruence. subst ze'. split.
      + intros Q. destruct F2 as [[F2 _]|F2]; auto.
      + intros Q. subst zx. right. destruct F1 as [F1|F1]; [congruence|]. split; [|assumption].
        intros Q. subst ze. destruct F2 as [[_ F2]|F2].
        * simpl in F2. destruct (rt_tree_two Z t x e Ht E Ee) as [K|K]; [|congruence|congruence].
          destruct (rt_tree_sendx x H) as [_ [_ [_ [_ [Nx _]]]]]. auto.
        * apply (rt_desc_lt c Fo) in F2. lia.
  Qed.

  Lemma rt_relay_new_gregion : forall x e, In x sends -> rt_gfutP c links (mk x) e -> rt_gregionP c t Z o e.
  Proof.
    intros x e H F. pose proof rt_tree_F as Fo.
    destruct (rt_tree_sendx x H) as [zx [E [A [_ [Nx [V [NO _]]]]]]].
    assert (exists ze, rt_zone_of c e = Some ze) as [ze Ee].
    { apply rt_all_eps_in. apply (rt_gfut_in c links (mk x) e) in F. unfold rt_gfut in F. apply filter_In in F. tauto. }
    destruct (rt_gfut_new_zone x zx e ze H E Ee F) as [K1 K2].
    exists ze. split; [assumption|].
    destruct A as [A|A].
    - subst zx. destruct (K2 eq_refl) as [K|[K3 K4]].
      + subst e. split; [assumption|]. left. assert (ze = Z) by congruence. auto.
      + apply (rt_gfutP_new x Z e E) in F. destruct F as [F|[_ [ze' [Ee' [Ne' F2]]]]]; [subst; contradiction (K3 ltac:(congruence))|].
        assert (ze' = ze) by congruence. subst ze'. destruct F2 as [[F2 _]|F2]; [contradiction|].
        split; [|right; assumption]. intros Q. subst e. apply (rt_desc_lt c Fo) in F2. assert (ze = Z) by congruence. lia.
    - pose proof (Fo zx Z A) as Lz.
      assert (rt_desc c ze Z) as D.
      { destruct (K1 A) as [K|K]; [subst; apply rt_desc_child; assumption|]. apply (rt_desc_trans_child c Fo ze zx Z K A). }
      split; [|right; assumption]. intros Q. subst e. apply (rt_desc_lt c Fo) in D. assert (ze = Z) by congruence. lia.
  Qed.

  Lemma rt_relay_new_gdisjoint : forall x x' e, In x sends -> In x' sends -> x <> x' ->
    rt_gfutP c links (mk x) e -> rt_gfutP c links (mk x') e -> False.
  Proof.
    pose proof rt_tree_F as Fo.
    assert (forall x x' e zx' ze, In x sends -> In x' sends -> x <> x' ->
              rt_zone_of c x = Some Z -> rt_zone_of c x' = Some zx' -> rt_zone_of c e = Some ze ->
              rt_parent c zx' = Some Z ->
              rt_gfutP c links (mk x) e -> rt_gfutP c links (mk x') e -> False) as Mixed.
    { intros x x' e zx' ze H H' Ne E E' Ee Q' F F'.
      destruct (rt_gfut_new_zone x Z e ze H E Ee F) as [_ K].
      destruct (rt_gfut_new_zone x' zx' e ze H' E' Ee F') as [K1 _].
      pose proof (Fo zx' Z Q') as Lz.
      destruct (K eq_refl) as [K3|[K3 K4]].
      - subst e. assert (ze = Z) by congruence. subst ze.
        destruct (K1 Q') as [K2|K2]; [lia|]. apply (rt_desc_lt c Fo) in K2. lia.
      - assert (zx' <> Z) as Nz by lia.
        pose proof (rt_gcross_sender_master x' zx' H' E' Nz) as M.
        pose proof (rt_gintra_agree x H E) as Gq.
        destruct (rt_tree_sendx x H) as [_ [_ [_ [_ [Nx _]]]]]. congruence. }
    intros x x' e H H' Ne F F'.
    destruct (rt_tree_sendx x H) as [zx [E [A [_ [Nx _]]]]].
    destruct (rt_tree_sendx x' H') as [zx' [E' [A' [_ [Nx' _]]]]].
    assert (exists ze, rt_zone_of c e = Some ze) as [ze Ee].
    { apply rt_all_eps_in. apply (rt_gfut_in c links (mk x) e) in F. unfold rt_gfut in F. apply filter_In in F. tauto. }
    destruct A as [A|A], A' as [A'|A'].
    - subst. destruct (rt_tree_two Z t x x' Ht E E') as [K|K]; [auto| |]; congruence.
    - subst zx. exact (Mixed x x' e zx' ze H H' Ne E E' Ee A' F F').
    - subst zx'. apply (Mixed x' x e zx ze H' H); auto.
    - destruct (Nat.eq_dec zx zx') as [S|S].
      + subst zx'. apply Ne. pose proof (Fo zx Z A) as Lz. assert (zx <> Z) as Nz by lia.
        exact (rt_tree_sends_single c G (nord t) Hwf (Hnord t) t Z (rt_view links t) o true x x' zx H H' E E' Nz).
      + destruct (rt_gfut_new_zone x zx e ze H E Ee F) as [K1 _].
        destruct (rt_gfut_new_zone x' zx' e ze H' E' Ee F') as [K1' _].
        apply S. exact (rt_anc_unique_child c Fo ze zx zx' Z (K1 A) (K1' A') A A').
  Qed.

  Theorem rt_tree_relay : let new := rt_mk_msgs t (rt_ozone o) sends in
    (forall m, In m new -> rt_gmwf c links m) /\
    NoDup (flat_map (rt_gfut c links) new) /\
    (forall e, In e (flat_map (rt_gfut c links) new) -> rt_gregionP c t Z o e).
  Proof.
    simpl. unfold rt_mk_msgs. split; [|split].
    - intros m H. apply in_map_iff in H. destruct H as [x [E H]]. subst m. apply rt_relay_new_gwf. assumption.
    - rewrite rt_flat_map_map. apply rt_nodup_flat_map.
      + exact (rt_tree_sends_nodup c G (nord t) Hwf HG (Hnord t) t Z (rt_view links t) o true).
      + intros x _. apply rt_gfut_nodup. apply (rt_tree_nd c Hwf).
      + intros a b x Ha Hb Ne Xa Xb. apply rt_gfut_in in Xa. apply rt_gfut_in in Xb.
        exact (rt_relay_new_gdisjoint a b x Ha Hb Ne Xa Xb).
    - intros e H. rewrite rt_flat_map_map in H. apply in_flat_map in H. destruct H as [x [H1 H2]].
      apply rt_gfut_in in H2. exact (rt_relay_new_gregion x e H1 H2).
  Qed.
End RtTreeRelay.

Section RtTreeStep.
  Variables (c : rt_cfg) (links : list (nat * nat)) (G : nat) (nord : nat -> nat -> list nat).
  Hypothesis Hwf : rt_tree_wf c.
  Hypothesis HG : rt_global c G = true.
  Hypothesis Hnord : rt_nord_ok c nord.

  Local Notation eff := (rt_effect c links G nord).
  Local Notation fut := (rt_gfut c links).

  Lemma rt_gmwf_effect : forall m, rt_gmwf c links m -> eff m <> None.
  Proof.
    intros m [Zf [Z [_ [E _]]]]. unfold rt_effect. rewrite E.
    destruct (negb (rt_accepts c (rt_recv_origin c Z (Some (rt_mfrom m)) (rt_moz m)) G)); discriminate.
  Qed.

  Theorem rt_tree_step : forall m new np, rt_gmwf c links m -> eff m = Some (new, np) ->
    (np = [rt_mto m] \/ (np = [] /\ new = [])) /\
    (forall m', In m' new -> rt_gmwf c links m') /\
    NoDup (rt_mto m :: flat_map fut new) /\ incl (rt_mto m :: flat_map fut new) (fut m).
  Proof.
    intros m new np W H. pose proof (rt_gmwf_fut_self c links m W) as Self.
    assert (forall np', (np' = [rt_mto m] \/ (np' = [] /\ @nil rt_msg = [])) ->
            (np' = [rt_mto m] \/ (np' = [] /\ @nil rt_msg = [])) /\
            (forall m', In m' (@nil rt_msg) -> rt_gmwf c links m') /\
            NoDup (rt_mto m :: flat_map fut []) /\ incl (rt_mto m :: flat_map fut []) (fut m)) as Empty.
    { intros np' K. split; [assumption|]. split; [intros m' []|]. simpl. split; [repeat constructor; simpl; tauto|].
      intros e [E|[]]. subst. assumption. }
    destruct W as [Zf [Z [E1 [E2 W]]]].
    destruct (rt_effect_cases c links G nord m new np Z E2 H) as [[H1 H2]|[H1 H2]]; subst new np.
    { apply Empty. auto. }
    set (o := rt_recv_origin c Z (Some (rt_mfrom m)) (rt_moz m)) in *.
    assert ((Zf <> Z \/ rt_master c Z (rt_mto m) (rt_view links (rt_mto m)) = rt_mto m) ->
      ([rt_mto m] = [rt_mto m] \/ [rt_mto m] = [] /\
         rt_mk_msgs (rt_mto m) (rt_ozone o) (rt_sends (rt_relay c (rt_mto m) Z (rt_view links (rt_mto m)) o (nord (rt_mto m)) G true)) = []) /\
      (forall m', In m' (rt_mk_msgs (rt_mto m) (rt_ozone o) (rt_sends (rt_relay c (rt_mto m) Z (rt_view links (rt_mto m)) o (nord (rt_mto m)) G true))) -> rt_gmwf c links m') /\
      NoDup (rt_mto m :: flat_map fut (rt_mk_msgs (rt_mto m) (rt_ozone o) (rt_sends (rt_relay c (rt_mto m) Z (rt_view links (rt_mto m)) o (nord (rt_mto m)) G true)))) /\
      incl (rt_mto m :: flat_map fut (rt_mk_msgs (rt_mto m) (rt_ozone o) (rt_sends (rt_relay c (rt_mto m) Z (rt_view links (rt_mto m)) o (nord (rt_mto m)) G true)))) (fut m)) as Fwd.
    { intros C. destruct (rt_tree_relay c links G nord Hwf HG Hnord (rt_mto m) Z o E2) as [R1 [R2 R3]].
      split; [auto|]. split; [assumption|]. split.
      - constructor; [|assumption]. intros K. apply R3 in K. destruct K as [ze [_ [K _]]]. congruence.
      - intros e [E|E]; [subst; assumption|]. apply rt_gfut_in. exists Zf, Z. split; [assumption|]. split; [assumption|].
        right. split; [assumption|]. apply R3. assumption. }
    destruct (Nat.eq_dec Zf Z) as [Q|Q]; [|apply Fwd; auto].
    destruct (Nat.eq_dec (rt_master c Z (rt_mto m) (rt_view links (rt_mto m))) (rt_mto m)) as [M|M]; [apply Fwd; auto|].
    (* a non-master that got the event from its zone peer forwards nothing *)
    destruct W as [[_ [Nf Vf]]|W].
    2:{ exfalso. destruct Hwf as [F _]. apply F in W. lia. }
    subst Zf.
    assert (rt_master c Z (rt_mto m) (rt_view links (rt_mto m)) = rt_mfrom m) as MF.
    { destruct (rt_master_cases c Z (rt_mto m) (rt_view links (rt_mto m))) as [[K|[K _]] _]; [contradiction|].
      destruct (rt_zone_of_some c _ _ E2) as [LZ _].
      apply (rt_zone_of_in c _ Z (rt_tree_nd c Hwf) LZ) in K.
      destruct (rt_tree_two c Hwf Z (rt_mto m) (rt_mfrom m) _ E2 E1 K); [auto|contradiction|assumption]. }
    rewrite (rt_peer_of_master_terminal c (rt_mto m) Z (rt_view links (rt_mto m)) o (nord (rt_mto m)) G true M).
    - simpl. apply Empty. auto.
    - rewrite MF. reflexivity.
  Qed.

  Definition rt_tree_inv (st : rt_st rt_msg) : Prop :=
    (forall m, In m (fst st) -> rt_gmwf c links m) /\ NoDup (flat_map fut (fst st) ++ snd st).
  Definition rt_tree_measure (st : rt_st rt_msg) : nat := length (flat_map fut (fst st)).

  Theorem rt_tree_inv_step : forall st np st', rt_tree_inv st -> rt_sched_step rt_msg eff st np st' ->
    rt_fresh np (snd st) = true /\ rt_tree_inv st' /\ rt_tree_measure st' < rt_tree_measure st.
  Proof.
    intros st np st' [I1 I2] S. inversion S as [pre m post P new np0 Em]. subst. cbn [fst snd] in *.
    assert (rt_gmwf c links m) as W by (apply I1; apply in_or_app; right; left; reflexivity).
    destruct (rt_tree_step m new np W Em) as [Hnp [Hw [Hnd Hincl]]].
    rewrite flat_map_app in I2. simpl in I2.
    assert (NoDup (fut m ++ (flat_map fut pre ++ flat_map fut post ++ P))) as N.
    { apply (Permutation_NoDup (l := (flat_map fut pre ++ fut m ++ flat_map fut post) ++ P)); [|assumption].
      rewrite <- !app_assoc. apply Permutation_app_swap_app. }
    assert (NoDup (np ++ flat_map fut new) /\ incl (np ++ flat_map fut new) (fut m)) as [NX IX].
    { destruct Hnp as [Hnp|[Hnp Hnew]]; subst.
      - split; assumption.
      - simpl. split; [constructor | intros e []]. }
    split; [|split].
    - apply rt_fresh_spec. intros e He K.
      destruct Hnp as [Hnp|[Hnp _]]; subst; [|contradiction]. destruct He as [He|[]]. subst e.
      apply rt_nodup_app_inv in N. destruct N as [_ [_ D]]. apply (D (rt_mto m)).
      + apply Hincl. left. reflexivity.
      + apply in_or_app. right. apply in_or_app. right. assumption.
    - split.
      + intros m' Hm'. cbn [fst] in Hm'. apply in_app_or in Hm'. destruct Hm' as [Hm'|Hm'].
        * apply I1. apply in_or_app. left. assumption.
        * apply in_app_or in Hm'. destruct Hm' as [Hm'|Hm']; [|apply Hw; assumption].
          apply I1. apply in_or_app. right. right. assumption.
      + cbn [fst snd]. rewrite !flat_map_app.
        apply (Permutation_NoDup (l := (np ++ flat_map fut new) ++ flat_map fut pre ++ flat_map fut post ++ P)).
        * apply rt_perm_swap4.
        * apply (rt_nodup_app_replace _ (fut m)); assumption.
    - unfold rt_tree_measure. cbn [fst]. rewrite !flat_map_app, !app_length. simpl. rewrite app_length.
      pose proof (NoDup_incl_length Hnd Hincl) as L. cbn [length] in L. lia.
  Qed.

  Theorem rt_tree_init : forall s lz, rt_zone_of c s = Some lz ->
    rt_tree_inv (rt_init c links G nord s lz) /\
    rt_tree_measure (rt_init c links G nord s lz) < length (rt_all_eps c).
  Proof.
    intros s lz E. destruct (rt_tree_relay c links G nord Hwf HG Hnord s lz rt_no_origin E) as [R1 [R2 R3]].
    unfold rt_init, rt_tree_inv, rt_tree_measure. cbn [fst snd]. cbn [rt_ozone rt_no_origin] in *.
    assert (NoDup (s :: flat_map fut (rt_mk_msgs s None (rt_sends (rt_relay c s lz (rt_view links s) rt_no_origin (nord s) G true))))) as N.
    { constructor; [|assumption]. intros K. apply R3 in K. destruct K as [ze [_ [K _]]]. congruence. }
    split; [split|].
    - assumption.
    - apply (Permutation_NoDup (l := s :: flat_map fut (rt_mk_msgs s None (rt_sends (rt_relay c s lz (rt_view links s) rt_no_origin (nord s) G true))))); [|assumption].
      apply Permutation_cons_append.
    - assert (incl (s :: flat_map fut (rt_mk_msgs s None (rt_sends (rt_relay c s lz (rt_view links s) rt_no_origin (nord s) G true)))) (rt_all_eps c)) as I.
      { intros e [K|K].
        - subst. apply rt_all_eps_in. eauto.
        - apply in_flat_map in K. destruct K as [m [_ K]]. unfold rt_gfut in K. apply filter_In in K. tauto. }
      pose proof (NoDup_incl_length N I) as L. cbn [length] in L. lia.
  Qed.

  Theorem rt_tree_finite_once : forall s lz, rt_zone_of c s = Some lz ->
    forall k st', rt_sched_run rt_msg eff (rt_init c links G nord s lz) k st' ->
      k < length (rt_all_eps c) /\ k + rt_tree_measure st' <= rt_tree_measure (rt_init c links G nord s lz) /\
      rt_tree_inv st' /\
      (forall np st'', rt_sched_step rt_msg eff st' np st'' -> rt_fresh np (snd st') = true).
  Proof.
    intros s lz E k st' R. destruct (rt_tree_init s lz E) as [I0 M0].
    assert (forall st0 k0 st1, rt_sched_run rt_msg eff st0 k0 st1 -> rt_tree_inv st0 ->
              k0 + rt_tree_measure st1 <= rt_tree_measure st0 /\ rt_tree_inv st1) as Gn.
    { clear R. intros st0 k0 st3 R. induction R as [st|st np st1 k1 st2 S R IH]; intros I; [split; [lia|assumption]|].
      destruct (rt_tree_inv_step st np st1 I S) as [_ [I1 D]]. destruct (IH I1) as [K1 K2]. split; [lia|assumption]. }
    destruct (Gn _ _ _ R I0) as [K1 K2]. split; [lia|]. split; [assumption|]. split; [assumption|].
    intros np st'' S. apply (rt_tree_inv_step st' np st'' K2 S).
  Qed.
End RtTreeStep.
