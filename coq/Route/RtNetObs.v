(* C11 - the network-level statement as an executable check over what a COMPLETE multi-hop run of the real code was
   observed to do (op rt_net: one event, the real relay code at every node, deliveries in the harness' schedule until
   nothing is in flight): number of deliveries and the endpoints that processed, in order.  Claimed for the
   configuration class of the unbounded theorems (rt_net_pre_b: every well-formed zone forest, every target); RtNetObsProofs.v proves that the check accepts every
   run of the model's network relation. *)
From Coq Require Import List Arith Bool PeanoNat.
From Icv Require Import Route.RtModel Route.RtProofs Route.RtObs Route.RtNet Route.RtChain Route.RtChainComplete
     Route.RtTree Route.RtTreeComplete.
Import ListNotations.

(* any acyclic zone forest with isolated global zones, <= 2 endpoints per zone, every endpoint in one zone; any target *)
Definition rt_net_pre_b (c : rt_cfg) (target : nat) : bool := rt_tree_wf_b c && (target <? length c).

(* result: 0 = ok, 1 = an endpoint processed twice, 2 = too many deliveries, 3 = incomplete under the premise *)
Definition rt_net_oracle (c : rt_cfg) (links : list (nat * nat)) (target s : nat) (deliv : nat) (proc : list nat) : nat :=
  if negb (rt_net_pre_b c target) then 0
  else match rt_zone_of c s with
       | None => 0
       | Some lz =>
           if negb (rt_nodup_b proc) then 1
           else if negb (deliv <? length (flat_map rt_zeps c)) then 2
           else if negb (rt_final_complete c links target lz proc) then 3
           else 0
       end.

(* the model's own run, oldest message first: (deliveries, processed, left in flight when the fuel ran out) *)
Fixpoint rt_net_fifo (fuel : nat) (c : rt_cfg) (links : list (nat * nat)) (target : nat) (nord : nat -> nat -> list nat)
         (q : list rt_msg) (P : list nat) (k : nat) : nat * list nat * nat :=
  match fuel with
  | 0 => (k, P, length q)
  | S f =>
      match q with
      | [] => (k, P, 0)
      | m :: rest =>
          match rt_effect c links target nord m with
          | None => (k, P, length q)
          | Some (new, np) => rt_net_fifo f c links target nord (rest ++ new) (np ++ P) (S k)
          end
      end
  end.

Definition rt_net_model (c : rt_cfg) (links : list (nat * nat)) (target s : nat) : nat * list nat * nat :=
  match rt_zone_of c s with
  | None => (0, [], 0)
  | Some lz =>
      let nord := fun (_ : nat) z => rt_eps c z in
      rt_net_fifo (rt_fuel c) c links target nord
        (rt_mk_msgs s None (rt_sends (rt_relay c s lz (rt_view links s) rt_no_origin (nord s) target true))) [s] 0
  end.
