(* C11 - chains of ARBITRARY depth, completeness half of the unbounded induction: under the statement's
   connectivity premise (rt_premise over the entitled zones: zone peers see each other, every zone master sees one
   endpoint of each adjacent entitled zone) and with the originator in an entitled zone, whenever nothing is in
   flight any more every endpoint of every entitled zone has processed the event (exactly once, by RtChainSafe).

   Invariant rt_chain_cov (on top of rt_chain_inv): every endpoint of an entitled zone has processed the event or lies
   in the future set of an in-flight message; in-flight messages come from entitled zones and carry an originZone stamp
   that is entitled and differs from the sender's zone (rt_mwfT: so the handler's CanAccessObject test never discards
   and "not back into the origin zone" never blocks the local zone).  Preservation: under the premise the future set
   of the delivered message is COVERED by the receiver and the future sets of the new messages (rt_chain_relay_cov) -
   the converse inclusion of RtChainSafe.rt_chain_relay - because nothing is withheld: the master reaches its peer and
   enters both adjacent entitled zones except the origin's, a non-master reaches the master
   (RtOracleProofs.rt_fold_send_local / rt_fold_relayed_foreign, the lemmas behind oracle clause 4). *)
From Coq Require Import List Arith Bool PeanoNat Lia Permutation.
From Icv Require Import Route.RtModel Route.RtProofs Route.RtObs Route.RtOracleProofs Route.RtStepLemmas Route.RtNet
     Route.RtSched Route.RtNetSound Route.RtInv Route.RtChain Route.RtChainSafe.
Import ListNotations.

Lemma rt_zmaster_spec : forall c z, rt_eps c z <> [] ->
  In (rt_zmaster c z) (rt_eps c z) /\ forall e, In e (rt_eps c z) -> rt_zmaster c z <= e.
Proof.
  intros c z H. unfold rt_zmaster. destruct (rt_eps c z) as [|a r]; [congruence|]. clear H.
  induction r as [|b r IH]; simpl.
  - split; [auto|]. intros e [E|[]]. lia.
  - destruct IH as [I1 I2]. split.
    + destruct (Nat.min_dec b (fold_right Nat.min a r)) as [E|E]; rewrite E; [auto|].
      simpl in I1. destruct I1 as [I1|I1]; auto.
    + intros e [E|[E|E]].
      * subst. specialize (I2 e (or_introl eq_refl)). lia.
      * subst. lia.
      * specialize (I2 e (or_intror E)). lia.
Qed.

Lemma rt_premise_spec : forall c links zs, rt_premise c links zs = true ->
  forall z, In z zs ->
    (forall a b, In a (rt_eps c z) -> In b (rt_eps c z) -> a <> b -> In b (rt_view links a)) /\
    (forall z', In z' zs -> rt_adjacent c z z' = true ->
       exists e, In e (rt_eps c z') /\ In e (rt_view links (rt_zmaster c z))).
Proof.
  intros c links zs H z Hz. unfold rt_premise in H. rewrite forallb_forall in H. specialize (H z Hz).
  apply andb_true_iff in H. destruct H as [H1 H2]. split.
  - intros a b Ha Hb Ne. rewrite forallb_forall in H1. specialize (H1 a Ha). rewrite forallb_forall in H1.
    specialize (H1 b Hb). apply orb_true_iff in H1. destruct H1 as [H1|H1].
    + apply Nat.eqb_eq in H1. contradiction.
    + apply rt_linked_view. assumption.
  - intros z' Hz' A. rewrite forallb_forall in H2. specialize (H2 z' Hz'). rewrite A in H2. simpl in H2.
    apply existsb_exists in H2. destruct H2 as [e [E1 E2]]. exists e. split; [assumption|]. apply rt_linked_view. assumption.
Qed.

Section RtChainCov.
  Variables (c : rt_cfg) (links : list (nat * nat)) (T : nat) (nord : nat -> nat -> list nat).
  Hypothesis Hwf : rt_chain_wf c.
  Hypothesis HT : T < length c.
  Hypothesis Hnord : rt_nord_ok c nord.
  Hypothesis Hprem : rt_premise c links (T :: rt_all_parents c T) = true.

  Lemma rt_prem_peers : forall z a b, z <= T -> In a (rt_eps c z) -> In b (rt_eps c z) -> a <> b -> In b (rt_view links a).
  Proof.
    intros z a b L. apply (rt_premise_spec c links _ Hprem z). apply (rt_chain_line_in c T z Hwf HT). assumption.
  Qed.

  Lemma rt_prem_adjacent : forall z z', z <= T -> z' <= T -> (z = S z' \/ z' = S z) ->
    exists e, In e (rt_eps c z') /\ In e (rt_view links (rt_zmaster c z)).
  Proof.
    intros z z' L L' A.
    apply (rt_premise_spec c links _ Hprem z); try (apply (rt_chain_line_in c T _ Hwf HT); assumption).
    destruct Hwf as [Hp _]. unfold rt_adjacent. rewrite (Hp z), (Hp z') by lia.
    destruct A as [A|A]; subst; simpl; rewrite Nat.eqb_refl; rewrite ?orb_true_r; reflexivity.
  Qed.

  (* under the premise every endpoint of an entitled zone elects the zone's smallest name *)
  Lemma rt_prem_master : forall z t, z <= T -> In t (rt_eps c z) ->
    rt_master c z t (rt_view links t) = rt_zmaster c z.
  Proof.
    intros z t L Ht.
    assert (rt_eps c z <> []) as NE by (intros Q; rewrite Q in Ht; contradiction).
    destruct (rt_zmaster_spec c z NE) as [Z1 Z2].
    destruct (rt_master_cases c z t (rt_view links t)) as [M1 [M2 M3]].
    assert (In (rt_master c z t (rt_view links t)) (rt_eps c z)) as MI.
    { destruct M1 as [M1|[M1 _]]; [rewrite M1|]; assumption. }
    pose proof (Z2 _ MI) as A.
    assert (rt_master c z t (rt_view links t) <= rt_zmaster c z) as B.
    { destruct (Nat.eq_dec (rt_zmaster c z) t) as [E|E]; [rewrite E; assumption|].
      apply M3; [assumption|]. apply (rt_prem_peers z t (rt_zmaster c z) L Ht Z1). auto. }
    lia.
  Qed.

  (* ------------------------------------------------------------ nothing is withheld by one relay step *)
  Section RtRelayCov.
    Variables (t Z : nat) (o : rt_origin).
    Hypothesis Ht : rt_zone_of c t = Some Z.
    Hypothesis HZ : Z <= T.
    Hypothesis O1 : rt_ozone o <> Some Z.
    Hypothesis O2 : forall f zf, rt_ofrom o = Some f -> rt_zone_of c f = Some zf -> zf = Z \/ rt_ozone o = Some zf.
    Hypothesis O3 : rt_master c Z t (rt_view links t) = t \/ rt_ofrom o <> Some (rt_master c Z t (rt_view links t)).

    Local Notation conn := (rt_view links t).
    Local Notation master := (rt_master c Z t (rt_view links t)).
    Let sends := rt_sends (rt_relay c t Z conn o (nord t) T true).
    Let mk (x : nat) : rt_msg := {| rt_mfrom := t; rt_mto := x; rt_moz := rt_ozone o |}.

    Lemma rt_cov_Z : Z < length c /\ In t (rt_eps c Z).
    Proof. apply rt_zone_of_some. assumption. Qed.

    Lemma rt_cov_send_local : forall e, In e (rt_eps c Z) -> e <> t -> In e conn -> rt_ofrom o <> Some e ->
      (master = t \/ e = master) -> In e sends.
    Proof.
      intros e He Ne Hc Ho Hm. destruct rt_cov_Z as [LZ _].
      apply (rt_sends_of_zone c t Z conn o (nord t) T true Z e).
      - apply (rt_chain_relay_zones_in c Z T Z Hwf LZ HT). split; [assumption|auto].
      - unfold rt_zone_loop. apply rt_fold_send_local; try assumption; [reflexivity|].
        apply (rt_ord_in c (nord t) (Hnord t)). assumption.
    Qed.

    Lemma rt_cov_send_foreign : forall z', z' <= T -> (Z = S z' \/ z' = S Z) -> master = t -> rt_ozone o <> Some z' ->
      exists x, In x sends /\ rt_zone_of c x = Some z'.
    Proof.
      intros z' L A M Oz. destruct rt_cov_Z as [LZ InZ].
      assert (z' < length c) as Lz' by lia.
      assert (In z' (rt_relay_zones c Z T)) as RZ.
      { apply (rt_chain_relay_zones_in c Z T z' Hwf LZ HT). split; [assumption|]. lia. }
      destruct (rt_prem_adjacent Z z' HZ L) as [e0 [E1 E2]]; [lia|].
      rewrite <- (rt_prem_master Z t HZ InZ) in E2. rewrite M in E2.
      assert (rt_zone_of c e0 = Some z') as Ze0.
      { destruct Hwf as [_ [_ [_ ND]]]. apply rt_zone_of_in; assumption. }
      assert (e0 <> t) as Ne0 by (intros Q; subst; rewrite Ht in Ze0; inversion Ze0; lia).
      assert (rt_ofrom o <> Some e0) as No0.
      { intros Q. destruct (O2 e0 z' Q Ze0) as [K|K]; [lia|contradiction]. }
      assert (rt_relayed (rt_zone_loop t Z master conn o (nord t) z') = true) as R.
      { unfold rt_zone_loop. apply rt_fold_relayed_foreign with (e := e0); try assumption.
        apply (rt_ord_in c (nord t) (Hnord t)). assumption. }
      assert (rt_asends (rt_zone_loop t Z master conn o (nord t) z') <> []) as N.
      { unfold rt_zone_loop in *. apply rt_fold_relayed_nonempty; [simpl; discriminate | assumption]. }
      destruct (rt_asends (rt_zone_loop t Z master conn o (nord t) z')) as [|x l] eqn:S; [congruence|].
      assert (In x (rt_asends (rt_zone_loop t Z master conn o (nord t) z'))) as Hx by (rewrite S; left; reflexivity).
      exists x. split.
      - apply (rt_sends_of_zone c t Z conn o (nord t) T true z' x RZ). assumption.
      - apply rt_zone_loop_sends in Hx. destruct Hx as [Hx _].
        apply (rt_ord_zone c (nord t) Hwf (Hnord t) z' x Lz' Hx).
    Qed.

    (* RLC: the region the relaying node can reach is covered by the future sets of the messages it sends *)
    Theorem rt_chain_relay_cov : forall e, rt_regionP c T t Z o e ->
      exists x, In x sends /\ rt_futP c links T (mk x) e.
    Proof.
      intros e [ze [Ee [Ne R]]]. destruct rt_cov_Z as [LZ InZ].
      destruct (Nat.eq_dec master t) as [M|M].
      - (* t is the master *)
        destruct R as [[R1 R2]|[[R1 R2]|[R1 [R2 R3]]]].
        + subst ze. destruct (rt_zone_of_some c e Z Ee) as [_ InE].
          exists e. split.
          * apply rt_cov_send_local; auto. apply (rt_prem_peers Z t e HZ InZ InE). auto.
          * apply (rt_futP_new c links T t Z o Ht e Z e Ee). left. reflexivity.
        + assert (Z = S (Z - 1)) as EZ by lia.
          destruct (rt_cov_send_foreign (Z - 1)) as [x [X1 X2]]; [lia|auto|assumption|assumption|].
          exists x. split; [assumption|]. apply (rt_futP_new c links T t Z o Ht x (Z - 1) e X2).
          destruct (Nat.eq_dec e x) as [Q|Q]; [left; assumption|right].
          split; [left; lia|]. exists ze. split; [assumption|]. split; [assumption|].
          assert ((Z =? Z - 1) = false) as B by (apply Nat.eqb_neq; lia). rewrite B. cbn [rt_ofrom rt_ozone].
          destruct (Nat.eq_dec ze (Z - 1)) as [Q'|Q'].
          -- left. split; [assumption|]. intros K. inversion K. congruence.
          -- right. left. split; [lia|]. intros K. inversion K. lia.
        + destruct (rt_cov_send_foreign (S Z)) as [x [X1 X2]]; [lia|auto|assumption|assumption|].
          exists x. split; [assumption|]. apply (rt_futP_new c links T t Z o Ht x (S Z) e X2).
          destruct (Nat.eq_dec e x) as [Q|Q]; [left; assumption|right].
          split; [left; lia|]. exists ze. split; [assumption|]. split; [assumption|].
          assert ((Z =? S Z) = false) as B by (apply Nat.eqb_neq; lia). rewrite B. cbn [rt_ofrom rt_ozone].
          destruct (Nat.eq_dec ze (S Z)) as [Q'|Q'].
          -- left. split; [assumption|]. intros K. inversion K. congruence.
          -- right. right. split; [lia|]. split; [assumption|]. intros K. inversion K. lia.
      - (* t is not the master: everything goes through the master u *)
        destruct O3 as [O3'|O3']; [contradiction|].
        destruct (rt_master_cases c Z t conn) as [[K|[K1 K2]] _]; [contradiction|].
        assert (rt_zone_of c master = Some Z) as Zu.
        { destruct Hwf as [_ [_ [_ ND]]]. apply rt_zone_of_in; assumption. }
        assert (In master sends) as Su by (apply rt_cov_send_local; auto).
        assert (rt_master c Z master (rt_view links master) = master) as Mu.
        { rewrite (rt_prem_master Z master HZ K1). symmetry. apply (rt_prem_master Z t HZ InZ). }
        exists master. split; [assumption|]. apply (rt_futP_new c links T t Z o Ht master Z e Zu).
        destruct (Nat.eq_dec e master) as [Q|Q]; [left; assumption|right].
        split; [right; assumption|]. rewrite Nat.eqb_refl.
        exists ze. split; [assumption|]. split; [assumption|]. simpl.
        destruct R as [[R1 R2]|[R|R]]; [|right; left; assumption|right; right; assumption].
        subst ze. exfalso. destruct (rt_zone_two c Hwf Z t master e Ht Zu Ee); [auto| |]; congruence.
    Qed.
  End RtRelayCov.

  (* ------------------------------------------------------------ the covering invariant *)
  Let eff := rt_effect c links T nord.

  (* in-flight messages come from entitled zones; the originZone stamp is entitled and is not the sender's zone *)
  Definition rt_mwfT (m : rt_msg) : Prop :=
    exists Zf, rt_zone_of c (rt_mfrom m) = Some Zf /\ Zf <= T /\
      forall z', rt_moz m = Some z' -> z' <= T /\ z' <> Zf.

  Definition rt_chain_cov (st : rt_st rt_msg) : Prop :=
    (forall m, In m (fst st) -> rt_mwfT m) /\
    (forall e ze, rt_zone_of c e = Some ze -> ze <= T ->
       In e (snd st) \/ exists m, In m (fst st) /\ rt_futP c links T m e).

  Lemma rt_chain_can_access : forall fz, fz <= T -> rt_can_access c fz T = true.
  Proof.
    intros fz L. unfold rt_can_access, rt_is_child_of. apply orb_true_iff. right.
    pose proof (proj2 (rt_chain_line_in c T fz Hwf HT) L) as K. simpl in K.
    apply orb_true_iff. destruct K as [K|K]; [left; apply Nat.eqb_eq; assumption | right; apply rt_mem_In; assumption].
  Qed.

  (* one delivery under the premise: accepted, the new messages are again well-stamped, and the future set of the
     delivered message is covered by the receiver and the future sets of the new messages *)
  Theorem rt_chain_step_cov : forall m new np, rt_mwf c links T m -> rt_mwfT m -> eff m = Some (new, np) ->
    np = [rt_mto m] /\ (forall m', In m' new -> rt_mwfT m') /\
    (forall e, rt_futP c links T m e -> e = rt_mto m \/ exists m', In m' new /\ rt_futP c links T m' e).
  Proof.
    intros m new np W WT H. destruct W as [Zf [Z [E1 [E2 W]]]]. destruct WT as [Zf' [E1' [LF St]]].
    assert (Zf' = Zf) by congruence. subst Zf'.
    assert (Z <= T) as LZ by (destruct W as [[W _]|[_ W]]; [subst; assumption|assumption]).
    set (o := rt_recv_origin c Z (Some (rt_mfrom m)) (rt_moz m)).
    assert (rt_ofrom o = Some (rt_mfrom m)) as Of by reflexivity.
    assert (rt_ozone o = if Zf =? Z then rt_moz m else Some Zf) as Oz.
    { unfold o, rt_recv_origin. simpl. rewrite E1. simpl. reflexivity. }
    assert (forall z', rt_ozone o = Some z' -> z' <= T /\ z' <> Z) as Ost.
    { intros z' Q. rewrite Oz in Q. destruct (Zf =? Z) eqn:B.
      - apply Nat.eqb_eq in B. subst Zf. apply St. assumption.
      - apply Nat.eqb_neq in B. inversion Q. subst z'. auto. }
    assert (rt_accepts c o T = true) as Acc.
    { unfold rt_accepts. destruct (rt_ozone o) as [fz|] eqn:Q; [|reflexivity].
      apply rt_chain_can_access. apply (Ost fz eq_refl). }
    assert (new = rt_mk_msgs (rt_mto m) (rt_ozone o)
                    (rt_sends (rt_relay c (rt_mto m) Z (rt_view links (rt_mto m)) o (nord (rt_mto m)) T true)) /\
            np = [rt_mto m]) as [Hn Hp].
    { unfold eff, rt_effect in H. rewrite E2 in H. fold o in H. rewrite Acc in H. simpl in H.
      injection H as H1 H2. split; symmetry; assumption. }
    split; [assumption|]. split.
    - intros m' Hm'. rewrite Hn in Hm'. unfold rt_mk_msgs in Hm'. apply in_map_iff in Hm'.
      destruct Hm' as [x [Q _]]. subst m'. exists Z. simpl. auto.
    - intros e [Zf2 [Z2 [F1 [F2 F]]]]. assert (Zf2 = Zf) by congruence. assert (Z2 = Z) by congruence. subst Zf2 Z2.
      destruct F as [F|[F1' F2']]; [left; assumption|right]. fold o in F2'.
      destruct (rt_chain_relay_cov (rt_mto m) Z o E2 LZ) with (e := e) as [x [X1 X2]].
      + intros Q. apply Ost in Q. lia.
      + intros f zf Q1 Q2. rewrite Of in Q1. inversion Q1. subst f. assert (zf = Zf) by congruence. subst zf.
        rewrite Oz. destruct (Zf =? Z) eqn:B; [left; apply Nat.eqb_eq; assumption | right; reflexivity].
      + destruct F1' as [F1'|F1']; [|left; assumption].
        destruct (rt_master_cases c Z (rt_mto m) (rt_view links (rt_mto m))) as [[K|[K _]] _]; [left; assumption|right].
        rewrite Of. intros Q. inversion Q as [Q']. rewrite <- Q' in K.
        destruct (rt_zone_of_some c _ _ E2) as [Lz _]. destruct Hwf as [_ [_ [_ ND]]].
        apply (rt_zone_of_in c _ Z ND Lz) in K. congruence.
      + assumption.
      + exists {| rt_mfrom := rt_mto m; rt_mto := x; rt_moz := rt_ozone o |}. split; [|assumption].
        rewrite Hn. unfold rt_mk_msgs. apply (in_map (fun e0 => {| rt_mfrom := rt_mto m; rt_mto := e0; rt_moz := rt_ozone o |})). assumption.
  Qed.

  Theorem rt_chain_cov_step : forall st np st', rt_chain_inv c links T st -> rt_chain_cov st ->
    rt_sched_step rt_msg eff st np st' -> rt_chain_cov st'.
  Proof.
    intros st np st' [I1 _] [C1 C2] S. inversion S as [pre m post P new np0 Em]. subst. cbn [fst snd] in *.
    assert (In m (pre ++ m :: post)) as Hm by (apply in_or_app; right; left; reflexivity).
    destruct (rt_chain_step_cov m new np (I1 m Hm) (C1 m Hm) Em) as [Hnp [Hw Hc]].
    split.
    - intros m' Hm'. apply in_app_or in Hm'. destruct Hm' as [Hm'|Hm'].
      + apply C1. apply in_or_app. left. assumption.
      + apply in_app_or in Hm'. destruct Hm' as [Hm'|Hm']; [|apply Hw; assumption].
        apply C1. apply in_or_app. right. right. assumption.
    - intros e ze Ee Le. destruct (C2 e ze Ee Le) as [K|[m0 [K1 K2]]].
      + left. apply in_or_app. right. assumption.
      + apply in_app_or in K1. destruct K1 as [K1|[K1|K1]].
        * right. exists m0. split; [apply in_or_app; left; assumption|assumption].
        * subst m0. destruct (Hc e K2) as [Q|[m' [Q1 Q2]]].
          -- left. subst. left. reflexivity.
          -- right. exists m'. split; [|assumption]. apply in_or_app. right. apply in_or_app. right. assumption.
        * right. exists m0. split; [|assumption]. apply in_or_app. right. apply in_or_app. left. assumption.
  Qed.

  Theorem rt_chain_cov_init : forall s lz, rt_zone_of c s = Some lz -> lz <= T ->
    rt_chain_cov (rt_init c links T nord s lz).
  Proof.
    intros s lz E L. unfold rt_init, rt_chain_cov. cbn [fst snd]. split.
    - intros m Hm. unfold rt_mk_msgs in Hm. apply in_map_iff in Hm. destruct Hm as [x [Q _]]. subst m.
      exists lz. simpl. split; [assumption|]. split; [assumption|]. intros z' K. discriminate.
    - intros e ze Ee Le. destruct (Nat.eq_dec e s) as [Q|Q]; [left; left; auto|right].
      destruct (rt_chain_relay_cov s lz rt_no_origin E L) with (e := e) as [x [X1 X2]].
      + simpl. discriminate.
      + simpl. intros f zf K. discriminate.
      + right. simpl. discriminate.
      + exists ze. split; [assumption|]. split; [assumption|]. simpl.
        destruct (lt_eq_lt_dec ze lz) as [[K|K]|K].
        * right. left. split; [assumption|discriminate].
        * left. split; [assumption|discriminate].
        * right. right. split; [assumption|]. split; [assumption|discriminate].
      + exists {| rt_mfrom := s; rt_mto := x; rt_moz := None |}. split; [|assumption].
        unfold rt_mk_msgs. apply (in_map (fun e0 => {| rt_mfrom := s; rt_mto := e0; rt_moz := None |})). assumption.
  Qed.
End RtChainCov.

(* every endpoint of every entitled zone processes - every schedule, arbitrary depth *)
Theorem rt_chain_complete : forall c links T nord s lz,
  rt_chain_wf c -> T < length c -> rt_nord_ok c nord -> rt_zone_of c s = Some lz ->
  forall k st', rt_sched_run rt_msg (rt_effect c links T nord) (rt_init c links T nord s lz) k st' ->
    fst st' = [] -> rt_final_complete c links T lz (snd st') = true.
Proof.
  intros c links T nord s lz Hwf HT Hnord E k st' R F.
  unfold rt_final_complete, rt_entitled_zones.
  assert (rt_global c T = false) as G by (destruct Hwf as [_ [Hg _]]; apply Hg; assumption). rewrite G.
  destruct (rt_mem lz (T :: rt_all_parents c T) && rt_premise c links (T :: rt_all_parents c T)) eqn:P; [|reflexivity].
  cbn [negb orb]. apply andb_true_iff in P. destruct P as [P1 P2].
  apply rt_mem_In in P1. apply (rt_chain_line_in c T lz Hwf HT) in P1.
  assert (forall st0 k0 st1, rt_sched_run rt_msg (rt_effect c links T nord) st0 k0 st1 ->
            rt_chain_inv c links T st0 -> rt_chain_cov c links T st0 -> rt_chain_cov c links T st1) as Run.
  { intros st0 k0 st1 R0. induction R0 as [st|st np st1 k1 st2 S R0 IH]; intros I C; [assumption|].
    apply IH.
    - apply (rt_chain_inv_step c links T nord Hwf HT Hnord st np st1 I S).
    - apply (rt_chain_cov_step c links T nord Hwf HT Hnord P2 st np st1 I C S). }
  destruct (rt_chain_init c links T nord Hwf HT Hnord s lz E) as [I0 _].
  pose proof (Run _ _ _ R I0 (rt_chain_cov_init c links T nord Hwf HT Hnord P2 s lz E P1)) as [_ C].
  apply forallb_forall. intros e He. apply in_flat_map in He. destruct He as [z [Z1 Z2]].
  apply (rt_chain_line_in c T z Hwf HT) in Z1. apply rt_mem_In.
  assert (rt_zone_of c e = Some z) as Ze.
  { destruct Hwf as [_ [_ [_ ND]]]. apply rt_zone_of_in; [assumption|lia|assumption]. }
  destruct (C e z Ze Z1) as [K|[m [K _]]]; [assumption|]. rewrite F in K. contradiction.
Qed.

(* ---------------------------------------------------------------- packaging *)
(* finitely many deliveries (fewer than the number of endpoints, hence fewer than the rt_fuel c the bounded sweeps use)
   and nobody processes twice *)
Theorem rt_chain_finite_once_run : forall c links T s lz nord,
  rt_chain_wf c -> T < length c -> rt_zone_of c s = Some lz -> rt_nord_ok c nord ->
  forall k st', rt_sched_run rt_msg (rt_effect c links T nord) (rt_init c links T nord s lz) k st' ->
    k < length (flat_map rt_zeps c) /\ k < rt_fuel c /\
    (forall np st'', rt_sched_step rt_msg (rt_effect c links T nord) st' np st'' -> rt_fresh np (snd st') = true).
Proof.
  intros c links T s lz nord Hwf HT E Hn k st' R.
  destruct (rt_chain_finite_once c links T nord Hwf HT Hn s lz E k st' R) as [K1 [_ [_ K2]]].
  rewrite rt_all_eps_zeps in K1. split; [assumption|]. split; [unfold rt_fuel; lia|assumption].
Qed.

(* a decidable sufficient condition for rt_chain_wf (used for the non-vacuity examples) *)
Definition rt_chain_wf_b (c : rt_cfg) : bool :=
  forallb (fun z => rt_oeqb (rt_parent c z) (match z with 0 => None | S j => Some j end) && negb (rt_global c z))
          (seq 0 (length c)) &&
  forallb (fun zr => length (rt_zeps zr) <=? 2) c && rt_nodup_b (rt_all_eps c).

Lemma rt_chain_wf_b_spec : forall c, rt_chain_wf_b c = true -> rt_chain_wf c.
Proof.
  intros c H. unfold rt_chain_wf_b in H. apply andb_true_iff in H. destruct H as [H H3].
  apply andb_true_iff in H. destruct H as [H1 H2]. rewrite forallb_forall in H1, H2.
  split; [|split; [|split]].
  - intros z L. assert (In z (seq 0 (length c))) as I by (apply in_seq; lia). specialize (H1 z I).
    apply andb_true_iff in H1. destruct H1 as [H1 _]. apply rt_oeqb_eq in H1. assumption.
  - intros z L. assert (In z (seq 0 (length c))) as I by (apply in_seq; lia). specialize (H1 z I).
    apply andb_true_iff in H1. destruct H1 as [_ H1]. apply negb_true_iff in H1. assumption.
  - intros z. unfold rt_eps, rt_getz. destruct (nth_in_or_default z c rt_zdummy) as [K|K].
    + apply Nat.leb_le. apply H2. assumption.
    + rewrite K. simpl. lia.
  - apply rt_nodup_b_NoDup. assumption.
Qed.
