(* C11 - Zone::OnAllConfigLoaded (lib/remote/zone.cpp:14-47): how m_Parent and m_AllParents - the ancestor
   chain SyncRelayMessage iterates - are built, for ANY order in which the zones' OnAllConfigLoaded run.
   The C++ follows the parent NAMES through the object registry (Zone::GetByName(zone->GetParentRaw())), which
   is complete before the first OnAllConfigLoaded runs; it never reads another zone's m_Parent. *)
From Coq Require Import List Arith Bool PeanoNat Lia.
From Icv Require Import Route.RtModel.
Import ListNotations.

(* "while (zone) { m_AllParents.push_back(zone); zone = GetByName(zone->GetParentRaw()); levels++;
     if (levels > 32) throw }"  - None is the ScriptError *)
Fixpoint rt_walk (c : rt_cfg) (fuel : nat) (cur : option nat) : option (list nat) :=
  match cur with
  | None => Some []
  | Some p =>
      match fuel with
      | 0 => None
      | S f => match rt_walk c f (rt_parent c p) with
               | Some l => Some (p :: l)
               | None => None
               end
      end
  end.

(* one zone's OnAllConfigLoaded: (m_Parent, m_AllParents), None = config error *)
Definition rt_load_one (c : rt_cfg) (z : nat) : option (option nat * list nat) :=
  let p := rt_parent c z in
  if match p with Some q => rt_global c q | None => false end then None
  else match rt_walk c 32 p with
       | Some l => Some (p, l)
       | None => None
       end.

(* the zones' OnAllConfigLoaded in the given activation order *)
Fixpoint rt_load (c : rt_cfg) (order : list nat) : option (list (nat * (option nat * list nat))) :=
  match order with
  | [] => Some []
  | z :: r => match rt_load_one c z, rt_load c r with
              | Some x, Some l => Some ((z, x) :: l)
              | _, _ => None
              end
  end.

(* the ancestor chain as a relation: proper ancestors, nearest first *)
Inductive rt_is_chain (c : rt_cfg) : option nat -> list nat -> Prop :=
| rt_chain_nil : rt_is_chain c None []
| rt_chain_cons : forall p l, rt_is_chain c (rt_parent c p) l -> rt_is_chain c (Some p) (p :: l).

Lemma rt_walk_chain : forall c l cur fuel, rt_is_chain c cur l -> length l <= fuel -> rt_walk c fuel cur = Some l.
Proof.
  intros c l cur fuel H. revert fuel. induction H as [|p l H IH]; intros fuel L.
  - destruct fuel; reflexivity.
  - destruct fuel as [|f]; simpl in *; [lia|]. rewrite IH by lia. reflexivity.
Qed.

Lemma rt_parents_from_chain : forall c l z fuel,
  rt_is_chain c (rt_parent c z) l -> length l <= fuel -> rt_parents_from c fuel z = l.
Proof.
  intros c l. induction l as [|p l IH]; intros z fuel H L.
  - inversion H as [E|]. destruct fuel; simpl; [reflexivity|]. rewrite <- E. reflexivity.
  - inversion H as [|p0 l0 H1 E1]. subst. destruct fuel as [|f]; simpl in *; [lia|].
    rewrite <- E1. f_equal. apply IH; [assumption|lia].
Qed.

(* acyclic forests: parents carry smaller numbers (every finite forest can be numbered that way) *)
Definition rt_forest (c : rt_cfg) : Prop := forall z p, rt_parent c z = Some p -> p < z.

Lemma rt_forest_chain : forall c, rt_forest c -> forall z, exists l, rt_is_chain c (rt_parent c z) l /\ length l <= z.
Proof.
  intros c F z. induction z as [z IH] using lt_wf_ind.
  destruct (rt_parent c z) as [p|] eqn:E.
  - destruct (IH p (F z p E)) as [l [H1 H2]]. exists (p :: l). split; [constructor; assumption|].
    simpl. pose proof (F z p E). lia.
  - exists []. split; [constructor | simpl; lia].
Qed.

Lemma rt_chain_bound : forall c, rt_forest c -> forall cur l, rt_is_chain c cur l ->
  forall p, cur = Some p -> p < length c -> length l <= length c.
Proof.
  intros c F cur l H. induction H as [|p l H IH]; intros q E L; [discriminate|].
  inversion E. subst q. simpl.
  destruct (rt_parent c p) as [pp|] eqn:Ep.
  - assert (pp < p) by (apply F; assumption).
    assert (forall cur l, rt_is_chain c cur l -> forall q, cur = Some q -> length l <= S q) as B.
    { clear - F. intros cur l H. induction H as [|p l H IH]; intros q E; [discriminate|].
      inversion E. subst q. simpl. destruct (rt_parent c p) as [pp|] eqn:Ep.
      - pose proof (F p pp Ep). specialize (IH pp eq_refl). lia.
      - inversion H. simpl. lia. }
    pose proof (B _ _ H pp eq_refl). lia.
  - inversion H. simpl. lia.
Qed.

(* what every zone ends up with, whatever the activation order: its parent and its ancestor chain - the same
   list rt_all_parents (used by the relay model) computes *)
Theorem rt_load_correct : forall c order res,
  rt_load c order = Some res ->
  forall z x, In (z, x) res -> rt_load_one c z = Some x.
Proof.
  intros c order. induction order as [|y r IH]; simpl; intros res H z x I.
  - inversion H. subst. contradiction.
  - destruct (rt_load_one c y) as [v|] eqn:E1; [|discriminate].
    destruct (rt_load c r) as [l|] eqn:E2; [|discriminate]. inversion H. subst res.
    destruct I as [I|I]; [inversion I; subst; assumption | eapply IH; eauto].
Qed.

Theorem rt_load_one_chain : forall c z l,
  rt_is_chain c (rt_parent c z) l -> length l <= 32 ->
  (forall q, rt_parent c z = Some q -> rt_global c q = false) ->
  rt_load_one c z = Some (rt_parent c z, l).
Proof.
  intros c z l H L G. unfold rt_load_one.
  destruct (rt_parent c z) as [q|] eqn:E.
  - rewrite (G q eq_refl). rewrite (rt_walk_chain c l (Some q) 32 H L). reflexivity.
  - inversion H. reflexivity.
Qed.

Theorem rt_all_parents_chain : forall c z l,
  rt_forest c -> z < length c -> rt_is_chain c (rt_parent c z) l -> rt_all_parents c z = l.
Proof.
  intros c z l F Z H. unfold rt_all_parents. apply rt_parents_from_chain; [assumption|].
  destruct (rt_parent c z) as [p|] eqn:E.
  - pose proof (F z p E). assert (length l <= length c) by (eapply rt_chain_bound; eauto; lia). lia.
  - inversion H. simpl. lia.
Qed.

(* every order: for an acyclic forest of depth <= 32 without global parents the load succeeds and gives every
   zone exactly (parent, rt_all_parents) *)
Theorem rt_load_any_order : forall c order,
  rt_forest c -> (forall z, In z order -> z < length c) ->
  (forall z, length (rt_all_parents c z) <= 32) ->
  (forall z q, rt_parent c z = Some q -> rt_global c q = false) ->
  rt_load c order = Some (map (fun z => (z, (rt_parent c z, rt_all_parents c z))) order).
Proof.
  intros c order F B D G. induction order as [|z r IH]; simpl; [reflexivity|].
  destruct (rt_forest_chain c F z) as [l [H1 H2]].
  assert (rt_all_parents c z = l) as E by (apply rt_all_parents_chain; auto; apply B; left; reflexivity).
  rewrite (rt_load_one_chain c z l H1); [| rewrite <- E; apply D | apply G].
  rewrite IH by (intros y Hy; apply B; right; assumption). rewrite E. reflexivity.
Qed.

(* why the order could matter: a walk that follows the ALREADY LOADED m_Parent pointers instead of the registry
   truncates the chain when children are loaded before their parents *)
Fixpoint rt_walk_mparent (st : list (nat * option nat)) (fuel : nat) (cur : option nat) : list nat :=
  match cur, fuel with
  | Some p, S f =>
      p :: rt_walk_mparent st f
             (match find (fun e => fst e =? p) st with Some (_, q) => q | None => None end)
  | _, _ => []
  end.
Fixpoint rt_load_mparent (c : rt_cfg) (st : list (nat * option nat)) (order : list nat) : list (nat * list nat) :=
  match order with
  | [] => []
  | z :: r => let st' := (z, rt_parent c z) :: st in
              (z, rt_walk_mparent st' 32 (rt_parent c z)) :: rt_load_mparent c st' r
  end.

Lemma rt_mparent_walk_order_dependent :
  let c := [{| rt_zparent := None; rt_zglobal := false; rt_zeps := [1] |};
            {| rt_zparent := Some 0; rt_zglobal := false; rt_zeps := [2] |};
            {| rt_zparent := Some 1; rt_zglobal := false; rt_zeps := [3] |}] in
  rt_load_mparent c [] [0; 1; 2] = [(0, []); (1, [0]); (2, [1; 0])] /\
  rt_load_mparent c [] [2; 1; 0] = [(2, [1]); (1, [0]); (0, [])] /\
  rt_load c [2; 1; 0] = Some [(2, (Some 1, [1; 0])); (1, (Some 0, [0])); (0, (None, []))].
Proof. repeat split. Qed.
