(* C12 round 2 (brief C12b) - per-endpoint positions: messages that ARRIVE from an endpoint of a zone and are relayed on
   (ApiListener::RelayMessageOne with an origin).  Only `exact` + Print Assumptions here; model in Replay/RlOrigin.v,
   proofs in Replay/RlOriginProofs.v, translated-code tie in Src/SrcRelay.v. *)
From Icv Require Import Base.Tac Replay.RlBytes Replay.RlModel Replay.RlProofs Replay.RlHistory Replay.RlHistoryProofs
  Replay.RlSize Replay.RlCompact Replay.RlOrigin Replay.RlOriginProofs.
From Coq Require Import Sorting.Sorted.
Local Open Scope Z_scope.

(* One operation - a locally generated event, a message arriving from ANY endpoint with ANY originZone and relayed on,
   rotation, restart, disconnect, reconnect, acknowledgement or incoming message of any endpoint, clean-up - applied to ANY
   state in which endpoint id is away (no record named id is connected), other than id's own acknowledgement
   (log::SetLogPosition handled for id): id's local log position is unchanged; and unless the operation is id's own
   reconnect, id is still away afterwards. *)
Theorem C12_position_only_moves_for_connected : forall t now op st id,
  rl_ep_away id (rl_eps st) -> rl_oh_acks op id = false ->
  map rl_ep_pos (rl_ep_view id (rl_eps (rl_ohstep t now op st))) = map rl_ep_pos (rl_ep_view id (rl_eps st)) /\
  (rl_oh_conns op id = false -> rl_ep_away id (rl_eps (rl_ohstep t now op st))).
Proof. exact rl_pos_stable_step. Qed.
Print Assumptions C12_position_only_moves_for_connected.

(* ... hence over any number of operations of the others *)
Theorem C12_position_stable_while_away : forall t id h st,
  rl_ep_away id (rl_eps st) -> Forall (fun x => rl_oh_acks (snd x) id = false /\ rl_oh_conns (snd x) id = false) h ->
  map rl_ep_pos (rl_ep_view id (rl_eps (rl_ohrun t h st))) = map rl_ep_pos (rl_ep_view id (rl_eps st)) /\
  rl_ep_away id (rl_eps (rl_ohrun t h st)).
Proof. exact rl_pos_stable_run. Qed.
Print Assumptions C12_position_stable_while_away.

(* the reason: whatever the origin, RelayMessageOne only ever puts CONNECTED endpoints on skippedEndpoints *)
Theorem C12_skipped_endpoints_connected : forall org t eps z id,
  In id (rl_zr_skipped (rl_relay_one_o org t eps z)) -> exists e, In e eps /\ rl_ep_id e = id /\ rl_ep_conn e = true.
Proof. exact rl_relay_one_o_skipped. Qed.
Print Assumptions C12_skipped_endpoints_connected.

(* with origin = null the routing with an origin is the routing all other C12 theorems speak about *)
Theorem C12_relay_without_origin : forall t now sec msg st, rl_relay_o None t now sec msg st = rl_relay t now sec msg st.
Proof. exact rl_relay_o_none. Qed.
Print Assumptions C12_relay_without_origin.

(* the log invariant, and with it C12_replayed, over histories that also contain arriving messages *)
Theorem C12_history_invariant_origin : forall t h c st,
  rl_hinv c st -> rl_ohvalid c h -> rl_hinv (rl_ohclock c h) (rl_ohrun t h st).
Proof. exact rl_ohistory_invariant. Qed.
Print Assumptions C12_history_invariant_origin.

Theorem C12_replayed_origin : forall t now0 eps h now ep,
  0 < now0 -> rl_ohvalid now0 h -> rl_ep_dur ep <> 0 ->
  let st := rl_ohrun t h (rl_init_st now0 eps) in
  let r := rl_replay t now ep st in
  rl_msgs (rl_rr_out r) = map rl_e_msg (filter (rl_sel t (rl_ep_zone ep) (rl_ep_pos ep)) (rl_log_entries st)) /\ rl_rr_done r = true.
Proof. exact rl_replayed_ohistory. Qed.
Print Assumptions C12_replayed_origin.

(* C12_replayed per endpoint: id is away after h1; then h2 - anything but id's own reconnect / acknowledgement, in particular
   the other endpoint of its zone returning, being replayed to, sending messages, acknowledging - ; on its return id is
   replayed every persisted entry above the position it had when h2 began that its zone may see, in order *)
Theorem C12_replayed_per_endpoint : forall t now0 eps h1 h2 now id ep,
  0 < now0 -> rl_ohvalid now0 (h1 ++ h2) -> rl_ep_dur ep <> 0 ->
  let st1 := rl_ohrun t h1 (rl_init_st now0 eps) in
  let st2 := rl_ohrun t h2 st1 in
  rl_ep_away id (rl_eps st1) ->
  Forall (fun x => rl_oh_acks (snd x) id = false /\ rl_oh_conns (snd x) id = false) h2 ->
  In ep (rl_ep_view id (rl_eps st2)) ->
  rl_ep_conn ep = false /\ In (rl_ep_pos ep) (map rl_ep_pos (rl_ep_view id (rl_eps st1))) /\
  let r := rl_replay t now ep st2 in
  rl_msgs (rl_rr_out r) = map rl_e_msg (filter (rl_sel t (rl_ep_zone ep) (rl_ep_pos ep)) (rl_log_entries st2)) /\
  rl_rr_done r = true.
Proof. exact rl_replayed_per_endpoint. Qed.
Print Assumptions C12_replayed_per_endpoint.

(* the record-level model (large payloads) refines the byte-level one for the new operation *)
Theorem C12_record_model_relay_origin : forall org t now sec m s,
  let rx := rl_x_relay_o org t now sec m s in
  let rb := rl_relay_o org t now sec (rl_x_expand m) (rl_x_conc s) in
  rl_xrl_logged rx = rl_rl_logged rb /\ rl_xrl_live rx = rl_rl_live rb /\ rl_x_conc (rl_xrl_st rx) = rl_rl_st rb.
Proof. exact rl_x_conc_relay_o. Qed.
Print Assumptions C12_record_model_relay_origin.

(* the operation executed in the correspondence run (rl_from / rl_x_from) is the history step, and its record-level form
   refines the byte-level one *)
Theorem C12_from_is_history_step : forall t now id ts oz sec msg st,
  rl_fr_st (rl_from t now id ts oz sec msg st) = rl_ohstep t now (RlOFrom id ts oz sec msg) st.
Proof. exact rl_from_step. Qed.
Print Assumptions C12_from_is_history_step.

Theorem C12_record_model_from : forall t now id ts oz sec m s,
  let rx := rl_x_from t now id ts oz sec m s in
  let rb := rl_from t now id ts oz sec (rl_x_expand m) (rl_x_conc s) in
  rl_xfr_acc rx = rl_fr_acc rb /\ rl_xfr_logged rx = rl_fr_logged rb /\ rl_xfr_live rx = rl_fr_live rb /\ rl_x_conc (rl_xfr_st rx) = rl_fr_st rb.
Proof. exact rl_x_conc_from. Qed.
Print Assumptions C12_record_model_from.

(* the oracle run over the implementation's observations (position before / after every operation, per endpoint) accepts
   every step of the model *)
Theorem C12_oracle_accepts_model_posmove : forall t now op st ids,
  rl_or_posmove (rl_posmove_obs op (rl_eps st) (rl_eps (rl_ohstep t now op st)) ids) = true.
Proof. exact rl_oracle_accepts_posmove. Qed.
Print Assumptions C12_oracle_accepts_model_posmove.

(* non-vacuity, and the scenario of the brief on the model: zone 2 has endpoints 3 and 4, both away while two events are
   logged; 3 returns and sends a message (its position moves to 104, it is connected); 4, still away, keeps position 0
   and is replayed both events on its return *)
Example C12_origin_nonvacuous :
  map rl_ep_pos (rl_eps rl_ow_st) = [104; 0] /\ map rl_ep_conn (rl_eps rl_ow_st) = [true; false] /\
  rl_msgs (rl_rr_out (rl_replay rl_ow_topo 105 (rl_ow_ep 4) rl_ow_st)) = [rl_mk_msg 1 101; rl_mk_msg 2 102].
Proof. exact rl_ow_witness. Qed.
