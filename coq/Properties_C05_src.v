(* C05 - theorems over the functions TRANSLATED from /repo on every run (tools/cxx2coq.py -> coq/Facts/Facts_fn_*.v).
   Each theorem is guarded by `src_<fn>_recognised = true`: a C++ shape outside the translator's subset leaves it
   trivially true (logged as "xlate: ... not recognised", tie by the correspondence run only); a recognised shape that no
   longer equals the model breaks the proof in coq/Src and with it this file.  Only `exact` + Print Assumptions here. *)
From Icv Require Import Base.Tac Src.XlPrelude Ck.CkState Ck.CkFull Facts.Facts_fn_ck Src.SrcCk Src.SrcProps.
Local Open Scope Z_scope.

Theorem C05_src_in_effect : src_downtime_is_in_effect_recognised = true ->
  forall now d, xdt src_downtime_is_in_effect now d = dt_in_effect now d.
Proof. exact src_downtime_is_in_effect_eq. Qed.
Print Assumptions C05_src_in_effect.

Theorem C05_src_is_triggered : src_downtime_is_triggered_recognised = true ->
  forall now d, xdt src_downtime_is_triggered now d = dt_is_triggered now d.
Proof. exact src_downtime_is_triggered_eq. Qed.
Print Assumptions C05_src_is_triggered.

Theorem C05_src_is_expired : src_downtime_is_expired_recognised = true ->
  forall now d, xdt src_downtime_is_expired now d = dt_is_expired now d.
Proof. exact src_downtime_is_expired_eq. Qed.
Print Assumptions C05_src_is_expired.

Theorem C05_src_can_be_triggered : src_downtime_can_be_triggered_recognised = true ->
  forall now d, xdt src_downtime_can_be_triggered now d = dt_can_be_triggered now d.
Proof. exact src_downtime_can_be_triggered_eq. Qed.
Print Assumptions C05_src_can_be_triggered.

Theorem C05_src_in_downtime : src_checkable_is_in_downtime_recognised = true ->
  forall now f, src_checkable_is_in_downtime now (f_dts f) = in_downtime now f.
Proof. exact src_checkable_is_in_downtime_eq. Qed.
Print Assumptions C05_src_in_downtime.

Theorem C05_src_depth : src_checkable_get_downtime_depth_recognised = true ->
  forall now f, src_checkable_get_downtime_depth now (f_dts f) = downtime_depth now f.
Proof. exact src_checkable_get_downtime_depth_eq. Qed.
Print Assumptions C05_src_depth.

(* C05_in_effect and C05_depth restated for the translated functions *)
Theorem C05_src_in_effect_window : src_downtime_is_in_effect_recognised = true -> forall now d,
  xdt src_downtime_is_in_effect now d = true <->
  (d_fixed d = true /\ d_start d <= now < d_end d) \/
  (d_fixed d = false /\ d_trigger d <> 0 /\ now < d_trigger d + d_duration d).
Proof. exact src_in_effect_window. Qed.
Print Assumptions C05_src_in_effect_window.

Theorem C05_src_depth_char : src_checkable_get_downtime_depth_recognised = true -> src_checkable_is_in_downtime_recognised = true ->
  src_downtime_is_in_effect_recognised = true -> forall now f,
  src_checkable_get_downtime_depth now (f_dts f) = Z.of_nat (length (filter (xdt src_downtime_is_in_effect now) (f_dts f))) /\
  (0 < src_checkable_get_downtime_depth now (f_dts f) <-> src_checkable_is_in_downtime now (f_dts f) = true).
Proof. exact src_depth_char. Qed.
Print Assumptions C05_src_depth_char.

(* Downtime::TriggerDowntime as a state-passing function (attribute writes -> new state, other effects -> event list):
   one level of the model's trigger_dt - nothing unless dt_can_be_triggered; trigger_time written only when 0; clean-up
   timer armed; every existing chained downtime triggered with the same instant in list order; OnDowntimeTriggered last *)
Theorem C05_src_trigger_downtime : src_downtime_trigger_downtime_recognised = true ->
  forall now d t (ex : Z -> bool),
    xdt src_downtime_trigger_downtime now d t (d_triggers d) ex
    = if dt_can_be_triggered now d
      then (if d_trigger d =? 0 then t else d_trigger d,
            XeArmCleanup :: map (fun c => XeTriggerChild c t) (filter ex (d_triggers d)) ++ [XeTriggered])
      else (d_trigger d, []).
Proof. exact src_downtime_trigger_downtime_eq. Qed.
Print Assumptions C05_src_trigger_downtime.

Example C05_src_nonvacuous : src_downtime_can_be_triggered_recognised = true -> src_downtime_can_be_triggered 15 false 10 20 0 5 = true /\ src_downtime_can_be_triggered 21 false 10 20 0 5 = false /\ src_downtime_is_in_effect 15 false 10 20 12 5 = true.
Proof. intro H; xl_rec H. all: repeat split; vm_compute; reflexivity. Qed.

