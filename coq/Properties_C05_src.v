(* C05 - theorems over the functions TRANSLATED from /repo on every run (tools/cxx2coq.py -> coq/Facts/Facts_fn_*.v).
   Each theorem is guarded by `src_<fn>_recognised = true`: a C++ shape outside the translator's subset leaves it
   trivially true (logged as "xlate: ... not recognised", tie by the correspondence run only); a recognised shape that no
   longer equals the model breaks the proof in coq/Src and with it this file.  Only `exact` + Print Assumptions here. *)
From Icv Require Import Base.Tac Src.XlPrelude Ck.CkState Ck.CkFull Facts.Facts_fn_ck Src.SrcCk Src.SrcProps.
Local Open Scope Z_scope.

Theorem C05_src_in_effect : src_downtime_is_in_effect_recognised = true ->
  forall now d, xdt src_downtime_is_in_effect now d = dt_in_effect now d.
Proof. exact src_downtime_is_in_effect_eq. Qed.
Print Assumptions C05_src_in_effect.

Theorem C05_src_is_triggered : src_downtime_is_triggered_recognised = true ->
  forall now d, xdt src_downtime_is_triggered now d = dt_is_triggered now d.
Proof. exact src_downtime_is_triggered_eq. Qed.
Print Assumptions C05_src_is_triggered.

Theorem C05_src_is_expired : src_downtime_is_expired_recognised = true ->
  forall now d, xdt src_downtime_is_expired now d = dt_is_expired now d.
Proof. exact src_downtime_is_expired_eq. Qed.
Print Assumptions C05_src_is_expired.

Theorem C05_src_can_be_triggered : src_downtime_can_be_triggered_recognised = true ->
  forall now d, xdt src_downtime_can_be_triggered now d = dt_can_be_triggered now d.
Proof. exact src_downtime_can_be_triggered_eq. Qed.
Print Assumptions C05_src_can_be_triggered.

Theorem C05_src_in_downtime : src_checkable_is_in_downtime_recognised = true ->
  forall now f, src_checkable_is_in_downtime now (f_dts f) = in_downtime now f.
Proof. exact src_checkable_is_in_downtime_eq. Qed.
Print Assumptions C05_src_in_downtime.

Theorem C05_src_depth : src_checkable_get_downtime_depth_recognised = true ->
  forall now f, src_checkable_get_downtime_depth now (f_dts f) = downtime_depth now f.
Proof. exact src_checkable_get_downtime_depth_eq. Qed.
Print Assumptions C05_src_depth.

(* C05_in_effect and C05_depth restated for the translated functions *)
Theorem C05_src_in_effect_window : src_downtime_is_in_effect_recognised = true -> forall now d,
  xdt src_downtime_is_in_effect now d = true <->
  (d_fixed d = true /\ d_start d <= now < d_end d) \/
  (d_fixed d = false /\ d_trigger d <> 0 /\ now < d_trigger d + d_duration d).
Proof. exact src_in_effect_window. Qed.
Print Assumptions C05_src_in_effect_window.

Theorem C05_src_depth_char : src_checkable_get_downtime_depth_recognised = true -> src_checkable_is_in_downtime_recognised = true ->
  src_downtime_is_in_effect_recognised = true -> forall now f,
  src_checkable_get_downtime_depth now (f_dts f) = Z.of_nat (length (filter (xdt src_downtime_is_in_effect now) (f_dts f))) /\
  (0 < src_checkable_get_downtime_depth now (f_dts f) <-> src_checkable_is_in_downtime now (f_dts f) = true).
Proof. exact src_depth_char. Qed.
Print Assumptions C05_src_depth_char.

(* Downtime::TriggerDowntime as a state-passing function (attribute writes -> new state, other effects -> event list):
   one level of the model's trigger_dt - nothing unless dt_can_be_triggered; trigger_time written only when 0; clean-up
   timer armed; every existing chained downtime triggered with the same instant in list order; OnDowntimeTriggered last *)
Theorem C05_src_trigger_downtime : src_downtime_trigger_downtime_recognised = true ->
  forall now d t (ex : Z -> bool),
    xdt src_downtime_trigger_downtime now d t (d_triggers d) ex
    = if dt_can_be_triggered now d
      then (if d_trigger d =? 0 then t else d_trigger d,
            XeArmCleanup :: map (fun c => XeTriggerChild c t) (filter ex (d_triggers d)) ++ [XeTriggered])
      else (d_trigger d, []).
Proof. exact src_downtime_trigger_downtime_eq. Qed.
Print Assumptions C05_src_trigger_downtime.

Example C05_src_nonvacuous : src_downtime_can_be_triggered_recognised = true -> src_downtime_can_be_triggered 15 false 10 20 0 5 = true /\ src_downtime_can_be_triggered 21 false 10 20 0 5 = false /\ src_downtime_is_in_effect 15 false 10 20 12 5 = true.
Proof. intro H; xl_rec H. all: repeat split; vm_compute; reflexivity. Qed.


(* ---------------------------------------------------------------------------------------------------------------------
   Round 2 (notes/XLATE.md section 8): Downtime::Start's trigger decisions, the part of RemoveDowntime before the deletion,
   one iteration of the two timer handlers, as translated from /repo on this run (coq/Facts/Facts_fn_dt.v).
   xs_level = one level of the model's trigger_dt (round 1); rreason is encoded by xr_num (enum DowntimeRemovalReason). *)
From Icv Require Import Facts.Facts_fn_dt Src.SrcDt.

(* Start: a fixed downtime is announced and triggered at max(start, entry) iff it can be triggered; a flexible one is triggered at
   max(start, entry, last state change) iff the checkable has a problem - the decisions and instants of do_dt_add *)
Theorem C05_src_start_trigger : src_downtime_start_trigger_recognised = true -> src_downtime_trigger_downtime_recognised = true ->
  src_downtime_can_be_triggered_recognised = true ->
  forall now d problem lsc ex,
    src_downtime_start_trigger now (d_fixed d) (d_start d) (d_end d) (d_trigger d) (d_duration d) (d_entry d) problem lsc (d_triggers d) ex
    = if d_fixed d
      then (if dt_can_be_triggered now d
            then (let t := Z.max (d_start d) (d_entry d) in (fst (xs_level now d t ex), [XsStarted; XsTrigger t (snd (xs_level now d t ex))]))
            else (d_trigger d, []))
      else (if problem
            then (let t := Z.max (Z.max (d_start d) (d_entry d)) lsc in (fst (xs_level now d t ex), [XsTrigger t (snd (xs_level now d t ex))]))
            else (d_trigger d, [])).
Proof. exact src_downtime_start_trigger_eq. Qed.
Print Assumptions C05_src_start_trigger.

(* RemoveDowntime: silent return for an unknown / non-API downtime, exception for an owned downtime removed by a user (before any
   effect), otherwise the children are removed first (iff includeChildren) and the removal info is set (unless expired) *)
Theorem C05_src_remove_pre : src_downtime_remove_pre_recognised = true ->
  forall found is_api owned ic r kids,
    src_downtime_remove_pre found is_api owned ic (xr_num r) kids
    = if negb found || negb is_api then (true, [])
      else if owned && match r with RByUser => true | _ => false end then (true, [XsThrow])
      else (false, (if ic then map XsRemoveChild kids else []) ++ (match r with RExpired => [] | _ => [XsRemovalInfo] end)).
Proof. exact src_downtime_remove_pre_eq. Qed.
Print Assumptions C05_src_remove_pre.

Theorem C05_src_remove_model_refuses : forall fuel now paused id ch r ds d,
  find_dt id ds = Some d -> (d_owned d && match r with RByUser => true | _ => false end) = true ->
  remove_dt (S fuel) now paused id ch r ds = (ds, [], false).
Proof. exact xr_remove_dt_refuses. Qed.
Print Assumptions C05_src_remove_model_refuses.

(* the start timer announces and triggers an active fixed downtime that can be triggered, at max(start, entry) (do_dt_start_timer) *)
Theorem C05_src_start_timer_iter : src_downtime_start_timer_iter_recognised = true -> src_downtime_can_be_triggered_recognised = true ->
  forall now d active,
    src_downtime_start_timer_iter now (d_fixed d) (d_start d) (d_end d) (d_trigger d) (d_duration d) (d_entry d) active
    = if active && (dt_can_be_triggered now d && d_fixed d) then [XsStarted; XsTrigger (Z.max (d_start d) (d_entry d)) []] else [].
Proof. exact src_downtime_start_timer_iter_eq. Qed.
Print Assumptions C05_src_start_timer_iter.

Theorem C05_src_orphaned_timer_iter : src_downtime_orphaned_timer_iter_recognised = true ->
  forall name active valid,
    src_downtime_orphaned_timer_iter name active valid = if active && negb valid then [XsRemove name false (xr_num RByOwner)] else [].
Proof. exact src_downtime_orphaned_timer_iter_eq. Qed.
Print Assumptions C05_src_orphaned_timer_iter.

(* TriggerDowntime WITH its recursion into chained downtimes: xs_run (Src/SrcDt.v) closes the recursion of the translated
   one-call function over the model's downtime store - the child call runs the same translated function on the child's attributes,
   on fuel - and is the model's trigger_dt, for every store, fuel and non-zero instant *)
Theorem C05_src_trigger_recursion : src_downtime_trigger_downtime_recognised = true ->
  forall fuel now paused id t ds, t <> 0 -> xs_run fuel now paused id t ds = trigger_dt fuel now paused id t ds.
Proof. exact src_trigger_downtime_recursion. Qed.
Print Assumptions C05_src_trigger_recursion.

Example C05_src_round2_nonvacuous : src_downtime_remove_pre_recognised = true -> src_downtime_start_timer_iter_recognised = true ->
  src_downtime_remove_pre true true true true 1 [7] = (true, [XsThrow]) /\
  src_downtime_remove_pre true true true true 2 [7] = (false, [XsRemoveChild 7; XsRemovalInfo]) /\
  src_downtime_start_timer_iter 100 true 90 200 0 0 95 true = [XsStarted; XsTrigger 95 []].
Proof. intros H1 H2; xl_rec H1; xl_rec H2. all: repeat split; vm_compute; reflexivity. Qed.
