(* C03 - notification delivery: filters, periods, per-user incident state, reminders.
   The property theorems, nothing else.  Each is closed by [exact] of a lemma proved in Notif/*.v and followed
   by Print Assumptions.  Model: Notif/NfModel.v; observer bookkeeping (g_inc, g_all, g_last, g_ps, g_rem):
   Notif/NfObs.v.  [nf_run_points c h] lists every observable event of the run of history [h] from the
   initial state together with the observer's bookkeeping just before it; histories [h] are arbitrary lists
   of requests (all nine types, forced or not) and timer ticks at arbitrary times with arbitrary checkable
   snapshots, user lists, filters and period states. *)
From Icv Require Import Base.Tac Notif.NfModel Notif.NfObs Notif.NfProofs Notif.NfBeginProofs Notif.NfStepProofs Notif.NfTheorems.
Local Open Scope Z_scope.

(* a user is notified only if enabled and, unless a notification of this type may have been forced (forced
   request of that type, or a tick while a forced entry of that type is stashed), every condition of
   the statement holds (nf_full_ok: global/checkable enable flags, both periods, both type filters, the
   notification state filter and times window for Problem, the user state filter for all but Recovery) *)
Theorem C03_filters : forall c h g oi ty sent u,
  In (g, oi, NfoDone ty sent) (nf_run_points c h) -> In u sent ->
  exists ur, In ur (cx_users (oi_ctx oi)) /\ nfu_id ur = u /\ nfu_enable ur = true /\
             (nf_mayforce oi ty = false -> nf_full_ok c (oi_now oi) (oi_ctx oi) ty ur = true).
Proof. exact nf_sent_filters. Qed.
Print Assumptions C03_filters.

(* the same for one BeginExecuteNotification call from ANY state *)
Theorem C03_filters_call : forall c now x ty rem s u,
  In u (ne_sent (snd (nf_begin c now x ty false rem s))) ->
  exists ur, In ur (cx_users x) /\ nfu_id ur = u /\ nfu_enable ur = true /\
             (cx_glob_en x = true -> cx_ck_en x = true -> nf_full_ok c now x ty ur = true).
Proof. exact nf_begin_filters. Qed.
Print Assumptions C03_filters_call.

(* forced: the per-user loop is always reached and a user is notified iff nf_forced_ok: the enable flag,
   the incident rule (Recovery/Acknowledgement) and the duplicate rule (Problem) - no filter, period or window *)
Theorem C03_forced : forall c now x ty rem s,
  let e := snd (nf_begin c now x ty true rem s) in
  ne_reached e = true /\
  forall u, In u (ne_sent e) <-> exists ur, In ur (cx_users x) /\ nfu_id ur = u /\ nf_forced_ok c x ty rem s ur = true.
Proof. exact nf_begin_forced. Qed.
Print Assumptions C03_forced.

(* Recovery / Acknowledgement recipients were sent a Problem in the current incident (g_inc; for a Recovery the
   incident it closes, g_pre) or do not subscribe to Problem.  An incident also ends when its Recovery is REQUESTED
   (Checkable::OnNotificationsRequested) while notifications are disabled globally / for the checkable and
   Checkable::SendNotifications drops the request.  No finding hypothesis: the model follows the code with the
   fixes c30b63e (Recovery dropped by the type filter) and b86ebcb (Recovery request dropped while disabled) *)
Theorem C03_incident : forall c h g oi ty sent u,
  In (g, oi, NfoDone ty sent) (nf_run_points c h) ->
  ty = NfRecovery \/ ty = NfAck -> In u sent ->
  exists ur, In ur (cx_users (oi_ctx oi)) /\ nfu_id ur = u /\ nfu_enable ur = true /\
             (nf_mem u (nf_inc_set ty g) = true \/ nf_passes (nfu_types ur) 32 = false).
Proof. exact nf_incident. Qed.
Print Assumptions C03_incident.

(* the former witness of "stale-after-disabled-recovery": nothing is reported, the Acknowledgement reaches nobody *)
Theorem C03_stale_after_disabled_recovery_fixed :
  nf_oracle nf_w_ok_cfg0 (nf_model_trace nf_w_ok_cfg0 nf_init nf_w_drop_hist) = (None, None) /\
  map (fun p => snd p) (nf_run_points nf_w_ok_cfg0 nf_w_drop_hist) =
    [NfoDone NfProblem [1]; NfoDone NfProblem []; NfoDone NfAck []].
Proof. exact nf_drop_fixed. Qed.
Print Assumptions C03_stale_after_disabled_recovery_fixed.

(* "only if notifications are enabled globally, for the checkable ..." over the full operations, from ANY state:
   a non-forced request with a flag off is dropped whole (a Recovery only clears the incident set of the non-paused object); a request for a paused object is dropped; a tick with a
   flag off, or for a paused object under HA (local endpoint && enable_ha), sends nothing and leaves the
   bookkeeping alone *)
Theorem C03_request_gates : forall c now x ty force s,
  (cx_glob_en x = false \/ cx_ck_en x = false) -> force = false ->
  nf_request c now x ty force s =
  (if nf_type_eqb ty NfRecovery && negb (cx_paused x) then nf_set_npu s [] else s, [NfEvDrop ty]).
Proof. exact nf_request_gates. Qed.
Print Assumptions C03_request_gates.

Theorem C03_request_paused : forall c now x ty force s,
  (cx_glob_en x = true /\ cx_ck_en x = true \/ force = true) -> cx_auth x = true -> cx_paused x = true ->
  nf_request c now x ty force s = (s, [NfEvDrop ty]).
Proof. exact nf_request_paused. Qed.
Print Assumptions C03_request_paused.

Theorem C03_tick_gates : forall c now x s,
  (cx_glob_en x = false \/ cx_ck_en x = false) \/ (cx_paused x = true /\ cx_ha x = true) ->
  snd (nf_tick c now x s) = [] /\
  nf_npu (fst (nf_tick c now x s)) = nf_npu s /\ nf_lns (fst (nf_tick c now x s)) = nf_lns s /\
  nf_next (fst (nf_tick c now x s)) = nf_next s /\ nf_nomore (fst (nf_tick c now x s)) = nf_nomore s /\
  nf_sup (fst (nf_tick c now x s)) = nf_sup s.
Proof. exact nf_tick_gates. Qed.
Print Assumptions C03_tick_gates.

(* the former witness of "stale-notified-users": nothing is reported and the Acknowledgement reaches nobody *)
Theorem C03_stale_notified_users_fixed :
  nf_oracle nf_w_stale_cfg (nf_model_trace nf_w_stale_cfg nf_init nf_w_stale_hist) = (None, None) /\
  map (fun p => snd p) (nf_run_points nf_w_stale_cfg nf_w_stale_hist) = [NfoDone NfProblem [1]; NfoClr; NfoDone NfAck []].
Proof. exact nf_stale_fixed. Qed.
Print Assumptions C03_stale_notified_users_fixed.

(* non-volatile, request (never a reminder): the Problem's state differs from the state of the last Problem
   this user was sent since the last Recovery notification *)
Theorem C03_no_duplicate : forall c h g oi sent u,
  In (g, oi, NfoDone NfProblem sent) (nf_run_points c h) ->
  oi_tick oi = false -> cx_volatile (oi_ctx oi) = false -> In u sent ->
  nf_lns_get u (g_last g) <> nf_api_state (nfc_svc c) (cx_raw (oi_ctx oi)).
Proof. exact nf_no_duplicate. Qed.
Print Assumptions C03_no_duplicate.

(* Reminders.  In a tick the stashed Problem entries and a withheld Problem (re-sent only if the last check
   result still is a problem) account for at most [oi_kp] Problem notifications; every further Problem of the same
   tick ([g_cnt] = Problem notifications already sent by this tick) IS the reminder - this includes the tick in
   which the timer itself delivers the incident's first Problem from the stash / the withheld types.  A reminder
   implies: hard problem state, not suppressed, reachable, no downtime, not acknowledged, not flapping; at least
   [interval] after the previous Problem that passed the filters (g_rem: no operation in between in which an
   unforced Problem could have been deferred by times.begin - C03_deferral_call -, clock not set back); with
   interval <= 0 none once a Problem passed the filters for the incident - unless the recorded finding
   "nomore-reset" applies *)
Theorem C03_reminders : forall c h g oi sent,
  In (g, oi, NfoDone NfProblem sent) (nf_run_points c h) ->
  oi_tick oi = true -> oi_kp oi <= g_cnt g ->
  nf_rem_ctx_ok c (oi_ctx oi) = true /\
  (forall t, g_rem g = Some t -> t + nfc_interval c <= oi_now oi) /\
  (nfc_interval c <= 0 -> nf_nomore_reset g = false -> g_ps g = false).
Proof. exact nf_reminders. Qed.
Print Assumptions C03_reminders.

(* the tick in which the timer delivers the first Problem (interval 0): one Problem, accounted for by the withheld
   type; an implementation sending a second one in that tick is rejected by the interval-0 clause (rule 6) *)
Theorem C03_first_problem_by_timer :
  nf_oracle nf_w_nomore_cfg (nf_model_trace nf_w_nomore_cfg nf_init nf_w_timer_hist) = (None, None) /\
  map (fun p => (oi_kp (snd (fst p)), g_cnt (fst (fst p)), snd p)) (nf_run_points nf_w_nomore_cfg nf_w_timer_hist)
    = [(1, 0, NfoDone NfProblem [1])] /\
  fst (nf_oracle nf_w_nomore_cfg
        [{| os_op := NfRequest 2000000000 (nf_w_ctx_per 2 true) NfProblem false; os_evs := []; os_stash := [];
            os_sup_problem := true |};
         {| os_op := NfTick 2000000010 (nf_w_ctx_per 2 false); os_evs := [NfoDone NfProblem [1]; NfoDone NfProblem [1]];
            os_stash := []; os_sup_problem := false |}]) = Some (1, 6).
Proof. exact nf_timer_first_problem. Qed.
Print Assumptions C03_first_problem_by_timer.

(* the reminder branch of the timer handler, from ANY state *)
Theorem C03_reminder_call : forall c now x s s' e,
  nf_tick_rem c now x s = (s', [NfEvExec e]) ->
  ne_type e = NfProblem /\ ne_reminder e = true /\ ne_force e = false /\
  nf_rem_ctx_ok c x = true /\ sp_problem (nf_sup s) = false /\ nf_next s <= now /\
  (nfc_interval c <= 0 -> nf_nomore s = false).
Proof. exact nf_tick_rem_conditions. Qed.
Print Assumptions C03_reminder_call.

(* times.begin: the only way next_notification is re-armed outside the interval rule, from ANY state *)
Theorem C03_deferral_call : forall c now x ty force rem s,
  let r := nf_begin c now x ty force rem s in
  ne_deferred (snd r) = true ->
  ty = NfProblem /\ force = false /\ ne_sent (snd r) = [] /\ ne_reached (snd r) = false /\
  (exists b, nfc_begin c = Some b /\ 0 <= b /\ now < cx_lhsc x + b /\ nf_next (fst r) = cx_lhsc x + b + 1) /\
  nf_nomore (fst r) = false /\ nf_npu (fst r) = nf_npu s /\ nf_lns (fst r) = nf_lns s.
Proof. exact nf_begin_deferred. Qed.
Print Assumptions C03_deferral_call.

Theorem C03_nomore_reset_refuted :
  exists g oi sent,
    In (g, oi, NfoDone NfProblem sent) (nf_run_points nf_w_nomore_cfg nf_w_nomore_hist) /\
    oi_tick oi = true /\ oi_kp oi <= g_cnt g /\ sent = [1] /\
    nfc_interval nf_w_nomore_cfg <= 0 /\ g_ps g = true /\ nf_nomore_reset g = true /\
    snd (nf_oracle nf_w_nomore_cfg (nf_model_trace nf_w_nomore_cfg nf_init nf_w_nomore_hist)) = Some (2, 101).
Proof. exact nf_nomore_refuted. Qed.
Print Assumptions C03_nomore_reset_refuted.

(* the executable oracle run over implementation traces never reports an outright violation on a trace the
   model can produce (it reports at most the two recorded findings) *)
Theorem C03_oracle_accepts_model : forall c h, fst (nf_oracle c (nf_model_trace c nf_init h)) = None.
Proof. exact nf_oracle_accepts_model. Qed.
Print Assumptions C03_oracle_accepts_model.

(* model constants = what the source says now (regenerated facts) *)
Theorem C03_source_facts :
  nf_type_bit NfDowntimeStart = Facts_enums.f_NotificationDowntimeStart /\
  nf_type_bit NfDowntimeEnd = Facts_enums.f_NotificationDowntimeEnd /\
  nf_type_bit NfDowntimeRemoved = Facts_enums.f_NotificationDowntimeRemoved /\
  nf_type_bit NfCustom = Facts_enums.f_NotificationCustom /\
  nf_type_bit NfAck = Facts_enums.f_NotificationAcknowledgement /\
  nf_type_bit NfProblem = Facts_enums.f_NotificationProblem /\
  nf_type_bit NfRecovery = Facts_enums.f_NotificationRecovery /\
  nf_type_bit NfFlapStart = Facts_enums.f_NotificationFlappingStart /\
  nf_type_bit NfFlapEnd = Facts_enums.f_NotificationFlappingEnd /\
  map (nf_state_bit true) [0; 1; 2; 3] =
    [Facts_enums.f_StateFilterOK; Facts_enums.f_StateFilterWarning; Facts_enums.f_StateFilterCritical; Facts_enums.f_StateFilterUnknown] /\
  map (nf_state_bit false) [0; 1; 2; 3] =
    [Facts_enums.f_StateFilterUp; Facts_enums.f_StateFilterUp; Facts_enums.f_StateFilterDown; Facts_enums.f_StateFilterDown].
Proof. exact nf_source_facts. Qed.
Print Assumptions C03_source_facts.

(* non-vacuity: a reachable run exercising Problem, reminder, Acknowledgement and Recovery without a finding *)
Example C03_nonvacuous :
  nf_oracle nf_w_ok_cfg (nf_model_trace nf_w_ok_cfg nf_init nf_w_ok_hist) = (None, None) /\
  map (fun p => snd p) (nf_run_points nf_w_ok_cfg nf_w_ok_hist) =
    [NfoDone NfProblem [1]; NfoDone NfProblem [1]; NfoDone NfAck [1]; NfoClr; NfoDone NfRecovery [1]].
Proof. exact nf_nonvacuous. Qed.
