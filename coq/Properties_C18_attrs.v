(* C18, companion file - the ATTRIBUTE dimension of the read path (ObjectQueryHandler::SerializeObjectAttrs) and nothing
   else.  Each theorem is closed by [exact] of a lemma proved in Perm/PmAttrsProofs.v / Perm/PmFacts.v and followed by
   Print Assumptions.  Model: Perm/PmAttrs.v - generic in the field table (name, navigation name, config / state /
   navigation / no_user_view flag, "the getter returns another config object"); the tables of Host, Service, CheckCommand,
   EventCommand, TimePeriod and Endpoint are regenerated from the .ti files and compared with the live reflection data. *)
From Icv Require Import Base.Tac Perm.PmModel Perm.PmProofs Perm.PmObs Perm.PmJoins Perm.PmAttrs Perm.PmAttrsProofs Perm.PmFieldTables Perm.PmFacts Facts.Facts_c18.
Local Open Scope Z_scope.

(* SerializeObjectAttrs, for EVERY request shape (no attrs; attrs naming ordinary, navigation, no_user_view or unknown
   fields; as a join with `<join>`, `<join>.<field>`, all_joins): whatever ends up in the dictionary is a field of the
   type that passed both hide tests - so, for a table in which object-valued getters are internal navigation fields, never
   a value that is another config object and never a no_user_view field *)
Theorem C18_serialize_never_embeds : forall tbl prefix attrs isJoin allAttrs l,
  pm_tbl_wf tbl = true ->
  pm_serialize_attrs tbl prefix attrs isJoin allAttrs = Some l ->
  forall f, In f l -> pm_field_visible f = true /\ pf_objval f = false /\ pf_hidden f = false.
Proof. exact pm_serialize_never_embeds. Qed.
Print Assumptions C18_serialize_never_embeds.

(* the whole response of GET /v1/objects/<type> for the objects GetFilterTargets returned: the serialised objects are
   exactly those; none of their own attributes is (part of) another object or hidden; another object's attributes appear
   only as a `joins` entry, for an object the user may query under objects/query/<ITS OWN type> with the filter true of
   it, and that entry contains no further object and no hidden field either *)
Theorem C18_attrs_never_embed_objects : forall T G u inv t req objs l,
  (forall n, pm_tbl_wf (T n) = true) ->
  pm_aquery T G u inv t req objs = PmA200 l ->
  map ao_key l = map pm_key_of objs /\
  forall a, In a l ->
    (forall f, In f (ao_attrs a) -> pm_field_visible f = true /\ pf_objval f = false /\ pf_hidden f = false) /\
    (forall v k fs, In (v, k, fs) (ao_joins a) ->
       (exists j, pm_jwf inv j /\ pm_jkey_of j = k /\ pm_join_visible G u j = true /\ pm_spec_allow_j G u j = true) /\
       (forall f, In f fs -> pm_field_visible f = true /\ pf_objval f = false /\ pf_hidden f = false)).
Proof. intros T G u inv t req objs l W H. exact (pm_attrs_never_embed_objects T G u inv W t req objs l H). Qed.
Print Assumptions C18_attrs_never_embed_objects.

(* ... in particular with the field tables of this source tree (source fact: in every regenerated table a field whose
   getter returns a config object - Service.host is the only one - is an internal navigation field, and names are unique) *)
Theorem C18_attrs_tables_of_this_tree : forall n, pm_tbl_wf (pm_cur_table n) = true.
Proof. exact pm_cur_table_wf. Qed.
Print Assumptions C18_attrs_tables_of_this_tree.

(* the navigation test must sit in the loop that EMITS: with the test in the loop that enumerates all fields, `attrs`
   naming the field bypasses it and the Host object is serialised into the service (both variants agree without attrs) *)
Theorem C18_hide_test_in_enumeration_refuted :
  pm_tbl_wf pm_tbl_demo = true /\
  pm_serialize_attrs_hide_in_enum pm_tbl_demo [] None false false = pm_serialize_attrs pm_tbl_demo [] None false false /\
  pm_serialize_attrs pm_tbl_demo [] (Some [[104;111;115;116]]) false false = Some [] /\
  exists f, pm_serialize_attrs_hide_in_enum pm_tbl_demo [] (Some [[104;111;115;116]]) false false = Some [f] /\ pf_objval f = true.
Proof. exact pm_hide_in_enum_embeds. Qed.
Print Assumptions C18_hide_test_in_enumeration_refuted.

(* the extracted oracle (joined and embedded objects permitted under their own type, no hidden field) accepts every
   model response *)
Theorem C18_oracle_attrs_accepts_model : forall T G u inv t req objs l,
  (forall n, pm_tbl_wf (T n) = true) ->
  pm_aquery T G u inv t req objs = PmA200 l ->
  pm_oracle_aq G u inv (pm_aobs_joined l) (map snd (pm_aobs_embeds inv l)) (pm_aobs_hidden l) = true.
Proof. intros T G u inv t req objs l W H. exact (pm_oracle_aq_accepts_model T G u inv W t req objs l H). Qed.
Print Assumptions C18_oracle_attrs_accepts_model.

(* source facts of this round: both hide tests of SerializeObjectAttrs are in the loop that emplaces into the result
   (None = not recognised = compared only); the navigation fields of the regenerated Host / Service tables are the ones the
   joins model uses *)
Theorem C18_attrs_source_facts :
  pm_guard_ok f_pm_attrs_hide_in_emit_loop /\ pm_navs_table_ok PmHost /\ pm_navs_table_ok PmService.
Proof. exact (conj pm_attr_source_facts pm_navs_tables_ok). Qed.
Print Assumptions C18_attrs_source_facts.

(* non-vacuity: service x!s of host x, the user may query services but only hosts named "y"; attrs = [name, host, state_raw,
   host_name], joins = [host.address]: two fields are serialised, no join, nothing embedded *)
Example C18_attrs_nonvacuous :
  let x := [120] in
  let h := {| po_type := PmHost; po_name := x; po_short := x; po_host := x; po_vars := []; po_hvars := [];
             po_cc := Some [99]; po_cp := None; po_ec := None; po_ce := None |} in
  let s := {| po_type := PmService; po_name := x ++ [33] ++ [115]; po_short := [115]; po_host := x; po_vars := []; po_hvars := [];
             po_cc := Some [99]; po_cp := None; po_ec := None; po_ce := None |} in
  let u := [ {| pe_perm := pm_query_perm PmService; pe_filter := None |};
             {| pe_perm := pm_jquery_perm PmJHost; pe_filter := Some (PmFName PmScHost [121]) |} ] in
  let req := {| ar_attrs := Some [[110;97;109;101]; [104;111;115;116]; [115;116;97;116;101;95;114;97;119]; [104;111;115;116;95;110;97;109;101]];
                ar_joins := Some [[104;111;115;116;46;97;100;100;114;101;115;115]]; ar_all_joins := false; ar_meta := None |} in
  match pm_aquery pm_cur_table [] u [h; s] PmService req [s] with
  | PmA200 [a] => map pf_name (ao_attrs a) = [[110;97;109;101]; [104;111;115;116;95;110;97;109;101]] /\ ao_joins a = []
  | _ => False
  end.
Proof. vm_compute. split; reflexivity. Qed.
