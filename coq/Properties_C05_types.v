(* C05 - field widths (companion file; facts regenerated from the .ti declarations on every run, tools/facts_types.py):
   downtime depth counts the downtimes in effect (unbounded in the model).  The declared C++ type of Checkable.downtime_depth must store every value up to 2147483647; a narrowing of the
   declaration makes this theorem stop compiling, an unrecognised declaration degrades to "compared only". *)
From Icv Require Import Base.Tac Ck.CkFacts Facts.Facts_types.
Local Open Scope Z_scope.

Theorem C05_field_widths : opt_is f_ti_Checkable_downtime_depth_max (fun m => 2147483647 <= m).
Proof.
  unfold opt_is. destruct f_ti_Checkable_downtime_depth_max as [m|] eqn:E; [|exact I].
  vm_compute in E. first [discriminate E | injection E as <-; vm_compute; discriminate].
Qed.
Print Assumptions C05_field_widths.
