(* C11, companion file - SEVERAL distinct events in one network and the receiver's "ignore old messages" test
   (JsonRpcConnection::MessageHandler: ts < the sending endpoint's remote log position => dropped before any handler runs).
   ts is the relaying node's clock, not an event id: distinct events relayed within one clock tick carry EQUAL time stamps. *)
From Coq Require Import List Arith Bool PeanoNat ZArith.
From Icv Require Import Route.RtModel Route.RtProofs Route.RtObs Route.RtNet Route.RtSched Route.RtNetSound Route.RtNetObs
     Route.RtMulti Route.RtMultiProofs Route.RtMultiNet Route.RtMultiNetProofs Src.XlPrelude Facts.Facts_fn_zone2.
Import ListNotations.

(* the stale test of the code (Gallina translation of MessageHandler regenerated from the source on every run) is "ts <
   position": equal passes *)
Theorem C11_stale_test_source : src_jsonrpc_message_origin_recognised = true ->
  forall ts p, rt_stale_code ts p = (ts <? p) /\ (p <= ts -> rt_stale_code ts p = false).
Proof. intros H ts p. split; [exact (rt_stale_code_spec H ts p)|exact (rt_stale_code_ok H ts p)]. Qed.
Print Assumptions C11_stale_test_source.

(* scheduling layer, any single-event effect: from the empty network, every interleaving of originations and per-connection
   FIFO deliveries under a clock that never runs backwards (it may stand still): nothing is dropped and every event's share
   of the run is a run of the single-event relation from its originating relay *)
Theorem C11_multi_event_no_loss : forall (M : Type) effect mlink stale,
  (forall ts p, p <= ts -> stale ts p = false) ->
  forall n st', rt_mrun M effect mlink stale (rt_mst0 M) n st' ->
    rt_mdrops M st' = 0 /\
    forall e l0 p0, In (e, (l0, p0)) (rt_morig M st') -> exists k, rt_sched_run M effect (l0, p0) k (rt_proj M e st').
Proof.
  intros M effect mlink stale Hs n st' R. destruct (rt_mst0_inv M effect mlink) as [I0 E0].
  destruct (rt_multi_no_loss M effect mlink stale Hs 0 _ n st' R I0 E0) as [_ [D P]]. split; assumption.
Qed.
Print Assumptions C11_multi_event_no_loss.

(* the zone network: every well-formed forest and target, every link set, iteration order, number of events, originators,
   moments (equal / non-decreasing time stamps), interleaving: no delivery dropped; per EVENT nobody processes twice, fewer
   deliveries than endpoints, and once nothing is in flight every endpoint of every entitled zone processed it (under the
   statement's premise) *)
Theorem C11_net_multi_event_complete : forall c links target nord stale,
  rt_net_pre_b c target = true -> rt_nord_ok c nord ->
  (forall ts p, p <= ts -> stale ts p = false) ->
  forall n st', rt_mrun rt_msg (rt_effect c links target nord) rt_mlink stale (rt_mst0 rt_msg) n st' ->
    rt_mdrops rt_msg st' = 0 /\
    forall e s lz, rt_zone_of c s = Some lz -> In (e, rt_init c links target nord s lz) (rt_morig rt_msg st') ->
      exists k,
        (rt_mq rt_msg st' = [] ->
           rt_net_oracle c links target s k (snd (rt_proj rt_msg e st')) = 0 /\
           rt_nodup_b (snd (rt_proj rt_msg e st')) = true /\ k < length (flat_map rt_zeps c) /\
           rt_final_complete c links target lz (snd (rt_proj rt_msg e st')) = true).
Proof. exact rt_net_multi_event_complete. Qed.
Print Assumptions C11_net_multi_event_complete.

(* ... in particular with the test the code has *)
Theorem C11_net_multi_event_complete_code : src_jsonrpc_message_origin_recognised = true ->
  forall c links target nord, rt_net_pre_b c target = true -> rt_nord_ok c nord ->
  forall n st', rt_mrun rt_msg (rt_effect c links target nord) rt_mlink rt_stale_code (rt_mst0 rt_msg) n st' ->
    rt_mdrops rt_msg st' = 0 /\
    forall e s lz, rt_zone_of c s = Some lz -> In (e, rt_init c links target nord s lz) (rt_morig rt_msg st') ->
      exists k : nat, (rt_mq rt_msg st' = [] ->
                 rt_nodup_b (snd (rt_proj rt_msg e st')) = true /\
                 rt_final_complete c links target lz (snd (rt_proj rt_msg e st')) = true).
Proof.
  intros H c links target nord Pre Hn n st' R.
  destruct (rt_net_multi_event_complete c links target nord rt_stale_code Pre Hn (rt_stale_code_ok H) n st' R) as [D P].
  split; [assumption|]. intros e s lz Ez Hi. destruct (P e s lz Ez Hi) as [k K]. exists k. intros Q.
  destruct (K Q) as [_ [A [_ B]]]. split; assumption.
Qed.
Print Assumptions C11_net_multi_event_complete_code.

(* why the comparison must be strict: with "ts <= position" two events of one clock tick lose the second one *)
Theorem C11_stale_le_refuted :
  rt_net_pre_b rt_cx_c 0 = true /\ rt_nord_ok rt_cx_c rt_cx_nord /\
  rt_final_complete rt_cx_c rt_cx_links 0 0 [] = false /\
  exists n st',
    rt_mrun rt_msg (rt_effect rt_cx_c rt_cx_links 0 rt_cx_nord) rt_mlink rt_stale_le (rt_mst0 rt_msg) n st' /\
    rt_mq rt_msg st' = [] /\ rt_mdrops rt_msg st' = 1 /\
    In (1, rt_init rt_cx_c rt_cx_links 0 rt_cx_nord 1 0) (rt_morig rt_msg st') /\
    snd (rt_proj rt_msg 1 st') = [1] /\
    rt_final_complete rt_cx_c rt_cx_links 0 0 (snd (rt_proj rt_msg 1 st')) = false /\
    rt_final_complete rt_cx_c rt_cx_links 0 0 (snd (rt_proj rt_msg 0 st')) = true.
Proof. exact rt_stale_le_loses_event. Qed.
Print Assumptions C11_stale_le_refuted.

Example C11_multi_nonvacuous :
  let c := [{| rt_zparent := None; rt_zglobal := false; rt_zeps := [1; 2] |};
            {| rt_zparent := Some 0; rt_zglobal := false; rt_zeps := [3; 4] |}] in
  let links := [(1, 2); (1, 3); (1, 4); (2, 3); (2, 4); (3, 4)] in
  let evs := [(0, (1, 5)); (1, (1, 5)); (2, (1, 5))] in
  let done e := map snd (filter (fun p => fst p =? e) (fst (fst (rt_multi_model rt_stale_spec c links 1 evs 5)))) in
  rt_net_pre_b c 1 = true /\ snd (fst (rt_multi_model rt_stale_spec c links 1 evs 5)) = 0 /\
  forallb (fun e => (length (done e) =? 4) && rt_final_complete c links 1 0 (done e)) [0; 1; 2] = true.
Proof. vm_compute. repeat split; auto. Qed.
