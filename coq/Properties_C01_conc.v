(* C01, concurrent results - the property theorems, nothing else.  Results for ONE checkable arrive on several threads
   (check thread pool, API process-check-result, command pipe, cluster event::CheckResult); "history" in C01 means
   something only if every concurrent execution of Checkable::ProcessCheckResult is equivalent to SOME serial order
   of the same results.  Model: Ck/CkConc.v (small steps at lock granularity, any number of threads, every
   interleaving); proofs: Ck/CkConcProofs.v. *)
From Coq Require Import Permutation.
From Icv Require Import Base.Tac Ck.CkState Ck.CkConc Ck.CkConcProofs Ck.CkConcFacts.
Local Open Scope Z_scope.

(* Lock taken before the snapshot, last_check_result stored in the same critical section, event computed from the type
   the call itself wrote: for EVERY interleaving of any number of threads from any state, once all calls have returned
   the state is CkState.run over the results in the order in which the threads acquired the lock (a permutation of
   them; results that this order makes outdated are rejected exactly as CkState.step rejects them - the order is not
   filtered by timestamps), and every call reports (rejected / accepted with which state-change event) what its step
   in that serial order reports *)
Theorem C01_serialisable : forall g c jobs s0 k sched,
  cc_lock_first g = true -> cc_cr_split g = false -> cc_ev_reread g = false ->
  let s := cc_run g c jobs (cc_init s0 k) sched in
  cc_all_done s k ->
  exists order,
    order = map fst (cc_log s) /\
    Permutation order (seq 0 k) /\
    cc_st s = run c s0 (map jobs order) /\
    forall i o, cc_pcs s i = CcDone o -> In (i, o) (snd (cc_serial c jobs s0 order)).
Proof. exact cc_serialisable. Qed.
Print Assumptions C01_serialisable.

(* What the lock around the read-modify-write of the state fields guarantees on its own (lock first; last_check_result
   may be stored in a second critical section, the soft-event test may load the state type again - the tree as it is):
   for every interleaving, state / state type / attempt / last hard state / hard and soft state histories are those of
   the ACCEPTED calls applied one after the other (CkState.step_accept) in the order of their critical sections, no
   update is lost, and every accepted call raises the event of its step in that order, computed with the state type
   as it is at the moment the event is raised *)
Theorem C01_serialisable_fields : forall g c jobs s0 k sched,
  cc_lock_first g = true ->
  let s := cc_run g c jobs (cc_init s0 k) sched in
  cc_all_done s k ->
  exists order sB,
    order = map fst (cc_accs (cc_log s)) /\
    NoDup order /\
    (forall i, In i order <-> (i < k)%nat /\ exists e, cc_pcs s i = CcDone (CcAccepted e)) /\
    fst (cc_serial_acc c jobs s0 order) = sB /\ cc_nf (cc_st s) = cc_nf sB /\
    forall i e, cc_pcs s i = CcDone (CcAccepted e) ->
      exists inf, In (i, inf) (snd (cc_serial_acc c jobs s0 order)) /\
                  (cc_ev_reread g = false -> e = i_event inf) /\
                  exists ty, e = cc_event c inf (snd (jobs i)) ty.
Proof. exact cc_fields_serialisable. Qed.
Print Assumptions C01_serialisable_fields.

(* The tree as it is, for results that are not outdated with respect to each other nor to the stored one (one
   execution start t, not older than the stored result - every order of them is a non-decreasing history, the
   quantifier of C01): every interleaving ends in CkState.run over the order of the lock acquisitions, all calls are
   accepted, and the event of a call is the event of its step (exactly, when the type is not loaded again) *)
Theorem C01_serialisable_same_stamp : forall g c jobs s0 k t,
  cc_lock_first g = true ->
  (forall i, r_start (snd (jobs i)) = t) ->
  (s_has_cr s0 = true -> s_cr_start s0 <= t) ->
  forall sched,
  (0 < k)%nat ->
  let s := cc_run g c jobs (cc_init s0 k) sched in
  cc_all_done s k ->
  exists order,
    order = map fst (cc_log s) /\
    Permutation order (seq 0 k) /\
    cc_st s = run c s0 (map jobs order) /\
    (forall i, (i < k)%nat -> exists e inf,
        cc_pcs s i = CcDone (CcAccepted e) /\ In (i, inf) (snd (cc_serial_acc c jobs s0 order)) /\
        In (i, CcAccepted (i_event inf)) (snd (cc_serial c jobs s0 order)) /\
        (cc_ev_reread g = false -> e = i_event inf) /\
        exists ty, e = cc_event c inf (snd (jobs i)) ty).
Proof. exact cc_serialisable_same_stamp. Qed.
Print Assumptions C01_serialisable_same_stamp.

(* The lock is needed BEFORE the snapshot: with the snapshot and the outdated-result test made unlocked and the lock
   taken only for the writes (the seeded shape), two CRITICAL results for a hard-OK service with max_check_attempts 3
   can both compute from hard OK: both are accepted, the object is SOFT with attempt 1 - after two consecutive
   non-OK results - while every serial order gives attempt 2; both executable judgements reject the observation *)
Theorem C01_late_lock_refuted :
  let s := cc_run cc_g_late cc_w_cfg (cc_jobs_of cc_w_jobs1) (cc_init cc_w_s0 2) cc_w_sched1 in
  cc_all_done s 2 /\
  cc_pcs s 0%nat = CcDone (CcAccepted EvSoft) /\ cc_pcs s 1%nat = CcDone (CcAccepted EvSoft) /\
  s_type (cc_st s) = Soft /\ s_attempt (cc_st s) = 1 /\
  (forall order, Permutation order [0;1]%nat ->
     s_attempt (run cc_w_cfg cc_w_s0 (map (cc_jobs_of cc_w_jobs1) order)) = 2) /\
  cc_strict_ok cc_w_cfg cc_w_s0 cc_w_jobs1 (cc_proj cc_w_cfg (cc_st s)) (cc_outs_of s 2) = false /\
  cc_relaxed_ok cc_w_cfg cc_w_s0 cc_w_jobs1 (cc_proj cc_w_cfg (cc_st s)) (cc_outs_of s 2) = false.
Proof. exact cc_late_lock_refuted. Qed.
Print Assumptions C01_late_lock_refuted.

(* Finding `conc-cr-gap' (the tree as it is): last_check_result is stored in a second critical section, so the
   outdated-result test of an overlapping call still sees the previous stamp.  CRITICAL stamped 30 and WARNING
   stamped 20 on an object whose stored result is stamped 10: the WARNING is accepted AFTER the CRITICAL; the object
   ends in WARNING (attempt 2) with the CRITICAL result stored; every serial order ends in CRITICAL *)
Theorem C01_cr_gap_refuted :
  let s := cc_run cc_g_split_only cc_w_cfg (cc_jobs_of cc_w_jobs2) (cc_init cc_w_s0 2) cc_w_sched2 in
  cc_all_done s 2 /\
  cc_pcs s 0%nat = CcDone (CcAccepted EvSoft) /\ cc_pcs s 1%nat = CcDone (CcAccepted EvSoft) /\
  s_raw (cc_st s) = SWarning /\ s_attempt (cc_st s) = 2 /\ s_cr_start (cc_st s) = 30 /\
  (forall order, Permutation order [0;1]%nat ->
     s_raw (run cc_w_cfg cc_w_s0 (map (cc_jobs_of cc_w_jobs2) order)) = SCritical) /\
  cc_strict_ok cc_w_cfg cc_w_s0 cc_w_jobs2 (cc_proj cc_w_cfg (cc_st s)) (cc_outs_of s 2) = false /\
  cc_relaxed_ok cc_w_cfg cc_w_s0 cc_w_jobs2 (cc_proj cc_w_cfg (cc_st s)) (cc_outs_of s 2) = true.
Proof. exact cc_cr_gap_refuted. Qed.
Print Assumptions C01_cr_gap_refuted.

(* Finding `conc-event-reread' (the tree as it is): the soft-event test loads the state type again after the critical
   sections.  An OK result for a hard-OK object (no event in any serial order: none if it goes first, a hard recovery
   if it goes second) raises a SOFT state-change event when a CRITICAL result is processed in between *)
Theorem C01_event_reread_refuted :
  let s := cc_run cc_g_reread_only cc_w_cfg (cc_jobs_of cc_w_jobs3) (cc_init cc_w_s0 2) cc_w_sched3 in
  cc_all_done s 2 /\
  cc_pcs s 0%nat = CcDone (CcAccepted EvSoft) /\ cc_pcs s 1%nat = CcDone (CcAccepted EvSoft) /\
  (forall order, Permutation order [0;1]%nat ->
     ~ In (0%nat, CcAccepted EvSoft) (snd (cc_serial cc_w_cfg (cc_jobs_of cc_w_jobs3) cc_w_s0 order))) /\
  cc_strict_ok cc_w_cfg cc_w_s0 cc_w_jobs3 (cc_proj cc_w_cfg (cc_st s)) (cc_outs_of s 2) = false /\
  cc_relaxed_ok cc_w_cfg cc_w_s0 cc_w_jobs3 (cc_proj cc_w_cfg (cc_st s)) (cc_outs_of s 2) = true.
Proof. exact cc_event_reread_refuted. Qed.
Print Assumptions C01_event_reread_refuted.

(* source fact: in the tree as it is the ObjectLock is taken before the first read of the previous state and held
   until after the last write of the state fields (stops checking when the translator positively recognises a
   read before the lock or a write after its first release) *)
Theorem C01_source_lock_first : cc_lock_first cc_cfg_now = true.
Proof. reflexivity. Qed.
Print Assumptions C01_source_lock_first.

(* ... hence, for the shape the regenerated facts select: *)
Theorem C01_concurrent_now : forall c jobs s0 k t sched,
  (forall i, r_start (snd (jobs i)) = t) ->
  (s_has_cr s0 = true -> s_cr_start s0 <= t) ->
  (0 < k)%nat ->
  let s := cc_run cc_cfg_now c jobs (cc_init s0 k) sched in
  cc_all_done s k ->
  exists order,
    Permutation order (seq 0 k) /\
    cc_st s = run c s0 (map jobs order) /\
    (forall i, (i < k)%nat -> exists e inf,
        cc_pcs s i = CcDone (CcAccepted e) /\ In (i, inf) (snd (cc_serial_acc c jobs s0 order)) /\
        exists ty, e = cc_event c inf (snd (jobs i)) ty).
Proof.
  intros c jobs s0 k t sched Ht H0 Hk s Hd.
  destruct (cc_serialisable_same_stamp cc_cfg_now c jobs s0 k t C01_source_lock_first Ht H0 sched Hk Hd)
    as [order [_ [Hp [Hs He]]]].
  exists order. split; [exact Hp|]. split; [exact Hs|].
  intros i Hi. destruct (He i Hi) as [e [inf [H1 [H2 [_ [_ H3]]]]]]. eauto.
Qed.
Print Assumptions C01_concurrent_now.

(* the executable judgements run over the real-thread observations never fire on an interleaving of the model:
   the strict one (some serial order explains everything) for the one-critical-section shape, the relaxed one
   (accepted calls in some order explain the fields, events up to the second load of the type) for every
   lock-first shape, in particular the tree as it is *)
Theorem C01_conc_oracle_accepts_model : forall g c js s0 sched,
  cc_lock_first g = true ->
  let k := length js in
  let s := cc_run g c (cc_jobs_of js) (cc_init s0 k) sched in
  cc_all_done s k ->
  cc_relaxed_ok c s0 js (cc_proj c (cc_st s)) (cc_outs_of s k) = true /\
  (cc_cr_split g = false -> cc_ev_reread g = false ->
   cc_strict_ok c s0 js (cc_proj c (cc_st s)) (cc_outs_of s k) = true).
Proof.
  intros g c js s0 sched Hlf k s Hd. split.
  - exact (cc_relaxed_accepts g c js s0 sched Hlf Hd).
  - intros Hs Hr. exact (cc_strict_accepts g c js s0 sched Hlf Hs Hr Hd).
Qed.
Print Assumptions C01_conc_oracle_accepts_model.

(* non-vacuity: three threads of the tree as it is, one after the other, all finish; the premises of
   C01_serialisable_same_stamp hold and the object is HARD after three CRITICAL results with max_check_attempts 3 *)
Example C01_conc_nonvacuous :
  let js := [(20, cc_w_res SCritical 20); (20, cc_w_res SCritical 20); (20, cc_w_res SCritical 20)] in
  let s := cc_run cc_g_tree cc_w_cfg (cc_jobs_of js) (cc_init cc_w_s0 3)
                  (repeat 0 10 ++ repeat 2 10 ++ repeat 1 10)%nat in
  cc_all_done s 3 /\ map fst (cc_log s) = [0; 2; 1]%nat /\
  s_type (cc_st s) = Hard /\ s_attempt (cc_st s) = 1 /\ s_raw (cc_st s) = SCritical.
Proof.
  cbv zeta. split.
  - intros i Hi. destruct i as [|[|[|i]]]; try (eexists; vm_compute; reflexivity). lia.
  - repeat split; vm_compute; reflexivity.
Qed.
