(* C08 - Start() after a restart of the daemon: the state attributes segments / valid_begin / valid_end are restored from the
   state file (ConfigObject::RestoreObject, Deserialize(.., FAState)) into an object that may have been built from an EDITED
   definition, then TimePeriod::Start() runs: UpdateRegion(now, now + 24 h, true).  Model: Tp/TpRoll.v tp_roll_start_on /
   tp_roll_on (s = the restored state, rw = the form of Start(): false = today's, true = valid_begin / valid_end emptied first,
   repo_patches/C08-start-resets-window.diff; the form the check runs is read from the source, Facts_c08.f_tp_start_resets).
   Only [exact] + Print Assumptions here; proofs in Tp/TpStartProofs.v. *)
From Icv Require Import Base.Tac Tp.TpModel Tp.TpProofs Tp.TpRoll Tp.TpRollProofs Tp.TpStartProofs.
From Icv Require Facts.Facts_c08.
Local Open Scope Z_scope.

(* whatever was restored (any segments, any window, produced under any definition), in both forms:
   - the segment array after Start() is the one of a start from scratch;
   - at every instant of [now, now + 24 h] IsInside is the statement for the definition IN FORCE: own = what the new object's update
     function returns for the region, I / E = the referenced periods as they are at that moment;
   - on the whole window a start from scratch computes, the answers are those of a start from scratch *)
Theorem C08_start_ignores_restored_state : forall (rw : bool) upd prefer (r : tp_rround) (s : tp_st),
  tp_segs (tp_roll_start_on rw upd prefer r s) = tp_segs (tp_roll_start upd prefer r) /\
  (forall t, tp_rr_now r <= t <= tp_rr_now r + 86400 ->
     tp_is_inside (tp_roll_start_on rw upd prefer r s) t =
     tp_region_spec prefer (tp_inside_segs (upd (tp_rr_now r) (tp_rr_now r + 86400)) t)
       (tp_inside_any (tp_rr_incs r) t) (tp_inside_any (tp_rr_excs r) t)) /\
  (forall vb ve t, tp_vb (tp_roll_start upd prefer r) = Some vb -> tp_ve (tp_roll_start upd prefer r) = Some ve -> vb <= t <= ve ->
     tp_is_inside (tp_roll_start_on rw upd prefer r s) t = tp_is_inside (tp_roll_start upd prefer r) t).
Proof.
  intros rw upd prefer r s. split; [exact (tp_start_on_segs rw upd prefer r s)|].
  split; [exact (tp_start_on_answers rw upd prefer r s)|]. intros vb ve t. exact (tp_start_on_fresh_window rw upd prefer r s vb ve t).
Qed.
Print Assumptions C08_start_ignores_restored_state.

(* the source fact: Start() calls UpdateRegion(now, now + 24 h, true) exactly once, unconditionally, clearExisting the literal true
   (Some _), and which of the two forms it has *)
Theorem C08_start_form_recognised : Facts.Facts_c08.f_tp_start_resets <> None.
Proof. discriminate. Qed.
Print Assumptions C08_start_form_recognised.

(* "keep the restored segments while they still cover the present and only extend them" (clearExisting = false when valid_begin <=
   now < valid_end was restored) lets the OLD definition answer inside [now, now + 24 h]: refuted *)
Theorem C08_start_keep_restored_refuted :
  let r := (36000, @nil (list tp_seg), @nil (list tp_seg)) in
  tp_start_restored 36000 tp_wit_old_all = true /\
  36000 <= 43200 <= 36000 + 86400 /\
  tp_inside_segs (tp_wit_upd 36000 (36000 + 86400)) 43200 = false /\
  tp_is_inside (tp_roll_start_keep tp_wit_upd true r tp_wit_old_all) 43200 = true /\
  tp_is_inside (tp_roll_start_on false tp_wit_upd true r tp_wit_old_all) 43200 = false.
Proof. exact tp_start_keep_restored_refuted. Qed.
Print Assumptions C08_start_keep_restored_refuted.

(* the rolling theorem after a restart, today's form of Start(): C08_rolling_updates word for word, for ANY restored state whose
   valid_end does not lie beyond the valid_end of a start from scratch (the negated signature of finding restart-keeps-valid-end) *)
Theorem C08_rolling_updates_after_restart : forall (ownP : Z -> bool) upd hz prefer ma,
  (forall b e t, tp_inside_segs (upd b e) t = true -> ownP t = true) ->
  (forall b e t, b <= e -> b <= t < hz e -> tp_inside_segs (upd b e) t = ownP t) ->
  (forall e, e <= hz e) ->
  (forall b e sg, In sg (upd b e) -> snd sg <= hz e) ->
  forall s0 r0 rs,
  tp_round_ok hz r0 -> tp_env_ok hz r0 rs ->
  tp_ve_num s0 <= tp_ve_num (tp_roll_start upd prefer r0) ->
  let s := fst (tp_roll_on false ma upd prefer s0 r0 rs) in
  let rl := snd (tp_roll_on false ma upd prefer s0 r0 rs) in
  forall t, Z.max (tp_rr_now r0) (tp_rr_now (last rs r0) - 3600) <= t < tp_ve_num s ->
    tp_is_inside s t =
    tp_region_spec prefer (ownP t) (tp_inside_any (tp_rr_incs rl) t) (tp_inside_any (tp_rr_excs rl) t).
Proof. exact tp_rolling_updates_restart. Qed.
Print Assumptions C08_rolling_updates_after_restart.

(* ... and with the window emptied by Start() (rw = true): for EVERY restored state *)
Theorem C08_rolling_updates_after_restart_reset : forall (ownP : Z -> bool) upd hz prefer ma,
  (forall b e t, tp_inside_segs (upd b e) t = true -> ownP t = true) ->
  (forall b e t, b <= e -> b <= t < hz e -> tp_inside_segs (upd b e) t = ownP t) ->
  (forall e, e <= hz e) ->
  (forall b e sg, In sg (upd b e) -> snd sg <= hz e) ->
  forall s0 r0 rs,
  tp_round_ok hz r0 -> tp_env_ok hz r0 rs ->
  let s := fst (tp_roll_on true ma upd prefer s0 r0 rs) in
  let rl := snd (tp_roll_on true ma upd prefer s0 r0 rs) in
  forall t, Z.max (tp_rr_now r0) (tp_rr_now (last rs r0) - 3600) <= t < tp_ve_num s ->
    tp_is_inside s t =
    tp_region_spec prefer (ownP t) (tp_inside_any (tp_rr_incs rl) t) (tp_inside_any (tp_rr_excs rl) t).
Proof. exact tp_rolling_updates_restart_reset. Qed.
Print Assumptions C08_rolling_updates_after_restart_reset.

(* the hypothesis on the restored valid_end cannot be dropped in today's form (finding restart-keeps-valid-end): one range
   "00:30-01:30" a day (tp_wit_upd: the day loop in miniature, look-back form), restored valid_end = 02:00 of day 2 from another
   definition, restart at 10:00 of day 0, a round on day 1: 00:53 of day 2 lies in the definition and below valid_end and is
   reported outside - in both forms of UpdateRegion *)
Theorem C08_restart_keeps_valid_end_refuted : forall ma : bool,
  let s := fst (tp_roll_on false ma tp_wit_upd true tp_wit_restored (36000, [], []) [(100000, [], [])]) in
  tp_inside_segs tp_wit_days 176000 = true /\ 100000 - 3600 <= 176000 < tp_ve_num s /\ tp_is_inside s 176000 = false.
Proof. exact tp_restart_keeps_valid_end_refuted. Qed.
Print Assumptions C08_restart_keeps_valid_end_refuted.

(* the same run with the window emptied by Start(): inside *)
Theorem C08_restart_resets_window_fixed : forall ma : bool,
  let s := fst (tp_roll_on true ma tp_wit_upd true tp_wit_restored (36000, [], []) [(100000, [], [])]) in
  100000 - 3600 <= 176000 < tp_ve_num s /\ tp_is_inside s 176000 = true.
Proof. exact tp_restart_resets_window_fixed. Qed.
Print Assumptions C08_restart_resets_window_fixed.

(* non-vacuity: a restored state is really dropped - the witness state has a segment, Start() on it yields the segments of a start
   from scratch, and those are not empty *)
Example C08_restart_nonvacuous :
  tp_segs tp_wit_restored <> [] /\
  tp_segs (tp_roll_start_on false tp_wit_upd true (36000, [], []) tp_wit_restored) = [(88200, 91800)] /\
  tp_ve (tp_roll_start_on false tp_wit_upd true (36000, [], []) tp_wit_restored) = Some 180000 /\
  tp_ve (tp_roll_start_on true tp_wit_upd true (36000, [], []) tp_wit_restored) = Some 122400.
Proof. vm_compute. repeat split; congruence. Qed.
