(* C20 - theorems over the functions TRANSLATED from /repo on every run (tools/cxx2coq.py -> coq/Facts/Facts_fn_ns.v).
   Each theorem is guarded by `src_<fn>_recognised = true`: a C++ shape outside the translator's subset leaves it
   trivially true (logged as "xlate: ... not recognised", tie by the correspondence run only); a recognised shape that no
   longer equals the model breaks the proof in coq/Src and with it this file.  Only `exact` + Print Assumptions here. *)
From Icv Require Import Base.Tac Src.XlPrelude Codec.NsModel Facts.Facts_fn_ns Src.SrcNs.
Local Open Scope Z_scope.

(* the body of the colon-search loop = one unfolding of ns_find_colon (exceptions as negative codes) *)
Theorem C20_src_find_colon_iter : src_netstring_find_colon_iter_recognised = true ->
  forall b t i hl0, 0 <= i ->
    ns_find_colon (b :: t) i
    = match src_netstring_find_colon_iter b i hl0 with
      | (true, h) => if h =? -1 then NsScanErr ns_e_nolen else if h =? -2 then NsScanErr ns_e_nocolon else NsScanAt h
      | (false, _) => ns_find_colon t (i + 1)
      end.
Proof. exact src_netstring_find_colon_iter_eq. Qed.
Print Assumptions C20_src_find_colon_iter.

(* the body of the length loop = one unfolding of ns_len_loop on a digit (size_t arithmetic does not wrap below 10^18) *)
Theorem C20_src_len_iter : src_netstring_len_iter_recognised = true ->
  forall f buf h i len b,
    ns_get buf i = Some b -> (i <? h) = true -> ns_isdigit b = true -> 0 <= len < 1000000000000000000 ->
    ns_len_loop (S f) buf h i len
    = match src_netstring_len_iter b i len with
      | (true, _) => NsLenErr ns_e_toolong
      | (false, len') => ns_len_loop f buf h (i + 1) len'
      end.
Proof. exact src_netstring_len_iter_eq. Qed.
Print Assumptions C20_src_len_iter.

Example C20_src_nonvacuous : src_netstring_find_colon_iter_recognised = true -> src_netstring_len_iter_recognised = true ->
  src_netstring_find_colon_iter 58 0 0 = (true, -1) /\ src_netstring_find_colon_iter 58 3 0 = (true, 3) /\
  src_netstring_find_colon_iter 49 17 0 = (true, -2) /\ src_netstring_len_iter 55 2 12 = (false, 127) /\ src_netstring_len_iter 55 9 12 = (true, -4).
Proof. intros H1 H2; xl_rec H1; xl_rec H2. all: repeat split; vm_compute; reflexivity. Qed.
