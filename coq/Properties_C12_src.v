(* C12 - theorems over the functions TRANSLATED from /repo on every run (tools/cxx2coq.py -> coq/Facts/Facts_fn_replay.v).
   Each theorem is guarded by `src_<fn>_recognised = true`: a C++ shape outside the translator's subset leaves it
   trivially true (logged as "xlate: ... not recognised", tie by the correspondence run only); a recognised shape that no
   longer equals the model breaks the proof in coq/Src and with it this file.  Only `exact` + Print Assumptions here. *)
From Icv Require Import Base.Tac Src.XlPrelude Replay.RlBytes Replay.RlModel Facts.Facts_fn_replay Src.SrcReplay.
Local Open Scope Z_scope.

(* ReplayLog skips a decoded entry exactly when rl_rstep leaves the replay state unchanged because of its two guards:
   not newer than what the peer has, or the security object is gone / not accessible for the peer's zone *)
Theorem C12_src_replay_entry_skipped : src_replaylog_entry_skipped_recognised = true ->
  forall t tz s e,
    let found := match rl_e_sec e with Some (ty, nm) => xr_some (rl_find_obj (rl_t_objs t) ty nm) | None => false end in
    let ca := match rl_e_sec e with
              | Some (ty, nm) => match rl_find_obj (rl_t_objs t) ty nm with
                                 | Some oz => if rl_zglobal t oz then true else rl_child_of (S (length (rl_t_zones t))) t oz tz
                                 | None => false end
              | None => false end in
    src_replaylog_entry_skipped (rl_e_ts e) (rl_r_peer s) (xr_some (rl_e_sec e)) found ca
    = (rl_e_ts e <=? rl_r_peer s) || negb (rl_can_access t tz (rl_e_sec e)) /\
    (src_replaylog_entry_skipped (rl_e_ts e) (rl_r_peer s) (xr_some (rl_e_sec e)) found ca = true -> rl_rstep t tz 0 s e = s) .
Proof. exact src_replaylog_entry_skipped_eq. Qed.
Print Assumptions C12_src_replay_entry_skipped.

(* the clean-up keeps a file for an endpoint iff rl_related && rl_ep_needs (the disjuncts of rl_needed) *)
Theorem C12_src_file_needed_by : src_apitimer_file_needed_by_recognised = true ->
  forall t now n e need0,
    src_apitimer_file_needed_by t false (rl_ep_zone e) (rl_t_local t) (rl_ep_dur e) (rl_ep_pos e) n now need0
    = (negb (rl_related t e) || ((0 <=? rl_ep_dur e) && (n <? now - rl_ep_dur e)) || (rl_ep_pos e <? n),
       need0 || (rl_related t e && rl_ep_needs now n e)).
Proof. exact src_apitimer_file_needed_by_eq. Qed.
Print Assumptions C12_src_file_needed_by.

Example C12_src_nonvacuous : src_replaylog_entry_skipped_recognised = true ->
  src_replaylog_entry_skipped 5 5 false false false = true /\ src_replaylog_entry_skipped 6 5 false false false = false /\
  src_replaylog_entry_skipped 6 5 true true false = true.
Proof. intro H; xl_rec H. all: repeat split; vm_compute; reflexivity. Qed.

(* one iteration of the endpoint loop of RelayMessageOne for a locally generated message (origin = null) on an endpoint that is the
   routing master or talks to it = one unfolding of rl_relay_zone_eps (disconnected: log needed; second endpoint of a foreign zone:
   skipped with its log position advanced; otherwise sent - and enqueued unless the endpoint is syncing) *)
From Icv Require Import Facts.Facts_fn_relay Src.SrcRelay.
From Coq Require Import Bool.
Local Open Scope bool_scope.

Theorem C12_src_relay_endpoint_iter : src_relay_endpoint_iter_recognised = true ->
  forall (is_local : bool) (e : rl_ep) (r : list rl_ep) (relayed ln ld : bool) (live skipped : list Z) (wm tm : bool),
    wm || tm = true ->
    rl_relay_zone_eps is_local (e :: r) relayed ln ld live skipped
    = let '(_, relayed', ln', ld', evs) :=
        src_relay_endpoint_iter false (rl_ep_conn e) is_local relayed ln ld false false false false false wm tm in
      rl_relay_zone_eps is_local r relayed' ln' ld'
        (live ++ (if xrl_has XrlSend evs && negb (rl_ep_sync e) then [rl_ep_id e] else []))
        (skipped ++ (if xrl_has XrlSkip evs then [rl_ep_id e] else [])).
Proof. exact src_relay_endpoint_iter_eq. Qed.
Print Assumptions C12_src_relay_endpoint_iter.

(* with an origin (C11): a connected endpoint gets the message unless the zone was already served, it is the sender, it belongs to
   the origin zone, or neither side is the routing master; every connected endpoint that does not get it is skipped *)
Theorem C12_src_relay_endpoint_origin : src_relay_endpoint_iter_recognised = true ->
  forall conn is_local relayed ln ld ho hc fe hz fz wm tm,
    let '(lft, relayed', ln', ld', evs) := src_relay_endpoint_iter false conn is_local relayed ln ld ho hc fe hz fz wm tm in
    xrl_has XrlSend evs = conn && negb (relayed && negb is_local) && negb (ho && hc && fe) && negb (ho && hz && fz) && (wm || tm) /\
    (xrl_has XrlSend evs = true -> relayed' = true) /\ (xrl_has XrlSend evs = false -> relayed' = relayed) /\
    xrl_has XrlSkip evs = conn && negb (xrl_has XrlSend evs).
Proof. exact src_relay_endpoint_iter_origin. Qed.
Print Assumptions C12_src_relay_endpoint_origin.

(* Round 2 (brief C12b): with an origin, one iteration of the translated loop body = one unfolding of the model's loop with an
   origin (Replay/RlOrigin.rl_relay_zone_eps_o): from_this_endpoint = the endpoint is the origin's, from_this_zone = the target
   zone is origin->FromZone *)
From Icv Require Import Replay.RlHistory Replay.RlSize Replay.RlCompact Replay.RlOrigin.
Local Open Scope Z_scope.

Theorem C12_src_relay_endpoint_iter_origin_model : src_relay_endpoint_iter_recognised = true ->
  forall (oid oz z : Z) (is_local : bool) (e : rl_ep) (r : list rl_ep) (relayed ln ld : bool) (live skipped : list Z) (wm tm : bool),
    (wm || tm = true)%bool ->
    let org := Some (oid, oz) in
    rl_relay_zone_eps_o org (rl_o_from_zone org z) is_local (e :: r) relayed ln ld live skipped
    = let '(_, relayed', ln', ld', evs) :=
        src_relay_endpoint_iter false (rl_ep_conn e) is_local relayed ln ld true true (rl_ep_id e =? oid) (0 <=? oz) (z =? oz) wm tm in
      rl_relay_zone_eps_o org (rl_o_from_zone org z) is_local r relayed' ln' ld'
        (live ++ (if xrl_has XrlSend evs && negb (rl_ep_sync e) then [rl_ep_id e] else []))
        (skipped ++ (if xrl_has XrlSkip evs then [rl_ep_id e] else [])).
Proof. exact src_relay_endpoint_iter_o_eq. Qed.
Print Assumptions C12_src_relay_endpoint_iter_origin_model.

(* in the translated code an endpoint that is not connected leaves the iteration with no event at all: it is neither sent to
   nor put on skippedEndpoints (whose members get SetLocalLogPosition), whatever the origin *)
Theorem C12_src_relay_endpoint_away : src_relay_endpoint_iter_recognised = true ->
  forall is_local relayed ln ld ho hc fe hz fz wm tm,
    let '(_, relayed', _, _, evs) := src_relay_endpoint_iter false false is_local relayed ln ld ho hc fe hz fz wm tm in
    evs = [] /\ relayed' = relayed.
Proof. exact src_relay_endpoint_iter_away. Qed.
Print Assumptions C12_src_relay_endpoint_away.
