(* C08, layer M1: the interval algebra of TimePeriod (lib/icinga/timeperiod.cpp).
   Line-by-line transcription of AddSegment (41-95), RemoveSegment (102-167), PurgeSegments (174-202),
   Merge (204-219), UpdateRegion (221-275) and IsInside (282-300).  Same branch order, same
   comparisons.  Times are whole seconds (Z); a segment is (begin, end); the segment array is a list
   in array order (a null array and an empty array are both []); valid_begin / valid_end are
   option Z (None = Empty value).

   [tp_fixed : bool] selects the two comparison operators of RemoveSegment's "adjust" step:
   false = the pinned tree (strict on both sides, timeperiod.cpp:153,156 before the fix),
   true  = the tree with repo_patches/C08-remove-segment-boundaries.diff applied.
   Everything else is identical.  No proofs in this file. *)
From Icv Require Import Base.Tac.
Local Open Scope Z_scope.

Definition tp_seg := (Z * Z)%type.

Record tp_st := { tp_segs : list tp_seg; tp_vb : option Z; tp_ve : option Z }.

Definition tp_empty : tp_st := {| tp_segs := []; tp_vb := None; tp_ve := None |}.

(* "if (GetValidBegin().IsEmpty() || begin < GetValidBegin()) SetValidBegin(begin)" and the same for the end *)
Definition tp_widen_b (b : Z) (v : option Z) : option Z :=
  match v with None => Some b | Some x => if b <? x then Some b else Some x end.
Definition tp_widen_e (e : Z) (v : option Z) : option Z :=
  match v with None => Some e | Some x => if x <? e then Some e else Some x end.

(* the merge loop of AddSegment: Some l' = a segment absorbed the new one (the function returned
   inside the loop), None = fell through to "create new segment" *)
Fixpoint tp_add_merge (b e : Z) (l : list tp_seg) : option (list tp_seg) :=
  match l with
  | [] => None
  | (sb, se) :: r =>
      if (sb <=? b) && (e <=? se) then Some ((sb, se) :: r)         (* fully contained *)
      else if (b <=? sb) && (se <=? e) then Some ((b, e) :: r)      (* extend to both sides *)
      else if (b <=? se) && (se <=? e) then Some ((sb, e) :: r)     (* extend to the right *)
      else if (b <=? sb) && (sb <=? e) then Some ((b, se) :: r)     (* extend to the left *)
      else match tp_add_merge b e r with
           | Some r' => Some ((sb, se) :: r')
           | None => None
           end
  end.

Definition tp_add_segs (b e : Z) (l : list tp_seg) : list tp_seg :=
  match tp_add_merge b e l with
  | Some l' => l'
  | None => l ++ [(b, e)]
  end.

Definition tp_add (b e : Z) (s : tp_st) : tp_st :=
  {| tp_segs := tp_add_segs b e (tp_segs s);
     tp_vb := tp_widen_b b (tp_vb s); tp_ve := tp_widen_e e (tp_ve s) |}.

(* one iteration of RemoveSegment's loop: the segments appended to newSegments *)
Definition tp_remove_one (tp_fixed : bool) (b e : Z) (sg : tp_seg) : list tp_seg :=
  let '(sb, se) := sg in
  if (b <=? sb) && (se <=? e) then []                               (* fully contained: dropped *)
  else if (se <? b) || (e <? sb) then [(sb, se)]                    (* not overlapping at all *)
  else if (sb <? b) && (e <? se) then [(sb, b); (e, se)]            (* cut between *)
  else
    let sb' := if (if tp_fixed then b <=? sb else b <? sb) && (sb <? e) then e else sb in
    let se' := if (b <? se) && (if tp_fixed then se <=? e else se <? e) then b else se in
    [(sb', se')].

Definition tp_remove_segs (tp_fixed : bool) (b e : Z) (l : list tp_seg) : list tp_seg :=
  flat_map (tp_remove_one tp_fixed b e) l.

Definition tp_remove (tp_fixed : bool) (b e : Z) (s : tp_st) : tp_st :=
  {| tp_segs := tp_remove_segs tp_fixed b e (tp_segs s);
     tp_vb := tp_widen_b b (tp_vb s); tp_ve := tp_widen_e e (tp_ve s) |}.

Definition tp_purge (e : Z) (s : tp_st) : tp_st :=
  match tp_vb s with
  | None => s
  | Some v =>
      if e <? v then s
      else {| tp_segs := filter (fun sg => e <=? snd sg) (tp_segs s); tp_vb := Some e; tp_ve := tp_ve s |}
  end.

(* Merge: the other period's CURRENT segments, in array order *)
Definition tp_merge (tp_fixed : bool) (other : list tp_seg) (include : bool) (s : tp_st) : tp_st :=
  fold_left (fun acc sg => if include then tp_add (fst sg) (snd sg) acc
                           else tp_remove tp_fixed (fst sg) (snd sg) acc) other s.

Definition tp_merge_all (tp_fixed : bool) (others : list (list tp_seg)) (include : bool) (s : tp_st) : tp_st :=
  fold_left (fun acc o => tp_merge tp_fixed o include acc) others s.

(* numeric reading of valid_end in "begin < GetValidEnd()" (an Empty value compares as 0) *)
Definition tp_ve_num (s : tp_st) : Z := match tp_ve s with Some v => v | None => 0 end.

(* UpdateRegion(begin, end, clearExisting).  [upd b e] = what the update function returns for the
   (possibly adjusted) window; [incs]/[excs] = current segment arrays of the periods named in
   includes/excludes that exist, in configuration order. *)
Definition tp_update_region (tp_fixed : bool) (upd : Z -> Z -> list tp_seg) (prefer : bool)
           (incs excs : list (list tp_seg)) (b e : Z) (clear : bool) (s : tp_st) : tp_st :=
  let s0 := if clear then {| tp_segs := []; tp_vb := tp_vb s; tp_ve := tp_ve s |} else s in
  let b' := if clear then b else if b <? tp_ve_num s then tp_ve_num s else b in
  if negb clear && (e <? tp_ve_num s) then s
  else
    let own := upd b' e in
    let s1 := tp_remove tp_fixed b' e s0 in
    let s2 := fold_left (fun acc sg => tp_add (fst sg) (snd sg) acc) own s1 in
    let s3 := tp_merge_all tp_fixed (if prefer then excs else incs) (negb prefer) s2 in
    tp_merge_all tp_fixed (if prefer then incs else excs) prefer s3.

(* ---- the second form of UpdateRegion (repo_patches/C08-merge-references-every-round.diff), selected by [ma] ----
   ma = false: "if (end < GetValidEnd()) return;" - a call that has no stretch of the period's own to compute does nothing;
   ma = true : "if (end < GetValidEnd()) extend = false;" - such a call still merges the included / excluded periods,
               each of their segments cut off at valid_end (Merge(timeperiod, include, clip = true): "if (sbegin >= limit)
               continue; if (send > limit) send = limit;" with limit = GetValidEnd() read in every iteration).
   Everything else is the function above. *)
Definition tp_merge_clip (tp_fixed : bool) (other : list tp_seg) (include : bool) (s : tp_st) : tp_st :=
  fold_left (fun acc sg =>
               let lim := tp_ve_num acc in
               if lim <=? fst sg then acc
               else let e := if lim <? snd sg then lim else snd sg in
                    if include then tp_add (fst sg) e acc else tp_remove tp_fixed (fst sg) e acc) other s.

Definition tp_merge_clip_all (tp_fixed : bool) (others : list (list tp_seg)) (include : bool) (s : tp_st) : tp_st :=
  fold_left (fun acc o => tp_merge_clip tp_fixed o include acc) others s.

Definition tp_merge_only (tp_fixed prefer : bool) (incs excs : list (list tp_seg)) (s : tp_st) : tp_st :=
  tp_merge_clip_all tp_fixed (if prefer then incs else excs) prefer
    (tp_merge_clip_all tp_fixed (if prefer then excs else incs) (negb prefer) s).

Definition tp_update_region_ma (tp_fixed ma : bool) (upd : Z -> Z -> list tp_seg) (prefer : bool)
           (incs excs : list (list tp_seg)) (b e : Z) (clear : bool) (s : tp_st) : tp_st :=
  if negb clear && (e <? tp_ve_num s) then (if ma then tp_merge_only tp_fixed prefer incs excs s else s)
  else tp_update_region tp_fixed upd prefer incs excs b e clear s.

(* IsInside *)
Definition tp_in_seg (t : Z) (sg : tp_seg) : bool := (fst sg <=? t) && (t <? snd sg).
Definition tp_inside_segs (l : list tp_seg) (t : Z) : bool := existsb (tp_in_seg t) l.

Definition tp_is_inside (s : tp_st) (t : Z) : bool :=
  match tp_vb s, tp_ve s with
  | Some vb, Some ve => if (t <? vb) || (ve <? t) then true else tp_inside_segs (tp_segs s) t
  | _, _ => true
  end.

(* the window boundary the adjusted UpdateRegion actually uses (for statements) *)
Definition tp_upd_begin (b : Z) (clear : bool) (s : tp_st) : Z :=
  if clear then b else if b <? tp_ve_num s then tp_ve_num s else b.
