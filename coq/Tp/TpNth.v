(* C08, layer M2: the n-th weekday search.  LegacyTimePeriod::FindNthWeekday (legacytimeperiod.cpp:56-105) is a
   day-by-day loop; the model uses its closed form tp_find_nth_weekday.  Here: the loop transcribed (on civil
   day numbers, i.e. for local midnights that exist - across transitions this is compared, not proved), the
   closed form is what the loop returns for |n| >= 1 and it IS the n-th such weekday of the month, and for
   n = 0 the loop returns nothing for any amount of fuel (the code loops forever: ASSERT(n > 0) is compiled
   out in release builds). *)
From Icv Require Import Base.Tac Tp.TpCal.
Local Open Scope Z_scope.

(* for (;;) { mktime(&t); if (t.tm_wday == wday) { seen++; if (seen == n) break; } t.tm_mday += dir; } *)
Fixpoint tp_nth_loop (fuel : nat) (wd n dir day seen : Z) : option Z :=
  match fuel with
  | O => None
  | S f =>
      if tp_wday day =? wd then
        (if seen + 1 =? n then Some day else tp_nth_loop f wd n dir (day + dir) (seen + 1))
      else tp_nth_loop f wd n dir (day + dir) seen
  end.

(* FindNthWeekday(wday, n, reference) for the month m0 (0-based) of year y *)
Definition tp_find_nth_weekday_loop (fuel : nat) (wd n y m0 : Z) : option Z :=
  if 0 <? n then tp_nth_loop fuel wd n 1 (tp_days_from_civil y (m0 + 1) 1) 0
  else tp_nth_loop fuel wd (- n) (-1) (tp_days_from_civil y (m0 + 2) 1 - 1) 0.

(* n = 0: never an answer, whatever the fuel - the loop of the code does not terminate *)
Lemma tp_nth_loop_zero wd dir : forall fuel day seen, 0 <= seen -> tp_nth_loop fuel wd 0 dir day seen = None.
Proof.
  induction fuel as [|f IH]; intros day seen Hs; [reflexivity|].
  cbn [tp_nth_loop]. destruct (tp_wday day =? wd).
  - assert ((seen + 1 =? 0) = false) as -> by lia. apply IH. lia.
  - apply IH. exact Hs.
Qed.

Theorem tp_find_nth_weekday_zero_diverges fuel wd y m0 : tp_find_nth_weekday_loop fuel wd 0 y m0 = None.
Proof. unfold tp_find_nth_weekday_loop. cbn. apply tp_nth_loop_zero. lia. Qed.

(* the closed form is the n-th weekday [wd] counted from the first of the month (n > 0): it has that weekday
   and lies in the n-th block of 7 days; counted from the end for n < 0 *)
Theorem tp_find_nth_weekday_spec wd n y m0 :
  0 <= wd <= 6 -> n <> 0 ->
  let r := tp_find_nth_weekday wd n y m0 in
  let first := tp_days_from_civil y (m0 + 1) 1 in
  let last := tp_days_from_civil y (m0 + 2) 1 - 1 in
  tp_wday r = wd /\
  (0 < n -> first + 7 * (n - 1) <= r < first + 7 * n) /\
  (n < 0 -> last - 7 * (- n) < r <= last - 7 * (- n - 1)).
Proof.
  intros Hwd Hn. cbv zeta. unfold tp_find_nth_weekday.
  set (first := tp_days_from_civil y (m0 + 1) 1). set (last := tp_days_from_civil y (m0 + 2) 1 - 1).
  unfold tp_wday. destruct (0 <? n) eqn:C.
  - split; [|split]; [|intros _|intros]; lia.
  - split; [|split]; [|intros|intros _]; lia.
Qed.

(* the forward loop finds exactly the closed form, given enough fuel *)
Lemma tp_nth_loop_forward wd n : 0 <= wd <= 6 -> forall fuel day seen,
  0 <= seen < n ->
  ((wd - tp_wday day) mod 7 + 7 * (n - seen - 1) < Z.of_nat fuel) ->
  tp_nth_loop fuel wd n 1 day seen = Some (day + (wd - tp_wday day) mod 7 + 7 * (n - seen - 1)).
Proof.
  intros Hwd. induction fuel as [|f IH]; intros day seen Hs Hf; [lia|].
  cbn [tp_nth_loop]. destruct (tp_wday day =? wd) eqn:C.
  - assert ((wd - tp_wday day) mod 7 = 0) as E0 by lia.
    destruct (seen + 1 =? n) eqn:D.
    + f_equal. lia.
    + rewrite IH by (unfold tp_wday in *; lia). f_equal. unfold tp_wday in *. lia.
  - rewrite IH by (unfold tp_wday in *; lia). f_equal. unfold tp_wday in *. lia.
Qed.

Theorem tp_find_nth_weekday_loop_forward wd n y m0 fuel :
  0 <= wd <= 6 -> 0 < n -> 7 * n <= Z.of_nat fuel ->
  tp_find_nth_weekday_loop fuel wd n y m0 = Some (tp_find_nth_weekday wd n y m0).
Proof.
  intros Hwd Hn Hf. unfold tp_find_nth_weekday_loop, tp_find_nth_weekday.
  assert ((0 <? n) = true) as -> by lia.
  rewrite tp_nth_loop_forward by (unfold tp_wday; lia). f_equal. lia.
Qed.

Lemma tp_nth_loop_backward wd n : 0 <= wd <= 6 -> forall fuel day seen,
  0 <= seen < n ->
  ((tp_wday day - wd) mod 7 + 7 * (n - seen - 1) < Z.of_nat fuel) ->
  tp_nth_loop fuel wd n (-1) day seen = Some (day - (tp_wday day - wd) mod 7 - 7 * (n - seen - 1)).
Proof.
  intros Hwd. induction fuel as [|f IH]; intros day seen Hs Hf; [lia|].
  cbn [tp_nth_loop]. destruct (tp_wday day =? wd) eqn:C.
  - destruct (seen + 1 =? n) eqn:D.
    + f_equal. unfold tp_wday in *. lia.
    + rewrite IH by (unfold tp_wday in *; lia). f_equal. unfold tp_wday in *. lia.
  - rewrite IH by (unfold tp_wday in *; lia). f_equal. unfold tp_wday in *. lia.
Qed.

Theorem tp_find_nth_weekday_loop_backward wd n y m0 fuel :
  0 <= wd <= 6 -> n < 0 -> 7 * (- n) <= Z.of_nat fuel ->
  tp_find_nth_weekday_loop fuel wd n y m0 = Some (tp_find_nth_weekday wd n y m0).
Proof.
  intros Hwd Hn Hf. unfold tp_find_nth_weekday_loop, tp_find_nth_weekday.
  assert ((0 <? n) = false) as -> by lia.
  rewrite tp_nth_loop_backward by (unfold tp_wday; lia). f_equal. lia.
Qed.
