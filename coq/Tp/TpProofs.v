(* C08, layer M1: theorems about the interval algebra (all segment lists, all instants). *)
From Icv Require Import Base.Tac Tp.TpModel.
Local Open Scope Z_scope.

Definition tp_in_range (b e t : Z) : bool := (b <=? t) && (t <? e).

Ltac tp_blia :=
  unfold tp_in_seg, tp_in_range; cbn [fst snd];
  repeat match goal with |- context [tp_inside_segs ?l ?t] => destruct (tp_inside_segs l t) end;
  lia.

Lemma tp_inside_cons sg l t : tp_inside_segs (sg :: l) t = tp_in_seg t sg || tp_inside_segs l t.
Proof. reflexivity. Qed.

Lemma tp_inside_app l1 l2 t : tp_inside_segs (l1 ++ l2) t = tp_inside_segs l1 t || tp_inside_segs l2 t.
Proof. unfold tp_inside_segs. apply existsb_app. Qed.

(* ---------------- AddSegment ---------------- *)

Lemma tp_add_merge_inside b e t : forall l l',
  tp_add_merge b e l = Some l' ->
  tp_inside_segs l' t = tp_inside_segs l t || tp_in_range b e t.
Proof.
  induction l as [|[sb se] r IH]; intros l' H; [discriminate|].
  cbn [tp_add_merge] in H.
  destruct ((sb <=? b) && (e <=? se)) eqn:C1.
  { inv H. rewrite !tp_inside_cons. tp_blia. }
  destruct ((b <=? sb) && (se <=? e)) eqn:C2.
  { inv H. rewrite !tp_inside_cons. tp_blia. }
  destruct ((b <=? se) && (se <=? e)) eqn:C3.
  { inv H. rewrite !tp_inside_cons. tp_blia. }
  destruct ((b <=? sb) && (sb <=? e)) eqn:C4.
  { inv H. rewrite !tp_inside_cons. tp_blia. }
  destruct (tp_add_merge b e r) as [r'|] eqn:E; [|discriminate].
  inv H. rewrite !tp_inside_cons. rewrite (IH r' eq_refl).
  destruct (tp_in_seg t (sb, se)), (tp_inside_segs r t), (tp_in_range b e t); reflexivity.
Qed.

Lemma tp_add_segs_inside_b b e l t :
  tp_inside_segs (tp_add_segs b e l) t = tp_inside_segs l t || tp_in_range b e t.
Proof.
  unfold tp_add_segs. destruct (tp_add_merge b e l) as [l'|] eqn:E.
  - apply tp_add_merge_inside; assumption.
  - rewrite tp_inside_app. cbn. unfold tp_in_seg, tp_in_range. cbn [fst snd]. rewrite orb_false_r. reflexivity.
Qed.

Theorem tp_add_spec b e l t :
  tp_inside_segs (tp_add_segs b e l) t = true <-> tp_inside_segs l t = true \/ b <= t < e.
Proof. rewrite tp_add_segs_inside_b. tp_blia. Qed.

(* overlapping or adjacent ranges behave as their union *)
Theorem tp_union_spec b1 e1 b2 e2 l t :
  b1 <= b2 <= e1 -> e1 <= e2 ->
  (tp_inside_segs (tp_add_segs b2 e2 (tp_add_segs b1 e1 l)) t = true <->
   tp_inside_segs l t = true \/ b1 <= t < e2).
Proof. intros H1 H2. rewrite !tp_add_spec. tp_blia. Qed.

(* ---------------- RemoveSegment ---------------- *)

Lemma tp_remove_one_inside b e sg t :
  tp_inside_segs (tp_remove_one true b e sg) t = tp_in_seg t sg && negb (tp_in_range b e t).
Proof.
  destruct sg as [sb se]. unfold tp_remove_one.
  destruct ((b <=? sb) && (se <=? e)) eqn:C1.
  { cbn. unfold tp_in_seg, tp_in_range. cbn [fst snd]. lia. }
  destruct ((se <? b) || (e <? sb)) eqn:C2.
  { cbn. unfold tp_in_seg, tp_in_range. cbn [fst snd]. lia. }
  destruct ((sb <? b) && (e <? se)) eqn:C3.
  { cbn. unfold tp_in_seg, tp_in_range. cbn [fst snd]. lia. }
  cbn [tp_inside_segs existsb]. unfold tp_in_seg, tp_in_range. cbn [fst snd].
  destruct ((b <=? sb) && (sb <? e)) eqn:C4; destruct ((b <? se) && (se <=? e)) eqn:C5; lia.
Qed.

Lemma tp_remove_segs_inside_b b e l t :
  tp_inside_segs (tp_remove_segs true b e l) t = tp_inside_segs l t && negb (tp_in_range b e t).
Proof.
  induction l as [|sg r IH]; [reflexivity|].
  unfold tp_remove_segs in *. cbn [flat_map]. rewrite tp_inside_app, tp_inside_cons, IH, tp_remove_one_inside.
  destruct (tp_in_seg t sg), (tp_inside_segs r t), (tp_in_range b e t); reflexivity.
Qed.

Theorem tp_remove_spec b e l t :
  tp_inside_segs (tp_remove_segs true b e l) t = true <-> tp_inside_segs l t = true /\ ~ (b <= t < e).
Proof. rewrite tp_remove_segs_inside_b. tp_blia. Qed.

(* F-C08-a on the pinned tree: excluding [9,10) from [9,17) leaves 9 inside; excluding [16,17) leaves 16 inside *)
Theorem tp_remove_pinned_refuted :
  (exists b e l t, ~ (tp_inside_segs (tp_remove_segs false b e l) t = true <->
                      tp_inside_segs l t = true /\ ~ (b <= t < e))) /\
  tp_remove_segs false 9 10 [(9, 17)] = [(9, 17)] /\
  tp_remove_segs false 16 17 [(9, 17)] = [(9, 17)].
Proof.
  split; [|split; reflexivity].
  exists 9, 10, [(9, 17)], 9. cbn. intros [H _]. specialize (H eq_refl). lia.
Qed.

(* the pinned code is right whenever no segment shares exactly one boundary with the removed range *)
Lemma tp_remove_one_pinned_agrees b e sg :
  (fst sg = b -> snd sg <= e) -> (snd sg = e -> b <= fst sg) ->
  tp_remove_one false b e sg = tp_remove_one true b e sg.
Proof.
  destruct sg as [sb se]. cbn [fst snd]. intros H1 H2. unfold tp_remove_one.
  destruct ((b <=? sb) && (se <=? e)) eqn:C1; [reflexivity|].
  destruct ((se <? b) || (e <? sb)) eqn:C2; [reflexivity|].
  destruct ((sb <? b) && (e <? se)) eqn:C3; [reflexivity|].
  assert ((b <? sb) = (b <=? sb)) as -> by lia.
  assert ((se <? e) = (se <=? e)) as -> by lia.
  reflexivity.
Qed.

(* ---------------- PurgeSegments ---------------- *)

Theorem tp_purge_spec e s t : e <= t ->
  tp_inside_segs (tp_segs (tp_purge e s)) t = tp_inside_segs (tp_segs s) t.
Proof.
  intros Ht. unfold tp_purge. destruct (tp_vb s) as [v|]; [|reflexivity].
  destruct (e <? v); [reflexivity|]. cbn [tp_segs].
  induction (tp_segs s) as [|sg r IH]; [reflexivity|].
  cbn [filter]. destruct (e <=? snd sg) eqn:C.
  - rewrite !tp_inside_cons, IH. reflexivity.
  - rewrite tp_inside_cons, IH. tp_blia.
Qed.

(* ---------------- Merge ---------------- *)

Lemma tp_merge_include_inside other : forall s t,
  tp_inside_segs (tp_segs (tp_merge true other true s)) t = tp_inside_segs (tp_segs s) t || tp_inside_segs other t.
Proof.
  unfold tp_merge. induction other as [|sg r IH]; intros s t; cbn [fold_left].
  - cbn. rewrite orb_false_r. reflexivity.
  - rewrite IH. cbn [tp_add tp_segs]. rewrite tp_add_segs_inside_b, tp_inside_cons.
    unfold tp_in_seg, tp_in_range.
    destruct (tp_inside_segs (tp_segs s) t), ((fst sg <=? t) && (t <? snd sg)), (tp_inside_segs r t); reflexivity.
Qed.

Lemma tp_merge_exclude_inside other : forall s t,
  tp_inside_segs (tp_segs (tp_merge true other false s)) t =
  tp_inside_segs (tp_segs s) t && negb (tp_inside_segs other t).
Proof.
  unfold tp_merge. induction other as [|sg r IH]; intros s t; cbn [fold_left].
  - cbn. rewrite andb_true_r. reflexivity.
  - rewrite IH. cbn [tp_remove tp_segs]. rewrite tp_remove_segs_inside_b, tp_inside_cons.
    unfold tp_in_seg, tp_in_range.
    destruct (tp_inside_segs (tp_segs s) t), ((fst sg <=? t) && (t <? snd sg)), (tp_inside_segs r t); reflexivity.
Qed.

Definition tp_inside_any (ls : list (list tp_seg)) (t : Z) : bool := existsb (fun l => tp_inside_segs l t) ls.

Lemma tp_merge_all_include_inside others : forall s t,
  tp_inside_segs (tp_segs (tp_merge_all true others true s)) t = tp_inside_segs (tp_segs s) t || tp_inside_any others t.
Proof.
  unfold tp_merge_all. induction others as [|o r IH]; intros s t; cbn [fold_left].
  - cbn. rewrite orb_false_r. reflexivity.
  - rewrite IH, tp_merge_include_inside. cbn [tp_inside_any existsb]. rewrite orb_assoc. reflexivity.
Qed.

Lemma tp_merge_all_exclude_inside others : forall s t,
  tp_inside_segs (tp_segs (tp_merge_all true others false s)) t =
  tp_inside_segs (tp_segs s) t && negb (tp_inside_any others t).
Proof.
  unfold tp_merge_all. induction others as [|o r IH]; intros s t; cbn [fold_left].
  - cbn. rewrite andb_true_r. reflexivity.
  - rewrite IH, tp_merge_exclude_inside. cbn [tp_inside_any existsb]. rewrite negb_orb, andb_assoc. reflexivity.
Qed.

(* ---------------- UpdateRegion ---------------- *)

Lemma tp_fold_add_inside own : forall s t,
  tp_inside_segs (tp_segs (fold_left (fun acc sg => tp_add (fst sg) (snd sg) acc) own s)) t =
  tp_inside_segs (tp_segs s) t || tp_inside_segs own t.
Proof. exact (tp_merge_include_inside own). Qed.

(* what the period's own definition contributes after UpdateRegion: the old segments outside the
   refreshed window plus whatever the update function returned *)
Definition tp_own_after (upd : Z -> Z -> list tp_seg) (b e : Z) (clear : bool) (s : tp_st) (t : Z) : bool :=
  let b' := tp_upd_begin b clear s in
  ((if clear then false else tp_inside_segs (tp_segs s) t) && negb (tp_in_range b' e t))
  || tp_inside_segs (upd b' e) t.

Definition tp_region_spec (prefer own inc exc : bool) : bool :=
  if prefer then (own && negb exc) || inc else (own || inc) && negb exc.

Theorem tp_update_region_spec_b upd prefer incs excs b e clear s t :
  (clear = false -> tp_ve_num s <= e) ->
  tp_inside_segs (tp_segs (tp_update_region true upd prefer incs excs b e clear s)) t =
  tp_region_spec prefer (tp_own_after upd b e clear s t) (tp_inside_any incs t) (tp_inside_any excs t).
Proof.
  intros Hwin. unfold tp_update_region, tp_own_after, tp_region_spec, tp_upd_begin.
  assert ((negb clear && (e <? tp_ve_num s)) = false) as ->.
  { destruct clear; [reflexivity|]. specialize (Hwin eq_refl). cbn. lia. }
  destruct prefer.
  - rewrite tp_merge_all_include_inside, tp_merge_all_exclude_inside, tp_fold_add_inside.
    cbn [tp_remove tp_segs]. rewrite tp_remove_segs_inside_b.
    destruct clear; cbn [tp_segs tp_inside_segs existsb andb]; reflexivity.
  - rewrite tp_merge_all_exclude_inside, tp_merge_all_include_inside, tp_fold_add_inside.
    cbn [tp_remove tp_segs]. rewrite tp_remove_segs_inside_b.
    destruct clear; cbn [tp_segs tp_inside_segs existsb andb]; reflexivity.
Qed.

(* a call that lies entirely before valid_end changes nothing *)
Theorem tp_update_region_noop upd prefer incs excs b e s fx :
  e < tp_ve_num s -> tp_update_region fx upd prefer incs excs b e false s = s.
Proof. intros H. unfold tp_update_region. cbn [negb andb]. assert ((e <? tp_ve_num s) = true) as -> by lia. reflexivity. Qed.

(* ---------------- the valid window ---------------- *)

Definition tp_covers (s : tp_st) (b e : Z) : Prop :=
  exists vb ve, tp_vb s = Some vb /\ tp_ve s = Some ve /\ vb <= b /\ e <= ve.

Lemma tp_covers_widen s b e b2 e2 vb' ve' :
  tp_covers s b e \/ (b2 <= b /\ e <= e2) ->
  vb' = tp_widen_b b2 (tp_vb s) -> ve' = tp_widen_e e2 (tp_ve s) ->
  forall sg, tp_covers {| tp_segs := sg; tp_vb := vb'; tp_ve := ve' |} b e.
Proof.
  intros H -> -> sg. unfold tp_covers, tp_widen_b, tp_widen_e. cbn [tp_vb tp_ve].
  destruct H as [(vb & ve & -> & -> & H1 & H2)|[H1 H2]].
  - destruct (b2 <? vb) eqn:C1, (ve <? e2) eqn:C2; do 2 eexists; repeat split; lia.
  - destruct (tp_vb s) as [vb|], (tp_ve s) as [ve|]; try destruct (b2 <? vb) eqn:C1; try destruct (ve <? e2) eqn:C2;
      do 2 eexists; repeat split; lia.
Qed.

Lemma tp_add_covers b e s b2 e2 : tp_covers s b e -> tp_covers (tp_add b2 e2 s) b e.
Proof. intros H. unfold tp_add. eapply tp_covers_widen; [left; exact H|reflexivity|reflexivity]. Qed.

Lemma tp_remove_covers fx b e s b2 e2 : tp_covers s b e -> tp_covers (tp_remove fx b2 e2 s) b e.
Proof. intros H. unfold tp_remove. eapply tp_covers_widen; [left; exact H|reflexivity|reflexivity]. Qed.

Lemma tp_remove_covers_self fx b e s : tp_covers (tp_remove fx b e s) b e.
Proof.
  unfold tp_remove.
  apply (tp_covers_widen s b e b e _ _ (or_intror (conj (Z.le_refl b) (Z.le_refl e))) eq_refl eq_refl).
Qed.

Lemma tp_merge_covers fx o inc b e : forall s, tp_covers s b e -> tp_covers (tp_merge fx o inc s) b e.
Proof.
  unfold tp_merge. induction o as [|sg r IH]; intros s H; [exact H|]. cbn [fold_left]. apply IH.
  destruct inc; [apply tp_add_covers|apply tp_remove_covers]; exact H.
Qed.

Lemma tp_merge_all_covers fx os inc b e : forall s, tp_covers s b e -> tp_covers (tp_merge_all fx os inc s) b e.
Proof.
  unfold tp_merge_all. induction os as [|o r IH]; intros s H; [exact H|]. cbn [fold_left]. apply IH.
  apply tp_merge_covers; exact H.
Qed.

(* after UpdateRegion the (adjusted) window is inside [valid_begin, valid_end] *)
Theorem tp_update_region_covers fx upd prefer incs excs b e clear s :
  (clear = false -> tp_ve_num s <= e) ->
  tp_covers (tp_update_region fx upd prefer incs excs b e clear s) (tp_upd_begin b clear s) e.
Proof.
  intros Hwin. unfold tp_update_region.
  assert ((negb clear && (e <? tp_ve_num s)) = false) as ->.
  { destruct clear; [reflexivity|]. specialize (Hwin eq_refl). cbn. lia. }
  apply tp_merge_all_covers, tp_merge_all_covers.
  fold (tp_upd_begin b clear s).
  apply (tp_merge_covers fx (upd (tp_upd_begin b clear s) e) true).
  apply tp_remove_covers_self.
Qed.

(* inside the valid window IsInside is exactly membership in a segment *)
Theorem tp_is_inside_window s b e t :
  tp_covers s b e -> b <= t <= e -> tp_is_inside s t = tp_inside_segs (tp_segs s) t.
Proof.
  intros (vb & ve & Hb & He & H1 & H2) Ht. unfold tp_is_inside. rewrite Hb, He.
  assert (((t <? vb) || (ve <? t)) = false) as -> by lia. reflexivity.
Qed.

(* the statement of the property for one UpdateRegion call on the fixed code *)
Theorem tp_update_region_is_inside upd prefer incs excs b e clear s t :
  (clear = false -> tp_ve_num s <= e) ->
  tp_upd_begin b clear s <= t <= e ->
  tp_is_inside (tp_update_region true upd prefer incs excs b e clear s) t =
  tp_region_spec prefer (tp_own_after upd b e clear s t) (tp_inside_any incs t) (tp_inside_any excs t).
Proof.
  intros Hwin Ht.
  rewrite (tp_is_inside_window _ _ _ _ (tp_update_region_covers true upd prefer incs excs b e clear s Hwin) Ht).
  apply tp_update_region_spec_b; assumption.
Qed.

(* in the refreshed window proper, the own part is just what the update function produced *)
Lemma tp_own_after_window upd b e clear s t :
  tp_upd_begin b clear s <= t < e ->
  tp_own_after upd b e clear s t = tp_inside_segs (upd (tp_upd_begin b clear s) e) t.
Proof.
  intros Ht. unfold tp_own_after. cbv zeta.
  assert (tp_in_range (tp_upd_begin b clear s) e t = true) as -> by (unfold tp_in_range; lia).
  rewrite andb_false_r. reflexivity.
Qed.

(* ---------------- the second form of UpdateRegion: rounds that only merge ---------------- *)

Lemma tp_update_region_ma_pinned fx upd prefer incs excs b e clear s :
  tp_update_region_ma fx false upd prefer incs excs b e clear s = tp_update_region fx upd prefer incs excs b e clear s.
Proof. unfold tp_update_region_ma, tp_update_region. destruct (negb clear && (e <? tp_ve_num s)); reflexivity. Qed.

(* a call that is not the early return is the same in both forms *)
Lemma tp_update_region_ma_effective fx ma upd prefer incs excs b e clear s :
  (clear = false -> tp_ve_num s <= e) ->
  tp_update_region_ma fx ma upd prefer incs excs b e clear s = tp_update_region fx upd prefer incs excs b e clear s.
Proof.
  intros H. unfold tp_update_region_ma.
  assert ((negb clear && (e <? tp_ve_num s)) = false) as ->; [|reflexivity].
  destruct clear; [reflexivity|]. specialize (H eq_refl). cbn. lia.
Qed.

(* what a merge cut off at valid_end = Some v does: valid_end stays, below v the referenced instants are united /
   subtracted, from v on nothing changes *)
Definition tp_below (v t : Z) (x y : bool) : bool := if t <? v then x else y.

Lemma tp_merge_clip_spec include other : forall s v,
  tp_ve s = Some v ->
  tp_ve (tp_merge_clip true other include s) = Some v /\
  forall t, tp_inside_segs (tp_segs (tp_merge_clip true other include s)) t =
            tp_below v t (if include then tp_inside_segs (tp_segs s) t || tp_inside_segs other t
                          else tp_inside_segs (tp_segs s) t && negb (tp_inside_segs other t))
                         (tp_inside_segs (tp_segs s) t).
Proof.
  unfold tp_merge_clip. induction other as [|sg r IH]; intros s v Hv; cbn [fold_left].
  - split; [exact Hv|]. intros t. unfold tp_below. cbn. destruct include, (t <? v); rewrite ?orb_false_r, ?andb_true_r; reflexivity.
  - assert (tp_ve_num s = v) as Hn by (unfold tp_ve_num; rewrite Hv; reflexivity). rewrite Hn.
    destruct (v <=? fst sg) eqn:C.
    + destruct (IH s v Hv) as [H1 H2]. split; [exact H1|]. intros t. rewrite H2. unfold tp_below.
      destruct (t <? v) eqn:Ct; [|reflexivity]. rewrite tp_inside_cons.
      assert (tp_in_seg t sg = false) as -> by (unfold tp_in_seg; lia). reflexivity.
    + set (e := if v <? snd sg then v else snd sg).
      assert (e <= v) as He by (subst e; destruct (v <? snd sg) eqn:C2; lia).
      destruct include.
      * assert (tp_ve (tp_add (fst sg) e s) = Some v) as Hv'.
        { cbn [tp_add tp_ve]. rewrite Hv. cbn [tp_widen_e]. assert ((v <? e) = false) as -> by lia. reflexivity. }
        destruct (IH _ v Hv') as [H1 H2]. split; [exact H1|]. intros t. rewrite H2. unfold tp_below.
        cbn [tp_add tp_segs]. rewrite tp_add_segs_inside_b, tp_inside_cons. unfold tp_in_range, tp_in_seg.
        destruct (t <? v) eqn:Ct.
        -- assert (((fst sg <=? t) && (t <? e)) = ((fst sg <=? t) && (t <? snd sg))) as ->.
           { subst e. destruct (v <? snd sg) eqn:C2; lia. }
           destruct (tp_inside_segs (tp_segs s) t), ((fst sg <=? t) && (t <? snd sg)), (tp_inside_segs r t); reflexivity.
        -- assert (((fst sg <=? t) && (t <? e)) = false) as -> by lia. rewrite orb_false_r. reflexivity.
      * assert (tp_ve (tp_remove true (fst sg) e s) = Some v) as Hv'.
        { cbn [tp_remove tp_ve]. rewrite Hv. cbn [tp_widen_e]. assert ((v <? e) = false) as -> by lia. reflexivity. }
        destruct (IH _ v Hv') as [H1 H2]. split; [exact H1|]. intros t. rewrite H2. unfold tp_below.
        cbn [tp_remove tp_segs]. rewrite tp_remove_segs_inside_b, tp_inside_cons. unfold tp_in_range, tp_in_seg.
        destruct (t <? v) eqn:Ct.
        -- assert (((fst sg <=? t) && (t <? e)) = ((fst sg <=? t) && (t <? snd sg))) as ->.
           { subst e. destruct (v <? snd sg) eqn:C2; lia. }
           destruct (tp_inside_segs (tp_segs s) t), ((fst sg <=? t) && (t <? snd sg)), (tp_inside_segs r t); reflexivity.
        -- assert (((fst sg <=? t) && (t <? e)) = false) as -> by lia. cbn [negb]. rewrite andb_true_r. reflexivity.
Qed.

Lemma tp_merge_clip_all_spec include others : forall s v,
  tp_ve s = Some v ->
  tp_ve (tp_merge_clip_all true others include s) = Some v /\
  forall t, tp_inside_segs (tp_segs (tp_merge_clip_all true others include s)) t =
            tp_below v t (if include then tp_inside_segs (tp_segs s) t || tp_inside_any others t
                          else tp_inside_segs (tp_segs s) t && negb (tp_inside_any others t))
                         (tp_inside_segs (tp_segs s) t).
Proof.
  unfold tp_merge_clip_all. induction others as [|o r IH]; intros s v Hv; cbn [fold_left].
  - split; [exact Hv|]. intros t. unfold tp_below. cbn. destruct include, (t <? v); rewrite ?orb_false_r, ?andb_true_r; reflexivity.
  - destruct (tp_merge_clip_spec include o s v Hv) as [Hv' Ho].
    destruct (IH _ v Hv') as [H1 H2]. split; [exact H1|]. intros t. rewrite H2, Ho. unfold tp_below.
    change (tp_inside_any (o :: r) t) with (tp_inside_segs o t || tp_inside_any r t). destruct (t <? v); [|reflexivity].
    destruct include, (tp_inside_segs (tp_segs s) t), (tp_inside_segs o t), (tp_inside_any r t); reflexivity.
Qed.

(* a round that only merges: valid_end stays; below it the old answer plays the part of "own" in the statement *)
Theorem tp_merge_only_spec prefer incs excs s v :
  tp_ve s = Some v ->
  tp_ve (tp_merge_only true prefer incs excs s) = Some v /\
  forall t, tp_inside_segs (tp_segs (tp_merge_only true prefer incs excs s)) t =
            tp_below v t (tp_region_spec prefer (tp_inside_segs (tp_segs s) t) (tp_inside_any incs t) (tp_inside_any excs t))
                         (tp_inside_segs (tp_segs s) t).
Proof.
  intros Hv. unfold tp_merge_only, tp_region_spec. destruct prefer.
  - destruct (tp_merge_clip_all_spec false excs s v Hv) as [Hv1 H1].
    destruct (tp_merge_clip_all_spec true incs _ v Hv1) as [Hv2 H2].
    split; [exact Hv2|]. intros t. cbn [negb] in *. rewrite H2, H1. unfold tp_below. destruct (t <? v); reflexivity.
  - destruct (tp_merge_clip_all_spec true incs s v Hv) as [Hv1 H1].
    destruct (tp_merge_clip_all_spec false excs _ v Hv1) as [Hv2 H2].
    split; [exact Hv2|]. intros t. cbn [negb] in *. rewrite H2, H1. unfold tp_below. destruct (t <? v); reflexivity.
Qed.
