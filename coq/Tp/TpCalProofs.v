(* C08, layer M2: theorems about the calendar model.
   - for ARBITRARY off/mk: the produced segments are exactly the time ranges of the loop's matching days
     (tp_script_func_general);
   - for a FIXED UTC offset (zones without a transition in reach): the produced segments are the
     wall-clock statement of the property restricted to days from the window's first local day on
     (tp_script_func_const), hence the full statement whenever no range of an earlier day reaches the
     instant (tp_ranges_fixed_offset; the hypothesis is the negated signature of F-C08-b);
   - refutations with the Europe/Berlin table: F-C08-b (tp_wrap_refuted), F-C08-c (tp_stride_refuted).
   Across DST transitions the correspondence between [mk l1, mk l2) and wall-clock time is compared
   with the implementation on every run, not proved. *)
From Icv Require Import Base.Tac Tp.TpModel Tp.TpProofs Tp.TpObs Tp.TpOracleProofs Tp.TpCal Tp.TpCalObs.
Local Open Scope Z_scope.

(* ---------------- calendar sanity (the round-trip theorems over all of Z are in Tp/TpCivil.v) ---------------- *)

Example tp_wday_saturday : tp_wday (tp_days_from_civil 2033 6 4) = 6.
Proof. reflexivity. Qed.

(* ---------------- arbitrary local time: what the day loop produces ---------------- *)

Section General.
Variable mk : Z -> Z.
Variables rnd lb : bool.

Fixpoint tp_loop_days (fuel : nat) (r e : Z) : list Z :=
  match fuel with
  | O => []
  | S f => if tp_midnight mk r <=? e then r :: tp_loop_days f (r + 1) e else []
  end.

(* the segments form [lb] drops end at or before the region's begin: no instant from begin on is affected *)
Lemma tp_filter_keep_inside b l t : lb = false \/ b <= t ->
  tp_inside_segs (filter (tp_keep lb b) l) t = tp_inside_segs l t.
Proof.
  intros H. induction l as [|[sb se] r IH]; [reflexivity|].
  cbn [filter]. unfold tp_keep at 1. cbn [snd].
  destruct lb.
  - destruct H as [H|H]; [discriminate|].
    destruct (b <? se) eqn:C.
    + change (tp_inside_segs ((sb, se) :: ?x) t) with (tp_in_seg t (sb, se) || tp_inside_segs x t).
      rewrite IH. reflexivity.
    + rewrite IH. change (tp_inside_segs ((sb, se) :: r) t) with (tp_in_seg t (sb, se) || tp_inside_segs r t).
      unfold tp_in_seg. cbn [fst snd]. assert ((t <? se) = false) as -> by lia. rewrite andb_false_r. reflexivity.
  - change (tp_inside_segs ((sb, se) :: ?x) t) with (tp_in_seg t (sb, se) || tp_inside_segs x t).
    rewrite IH. reflexivity.
Qed.

Lemma tp_day_loop_inside ranges b e t : lb = false \/ b <= t -> forall fuel r,
  tp_inside_segs (tp_day_loop mk rnd lb fuel ranges b r e) t =
  existsb (fun d => tp_inside_segs (tp_day_segs mk rnd ranges d) t) (tp_loop_days fuel r e).
Proof.
  intros H. induction fuel as [|f IH]; intros r; [reflexivity|].
  cbn [tp_day_loop tp_loop_days]. destruct (tp_midnight mk r <=? e); [|reflexivity].
  rewrite tp_inside_app, IH, tp_filter_keep_inside by exact H. reflexivity.
Qed.

Lemma tp_flat_map_inside {A} (f : A -> list tp_seg) l t :
  tp_inside_segs (flat_map f l) t = existsb (fun x => tp_inside_segs (f x) t) l.
Proof. induction l as [|x r IH]; [reflexivity|]. cbn [flat_map existsb]. rewrite tp_inside_app, IH. reflexivity. Qed.

(* an instant is in a segment of the day's output iff the day definition holds (IsInDayDefinition) and
   the instant lies between the two mktime values of a time range *)
Definition tp_in_time_range_mk (r : Z) (tr : Z * Z) (t : Z) : bool :=
  let te' := if snd tr <=? fst tr then snd tr + 86400 else snd tr in
  (mk (r * 86400 + fst tr) <=? t) && (t <? mk (r * 86400 + te')).

Lemma tp_time_range_seg_inside r tr t :
  tp_inside_segs (tp_time_range_seg mk r tr) t = tp_in_time_range_mk r tr t.
Proof.
  destruct tr as [tb te]. unfold tp_time_range_seg, tp_in_time_range_mk. cbn [fst snd].
  set (te' := if te <=? tb then te + 86400 else te).
  destruct (mk (r * 86400 + te') <=? mk (r * 86400 + tb)) eqn:C; cbn; unfold tp_in_seg; cbn [fst snd]; lia.
Qed.

Lemma tp_existsb_ext {A} (f g : A -> bool) l : (forall x, In x l -> f x = g x) -> existsb f l = existsb g l.
Proof.
  induction l as [|x r IH]; intros H; [reflexivity|]. cbn [existsb].
  rewrite (H x (or_introl eq_refl)), IH; [reflexivity|]. intros y Hy. apply H. right. exact Hy.
Qed.

Lemma tp_time_ranges_segs_inside r trs t :
  tp_inside_segs (tp_time_ranges_segs mk r trs) t = existsb (fun tr => tp_in_time_range_mk r tr t) trs.
Proof.
  unfold tp_time_ranges_segs. rewrite tp_flat_map_inside. apply tp_existsb_ext. intros tr _. apply tp_time_range_seg_inside.
Qed.

Lemma tp_day_segs_inside ranges d t :
  tp_inside_segs (tp_day_segs mk rnd ranges d) t =
  existsb (fun kv => tp_in_day_def mk rnd (fst kv) d && existsb (fun tr => tp_in_time_range_mk d tr t) (snd kv)) ranges.
Proof.
  unfold tp_day_segs. rewrite tp_flat_map_inside. apply tp_existsb_ext. intros kv _.
  destruct (tp_in_day_def mk rnd (fst kv) d); [apply tp_time_ranges_segs_inside|reflexivity].
Qed.

Theorem tp_script_func_general (off : Z -> Z) ranges b e t :
  lb = false \/ b <= t ->
  tp_inside_segs (tp_script_func off mk rnd lb ranges b e) t =
  existsb (fun d => existsb (fun kv => tp_in_day_def mk rnd (fst kv) d &&
                                       existsb (fun tr => tp_in_time_range_mk d tr t) (snd kv)) ranges)
          (tp_loop_days (tp_loop_fuel b e) (tp_first_day off lb b) e).
Proof.
  intros H. unfold tp_script_func. rewrite tp_day_loop_inside by exact H.
  apply tp_existsb_ext. intros d _. apply tp_day_segs_inside.
Qed.

End General.

(* every time range ends at most 48 h after 00:00 of its own day (24:00 ends and ranges wrapping past midnight do):
   only the day of an instant and the day before can reach it *)
Definition tp_ranges_reach1 (ranges : list (tp_dayrange * list (Z * Z))) : Prop :=
  forall kv tr, In kv ranges -> In tr (snd kv) ->
    (if snd tr <=? fst tr then snd tr + 86400 else snd tr) <= 172800.

Lemma tp_reach1_no_earlier_day (o : Z -> Z) (m : Z -> Z) ranges d t :
  tp_ranges_reach1 ranges -> d < tp_local_day o t - 1 -> tp_day_covers o m false ranges d t = false.
Proof.
  intros Hr Hd. unfold tp_day_covers.
  destruct (existsb _ ranges) eqn:E; [|reflexivity]. exfalso.
  apply existsb_exists in E. destruct E as (kv & Hkv & H).
  apply andb_prop in H. destruct H as [_ H]. apply existsb_exists in H. destruct H as (tr & Htr & H).
  pose proof (Hr kv tr Hkv Htr) as H1. destruct tr as [tb te]. cbn [fst snd] in *.
  unfold tp_in_time_range in H. unfold tp_local_day in Hd.
  destruct (te <=? tb) eqn:C; lia.
Qed.

(* ---------------- fixed UTC offset ---------------- *)

Section Const.
Variable c : Z.
Variables rnd lb : bool.
Let off := fun _ : Z => c.
Let mk := fun l : Z => l - c.

(* both forms of the day number agree with the calendar distance when the offset does not change *)
Lemma tp_in_day_def_const dd r : tp_in_day_def mk rnd dd r = tp_day_matches dd r.
Proof.
  unfold tp_in_day_def, tp_day_matches, tp_midnight, mk.
  set (bd := tp_range_begin_day dd r). set (ed := tp_range_end_day dd r). set (s := tp_dr_stride dd).
  destruct ((r * 86400 - c <? bd * 86400 - c) || (ed * 86400 - c <=? r * 86400 - c)) eqn:C1.
  { destruct (bd <=? r) eqn:C2, (r <? ed) eqn:C3; cbn; try reflexivity; lia. }
  assert ((if rnd then r * 86400 - c - (bd * 86400 - c) + 43200 else r * 86400 - c - (bd * 86400 - c)) / 86400 = r - bd) as ->.
  { destruct rnd.
    - replace (r * 86400 - c - (bd * 86400 - c) + 43200) with ((r - bd) * 86400 + 43200) by ring.
      rewrite Z.div_add_l by lia. change (43200 / 86400) with 0. lia.
    - replace (r * 86400 - c - (bd * 86400 - c)) with ((r - bd) * 86400) by ring. apply Z.div_mul. lia. }
  assert ((bd <=? r) = true) as -> by lia. assert ((r <? ed) = true) as -> by lia. cbn [andb].
  destruct (1 <? s) eqn:C4.
  - assert ((s <=? 1) = false) as -> by lia. cbn [andb orb].
    pose proof (Z.mod_pos_bound (r - bd) s ltac:(lia)) as Hm.
    destruct ((r - bd) mod s =? 0) eqn:C5.
    + assert ((0 <? (r - bd) mod s) = false) as -> by lia. reflexivity.
    + assert ((0 <? (r - bd) mod s) = true) as -> by lia. reflexivity.
  - assert ((s <=? 1) = true) as -> by lia. reflexivity.
Qed.

Lemma tp_in_time_range_const r tr t : tp_in_time_range_mk mk r tr t = tp_in_time_range off r tr t.
Proof. destruct tr as [tb te]. unfold tp_in_time_range_mk, tp_in_time_range, tp_local, mk, off. cbn [fst snd]. lia. Qed.

Lemma tp_day_segs_const ranges d t :
  tp_inside_segs (tp_day_segs mk rnd ranges d) t = tp_day_covers off mk false ranges d t.
Proof.
  rewrite tp_day_segs_inside. unfold tp_day_covers. apply tp_existsb_ext. intros kv _.
  rewrite tp_in_day_def_const. destruct (tp_day_matches (fst kv) d); [|reflexivity]. cbn [andb].
  apply tp_existsb_ext. intros tr _. apply tp_in_time_range_const.
Qed.

Lemma tp_loop_days_const e : forall fuel r0 r,
  In r (tp_loop_days mk fuel r0 e) <-> r0 <= r < r0 + Z.of_nat fuel /\ r * 86400 - c <= e.
Proof.
  induction fuel as [|f IH]; intros r0 r.
  - cbn. lia.
  - cbn [tp_loop_days]. unfold tp_midnight, mk at 1. destruct (r0 * 86400 - c <=? e) eqn:C.
    + cbn [In]. rewrite IH. lia.
    + cbn. lia.
Qed.

Lemma tp_days_back_in : forall back d r, In r (tp_days_back back d) <-> d - Z.of_nat back <= r <= d.
Proof.
  induction back as [|k IH]; intros d r; cbn [tp_days_back In].
  - lia.
  - rewrite IH. lia.
Qed.

(* every time range begins at or after 00:00 and ends at most [tp_back] days after its own day *)
Definition tp_ranges_bounded (ranges : list (tp_dayrange * list (Z * Z))) : Prop :=
  forall kv tr, In kv ranges -> In tr (snd kv) -> 0 <= fst tr /\ 0 <= snd tr <= 259200.

Lemma tp_day_covers_reach ranges d t :
  tp_ranges_bounded ranges -> tp_day_covers off mk false ranges d t = true ->
  d * 86400 <= tp_local off t < (d + 4) * 86400.
Proof.
  intros Hb H. unfold tp_day_covers in H. apply existsb_exists in H. destruct H as (kv & Hkv & H).
  apply andb_prop in H. destruct H as [_ H]. apply existsb_exists in H. destruct H as (tr & Htr & H).
  destruct (Hb kv tr Hkv Htr) as [H1 H2]. destruct tr as [tb te]. cbn [fst snd] in *.
  unfold tp_in_time_range in H. destruct (te <=? tb) eqn:C; lia.
Qed.

Theorem tp_script_func_const ranges b e t :
  b <= t < e -> tp_ranges_bounded ranges ->
  tp_inside_segs (tp_script_func off mk rnd lb ranges b e) t =
  tp_spec_inside off mk false (Some (tp_first_day off lb b)) tp_back ranges t.
Proof.
  intros Ht Hb. unfold tp_script_func. rewrite tp_day_loop_inside by (right; lia).
  rewrite (tp_existsb_ext _ (fun d => tp_day_covers off mk false ranges d t)) by (intros d _; apply tp_day_segs_const).
  unfold tp_spec_inside.
  set (d0 := tp_local_day off b). set (dt := tp_local_day off t).
  assert (d0 = (b + c) / 86400) as Hd0 by reflexivity.
  assert (dt = (t + c) / 86400) as Hdt by reflexivity.
  assert (tp_first_day off lb b = if lb then d0 - 1 else d0) as Hf by reflexivity.
  apply Bool.eq_true_iff_eq. rewrite !existsb_exists. split.
  - intros (d & Hin & Hc). exists d. apply tp_loop_days_const in Hin.
    pose proof (tp_day_covers_reach ranges d t Hb Hc) as Hr. unfold tp_local, off in Hr.
    split; [apply tp_days_back_in; unfold tp_back; lia|].
    rewrite Hc. assert ((tp_first_day off lb b <=? d) = true) as -> by lia. reflexivity.
  - intros (d & Hin & Hc). apply andb_prop in Hc. destruct Hc as [Hd Hc]. exists d.
    apply tp_days_back_in in Hin.
    pose proof (tp_day_covers_reach ranges d t Hb Hc) as Hr. unfold tp_local, off in Hr.
    split; [|exact Hc]. apply tp_loop_days_const. unfold tp_loop_fuel.
    rewrite Z2Nat.id by lia. destruct lb; lia.
Qed.

(* the statement of the property for a fixed offset; hypothesis = negated signature of F-C08-b *)
Theorem tp_ranges_fixed_offset ranges b e t :
  b <= t < e -> tp_ranges_bounded ranges ->
  (forall d, d < tp_first_day off lb b -> tp_day_covers off mk false ranges d t = false) ->
  tp_inside_segs (tp_script_func off mk rnd lb ranges b e) t = tp_spec_inside off mk false None tp_back ranges t.
Proof.
  intros Ht Hb Hno. rewrite tp_script_func_const by assumption. unfold tp_spec_inside.
  apply tp_existsb_ext. intros d _. destruct (tp_first_day off lb b <=? d) eqn:C; [reflexivity|].
  cbn [andb]. symmetry. apply Hno. lia.
Qed.

(* form lb = true (the loop starts the day before): nothing is left of finding wrap-first-day for such ranges *)
Theorem tp_ranges_fixed_offset_lookback ranges b e t :
  lb = true -> b <= t < e -> tp_ranges_bounded ranges -> tp_ranges_reach1 ranges ->
  tp_inside_segs (tp_script_func off mk rnd lb ranges b e) t = tp_spec_inside off mk false None tp_back ranges t.
Proof.
  intros Hlb Ht Hb Hr. apply tp_ranges_fixed_offset; [assumption|assumption|].
  intros d Hd. apply tp_reach1_no_earlier_day; [exact Hr|].
  unfold tp_first_day in Hd. rewrite Hlb in Hd.
  assert (tp_local_day off b <= tp_local_day off t); [|lia].
  unfold tp_local_day, tp_local, off. apply Z.div_le_mono; lia.
Qed.

(* what tp_spec_inside says, in words: some day d among the day of t and the three before matches a day
   definition one of whose time ranges contains t's local wall-clock time counted from 00:00 of d *)
Theorem tp_spec_inside_iff ranges t :
  tp_spec_inside off mk false None tp_back ranges t = true <->
  exists d dd trs tr, tp_local_day off t - 3 <= d <= tp_local_day off t /\ In (dd, trs) ranges /\ In tr trs /\
    tp_day_matches dd d = true /\
    d * 86400 + fst tr <= t + c < d * 86400 + (if snd tr <=? fst tr then snd tr + 86400 else snd tr).
Proof.
  unfold tp_spec_inside, tp_day_covers. rewrite existsb_exists. split.
  - intros (d & Hin & H). cbn [andb] in H. apply existsb_exists in H. destruct H as ([dd trs] & Hkv & H).
    apply andb_prop in H. destruct H as [Hm H]. apply existsb_exists in H. destruct H as (tr & Htr & H).
    exists d, dd, trs, tr. apply tp_days_back_in in Hin. unfold tp_back in Hin. cbn [fst snd] in *.
    repeat split; try assumption; try lia; destruct tr as [tb te]; unfold tp_in_time_range, tp_local, off in H; cbn [fst snd]; lia.
  - intros (d & dd & trs & tr & Hd & Hkv & Htr & Hm & H). exists d. split; [apply tp_days_back_in; unfold tp_back; lia|].
    cbn [andb]. apply existsb_exists. exists (dd, trs). split; [assumption|]. cbn [fst snd]. rewrite Hm. cbn [andb].
    apply existsb_exists. exists tr. split; [assumption|].
    destruct tr as [tb te]. unfold tp_in_time_range, tp_local, off. cbn [fst snd] in *. lia.
Qed.

End Const.

(* ---------------- refutations on the Europe/Berlin table ---------------- *)

(* CEST until 2033-10-30, CET, CEST from 2034-03-26 01:00 UTC, CET from 2034-10-29 *)
Definition tp_berlin_base : Z := 7200.
Definition tp_berlin_tab : list (Z * Z) :=
  [(2014246800, 3600); (2026947600, 7200); (2045696400, 3600); (2058397200, 7200)].

(* F-C08-b: "friday" = "22:00-06:00", window freshly computed from Saturday 2033-06-04 03:00 local:
   03:00 on Saturday is inside by the statement, the segments the PINNED form produces do not contain it *)
Theorem tp_wrap_refuted :
  let off := tp_tab_off tp_berlin_base tp_berlin_tab in
  let mk := tp_tab_mk tp_berlin_base tp_berlin_tab in
  let ranges := [({| tp_dr_first := TpWeekday 5 None None; tp_dr_last := None; tp_dr_stride := 1 |}, [(79200, 21600)])] in
  let b := mk (tp_days_from_civil 2033 6 4 * 86400 + 10800) in
  tp_tab_ok tp_berlin_base tp_berlin_tab = true /\
  tp_spec_inside off mk false None tp_back ranges b = true /\
  tp_inside_segs (tp_script_func off mk false false ranges b (b + 86400)) b = false /\
  tp_spec_inside off mk false (Some (tp_local_day off b)) tp_back ranges b = false.
Proof. vm_compute. repeat split; reflexivity. Qed.

(* ... and the same witness with the loop started one day earlier (form lb = true): the segment
   [Friday 22:00, Saturday 06:00) is produced, Saturday 03:00 is inside, and Friday's other range 08:00-09:00, which
   ended before the region's begin, is not reported *)
Theorem tp_wrap_fixed :
  let off := tp_tab_off tp_berlin_base tp_berlin_tab in
  let mk := tp_tab_mk tp_berlin_base tp_berlin_tab in
  let ranges := [({| tp_dr_first := TpWeekday 5 None None; tp_dr_last := None; tp_dr_stride := 1 |}, [(28800, 32400); (79200, 21600)])] in
  let b := mk (tp_days_from_civil 2033 6 4 * 86400 + 10800) in
  tp_spec_inside off mk false None tp_back ranges b = true /\
  tp_inside_segs (tp_script_func off mk false true ranges b (b + 86400)) b = true /\
  tp_script_func off mk false true ranges b (b + 86400) = [(b - 18000, b + 10800)].
Proof. vm_compute. repeat split; reflexivity. Qed.

(* F-C08-c: "2034-03-25 - 2034-03-31 / 2" across the spring-forward day 2034-03-26: by calendar days the
   27th matches and the 28th does not; the segments (09:00-17:00) the PINNED form produces have it the other way round *)
Theorem tp_stride_refuted :
  let off := tp_tab_off tp_berlin_base tp_berlin_tab in
  let mk := tp_tab_mk tp_berlin_base tp_berlin_tab in
  let ranges := [({| tp_dr_first := TpDate 2034 3 25; tp_dr_last := Some (TpDate 2034 3 31); tp_dr_stride := 2 |}, [(32400, 61200)])] in
  let b := mk (tp_days_from_civil 2034 3 26 * 86400 + 43200) in
  let noon27 := mk (tp_days_from_civil 2034 3 27 * 86400 + 43200) in
  let noon28 := mk (tp_days_from_civil 2034 3 28 * 86400 + 43200) in
  tp_spec_inside off mk false None tp_back ranges noon27 = true /\
  tp_inside_segs (tp_script_func off mk false false ranges b (b + 259200)) noon27 = false /\
  tp_spec_inside off mk false None tp_back ranges noon28 = false /\
  tp_inside_segs (tp_script_func off mk false false ranges b (b + 259200)) noon28 = true /\
  tp_spec_inside off mk true None tp_back ranges noon27 = false /\
  tp_spec_inside off mk true None tp_back ranges noon28 = true.
Proof. vm_compute. repeat split; reflexivity. Qed.

(* ... and the same witness with the day number rounded to the nearest day (form rnd = true): the 27th matches, the
   28th does not, in spring and (2034-10-28 - 2034-11-03 / 2 across the fall-back day 2034-10-29) in autumn *)
Theorem tp_stride_fixed :
  let off := tp_tab_off tp_berlin_base tp_berlin_tab in
  let mk := tp_tab_mk tp_berlin_base tp_berlin_tab in
  let ranges := [({| tp_dr_first := TpDate 2034 3 25; tp_dr_last := Some (TpDate 2034 3 31); tp_dr_stride := 2 |}, [(32400, 61200)])] in
  let b := mk (tp_days_from_civil 2034 3 26 * 86400 + 43200) in
  let noon27 := mk (tp_days_from_civil 2034 3 27 * 86400 + 43200) in
  let noon28 := mk (tp_days_from_civil 2034 3 28 * 86400 + 43200) in
  let ranges' := [({| tp_dr_first := TpDate 2034 10 28; tp_dr_last := Some (TpDate 2034 11 3); tp_dr_stride := 2 |}, [(32400, 61200)])] in
  let b' := mk (tp_days_from_civil 2034 10 29 * 86400 + 43200) in
  let noon30 := mk (tp_days_from_civil 2034 10 30 * 86400 + 43200) in
  let noon31 := mk (tp_days_from_civil 2034 10 31 * 86400 + 43200) in
  tp_inside_segs (tp_script_func off mk true false ranges b (b + 259200)) noon27 = true /\
  tp_inside_segs (tp_script_func off mk true false ranges b (b + 259200)) noon28 = false /\
  tp_inside_segs (tp_script_func off mk true false ranges' b' (b' + 259200)) noon30 = true /\
  tp_inside_segs (tp_script_func off mk true false ranges' b' (b' + 259200)) noon31 = false /\
  tp_spec_inside off mk false None tp_back ranges' noon30 = true /\
  tp_spec_inside off mk false None tp_back ranges' noon31 = false.
Proof. vm_compute. repeat split; reflexivity. Qed.

(* ---------------- the calendar oracle accepts the model (fixed offset) ---------------- *)

(* for a zone without transitions (empty table, offset c) the oracle that is run over implementation
   traces returns None on what the model computes, provided no probe of the window is reached by a
   range of a day before the window's first local day (the recorded finding F-C08-b) *)
Theorem tp_cal_step_ok_model_const c rnd lb ma allr ranges prefer incs excs b e clear probes pre :
  tp_ranges_bounded ranges ->
  let off := fun _ : Z => c in
  let mk := fun l : Z => l - c in
  let post := tp_update_region_ma true ma (tp_script_func off mk rnd lb ranges) prefer incs excs b e clear pre in
  tp_probes_cover probes (tp_spec_bounds c [] allr (tp_upd_begin b clear pre) e) = true ->
  (forall t d, In t probes -> tp_upd_begin b clear pre <= t < e ->
               d < tp_first_day off lb (tp_upd_begin b clear pre) -> tp_day_covers off mk false ranges d t = false) ->
  tp_cal_step_ok c [] ma allr ranges prefer incs excs b e clear probes pre post (map (tp_is_inside post) probes) = None.
Proof.
  intros Hb off mk post Hcov Hno. unfold tp_cal_step_ok.
  rewrite TpOracleProofs.tp_ins_ok_model. cbn [negb]. subst post.
  destruct (negb clear && (e <? tp_ve_num pre)) eqn:Hn.
  { unfold tp_update_region_ma. rewrite Hn. cbn [tp_noop_ok].
    destruct ma; [|rewrite TpOracleProofs.tp_st_eqb_refl; reflexivity].
    destruct (tp_ve pre) as [v|] eqn:Hv; [|reflexivity].
    destruct (tp_merge_only_spec prefer incs excs pre v Hv) as [Hv' Hs].
    rewrite Hv'. cbn [tp_oz_eqb]. rewrite Z.eqb_refl. cbn [andb].
    assert (forallb (fun t => Bool.eqb (tp_inside_segs (tp_segs (tp_merge_only true prefer incs excs pre)) t)
              (tp_below v t (tp_region_spec prefer (tp_inside_segs (tp_segs pre) t) (tp_inside_any incs t) (tp_inside_any excs t))
                        (tp_inside_segs (tp_segs pre) t))) probes = true) as ->; [|reflexivity].
    apply forallb_forall. intros t _. rewrite Hs. apply Bool.eqb_reflx. }
  assert (clear = false -> tp_ve_num pre <= e) as Hwin.
  { intros ->. cbn [negb andb] in Hn. lia. }
  rewrite (tp_update_region_ma_effective true ma _ prefer incs excs b e clear pre Hwin) in *.
  pose proof (tp_update_region_covers true (tp_script_func off mk rnd lb ranges) prefer incs excs b e clear pre Hwin) as Hc.
  rewrite (TpOracleProofs.tp_covers_b_true _ _ _ Hc).
  rewrite Hcov. cbn [negb].
  change (tp_tab_off c []) with off.
  set (b' := tp_upd_begin b clear pre) in *.
  set (post := tp_update_region true (tp_script_func off mk rnd lb ranges) prefer incs excs b e clear pre) in *.
  clear Hcov.
  induction probes as [|t r IH]; [reflexivity|].
  cbn [map combine tp_cal_first_bad].
  assert (tp_cal_first_bad c [] ranges prefer incs excs b' e (tp_local_day off b') (combine r (map (tp_is_inside post) r)) = None) as IH'.
  { apply IH. intros t0 d Hin. apply Hno. right. exact Hin. }
  destruct ((b' <=? t) && (t <? e)) eqn:Hw; [|exact IH'].
  assert (b' <= t < e) as Ht by lia.
  unfold tp_cal_classify, tp_cal_expect.
  change (tp_tab_off c []) with off. change (tp_tab_mk c []) with mk.
  rewrite (tp_is_inside_window post b' e t Hc) by lia.
  subst post. rewrite tp_update_region_spec_b by exact Hwin.
  rewrite tp_own_after_window by exact Ht. fold b'. subst off mk. cbv beta in *.
  rewrite (tp_ranges_fixed_offset c rnd lb ranges b' e t Ht Hb (fun d Hd => Hno t d (or_introl eq_refl) Ht Hd)).
  rewrite Bool.eqb_reflx. exact IH'.
Qed.

(* ---------------- the oracle decides on the IsInside answers at instants taken from the written ranges ---------------- *)

(* any table: an observation that answers IsInside differently from the statement at a probe of the computed window
   is rejected - whatever segments, window and other answers it reports *)
Theorem tp_cal_step_rejects_wrong_answer base tab ma allr ranges prefer incs excs b e clear probes pre post ins t o :
  (negb clear && (e <? tp_ve_num pre)) = false ->
  In (t, o) (combine probes ins) ->
  tp_upd_begin b clear pre <= t < e ->
  o <> tp_cal_expect base tab false None ranges prefer incs excs t ->
  tp_cal_step_ok base tab ma allr ranges prefer incs excs b e clear probes pre post ins <> None.
Proof.
  intros Hn Hin Ht Ho. unfold tp_cal_step_ok.
  destruct (negb (tp_ins_ok post probes ins)); [discriminate|].
  rewrite Hn.
  destruct (negb (tp_covers_b post (tp_upd_begin b clear pre) e)); [discriminate|].
  destruct (negb (tp_probes_cover probes _)); [discriminate|].
  set (b' := tp_upd_begin b clear pre) in *.
  induction (combine probes ins) as [|[t1 o1] r IH]; [destruct Hin|].
  cbn [tp_cal_first_bad].
  destruct Hin as [Heq|Hin].
  - inversion Heq; subst t1 o1. assert (((b' <=? t) && (t <? e)) = true) as -> by lia.
    unfold tp_cal_classify.
    destruct (Bool.eqb o (tp_cal_expect base tab false None ranges prefer incs excs t)) eqn:E.
    + apply Bool.eqb_prop in E. contradiction.
    + repeat match goal with |- context [if ?c then _ else _] => destruct c end; discriminate.
  - destruct ((b' <=? t1) && (t1 <? e)); [|exact (IH Hin)].
    destruct (tp_cal_classify base tab ranges prefer incs excs (tp_local_day (tp_tab_off base tab) b') t1 o1); [discriminate|].
    exact (IH Hin).
Qed.

(* ... and it does not decide at all unless the probes contain what the written ranges ask for *)
Theorem tp_cal_step_needs_spec_probes base tab ma allr ranges prefer incs excs b e clear probes pre post ins :
  (negb clear && (e <? tp_ve_num pre)) = false ->
  tp_probes_cover probes (tp_spec_bounds base tab allr (tp_upd_begin b clear pre) e) = false ->
  tp_cal_step_ok base tab ma allr ranges prefer incs excs b e clear probes pre post ins <> None.
Proof.
  intros Hn Hc. unfold tp_cal_step_ok.
  destruct (negb (tp_ins_ok post probes ins)); [discriminate|].
  rewrite Hn.
  destruct (negb (tp_covers_b post (tp_upd_begin b clear pre) e)); [discriminate|].
  rewrite Hc. discriminate.
Qed.

(* what covering means: every boundary with both neighbours, and every gap of 4 s or more sampled in its middle half *)
Lemma tp_mem_in x l : tp_mem x l = true <-> In x l.
Proof.
  unfold tp_mem. rewrite existsb_exists. split.
  - intros (y & Hy & E). apply Z.eqb_eq in E. subst. exact Hy.
  - intros H. exists x. split; [exact H|apply Z.eqb_refl].
Qed.

Theorem tp_probes_cover_bounds probes bounds u :
  tp_probes_cover probes bounds = true -> In u bounds -> In (u - 1) probes /\ In u probes /\ In (u + 1) probes.
Proof.
  unfold tp_probes_cover. intros H Hu. apply andb_prop in H. destruct H as [H _].
  rewrite forallb_forall in H. specialize (H u Hu).
  apply andb_prop in H. destruct H as [H H3]. apply andb_prop in H. destruct H as [H1 H2].
  rewrite tp_mem_in in H1, H2, H3. auto.
Qed.
